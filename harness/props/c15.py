"""C15 - handlers call exactly the callbacks the event type and the match rules dictate.

Correspondence: the real FileSystemEventHandler / PatternMatchingEventHandler / RegexMatchingEventHandler
(recording subclasses) and the real _match_path / filter_paths / match_any_paths against the extracted
model `handlers`, on the same events and configurations.  The model's oracles (PurePosixPath.match,
PureWindowsPath.match, str.lower, re match) are finite tables computed here by pathlib / re themselves.
Oracle: the property text, evaluated directly on what the real handler did, with pathlib / re as the
reference evaluator.
"""
from __future__ import annotations

import itertools
import os
import re

from harness import core
from harness.core import Atom, Failure, Mismatch, Result, sx

MANIFEST = dict(
    design_ref="DESIGN.md §6 Group H (C15)",
    text="Coq theorems C15_base, C15_pattern_iff, C15_regex_iff, C15_filter_subseq, C15_match_any_agrees, C15_conflict, "
         "C15_*_defaults (for every match oracle, every pattern/regex list, every event: no size bound) about an executable "
         "model of the three dispatch methods and of watchdog.utils.patterns; the model is tied to /repo by running the "
         "extracted model and the real handlers/filters on an enumerated universe of events x configurations on every run; "
         "the property text itself is evaluated on the real handlers' recorded callbacks with pathlib/re as reference.",
    note="pathlib's PurePath.match, str.lower and re are oracles (Section variables in Coq, finite tables computed by "
         "pathlib/re in the correspondence). The regex clause is read with the same 'not an ignored directory event' "
         "condition as the pattern clause. Correspondence is enumerated over a small universe (sampled in the quick tier).",
    technique="Coq proof (list induction, boolean reflection) + differential correspondence via extracted OCaml model + "
              "direct evaluation of the property on recorded callbacks",
)

TRUSTED = [
    "modelled, not verified: pathlib.PurePosixPath/PureWindowsPath.match, str.lower, re.compile(...).match (oracles of the "
    "theorems; in the correspondence their tables are computed by pathlib/re themselves in this run)",
    "os.fsdecode is modelled as the identity on the (ASCII) universe and as preserving emptiness",
]
ASSUMPTIONS = [
    "glob patterns are valid for pathlib (non-empty; pathlib raises ValueError('empty pattern') otherwise) and regexes compile",
    "a configuration with a pattern both included and excluded is 'rejected' (ValueError): the iff clause is stated for "
    "configurations without such a pattern",
    "the bare FileSystemEvent class (event_type '') names no callback: AttributeError after on_any_event, modelled, not judged",
    "the regex handler's ignore_directories switch is read as in the pattern clause (not an ignored directory event)",
]

CLASSES = ["FileSystemEvent", "FileSystemMovedEvent", "FileDeletedEvent", "FileModifiedEvent", "FileCreatedEvent",
           "FileMovedEvent", "FileClosedEvent", "FileClosedNoWriteEvent", "FileOpenedEvent", "DirDeletedEvent",
           "DirModifiedEvent", "DirCreatedEvent", "DirMovedEvent"]
MOVE = {"FileSystemMovedEvent", "FileMovedEvent", "DirMovedEvent"}
DIRS = {"DirDeletedEvent", "DirModifiedEvent", "DirCreatedEvent", "DirMovedEvent"}
TYPE = {"FileSystemMovedEvent": "moved", "FileMovedEvent": "moved", "DirMovedEvent": "moved",
        "FileDeletedEvent": "deleted", "DirDeletedEvent": "deleted", "FileModifiedEvent": "modified",
        "DirModifiedEvent": "modified", "FileCreatedEvent": "created", "DirCreatedEvent": "created",
        "FileClosedEvent": "closed", "FileClosedNoWriteEvent": "closed_no_write", "FileOpenedEvent": "opened"}
CALLBACKS = ["on_any_event", "on_moved", "on_created", "on_deleted", "on_modified", "on_closed", "on_closed_no_write",
             "on_opened"]
REPRESENTATIVE = ["FileCreatedEvent", "DirCreatedEvent", "FileMovedEvent", "DirMovedEvent"]

MAX_FAILURES = 120


# ------------------------------------------------------------------ universe
def universe(extended: bool):
    """The base universe (enumerated) or the extended one (thorough tier, sampled)."""
    comps = ["a", "A", "b"] + (["ab", "B"] if extended else [])
    paths = comps + [x + "/" + y for x in comps for y in comps]
    gpats = ["*", "a", "A", "b", "a*", "*/a", "a/*", "**", "?", "*/*"]
    if extended:
        gpats += ["B", "*b", "[ab]", "a/b"]
    regexes = ["a", "A", ".*b$", "a/.*", "^$", "(?!a)", "a*", ".*/A$"]
    if extended:
        regexes += ["[ab]$", "b|.*/b"]
    return comps, paths, gpats, regexes


def lists_upto2(items, with_none=True):
    out = ([None] if with_none else []) + [[]] + [[p] for p in items] + [list(c) for c in itertools.combinations(items, 2)]
    return out


class Oracles:
    """Tables computed by pathlib / re / str.lower themselves."""

    def __init__(self, paths, gpats, regexes):
        from pathlib import PurePosixPath, PureWindowsPath
        self.paths = list(dict.fromkeys([""] + list(paths)))
        self.low = {}
        for p in list(gpats) + ["*"]:
            self.low[p] = p.lower()
        for p in list(self.low.values()):
            self.low.setdefault(p, p.lower())
        self.glob = {}
        for path in self.paths:
            pp, wp = PurePosixPath(path), PureWindowsPath(path)
            for pat in self.low:
                self.glob[(path, pat)] = (pp.match(pat), wp.match(pat))
        self.regexes = list(dict.fromkeys(list(regexes) + [".*"]))
        self.re = {}
        for r in self.regexes:
            for cs in (True, False):
                c = re.compile(r) if cs else re.compile(r, re.IGNORECASE)
                for path in self.paths:
                    self.re[(cs, r, path)] = c.match(path) is not None

    def line(self) -> str:
        return sx([Atom("oracle"),
                   [Atom("lower")] + [[p, l] for p, l in self.low.items()],
                   [Atom("glob")] + [[p, q, a, b] for (p, q), (a, b) in self.glob.items()],
                   [Atom("re")] + [[cs, r, p, b] for (cs, r, p), b in self.re.items()]])

    # "path matches pattern, case folded when case-insensitive"
    def gm(self, cs, path, pat):
        return self.glob[(path, pat)][0] if cs else self.glob[(path, self.low[pat])][1]

    def selected(self, cs, path, incl, excl):
        return any(self.gm(cs, path, i) for i in incl) and not any(self.gm(cs, path, x) for x in excl)

    def conflict(self, cs, incl, excl):
        if cs:
            return bool(set(incl) & set(excl))
        return bool({self.low[p] for p in incl} & {self.low[p] for p in excl})


# ------------------------------------------------------------------ real code under test
def recorders():
    from watchdog import events as E

    def mk(base):
        ns = {}
        for cb in CALLBACKS:
            def f(self, event, _cb=cb):
                self.calls.append(_cb)
            ns[cb] = f

        def __init__(self, **kw):
            base.__init__(self, **kw)
            self.calls = []
        ns["__init__"] = __init__
        return type("Rec" + base.__name__, (base,), ns)

    return mk(E.FileSystemEventHandler), mk(E.PatternMatchingEventHandler), mk(E.RegexMatchingEventHandler)


def make_event(spec):
    from watchdog import events as E
    cls, src, dest, as_bytes = spec
    conv = os.fsencode if as_bytes else (lambda s: s)
    c = getattr(E, cls)
    if dest == "" and cls not in MOVE:
        return c(conv(src))            # dest_path keeps its default ""
    return c(conv(src), conv(dest))


def observe(h, ev) -> str:
    """Dispatch on the real handler; encode exactly like the model's outcome atom."""
    h.calls = calls = []
    try:
        h.dispatch(ev)
    except Exception as ex:  # noqa: BLE001 - every exception is an observable outcome
        return "raised:" + type(ex).__name__ + ":" + ",".join(calls)
    return "done:" + ",".join(calls)


def ev_json(spec):
    cls, src, dest, as_bytes = spec
    return {"cls": cls, "src": src, "dest": dest, "bytes": as_bytes}


def ev_wire(spec):
    return [Atom(spec[0]), spec[1], spec[2]]


def opt(l):
    return None if l is None else [l]


# ------------------------------------------------------------------ event sets
def events_all_classes(paths):
    """Every class x every path (move classes: every ordered pair) x str/bytes, plus the empty-path edges."""
    out = []
    for cls in CLASSES:
        for b in (False, True):
            if cls in MOVE:
                for s in paths:
                    for d in paths:
                        out.append((cls, s, d, b))
                for p in paths[:3]:
                    out.append((cls, "", p, b))
                    out.append((cls, p, "", b))
                out.append((cls, "", "", b))
            else:
                for s in paths:
                    out.append((cls, s, "", b))
                out.append((cls, "", "", b))
                out.append((cls, paths[0], paths[-1], b))     # a non-move class given a destination
                out.append((cls, "", paths[0], b))
    return out


def events_representative(paths):
    out = []
    for cls in REPRESENTATIVE:
        if cls in MOVE:
            out += [(cls, s, d, False) for s in paths for d in paths]
            out += [(cls, "", paths[0], False), (cls, paths[0], "", False)]
        else:
            out += [(cls, s, "", False) for s in paths]
        out.append((cls, "", "", False))
    return out


# ------------------------------------------------------------------ the property text, evaluated on the real outcome
def expected_dispatch(cls):
    return "done:on_any_event,on_" + TYPE[cls]


def judge_pattern(orc: Oracles, cfg, spec, got):
    """None if `got` is allowed by the property, else (law, expected)."""
    incl, excl, igd, cs = cfg
    cls, src, dest, _ = spec
    if cls == "FileSystemEvent":
        return None
    i = ["*"] if incl is None else incl          # defaults mean include-all / exclude-none
    x = [] if excl is None else excl
    own = [p for p in (src, dest) if p]          # its paths
    rule = (not (igd and cls in DIRS)) and any(orc.selected(cs, p, i, x) for p in own)
    want = expected_dispatch(cls) if rule else "done:"
    if got == want:
        return None
    if orc.conflict(cs, i, x) and got == "raised:ValueError:":
        return None                               # a pattern both included and excluded is rejected
    if got == expected_dispatch(cls):
        return "dispatched although no path of the event matches an include pattern and no exclude pattern", want
    if got == "done:":
        return "not dispatched although a path of the event matches an include pattern and no exclude pattern", want
    return "neither the exact callbacks nor none", want


def judge_regex(orc: Oracles, cfg, spec, got):
    spec_r, ign, igd, cs = cfg
    cls, src, dest, _ = spec
    if cls == "FileSystemEvent":
        return None
    rs = [".*"] if spec_r is None else ([spec_r] if isinstance(spec_r, str) else spec_r)
    ig = [] if ign is None else ign
    own = [p for p in (src, dest) if p]
    ignored = any(orc.re[(cs, r, p)] for r in ig for p in own)
    included = any(orc.re[(cs, r, p)] for r in rs for p in own)
    rule = (not (igd and cls in DIRS)) and not ignored and included
    want = expected_dispatch(cls) if rule else "done:"
    if got == want:
        return None
    if got == expected_dispatch(cls):
        law = ("dispatched although a path matches an ignore regex" if ignored
               else "dispatched although no path of the event matches an include regex")
        return law, want
    if got == "done:":
        law = ("not dispatched although no path matches an ignore regex and a path matches an include regex")
        return law, want
    return "neither the exact callbacks nor none", want


def cause_pattern(orc, cfg, spec):
    incl, excl, igd, cs = cfg
    i = ["*"] if incl is None else incl
    x = [] if excl is None else excl
    if (spec[1] == "" or spec[2] == "") and orc.selected(cs, "", i, x):
        return "an empty src/dest path was matched"
    return "other"


def cause_regex(orc, cfg, spec):
    spec_r, ign, igd, cs = cfg
    rs = [".*"] if spec_r is None else ([spec_r] if isinstance(spec_r, str) else spec_r)
    ig = [] if ign is None else ign
    if (spec[1] == "" or spec[2] == "") and any(orc.re[(cs, r, "")] for r in rs + ig):
        return "an empty src/dest path was matched"
    return "other"


def add_failure(res: Result, f: Failure):
    if len(res.failures) < MAX_FAILURES:
        res.failures.append(f)
    else:
        res.histograms.setdefault("failures_not_listed", {"n": 0})["n"] += 1


# ------------------------------------------------------------------ runners
def pattern_cfg_wire(variant, cfg):
    incl, excl, igd, cs = cfg
    return sx([Atom("pattern"), Atom(variant), opt(incl), opt(excl), igd, cs])


def regex_cfg_wire(variant, cfg):
    spec_r, ign, igd, cs = cfg
    if spec_r is None:
        s = Atom("none")
    elif isinstance(spec_r, str):
        s = [Atom("str"), spec_r]
    else:
        s = [Atom("list")] + list(spec_r)
    return sx([Atom("regex"), Atom(variant), s, opt(ign), igd, cs])


def cfg_json(kind, cfg):
    if kind == "pattern":
        return {"patterns": cfg[0], "ignore_patterns": cfg[1], "ignore_directories": cfg[2], "case_sensitive": cfg[3]}
    return {"regexes": cfg[0], "ignore_regexes": cfg[1], "ignore_directories": cfg[2], "case_sensitive": cfg[3]}


def run_handlers(ctx, res: Result, orc: Oracles, kind: str, specs, configs, label: str, chunk: int = 400):
    """kind = 'pattern' | 'regex'.  Every config x every event: real handler, model, oracle."""
    _, RecP, RecR = recorders()
    evs = [make_event(s) for s in specs]
    head = [orc.line(), sx([Atom("events")] + [ev_wire(s) for s in specs])]
    judge = judge_pattern if kind == "pattern" else judge_regex
    cause = cause_pattern if kind == "pattern" else cause_regex
    cfg_wire = pattern_cfg_wire if kind == "pattern" else regex_cfg_wire
    hname = "PatternMatchingEventHandler" if kind == "pattern" else "RegexMatchingEventHandler"
    mismatch_cfgs = []
    nspecs = len(specs)
    moveflag = [s[0] in MOVE for s in specs]
    shape = [(s[1], s[2], s[0] in DIRS) for s in specs]
    for off in range(0, len(configs), chunk):
        part = configs[off:off + chunk]
        outs = core.run_model("handlers", head + [cfg_wire("fixed", c) for c in part])[2:]
        for ci, (cfg, mout) in enumerate(zip(part, outs)):
            if kind == "pattern":
                h = RecP(patterns=cfg[0], ignore_patterns=cfg[1], ignore_directories=cfg[2], case_sensitive=cfg[3])
                nondefault = cfg[0] is not None or cfg[1] is not None
            else:
                h = RecR(regexes=cfg[0], ignore_regexes=cfg[1], ignore_directories=cfg[2], case_sensitive=cfg[3])
                nondefault = cfg[0] is not None or cfg[1] is not None
            cfgkey = repr(cfg)
            if not isinstance(mout, list) or len(mout) != nspecs:
                res.mismatches.append(Mismatch(pair=hname + ".dispatch", case=cfg_json(kind, cfg), model=str(mout)[:300],
                                               impl="(model gave no per-event answer)"))
                continue
            bad_here = False
            for ei in range(nspecs):
                got = observe(h, evs[ei])
                if got != mout[ei]:
                    bad_here = True
                    if len(res.mismatches) < 40:
                        res.mismatches.append(Mismatch(pair=hname + ".dispatch",
                                                       case={"handler": kind, **cfg_json(kind, cfg), **ev_json(specs[ei])},
                                                       model=mout[ei], impl=got))
                    else:
                        res.hist("mismatches_not_listed", hname)
                verdict = judge(orc, cfg, specs[ei], got)
                if verdict:
                    spec = specs[ei]
                    add_failure(res, Failure(
                        what=f"{hname}: {verdict[0]}",
                        case={"handler": kind, **cfg_json(kind, cfg), **ev_json(spec)},
                        signature={"handler": hname, "law": verdict[0], "cause": cause(orc, cfg, spec),
                                   "move_event": spec[0] in MOVE},
                        observed=got, expected=verdict[1]))
                if nondefault and (got != "done:" or moveflag[ei]):
                    res.nontrivial.add(hash((kind, cfgkey, shape[ei])))
            res.evaluations += nspecs
            res.traces_validated += nspecs
            if bad_here:
                mismatch_cfgs.append(cfg)
            res.hist(kind + "_config_shape", f"incl={'None' if cfg[0] is None else 'str' if isinstance(cfg[0], str) else len(cfg[0])}"
                                             f"/excl={'None' if cfg[1] is None else len(cfg[1])}")
            res.hist(kind + "_flags", f"ignore_directories={cfg[2]}/case_sensitive={cfg[3]}")
    res.hist("events_per_config", f"{label}:{kind}:{nspecs}")
    # diagnostic: are the disagreements exactly the pinned behaviour (dest_path always appended)?
    if mismatch_cfgs and (label != "single" or not any(n.startswith("single/") for n in res.notes)):
        probe = mismatch_cfgs[:60]
        pouts = core.run_model("handlers", head + [cfg_wire("pinned", c) for c in probe])[2:]
        explained = 0
        for cfg, mout in zip(probe, pouts):
            if kind == "pattern":
                h = RecP(patterns=cfg[0], ignore_patterns=cfg[1], ignore_directories=cfg[2], case_sensitive=cfg[3])
            else:
                h = RecR(regexes=cfg[0], ignore_regexes=cfg[1], ignore_directories=cfg[2], case_sensitive=cfg[3])
            if isinstance(mout, list) and all(observe(h, evs[ei]) == mout[ei] for ei in range(nspecs)):
                explained += 1
        res.notes.append(f"{label}/{kind}: {len(mismatch_cfgs)} configurations disagree with the model of the repaired code; "
                         f"{explained}/{len(probe)} probed ones agree exactly with the model of the pinned code "
                         f"(dest_path always appended)")


def run_base(ctx, res: Result, specs):
    RecB, _, _ = recorders()
    h = RecB()
    cases, gots = [], []
    for spec in specs:
        got = observe(h, make_event(spec))
        cases.append(sx([Atom("base")] + ev_wire(spec)))
        gots.append(got)
        res.evaluations += 1
        res.hist("base_class", spec[0])
        if spec[0] != "FileSystemEvent":
            res.nontrivial.add(hash(("base", spec)))
            if got != expected_dispatch(spec[0]):
                add_failure(res, Failure(
                    what="FileSystemEventHandler: not exactly on_any_event then the one on_<type> callback, once each",
                    case={"handler": "base", **ev_json(spec)}, signature={"handler": "FileSystemEventHandler", "cls": spec[0]},
                    observed=got, expected=expected_dispatch(spec[0])))
    outs = core.run_model("handlers", cases)
    for spec, o, g in zip(specs, outs, gots):
        res.traces_validated += 1
        if o != g:
            res.mismatches.append(Mismatch(pair="FileSystemEventHandler.dispatch", case={"handler": "base", **ev_json(spec)},
                                           model=o, impl=g))
    # the event classes of the module are exactly the modelled ones, with the modelled attributes
    from watchdog import events as E
    import dataclasses
    found = sorted(n for n, c in vars(E).items() if isinstance(c, type) and issubclass(c, E.FileSystemEvent))
    if found != sorted(CLASSES):
        res.mismatches.append(Mismatch(pair="event classes", case="watchdog.events", model=sorted(CLASSES), impl=found))
    for n in CLASSES:
        c = getattr(E, n)
        if n != "FileSystemEvent" and (c.event_type != TYPE[n] or c.is_directory != (n in DIRS)):
            res.mismatches.append(Mismatch(pair="event class attributes", case=n, model=[TYPE[n], n in DIRS],
                                           impl=[c.event_type, c.is_directory]))
    if not dataclasses.is_dataclass(E.FileSystemEvent) or E.FileSystemEvent("x").dest_path != "":
        res.mismatches.append(Mismatch(pair="dest_path default", case="FileSystemEvent('x').dest_path", model="''", impl="?"))


def is_subseq(l, m):
    it = iter(m)
    return all(any(x == y for y in it) for x in l)


def run_filters(ctx, res: Result, orc: Oracles, gpats, n_lists: int, n_combos):
    """_match_path, filter_paths, match_any_paths directly: sub-sequence law, agreement with pathlib, conflicts."""
    from watchdog.utils import patterns as P
    rng = ctx.rng("filters")
    cfgs = lists_upto2(gpats)
    allp = orc.paths                        # includes ""
    path_lists = [[]] + [[p] for p in allp]
    while len(path_lists) < n_lists:
        path_lists.append([rng.choice(allp) for _ in range(rng.randint(2, 4))])
    cases, impls, metas = [orc.line()], [None], [None]

    def call(f):
        try:
            return f()
        except ValueError as ex:
            return "conflict" if "conflicting patterns" in str(ex) else "ValueError:" + str(ex)
        except Exception as ex:  # noqa: BLE001
            return type(ex).__name__

    combos = [(i, x, cs) for i in cfgs for x in cfgs for cs in (True, False)]
    full = n_combos is None
    if not full:
        combos = rng.sample(combos, min(len(combos), n_combos))
    for (incl, excl, cs) in combos:
        i = ["*"] if incl is None else incl
        x = [] if excl is None else excl
        confl = orc.conflict(cs, i, x)
        kw = dict(included_patterns=incl, excluded_patterns=excl, case_sensitive=cs)
        plists = path_lists if full else rng.sample(path_lists, min(len(path_lists), 8))
        for pl in plists:
            meta = {"fn": "filter_paths", "paths": pl, **kw}
            got = call(lambda: list(P.filter_paths(list(pl), **kw)))
            cases.append(sx([Atom("filter"), pl, opt(incl), opt(excl), cs]))
            impls.append(got)
            metas.append(meta)
            res.evaluations += 1
            want = [p for p in pl if orc.selected(cs, p, i, x)]
            if confl and pl:
                if got != "conflict":
                    add_failure(res, Failure(what="filter_paths: a pattern both included and excluded is not rejected",
                                             case=meta, signature={"fn": "filter_paths", "law": "conflict"}, observed=got,
                                             expected="ValueError"))
            elif not (confl and got == "conflict"):
                if not isinstance(got, list) or not is_subseq(got, pl):
                    add_failure(res, Failure(what="filter_paths: result is not a sub-sequence of the input", case=meta,
                                             signature={"fn": "filter_paths", "law": "sub-sequence"}, observed=got, expected=want))
                elif got != want:
                    add_failure(res, Failure(what="filter_paths: result differs from pathlib's own matching", case=meta,
                                             signature={"fn": "filter_paths", "law": "agrees with pathlib"}, observed=got,
                                             expected=want))
            if len(want) not in (0, len(pl)):
                res.nontrivial.add(hash(("filter", tuple(pl), repr(incl), repr(excl), cs)))
            meta2 = {"fn": "match_any_paths", "paths": pl, **kw}
            got2 = call(lambda: P.match_any_paths(list(pl), **kw))
            cases.append(sx([Atom("any"), Atom("fixed"), pl, opt(incl), opt(excl), cs]))
            impls.append(got2)
            metas.append(meta2)
            res.evaluations += 1
            if confl and pl:
                if got2 != "conflict":
                    add_failure(res, Failure(what="match_any_paths: a pattern both included and excluded is not rejected",
                                             case=meta2, signature={"fn": "match_any_paths", "law": "conflict"}, observed=got2,
                                             expected="ValueError"))
            elif not (confl and got2 == "conflict"):
                if got2 is not bool(want):
                    add_failure(res, Failure(
                        what="match_any_paths: answer differs from pathlib's own matching of the given paths", case=meta2,
                        signature={"fn": "match_any_paths", "law": "agrees with pathlib",
                                   "cause": "a matching empty path is not counted" if "" in want and not any(want) else "other"},
                        observed=got2, expected=bool(want)))
        for p in (allp if full else rng.sample(allp, 4)):
            meta3 = {"fn": "_match_path", "path": p, "included": i, "excluded": x, "case_sensitive": cs}
            got3 = call(lambda: P._match_path(p, set(i), set(x), case_sensitive=cs))
            cases.append(sx([Atom("matchpath"), p, i, x, cs]))
            impls.append(got3)
            metas.append(meta3)
            res.evaluations += 1
            if confl:
                if got3 != "conflict":
                    add_failure(res, Failure(what="_match_path: a pattern both included and excluded is not rejected", case=meta3,
                                             signature={"fn": "_match_path", "law": "conflict"}, observed=got3, expected="ValueError"))
            elif got3 is not orc.selected(cs, p, i, x):
                add_failure(res, Failure(what="_match_path: differs from pathlib's own matching", case=meta3,
                                         signature={"fn": "_match_path", "law": "agrees with pathlib"}, observed=got3,
                                         expected=orc.selected(cs, p, i, x)))
        res.hist("filter_conflict", confl)
    outs = core.run_model("handlers", cases)
    for o, im, me in list(zip(outs, impls, metas))[1:]:
        res.traces_validated += 1
        if isinstance(o, list) and o and o[0] == "ok":
            mo = [core.unhex(a) if isinstance(a, str) else core.unhex(a) for a in o[1]]
            mo = [b.decode() if isinstance(b, bytes) else b for b in mo]
        elif o == "1":
            mo = True
        elif o == "0":
            mo = False
        else:
            mo = o
        if mo != im or type(mo) is not type(im):
            if len(res.mismatches) < 40:
                res.mismatches.append(Mismatch(pair="patterns." + me["fn"], case=me, model=mo, impl=im))
            else:
                res.hist("mismatches_not_listed", me["fn"])


def validate_oracle_facts(res: Result, orc: Oracles, paths):
    """The oracle hypotheses of the 'defaults' theorems, on this universe: "*" matches every non-empty path of the
    universe in both flavours, '.*' matches everything, str.lower fixes '*'; os.fsdecode/fsencode round-trip."""
    for p in paths:
        res.evaluations += 1
        if not (orc.gm(True, p, "*") and orc.gm(False, p, "*")):
            res.mismatches.append(Mismatch(pair="oracle: '*' includes all", case=p, model=True, impl=False))
        if not (orc.re[(True, ".*", p)] and orc.re[(False, ".*", p)]):
            res.mismatches.append(Mismatch(pair="oracle: '.*' includes all", case=p, model=True, impl=False))
        if os.fsdecode(os.fsencode(p)) != p or bool(os.fsencode(p)) != bool(p):
            res.mismatches.append(Mismatch(pair="os.fsdecode", case=p, model=p, impl=os.fsdecode(os.fsencode(p))))
    if os.fsdecode(b"") != "" or os.fsdecode("") != "":
        res.mismatches.append(Mismatch(pair="os.fsdecode", case="", model="", impl=os.fsdecode(b"")))
    # "case folded when case-insensitive", read independently of PureWindowsPath: fold path and pattern, match as posix
    from pathlib import PurePosixPath
    for (p, q), (a, b) in orc.glob.items():
        if not p:
            continue
        res.evaluations += 1
        folded = PurePosixPath(p.lower()).match(q.lower())
        if orc.glob[(p, orc.low[q])][1] != folded:
            add_failure(res, Failure(
                what="_match_path: case-insensitive matching (PureWindowsPath, lower-cased pattern) differs from matching the "
                     "case-folded path against the case-folded pattern",
                case={"fn": "_match_path", "path": p, "included": [q], "excluded": [], "case_sensitive": False},
                signature={"fn": "_match_path", "law": "case folding"}, observed=orc.glob[(p, orc.low[q])][1], expected=folded))
    empties = sorted(q for (p, q), (a, b) in orc.glob.items() if p == "" and (a or b))
    res.notes.append(f"glob patterns of the universe that pathlib matches against the empty path: {empties}; "
                     f"regexes that match the empty string: {sorted(r for (cs, r, p), b in orc.re.items() if p == '' and b and cs)}")


def pattern_configs(gpats):
    ls = lists_upto2(gpats)
    return [(i, x, igd, cs) for i in ls for x in ls for igd in (False, True) for cs in (False, True)]


def regex_configs(regexes):
    incl = lists_upto2(regexes) + list(regexes)          # a bare str is accepted for `regexes`
    ign = lists_upto2(regexes)
    return [(i, x, igd, cs) for i in incl for x in ign for igd in (False, True) for cs in (False, True)]


def corpus_cases():
    return [
        {"handler": "regex", "regexes": ["^$"], "ignore_regexes": None, "ignore_directories": False, "case_sensitive": True,
         "cls": "FileCreatedEvent", "src": "a", "dest": "", "bytes": False},
        {"handler": "regex", "regexes": None, "ignore_regexes": ["(?!a)"], "ignore_directories": False, "case_sensitive": False,
         "cls": "FileModifiedEvent", "src": "a/b", "dest": "", "bytes": True},
        {"handler": "pattern", "patterns": ["**"], "ignore_patterns": ["a"], "ignore_directories": False, "case_sensitive": True,
         "cls": "FileCreatedEvent", "src": "a", "dest": "", "bytes": False},
        {"handler": "pattern", "patterns": ["a"], "ignore_patterns": ["b"], "ignore_directories": True, "case_sensitive": False,
         "cls": "FileMovedEvent", "src": "A", "dest": "b", "bytes": False},
        {"handler": "pattern", "patterns": ["A", "*"], "ignore_patterns": ["a"], "ignore_directories": False,
         "case_sensitive": False, "cls": "DirDeletedEvent", "src": "b", "dest": "", "bytes": False},
    ]


def run_single(ctx, res: Result, case: dict):
    """One handler case (corpus / replay): real, model (repaired and pinned), oracle."""
    kind = case["handler"]
    spec = (case["cls"], case["src"], case["dest"], bool(case.get("bytes")))
    if kind == "base":
        run_base(ctx, res, [spec])
        return
    if kind == "pattern":
        cfg = (case["patterns"], case["ignore_patterns"], case["ignore_directories"], case["case_sensitive"])
        pats = set((cfg[0] or []) + (cfg[1] or []))
        orc = Oracles([spec[1], spec[2]], sorted(pats), [])
    else:
        cfg = (case["regexes"], case["ignore_regexes"], case["ignore_directories"], case["case_sensitive"])
        rs = ([cfg[0]] if isinstance(cfg[0], str) else (cfg[0] or [])) + (cfg[1] or [])
        orc = Oracles([spec[1], spec[2]], [], sorted(set(rs)))
    run_handlers(ctx, res, orc, kind, [spec], [cfg], "single")


def run(ctx) -> Result:
    res = Result()
    thorough = ctx.thorough
    comps, paths, gpats, regexes = universe(False)
    orc = Oracles(paths, gpats, regexes)
    rng = ctx.rng("configs")
    validate_oracle_facts(res, orc, paths)
    # corpus and adversarial cases first
    for c in corpus_cases() + [c.get("case", c) for c in ctx.corpus()]:
        if isinstance(c, dict) and c.get("handler") in ("pattern", "regex", "base"):
            run_single(ctx, res, c)
    allspecs = events_all_classes(paths)
    run_base(ctx, res, allspecs)
    repspecs = events_representative(paths)
    pcfgs, rcfgs = pattern_configs(gpats), regex_configs(regexes)
    res.hist("universe", f"paths={len(paths)} gpats={len(gpats)} regexes={len(regexes)} pattern_configs={len(pcfgs)} "
                         f"regex_configs={len(rcfgs)} events_all={len(allspecs)} events_rep={len(repspecs)}")
    nA, nB = (150, 1300) if not thorough else (600, None)
    for kind, cfgs in (("pattern", pcfgs), ("regex", rcfgs)):
        run_handlers(ctx, res, orc, kind, allspecs, rng.sample(cfgs, min(nA, len(cfgs))), "A")
        partB = cfgs if nB is None else rng.sample(cfgs, min(nB, len(cfgs)))
        run_handlers(ctx, res, orc, kind, repspecs, partB, "B")
        if nB is None:
            res.notes.append(f"part B/{kind}: exhaustive over all {len(cfgs)} configurations x {len(repspecs)} events "
                             f"of the base universe")
    run_filters(ctx, res, orc, gpats, 40 if not thorough else 100, 900 if not thorough else None)
    ext = ""
    if thorough:
        # the extended universe (longer components, upper-case pattern, character class, alternation): sampled
        comps2, paths2, gpats2, regexes2 = universe(True)
        orc2 = Oracles(paths2, gpats2, regexes2)
        validate_oracle_facts(res, orc2, paths2)
        all2, rep2 = events_all_classes(paths2), events_representative(paths2)
        run_base(ctx, res, all2)
        p2, r2 = pattern_configs(gpats2), regex_configs(regexes2)
        for kind, cfgs in (("pattern", p2), ("regex", r2)):
            run_handlers(ctx, res, orc2, kind, all2, rng.sample(cfgs, 80), "A-ext")
            run_handlers(ctx, res, orc2, kind, rep2, rng.sample(cfgs, 500), "B-ext")
        run_filters(ctx, res, orc2, gpats2, 100, 3000)
        ext = (f"; thorough tier additionally samples an extended universe: components {comps2}, globs {gpats2}, regexes "
               f"{regexes2} ({len(p2)} / {len(r2)} configs, {len(all2)} / {len(rep2)} events)")
    res.rule = (
        f"events: the 13 classes of watchdog.events x paths with one or two components over {comps} "
        f"(move classes: every ordered pair; plus empty-path edges), str and bytes; pattern handler configs: "
        f"patterns/ignore_patterns in None, [], every list of <= 2 of {gpats} x ignore_directories x case_sensitive "
        f"({len(pcfgs)}); regex handler configs likewise over {regexes}, plus a bare str for regexes ({len(rcfgs)}); "
        f"part A = all classes x str/bytes ({len(allspecs)} events) x a random sample of configs, part B = 4 representative "
        f"classes (file/dir x move/non-move, {len(repspecs)} events) x "
        f"{'ALL configs' if thorough else 'a random sample of configs'}; filters: _match_path/filter_paths/match_any_paths "
        f"on path lists of length <= 4 incl. the empty path x {'ALL' if thorough else 'sampled'} include/exclude lists{ext}. "
        f"distinct = (handler kind, config, src, dest, is_directory) - the class and str/bytes are not counted; non-trivial = "
        f"a config with a non-default list and an event that is dispatched or is a move event; for the filters: a selection "
        f"that keeps some but not all paths")
    res.samples = [
        {"handler": "pattern", **cfg_json("pattern", pcfgs[len(pcfgs) // 3]), **ev_json(repspecs[len(repspecs) // 2])},
        {"handler": "regex", **cfg_json("regex", rcfgs[len(rcfgs) // 2]), **ev_json(allspecs[len(allspecs) // 2])},
        {"handler": "base", **ev_json(allspecs[7])},
        {"fn": "filter_paths", "paths": ["a", "", "A/b"], "included_patterns": ["a", "*/b"], "excluded_patterns": None,
         "case_sensitive": False},
    ]
    return res


def replay(ctx, obj) -> int:
    case = obj.get("case", obj)
    print("replay case:", case)
    res = Result()
    if "handler" in case:
        run_single(ctx, res, case)
    elif case.get("fn") in ("filter_paths", "match_any_paths"):
        from watchdog.utils import patterns as P
        kw = dict(included_patterns=case["included_patterns"], excluded_patterns=case["excluded_patterns"],
                  case_sensitive=case["case_sensitive"])
        i = ["*"] if kw["included_patterns"] is None else kw["included_patterns"]
        x = [] if kw["excluded_patterns"] is None else kw["excluded_patterns"]
        orc = Oracles(case["paths"], sorted(set(i + x)), [])
        want = [p for p in case["paths"] if orc.selected(kw["case_sensitive"], p, i, x)]
        try:
            got = list(P.filter_paths(list(case["paths"]), **kw)) if case["fn"] == "filter_paths" else \
                P.match_any_paths(list(case["paths"]), **kw)
        except ValueError as ex:
            got = "ValueError: " + str(ex)
        exp = want if case["fn"] == "filter_paths" else bool(want)
        confl = orc.conflict(kw["case_sensitive"], i, x)
        print(f"{case['fn']} -> {got!r}; pathlib's own matching selects {want!r}; a pattern is both included and excluded: {confl}")
        if confl and case["paths"]:
            if not (isinstance(got, str) and got.startswith("ValueError")):
                res.failures.append(Failure(what=case["fn"] + ": a pattern both included and excluded is not rejected", case=case,
                                            observed=got, expected="ValueError"))
        elif got != exp and not (confl and isinstance(got, str)):
            res.failures.append(Failure(what=case["fn"] + " differs from pathlib's own matching", case=case, observed=got,
                                        expected=exp))
    elif case.get("fn") == "_match_path":
        from watchdog.utils import patterns as P
        orc = Oracles([case["path"]], sorted(set(case["included"] + case["excluded"])), [])
        try:
            got = P._match_path(case["path"], set(case["included"]), set(case["excluded"]), case_sensitive=case["case_sensitive"])
        except ValueError as ex:
            got = "ValueError: " + str(ex)
        exp = orc.selected(case["case_sensitive"], case["path"], case["included"], case["excluded"])
        confl = orc.conflict(case["case_sensitive"], case["included"], case["excluded"])
        print(f"_match_path -> {got!r}; pathlib: {exp!r}; a pattern is both included and excluded: {confl}")
        if confl:
            if not isinstance(got, str):
                res.failures.append(Failure(what="_match_path: a pattern both included and excluded is not rejected", case=case,
                                            observed=got, expected="ValueError"))
        elif got != exp:
            res.failures.append(Failure(what="_match_path differs from pathlib", case=case, observed=got, expected=exp))
    for f in res.failures:
        print("FAIL:", f.what, "| observed", f.observed, "| expected", f.expected)
    for m in res.mismatches:
        print("MISMATCH:", m.pair, "| model", m.model, "| impl", m.impl)
    for n in res.notes:
        print("note:", n)
    if not res.failures and not res.mismatches:
        print("OK: the real code satisfies the property on this case and agrees with the model")
    return 1 if res.failures or res.mismatches else 0
