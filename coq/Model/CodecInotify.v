(* The raw inotify buffer: struct inotify_event { __s32 wd; __u32 mask; __u32 cookie; __u32 len;
   char name[len]; } records back to back, and Inotify._parse_event_buffer (inotify_c.py).
   Definitions only. *)
Require Import WD.Base.Prelude WD.Base.Le32.

(* what the parser yields: (wd, mask, cookie, name) *)
Record irec := IRec { i_wd : Z; i_mask : N; i_cookie : N; i_name : bytes }.

(* One record as the kernel writes it: [pad] NUL bytes after the name, len = |name| + pad.
   (The kernel pads to a multiple of 16 with at least one NUL for a non-empty name and writes
   len = 0 for an empty one; the encoder is more general: any pad >= 0 for any name.) *)
Definition enc_one (r : irec) (pad : nat) : bytes :=
  le32 (of_s32 (i_wd r)) ++ le32 (i_mask r) ++ le32 (i_cookie r)
  ++ le32 (N.of_nat (length (i_name r) + pad)) ++ i_name r ++ repeat 0%N pad.

Definition encode (rs : list (irec * nat)) : bytes :=
  flat_map (fun rp => enc_one (fst rp) (snd rp)) rs.

(* bytes.rstrip(b"\0") *)
Fixpoint drop_nul (r : bytes) : bytes :=
  match r with
  | c :: r' => if N.eqb c 0 then drop_nul r' else r
  | [] => []
  end.
Definition rstrip_nul (s : bytes) : bytes := rev (drop_nul (rev s)).

(* i = 0
   while i + 16 <= len(event_buffer):
       wd, mask, cookie, length = struct.unpack_from("iIII", event_buffer, i)
       name = event_buffer[i + 16 : i + 16 + length].rstrip(b"\0")     # slices clamp, never raise
       i += 16 + length
       yield wd, mask, cookie, name
   [buf] is event_buffer[i:]; one unit of fuel per iteration; running out of fuel is None
   (never happens with fuel = len(buffer): every iteration consumes >= 16 bytes). *)
Fixpoint decode_go (fuel : nat) (buf : bytes) : option (list irec) :=
  if (length buf <? 16)%nat then Some []
  else match fuel with
       | O => None
       | S f =>
         let body := skipn 16 buf in
         (* slices clamp at the end of the buffer; clamping before the conversion to nat keeps the
            extracted model cheap on a malformed length field *)
         let len := N.to_nat (N.min (u32_at 12 buf) (N.of_nat (length body))) in
         let r := IRec (to_s32 (u32_at 0 buf)) (u32_at 4 buf) (u32_at 8 buf)
                       (rstrip_nul (firstn len body)) in
         match decode_go f (skipn len body) with
         | Some l => Some (r :: l)
         | None => None
         end
       end.

Definition decode (buf : bytes) : option (list irec) := decode_go (length buf) buf.

(* well-formed record: fields in the range of their C types, name bytes, name not ending in NUL
   (rstrip cannot tell a trailing NUL of the name from padding), total len fits __u32. *)
Definition ends_nul (s : bytes) : bool :=
  match rev s with c :: _ => N.eqb c 0 | [] => false end.

Definition valid_rec (rp : irec * nat) : Prop :=
  let r := fst rp in
  (-2147483648 <= i_wd r < 2147483648)%Z /\ (i_mask r < 4294967296)%N /\ (i_cookie r < 4294967296)%N /\
  (N.of_nat (length (i_name r) + snd rp) < 4294967296)%N /\ ends_nul (i_name r) = false.

Definition valid (rs : list (irec * nat)) : Prop := Forall valid_rec rs.

(* executable version for the examples / the runner *)
Definition valid_recb (rp : irec * nat) : bool :=
  let r := fst rp in
  (Z.leb (-2147483648) (i_wd r) && Z.ltb (i_wd r) 2147483648 && N.ltb (i_mask r) 4294967296 &&
   N.ltb (i_cookie r) 4294967296 && N.ltb (N.of_nat (length (i_name r) + snd rp)) 4294967296 &&
   negb (ends_nul (i_name r)))%bool.

Definition no_nul (s : bytes) : bool := forallb (fun c => negb (N.eqb c 0)) s.
