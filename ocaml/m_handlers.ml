(* Wire glue for Model/Handlers.v (property C15).

   The oracles of the model (str.lower, PurePosixPath.match, PureWindowsPath.match, re match) are
   finite tables sent by the harness, which computes them with pathlib / re themselves:
     (oracle (lower (pat low) ...) (glob (path pat posix win) ...) (re (cs regex path b) ...))
   adds entries (a lookup without entry fails the case: fail-closed);
     (events (cls src dest) ...)      registers the event list used by pattern / regex;
     (pattern fixed|pinned incl excl ignore_dirs cs)   -> one outcome per registered event
     (regex fixed|pinned none|(str r)|(list r ...) ignore ignore_dirs cs) -> same
     (base cls src dest) | (filter paths incl excl cs) | (any fixed|pinned paths incl excl cs)
     (matchpath path incl excl cs) | (paths fixed|pinned|own cls src dest)
   Strings are code-point lists; an optional list is () for None and (l) for Some l. *)
open Sexp
open Conv

let key (b : BinNums.coq_N list) : string =
  Stdlib.String.concat "," (Stdlib.List.map (fun c -> string_of_int (int_of_n c)) b)

let t_lower : (string, BinNums.coq_N list) Hashtbl.t = Hashtbl.create 64
let t_glob : (string, bool * bool) Hashtbl.t = Hashtbl.create 4096
let t_re : (string, bool) Hashtbl.t = Hashtbl.create 4096
let events : Handlers.event list ref = ref []

let str_of = bytes_of
let lower p = try Hashtbl.find t_lower (key p) with Not_found -> failwith ("oracle: no lower entry for " ^ key p)
let glob path pat = try Hashtbl.find t_glob (key path ^ "|" ^ key pat)
  with Not_found -> failwith ("oracle: no glob entry for " ^ key path ^ "|" ^ key pat)
let mposix path pat = fst (glob path pat)
let mwin path pat = snd (glob path pat)
let rmatch cs r p = try Hashtbl.find t_re ((if cs then "1" else "0") ^ "|" ^ key r ^ "|" ^ key p)
  with Not_found -> failwith ("oracle: no re entry for " ^ key r ^ "|" ^ key p)

let cls_of = function
  | A "FileSystemEvent" -> Handlers.FileSystemEvent | A "FileSystemMovedEvent" -> Handlers.FileSystemMovedEvent
  | A "FileDeletedEvent" -> Handlers.FileDeletedEvent | A "FileModifiedEvent" -> Handlers.FileModifiedEvent
  | A "FileCreatedEvent" -> Handlers.FileCreatedEvent | A "FileMovedEvent" -> Handlers.FileMovedEvent
  | A "FileClosedEvent" -> Handlers.FileClosedEvent | A "FileClosedNoWriteEvent" -> Handlers.FileClosedNoWriteEvent
  | A "FileOpenedEvent" -> Handlers.FileOpenedEvent | A "DirDeletedEvent" -> Handlers.DirDeletedEvent
  | A "DirModifiedEvent" -> Handlers.DirModifiedEvent | A "DirCreatedEvent" -> Handlers.DirCreatedEvent
  | A "DirMovedEvent" -> Handlers.DirMovedEvent
  | _ -> failwith "event class"
let event_of = function
  | L [c; s; d] -> { Handlers.ecls = cls_of c; esrc = str_of s; edest = str_of d }
  | _ -> failwith "event"

let tname = function
  | Handlers.Moved -> "moved" | Handlers.Deleted -> "deleted" | Handlers.Created -> "created"
  | Handlers.Modified -> "modified" | Handlers.Closed -> "closed" | Handlers.ClosedNoWrite -> "closed_no_write"
  | Handlers.Opened -> "opened"
let cb = function Handlers.OnAny -> "on_any_event" | Handlers.On t -> "on_" ^ tname t
let calls l = Stdlib.String.concat "," (Stdlib.List.map cb l)
let outcome = function
  | Handlers.Done l -> A ("done:" ^ calls l)
  | Handlers.Raised (l, Handlers.AttributeError) -> A ("raised:AttributeError:" ^ calls l)
  | Handlers.Raised (l, Handlers.ValueError) -> A ("raised:ValueError:" ^ calls l)

let strs = list_of str_of
let ostrs = opt_of strs
let res f = function Handlers.Ok x -> f x | Handlers.Conflict -> A "conflict"

let run = function
  | L (A "oracle" :: sections) ->
    Stdlib.List.iter (function
      | L (A "lower" :: es) ->
        Stdlib.List.iter (function L [p; l] -> Hashtbl.replace t_lower (key (str_of p)) (str_of l) | _ -> failwith "lower entry") es
      | L (A "glob" :: es) ->
        Stdlib.List.iter (function L [p; q; a; b] ->
            Hashtbl.replace t_glob (key (str_of p) ^ "|" ^ key (str_of q)) (bool_of a, bool_of b) | _ -> failwith "glob entry") es
      | L (A "re" :: es) ->
        Stdlib.List.iter (function L [c; r; p; b] ->
            Hashtbl.replace t_re ((if bool_of c then "1" else "0") ^ "|" ^ key (str_of r) ^ "|" ^ key (str_of p)) (bool_of b)
                                   | _ -> failwith "re entry") es
      | _ -> failwith "oracle section") sections;
    L [A "ok"; sx_int (Hashtbl.length t_lower + Hashtbl.length t_glob + Hashtbl.length t_re)]
  | L (A "events" :: es) ->
    events := Stdlib.List.map event_of es; L [A "ok"; sx_int (Stdlib.List.length es)]
  | L [A "pattern"; v; incl; excl; igd; cs] ->
    let cfg = { Handlers.p_patterns = ostrs incl; p_ignore = ostrs excl; p_ignore_dirs = bool_of igd; p_cs = bool_of cs } in
    let f = match v with
      | A "fixed" -> Handlers.pattern_dispatch lower mposix mwin
      | A "pinned" -> Handlers.pattern_dispatch_pinned lower mposix mwin
      | _ -> failwith "variant" in
    sx_list (fun e -> outcome (f cfg e)) !events
  | L [A "regex"; v; spec; ign; igd; cs] ->
    let spec = match spec with
      | A "none" -> Handlers.RNone
      | L [A "str"; r] -> Handlers.RStr (str_of r)
      | L (A "list" :: rs) -> Handlers.RList (Stdlib.List.map str_of rs)
      | _ -> failwith "rspec" in
    let cfg = { Handlers.r_regexes = spec; r_ignore = ostrs ign; r_ignore_dirs = bool_of igd; r_cs = bool_of cs } in
    let f = match v with
      | A "fixed" -> Handlers.regex_dispatch rmatch
      | A "pinned" -> Handlers.regex_dispatch_pinned rmatch
      | _ -> failwith "variant" in
    sx_list (fun e -> outcome (f cfg e)) !events
  | L [A "base"; c; s; d] -> outcome (Handlers.dispatch_base (event_of (L [c; s; d])))
  | L [A "paths"; v; c; s; d] ->
    let e = event_of (L [c; s; d]) in
    sx_list sx_bytes (match v with
      | A "fixed" -> Handlers.event_paths e | A "pinned" -> Handlers.event_paths_pinned e
      | A "own" -> Handlers.own_paths e | _ -> failwith "variant")
  | L [A "filter"; paths; incl; excl; cs] ->
    res (fun l -> L [A "ok"; sx_list sx_bytes l])
      (Handlers.filter_paths lower mposix mwin (strs paths) (ostrs incl) (ostrs excl) (bool_of cs))
  | L [A "any"; v; paths; incl; excl; cs] ->
    let f = match v with
      | A "fixed" -> Handlers.match_any_paths lower mposix mwin
      | A "pinned" -> Handlers.match_any_paths_pinned lower mposix mwin
      | _ -> failwith "variant" in
    res sx_bool (f (strs paths) (ostrs incl) (ostrs excl) (bool_of cs))
  | L [A "matchpath"; p; incl; excl; cs] ->
    res sx_bool (Handlers.match_path lower mposix mwin (str_of p) (strs incl) (strs excl) (bool_of cs))
  | _ -> failwith "handlers: bad case"
