(* A file-system model keyed by absolute byte-string paths, and the kernel side of inotify as observed
   on this sandbox's Linux kernel (validated against the real kernel on every run of the pipeline
   checks; an assumption about Linux, not about watchdog).  Definitions only. *)
Require Import WD.Base.Prelude WD.Base.BStr WD.Model.SubEvents WD.Model.Emitter.

(* ------------------------------------------------------------------ file system *)
Record fent := { f_path : bytes; f_ino : N; f_dir : bool }.
Definition fs := list fent.

Fixpoint flookup (p : bytes) (t : fs) : option fent :=
  match t with
  | [] => None
  | e :: t' => if beqb p (f_path e) then Some e else flookup p t'
  end.

Definition under (d p : bytes) : bool := starts (d ++ [sep]) p.
Definition is_child (d p : bytes) : bool := beqb (dirname p) d && negb (beqb p d).

Definition fexists (p : bytes) (t : fs) : bool := match flookup p t with Some _ => true | None => false end.
Definition fisdir (p : bytes) (t : fs) : bool := match flookup p t with Some e => f_dir e | None => false end.
Definition has_children (d : bytes) (t : fs) : bool := existsb (fun e => is_child d (f_path e)) t.

Definition fremove (p : bytes) (t : fs) : fs := filter (fun e => negb (beqb p (f_path e))) t.

(* rename the entry p and everything below it to q (prefix rewrite) *)
Definition frename (p q : bytes) (t : fs) : fs :=
  map (fun e => if beqb (f_path e) p then {| f_path := q; f_ino := f_ino e; f_dir := f_dir e |}
                else if under p (f_path e)
                     then {| f_path := q ++ skipn (length p) (f_path e); f_ino := f_ino e; f_dir := f_dir e |}
                     else e) t.

Inductive op :=
| Touch (p : bytes)         (* open(p, "w").close() on a path that does not exist *)
| Write (p : bytes)         (* append to an existing file *)
| Chmod (p : bytes)
| Unlink (p : bytes)
| Mkdir (p : bytes)
| Rmdir (p : bytes)
| Rename (p q : bytes).

Record world := { w_fs : fs; w_next_ino : N }.

(* None = the real system call would fail; such steps are skipped on both sides *)
Definition apply_op (w : world) (o : op) : option world :=
  let t := w_fs w in
  match o with
  | Touch p =>
    if fisdir (dirname p) t && negb (fexists p t) then
      Some {| w_fs := t ++ [{| f_path := p; f_ino := w_next_ino w; f_dir := false |}];
              w_next_ino := w_next_ino w + 1 |}
    else None
  | Write p => match flookup p t with Some e => if f_dir e then None else Some w | None => None end
  | Chmod p => if fexists p t then Some w else None
  | Unlink p => match flookup p t with
                | Some e => if f_dir e then None else Some {| w_fs := fremove p t; w_next_ino := w_next_ino w |}
                | None => None end
  | Mkdir p =>
    if fisdir (dirname p) t && negb (fexists p t) then
      Some {| w_fs := t ++ [{| f_path := p; f_ino := w_next_ino w; f_dir := true |}];
              w_next_ino := w_next_ino w + 1 |}
    else None
  | Rmdir p => match flookup p t with
               | Some e => if f_dir e && negb (has_children p t)
                           then Some {| w_fs := fremove p t; w_next_ino := w_next_ino w |} else None
               | None => None end
  | Rename p q =>
    match flookup p t with
    | None => None
    | Some e =>
      if beqb p q || under p q || negb (fisdir (dirname q) t) then None
      else match flookup q t with
           | None => Some {| w_fs := frename p q t; w_next_ino := w_next_ino w |}
           | Some v =>
             if f_dir e then
               if f_dir v && negb (has_children q t)
               then Some {| w_fs := frename p q (fremove q t); w_next_ino := w_next_ino w |} else None
             else if f_dir v then None
                  else Some {| w_fs := frename p q (fremove q t); w_next_ino := w_next_ino w |}
           end
    end
  end.

(* what os.walk finds under directory d: sub-directories and files in listing (= model list) order *)
Fixpoint content_fuel (fuel : nat) (t : fs) (d : bytes) : tree :=
  match fuel with
  | O => Node [] []
  | S k =>
    Node (map (fun e => (basename (f_path e), content_fuel k t (f_path e)))
              (filter (fun e => is_child d (f_path e) && f_dir e) t))
         (map (fun e => basename (f_path e))
              (filter (fun e => is_child d (f_path e) && negb (f_dir e)) t))
  end.
Definition content (t : fs) (d : bytes) : tree :=
  if fisdir d t then content_fuel (length t) t d else Node [] [].

(* ------------------------------------------------------------------ kernel side of inotify *)
Record kraw := { k_wd : N; k_mask : N; k_cookie : N; k_name : bytes }.
Record kwatch := { kw_wd : N; kw_ino : N; kw_mask : N }.
Record kst := { k_watches : list kwatch; k_next_wd : N; k_queue : list kraw; k_next_cookie : N }.

(* the kernel's event_compare: wd, mask and name - NOT the cookie (fs/notify/inotify/inotify_fsnotify.c) *)
Definition kraw_eqb (a b : kraw) : bool :=
  N.eqb (k_wd a) (k_wd b) && N.eqb (k_mask a) (k_mask b) && beqb (k_name a) (k_name b).

(* append an event; an event equal (up to the cookie) to the last unread one is coalesced *)
Definition kpush (q : list kraw) (e : kraw) : list kraw :=
  match rev q with
  | l :: _ => if kraw_eqb l e then q else q ++ [e]
  | [] => q ++ [e]
  end.

Definition watch_of_ino (k : kst) (ino : N) : option kwatch :=
  find (fun w => N.eqb (kw_ino w) ino) (k_watches k).

(* deliver event bit [bit] (plus IN_ISDIR when [isdir]) about inode [ino] with [name] *)
Definition knotify (k : kst) (ino : N) (bit : N) (isdir : bool) (cookie : N) (name : bytes) : kst :=
  match watch_of_ino k ino with
  | Some w =>
    if N.eqb (N.land bit (kw_mask w)) 0 then k
    else {| k_watches := k_watches k; k_next_wd := k_next_wd k;
            k_queue := kpush (k_queue k) {| k_wd := kw_wd w;
                                            k_mask := if isdir then N.lor bit IN_ISDIR else bit;
                                            k_cookie := cookie; k_name := name |};
            k_next_cookie := k_next_cookie k |}
  | None => k
  end.

(* the watched inode is gone: IN_DELETE_SELF (if in the mask), IN_IGNORED (always), watch removed *)
Definition kgone (k : kst) (ino : N) (attrib_first : bool) : kst :=
  match watch_of_ino k ino with
  | Some w =>
    let k1 := if attrib_first then knotify k ino IN_ATTRIB true 0 [] else k in
    let k2 := knotify k1 ino IN_DELETE_SELF false 0 [] in
    {| k_watches := filter (fun x => negb (N.eqb (kw_wd x) (kw_wd w))) (k_watches k2);
       k_next_wd := k_next_wd k2;
       k_queue := kpush (k_queue k2) {| k_wd := kw_wd w; k_mask := IN_IGNORED; k_cookie := 0; k_name := [] |};
       k_next_cookie := k_next_cookie k2 |}
  | None => k
  end.

Definition ino_of (t : fs) (p : bytes) : N := match flookup p t with Some e => f_ino e | None => 0 end.

(* events of one successful operation, given the file system BEFORE it *)
Definition kernel_op (k : kst) (t : fs) (o : op) : kst :=
  match o with
  | Touch p =>
    let d := ino_of t (dirname p) in let n := basename p in
    knotify (knotify (knotify k d IN_CREATE false 0 n) d IN_OPEN false 0 n) d IN_CLOSE_WRITE false 0 n
  | Write p =>
    let d := ino_of t (dirname p) in let n := basename p in
    knotify (knotify (knotify k d IN_OPEN false 0 n) d IN_MODIFY false 0 n) d IN_CLOSE_WRITE false 0 n
  | Chmod p =>
    let isd := fisdir p t in
    let k1 := knotify k (ino_of t (dirname p)) IN_ATTRIB isd 0 (basename p) in
    if isd then knotify k1 (ino_of t p) IN_ATTRIB true 0 [] else k1
  | Unlink p => knotify k (ino_of t (dirname p)) IN_DELETE false 0 (basename p)
  | Mkdir p => knotify k (ino_of t (dirname p)) IN_CREATE true 0 (basename p)
  | Rmdir p =>
    let k1 := kgone k (ino_of t p) false in
    knotify k1 (ino_of t (dirname p)) IN_DELETE true 0 (basename p)
  | Rename p q =>
    let isd := fisdir p t in
    let c := k_next_cookie k in
    let k0 := {| k_watches := k_watches k; k_next_wd := k_next_wd k; k_queue := k_queue k;
                 k_next_cookie := c + 1 |} in
    let k1 := knotify k0 (ino_of t (dirname p)) IN_MOVED_FROM isd c (basename p) in
    let k2 := knotify k1 (ino_of t (dirname q)) IN_MOVED_TO isd c (basename q) in
    if fisdir q t then kgone k2 (ino_of t q) true else k2
  end.

(* inotify_add_watch(path, mask): the path is resolved NOW; an already watched inode keeps its wd *)
Definition kadd_watch (k : kst) (t : fs) (p : bytes) (mask : N) : option (kst * N) :=
  match flookup p t with
  | None => None                                     (* ENOENT *)
  | Some e =>
    match watch_of_ino k (f_ino e) with
    | Some w =>
      Some ({| k_watches := map (fun x => if N.eqb (kw_wd x) (kw_wd w)
                                          then {| kw_wd := kw_wd x; kw_ino := kw_ino x; kw_mask := mask |} else x)
                                (k_watches k);
               k_next_wd := k_next_wd k; k_queue := k_queue k; k_next_cookie := k_next_cookie k |}, kw_wd w)
    | None =>
      Some ({| k_watches := k_watches k ++ [{| kw_wd := k_next_wd k; kw_ino := f_ino e; kw_mask := mask |}];
               k_next_wd := k_next_wd k + 1; k_queue := k_queue k; k_next_cookie := k_next_cookie k |},
            k_next_wd k)
    end
  end.

(* inotify_rm_watch(wd): the watch is removed and IN_IGNORED queued; an unknown descriptor is EINVAL (no effect) *)
Definition krm_watch (k : kst) (wd : N) : kst :=
  match find (fun w => N.eqb (kw_wd w) wd) (k_watches k) with
  | Some _ =>
    {| k_watches := filter (fun x => negb (N.eqb (kw_wd x) wd)) (k_watches k);
       k_next_wd := k_next_wd k;
       k_queue := kpush (k_queue k) {| k_wd := wd; k_mask := IN_IGNORED; k_cookie := 0; k_name := [] |};
       k_next_cookie := k_next_cookie k |}
  | None => k
  end.

Definition kinit : kst := {| k_watches := []; k_next_wd := 1; k_queue := []; k_next_cookie := 1 |}.

(* WATCHDOG_ALL_EVENTS without IN_DONT_FOLLOW (a flag, not an event) *)
Definition WATCHDOG_ALL : N :=
  N.lor IN_MODIFY (N.lor IN_ATTRIB (N.lor IN_MOVED_FROM (N.lor IN_MOVED_TO (N.lor IN_CREATE
  (N.lor IN_DELETE (N.lor IN_DELETE_SELF (N.lor IN_CLOSE_WRITE (N.lor IN_CLOSE_NOWRITE IN_OPEN)))))))).
