(* C03 on the Pipeline model with PARTIAL READS: block histories in which the records of each operation are split between
   several ARead steps (c02p's cut histories: AOp; ARead n1; ...; ARead nk; ATick delay; AEmit ... - the cuts add up to the
   kernel queue, no operation and no tick between the reads of a block) deliver the same stream as the one-read blocks:
   soundness (sound_along) and completeness (the per-operation contracts), over the class ops_x3. *)
Require Import WD.Base.Prelude WD.Base.BStr WD.Model.SubEvents WD.Model.Emitter WD.Model.Fs WD.Model.Reader
               WD.Model.DelayQueue WD.Model.Grouping WD.Model.Pipeline WD.Model.Contract.
Require Import WD.Proofs.ContractProofs WD.Proofs.TieProofs WD.Proofs.CoverProofs WD.Proofs.CoverOutProofs
               WD.Proofs.ReplayProofs WD.Proofs.ReplayOutProofs WD.Proofs.TieStrongProofs WD.Proofs.ReplayPipeProofs
               WD.Proofs.CutsProofs WD.Proofs.CutsPipeProofs WD.Proofs.SoundSeqProofs WD.Proofs.SoundPipeProofs.

Local Arguments sep : simpl never.

Section CutBlock.
  Variable P : pcfg.
  Let C := pc_reader P.
  Let rec := c_recursive C.
  Let root := c_root C.

  (* sound_along over a block AOp o :: rest whose rest contains no operation *)
  Lemma sa_block_gen s o rest w' s1 obs1 h2 recs : apply_op (p_world s) o = Some w' -> Forall noop rest ->
    prun P s (AOp o :: rest) [] = Done (s1, obs1) ->
    exists new, p_out s1 = p_out s ++ new /\
      sound_along P s recs ((AOp o :: rest) ++ h2) =
      forallb (justified rec root (recs ++ [oprec_of (w_fs (p_world s)) o])) new &&
      sound_along P s1 (recs ++ [oprec_of (w_fs (p_world s)) o]) h2.
  Proof.
    intros Ha Hnoop Hr.
    assert (Hop : pstep P s (AOp o) =
                  Done ({| p_world := w'; p_k := kernel_op (p_k s) (w_fs (p_world s)) o; p_r := p_r s; p_buf := p_buf s;
                           p_tbl := p_tbl s; p_next := p_next s; p_out := p_out s; p_stopped := p_stopped s |}, ONone))
      by (cbn [pstep]; rewrite Ha; reflexivity).
    rewrite (prun_cons P _ _ _ _ _ _ Hop) in Hr.
    destruct (sa_noop P rest Hnoop _ _ s1 obs1 h2 (recs ++ [oprec_of (w_fs (p_world s)) o]) Hr) as (new & Ho & Hs).
    exists new. split; [exact Ho|].
    change ((AOp o :: rest) ++ h2) with (AOp o :: (rest ++ h2)). cbn [sound_along]. rewrite Hop, Ha. cbn [andb]. exact Hs.
  Qed.

  Lemma cut_rest_noop cuts nit : Forall noop (map ARead cuts ++ ATick (pc_delay P) :: repeat AEmit nit).
  Proof.
    apply Forall_app. split.
    - apply Forall_forall. intros a Ha. apply in_map_iff in Ha as [n [<- _]]. exact I.
    - constructor; [exact I | apply repeat_noop].
  Qed.
End CutBlock.

Theorem blocks_sound_cuts P ct : let C := pc_reader P in
  c_faults C = [] -> c_fix_moveout C = true -> c_mask C = WATCHDOG_ALL -> pc_filter P = None -> sum_cutter P ct ->
  forall ops s hot recs, PSx P s hot -> ops_x3 C (p_world s) hot ops ->
  exists h s' obs hot' chunks, cut_hist P ct s ops h /\ prun P s h [] = Done (s', obs) /\ PSx P s' hot' /\
    sound_along P s recs h = true /\
    p_out s' = p_out s ++ concat chunks /\
    Forall2 (fun ch ct0 => collapse ch = collapse ct0) chunks (contracts_of C (pc_full P) (p_world s) ops).
Proof.
  intros C Hf Hmo Hm HF Hct. induction ops as [|o ops IH]; intros s hot recs S Hc; cbn [ops_x3 contracts_of] in *.
  - exists [], s, [], hot, []. split; [constructor|]. split; [reflexivity|]. split; [exact S|].
    split; [reflexivity|]. split; [now rewrite app_nil_r | constructor].
  - destruct (apply_op (p_world s) o) as [w'|] eqn:Ea.
    + destruct Hc as [Hs Hc].
      destruct (block_cuts P s hot o w' (ct s o) Hf Hmo Hm HF S (step_ok3_ok C _ _ _ Hs) Ea (Hct s o))
        as (nit & s1 & obs1 & raws & Hrun & S1 & E1 & Hout & Hrd).
      destruct (gs_contract_step3 C (pc_full P) Hf Hmo Hm (p_world s) (p_k s) (p_r s) hot o w' (px_sync _ _ _ S) Hs Ea)
        as (r' & k' & raws' & Hrd' & _ & _ & Hcol).
      fold C in Hrd. cbv zeta in Hrd'. rewrite Hrd in Hrd'. injection Hrd' as _ _ <-.
      rewrite <- E1 in Hc.
      destruct (IH s1 _ (recs ++ [oprec_of (w_fs (p_world s)) o]) S1 Hc) as (h & s' & obs & hot' & chunks & Hh & Hr & S' & Hsa & Ho' & Hch).
      exists (cut_history P o (ct s o) nit ++ h), s', (obs1 ++ obs), hot', (delivered C (pc_full P) w' raws :: chunks).
      split; [eapply ch_step; eassumption|]. split; [rewrite prun_app, Hrun, prun_acc, Hr; reflexivity|]. split; [exact S'|].
      split; [|split].
      * unfold cut_history in *.
        destruct (sa_block_gen P s o _ w' s1 obs1 h recs Ea (cut_rest_noop P (ct s o) nit) Hrun) as (new & Hn & Hsb).
        rewrite Hsb, Hsa, andb_true_r.
        assert (new = delivered C (pc_full P) w' raws) by (rewrite Hout in Hn; now apply app_inv_head in Hn). subst new.
        apply forallb_forall. intros e He. apply justified_mono.
        revert e He. apply (collapse_forall _ _ _ Hcol). intros e He.
        apply (contract_justified (c_recursive C) (pc_full P) (c_root C) (w_fs (p_world s)) o); [|exact He].
        exact (step_ok3_np C _ _ _ Hs).
      * cbn [concat]. now rewrite Ho', Hout, app_assoc.
      * rewrite E1 in Hch. constructor; [exact Hcol | exact Hch].
    + destruct (IH s hot recs S Hc) as (h & s' & obs & hot' & chunks & Hh & Hr & S' & Hsa & Ho' & Hch).
      exists (AOp o :: h), s', (OSkip :: obs), hot', chunks. split; [now apply ch_skip|].
      split; [cbn [prun pstep]; rewrite Ea; rewrite prun_acc, Hr; reflexivity|]. split; [exact S'|].
      split; [|split; assumption].
      cbn [sound_along pstep]. rewrite Ea. exact Hsa.
Qed.

(* from pinit: completeness and soundness with arbitrarily cut reads *)
Theorem contract_pipeline_cuts P ct ops w s0 : let C := pc_reader P in
  c_faults C = [] -> c_fix_moveout C = true -> c_mask C = WATCHDOG_ALL -> pc_filter P = None -> sum_cutter P ct -> wf_fs w ->
  fisdir (c_root C) (w_fs w) = true -> pinit P w = Some s0 -> ops_x3 C w None ops ->
  exists h s' obs chunks, cut_hist P ct s0 ops h /\ prun P s0 h [] = Done (s', obs) /\
    sound_along P s0 [] h = true /\
    p_out s' = concat chunks /\
    Forall2 (fun ch ct0 => collapse ch = collapse ct0) chunks (contracts_of C (pc_full P) w ops).
Proof.
  intros C Hf Hmo Hm HF Hct W Hroot Hi Hc. destruct (pinit_psx P w s0 Hf Hmo W Hroot Hi) as (S0 & Ew & Eo).
  rewrite <- Ew in Hc.
  destruct (blocks_sound_cuts P ct Hf Hmo Hm HF Hct ops s0 None [] S0 Hc) as (h & s' & obs & hot' & chunks & Hh & Hr & _ & Hsa & Ho & Hch).
  exists h, s', obs, chunks. split; [exact Hh|]. split; [exact Hr|]. split; [exact Hsa|].
  split; [now rewrite Ho, Eo | now rewrite <- Ew].
Qed.

Theorem sound_pipeline_cuts P ct ops w s0 : let C := pc_reader P in
  c_faults C = [] -> c_fix_moveout C = true -> c_mask C = WATCHDOG_ALL -> pc_filter P = None -> sum_cutter P ct -> wf_fs w ->
  fisdir (c_root C) (w_fs w) = true -> pinit P w = Some s0 -> ops_x3 C w None ops ->
  exists h s' obs, cut_hist P ct s0 ops h /\ prun P s0 h [] = Done (s', obs) /\ sound_along P s0 [] h = true.
Proof.
  intros C Hf Hmo Hm HF Hct W Hr Hi Hc.
  destruct (contract_pipeline_cuts P ct ops w s0 Hf Hmo Hm HF Hct W Hr Hi Hc) as (h & s' & obs & chunks & H1 & H2 & H3 & _).
  exists h, s', obs. auto.
Qed.

(* ---------------------------------------------------------------- an instance, by computation *)
(* the cutter that reads the first record of every operation alone and then the rest: every rename is cut between its halves *)
Definition first_cutter (s : pstate) (o : op) : list nat :=
  let n := length (k_queue (kernel_op (p_k s) (w_fs (p_world s)) o)) in [Nat.min 1 n; (n - Nat.min 1 n)%nat].

Lemma first_cutter_sum P : sum_cutter P first_cutter.
Proof. intros s o. unfold first_cutter. cbn [sum fold_right]. lia. Qed.

Fixpoint run_cuts (P : pcfg) (ct : pstate -> op -> list nat) (nit : nat) (s : pstate) (ops : list op) : option pstate :=
  match ops with
  | [] => Some s
  | o :: ops' => match prun P s (cut_history P o (ct s o) nit) [] with
                 | Done (s', _) => run_cuts P ct nit s' ops'
                 | Crash _ => None
                 end
  end.

Lemma seq3_cuts_run :
  exists s0 s s1, pinit phx_P w0 = Some s0 /\ run_cuts phx_P first_cutter 4 s0 seq3_ops = Some s /\
    run_blocks phx_P 4 s0 seq3_ops = Some s1 /\ p_out s = p_out s1 /\ length (p_out s) = 18%nat /\
    collapse (p_out s) = collapse (concat (contracts_of (cfgo true) false w0 seq3_ops)).
Proof.
  eexists; eexists; eexists. split; [vm_compute; reflexivity|]. split; [vm_compute; reflexivity|].
  split; [vm_compute; reflexivity|]. repeat split; vm_compute; reflexivity.
Qed.
