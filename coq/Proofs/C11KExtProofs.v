(* C11 lag, kernel side (2): an instance that still has watches the reader is about to remove (or has just forgotten)
   versus the same instance without them.  [inW] says which descriptors are live.  The same operation queues, on the
   smaller instance, the live part of what it queues on the larger one - up to the kernel's coalescing. *)
Require Import WD.Base.Prelude WD.Base.BStr WD.Model.SubEvents WD.Model.Emitter WD.Model.Fs.
Require Import WD.Proofs.C11KernelProofs.
Local Open Scope N_scope.

Lemma NoDup_ino_filter {A B} (g : A -> B) (f : A -> bool) l : NoDup (map g l) -> NoDup (map g (filter f l)).
Proof.
  induction l as [|a l IH]; simpl; intros H; [constructor|]. inversion H as [|? ? Ha Hl]; subst.
  destruct (f a); [|exact (IH Hl)]. simpl. constructor; [|exact (IH Hl)].
  intros Hin. apply Ha. apply in_map_iff in Hin as [x [Hx Hin]]. apply filter_In in Hin as [Hin _].
  rewrite <- Hx. now apply in_map.
Qed.

Section Ext.
  Variable inW : N -> bool.
  Definition live (e : kraw) : bool := inW (k_wd e).

  Lemma live_eqb a b : kraw_eqb a b = true -> live a = live b.
  Proof. intros H. apply kraw_eqb_key in H. unfold kkey in H. unfold live. congruence. Qed.

  Record kext (k kn : kst) : Prop := {
    kx_watches : k_watches kn = filter (fun w => inW (kw_wd w)) (k_watches k);
    kx_wd : k_next_wd kn = k_next_wd k;
    kx_cookie : k_next_cookie kn = k_next_cookie k;
    kx_ino : NoDup (map kw_ino (k_watches k)) }.

  Definition kqx (k kn : kst) : Prop := k_queue kn = kcollapse (filter live (k_queue k)).

  Lemma push_live (q qn : list kraw) (e : kraw) :
    qn = kcollapse (filter live q) -> live e = true -> kpush qn e = kcollapse (filter live (kpush q e)).
  Proof.
    intros -> Hk. destruct (kpush_cases q e) as [[H [q0 [l [-> Hl]]]]|H]; rewrite H.
    - rewrite filter_app. cbn [filter]. rewrite (live_eqb l e Hl), Hk, kcollapse_snoc. apply kpush_absorb. exact Hl.
    - rewrite filter_app. cbn [filter]. rewrite Hk, kcollapse_snoc. reflexivity.
  Qed.

  Lemma push_dead (q : list kraw) (e : kraw) : live e = false -> filter live (kpush q e) = filter live q.
  Proof.
    intros Hk. destruct (kpush_cases q e) as [[H _]|H]; rewrite H; [reflexivity|].
    rewrite filter_app. cbn [filter]. rewrite Hk. apply app_nil_r.
  Qed.

  Lemma find_filter_ino (l : list kwatch) ino : NoDup (map kw_ino l) ->
    find (fun w => N.eqb (kw_ino w) ino) (filter (fun w => inW (kw_wd w)) l)
    = match find (fun w => N.eqb (kw_ino w) ino) l with
      | Some w => if inW (kw_wd w) then Some w else None
      | None => None
      end.
  Proof.
    induction l as [|w l IH]; intros Hn; [reflexivity|]. inversion Hn as [|? ? Hw Hl]; subst. cbn [filter find].
    destruct (N.eqb (kw_ino w) ino) eqn:E.
    - destruct (inW (kw_wd w)); [cbn [find]; now rewrite E|].
      (* no other watch has this inode *)
      rewrite (IH Hl). destruct (find (fun w0 => N.eqb (kw_ino w0) ino) l) as [w'|] eqn:F; [|reflexivity].
      exfalso. apply find_some in F as [Fi Fe]. apply N.eqb_eq in E, Fe. apply Hw. rewrite E, <- Fe. now apply in_map.
    - destruct (inW (kw_wd w)); [cbn [find]; rewrite E|]; apply IH; exact Hl.
  Qed.

  Lemma watch_ext k kn ino : kext k kn ->
    watch_of_ino kn ino = match watch_of_ino k ino with
                          | Some w => if inW (kw_wd w) then Some w else None
                          | None => None
                          end.
  Proof. intros X. unfold watch_of_ino. rewrite (kx_watches _ _ X). apply find_filter_ino. apply (kx_ino _ _ X). Qed.

  Lemma knotify_ext k kn ino bit isdir c name :
    kext k kn -> kqx k kn ->
    kext (knotify k ino bit isdir c name) (knotify kn ino bit isdir c name) /\
    kqx (knotify k ino bit isdir c name) (knotify kn ino bit isdir c name).
  Proof.
    intros X Q. unfold knotify. rewrite (watch_ext k kn ino X).
    destruct (watch_of_ino k ino) as [w|] eqn:Ew; [|split; assumption].
    destruct (inW (kw_wd w)) eqn:Ei.
    - destruct (N.eqb (N.land bit (kw_mask w)) 0); [split; assumption|]. split.
      + destruct X; constructor; assumption.
      + unfold kqx in *. cbn [k_queue]. apply push_live; [exact Q | exact Ei].
    - destruct (N.eqb (N.land bit (kw_mask w)) 0); [split; assumption|]. split.
      + destruct X; constructor; assumption.
      + unfold kqx in *. cbn [k_queue]. rewrite push_dead; [exact Q | exact Ei].
  Qed.

  Lemma filter_filter_wd (l : list kwatch) wd :
    filter (fun w => inW (kw_wd w)) (filter (fun x => negb (N.eqb (kw_wd x) wd)) l)
    = filter (fun x => negb (N.eqb (kw_wd x) wd)) (filter (fun w => inW (kw_wd w)) l).
  Proof.
    induction l as [|w l IH]; [reflexivity|]. cbn [filter].
    destruct (negb (N.eqb (kw_wd w) wd)) eqn:A, (inW (kw_wd w)) eqn:B; cbn [filter]; rewrite ?A, ?B, IH; reflexivity.
  Qed.

  Lemma filter_dead_wd (l : list kwatch) wd : inW wd = false ->
    filter (fun w => inW (kw_wd w)) (filter (fun x => negb (N.eqb (kw_wd x) wd)) l) = filter (fun w => inW (kw_wd w)) l.
  Proof.
    intros Hd. induction l as [|w l IH]; [reflexivity|]. cbn [filter].
    destruct (N.eqb (kw_wd w) wd) eqn:A; cbn [negb filter].
    - apply N.eqb_eq in A. rewrite A, Hd. exact IH.
    - destruct (inW (kw_wd w)); now rewrite IH.
  Qed.

  Lemma knotify_none k ino bit isdir c name : watch_of_ino k ino = None -> knotify k ino bit isdir c name = k.
  Proof. intros H. unfold knotify. now rewrite H. Qed.

  Lemma kgone_ext k kn ino af : kext k kn -> kqx k kn -> kext (kgone k ino af) (kgone kn ino af) /\ kqx (kgone k ino af) (kgone kn ino af).
  Proof.
    intros X Q. unfold kgone. rewrite (watch_ext k kn ino X).
    destruct (watch_of_ino k ino) as [w|] eqn:Ew; [|split; assumption].
    set (k1 := if af then knotify k ino IN_ATTRIB true 0 [] else k).
    set (kn1 := if af then knotify kn ino IN_ATTRIB true 0 [] else kn).
    assert (X1 : kext k1 kn1 /\ kqx k1 kn1).
    { subst k1 kn1. destruct af; [apply knotify_ext|split]; assumption. }
    destruct X1 as [X1 Q1].
    destruct (knotify_ext k1 kn1 ino IN_DELETE_SELF false 0 [] X1 Q1) as [X2 Q2].
    set (k2 := knotify k1 ino IN_DELETE_SELF false 0 []) in *.
    destruct (inW (kw_wd w)) eqn:Ei.
    - set (kn2 := knotify kn1 ino IN_DELETE_SELF false 0 []) in *. split.
      + constructor; cbn [k_watches k_next_wd k_next_cookie].
        * rewrite (kx_watches _ _ X2). symmetry. apply filter_filter_wd.
        * apply (kx_wd _ _ X2).
        * apply (kx_cookie _ _ X2).
        * apply NoDup_ino_filter. apply (kx_ino _ _ X2).
      + unfold kqx in *. cbn [k_queue]. apply push_live; [exact Q2 | exact Ei].
    - (* a watch the smaller instance does not have: nothing happens there *)
      assert (Hn : watch_of_ino kn ino = None) by (rewrite (watch_ext k kn ino X), Ew, Ei; reflexivity).
      assert (E1 : kn1 = kn) by (subst kn1; destruct af; [apply knotify_none; exact Hn | reflexivity]).
      assert (E2 : knotify kn1 ino IN_DELETE_SELF false 0 [] = kn) by (rewrite E1; apply knotify_none; exact Hn).
      rewrite E2 in X2, Q2. split.
      + constructor; cbn [k_watches k_next_wd k_next_cookie].
        * rewrite (kx_watches _ _ X2). symmetry. apply filter_dead_wd. exact Ei.
        * apply (kx_wd _ _ X2).
        * apply (kx_cookie _ _ X2).
        * apply NoDup_ino_filter. apply (kx_ino _ _ X2).
      + unfold kqx in *. cbn [k_queue]. rewrite push_dead; [exact Q2 | exact Ei].
  Qed.

  Theorem kernel_op_ext k kn t o :
    kext k kn -> kqx k kn -> kext (kernel_op k t o) (kernel_op kn t o) /\ kqx (kernel_op k t o) (kernel_op kn t o).
  Proof.
    intros X Q.
    assert (N2 : forall a a' i1 b1 d1 c1 n1 i2 b2 d2 c2 n2, kext a a' -> kqx a a' ->
               kext (knotify (knotify a i1 b1 d1 c1 n1) i2 b2 d2 c2 n2) (knotify (knotify a' i1 b1 d1 c1 n1) i2 b2 d2 c2 n2) /\
               kqx (knotify (knotify a i1 b1 d1 c1 n1) i2 b2 d2 c2 n2) (knotify (knotify a' i1 b1 d1 c1 n1) i2 b2 d2 c2 n2)).
    { intros. destruct (knotify_ext a a' i1 b1 d1 c1 n1) as [A B]; try assumption. apply knotify_ext; assumption. }
    destruct o as [p|p|p|p|p|p|p q]; cbn [kernel_op].
    - destruct (N2 k kn (ino_of t (dirname p)) IN_CREATE false 0 (basename p)
                   (ino_of t (dirname p)) IN_OPEN false 0 (basename p) X Q) as [A B]. apply knotify_ext; assumption.
    - destruct (N2 k kn (ino_of t (dirname p)) IN_OPEN false 0 (basename p)
                   (ino_of t (dirname p)) IN_MODIFY false 0 (basename p) X Q) as [A B]. apply knotify_ext; assumption.
    - destruct (knotify_ext k kn (ino_of t (dirname p)) IN_ATTRIB (fisdir p t) 0 (basename p) X Q) as [A B].
      destruct (fisdir p t); [|split; assumption]. apply knotify_ext; assumption.
    - apply knotify_ext; assumption.
    - apply knotify_ext; assumption.
    - destruct (kgone_ext k kn (ino_of t p) false X Q) as [A B]. apply knotify_ext; assumption.
    - rewrite (kx_cookie _ _ X).
      set (k0 := {| k_watches := k_watches k; k_next_wd := k_next_wd k; k_queue := k_queue k;
                    k_next_cookie := k_next_cookie k + 1 |}).
      set (k0' := {| k_watches := k_watches kn; k_next_wd := k_next_wd kn; k_queue := k_queue kn;
                     k_next_cookie := k_next_cookie k + 1 |}).
      assert (X0 : kext k0 k0').
      { destruct X as [a b c d]. constructor; unfold k0, k0'; cbn [k_watches k_next_wd k_next_cookie]; try assumption; reflexivity. }
      assert (Q0 : kqx k0 k0') by exact Q.
      destruct (N2 k0 k0' (ino_of t (dirname p)) IN_MOVED_FROM (fisdir p t) (k_next_cookie k) (basename p)
                   (ino_of t (dirname q)) IN_MOVED_TO (fisdir p t) (k_next_cookie k) (basename q) X0 Q0) as [A B].
      destruct (fisdir q t); [|split; assumption]. apply kgone_ext; assumption.
  Qed.
End Ext.
