let table : (string * (Sexp.t -> Sexp.t)) list = [
  "bstr", M_bstr.run;
  "subevents", M_subevents.run;
]
