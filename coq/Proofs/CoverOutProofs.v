(* C02 past directory move-outs (repair of F10): junk IN_IGNORED records of forgotten descriptors, the state right
   after a directory left the tree (move-out candidate pending, departed watches still there), and how the next
   record the reader processes forgets the departed sub-tree. *)
Require Import WD.Base.Prelude WD.Base.BStr WD.Model.SubEvents WD.Model.Emitter WD.Model.Fs WD.Model.Reader.
Require Import WD.Proofs.SubEventsProofs WD.Proofs.ReaderFixProofs WD.Proofs.PathProofs WD.Proofs.CoverProofs.

Local Arguments sep : simpl never.

Section Out.
  Variable C : cfg.
  Hypothesis Hfaults : c_faults C = [].
  Hypothesis Hmo : c_fix_moveout C = true.
  Let root := c_root C.

  (* ---------------------------------------------------------------- junk: IN_IGNORED records of forgotten descriptors *)
  Definition junk_ev (k : kst) (r : rstate) (a : kraw) : Prop :=
    alookup N.eqb (k_wd a) (pfw r) = None /\ (forall kw, In kw (k_watches k) -> kw_wd kw <> k_wd a) /\
    (k_wd a < k_next_wd k)%N.

  (* synchronised up to junk in the kernel queue *)
  Record JSync (w : world) (k : kst) (r : rstate) : Prop := {
    js_sync : RSync C w (kset_queue k []) r;
    js_junk : Forall (junk_ev k r) (k_queue k)
  }.

  Lemma RSync_JSync w k r : RSync C w k r -> JSync w k r.
  Proof.
    intros S. assert (Hq := rs_queue _ _ _ _ S). split; [|rewrite Hq; constructor].
    destruct k as [ws nw qu nc]. cbn in Hq. subst qu. exact S.
  Qed.

  (* a record for an unknown descriptor is skipped *)
  Lemma read_skip t r k acc a : pend r = None -> alookup N.eqb (k_wd a) (pfw r) = None ->
    read_one C t (r, k, acc) a = Done (r, k, acc).
  Proof. intros Hp Hw. rewrite read_one_body_eq by exact Hp. unfold read_one_body. now rewrite Hw, Hmo. Qed.

  Lemma read_batch_skip t r k acc J Q : pend r = None ->
    Forall (fun a => alookup N.eqb (k_wd a) (pfw r) = None) J ->
    read_batch C t (r, k, acc) (J ++ Q) = read_batch C t (r, k, acc) Q.
  Proof.
    intros Hp. induction 1 as [|a J Ha HJ IH]; [reflexivity|]. cbn [app read_batch]. now rewrite read_skip.
  Qed.

  (* ---------------------------------------------------------------- the kernel appends behind junk *)
  Definition qext (J : list kraw) (k1 k2 : kst) : Prop :=
    k_watches k1 = k_watches k2 /\ k_next_wd k1 = k_next_wd k2 /\ k_next_cookie k1 = k_next_cookie k2 /\
    k_queue k1 = J ++ k_queue k2.

  Definition jfree (J : list kraw) (k : kst) : Prop :=
    forall a kw, In a J -> In kw (k_watches k) -> kw_wd kw <> k_wd a.

  Lemma kpush_qext J q e : (forall a, In a J -> k_wd a <> k_wd e) -> kpush (J ++ q) e = J ++ kpush q e.
  Proof.
    intros HJ. unfold kpush. rewrite rev_app_distr. destruct (rev q) as [|l rq] eqn:Eq.
    - assert (q = []) by (apply (f_equal (@rev kraw)) in Eq; now rewrite rev_involutive in Eq). subst q.
      cbn [app]. rewrite !app_nil_r. destruct (rev J) as [|a rj] eqn:Ej; [reflexivity|].
      assert (Ha : In a J) by (apply in_rev; rewrite Ej; now left).
      unfold kraw_eqb. apply HJ in Ha. apply N.eqb_neq in Ha. now rewrite Ha.
    - cbn [app]. destruct (kraw_eqb l e); [reflexivity | now rewrite app_assoc].
  Qed.

  Lemma knotify_qext J k1 k2 ino bit isd c name : qext J k1 k2 -> jfree J k2 ->
    qext J (knotify k1 ino bit isd c name) (knotify k2 ino bit isd c name).
  Proof.
    intros (A & B & D & E) HJ. unfold knotify, watch_of_ino. rewrite A.
    destruct (find _ (k_watches k2)) as [kw|] eqn:Ef; [|now repeat split].
    destruct (N.eqb (N.land bit (kw_mask kw)) 0); [now repeat split|].
    repeat split; cbn; try assumption. rewrite E. apply kpush_qext. intros a Ha. cbn.
    apply find_some in Ef as [Hk _]. intros Eq. exact (HJ a kw Ha Hk (eq_sym Eq)).
  Qed.

  Lemma knotify_jfree J k ino bit isd c name : jfree J k -> jfree J (knotify k ino bit isd c name).
  Proof.
    intros H a kw Ha Hk. apply (H a kw Ha).
    destruct (knotify_cases k ino bit isd c name) as [E|(kw' & _ & _ & E)]; rewrite E in Hk; exact Hk.
  Qed.

  Lemma kgone_qext J k1 k2 ino af : qext J k1 k2 -> jfree J k2 -> qext J (kgone k1 ino af) (kgone k2 ino af) /\ jfree J (kgone k2 ino af).
  Proof.
    intros Q HJ. assert (Q0 := Q). destruct Q as (A & B & D & E). unfold kgone, watch_of_ino. rewrite A.
    destruct (find _ (k_watches k2)) as [kw|] eqn:Ef; [|split; assumption].
    fold (watch_of_ino k2 ino) in Ef.
    set (a1 := if af then knotify k1 ino IN_ATTRIB true 0 [] else k1).
    set (a2 := if af then knotify k2 ino IN_ATTRIB true 0 [] else k2).
    assert (Q1 : qext J a1 a2 /\ jfree J a2).
    { unfold a1, a2. destruct af; [split; [now apply knotify_qext | now apply knotify_jfree] | split; assumption]. }
    destruct Q1 as [Q1 J1].
    assert (Q2 := knotify_qext J a1 a2 ino IN_DELETE_SELF false 0 [] Q1 J1).
    assert (J2 := knotify_jfree J a2 ino IN_DELETE_SELF false 0 [] J1).
    destruct Q2 as (A2 & B2 & D2 & E2). split.
    - repeat split; cbn; try assumption; [now rewrite A2|]. rewrite E2. apply kpush_qext. intros a Ha. cbn.
      apply watch_of_ino_some in Ef as [Hk _]. intros Eq. exact (HJ a kw Ha Hk (eq_sym Eq)).
    - intros a kw' Ha Hk. cbn in Hk. apply filter_In in Hk as [Hk _]. exact (J2 a kw' Ha Hk).
  Qed.

  Lemma kernel_op_qext J k1 k2 t o : qext J k1 k2 -> jfree J k2 -> qext J (kernel_op k1 t o) (kernel_op k2 t o).
  Proof.
    intros Q HJ. destruct o as [p|p|p|p|p|p|p q]; cbn [kernel_op].
    - repeat first [apply knotify_qext | apply knotify_jfree]; assumption.
    - repeat first [apply knotify_qext | apply knotify_jfree]; assumption.
    - destruct (fisdir p t); repeat first [apply knotify_qext | apply knotify_jfree]; assumption.
    - now apply knotify_qext.
    - now apply knotify_qext.
    - destruct (kgone_qext J k1 k2 (ino_of t p) false Q HJ) as [Q1 J1]. now apply knotify_qext.
    - set (c1 := {| k_watches := k_watches k1; k_next_wd := k_next_wd k1; k_queue := k_queue k1; k_next_cookie := k_next_cookie k1 + 1 |}).
      set (c2 := {| k_watches := k_watches k2; k_next_wd := k_next_wd k2; k_queue := k_queue k2; k_next_cookie := k_next_cookie k2 + 1 |}).
      assert (Q0 : qext J c1 c2) by (destruct Q as (A & B & D & E); repeat split; cbn; congruence).
      assert (J0 : jfree J c2) by exact HJ.
      destruct Q as (_ & _ & D & _). rewrite D.
      assert (Q2 : qext J (knotify (knotify c1 (ino_of t (dirname p)) IN_MOVED_FROM (fisdir p t) (k_next_cookie k2) (basename p))
                                   (ino_of t (dirname q)) IN_MOVED_TO (fisdir p t) (k_next_cookie k2) (basename q))
                          (knotify (knotify c2 (ino_of t (dirname p)) IN_MOVED_FROM (fisdir p t) (k_next_cookie k2) (basename p))
                                   (ino_of t (dirname q)) IN_MOVED_TO (fisdir p t) (k_next_cookie k2) (basename q))).
      { apply knotify_qext; [now apply knotify_qext | now apply knotify_jfree]. }
      destruct (fisdir q t); [|exact Q2]. apply kgone_qext; [exact Q2|]. now repeat apply knotify_jfree.
  Qed.

  Lemma qext_drainq J k1 k2 : qext J k1 k2 -> drainq k1 = drainq k2.
  Proof. intros (A & B & D & _). unfold drainq, kset_queue. now rewrite A, B, D. Qed.

  (* one covered operation and one read of the whole queue from a state synchronised up to junk *)
  Theorem cover_step_junk w k r o w' : mask_ok C -> JSync w k r -> covered_op C w o -> apply_op w o = Some w' ->
    let k1 := kernel_op k (w_fs w) o in
    exists r' k' evs, read_batch C (w_fs w') (r, drainq k1, []) (k_queue k1) = Done (r', k', evs) /\ RSync C w' k' r' /\
      Forall (rsafe C) evs.
  Proof.
    intros M [S HJ] Ho Ha k1.
    assert (Q : qext (k_queue k) k (kset_queue k [])) by (repeat split; cbn; now rewrite ?app_nil_r).
    assert (JF : jfree (k_queue k) (kset_queue k [])).
    { intros a kw Ha' Hk. rewrite Forall_forall in HJ. destruct (HJ a Ha') as [_ [H _]]. now apply H. }
    assert (Q1 := kernel_op_qext _ _ _ (w_fs w) o Q JF). fold k1 in Q1.
    destruct (cover_step_safe C Hfaults w (kset_queue k []) r o w' M S Ho Ha) as (r' & k' & evs & Hrd & S' & Hsafe).
    exists r', k', evs. split; [|split; assumption].
    rewrite (qext_drainq _ _ _ Q1). destruct Q1 as (_ & _ & _ & ->).
    rewrite read_batch_skip; [exact Hrd | apply (rs_pend _ _ _ _ S)|].
    eapply Forall_impl; [|exact HJ]. intros a [H _]. exact H.
  Qed.

  (* ---------------------------------------------------------------- _forget_tree *)
  Definition blw (p x : bytes) : bool := beqb x p || under p x.
  Definition tight (r : rstate) : Prop :=
    forall x wd, alookup beqb x (wfp r) = Some wd -> alookup N.eqb wd (pfw r) = Some x.
  (* wd is the descriptor recorded for the forgotten path or for something below it *)
  Definition fz (r : rstate) (p : bytes) (wd : N) : Prop :=
    exists x, blw p x = true /\ alookup beqb x (wfp r) = Some wd.

  Lemma krm_watches_eq k wd :
    k_watches (krm_watch k wd) = filter (fun x => negb (N.eqb (kw_wd x) wd)) (k_watches k) /\
    k_next_wd (krm_watch k wd) = k_next_wd k /\ k_next_cookie (krm_watch k wd) = k_next_cookie k /\
    exists ig, k_queue (krm_watch k wd) = k_queue k ++ ig /\ Forall (fun a => k_wd a = wd) ig.
  Proof.
    unfold krm_watch. destruct (find _ (k_watches k)) as [kw|] eqn:Ef; cbn.
    - repeat split. destruct (CoverProofs.kpush_cases (k_queue k) {| k_wd := wd; k_mask := IN_IGNORED; k_cookie := 0; k_name := [] |}) as [E|E]; rewrite E.
      + exists []. now rewrite app_nil_r.
      + eexists. split; [reflexivity|]. now repeat constructor.
    - repeat split.
      + symmetry. rewrite find_none_iff in Ef. induction (k_watches k) as [|a l IH]; [reflexivity|]. cbn.
        rewrite (Ef a) by now left. cbn. f_equal. apply IH. intros x Hx. apply Ef. now right.
      + exists []. now rewrite app_nil_r.
  Qed.

  Lemma filter_filter {A} (f g : A -> bool) l : filter f (filter g l) = filter (fun x => g x && f x) l.
  Proof. induction l as [|a l IH]; [reflexivity|]. cbn. destruct (g a); cbn; [destruct (f a)|]; now rewrite ?IH. Qed.

  Lemma forget_tree_spec p : forall keys r k r' k', tight r -> forget_tree keys p r k = (r', k') ->
    tight r' /\
    (forall x wd, alookup beqb x (wfp r') = Some wd -> alookup beqb x (wfp r) = Some wd) /\
    (forall x, blw p x = false -> alookup beqb x (wfp r') = alookup beqb x (wfp r)) /\
    (forall x, blw p x = true -> In x (map fst keys) -> alookup beqb x (wfp r') = None) /\
    (forall wd, ~ fz r p wd -> alookup N.eqb wd (pfw r') = alookup N.eqb wd (pfw r)) /\
    (forall wd, alookup N.eqb wd (pfw r) = None -> alookup N.eqb wd (pfw r') = None) /\
    (forall x wd, blw p x = true -> In x (map fst keys) -> alookup beqb x (wfp r) = Some wd -> alookup N.eqb wd (pfw r') = None) /\
    mvf r' = mvf r /\ pend r' = pend r /\
    (exists f, k_watches k' = filter f (k_watches k) /\ (forall kw, f kw = false -> fz r p (kw_wd kw)) /\
       (forall x wd kw, blw p x = true -> In x (map fst keys) -> alookup beqb x (wfp r) = Some wd -> kw_wd kw = wd -> f kw = false)) /\
    k_next_wd k' = k_next_wd k /\ k_next_cookie k' = k_next_cookie k /\
    (exists ig, k_queue k' = k_queue k ++ ig /\ Forall (fun a => fz r p (k_wd a)) ig).
  Proof.
    induction keys as [|[q0 y] keys IH]; intros r k r' k' Ht H; cbn [forget_tree] in H.
    - injection H as <- <-. split; [exact Ht|]. repeat split; auto; try (intros x _ []).
      + intros x wd _ [].
      + exists (fun _ => true). split; [|split; [discriminate | intros x wd kw _ []]].
        induction (k_watches k) as [|a l IHl]; [reflexivity | cbn; now rewrite <- IHl].
      + exists []. now rewrite app_nil_r.
    - change (beqb q0 p || starts (p ++ [sep]) q0) with (blw p q0) in H. cbn [map fst].
      destruct (blw p q0) eqn:Eb.
      2:{ destruct (IH _ _ _ _ Ht H) as (T' & W0 & W1 & W2 & P1 & P0 & P2 & M & Pd & (f & F1 & F2 & F3) & N1 & N2 & Q).
          split; [exact T'|]. repeat split; try assumption.
          - intros x Hx [E|Hin]; [cbn in E; subst; congruence | now apply W2].
          - intros x wd Hx [E|Hin]; [cbn in E; subst; congruence | now apply P2].
          - exists f. split; [exact F1|]. split; [exact F2|]. intros x wd kw Hx [E|Hin]; [cbn in E; subst; congruence | now apply F3]. }
      destruct (alookup beqb q0 (wfp r)) as [wd0|] eqn:Ew.
      2:{ destruct (IH _ _ _ _ Ht H) as (T' & W0 & W1 & W2 & P1 & P0 & P2 & M & Pd & (f & F1 & F2 & F3) & N1 & N2 & Q).
          split; [exact T'|]. repeat split; try assumption.
          - intros x Hx [E|Hin]; [|now apply W2]. cbn in E. subst x.
            destruct (alookup beqb q0 (wfp r')) as [w1|] eqn:E1; [|reflexivity]. apply W0 in E1. congruence.
          - intros x wd Hx [E|Hin]; [cbn in E; subst; congruence | now apply P2].
          - exists f. split; [exact F1|]. split; [exact F2|]. intros x wd kw Hx [E|Hin]; [cbn in E; subst; congruence | now apply F3]. }
      rewrite (Ht _ _ Ew), beqb_refl in H.
      set (r2 := {| wfp := aremove beqb q0 (wfp r); pfw := aremove N.eqb wd0 (pfw r); mvf := mvf r; calls := calls r; pend := pend r |}) in *.
      assert (Hinj : forall x wd, x <> q0 -> alookup beqb x (wfp r) = Some wd -> wd <> wd0).
      { intros x wd Hne Hx E. subst wd. apply Ht in Hx. rewrite (Ht _ _ Ew) in Hx. congruence. }
      assert (T2 : tight r2).
      { intros x wd Hx. cbn [r2 wfp pfw] in *. destruct (bytes_eq_dec x q0) as [->|Hne]; [now rewrite wrem_eq in Hx|].
        rewrite wrem_neq in Hx by assumption. rewrite prem_neq by (eapply Hinj; eauto). now apply Ht. }
      assert (Hfz : forall wd, fz r2 p wd -> fz r p wd).
      { intros wd (x & Hx & Hl). exists x. split; [exact Hx|]. cbn [r2 wfp] in Hl.
        destruct (bytes_eq_dec x q0) as [->|Hne]; [now rewrite wrem_eq in Hl | now rewrite wrem_neq in Hl]. }
      assert (Hfz0 : fz r p wd0) by (exists q0; now split).
      destruct (IH _ _ _ _ T2 H) as (T' & W0 & W1 & W2 & P1 & P0 & P2 & M & Pd & (f & F1 & F2 & F3) & N1 & N2 & (ig & Q1 & Q2)).
      destruct (krm_watches_eq k wd0) as (K1 & K2 & K3 & ig0 & K4 & K5).
      split; [exact T'|]. split; [|split; [|split; [|split; [|split; [|split; [|split; [|split; [|split; [|split; [|split]]]]]]]]]].
      + intros x wd Hx. apply W0 in Hx. cbn [r2 wfp] in Hx.
        destruct (bytes_eq_dec x q0) as [->|Hne]; [now rewrite wrem_eq in Hx | now rewrite wrem_neq in Hx].
      + intros x Hx. rewrite W1 by assumption. cbn [r2 wfp]. apply wrem_neq. intros ->. congruence.
      + intros x Hx [E|Hin].
        * cbn in E. subst x. destruct (alookup beqb q0 (wfp r')) as [w1|] eqn:E1; [|reflexivity].
          apply W0 in E1. cbn [r2 wfp] in E1. now rewrite wrem_eq in E1.
        * now apply W2.
      + intros wd Hn. rewrite P1 by (intros Hf; apply Hn; now apply Hfz). cbn [r2 pfw]. apply prem_neq. intros ->. contradiction.
      + intros wd Hn. apply P0. cbn [r2 pfw]. destruct (N.eq_dec wd wd0) as [->|Hne]; [apply prem_eq | now rewrite prem_neq].
      + intros x wd Hx Hin Hl. destruct (bytes_eq_dec x q0) as [->|Hne].
        * assert (wd = wd0) by congruence. subst wd. apply P0. cbn [r2 pfw]. apply prem_eq.
        * destruct Hin as [E|Hin]; [cbn in E; congruence|]. apply (P2 x wd Hx Hin). cbn [r2 wfp]. now rewrite wrem_neq.
      + now rewrite M.
      + now rewrite Pd.
      + exists (fun x => negb (N.eqb (kw_wd x) wd0) && f x). split; [now rewrite F1, K1, filter_filter|]. split.
        * intros kw Hf. apply andb_false_iff in Hf as [Hf|Hf].
          -- apply negb_false_iff, N.eqb_eq in Hf. now rewrite Hf.
          -- now apply Hfz, F2.
        * intros x wd kw Hx Hin Hl Ek. destruct (bytes_eq_dec x q0) as [->|Hne].
          -- assert (Ewd : wd = wd0) by congruence. rewrite Ewd in Ek. rewrite Ek, N.eqb_refl. reflexivity.
          -- destruct Hin as [E|Hin]; [cbn in E; congruence|].
             rewrite (F3 x wd kw Hx Hin); [apply andb_false_r | cbn [r2 wfp]; now rewrite wrem_neq | exact Ek].
      + now rewrite N1.
      + now rewrite N2.
      + exists (ig0 ++ ig). split; [now rewrite Q1, K4, app_assoc|]. apply Forall_app. split.
        * eapply Forall_impl; [|exact K5]. intros a ->. exact Hfz0.
        * eapply Forall_impl; [|exact Q2]. intros a. apply Hfz.
  Qed.

  Lemma forget_tree_keys p : forall keys r k r' k', forget_tree keys p r k = (r', k') ->
    NoDup (map fst (wfp r)) -> NoDup (map fst (wfp r')).
  Proof.
    induction keys as [|[q0 y] keys IH]; intros r k r' k' H Hn; cbn [forget_tree] in H; [now injection H as <- _|].
    destruct (beqb q0 p || starts (p ++ [sep]) q0); [|eapply IH; eauto].
    destruct (alookup beqb q0 (wfp r)) as [wd0|]; [|eapply IH; eauto].
    destruct (alookup N.eqb wd0 (pfw r)) as [q'|]; [destruct (beqb q' q0)|]; (eapply IH; [exact H|]); cbn [wfp]; now apply wkeys_rem.
  Qed.

  (* ---------------------------------------------------------------- the kernel with and without the departed watches *)
  (* kC is kP without the watches rejected by f *)
  Definition krel (f : kwatch -> bool) (kP kC : kst) : Prop :=
    k_watches kC = filter f (k_watches kP) /\ k_next_wd kC = k_next_wd kP /\ k_next_cookie kC = k_next_cookie kP /\
    k_queue kC = k_queue kP.

  (* no rejected watch sits on inode i *)
  Definition nohit_ino (f : kwatch -> bool) (k : kst) (i : N) : Prop :=
    forall kw, In kw (k_watches k) -> kw_ino kw = i -> f kw = true.

  Lemma find_filter_same {A} (g f : A -> bool) l : (forall x, In x l -> g x = true -> f x = true) ->
    find g (filter f l) = find g l.
  Proof.
    induction l as [|a l IH]; intros H; [reflexivity|]. cbn [filter find].
    assert (IH' : find g (filter f l) = find g l) by (apply IH; intros x Hx; apply H; now right).
    destruct (g a) eqn:Eg.
    - rewrite (H a (or_introl eq_refl) Eg). cbn [find]. now rewrite Eg.
    - destruct (f a); cbn [find]; rewrite ?Eg; exact IH'.
  Qed.

  Lemma krel_lookup f kP kC i : krel f kP kC -> nohit_ino f kP i -> watch_of_ino kC i = watch_of_ino kP i.
  Proof.
    intros (A & _) H. unfold watch_of_ino. rewrite A. apply find_filter_same. intros x Hx Hg. apply N.eqb_eq in Hg. now apply H.
  Qed.

  Lemma knotify_krel f kP kC ino bit isd c name : krel f kP kC -> nohit_ino f kP ino ->
    krel f (knotify kP ino bit isd c name) (knotify kC ino bit isd c name).
  Proof.
    intros R H. assert (L := krel_lookup f kP kC ino R H). destruct R as (A & B & D & E). unfold knotify. rewrite L.
    destruct (watch_of_ino kP ino) as [kw|]; [|now repeat split].
    destruct (N.eqb (N.land bit (kw_mask kw)) 0); [now repeat split|]. repeat split; cbn; congruence.
  Qed.

  Lemma knotify_nohit f k i ino bit isd c name : nohit_ino f k i -> nohit_ino f (knotify k ino bit isd c name) i.
  Proof.
    intros H kw Hk. apply H. destruct (knotify_cases k ino bit isd c name) as [E|(kw' & _ & _ & E)]; rewrite E in Hk; exact Hk.
  Qed.

  Lemma kgone_krel f kP kC ino af : krel f kP kC -> nohit_ino f kP ino ->
    krel f (kgone kP ino af) (kgone kC ino af).
  Proof.
    intros R H. assert (L := krel_lookup f kP kC ino R H). unfold kgone. rewrite L.
    destruct (watch_of_ino kP ino) as [kw|]; [|exact R].
    set (a1 := if af then knotify kP ino IN_ATTRIB true 0 [] else kP).
    set (a2 := if af then knotify kC ino IN_ATTRIB true 0 [] else kC).
    assert (R1 : krel f a1 a2 /\ nohit_ino f a1 ino).
    { unfold a1, a2. destruct af; [split; [now apply knotify_krel | now apply knotify_nohit] | now split]. }
    destruct R1 as [R1 H1].
    destruct (knotify_krel f a1 a2 ino IN_DELETE_SELF false 0 [] R1 H1) as (A & B & D & E).
    repeat split; cbn; try congruence. rewrite A, !filter_filter. apply filter_ext. intros x. apply andb_comm.
  Qed.

  Lemma kgone_nohit f k i ino af : nohit_ino f k i -> nohit_ino f (kgone k ino af) i.
  Proof.
    intros H kw Hk. apply H. unfold kgone in Hk. destruct (watch_of_ino k ino) as [w0|]; [|exact Hk].
    cbn in Hk. apply filter_In in Hk as [Hk _].
    assert (Hs : forall k0 kw0, In kw0 (k_watches (knotify k0 ino IN_DELETE_SELF false 0 [])) -> In kw0 (k_watches k0)).
    { intros k0 kw0 H0. destruct (knotify_cases k0 ino IN_DELETE_SELF false 0 []) as [E|(kw' & _ & _ & E)]; rewrite E in H0; exact H0. }
    apply Hs in Hk. destruct af; [|exact Hk].
    destruct (knotify_cases k ino IN_ATTRIB true 0 []) as [E|(kw' & _ & _ & E)]; rewrite E in Hk; exact Hk.
  Qed.

  (* the inodes whose watches an operation notifies *)
  Definition hits (t : fs) (o : op) : list N :=
    match o with
    | Touch p | Write p | Unlink p | Mkdir p => [ino_of t (dirname p)]
    | Chmod p | Rmdir p => [ino_of t (dirname p); ino_of t p]
    | Rename p q => [ino_of t (dirname p); ino_of t (dirname q); ino_of t q]
    end.

  Lemma kernel_op_krel f kP kC t o : krel f kP kC -> (forall i, In i (hits t o) -> nohit_ino f kP i) ->
    krel f (kernel_op kP t o) (kernel_op kC t o).
  Proof.
    intros R H. destruct o as [p|p|p|p|p|p|p q]; cbn [kernel_op hits] in *.
    - assert (H0 := H _ (or_introl eq_refl)). repeat first [apply knotify_krel | apply knotify_nohit]; assumption.
    - assert (H0 := H _ (or_introl eq_refl)). repeat first [apply knotify_krel | apply knotify_nohit]; assumption.
    - assert (H0 := H _ (or_introl eq_refl)). assert (H1 := H _ (or_intror (or_introl eq_refl))).
      destruct (fisdir p t); repeat first [apply knotify_krel | apply knotify_nohit]; assumption.
    - apply knotify_krel; [assumption | apply H; now left].
    - apply knotify_krel; [assumption | apply H; now left].
    - assert (H0 := H _ (or_introl eq_refl)). assert (H1 := H _ (or_intror (or_introl eq_refl))).
      apply knotify_krel; [now apply kgone_krel | now apply kgone_nohit].
    - assert (H0 := H _ (or_introl eq_refl)). assert (H1 := H _ (or_intror (or_introl eq_refl))).
      assert (H2 := H _ (or_intror (or_intror (or_introl eq_refl)))).
      set (c1 := {| k_watches := k_watches kP; k_next_wd := k_next_wd kP; k_queue := k_queue kP; k_next_cookie := k_next_cookie kP + 1 |}).
      set (c2 := {| k_watches := k_watches kC; k_next_wd := k_next_wd kC; k_queue := k_queue kC; k_next_cookie := k_next_cookie kC + 1 |}).
      assert (R0 : krel f c1 c2) by (destruct R as (A & B & D & E); repeat split; cbn; congruence).
      destruct R as (_ & _ & D & _). rewrite D.
      assert (R2 : krel f (knotify (knotify c1 (ino_of t (dirname p)) IN_MOVED_FROM (fisdir p t) (k_next_cookie kP) (basename p))
                                   (ino_of t (dirname q)) IN_MOVED_TO (fisdir p t) (k_next_cookie kP) (basename q))
                          (knotify (knotify c2 (ino_of t (dirname p)) IN_MOVED_FROM (fisdir p t) (k_next_cookie kP) (basename p))
                                   (ino_of t (dirname q)) IN_MOVED_TO (fisdir p t) (k_next_cookie kP) (basename q))).
      { apply knotify_krel; [now apply knotify_krel | now apply knotify_nohit]. }
      destruct (fisdir q t); [|exact R2]. apply kgone_krel; [exact R2|]. now repeat apply knotify_nohit.
  Qed.

  (* ---------------------------------------------------------------- the reader never looks at the kernel queue it holds *)
  Section Frame.
    Variable R : kst -> kst -> Prop.
    Hypothesis R_add : forall k1 k2 t p m, R k1 k2 ->
      match kadd_watch k1 t p m, kadd_watch k2 t p m with
      | Some (a, wa), Some (b, wb) => wa = wb /\ R a b
      | None, None => True
      | _, _ => False
      end.
    Hypothesis R_rm : forall k1 k2 wd, R k1 k2 -> R (krm_watch k1 wd) (krm_watch k2 wd).

  Definition orel {A} (o1 o2 : outcome (A * kst * list raw)) : Prop :=
    match o1, o2 with
    | Done (r1, k1, a1), Done (r2, k2, a2) => r1 = r2 /\ a1 = a2 /\ R k1 k2
    | Crash s1, Crash s2 => s1 = s2
    | _, _ => False
    end.

  Ltac ksolve := cbn; first [ assumption | reflexivity | (split; [reflexivity | split; [reflexivity | assumption]]) | (split; [reflexivity | assumption]) | (split; assumption) ].

  Lemma add_watch_keq r k1 k2 t p : R k1 k2 ->
    match add_watch C r k1 t p, add_watch C r k2 t p with
    | Some (ra, a, wa), Some (rb, b, wb) => ra = rb /\ wa = wb /\ R a b
    | None, None => True
    | _, _ => False
    end.
  Proof.
    intros E. unfold add_watch. destruct (mem_nat (calls r) (c_faults C)); [exact I|].
    assert (H := R_add k1 k2 t p (c_mask C) E).
    destruct (kadd_watch k1 t p (c_mask C)) as [[a wa]|], (kadd_watch k2 t p (c_mask C)) as [[b wb]|]; try contradiction; [|exact I].
    destruct H as [-> H]. split; [reflexivity|]. split; [reflexivity | exact H].
  Qed.

  Lemma sim_dirs_keq t rt ds : forall r k1 k2 acc, R k1 k2 ->
    let '(ra, a, xa) := sim_dirs C r k1 t rt ds acc in let '(rb, b, xb) := sim_dirs C r k2 t rt ds acc in
    ra = rb /\ xa = xb /\ R a b.
  Proof.
    induction ds as [|d ds IH]; intros r k1 k2 acc E; cbn [sim_dirs]; [ksolve|].
    assert (H := add_watch_keq r k1 k2 t (join rt d) E).
    destruct (add_watch C r k1 t (join rt d)) as [[[ra a] wa]|], (add_watch C r k2 t (join rt d)) as [[[rb b] wb]|]; try contradiction.
    - destruct H as (-> & -> & H). now apply IH.
    - now apply IH.
  Qed.

  Lemma simulate_keq t wk : forall r k1 k2 acc, R k1 k2 ->
    orel (simulate C r k1 t wk acc) (simulate C r k2 t wk acc).
  Proof.
    induction wk as [|[[rt ds] fls] wk IH]; intros r k1 k2 acc E; cbn [simulate]; [cbn; ksolve|].
    assert (H := sim_dirs_keq t rt ds r k1 k2 acc E).
    destruct (sim_dirs C r k1 t rt ds acc) as [[ra a] xa], (sim_dirs C r k2 t rt ds acc) as [[rb b] xb].
    destruct H as (-> & -> & H). destruct (sim_files C rb rt fls xb); [now apply IH | reflexivity].
  Qed.

  Lemma add_dirs_keq t ps : forall r k1 k2, R k1 k2 ->
    fst (add_dirs C r k1 t ps) = fst (add_dirs C r k2 t ps) /\ R (snd (add_dirs C r k1 t ps)) (snd (add_dirs C r k2 t ps)).
  Proof.
    induction ps as [|p ps IH]; intros r k1 k2 E; cbn [add_dirs]; [now split|].
    assert (H := add_watch_keq r k1 k2 t p E).
    destruct (add_watch C r k1 t p) as [[[ra a] wa]|], (add_watch C r k2 t p) as [[[rb b] wb]|]; try contradiction.
    - destruct H as (-> & -> & H). now apply IH.
    - now split.
  Qed.

  Lemma forget_tree_keq p keys : forall r k1 k2, R k1 k2 ->
    fst (forget_tree keys p r k1) = fst (forget_tree keys p r k2) /\ R (snd (forget_tree keys p r k1)) (snd (forget_tree keys p r k2)).
  Proof.
    induction keys as [|[q0 y] keys IH]; intros r k1 k2 E; cbn [forget_tree]; [now split|].
    destruct (beqb q0 p || starts (p ++ [sep]) q0); [|now apply IH].
    destruct (alookup beqb q0 (wfp r)) as [wd|]; [|now apply IH].
    destruct (alookup N.eqb wd (pfw r)) as [q'|]; [|now apply IH].
    destruct (beqb q' q0); [|now apply IH]. apply IH. now apply R_rm.
  Qed.

  Lemma settle_pending_keq r k1 k2 e : R k1 k2 ->
    fst (settle_pending C r k1 e) = fst (settle_pending C r k2 e) /\ R (snd (settle_pending C r k1 e)) (snd (settle_pending C r k2 e)).
  Proof.
    intros E. unfold settle_pending. destruct (c_fix_moveout C); [|now split]. destruct (pend r) as [[c p]|]; [|now split].
    destruct (is_moved_to (k_mask e) && N.eqb (k_cookie e) c && amem N.eqb (k_wd e) (pfw r)); [now split|].
    now apply forget_tree_keq.
  Qed.

  Lemma read_one_body_keq t r k1 k2 acc e : R k1 k2 ->
    orel (read_one_body C t (r, k1, acc) e) (read_one_body C t (r, k2, acc) e).
  Proof.
    intros E. unfold read_one_body. destruct (alookup N.eqb (k_wd e) (pfw r)) as [wp|].
    2:{ destruct (c_fix_moveout C); cbn; [ksolve | reflexivity]. }
    set (sp := match k_name e with [] => wp | _ :: _ => join wp (k_name e) end).
    assert (HAD := add_dirs_keq t (sp :: walk_dirs t sp) r k1 k2 E).
    destruct (add_dirs C r k1 t (sp :: walk_dirs t sp)) as [rda ka] eqn:Ea.
    destruct (add_dirs C r k2 t (sp :: walk_dirs t sp)) as [rdb kb] eqn:Eb. cbn [fst snd] in HAD. destruct HAD as [-> HAD].
    (* the first part yields the same reader state and event, and related kernels *)
    match goal with |- orel (match ?X1 with pair _ _ => _ end) (match ?X2 with pair _ _ => _ end) =>
      assert (HX : fst (fst X1) = fst (fst X2) /\ snd X1 = snd X2 /\ R (snd (fst X1)) (snd (fst X2))) end.
    { destruct (is_moved_from (k_mask e)); [ksolve|]. destruct (is_moved_to (k_mask e)); [|ksolve].
      destruct (alookup N.eqb (k_cookie e) (mvf r)) as [ms|].
      - destruct (alookup beqb ms (wfp r)); [ksolve|].
        destruct (c_fix_movein C && c_recursive C && is_directory (k_mask e) && fisdir sp t); ksolve.
      - destruct (c_fix_movein C && c_recursive C && is_directory (k_mask e) && fisdir sp t); ksolve. }
    match goal with |- orel (match ?X1 with pair _ _ => _ end) (match ?X2 with pair _ _ => _ end) =>
      destruct X1 as [[ra1 ka1] eva], X2 as [[rb1 kb1] evb] end.
    cbn [fst snd] in HX. destruct HX as (-> & -> & HK).
    match goal with |- orel (match ?Y with Done r2 => _ | Crash s => Crash s end) _ => destruct Y as [r2|]; [|reflexivity] end.
    destruct (c_recursive C && is_directory (k_mask e) && is_create (k_mask e)); [|cbn; ksolve].
    assert (H := add_watch_keq r2 ka1 kb1 t (r_path evb) HK).
    destruct (add_watch C r2 ka1 t (r_path evb)) as [[[r3a k3a] wa]|], (add_watch C r2 kb1 t (r_path evb)) as [[[r3b k3b] wb]|]; try contradiction.
    - destruct H as (-> & -> & H). now apply simulate_keq.
    - cbn. ksolve.
  Qed.

  Lemma read_one_keq t r k1 k2 acc e : R k1 k2 -> orel (read_one C t (r, k1, acc) e) (read_one C t (r, k2, acc) e).
  Proof.
    intros E. unfold read_one. assert (H := settle_pending_keq r k1 k2 e E).
    destruct (settle_pending C r k1 e) as [ra ka], (settle_pending C r k2 e) as [rb kb]. cbn [fst snd] in H.
    destruct H as [-> H]. now apply read_one_body_keq.
  Qed.

  Lemma read_batch_keq t b : forall r k1 k2 acc, R k1 k2 ->
    orel (read_batch C t (r, k1, acc) b) (read_batch C t (r, k2, acc) b).
  Proof.
    induction b as [|e b IH]; intros r k1 k2 acc E; cbn [read_batch]; [cbn; ksolve|].
    assert (H := read_one_keq t r k1 k2 acc e E).
    destruct (read_one C t (r, k1, acc) e) as [[[ra ka] xa]|sa], (read_one C t (r, k2, acc) e) as [[[rb kb] xb]|sb];
      cbn in H; try contradiction.
    - destruct H as (-> & -> & H). now apply IH.
    - now subst.
  Qed.
  End Frame.

  (* ---------------------------------------------------------------- dead descriptors stay dead *)
  Section Dead.
    Variable D : N -> Prop.

    Definition dinv (k : kst) (r : rstate) : Prop :=
      forall wd, D wd -> (wd < k_next_wd k)%N /\ (forall kw, In kw (k_watches k) -> kw_wd kw <> wd) /\
                         alookup N.eqb wd (pfw r) = None /\ (forall x, alookup beqb x (wfp r) <> Some wd).

    Lemma wfp_aset_ne x y (v wd : N) m : v <> wd -> alookup beqb x m <> Some wd -> alookup beqb x (aset beqb y v m) <> Some wd.
    Proof.
      intros Hv Hm. destruct (bytes_eq_dec x y) as [->|Hne]; [rewrite wset_eq; congruence | now rewrite wset_neq].
    Qed.

    Lemma wfp_arem_ne x y (wd : N) m : alookup beqb x m <> Some wd -> alookup beqb x (aremove beqb y m) <> Some wd.
    Proof.
      intros Hm. destruct (bytes_eq_dec x y) as [->|Hne]; [rewrite wrem_eq; congruence | now rewrite wrem_neq].
    Qed.

    Lemma pfw_aset_none wd v (y : bytes) m : v <> wd -> alookup N.eqb wd m = None -> alookup N.eqb wd (aset N.eqb v y m) = None.
    Proof. intros Hv Hm. now rewrite pset_neq by congruence. Qed.

    Lemma pfw_arem_none wd v (m : list (N * bytes)) : alookup N.eqb wd m = None -> alookup N.eqb wd (aremove N.eqb v m) = None.
    Proof. intros Hm. destruct (N.eq_dec wd v) as [->|Hne]; [apply prem_eq | now rewrite prem_neq]. Qed.

    Lemma wfp_unlabel_ne x r wd0 p (wd : N) : alookup beqb x (wfp r) <> Some wd -> alookup beqb x (unlabel C r wd0 p) <> Some wd.
    Proof. intros H Hx. apply H. now apply (ReaderFixProofs.unlabel_sub C) in Hx. Qed.

    Lemma add_watch_dinv r k t p r' k' wd' : dinv k r -> add_watch C r k t p = Some (r', k', wd') -> dinv k' r' /\ ~ D wd'.
    Proof.
      intros H Ha. unfold add_watch in Ha. destruct (mem_nat (calls r) (c_faults C)); [discriminate|].
      unfold kadd_watch in Ha. destruct (flookup p t) as [e|]; [|discriminate].
      destruct (watch_of_ino k (f_ino e)) as [w0|] eqn:Ew.
      - injection Ha as <- <- <-. apply watch_of_ino_some in Ew as [Hk _].
        assert (Hnd : ~ D (kw_wd w0)) by (intros Hd; destruct (H _ Hd) as (_ & Hl & _); exact (Hl w0 Hk eq_refl)).
        split; [|exact Hnd]. intros wd Hd. destruct (H wd Hd) as (A & B & P1 & W1). cbn -[unlabel].
        assert (Hne : kw_wd w0 <> wd) by (intros E; apply Hnd; now rewrite E).
        split; [exact A|]. split; [|split; [now apply pfw_aset_none | intros x; apply wfp_aset_ne; [exact Hne | apply wfp_unlabel_ne; apply W1]]].
        intros kw Hin. apply in_map_iff in Hin as (x0 & <- & Hx0). destruct (N.eqb (kw_wd x0) (kw_wd w0)); cbn; now apply B.
      - injection Ha as <- <- <-.
        assert (Hnd : ~ D (k_next_wd k)) by (intros Hd; destruct (H _ Hd) as (A & _); lia).
        split; [|exact Hnd]. intros wd Hd. destruct (H wd Hd) as (A & B & P1 & W1). cbn -[unlabel].
        assert (Hne : k_next_wd k <> wd) by lia.
        split; [lia|]. split; [|split; [now apply pfw_aset_none | intros x; apply wfp_aset_ne; [exact Hne | apply wfp_unlabel_ne; apply W1]]].
        intros kw Hin. apply in_app_iff in Hin as [Hin|[<-|[]]]; [now apply B | exact Hne].
    Qed.

    Lemma bump_dinv r k : dinv k r -> dinv k (bump r).
    Proof. exact (fun H => H). Qed.

    Lemma sim_dirs_dinv t rt ds : forall r k acc, dinv k r ->
      dinv (snd (fst (sim_dirs C r k t rt ds acc))) (fst (fst (sim_dirs C r k t rt ds acc))).
    Proof.
      induction ds as [|d ds IH]; intros r k acc H; cbn [sim_dirs]; [exact H|].
      destruct (add_watch C r k t (join rt d)) as [[[r1 k1] wd]|] eqn:E; [|now apply IH].
      apply IH. now apply (add_watch_dinv _ _ _ _ _ _ _ H E).
    Qed.

    Lemma simulate_dinv t wk : forall r k acc r' k' acc', dinv k r -> simulate C r k t wk acc = Done (r', k', acc') -> dinv k' r'.
    Proof.
      induction wk as [|[[rt ds] fls] wk IH]; intros r k acc r' k' acc' H Hs; cbn [simulate] in Hs.
      - now injection Hs as <- <- <-.
      - assert (H1 := sim_dirs_dinv t rt ds r k acc H). destruct (sim_dirs C r k t rt ds acc) as [[r1 k1] a1]. cbn in H1.
        destruct (sim_files C r1 rt fls a1); [|discriminate]. eapply IH; eassumption.
    Qed.

    Lemma add_dirs_dinv t ps : forall r k, dinv k r -> dinv (snd (add_dirs C r k t ps)) (fst (add_dirs C r k t ps)).
    Proof.
      induction ps as [|p ps IH]; intros r k H; cbn [add_dirs]; [exact H|].
      destruct (add_watch C r k t p) as [[[r1 k1] wd]|] eqn:E; [|exact H].
      apply IH. now apply (add_watch_dinv _ _ _ _ _ _ _ H E).
    Qed.

    Lemma rekey_loop_dinv k keys src dst : forall r, dinv k r -> dinv k (rekey_loop keys src dst r).
    Proof.
      induction keys as [|[p wd0] keys IH]; intros r H; cbn [rekey_loop]; [exact H|].
      destruct (starts (src ++ [sep]) p); [|now apply IH]. destruct (alookup beqb p (wfp r)) as [wv|] eqn:E; [|now apply IH].
      apply IH. intros wd Hd. destruct (H wd Hd) as (A & B & P1 & W1). cbn.
      assert (Hne : wv <> wd) by (intros ->; exact (W1 p E)).
      split; [exact A|]. split; [exact B|]. split; [now apply pfw_aset_none|]. intros x. apply wfp_aset_ne; [exact Hne|]. now apply wfp_arem_ne.
    Qed.

    Lemma krm_watch_dinv k r wd : dinv k r -> dinv (krm_watch k wd) r.
    Proof.
      intros H wd' Hd. destruct (H wd' Hd) as (A & B & P1 & W1). destruct (krm_watches_eq k wd) as (K1 & K2 & _).
      rewrite K1, K2. split; [exact A|]. split; [|now split]. intros kw Hk. apply filter_In in Hk as [Hk _]. now apply B.
    Qed.

    Lemma forget_tree_dinv p keys : forall r k, dinv k r -> dinv (snd (forget_tree keys p r k)) (fst (forget_tree keys p r k)).
    Proof.
      induction keys as [|[q0 y] keys IH]; intros r k H; cbn [forget_tree]; [exact H|].
      destruct (beqb q0 p || starts (p ++ [sep]) q0); [|now apply IH].
      destruct (alookup beqb q0 (wfp r)) as [wd|]; [|now apply IH].
      assert (H1 : dinv k {| wfp := aremove beqb q0 (wfp r); pfw := pfw r; mvf := mvf r; calls := calls r; pend := pend r |}).
      { intros wd' Hd. destruct (H wd' Hd) as (A & B & P1 & W1). cbn. repeat split; try assumption. intros x. now apply wfp_arem_ne. }
      destruct (alookup N.eqb wd (pfw r)) as [q'|]; [|now apply IH]. destruct (beqb q' q0); [|now apply IH].
      apply IH. apply krm_watch_dinv. intros wd' Hd. destruct (H1 wd' Hd) as (A & B & P1 & W1). cbn in *.
      repeat split; try assumption. now apply pfw_arem_none.
    Qed.

    Lemma settle_pending_dinv r k e : dinv k r -> dinv (snd (settle_pending C r k e)) (fst (settle_pending C r k e)).
    Proof.
      intros H. unfold settle_pending. destruct (c_fix_moveout C); [|exact H]. destruct (pend r) as [[c p]|]; [|exact H].
      destruct (is_moved_to (k_mask e) && N.eqb (k_cookie e) c && amem N.eqb (k_wd e) (pfw r)); [exact H|].
      now apply forget_tree_dinv.
    Qed.

    Lemma read_one_body_dinv t r k acc e r' k' acc' : dinv k r -> read_one_body C t (r, k, acc) e = Done (r', k', acc') -> dinv k' r'.
    Proof.
      intros H Hr. unfold read_one_body in Hr. destruct (alookup N.eqb (k_wd e) (pfw r)) as [wp|] eqn:Ewp.
      2:{ destruct (c_fix_moveout C); [now injection Hr as <- <- <- | discriminate]. }
      set (sp := match k_name e with [] => wp | _ :: _ => join wp (k_name e) end) in *.
      assert (HAD := add_dirs_dinv t (sp :: walk_dirs t sp) r k H).
      destruct (add_dirs C r k t (sp :: walk_dirs t sp)) as [rda ka] eqn:Ea. cbn [fst snd] in HAD.
      match type of Hr with context [match ?X with pair _ _ => _ end] => assert (HX : dinv (snd (fst X)) (fst (fst X))) end.
      { destruct (is_moved_from (k_mask e)); [exact H|]. destruct (is_moved_to (k_mask e)); [|exact H].
        assert (Hrk : forall mwd ms, alookup beqb ms (wfp r) = Some mwd ->
                  dinv k (if c_recursive C
                          then rekey_loop (aset beqb sp mwd (aremove beqb ms (wfp r))) ms sp
                                 {| wfp := aset beqb sp mwd (aremove beqb ms (wfp r)); pfw := aset N.eqb mwd sp (pfw r); mvf := mvf r; calls := calls r; pend := pend r |}
                          else {| wfp := aset beqb sp mwd (aremove beqb ms (wfp r)); pfw := aset N.eqb mwd sp (pfw r); mvf := mvf r; calls := calls r; pend := pend r |})).
        { intros mwd ms Em.
          assert (H1 : dinv k {| wfp := aset beqb sp mwd (aremove beqb ms (wfp r)); pfw := aset N.eqb mwd sp (pfw r); mvf := mvf r; calls := calls r; pend := pend r |}).
          { intros wd Hd. destruct (H wd Hd) as (A & B & P1 & W1). cbn.
            assert (Hne : mwd <> wd) by (intros ->; exact (W1 ms Em)).
            split; [exact A|]. split; [exact B|]. split; [now apply pfw_aset_none|]. intros x. apply wfp_aset_ne; [exact Hne|]. now apply wfp_arem_ne. }
          destruct (c_recursive C); [now apply rekey_loop_dinv | exact H1]. }
        destruct (alookup N.eqb (k_cookie e) (mvf r)) as [ms|].
        - destruct (alookup beqb ms (wfp r)) as [mwd|] eqn:Em; [now apply Hrk|].
          destruct (c_fix_movein C && c_recursive C && is_directory (k_mask e) && fisdir sp t); [exact HAD | exact H].
        - destruct (c_fix_movein C && c_recursive C && is_directory (k_mask e) && fisdir sp t); [exact HAD | exact H]. }
      match type of Hr with context [match ?X with pair _ _ => _ end] => destruct X as [[r1 k1] ev1] end. cbn [fst snd] in HX.
      match type of Hr with context [match ?Y with Done _ => _ | Crash s => Crash s end] =>
        assert (HY : forall r2, Y = Done r2 -> dinv k1 r2); [|destruct Y as [r2|]; [|discriminate]] end.
      { intros r2. destruct (is_ignored (k_mask e)); [|intros E; injection E as <-; exact HX].
        destruct (alookup N.eqb (k_wd e) (pfw r1)) as [path|]; [|discriminate].
        assert (H1 : dinv k1 {| wfp := wfp r1; pfw := aremove N.eqb (k_wd e) (pfw r1); mvf := mvf r1; calls := calls r1; pend := pend r1 |}).
        { intros wd Hd. destruct (HX wd Hd) as (A & B & P1 & W1). cbn. repeat split; try assumption. now apply pfw_arem_none. }
        cbn [wfp]. destruct (alookup beqb path (wfp r1)) as [w0|].
        - destruct (N.eqb w0 (k_wd e)); intros E; injection E as <-; [|exact H1].
          intros wd Hd. destruct (H1 wd Hd) as (A & B & P1 & W1). cbn in *. repeat split; try assumption. intros x. now apply wfp_arem_ne.
        - destruct (c_fix_ignored C); [intros E; injection E as <-; exact H1 | discriminate]. }
      specialize (HY r2 eq_refl).
      destruct (c_recursive C && is_directory (k_mask e) && is_create (k_mask e)).
      - destruct (add_watch C r2 k1 t (r_path ev1)) as [[[r3 k3] wd3]|] eqn:Eaw.
        + eapply simulate_dinv; [|exact Hr]. now apply (add_watch_dinv _ _ _ _ _ _ _ HY Eaw).
        + injection Hr as <- <- <-. exact HY.
      - injection Hr as <- <- <-. exact HY.
    Qed.

    Lemma read_one_dinv t r k acc e r' k' acc' : dinv k r -> read_one C t (r, k, acc) e = Done (r', k', acc') -> dinv k' r'.
    Proof.
      intros H Hr. unfold read_one in Hr. assert (H1 := settle_pending_dinv r k e H).
      destruct (settle_pending C r k e) as [r0 k0]. eapply read_one_body_dinv; eassumption.
    Qed.

    Lemma read_batch_dinv t b : forall r k acc r' k' acc', dinv k r -> read_batch C t (r, k, acc) b = Done (r', k', acc') -> dinv k' r'.
    Proof.
      induction b as [|e b IH]; intros r k acc r' k' acc' H Hr; cbn [read_batch] in Hr; [now injection Hr as <- <- <-|].
      destruct (read_one C t (r, k, acc) e) as [[[r1 k1] a1]|] eqn:E; [|discriminate].
      eapply IH; [|exact Hr]. eapply read_one_dinv; eassumption.
    Qed.
  End Dead.

  (* ---------------------------------------------------------------- _forget_tree as a list of inotify_rm_watch calls *)
  Lemma forget_tree_fold p keys : forall r, exists wds rF,
    (forall k, forget_tree keys p r k = (rF, fold_left krm_watch wds k)) /\
    (forall wd, In wd wds -> exists x, blw p x = true /\ In x (map fst keys) /\ alookup beqb x (wfp r) = Some wd).
  Proof.
    induction keys as [|[q0 y] keys IH]; intros r.
    - exists [], r. split; [reflexivity | intros wd []].
    - cbn [forget_tree map fst]. change (beqb q0 p || starts (p ++ [sep]) q0) with (blw p q0).
      destruct (blw p q0) eqn:Eb.
      2:{ destruct (IH r) as (wds & rF & H1 & H2). exists wds, rF. split; [exact H1|].
          intros wd Hw. destruct (H2 wd Hw) as (x & A & B & D). exists x. split; [exact A|]. split; [now right | exact D]. }
      destruct (alookup beqb q0 (wfp r)) as [wd0|] eqn:Ew.
      2:{ destruct (IH r) as (wds & rF & H1 & H2). exists wds, rF. split; [exact H1|].
          intros wd Hw. destruct (H2 wd Hw) as (x & A & B & D). exists x. split; [exact A|]. split; [now right | exact D]. }
      assert (Hsub : forall x wd, x <> q0 -> alookup beqb x (aremove beqb q0 (wfp r)) = Some wd -> alookup beqb x (wfp r) = Some wd)
        by (intros x wd Hne Hx; now rewrite wrem_neq in Hx).
      assert (Hrem : forall (r1 : rstate), wfp r1 = aremove beqb q0 (wfp r) ->
                forall wds, (forall wd, In wd wds -> exists x, blw p x = true /\ In x (map fst keys) /\ alookup beqb x (wfp r1) = Some wd) ->
                forall wd, In wd wds -> exists x, blw p x = true /\ (q0 = x \/ In x (map fst keys)) /\ alookup beqb x (wfp r) = Some wd).
      { intros r1 E1 wds H2 wd Hw. destruct (H2 wd Hw) as (x & A & B & D). exists x. split; [exact A|]. split; [now right|].
        rewrite E1 in D. destruct (bytes_eq_dec x q0) as [->|Hne]; [now rewrite wrem_eq in D | now apply Hsub]. }
      destruct (alookup N.eqb wd0 (pfw r)) as [q'|].
      + destruct (beqb q' q0).
        * match goal with |- context [forget_tree keys p ?r1 _] => destruct (IH r1) as (wds & rF & H1 & H2); pose (rr := r1) end.
          exists (wd0 :: wds), rF. split; [intros k; cbn [fold_left]; apply H1|].
          intros wd [<-|Hw]; [exists q0; split; [exact Eb|]; split; [now left | exact Ew]|]. now apply (Hrem rr eq_refl wds H2).
        * match goal with |- context [forget_tree keys p ?r1 _] => destruct (IH r1) as (wds & rF & H1 & H2); pose (rr := r1) end.
          exists wds, rF. split; [exact H1|]. now apply (Hrem rr eq_refl wds H2).
      + match goal with |- context [forget_tree keys p ?r1 _] => destruct (IH r1) as (wds & rF & H1 & H2); pose (rr := r1) end.
        exists wds, rF. split; [exact H1|]. now apply (Hrem rr eq_refl wds H2).
  Qed.

  Definition keepf (wds : list N) (kw : kwatch) : bool := negb (DelayQueue.memN (kw_wd kw) wds).

  Lemma memN_in x l : DelayQueue.memN x l = true <-> In x l.
  Proof.
    induction l as [|a l IH]; cbn; [split; [discriminate | intros []]|]. rewrite orb_true_iff, N.eqb_eq, IH. split; intros [H|H]; auto.
  Qed.

  Lemma fold_krm wds : forall k,
    k_watches (fold_left krm_watch wds k) = filter (keepf wds) (k_watches k) /\
    k_next_wd (fold_left krm_watch wds k) = k_next_wd k /\ k_next_cookie (fold_left krm_watch wds k) = k_next_cookie k /\
    exists ig, k_queue (fold_left krm_watch wds k) = k_queue k ++ ig /\ Forall (fun a => In (k_wd a) wds) ig.
  Proof.
    induction wds as [|wd wds IH]; intros k; cbn [fold_left].
    - repeat split. + unfold keepf. cbn. induction (k_watches k) as [|a l IHl]; [reflexivity | cbn; now rewrite <- IHl].
      + exists []. now rewrite app_nil_r.
    - destruct (IH (krm_watch k wd)) as (A & B & D & ig & E & F). destruct (krm_watches_eq k wd) as (A0 & B0 & D0 & ig0 & E0 & F0).
      split; [|split; [congruence|split; [congruence|]]].
      + rewrite A, A0, filter_filter. apply filter_ext. intros x. unfold keepf. cbn. now rewrite negb_orb.
      + exists (ig0 ++ ig). split; [now rewrite E, E0, app_assoc|]. apply Forall_app. split.
        * eapply Forall_impl; [|exact F0]. intros a ->. now left.
        * eapply Forall_impl; [|exact F]. intros a Ha. now right.
  Qed.

  (* ---------------------------------------------------------------- the reader frame, instance: junk in front of the queue *)
  Definition qextj (J : list kraw) (k1 k2 : kst) : Prop :=
    qext J k1 k2 /\ forall a, In a J -> (k_wd a < k_next_wd k2)%N /\ forall kw, In kw (k_watches k2) -> kw_wd kw <> k_wd a.

  Lemma qextj_add J k1 k2 t p m : qextj J k1 k2 ->
    match kadd_watch k1 t p m, kadd_watch k2 t p m with
    | Some (a, wa), Some (b, wb) => wa = wb /\ qextj J a b
    | None, None => True
    | _, _ => False
    end.
  Proof.
    intros [(A & B & D & E) HJ]. unfold kadd_watch, watch_of_ino. rewrite A. destruct (flookup p t) as [e|]; [|exact I].
    destruct (find _ (k_watches k2)) as [w0|] eqn:Ef.
    - split; [reflexivity|]. split; [repeat split; cbn; congruence|]. intros a Ha. cbn. destruct (HJ a Ha) as [L Hn]. split; [exact L|].
      intros kw Hin. apply in_map_iff in Hin as (x0 & <- & Hx0). destruct (N.eqb (kw_wd x0) (kw_wd w0)); cbn; now apply Hn.
    - split; [congruence|]. split; [repeat split; cbn; congruence|]. intros a Ha. cbn. destruct (HJ a Ha) as [L Hn]. split; [lia|].
      intros kw Hin. apply in_app_iff in Hin as [Hin|[<-|[]]]; [now apply Hn | cbn; lia].
  Qed.

  Lemma qextj_rm J k1 k2 wd : qextj J k1 k2 -> qextj J (krm_watch k1 wd) (krm_watch k2 wd).
  Proof.
    intros [(A & B & D & E) HJ]. unfold krm_watch. rewrite A. destruct (find _ (k_watches k2)) as [w0|] eqn:Ef; [|now split].
    apply find_some in Ef as [Hw0 Ew0]. apply N.eqb_eq in Ew0.
    split; [repeat split; cbn; try congruence|].
    - rewrite E. apply kpush_qext. intros a Ha. cbn. destruct (HJ a Ha) as [_ Hn]. rewrite <- Ew0. intros Eq. exact (Hn w0 Hw0 (eq_sym Eq)).
    - intros a Ha. cbn. destruct (HJ a Ha) as [L Hn]. split; [exact L|]. intros kw Hk. apply filter_In in Hk as [Hk _]. now apply Hn.
  Qed.

  (* ---------------------------------------------------------------- the state right after a directory left the tree *)
  Definition rclr (r : rstate) : rstate := {| wfp := wfp r; pfw := pfw r; mvf := mvf r; calls := calls r; pend := None |}.

  (* h = where the departed directory is now; (c, p) = the pending candidate: cookie and old path *)
  Record POut (w : world) (k : kst) (r : rstate) (h : bytes) (c : N) (p : bytes) : Prop := {
    po_pend : pend r = Some (c, p);
    po_cookie : (c < k_next_cookie k)%N;
    po_queue : k_queue k = [];
    po_tight : tight r;
    po_lt : forall kw, In kw (k_watches k) -> (kw_wd kw < k_next_wd k)%N;
    po_wds : NoDup (map kw_wd (k_watches k));
    po_live : forall x wd, alookup beqb x (wfp r) = Some wd -> exists kw, In kw (k_watches k) /\ kw_wd kw = wd;
    po_mask : forall kw, In kw (k_watches k) -> kw_mask kw = c_mask C;
    (* forgetting the departed sub-tree gives a synchronised state *)
    po_clean : RSync C w (kset_queue (snd (forget_tree (wfp r) p (rclr r) k)) []) (fst (forget_tree (wfp r) p (rclr r) k));
    po_cover : Cover C (w_fs w) k r;
    (* the watches that will be forgotten sit on directories at or below h *)
    po_stale : forall kw, In kw (k_watches k) -> fz r p (kw_wd kw) ->
               exists e, In e (w_fs w) /\ f_ino e = kw_ino kw /\ blw h (f_path e) = true
  }.

  Lemma blw_frename p q t1 : p <> q -> under p q = false -> under q p = false ->
    forall e, In e (frename p q t1) -> blw p (f_path e) = false.
  Proof.
    intros Hne Hpq Hqp e He. rewrite CoverProofs.frename_map in He. apply in_map_iff in He as (e0 & <- & _). rewrite ren_path.
    unfold blw. destruct (bytes_eq_dec (f_path e0) p) as [E|E].
    - rewrite E, rk_self. apply beqb_neq in Hne. rewrite beqb_neq in Hne. assert (Hq' : beqb q p = false) by (apply beqb_neq; congruence).
      now rewrite Hq', Hpq.
    - destruct (under p (f_path e0)) eqn:Eu.
      + apply under_spec in Eu as [s ->]. rewrite rk_under. rewrite under_disjoint by assumption. rewrite orb_false_r.
        apply beqb_neq. intros E'. rewrite <- E', under_app in Hqp. discriminate.
      + rewrite rk_other by assumption. apply beqb_neq in E. now rewrite E, Eu.
  Qed.

  (* a directory of the tree moved out: the candidate is pending *)
  Theorem out_pout w k r p q w' ep : RSync C w k r -> npath p -> npath q -> c_recursive C = true ->
    N.land IN_MOVED_FROM (c_mask C) <> 0%N -> N.land IN_MOVED_TO (c_mask C) <> 0%N ->
    apply_op w (Rename p q) = Some w' -> flookup p (w_fs w) = Some ep -> f_dir ep = true ->
    scope C p -> p <> root -> ~ scope C q ->
    let k1 := kernel_op k (w_fs w) (Rename p q) in
    exists r' k' evs, read_batch C (w_fs w') (r, drainq k1, []) (k_queue k1) = Done (r', k', evs) /\
      POut w' k' r' q (k_next_cookie k) p /\ Forall (rsafe C) evs.
  Proof.
    intros S Np Nq Hrec Hmf Hmt Ha Elp Dep Sp Hpr Sq k1.
    destruct (step_rename_dir_out C w k r p q w' ep S Np Nq Hrec Hmf Hmt Ha Elp Dep Sp Hpr Sq)
      as (r' & k' & evs & Hrd & W' & Hroot' & Cv' & Hq' & Ewf & Epf & Ewa & Epd & Emv & Enw & Enc & Hsafe).
    rewrite Hmo in Epd. exists r', k', evs. split; [exact Hrd|]. split; [|exact Hsafe].
    destruct S as [W Hr I Cv Hq Hpd].
    destruct (rename_inv w p q w' W Np Nq Ha) as (ep' & t1 & Elp' & Hne & Hupq & Edq & -> & Hbelow & Hq1).
    assert (ep' = ep) by congruence. subst ep'. destruct (flookup_some _ _ _ Elp) as [Hep Eep].
    assert (Hqp : under q p = false) by (rewrite <- Eep; now apply Hbelow).
    assert (Tr : tight r') by (intros x wd Hx; rewrite Ewf in Hx; rewrite Epf; now apply (wi_tight _ _ _ _ I)).
    assert (Tc : tight (rclr r')) by exact Tr.
    set (c := k_next_cookie k) in *.
    assert (Hsub : forall e, In e t1 -> In e (w_fs w)).
    { intros e He. destruct Hq1 as [[_ ->]|(v & _ & -> & _)]; [assumption | now apply fremove_in in He]. }
    assert (Hint1 : forall e, In e (w_fs w) -> f_path e <> q -> In e t1).
    { intros e He Hn. destruct Hq1 as [[_ ->]|(v & _ & -> & _)]; [assumption | now apply fremove_in]. }
    (* keys of the table *)
    assert (Hkeys : forall x wd, alookup beqb x (wfp r) = Some wd -> In x (map fst (wfp r))).
    { intros x wd Hx. apply (alookup_in beqb beqb_eq) in Hx. now apply (in_map fst) in Hx. }
    destruct (forget_tree (wfp r') p (rclr r') k') as [rC kC] eqn:Ef.
    destruct (forget_tree_spec p _ _ _ _ _ Tc Ef) as (T' & W0 & W1 & W2 & P1 & P0 & P2 & M & Pd & (f & F1 & F2 & F3) & N1 & N2 & Q).
    cbn [rclr wfp pfw mvf pend] in W0, W1, W2, P1, P0, P2, M, Pd, F2, F3. rewrite ?Ewf, ?Epf in *.
    assert (Hnofz : forall x wd, blw p x = false -> alookup beqb x (wfp r) = Some wd -> ~ fz (rclr r') p wd).
    { intros x wd Hb Hx (x' & Hb' & Hx'). cbn [rclr wfp] in Hx'. rewrite Ewf in Hx'.
      assert (x' = x) by (apply (wi_tight _ _ _ _ I) in Hx as [_ Hx]; apply (wi_tight _ _ _ _ I) in Hx' as [_ Hx']; congruence).
      congruence. }
    assert (Hkeep : forall kw x, In kw (k_watches k) -> blw p x = false -> alookup beqb x (wfp r) = Some (kw_wd kw) -> f kw = true).
    { intros kw x Hk Hb Hx. destruct (f kw) eqn:E; [reflexivity|]. exfalso. exact (Hnofz x _ Hb Hx (F2 kw E)). }
    constructor; try assumption.
    - cbn. unfold c. rewrite Enc. lia.
    - intros kw Hk. rewrite Ewa in Hk. rewrite Enw. now apply (wi_lt _ _ _ _ I).
    - rewrite Ewa. apply I.
    - intros x wd Hx. rewrite Ewf in Hx. rewrite Ewa. apply (wi_tight _ _ _ _ I) in Hx as [Hx _]. exact Hx.
    - intros kw Hk. rewrite Ewa in Hk. now apply (wi_mask _ _ _ _ I).
    - (* the clean state *)
      rewrite Ewf, Ef. cbn [fst snd].
      assert (Hwk : k_watches (kset_queue kC []) = filter f (k_watches k)) by (cbn; now rewrite F1, Ewa).
      constructor; try assumption.
      + constructor; rewrite ?Hwk; cbn [kset_queue k_next_wd k_next_cookie].
        * intros kw Hk. apply filter_In in Hk as [Hk _]. rewrite N1, Enw. now apply (wi_lt _ _ _ _ I).
        * apply NoDup_map_filter, I.
        * apply NoDup_map_filter, I.
        * intros kw Hk. apply filter_In in Hk as [Hk _]. now apply (wi_mask _ _ _ _ I).
        * intros kw Hk. apply filter_In in Hk as [Hk Hf].
          destruct (wi_exact _ _ _ _ I kw Hk) as (e & He & De & Se & Ie & Pe & We).
          assert (Hb : blw p (f_path e) = false).
          { destruct (blw p (f_path e)) eqn:Eb; [|reflexivity]. exfalso.
            rewrite (F3 (f_path e) (kw_wd kw) kw Eb (Hkeys _ _ We) We eq_refl) in Hf. discriminate. }
          assert (Hren : ren p q e = e).
          { unfold blw in Hb. apply orb_false_iff in Hb as [B1 B2]. unfold ren. now rewrite B1, B2. }
          exists e. split; [|split; [exact De|split; [exact Se|split; [exact Ie|split]]]].
          -- cbn [w_fs]. rewrite CoverProofs.frename_map, <- Hren. apply in_map. apply Hint1; [exact He|]. intros E. apply Sq. now rewrite <- E.
          -- rewrite P1 by (eapply Hnofz; eauto). exact Pe.
          -- now rewrite W1.
        * intros x wd HxC. assert (Hx := W0 _ _ HxC). destruct (wi_tight _ _ _ _ I x wd Hx) as ((kw & Hk & Ek) & Hp).
          assert (Hb : blw p x = false).
          { destruct (blw p x) eqn:Eb; [|reflexivity]. exfalso. rewrite (W2 x Eb (Hkeys _ _ Hx)) in HxC. discriminate. }
          split; [exists kw; split; [apply filter_In; split; [exact Hk | apply (Hkeep kw x Hk Hb); now rewrite Ek] | exact Ek]|].
          rewrite P1 by (eapply Hnofz; eauto). exact Hp.
        * rewrite M, Emv. intros c' x Hx. rewrite N2, Enc. apply (mvf_aset_lt (mvf r) c p 0%N (wi_mvf _ _ _ _ I) c' x Hx).
        * intros wd x HxC. destruct (alookup N.eqb wd (pfw r)) as [x'|] eqn:Ex; [|rewrite (P0 wd Ex) in HxC; discriminate].
          destruct (wi_pfw _ _ _ _ I _ _ Ex) as (kw & Hk & Ek). exists kw. split; [|exact Ek]. apply filter_In. split; [exact Hk|].
          destruct (f kw) eqn:E; [reflexivity|]. exfalso. destruct (F2 kw E) as (x1 & Hb1 & Hx1). cbn [rclr wfp] in Hx1.
          rewrite ?Ewf in Hx1. rewrite Ek in Hx1. rewrite (P2 x1 wd Hb1 (Hkeys _ _ Hx1) Hx1) in HxC. discriminate.
        * apply (forget_tree_keys _ _ _ _ _ _ Ef). cbn [rclr wfp]. rewrite ?Ewf. apply I.
      + intros e' He' De' Se'. destruct (Cv' e' He' De' Se') as (kw & C1 & C2 & C3). rewrite Epf in C2. rewrite Ewf in C3.
        assert (Hb : blw p (f_path e') = false) by (apply (blw_frename p q t1 Hne Hupq Hqp); exact He').
        destruct (watch_of_ino_some _ _ _ C1) as [Hk Ei]. rewrite Ewa in Hk.
        exists kw. split; [|split].
        * apply watch_of_ino_in; [rewrite Hwk; apply NoDup_map_filter, I | rewrite Hwk; apply filter_In; split; [exact Hk | now apply (Hkeep kw (f_path e'))] | exact Ei].
        * rewrite P1 by (eapply Hnofz; eauto). exact C2.
        * now rewrite W1.
      + reflexivity.
    - (* the stale watches *)
      intros kw Hk (x & Hb & Hx). cbn [wfp] in Hx. rewrite Ewf in Hx. rewrite Ewa in Hk.
      destruct (tight_entry C w k r x _ I Hx) as (e & kw0 & He & De & Se & Ee & Hk0 & Ew0 & Ei0).
      assert (kw0 = kw) by (apply (wd_inj k); [apply I| | |]; assumption). subst kw0.
      assert (Hnq : f_path e <> q).
      { intros E. rewrite Ee in E. subst x. unfold blw in Hb. apply orb_true_iff in Hb as [Hb|Hb]; [apply beqb_eq in Hb; congruence | congruence]. }
      exists (ren p q e). rewrite ren_ino, ren_path. split; [|split; [congruence|]].
      + cbn [w_fs]. rewrite CoverProofs.frename_map. apply in_map. now apply Hint1.
      + rewrite Ee. unfold blw in Hb. apply orb_true_iff in Hb as [Hb|Hb].
        * apply beqb_eq in Hb. subst x. rewrite rk_self. unfold blw. now rewrite beqb_refl.
        * apply under_spec in Hb as [s ->]. rewrite rk_under. unfold blw. now rewrite under_app, orb_true_r.
  Qed.

  (* ---------------------------------------------------------------- small kernel facts *)
  Lemma knotify_next_wd k ino bit isd c name : k_next_wd (knotify k ino bit isd c name) = k_next_wd k.
  Proof. destruct (knotify_cases k ino bit isd c name) as [->|(kw & _ & _ & ->)]; reflexivity. Qed.

  Lemma kgone_next_wd k ino af : k_next_wd (kgone k ino af) = k_next_wd k.
  Proof.
    unfold kgone. destruct (watch_of_ino k ino); [|reflexivity]. cbn. rewrite knotify_next_wd. destruct af; [apply knotify_next_wd | reflexivity].
  Qed.

  Lemma kernel_op_next_wd k t o : k_next_wd (kernel_op k t o) = k_next_wd k.
  Proof.
    destruct o as [p|p|p|p|p|p|p q]; cbn [kernel_op]; rewrite ?knotify_next_wd; try reflexivity.
    - destruct (fisdir p t); now rewrite ?knotify_next_wd.
    - apply kgone_next_wd.
    - destruct (fisdir q t); rewrite ?kgone_next_wd, ?knotify_next_wd; reflexivity.
  Qed.

  Definition tocookie (c0 : N) (e : kraw) : Prop := is_moved_to (k_mask e) = true -> k_cookie e = c0.

  Lemma kgone_inv_P (P : kraw -> Prop) k ino af : Forall P (k_queue k) ->
    (forall kw bit isd, (bit = IN_ATTRIB /\ isd = true) \/ (bit = IN_DELETE_SELF /\ isd = false) -> P (kev kw bit isd 0 [])) ->
    (forall kw, P (ign_ev kw)) -> Forall P (k_queue (kgone k ino af)).
  Proof.
    intros Hq H1 H2. unfold kgone. destruct (watch_of_ino k ino) as [w0|]; [|exact Hq]. cbn [k_queue].
    set (a1 := if af then knotify k ino IN_ATTRIB true 0 [] else k).
    assert (Q1 : Forall P (k_queue a1)).
    { unfold a1. destruct af; [|exact Hq]. apply (knotify_inv P); [exact Hq|]. intros kw _. apply H1. now left. }
    assert (Q2 : Forall P (k_queue (knotify a1 ino IN_DELETE_SELF false 0 []))).
    { apply (knotify_inv P); [exact Q1|]. intros kw _. apply H1. now right. }
    destruct (CoverProofs.kpush_cases (k_queue (knotify a1 ino IN_DELETE_SELF false 0 [])) (ign_ev w0)) as [E|E]; unfold ign_ev in E; rewrite E; [exact Q2|].
    apply Forall_app. split; [exact Q2|]. constructor; [apply H2 | constructor].
  Qed.

  (* an IN_MOVED_TO record of the operation carries the cookie the kernel just handed out *)
  Lemma kernel_op_tocookie k t o : k_queue k = [] -> Forall (tocookie (k_next_cookie k)) (k_queue (kernel_op k t o)).
  Proof.
    intros Hq. set (c0 := k_next_cookie k).
    assert (H0 : Forall (tocookie c0) (k_queue k)) by (rewrite Hq; constructor).
    assert (G : forall (k0 : kst) ino bit (isd : bool) c name, Forall (tocookie c0) (k_queue k0) ->
              (is_moved_to (if isd then N.lor bit IN_ISDIR else bit) = false \/ c = c0) ->
              Forall (tocookie c0) (k_queue (knotify k0 ino bit isd c name))).
    { intros k0 ino bit isd c name Hk Hb. apply (knotify_inv (tocookie c0)); [exact Hk|]. intros kw _ Hm. cbn in *.
      destruct Hb as [Hb|Hb]; [congruence | exact Hb]. }
    assert (GG : forall (k0 : kst) ino af, Forall (tocookie c0) (k_queue k0) -> Forall (tocookie c0) (k_queue (kgone k0 ino af))).
    { intros k0 ino af Hk. apply kgone_inv_P; [exact Hk| |].
      - intros kw bit isd [[-> ->]|[-> ->]] Hm; cbn in Hm; discriminate.
      - intros kw Hm. cbn in Hm. discriminate. }
    destruct o as [p|p|p|p|p|p|p q]; cbn [kernel_op].
    - repeat apply G; try assumption; left; reflexivity.
    - repeat apply G; try assumption; left; reflexivity.
    - destruct (fisdir p t); repeat apply G; try assumption; left; reflexivity.
    - apply G; [assumption | left; reflexivity].
    - apply G; [assumption | left; reflexivity].
    - apply G; [now apply GG | left; reflexivity].
    - assert (H2 : Forall (tocookie c0) (k_queue (knotify (knotify {| k_watches := k_watches k; k_next_wd := k_next_wd k; k_queue := k_queue k;
                     k_next_cookie := k_next_cookie k + 1 |} (ino_of t (dirname p)) IN_MOVED_FROM (fisdir p t) (k_next_cookie k) (basename p))
                   (ino_of t (dirname q)) IN_MOVED_TO (fisdir p t) (k_next_cookie k) (basename q)))).
      { apply G; [apply G; [exact H0 | left; now destruct (fisdir p t)] | now right]. }
      destruct (fisdir q t); [now apply GG | exact H2].
  Qed.

  Definition notified (o : op) : list bytes :=
    match o with
    | Touch p | Write p | Unlink p | Mkdir p => [dirname p]
    | Chmod p | Rmdir p => [dirname p; p]
    | Rename p q => [dirname p; dirname q; q]
    end.

  Lemma hits_notified t o : hits t o = map (ino_of t) (notified o).
  Proof. destruct o; reflexivity. Qed.

  (* ---------------------------------------------------------------- the step out of the pending state *)
  (* The first record of the next operation forgets the departed sub-tree (settle_pending / forget_tree), the kernel
     queues IN_IGNORED records for the forgotten descriptors, and the rest of the batch is processed as from a
     synchronised state.  Hypotheses: the operation does not notify a directory inside the departed directory at its
     new place h, and it produces at least one record. *)
  Theorem pout_step w k r h c p o w' : mask_ok C -> POut w k r h c p -> covered_op C w o ->
    (forall d, In d (notified o) -> blw h d = false) -> apply_op w o = Some w' ->
    let k1 := kernel_op k (w_fs w) o in k_queue k1 <> [] ->
    exists r' k' evs, read_batch C (w_fs w') (r, drainq k1, []) (k_queue k1) = Done (r', k', evs) /\
      JSync w' k' r' /\ Forall (rsafe C) evs /\
      (* the same events as from the synchronised state in which the sub-tree is already forgotten *)
      exists kc rc k2, RSync C w kc rc /\
        read_batch C (w_fs w') (rc, drainq (kernel_op kc (w_fs w) o), []) (k_queue (kernel_op kc (w_fs w) o)) = Done (r', k2, evs).
  Proof.
    intros M PO Ho Hnh Ha k1 Qne. destruct PO as [Ppend Pck Pq Ptight Plt Pwds Plive Pmask Pclean Pcov Pstale].
    destruct (forget_tree_fold p (wfp r) (rclr r)) as (wds & rC & Hfold & Hwds).
    rewrite Hfold in Pclean. cbn [fst snd] in Pclean.
    set (kC0 := kset_queue (fold_left krm_watch wds k) []) in *.
    assert (W := rs_wf _ _ _ _ Pclean).
    destruct (fold_krm wds k) as (FA & FB & FD & _).
    assert (KR : krel (keepf wds) k kC0) by (repeat split; cbn; try assumption; now rewrite Pq).
    (* the operation does not notify a departed directory *)
    assert (Hfz : forall wd, In wd wds -> fz r p wd).
    { intros wd Hw. destruct (Hwds wd Hw) as (x & A & _ & D). exists x. now split. }
    assert (NH : forall i, In i (hits (w_fs w) o) -> nohit_ino (keepf wds) k i).
    { intros i Hi kw Hk Ei. destruct (keepf wds kw) eqn:Ek; [reflexivity|]. exfalso.
      unfold keepf in Ek. apply negb_false_iff, memN_in in Ek.
      destruct (Pstale kw Hk (Hfz _ Ek)) as (e & He & Ie & Hb).
      rewrite hits_notified in Hi. apply in_map_iff in Hi as (d & Ed & Hd). specialize (Hnh d Hd).
      unfold ino_of in Ed. destruct (flookup d (w_fs w)) as [e'|] eqn:El.
      - destruct (flookup_some _ _ _ El) as [He' Ee']. assert (e' = e) by (apply (ino_inj w); try assumption; congruence). subst e'.
        congruence.
      - assert (H0 := wf_fresh w W e He). lia. }
    assert (KR1 := kernel_op_krel (keepf wds) k kC0 (w_fs w) o KR NH). fold k1 in KR1.
    set (kCc := kernel_op kC0 (w_fs w) o) in *.
    destruct (cover_step_safe C Hfaults w kC0 rC o w' M Pclean Ho Ha) as (r2 & k2 & evs & Hrd & S2 & Hsafe). fold kCc in Hrd.
    assert (Hrd0 := Hrd). destruct KR1 as (KA & KB & KD & KE). rewrite KE in Hrd.
    exists r2. destruct (k_queue k1) as [|e1 rest] eqn:EQ; [contradiction|].
    (* the first record settles the candidate: the sub-tree is forgotten *)
    assert (He1 : is_moved_to (k_mask e1) && N.eqb (k_cookie e1) c && amem N.eqb (k_wd e1) (pfw r) = false).
    { assert (HT := kernel_op_tocookie k (w_fs w) o Pq). fold k1 in HT. rewrite EQ in HT. inversion HT as [|? ? Ht _]; subst.
      destruct (is_moved_to (k_mask e1)) eqn:Em; [|reflexivity]. rewrite (Ht Em). cbn [andb].
      assert (Hc : N.eqb (k_next_cookie k) c = false) by (apply N.eqb_neq; lia). now rewrite Hc. }
    cbn [read_batch]. unfold read_one at 1. rewrite (settle_pending_forget C r (drainq k1) e1 c p Hmo Ppend He1).
    change {| wfp := wfp r; pfw := pfw r; mvf := mvf r; calls := calls r; pend := None |} with (rclr r). rewrite Hfold.
    set (kF := fold_left krm_watch wds (drainq k1)).
    destruct (fold_krm wds (drainq k1)) as (GA & GB & GD & ig & GE & GF). fold kF in GA, GB, GD, GE.
    cbn [drainq kset_queue k_watches k_next_wd k_next_cookie k_queue app] in GA, GB, GD, GE.
    (* the two kernels the reader holds differ by junk only *)
    assert (Hnw : k_next_wd k1 = k_next_wd k) by apply kernel_op_next_wd.
    assert (QJ : qextj ig kF (drainq kCc)).
    { split; [repeat split; cbn; try congruence; now rewrite GE, app_nil_r|].
      intros a Ha'. rewrite Forall_forall in GF. specialize (GF a Ha'). split.
      - cbn. rewrite KB, Hnw. destruct (Hfz _ GF) as (x & _ & Hx). destruct (Plive x _ Hx) as (kw & Hk & Ek). rewrite <- Ek. now apply Plt.
      - intros kw Hk Eq. cbn in Hk. rewrite KA in Hk. apply filter_In in Hk as [_ Hk]. unfold keepf in Hk.
        apply negb_true_iff in Hk. rewrite Eq in Hk. apply memN_in in GF. congruence. }
    (* the clean run *)
    cbn [read_batch] in Hrd. rewrite read_one_body_eq in Hrd by apply (rs_pend _ _ _ _ Pclean).
    assert (B1 := read_one_body_keq (qextj ig) (qextj_add ig) (w_fs w') rC kF (drainq kCc) [] e1 QJ).
    destruct (read_one_body C (w_fs w') (rC, drainq kCc, []) e1) as [[[ra ka] xa]|] eqn:Eb; [|discriminate].
    destruct (read_one_body C (w_fs w') (rC, kF, []) e1) as [[[ra' ka'] xa']|] eqn:Eb'; [|contradiction].
    cbn in B1. destruct B1 as (-> & -> & QJ1).
    assert (B2 := read_batch_keq (qextj ig) (qextj_add ig) (qextj_rm ig) (w_fs w') rest ra ka' ka xa QJ1). rewrite Hrd in B2.
    destruct (read_batch C (w_fs w') (ra, ka', xa) rest) as [[[rb kb] xb]|] eqn:Er; [|contradiction].
    cbn in B2. destruct B2 as (-> & -> & QJ2).
    exists kb, evs. split; [reflexivity|]. split; [|split; [exact Hsafe | exists kC0, rC, k2; split; [exact Pclean | exact Hrd0]]].
    (* dead descriptors *)
    assert (D0 : dinv (fun wd => In wd wds) kF rC).
    { intros wd Hw. destruct (Hwds wd Hw) as (x & Hb & Hkx & Hx).
      destruct (forget_tree_spec p (wfp r) (rclr r) k rC (fold_left krm_watch wds k) Ptight (Hfold k))
        as (_ & W0 & _ & W2 & _ & _ & P2 & _).
      split; [|split; [|split]].
      - rewrite GB. cbn. rewrite Hnw. destruct (Plive x _ Hx) as (kw & Hk & Ek). rewrite <- Ek. now apply Plt.
      - intros kw Hk Eq. rewrite GA in Hk. apply filter_In in Hk as [_ Hk]. unfold keepf in Hk. apply negb_true_iff in Hk.
        rewrite Eq in Hk. apply memN_in in Hw. congruence.
      - exact (P2 x wd Hb Hkx Hx).
      - intros x' Hx'. assert (Hx'' := W0 _ _ Hx'). cbn [rclr wfp] in Hx''.
        assert (x' = x) by (apply Ptight in Hx''; apply Ptight in Hx; congruence). subst x'.
        rewrite (W2 x Hb Hkx) in Hx'. discriminate. }
    assert (D1 := read_one_body_dinv _ _ _ _ _ _ _ _ _ D0 Eb').
    assert (D2 := read_batch_dinv _ _ _ _ _ _ _ _ _ D1 Er).
    destruct QJ2 as [(QA & QB & QD & QE) _]. rewrite (rs_queue _ _ _ _ S2), app_nil_r in QE.
    split.
    - assert (Ek : kset_queue kb [] = k2).
      { assert (Hq2 := rs_queue _ _ _ _ S2). clear -QA QB QD Hq2. destruct k2 as [a1 a2 a3 a4], kb as [b1 b2 b3 b4]. cbn in *. subst. reflexivity. }
      now rewrite Ek.
    - rewrite QE. apply Forall_forall. intros a Ha'. rewrite Forall_forall in GF. specialize (GF a Ha').
      destruct (D2 _ GF) as (A & B & P1 & _). split; [exact P1 | split; [exact B | exact A]].
  Qed.

  (* ---------------------------------------------------------------- an operation in a watched directory produces a record *)
  Lemma knotify_queue_mono k ino bit isd c name : k_queue k <> [] -> k_queue (knotify k ino bit isd c name) <> [].
  Proof.
    intros H. destruct (knotify_cases k ino bit isd c name) as [->|(kw & _ & _ & ->)]; [exact H|]. cbn.
    destruct (CoverProofs.kpush_cases (k_queue k) (kev kw bit isd c name)) as [E|E]; rewrite E; [exact H|]. now destruct (k_queue k).
  Qed.

  Lemma knotify_queue_hit k ino bit isd c name kw : watch_of_ino k ino = Some kw -> N.land bit (kw_mask kw) <> 0%N ->
    k_queue (knotify k ino bit isd c name) <> [].
  Proof.
    intros Hw Hm. rewrite (knotify_watched k ino bit isd c name kw Hw Hm). cbn.
    destruct (CoverProofs.kpush_cases (k_queue k) (kev kw bit isd c name)) as [E|E]; rewrite E; [|now destruct (k_queue k)].
    unfold kpush in E. destruct (rev (k_queue k)) eqn:Er; [|intros H0; rewrite H0 in Er; discriminate].
    destruct (k_queue k); [discriminate | discriminate].
  Qed.

  Lemma kgone_queue_mono k ino af : k_queue k <> [] -> k_queue (kgone k ino af) <> [].
  Proof.
    intros H. unfold kgone. destruct (watch_of_ino k ino) as [w0|]; [|exact H]. cbn [k_queue].
    set (q1 := k_queue _). destruct (CoverProofs.kpush_cases q1 {| k_wd := kw_wd w0; k_mask := IN_IGNORED; k_cookie := 0; k_name := [] |}) as [E|E]; rewrite E.
    - unfold q1. apply knotify_queue_mono. destruct af; [now apply knotify_queue_mono | exact H].
    - now destruct q1.
  Qed.

  Definition parents (o : op) : list bytes :=
    match o with
    | Touch p | Write p | Chmod p | Unlink p | Mkdir p | Rmdir p => [dirname p]
    | Rename p q => [dirname p; dirname q]
    end.

  (* the operation acts in a directory of the tree *)
  Definition watched_parent (w : world) (o : op) : Prop :=
    exists d, In d (parents o) /\ scope C d /\ fisdir d (w_fs w) = true.

  Lemma record_produced w k r o : c_mask C = WATCHDOG_ALL -> wf_fs w -> Cover C (w_fs w) k r ->
    (forall kw, In kw (k_watches k) -> kw_mask kw = c_mask C) -> watched_parent w o ->
    k_queue (kernel_op k (w_fs w) o) <> [].
  Proof.
    intros Hm W Cv Hmask (d & Hd & Sd & Fd).
    destruct (fisdir_in _ _ Fd) as (de & Hde & Ede & Dde). rewrite <- Ede in Sd.
    destruct (Cv de Hde Dde Sd) as (kw & Cw & _). destruct (watch_of_ino_some _ _ _ Cw) as [Hk _].
    assert (Mk : kw_mask kw = WATCHDOG_ALL) by (rewrite (Hmask kw Hk); exact Hm).
    assert (Eino : ino_of (w_fs w) d = f_ino de).
    { unfold ino_of. rewrite <- Ede. now rewrite (flookup_in _ de (wf_paths w W) Hde). }
    assert (Hit : forall k0 bit isd c name, k_watches k0 = k_watches k -> N.land bit WATCHDOG_ALL <> 0%N ->
              k_queue (knotify k0 (ino_of (w_fs w) d) bit isd c name) <> []).
    { intros k0 bit isd c name Hw Hb. apply (knotify_queue_hit k0 _ bit isd c name kw); [|now rewrite Mk].
      rewrite (watch_of_ino_ext k k0) by exact Hw. now rewrite Eino. }
    destruct o as [p|p|p|p|p|p|p q]; cbn [parents] in Hd; cbn [kernel_op].
    - destruct Hd as [<-|[]]. do 2 apply knotify_queue_mono. apply Hit; [reflexivity | vm_compute; discriminate].
    - destruct Hd as [<-|[]]. do 2 apply knotify_queue_mono. apply Hit; [reflexivity | vm_compute; discriminate].
    - destruct Hd as [<-|[]]. destruct (fisdir p (w_fs w)); [apply knotify_queue_mono|]; (apply Hit; [reflexivity | vm_compute; discriminate]).
    - destruct Hd as [<-|[]]. apply Hit; [reflexivity | vm_compute; discriminate].
    - destruct Hd as [<-|[]]. apply Hit; [reflexivity | vm_compute; discriminate].
    - destruct Hd as [<-|[]].
      destruct (watch_of_ino k (ino_of (w_fs w) p)) as [wp|] eqn:Ewp.
      + apply knotify_queue_mono. unfold kgone. rewrite Ewp. cbn [k_queue].
        set (q1 := k_queue _). destruct (CoverProofs.kpush_cases q1 {| k_wd := kw_wd wp; k_mask := IN_IGNORED; k_cookie := 0; k_name := [] |}) as [E|E]; rewrite E.
        * unfold kpush in E. destruct (rev q1) eqn:Er; [|intros H0; rewrite H0 in Er; discriminate]. destruct q1; discriminate.
        * now destruct q1.
      + unfold kgone. rewrite Ewp. apply Hit; [reflexivity | vm_compute; discriminate].
    - set (k0 := {| k_watches := k_watches k; k_next_wd := k_next_wd k; k_queue := k_queue k; k_next_cookie := k_next_cookie k + 1 |}).
      assert (H2 : k_queue (knotify (knotify k0 (ino_of (w_fs w) (dirname p)) IN_MOVED_FROM (fisdir p (w_fs w)) (k_next_cookie k) (basename p))
                      (ino_of (w_fs w) (dirname q)) IN_MOVED_TO (fisdir p (w_fs w)) (k_next_cookie k) (basename q)) <> []).
      { destruct Hd as [<-|[<-|[]]].
        - apply knotify_queue_mono. apply Hit; [reflexivity | vm_compute; discriminate].
        - apply Hit; [|vm_compute; discriminate].
          destruct (knotify_cases k0 (ino_of (w_fs w) (dirname p)) IN_MOVED_FROM (fisdir p (w_fs w)) (k_next_cookie k) (basename p)) as [->|(kw' & _ & _ & ->)]; reflexivity. }
      destruct (fisdir q (w_fs w)); [now apply kgone_queue_mono | exact H2].
  Qed.

  (* ---------------------------------------------------------------- sequential histories past directory move-outs *)
  Theorem out_pout_junk w k r p q w' ep : JSync w k r -> npath p -> npath q -> c_recursive C = true ->
    N.land IN_MOVED_FROM (c_mask C) <> 0%N -> N.land IN_MOVED_TO (c_mask C) <> 0%N ->
    apply_op w (Rename p q) = Some w' -> flookup p (w_fs w) = Some ep -> f_dir ep = true ->
    scope C p -> p <> root -> ~ scope C q ->
    let k1 := kernel_op k (w_fs w) (Rename p q) in
    exists r' k' evs, read_batch C (w_fs w') (r, drainq k1, []) (k_queue k1) = Done (r', k', evs) /\
      POut w' k' r' q (k_next_cookie k) p /\ Forall (rsafe C) evs.
  Proof.
    intros [S HJ] Np Nq Hrec Hmf Hmt Ha Elp Dep Sp Hpr Sq k1.
    assert (Q : qext (k_queue k) k (kset_queue k [])) by (repeat split; cbn; now rewrite ?app_nil_r).
    assert (JF : jfree (k_queue k) (kset_queue k [])).
    { intros a kw Ha' Hk. rewrite Forall_forall in HJ. destruct (HJ a Ha') as [_ [H _]]. now apply H. }
    assert (Q1 := kernel_op_qext _ _ _ (w_fs w) (Rename p q) Q JF). fold k1 in Q1.
    destruct (out_pout w (kset_queue k []) r p q w' ep S Np Nq Hrec Hmf Hmt Ha Elp Dep Sp Hpr Sq) as (r' & k' & evs & Hrd & PO & Hsafe).
    exists r', k', evs. split; [|split; assumption].
    rewrite (qext_drainq _ _ _ Q1). destruct Q1 as (_ & _ & _ & ->).
    rewrite read_batch_skip; [exact Hrd | apply (rs_pend _ _ _ _ S)|].
    eapply Forall_impl; [|exact HJ]. intros a [H _]. exact H.
  Qed.

  (* ---------------------------------------------------------------- pending up to junk; the general step out of it *)
  (* the move-out candidate is pending and the kernel queue holds IN_IGNORED records of descriptors forgotten earlier
     (the state after a SECOND directory move-out in a row) *)
  Record PJ (w : world) (k : kst) (r : rstate) (h : bytes) (c : N) (p : bytes) : Prop := {
    pj_out : POut w (kset_queue k []) r h c p;
    pj_junk : Forall (junk_ev k r) (k_queue k)
  }.

  Lemma POut_PJ w k r h c p : POut w k r h c p -> PJ w k r h c p.
  Proof.
    intros PO. assert (Hq := po_queue _ _ _ _ _ _ PO). split; [|rewrite Hq; constructor].
    destruct k as [a1 a2 a3 a4]. cbn in Hq. subst a3. exact PO.
  Qed.

  (* The first record of the next batch - a junk record, or the first record of the next operation - forgets the departed
     sub-tree; the rest of the batch is processed exactly as from the synchronised state (kC0, rC) in which the sub-tree
     is already forgotten, whatever that clean run is.  The operation must not notify a directory inside the departed
     directory at its new place h. *)
  Theorem pj_transfer w k r h c p o t' r2 k2 evs : PJ w k r h c p ->
    (forall d, In d (notified o) -> blw h d = false) ->
    let k1 := kernel_op k (w_fs w) o in k_queue k1 <> [] ->
    let rC := fst (forget_tree (wfp r) p (rclr r) (kset_queue k [])) in
    let kC0 := kset_queue (snd (forget_tree (wfp r) p (rclr r) (kset_queue k []))) [] in
    read_batch C t' (rC, drainq (kernel_op kC0 (w_fs w) o), []) (k_queue (kernel_op kC0 (w_fs w) o)) = Done (r2, k2, evs) ->
    k_queue k2 = [] ->
    exists kb, read_batch C t' (r, drainq k1, []) (k_queue k1) = Done (r2, kb, evs) /\ kset_queue kb [] = k2 /\
               Forall (junk_ev kb r2) (k_queue kb).
  Proof.
    intros [PO HJ] Hnh k1 Qne rC kC0 Hrd Hq2.
    set (k0 := kset_queue k []) in *.
    destruct PO as [Ppend Pck Pq Ptight Plt Pwds Plive Pmask Pclean Pcov Pstale].
    destruct (forget_tree_fold p (wfp r) (rclr r)) as (wds & rC' & Hfold & Hwds).
    assert (ErC : rC = rC') by (unfold rC; now rewrite Hfold). assert (EkC : kC0 = kset_queue (fold_left krm_watch wds k0) []) by (unfold kC0; now rewrite Hfold).
    clearbody rC kC0. subst rC kC0. rename rC' into rC. set (kC0 := kset_queue (fold_left krm_watch wds k0) []) in *.
    rewrite Hfold in Pclean. cbn [fst snd] in Pclean. fold kC0 in Pclean.
    assert (W := rs_wf _ _ _ _ Pclean).
    destruct (fold_krm wds k0) as (FA & FB & FD & _).
    assert (KR : krel (keepf wds) k0 kC0) by (repeat split; cbn; try assumption).
    assert (Hfz : forall wd, In wd wds -> fz r p wd).
    { intros wd Hw. destruct (Hwds wd Hw) as (x & A & _ & D). exists x. now split. }
    assert (NH : forall i, In i (hits (w_fs w) o) -> nohit_ino (keepf wds) k0 i).
    { intros i Hi kw Hk Ei. destruct (keepf wds kw) eqn:Ek; [reflexivity|]. exfalso.
      unfold keepf in Ek. apply negb_false_iff, memN_in in Ek.
      destruct (Pstale kw Hk (Hfz _ Ek)) as (e & He & Ie & Hb).
      rewrite hits_notified in Hi. apply in_map_iff in Hi as (d & Ed & Hd). specialize (Hnh d Hd).
      unfold ino_of in Ed. destruct (flookup d (w_fs w)) as [e'|] eqn:El.
      - destruct (flookup_some _ _ _ El) as [He' Ee']. assert (e' = e) by (apply (ino_inj w); try assumption; congruence). subst e'.
        congruence.
      - assert (H0 := wf_fresh w W e He). lia. }
    assert (KR1 := kernel_op_krel (keepf wds) k0 kC0 (w_fs w) o KR NH).
    set (k10 := kernel_op k0 (w_fs w) o) in *. set (kCc := kernel_op kC0 (w_fs w) o) in *.
    destruct KR1 as (KA & KB & KD & KE).
    (* the junk in front of the kernel queue *)
    assert (Q : qext (k_queue k) k k0) by (repeat split; cbn; now rewrite ?app_nil_r).
    assert (JF : jfree (k_queue k) k0).
    { intros a kw Ha' Hk. rewrite Forall_forall in HJ. destruct (HJ a Ha') as [_ [H _]]. now apply H. }
    assert (Q1 := kernel_op_qext _ _ _ (w_fs w) o Q JF). fold k1 k10 in Q1.
    assert (Edr : drainq k1 = drainq k10) by exact (qext_drainq _ _ _ Q1).
    destruct Q1 as (QA1 & QB1 & QD1 & QE1).
    set (kF := fold_left krm_watch wds (drainq k10)).
    destruct (fold_krm wds (drainq k10)) as (GA & GB & GD & ig & GE & GF). fold kF in GA, GB, GD, GE.
    cbn [drainq kset_queue k_watches k_next_wd k_next_cookie k_queue app] in GA, GB, GD, GE.
    assert (Hnw : k_next_wd k10 = k_next_wd k0) by apply kernel_op_next_wd.
    assert (QJ : qextj ig kF (drainq kCc)).
    { split; [repeat split; cbn; try congruence; now rewrite GE, app_nil_r|].
      intros a Ha'. rewrite Forall_forall in GF. specialize (GF a Ha'). split.
      - cbn. rewrite KB, Hnw. destruct (Hfz _ GF) as (x & _ & Hx). destruct (Plive x _ Hx) as (kw & Hk & Ek). rewrite <- Ek. now apply Plt.
      - intros kw Hk Eq. cbn in Hk. rewrite KA in Hk. apply filter_In in Hk as [_ Hk]. unfold keepf in Hk.
        apply negb_true_iff in Hk. rewrite Eq in Hk. apply memN_in in GF. congruence. }
    destruct (forget_tree_spec p (wfp r) (rclr r) k0 rC (fold_left krm_watch wds k0) Ptight (Hfold k0))
      as (_ & W0 & _ & W2 & _ & P0 & P2 & _ & PdC & _).
    cbn [rclr pend pfw] in PdC, P0.
    (* after the first record the reader is at (rC, kF) and has the records of the operation before it *)
    assert (Hreal : read_batch C t' (r, drainq k1, []) (k_queue k1) = read_batch C t' (rC, kF, []) (k_queue kCc)).
    { rewrite Edr, QE1. rewrite KE. destruct (k_queue k) as [|a J'] eqn:EJ.
      - cbn [app]. destruct (k_queue k10) as [|e1 rest] eqn:EQ; [exfalso; apply Qne; now rewrite QE1|].
        assert (He1 : is_moved_to (k_mask e1) && N.eqb (k_cookie e1) c && amem N.eqb (k_wd e1) (pfw r) = false).
        { assert (HT := kernel_op_tocookie k0 (w_fs w) o Pq). fold k10 in HT. rewrite EQ in HT. inversion HT as [|? ? Ht _]; subst.
          destruct (is_moved_to (k_mask e1)) eqn:Em; [|reflexivity]. rewrite (Ht Em). cbn [andb].
          assert (Hc : N.eqb (k_next_cookie k0) c = false) by (apply N.eqb_neq; lia). now rewrite Hc. }
        cbn [read_batch]. unfold read_one at 1. rewrite (settle_pending_forget C r (drainq k10) e1 c p Hmo Ppend He1).
        change {| wfp := wfp r; pfw := pfw r; mvf := mvf r; calls := calls r; pend := None |} with (rclr r). rewrite Hfold. fold kF.
        now rewrite (read_one_body_eq C (w_fs w) rC kF [] e1 PdC) || (rewrite read_one_body_eq by exact PdC; reflexivity).
      - cbn [app read_batch]. inversion HJ as [|? ? Ha HJ']; subst.
        assert (He1 : is_moved_to (k_mask a) && N.eqb (k_cookie a) c && amem N.eqb (k_wd a) (pfw r) = false).
        { unfold amem. rewrite (proj1 Ha). now rewrite andb_false_r. }
        unfold read_one at 1. rewrite (settle_pending_forget C r (drainq k10) a c p Hmo Ppend He1).
        change {| wfp := wfp r; pfw := pfw r; mvf := mvf r; calls := calls r; pend := None |} with (rclr r). rewrite Hfold. fold kF.
        rewrite <- (read_one_body_eq C t' rC kF [] a PdC).
        rewrite (read_skip t' rC kF [] a PdC (P0 _ (proj1 Ha))).
        apply read_batch_skip; [exact PdC|]. eapply Forall_impl; [|exact HJ']. intros b [Hb _]. now apply P0. }
    rewrite Hreal.
    assert (B2 := read_batch_keq (qextj ig) (qextj_add ig) (qextj_rm ig) t' (k_queue kCc) rC kF (drainq kCc) [] QJ). rewrite Hrd in B2.
    destruct (read_batch C t' (rC, kF, []) (k_queue kCc)) as [[[rb kb] xb]|] eqn:Er; [|contradiction].
    cbn in B2. destruct B2 as (-> & -> & QJ2).
    exists kb. split; [reflexivity|].
    assert (D0 : dinv (fun wd => In wd wds) kF rC).
    { intros wd Hw. destruct (Hwds wd Hw) as (x & Hb & Hkx & Hx).
      split; [|split; [|split]].
      - rewrite GB. cbn. rewrite Hnw. destruct (Plive x _ Hx) as (kw & Hk & Ek). rewrite <- Ek. now apply Plt.
      - intros kw Hk Eq. rewrite GA in Hk. apply filter_In in Hk as [_ Hk]. unfold keepf in Hk. apply negb_true_iff in Hk.
        rewrite Eq in Hk. apply memN_in in Hw. congruence.
      - exact (P2 x wd Hb Hkx Hx).
      - intros x' Hx'. assert (Hx'' := W0 _ _ Hx'). cbn [rclr wfp] in Hx''.
        assert (x' = x) by (apply Ptight in Hx''; apply Ptight in Hx; congruence). subst x'.
        rewrite (W2 x Hb Hkx) in Hx'. discriminate. }
    assert (D2 := read_batch_dinv _ _ _ _ _ _ _ _ _ D0 Er).
    destruct QJ2 as [(QA & QB & QD & QE) _]. rewrite Hq2, app_nil_r in QE.
    split.
    - clear -QA QB QD Hq2. destruct k2 as [a1 a2 a3 a4], kb as [b1 b2 b3 b4]. cbn in *. subst. reflexivity.
    - rewrite QE. apply Forall_forall. intros a Ha'. rewrite Forall_forall in GF. specialize (GF a Ha').
      destruct (D2 _ GF) as (A & B & P1 & _). split; [exact P1 | split; [exact B | exact A]].
  Qed.

  (* the operations covered now: C02's covered_op plus a directory moved out of the tree *)
  Inductive covered_x (w : world) : op -> Prop :=
  | cx_op o : covered_op C w o -> covered_x w o
  | cx_out p q ep : npath p -> npath q -> c_recursive C = true -> flookup p (w_fs w) = Some ep -> f_dir ep = true ->
      scope C p -> p <> root -> ~ scope C q -> covered_x w (Rename p q).

  Definition is_dir_out (w : world) (o : op) : option bytes :=
    match o with
    | Rename p q => if c_recursive C && fisdir p (w_fs w) && scopeb C p && negb (beqb p root) && negb (scopeb C q) then Some q else None
    | _ => None
    end.

  (* hot = Some h: a directory has just been moved out to h and no record has been processed since.  The next
     applicable operation must be one of covered_op, act in a directory of the tree (so that it produces a record) and
     must not notify a directory inside the departed one. *)
  Definition step_ok (w : world) (hot : option bytes) (o : op) : Prop :=
    match hot with
    | None => covered_x w o
    | Some h => covered_op C w o /\ watched_parent w o /\ (forall d, In d (notified o) -> blw h d = false)
    end.
  Definition hot_next (w : world) (hot : option bytes) (o : op) : option bytes :=
    match hot with None => is_dir_out w o | Some _ => None end.

  Fixpoint ops_x (w : world) (hot : option bytes) (ops : list op) : Prop :=
    match ops with
    | [] => True
    | o :: ops' =>
      match apply_op w o with
      | None => ops_x w hot ops'
      | Some w' => step_ok w hot o /\ ops_x w' (hot_next w hot o) ops'
      end
    end.

  Definition GS (w : world) (k : kst) (r : rstate) (hot : option bytes) : Prop :=
    match hot with
    | None => JSync w k r
    | Some h => exists c p, POut w k r h c p
    end.

  Lemma scopeb_false p : scopeb C p = false <-> ~ scope C p.
  Proof. rewrite <- scopeb_spec. destruct (scopeb C p); split; congruence. Qed.

  Lemma covered_op_not_out w o : covered_op C w o -> is_dir_out w o = None.
  Proof.
    intros Ho.
    destruct Ho as [o Hqo Hn|p Hn|p Hn Hr|p q ep Np Nq El De Ed|p q ep Np Nq Hrec El De Sp Hpr Sq Elq
                    |p q ep Np Nq Hrec Hfix El De Sp Hpr Sq Elq|p q ep v Np Nq Hrec El De Sp Hpr Sq Hqr Elq Dv
                    |p q ep Np Nq El De Hpr Hqr Hupr Hpl|p q ep v Np Nq Hrec Hfix El De Sp Hpr Sq Hqr Elq Dv]; cbn [is_dir_out]; try reflexivity.
    - destruct o; try contradiction; reflexivity.
    - unfold fisdir. rewrite El, De. now destruct (c_recursive C).
    - rewrite (proj2 (scopeb_spec C q) Sq). cbn [negb]. now rewrite andb_false_r.
    - assert (E : scopeb C p = false) by now apply scopeb_false. rewrite E. now rewrite andb_false_r.
    - rewrite (proj2 (scopeb_spec C q) Sq). cbn [negb]. now rewrite andb_false_r.
    - destruct Hpl as [Hr|[Hs _]]; [now rewrite Hr|].
      assert (E : scopeb C p = false) by now apply scopeb_false. rewrite E. now rewrite andb_false_r.
    - assert (E : scopeb C p = false) by now apply scopeb_false. rewrite E. now rewrite andb_false_r.
  Qed.

  (* one operation and one read of the whole queue, from a synchronised-up-to-junk or a pending state *)
  Theorem gs_step w k r hot o w' : c_mask C = WATCHDOG_ALL -> GS w k r hot -> step_ok w hot o -> apply_op w o = Some w' ->
    let k1 := kernel_op k (w_fs w) o in
    exists r' k' evs, read_batch C (w_fs w') (r, drainq k1, []) (k_queue k1) = Done (r', k', evs) /\
      GS w' k' r' (hot_next w hot o) /\ Forall (rsafe C) evs.
  Proof.
    intros Hm G Hs Ea k1.
    assert (M : mask_ok C) by (unfold mask_ok; rewrite Hm; repeat split; vm_compute; discriminate).
    destruct hot as [h|]; cbn [GS step_ok hot_next] in *.
    - destruct G as (c & p & PO). destruct Hs as (Ho & Hwp & Hnh).
      assert (Qne := record_produced w k r o Hm (rs_wf _ _ _ _ (po_clean _ _ _ _ _ _ PO)) (po_cover _ _ _ _ _ _ PO) (po_mask _ _ _ _ _ _ PO) Hwp).
      destruct (pout_step w k r h c p o w' M PO Ho Hnh Ea Qne) as (r' & k' & evs & Hrd & J' & Hsafe & _).
      exists r', k', evs. split; [exact Hrd|]. split; [exact J' | exact Hsafe].
    - destruct Hs as [o Ho|p q ep Np Nq Hrec El De Sp Hpr Sq].
      + destruct (cover_step_junk w k r o w' M G Ho Ea) as (r' & k' & evs & Hrd & S' & Hsafe).
        rewrite (covered_op_not_out w o Ho). exists r', k', evs. split; [exact Hrd|]. split; [now apply RSync_JSync | exact Hsafe].
      + destruct M as (M1 & M2 & M3).
        destruct (out_pout_junk w k r p q w' ep G Np Nq Hrec M2 M3 Ea El De Sp Hpr Sq) as (r' & k' & evs & Hrd & PO & Hsafe).
        assert (Eo : is_dir_out w (Rename p q) = Some q).
        { cbn [is_dir_out]. unfold fisdir. rewrite El, De, Hrec. rewrite (proj2 (scopeb_spec C p) Sp).
          assert (E1 : beqb p root = false) by now apply beqb_neq. assert (E2 : scopeb C q = false) by now apply scopeb_false.
          now rewrite E1, E2. }
        rewrite Eo. exists r', k', evs. split; [exact Hrd|]. split; [now exists (k_next_cookie k), p | exact Hsafe].
  Qed.

  Theorem cover_sequential_x : c_mask C = WATCHDOG_ALL -> forall ops w k r hot, GS w k r hot -> ops_x w hot ops ->
    exists w' k' r' hot', rrun C w k r ops = Some (w', k', r') /\ GS w' k' r' hot'.
  Proof.
    intros Hm. induction ops as [|o ops IH]; intros w k r hot G Hc; cbn [rrun ops_x] in *.
    - exists w, k, r, hot. now split.
    - destruct (apply_op w o) as [w'|] eqn:Ea; [|now apply (IH w k r hot)].
      destruct Hc as [Hs Hc]. destruct (gs_step w k r hot o w' Hm G Hs Ea) as (r' & k' & evs & -> & G' & _).
      now apply (IH w' k' r' _ G').
  Qed.

  Lemma GS_cover w k r hot : GS w k r hot -> wf_fs w /\ Cover C (w_fs w) k r.
  Proof.
    destruct hot as [h|]; cbn [GS].
    - intros (c & p & PO). split; [apply (rs_wf _ _ _ _ (po_clean _ _ _ _ _ _ PO)) | apply (po_cover _ _ _ _ _ _ PO)].
    - intros [S _]. split; [apply S|]. apply (Cover_ext C (w_fs w) (w_fs w) (kset_queue k [])); [apply S | auto | reflexivity].
  Qed.

  Theorem cover_from_start_x ops w : c_mask C = WATCHDOG_ALL -> wf_fs w -> fisdir root (w_fs w) = true -> ops_x w None ops ->
    exists r0 k0 w' k' r', construct C kinit (w_fs w) = Some (r0, k0) /\ rrun C w k0 r0 ops = Some (w', k', r') /\
      wf_fs w' /\ Cover C (w_fs w') k' r'.
  Proof.
    intros Hm W Hroot Hc. destruct (construct_cover C Hfaults w W Hroot) as (r0 & k0 & Hcons & I & Cv & Hq & _ & Hp0).
    assert (S : RSync C w k0 r0) by (constructor; try assumption; now apply fisdir_in).
    destruct (cover_sequential_x Hm ops w k0 r0 None (RSync_JSync _ _ _ S) Hc) as (w' & k' & r' & hot' & Hrun & G).
    exists r0, k0, w', k', r'. split; [assumption|]. split; [assumption|]. now apply (GS_cover _ _ _ hot').
  Qed.

  (* ---------------------------------------------------------------- the reader's tables mention live watches only *)
  (* the state after the pending move-out candidate (if any) has been settled: what the next record's settle_pending
     makes of it (repaired reader) *)
  Definition settled (r : rstate) (k : kst) : rstate * kst :=
    match pend r with
    | Some (c, p) => forget_tree (wfp r) p (rclr r) k
    | None => (r, k)
    end.

  Lemma JSync_tables_live w k r : JSync w k r -> tables_live k r.
  Proof. intros [S _]. exact (RSync_tables_live C _ _ _ S). Qed.

  Lemma POut_tables_live w k r h c p : POut w k r h c p ->
    tables_live (snd (forget_tree (wfp r) p (rclr r) k)) (fst (forget_tree (wfp r) p (rclr r) k)).
  Proof. intros PO. exact (RSync_tables_live C _ _ _ (po_clean _ _ _ _ _ _ PO)). Qed.

  (* in every state of the invariant of cover_sequential_x, once the pending candidate is settled *)
  Lemma GS_tables_live w k r hot : GS w k r hot -> tables_live (snd (settled r k)) (fst (settled r k)).
  Proof.
    destruct hot as [h|]; cbn [GS]; unfold settled.
    - intros (c & p & PO). rewrite (po_pend _ _ _ _ _ _ PO). exact (POut_tables_live _ _ _ _ _ _ PO).
    - intros J. rewrite (rs_pend _ _ _ _ (js_sync _ _ _ J)). exact (JSync_tables_live _ _ _ J).
  Qed.

  (* at every drained point of the run *)
  Fixpoint live_along (w : world) (k : kst) (r : rstate) (ops : list op) : Prop :=
    tables_live (snd (settled r k)) (fst (settled r k)) /\
    match ops with
    | [] => True
    | o :: rest =>
      match apply_op w o with
      | None => live_along w k r rest
      | Some w' =>
        let k1 := kernel_op k (w_fs w) o in
        match read_batch C (w_fs w') (r, drainq k1, []) (k_queue k1) with
        | Done (r', k', _) => live_along w' k' r' rest
        | Crash _ => True
        end
      end
    end.

  Theorem tables_live_along : c_mask C = WATCHDOG_ALL -> forall ops w k r hot, GS w k r hot -> ops_x w hot ops ->
    live_along w k r ops.
  Proof.
    intros Hm. induction ops as [|o ops IH]; intros w k r hot G Hc; cbn [live_along ops_x] in *;
      (split; [exact (GS_tables_live _ _ _ _ G)|]); [exact I|].
    destruct (apply_op w o) as [w'|] eqn:Ea; [|now apply (IH w k r hot)].
    destruct Hc as [Hs Hc]. destruct (gs_step w k r hot o w' Hm G Hs Ea) as (r' & k' & evs & Hrd & G' & _).
    cbv zeta in Hrd |- *. rewrite Hrd. now apply (IH w' k' r' _ G').
  Qed.

  Theorem tables_live_from_start ops w : c_mask C = WATCHDOG_ALL -> wf_fs w -> fisdir root (w_fs w) = true ->
    ops_x w None ops ->
    exists r0 k0, construct C kinit (w_fs w) = Some (r0, k0) /\ live_along w k0 r0 ops.
  Proof.
    intros Hm W Hroot Hc. destruct (construct_cover C Hfaults w W Hroot) as (r0 & k0 & Hcons & I & Cv & Hq & _ & Hp0).
    assert (S : RSync C w k0 r0) by (constructor; try assumption; now apply fisdir_in).
    exists r0, k0. split; [exact Hcons|]. exact (tables_live_along Hm ops w k0 r0 None (RSync_JSync _ _ _ S) Hc).
  Qed.

  (* ---------------------------------------------------------------- directory move-outs back to back *)
  (* from the pending state (up to junk): a covered operation *)
  Theorem pj_step w k r h c p o w' : mask_ok C -> PJ w k r h c p -> covered_op C w o ->
    (forall d, In d (notified o) -> blw h d = false) -> apply_op w o = Some w' ->
    let k1 := kernel_op k (w_fs w) o in k_queue k1 <> [] ->
    exists r' k' evs, read_batch C (w_fs w') (r, drainq k1, []) (k_queue k1) = Done (r', k', evs) /\
      JSync w' k' r' /\ Forall (rsafe C) evs.
  Proof.
    intros M PJ0 Ho Hnh Ha k1 Qne. assert (Pclean := po_clean _ _ _ _ _ _ (pj_out _ _ _ _ _ _ PJ0)).
    destruct (cover_step_safe C Hfaults w _ _ o w' M Pclean Ho Ha) as (r2 & k2 & evs & Hrd & S2 & Hsafe).
    destruct (pj_transfer w k r h c p o (w_fs w') r2 k2 evs PJ0 Hnh Qne Hrd (rs_queue _ _ _ _ S2)) as (kb & Hreal & Ek & HJ).
    exists r2, kb, evs. split; [exact Hreal|]. split; [|exact Hsafe]. split; [now rewrite Ek | exact HJ].
  Qed.

  (* ... and ANOTHER directory of the tree moved out: the first candidate is forgotten (its descriptors' IN_IGNORED
     records are queued), the second one is pending *)
  Theorem pj_out_step w k r h c p p2 q2 w' ep : mask_ok C -> PJ w k r h c p ->
    npath p2 -> npath q2 -> c_recursive C = true -> apply_op w (Rename p2 q2) = Some w' ->
    flookup p2 (w_fs w) = Some ep -> f_dir ep = true -> scope C p2 -> p2 <> root -> ~ scope C q2 ->
    (forall d, In d (notified (Rename p2 q2)) -> blw h d = false) ->
    let k1 := kernel_op k (w_fs w) (Rename p2 q2) in k_queue k1 <> [] ->
    exists r' k' evs, read_batch C (w_fs w') (r, drainq k1, []) (k_queue k1) = Done (r', k', evs) /\
      PJ w' k' r' q2 (k_next_cookie k) p2 /\ Forall (rsafe C) evs.
  Proof.
    intros (M1 & M2 & M3) PJ0 Np Nq Hrec Ha El De Sp Hpr Sq Hnh k1 Qne.
    assert (Pclean := po_clean _ _ _ _ _ _ (pj_out _ _ _ _ _ _ PJ0)).
    destruct (out_pout w _ _ p2 q2 w' ep Pclean Np Nq Hrec M2 M3 Ha El De Sp Hpr Sq) as (r2 & k2 & evs & Hrd & PO2 & Hsafe).
    destruct (pj_transfer w k r h c p (Rename p2 q2) (w_fs w') r2 k2 evs PJ0 Hnh Qne Hrd (po_queue _ _ _ _ _ _ PO2))
      as (kb & Hreal & Ek & HJ).
    exists r2, kb, evs. split; [exact Hreal|]. split; [|exact Hsafe].
    assert (Ec : k_next_cookie (kset_queue (snd (forget_tree (wfp r) p (rclr r) (kset_queue k []))) []) = k_next_cookie k).
    { destruct (forget_tree_fold p (wfp r) (rclr r)) as (wds & rC & Hfold & _). rewrite Hfold. cbn [snd kset_queue k_next_cookie].
      destruct (fold_krm wds (kset_queue k [])) as (_ & _ & FD & _). now rewrite FD. }
    rewrite Ec in PO2. split; [now rewrite Ek | exact HJ].
  Qed.

  (* the invariant and the histories: a directory move-out may follow a directory move-out *)
  Definition GS2 (w : world) (k : kst) (r : rstate) (hot : option bytes) : Prop :=
    match hot with
    | None => JSync w k r
    | Some h => exists c p, PJ w k r h c p
    end.

  Definition step_ok2 (w : world) (hot : option bytes) (o : op) : Prop :=
    match hot with
    | None => covered_x w o
    | Some h => covered_x w o /\ watched_parent w o /\ (forall d, In d (notified o) -> blw h d = false)
    end.

  Fixpoint ops_x2 (w : world) (hot : option bytes) (ops : list op) : Prop :=
    match ops with
    | [] => True
    | o :: ops' =>
      match apply_op w o with
      | None => ops_x2 w hot ops'
      | Some w' => step_ok2 w hot o /\ ops_x2 w' (is_dir_out w o) ops'
      end
    end.

  Lemma GS_GS2 w k r hot : GS w k r hot -> GS2 w k r hot.
  Proof. destruct hot as [h|]; cbn [GS GS2]; [|auto]. intros (c & p & PO). exists c, p. now apply POut_PJ. Qed.

  Lemma cx_out_is w p q ep : npath p -> npath q -> c_recursive C = true -> flookup p (w_fs w) = Some ep -> f_dir ep = true ->
    scope C p -> p <> root -> ~ scope C q -> is_dir_out w (Rename p q) = Some q.
  Proof.
    intros Np Nq Hrec El De Sp Hpr Sq. cbn [is_dir_out]. unfold fisdir. rewrite El, De, Hrec. rewrite (proj2 (scopeb_spec C p) Sp).
    assert (E1 : beqb p root = false) by now apply beqb_neq. assert (E2 : scopeb C q = false) by now apply scopeb_false.
    now rewrite E1, E2.
  Qed.

  Theorem gs2_step w k r hot o w' : c_mask C = WATCHDOG_ALL -> GS2 w k r hot -> step_ok2 w hot o -> apply_op w o = Some w' ->
    let k1 := kernel_op k (w_fs w) o in
    exists r' k' evs, read_batch C (w_fs w') (r, drainq k1, []) (k_queue k1) = Done (r', k', evs) /\
      GS2 w' k' r' (is_dir_out w o) /\ Forall (rsafe C) evs.
  Proof.
    intros Hm G Hs Ea k1.
    assert (M : mask_ok C) by (unfold mask_ok; rewrite Hm; repeat split; vm_compute; discriminate).
    destruct hot as [h|]; cbn [GS2 step_ok2] in *.
    - destruct G as (c & p & PJ0). destruct Hs as (Hx & Hwp & Hnh).
      assert (PO := pj_out _ _ _ _ _ _ PJ0).
      assert (Qne : k_queue k1 <> []).
      { apply (record_produced w k r o Hm (rs_wf _ _ _ _ (po_clean _ _ _ _ _ _ PO))); [exact (po_cover _ _ _ _ _ _ PO) | exact (po_mask _ _ _ _ _ _ PO) | exact Hwp]. }
      destruct Hx as [o Ho|p2 q2 ep Np Nq Hrec El De Sp Hpr Sq].
      + destruct (pj_step w k r h c p o w' M PJ0 Ho Hnh Ea Qne) as (r' & k' & evs & Hrd & J' & Hsafe).
        rewrite (covered_op_not_out w o Ho). exists r', k', evs. auto.
      + destruct (pj_out_step w k r h c p p2 q2 w' ep M PJ0 Np Nq Hrec Ea El De Sp Hpr Sq Hnh Qne) as (r' & k' & evs & Hrd & PJ' & Hsafe).
        rewrite (cx_out_is w p2 q2 ep Np Nq Hrec El De Sp Hpr Sq). exists r', k', evs. split; [exact Hrd|]. split; [|exact Hsafe].
        now exists (k_next_cookie k), p2.
    - destruct Hs as [o Ho|p q ep Np Nq Hrec El De Sp Hpr Sq].
      + destruct (cover_step_junk w k r o w' M G Ho Ea) as (r' & k' & evs & Hrd & S' & Hsafe).
        rewrite (covered_op_not_out w o Ho). exists r', k', evs. split; [exact Hrd|]. split; [now apply RSync_JSync | exact Hsafe].
      + destruct M as (M1 & M2 & M3).
        destruct (out_pout_junk w k r p q w' ep G Np Nq Hrec M2 M3 Ea El De Sp Hpr Sq) as (r' & k' & evs & Hrd & PO & Hsafe).
        rewrite (cx_out_is w p q ep Np Nq Hrec El De Sp Hpr Sq). exists r', k', evs. split; [exact Hrd|]. split; [|exact Hsafe].
        exists (k_next_cookie k), p. now apply POut_PJ.
  Qed.

  Theorem cover_sequential_x2 : c_mask C = WATCHDOG_ALL -> forall ops w k r hot, GS2 w k r hot -> ops_x2 w hot ops ->
    exists w' k' r' hot', rrun C w k r ops = Some (w', k', r') /\ GS2 w' k' r' hot'.
  Proof.
    intros Hm. induction ops as [|o ops IH]; intros w k r hot G Hc; cbn [rrun ops_x2] in *.
    - exists w, k, r, hot. now split.
    - destruct (apply_op w o) as [w'|] eqn:Ea; [|now apply (IH w k r hot)].
      destruct Hc as [Hs Hc]. destruct (gs2_step w k r hot o w' Hm G Hs Ea) as (r' & k' & evs & -> & G' & _).
      now apply (IH w' k' r' _ G').
  Qed.

  Lemma GS2_cover w k r hot : GS2 w k r hot -> wf_fs w /\ Cover C (w_fs w) k r.
  Proof.
    destruct hot as [h|]; cbn [GS2].
    - intros (c & p & [PO _]). split; [apply (rs_wf _ _ _ _ (po_clean _ _ _ _ _ _ PO))|].
      apply (Cover_ext C (w_fs w) (w_fs w) (kset_queue k [])); [apply (po_cover _ _ _ _ _ _ PO) | auto | reflexivity].
    - intros [S _]. split; [apply S|]. apply (Cover_ext C (w_fs w) (w_fs w) (kset_queue k [])); [apply S | auto | reflexivity].
  Qed.

  Theorem cover_from_start_x2 ops w : c_mask C = WATCHDOG_ALL -> wf_fs w -> fisdir root (w_fs w) = true -> ops_x2 w None ops ->
    exists r0 k0 w' k' r', construct C kinit (w_fs w) = Some (r0, k0) /\ rrun C w k0 r0 ops = Some (w', k', r') /\
      wf_fs w' /\ Cover C (w_fs w') k' r'.
  Proof.
    intros Hm W Hroot Hc. destruct (construct_cover C Hfaults w W Hroot) as (r0 & k0 & Hcons & I & Cv & Hq & _ & Hp0).
    assert (S : RSync C w k0 r0) by (constructor; try assumption; now apply fisdir_in).
    destruct (cover_sequential_x2 Hm ops w k0 r0 None (RSync_JSync _ _ _ S) Hc) as (w' & k' & r' & hot' & Hrun & G).
    exists r0, k0, w', k', r'. split; [assumption|]. split; [assumption|]. now apply (GS2_cover _ _ _ hot').
  Qed.

  (* the histories of cover_sequential_x are histories of cover_sequential_x2 *)
  Lemma ops_x_x2 ops : forall w hot, ops_x w hot ops -> ops_x2 w hot ops.
  Proof.
    induction ops as [|o ops IH]; intros w hot H; cbn [ops_x ops_x2] in *; [exact I|].
    destruct (apply_op w o) as [w'|]; [|now apply IH]. destruct H as [Hs H]. destruct hot as [h|]; cbn [step_ok step_ok2 hot_next] in *.
    - destruct Hs as (Ho & Hwp & Hnh). split; [split; [now apply cx_op | auto]|]. rewrite (covered_op_not_out w o Ho). now apply IH.
    - split; [exact Hs | now apply IH].
  Qed.
End Out.

Lemma ops_x_cons C w hot o ops w' : apply_op w o = Some w' -> step_ok C w hot o -> ops_x C w' (hot_next C w hot o) ops ->
  ops_x C w hot (o :: ops).
Proof. intros Ha Hs Hc. cbn [ops_x]. rewrite Ha. now split. Qed.

(* ---------------------------------------------------------------- the F10 histories, repaired and pinned *)
(* cfgo true = the current code; cfgo false = the code before the repairs of the F10 family: neither the move-out
   candidate (F10, c_fix_moveout) nor the deletion of a stale key in _add_watch (F10e, c_fix_relabel).  cfgo2 separates
   the two flags. *)
Definition cfgo2 (relabel moveout : bool) : cfg :=
  {| c_recursive := true; c_mask := WATCHDOG_ALL; c_root := pR; c_fix_ignored := true; c_fix_movein := true;
     c_fix_simulate := true; c_fix_relabel := relabel; c_fix_moveout := moveout; c_faults := [] |}.
Definition cfgo (moveout : bool) : cfg := cfgo2 moveout moveout.

(* F10b: mv R/b O/x; (drain); mkdir R/b; mv R/b R/a      (preceded by mkdir R/b) *)
Definition f10b_ops : list op :=
  [Mkdir (sub pR 98); Rename (sub pR 98) (sub pO 120); Mkdir (sub pR 98); Rename (sub pR 98) (sub pR 97)].
(* F10c / F10d: mv R/b/b O/x; mv O/x R/n; mv R/b R/m; touch R/n/f      (preceded by mkdir R/b; mkdir R/b/b) *)
Definition f10d_ops : list op :=
  [Mkdir (sub pR 98); Mkdir (sub (sub pR 98) 98); Rename (sub (sub pR 98) 98) (sub pO 120);
   Rename (sub pO 120) (sub pR 110); Rename (sub pR 98) (sub pR 109); Touch (sub (sub pR 110) 102)].

Definition run_ops (C : cfg) (ops : list op) : option (world * kst * rstate) :=
  match construct C kinit (w_fs w0) with
  | Some (r, k) => rrun C w0 k r ops
  | None => None
  end.

(* pinned code (cfgo false: c_fix_moveout = c_fix_relabel = false): after the F10d history the directory R/n is not covered - its descriptor was
   re-keyed to R/m/b through the stale entry R/b/b *)
Lemma f10d_pinned_refuted :
  exists w' k' r', run_ops (cfgo false) f10d_ops = Some (w', k', r') /\ k_queue k' = [] /\ ~ Cover (cfgo false) (w_fs w') k' r'.
Proof.
  eexists _, _, _. split; [vm_compute; reflexivity|]. split; [reflexivity|].
  intros H. apply coverb_spec in H. vm_compute in H. discriminate.
Qed.

(* either repair alone covers the F10d history: with the move-out repair the stale entry R/b/b is forgotten when the
   directory leaves; with the F10e repair alone it is deleted when the directory comes back and is watched as R/n *)
Lemma f10d_either_repair :
  (exists w' k' r', run_ops (cfgo2 false true) f10d_ops = Some (w', k', r') /\ Cover (cfgo2 false true) (w_fs w') k' r') /\
  (exists w' k' r', run_ops (cfgo2 true false) f10d_ops = Some (w', k', r') /\ Cover (cfgo2 true false) (w_fs w') k' r').
Proof.
  split; (eexists _, _, _; split; [vm_compute; reflexivity|]; apply coverb_spec; vm_compute; reflexivity).
Qed.

Lemma f10d_repaired :
  exists w' k' r', run_ops (cfgo true) f10d_ops = Some (w', k', r') /\ k_queue k' = [] /\ pend r' = None /\
    Cover (cfgo true) (w_fs w') k' r' /\ length (k_watches k') = 3%nat.
Proof.
  eexists _, _, _. split; [vm_compute; reflexivity|]. split; [reflexivity|]. split; [reflexivity|].
  split; [apply coverb_spec; vm_compute; reflexivity | reflexivity].
Qed.

(* F10b (does not depend on c_fix_relabel): the pinned code keeps the kernel watch of the departed directory for ever (3 watches for 2 directories in the
   tree), the repaired code has dropped it *)
Lemma f10b_pinned_stale :
  exists w' k' r', run_ops (cfgo false) f10b_ops = Some (w', k', r') /\ length (k_watches k') = 3%nat /\
    length (filter (fun e => f_dir e && scopeb (cfgo false) (f_path e)) (w_fs w')) = 2%nat.
Proof. eexists _, _, _. split; [vm_compute; reflexivity|]. split; reflexivity. Qed.

Lemma f10b_repaired :
  exists w' k' r', run_ops (cfgo true) f10b_ops = Some (w', k', r') /\ length (k_watches k') = 2%nat /\
    Cover (cfgo true) (w_fs w') k' r' /\ k_queue k' = [] /\ pend r' = None.
Proof.
  eexists _, _, _. split; [vm_compute; reflexivity|]. split; [reflexivity|].
  split; [apply coverb_spec; vm_compute; reflexivity | split; reflexivity].
Qed.
