(* C16 - The event queue drops only true consecutive duplicates and never anything else.
   Only statements; every proof is `exact <lemma>`.

   The model (Model/SkipQueue.v) is a labelled transition system: any number of producers, each cut at
   its two unlocked reads of _last_item and at the locked append; one consumer; `run init tr = Some s`
   ranges over EVERY interleaving `tr` (no bound on producers, items or steps).  Items are
   (identity, value).  `offered tr` are the arguments of the put calls started in tr. *)
Require Import WD.Base.Prelude WD.Model.SkipQueue WD.Proofs.SkipQueueProofs.
From Coq Require Import Permutation.

(* FIFO: what was taken out followed by what is waiting is exactly what was appended, in append order. *)
Theorem C16_fifo : forall tr s, run init tr = Some s -> out s ++ queue s = enq s.
Proof. exact fifo. Qed.
Print Assumptions C16_fifo.

(* _last_item, when set, is the final element of the queue (so it is still waiting) and the most
   recently appended item. *)
Theorem C16_last_item : forall tr s y, run init tr = Some s -> last_item s = Some y ->
  queue s <> [] /\ final (queue s) = Some y /\ final (enq s) = Some y.
Proof. exact last_item_invariant. Qed.
Print Assumptions C16_last_item.

(* Re-acceptance: once the queue is empty the memory of the last item is gone. *)
Theorem C16_empty_resets : forall tr s, run init tr = Some s -> queue s = [] -> last_item s = None.
Proof. exact empty_resets_last. Qed.
Print Assumptions C16_empty_resets.

(* Only justified drops: every entry (x, y) of the drop log was added by a second-read step of the
   producer p that was putting x, in a state s1 where _last_item = y, y == x, y is the most recently
   appended item and y is still in the queue. *)
Theorem C16_drops_justified : forall tr s x y, run init tr = Some s -> In (x, y) (dropped s) ->
  exists tr1 p tr2 s1, tr = tr1 ++ PRead2 p :: tr2 /\ run init tr1 = Some s1 /\
    pc_of s1 p = Some (AtRead2 x) /\
    last_item s1 = Some y /\ value y = value x /\ final (enq s1) = Some y /\ In y (queue s1).
Proof. exact drops_justified. Qed.
Print Assumptions C16_drops_justified.

(* Nothing else is lost: the offered items are, as a multiset, exactly the appended ones, the dropped
   ones and those whose put is still in flight. *)
Theorem C16_conservation : forall tr s, run init tr = Some s ->
  Permutation (offered tr) (enq s ++ map fst (dropped s) ++ pending s).
Proof. exact conservation. Qed.
Print Assumptions C16_conservation.

(* With unique identities every offered item is in exactly one of the three places, exactly once. *)
Theorem C16_exactly_one : forall tr s x, run init tr = Some s ->
  NoDup (map ident (offered tr)) -> In x (offered tr) ->
  (In x (enq s) \/ In x (map fst (dropped s)) \/ In x (pending s)) /\
  ~ (In x (enq s) /\ In x (map fst (dropped s))) /\
  ~ (In x (enq s) /\ In x (pending s)) /\
  ~ (In x (map fst (dropped s)) /\ In x (pending s)) /\
  NoDup (enq s) /\ NoDup (map fst (dropped s)) /\ NoDup (pending s).
Proof. exact exactly_one. Qed.
Print Assumptions C16_exactly_one.

(* A put whose locked append ran left its item in enq (for good). *)
Theorem C16_completed_put : forall tr1 p tr2 s1 s x,
  run init tr1 = Some s1 -> pc_of s1 p = Some (AtPut x) -> run init (tr1 ++ PPut p :: tr2) = Some s ->
  In x (enq s).
Proof. exact completed_put_in_enq. Qed.
Print Assumptions C16_completed_put.

(* Nothing is delivered that was not offered, nothing twice. *)
Theorem C16_out_offered : forall tr s x, run init tr = Some s -> In x (out s) -> In x (offered tr).
Proof. exact out_offered. Qed.
Print Assumptions C16_out_offered.

Theorem C16_out_nodup : forall tr s, run init tr = Some s -> NoDup (map ident (offered tr)) -> NoDup (out s).
Proof. exact out_nodup. Qed.
Print Assumptions C16_out_nodup.

(* All puts returned and the queue drained: the consumer has everything except the (justified) drops. *)
Theorem C16_drained : forall tr s, run init tr = Some s -> pcs s = [] -> queue s = [] ->
  Permutation (offered tr) (out s ++ map fst (dropped s)).
Proof. exact drained. Qed.
Print Assumptions C16_drained.

(* Per-producer order: if producer p offered x before x' and both were appended, x was appended (hence, by
   C16_fifo, delivered) first. *)
Theorem C16_producer_order : forall tr1 p x tr2 x' tr3 s,
  run init (tr1 ++ PRead1 p x :: tr2 ++ PRead1 p x' :: tr3) = Some s ->
  NoDup (map ident (offered (tr1 ++ PRead1 p x :: tr2 ++ PRead1 p x' :: tr3))) ->
  In x (enq s) -> In x' (enq s) ->
  exists l1 l2 l3, enq s = l1 ++ x :: l2 ++ x' :: l3.
Proof. exact producer_order. Qed.
Print Assumptions C16_producer_order.

(* ---- sequential corollaries (a put that runs without interleaving = seq_put; it is a run of the LTS) *)

Theorem C16_seq_put_is_run : forall s p x s', seq_put p x s = Some s' ->
  exists tr, run s tr = Some s' /\ offered tr = [x].
Proof. exact seq_put_run. Qed.
Print Assumptions C16_seq_put_is_run.

(* equal items separated by a different item are both delivered *)
Theorem C16_seq_separated_equals : forall p x y x', value x <> value y -> value x' = value x ->
  exists s1 s2 s3, seq_put p x init = Some s1 /\ seq_put p y s1 = Some s2 /\ seq_put p x' s2 = Some s3 /\
    queue s3 = [x; y; x'] /\ enq s3 = [x; y; x'] /\ dropped s3 = [] /\
    exists s4 s5 s6, seq_get s3 = Some (s4, x) /\ seq_get s4 = Some (s5, y) /\ seq_get s5 = Some (s6, x') /\
      out s6 = [x; y; x'] /\ queue s6 = [].
Proof. exact seq_separated_equals. Qed.
Print Assumptions C16_seq_separated_equals.

(* in any state: a put whose value differs from the previous put's value is accepted *)
Theorem C16_seq_put_after_different : forall s p y x s1, pc_of s p = None -> seq_put p y s = Some s1 ->
  value x <> value y ->
  seq_put p x s1 = Some (mkState (queue s1 ++ [x]) (Some x) (pcs s1) (enq s1 ++ [x]) (out s1) (dropped s1)).
Proof. exact seq_put_after_different. Qed.
Print Assumptions C16_seq_put_after_different.

(* once the queue was drained, a put is accepted whatever its value *)
Theorem C16_seq_put_after_drain : forall s p x, reachable s -> pc_of s p = None -> queue s = [] ->
  seq_put p x s = Some (mkState (queue s ++ [x]) (Some x) (pcs s) (enq s ++ [x]) (out s) (dropped s)).
Proof. exact seq_put_after_drain. Qed.
Print Assumptions C16_seq_put_after_drain.

(* once the most recently appended item has been taken out, a put is accepted whatever its value *)
Theorem C16_seq_put_after_taken_out : forall s p x y, reachable s -> NoDup (enq s) -> pc_of s p = None ->
  final (enq s) = Some y -> In y (out s) ->
  seq_put p x s = Some (mkState (queue s ++ [x]) (Some x) (pcs s) (enq s ++ [x]) (out s) (dropped s)).
Proof. exact seq_put_after_taken_out. Qed.
Print Assumptions C16_seq_put_after_taken_out.

(* ---- equality of events: equal iff same class and same field values *)
Theorem C16_event_eq : forall e1 e2 : event, event_eqb e1 e2 = true <-> e1 = e2.
Proof. exact event_eqb_eq. Qed.
Print Assumptions C16_event_eq.

Theorem C16_event_eq_fields : forall a b : event, event_eqb a b = true <->
  cls a = cls b /\ src_path a = src_path b /\ dest_path a = dest_path b /\
  event_type (cls a) = event_type (cls b) /\ is_directory (cls a) = is_directory (cls b) /\
  is_synthetic a = is_synthetic b.
Proof. exact event_eqb_fields. Qed.
Print Assumptions C16_event_eq_fields.

(* ---- non-vacuity ---- *)

(* A racy run with two producers and the consumer: producer 1 puts a (id 1, value 7); producer 2 offers an
   equal a' (id 2), reads _last_item = a twice and drops a' (justified: a still waits); the consumer takes
   a out; producer 2 offers a'' (id 3): accepted again; producer 1 offers b (id 4, value 8) and reads
   a'' at its first read, then the consumer empties the queue, so its second read sees None and b is put. *)
Example C16_run_nonvacuous :
  let a := (1, 7)%N in let a' := (2, 7)%N in let a'' := (3, 7)%N in let b := (4, 8)%N in
  let tr := [PRead1 1 a; PPut 1; PRead1 2 a'; PRead2 2; CGet; PRead1 2 a''; PPut 2;
             PRead1 1 b; CGet; PRead2 1; PPut 1]%N in
  exists s, run init tr = Some s /\
    enq s = [a; a''; b] /\ out s = [a; a''] /\ queue s = [b] /\ last_item s = Some b /\
    dropped s = [(a', a)] /\ pending s = [] /\ NoDup (map ident (offered tr)).
Proof.
  eexists. split; [vm_compute; reflexivity|]. vm_compute.
  repeat split; repeat constructor; simpl; intuition discriminate.
Qed.

(* sequential: an equal put while the first waits is dropped; after the get it is accepted again *)
Example C16_seq_nonvacuous :
  let a := (1, 7)%N in let a' := (2, 7)%N in let a'' := (3, 7)%N in
  exists s1 s2 s3 s4, seq_put 0 a init = Some s1 /\ seq_put 0 a' s1 = Some s2 /\ dropped s2 = [(a', a)] /\
    queue s2 = [a] /\ seq_get s2 = Some (s3, a) /\ queue s3 = [] /\ last_item s3 = None /\
    seq_put 0 a'' s3 = Some s4 /\ queue s4 = [a''].
Proof. vm_compute. do 4 eexists. repeat split. Qed.

(* two different classes with the same field values are different events; str and bytes paths differ *)
Example C16_event_nonvacuous :
  event_eqb (mkEvent CFileMoved (PStr [97%N]) (PStr [98%N]) false)
            (mkEvent CFileSystemMovedEvent (PStr [97%N]) (PStr [98%N]) false) = false /\
  event_type CFileMoved = event_type CFileSystemMovedEvent /\
  is_directory CFileMoved = is_directory CFileSystemMovedEvent /\
  event_eqb (mkEvent CFileModified (PStr [97%N]) (PStr []) false)
            (mkEvent CFileModified (PBytes [97%N]) (PStr []) false) = false /\
  event_eqb (mkEvent CDirMoved (PStr [97%N]) (PStr [98%N]) true)
            (mkEvent CDirMoved (PStr [97%N]) (PStr [98%N]) true) = true.
Proof. vm_compute. repeat split. Qed.

(* the hypotheses of C16_producer_order are satisfiable: producer 1 puts a, then b *)
Example C16_producer_order_nonvacuous :
  let a := (1, 7)%N in let b := (2, 8)%N in
  let tr := ([] ++ PRead1 1 a :: [PPut 1] ++ PRead1 1 b :: [PRead2 1; PPut 1])%N in
  exists s, run init tr = Some s /\ NoDup (map ident (offered tr)) /\ In a (enq s) /\ In b (enq s) /\ enq s = [a; b].
Proof.
  eexists. split; [vm_compute; reflexivity|]. vm_compute.
  repeat split; repeat constructor; simpl; intuition discriminate.
Qed.
