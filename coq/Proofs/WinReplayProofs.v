(* C20_win_replay_full: replaying the Windows contract of any operation reproduces the tree,
   directories with content included. *)
Require Import WD.Base.Prelude WD.Base.BStr WD.Model.SubEvents WD.Proofs.SubEventsProofs.
Require Import WD.Model.PlatFs WD.Proofs.PlatFsProofs WD.Proofs.PlatReplayProofs.
Require Import WD.Model.WinEmitter WD.Proofs.WinEmitterProofs.
Require Import Coq.Sorting.Permutation.

Lemma in_below f p e : In e f -> under p (e_path e) = true -> e_path e <> p ->
  In (skipn (length p) (e_path e), e_kind e) (below f p).
Proof.
  intros He U Hne. unfold below. apply in_flat_map. exists e. split; [exact He|].
  rewrite U. assert (path_eqb (e_path e) p = false) as ->.
  { apply not_true_is_false. intros H. now apply path_eqb_eq in H. }
  now left.
Qed.

(* what [op_ok] says about a rename *)
Lemma rename_ok f s d : op_names_ok (ORename s d) = true -> op_ok f (ORename s d) = true ->
  s <> [] /\ d <> [] /\ fs_mem f s = true /\ fs_mem f d = false /\ under s d = false.
Proof.
  cbn [op_names_ok op_ok]. intros Hn Ho. apply andb_true_iff in Hn as [Hs Hd].
  apply path_ok_split in Hs as [Hs _]. apply path_ok_split in Hd as [Hd _].
  repeat (apply andb_true_iff in Ho as [Ho ?]).
  repeat split; try assumption; now apply negb_true_iff.
Qed.

(* covering hypothesis -> the membership form used by the re-key core *)
Lemma cover_in (D : list (kind * path)) (B : list (path * kind)) :
  Permutation (map (fun x => (snd x, fst x)) D) B ->
  forall r k, In (r, k) B -> In r (map snd D).
Proof.
  intros P r k H. apply Permutation_sym in P. apply (Permutation_in _ P) in H.
  apply in_map_iff in H as (x & Hx & Hin). inversion Hx; subst. now apply in_map.
Qed.

Section RenameCase.
  Variable f : fs.
  Variables s d : path.
  Hypothesis C : closed_fs f.
  Hypothesis Hn : op_names_ok (ORename s d) = true.
  Hypothesis Ho : op_ok f (ORename s d) = true.

  (* any event list of the shape "moved s d, then one moved per descendant named by D" *)
  Lemma rename_replay (D : list (kind * path)) k b :
    Permutation (map (fun x => (snd x, fst x)) D) (below (apply_op f (ORename s d)) d) ->
    replay (view_of f) (AMoved k s d b :: map (fun x => AMoved (fst x) (s ++ snd x) (d ++ snd x) true) D)
    = view_of (apply_op f (ORename s d)).
  Proof.
    destruct (rename_ok _ _ _ Hn Ho) as (Hs & Hd & Hms & Hmd & Hsd). intros P.
    apply replay_rename; try assumption.
    intros e He U Hne. rewrite below_after_rename in P by assumption.
    eapply cover_in; [exact P|]. now apply in_below.
  Qed.

  Lemma rename_replay_leaf k b : fs_isdir f s = false ->
    replay (view_of f) [AMoved k s d b] = view_of (apply_op f (ORename s d)).
  Proof.
    destruct (rename_ok _ _ _ Hn Ho) as (Hs & Hd & Hms & Hmd & Hsd). intros Hleaf.
    change [AMoved k s d b] with (AMoved k s d b :: map (fun x : kind * path => AMoved (fst x) (s ++ snd x) (d ++ snd x) true) []).
    apply replay_rename; try assumption.
    intros e He U Hne. exfalso. apply Hne. now apply (below_nondir_leaf f s).
  Qed.
End RenameCase.

Lemma created_head_replay {A} v k p (D : list A) kf pf :
  replay v (ACreated k p false :: map (fun x => ACreated (kf x) (pf x) true) D)
  = v ++ (p, k) :: map (fun x => (pf x, kf x)) D.
Proof.
  cbn [replay fold_left replay1].
  fold (replay (v ++ [(p, k)]) (map (fun x => ACreated (kf x) (pf x) true) D)).
  rewrite (replay_created_list D kf pf (fun _ => true)), <- app_assoc. reflexivity.
Qed.

Lemma movein_ok f d k i content : op_names_ok (OMoveIn d k i content) = true -> op_ok f (OMoveIn d k i content) = true ->
  d <> [] /\ fs_mem f d = false /\ (k = KFile -> content = []) /\ (forall e, In e content -> e_path e <> []).
Proof.
  cbn [op_names_ok op_ok]. intros Hn Ho. apply andb_true_iff in Hn as [Hd _].
  apply path_ok_split in Hd as [Hd _].
  apply andb_true_iff in Ho as [Ho _]. apply andb_true_iff in Ho as [Ho Hc]. apply andb_true_iff in Ho as [Hf Hk].
  repeat split; [exact Hd | now apply fresh_not_mem in Hf | |].
  - intros ->. destruct content; [reflexivity | discriminate].
  - intros e He E. rewrite forallb_forall in Hc. specialize (Hc e He). rewrite E in Hc. discriminate.
Qed.

Lemma view_movein f d k i content :
  view_of (apply_op f (OMoveIn d k i content))
  = view_of f ++ (d, k) :: map (fun e => (d ++ e_path e, e_kind e)) content.
Proof. cbn [apply_op]. unfold view_of. rewrite map_app. cbn [map e_path e_kind]. now rewrite map_map. Qed.

Lemma perm_prefix (d : path) (D : list (kind * path)) (content : list entry) :
  Permutation (map (fun x => (snd x, fst x)) D) (map (fun e => (e_path e, e_kind e)) content) ->
  Permutation (map (fun x => (d ++ snd x, fst x)) D) (map (fun e => (d ++ e_path e, e_kind e)) content).
Proof.
  intros P. apply (Permutation_map (fun pk : path * kind => (d ++ fst pk, snd pk))) in P.
  rewrite !map_map in P. exact P.
Qed.

(* operations for which the emitter walks a directory (os.walk) to synthesise events *)
Definition walks (o : op) : bool :=
  match o with OMkdir _ _ | ORename _ _ | OMoveIn _ _ _ _ => true | _ => false end.

(* the tree the emitter walked for operation o lists (as a set) what lies below o's target *)
Definition covers (sub : path -> tree) (after : fs) (o : op) : Prop :=
  walks o = true ->
  Permutation (map (fun x => (snd x, fst x)) (desc [] (sub (target o)))) (below after (target o)).

Theorem win_replay_cov (sub : path -> tree) (before : fs) (o : op) :
  closed_fs before -> op_names_ok o = true -> op_ok before o = true ->
  let after := apply_op before o in
  covers sub after o ->
  Permutation (replay (view_of before) (win_contract sub true after o)) (view_of after).
Proof.
  intros C Hn Ho after Hc. unfold covers in Hc.
  destruct o as [p i|p i|p|p|p|p|s d|s|d k i content]; cbn [target walks] in Hc;
    try (pose proof (Hc eq_refl) as P; clear Hc); subst after; cbn [win_contract].
  - cbn [apply_op]. unfold view_of. rewrite map_app. apply Permutation_refl.
  - (* mkdir: the new directory is empty *)
    assert (Hp : p <> []) by (cbn [op_names_ok] in Hn; now apply path_ok_split in Hn).
    assert (Hm : fs_mem before p = false) by (cbn [op_ok] in Ho; now apply fresh_not_mem in Ho).
    cbn [apply_op] in P. rewrite below_none in P by assumption. cbn [e_path] in P.
    rewrite under_refl', path_eqb_refl in P. cbn [andb negb] in P.
    apply Permutation_sym, Permutation_nil, map_eq_nil in P. rewrite P. cbn [map apply_op].
    unfold view_of. rewrite map_app. apply Permutation_refl.
  - apply Permutation_refl.
  - apply Permutation_refl.
  - cbn [apply_op replay fold_left replay1]. rewrite (filter_view' (fun q => negb (under p q))). apply Permutation_refl.
  - cbn [apply_op replay fold_left replay1]. rewrite (filter_view' (fun q => negb (under p q))). apply Permutation_refl.
  - (* rename *)
    destruct (rename_ok _ _ _ Hn Ho) as (Hs & Hd & Hms & Hmd & Hsd).
    rewrite isdir_after_rename by assumption.
    destruct (fs_isdir before s) eqn:Edir.
    + rewrite (rename_replay before s d C Hn Ho) by exact P. apply Permutation_refl.
    + rewrite (rename_replay_leaf before s d C Hn Ho) by exact Edir. apply Permutation_refl.
  - cbn [apply_op replay fold_left replay1]. rewrite (filter_view' (fun q => negb (under s q))). apply Permutation_refl.
  - (* move in *)
    destruct (movein_ok _ _ _ _ _ Hn Ho) as (Hd & Hm & Hfile & Hc).
    rewrite view_movein. destruct k.
    + rewrite (Hfile eq_refl). cbn [map]. cbn [replay fold_left replay1]. apply Permutation_refl.
    + rewrite created_head_replay. apply Permutation_app_head, perm_skip.
      rewrite below_after_movein in P by assumption. now apply perm_prefix.
Qed.

Theorem win_replay_full (sub : path -> tree) (before : fs) (o : op) :
  closed_fs before -> op_names_ok o = true -> op_ok before o = true ->
  let after := apply_op before o in
  Permutation (map (fun x => (snd x, fst x)) (desc [] (sub (target o)))) (below after (target o)) ->
  Permutation (replay (view_of before) (win_contract sub true after o)) (view_of after).
Proof. intros C Hn Ho after P. apply win_replay_cov; try assumption. intros _. exact P. Qed.

Theorem win_replay_full_wf :
  forall (sub : path -> tree) (before : fs) (o : op),
  wf_fs before -> op_names_ok o = true -> op_ok before o = true ->
  let after := apply_op before o in
  Permutation (map (fun x => (snd x, fst x)) (desc [] (sub (target o)))) (below after (target o)) ->
  Permutation (replay (view_of before) (win_contract sub true after o)) (view_of after).
Proof. intros sub before o W. apply win_replay_full. now apply wf_closed. Qed.

(* ---------------------------------------------------------------- histories, one operation per batch *)
Require Import WD.Proofs.PlatClosedProofs.


(* subs: the walk oracle at each step (the tree changes from step to step) *)
Fixpoint win_history (subs : list (path -> tree)) (f : fs) (ops : list op) : list aev :=
  match ops, subs with
  | o :: r, sub :: sr => win_contract sub true (apply_op f o) o ++ win_history sr (apply_op f o) r
  | _, _ => []
  end.

Fixpoint history_ok (subs : list (path -> tree)) (f : fs) (ops : list op) : Prop :=
  match ops, subs with
  | [], _ => True
  | o :: r, sub :: sr =>
    op_names_ok o = true /\ op_ok f o = true /\ covers sub (apply_op f o) o /\ history_ok sr (apply_op f o) r
  | _ :: _, [] => False
  end.

Theorem win_replay_history : forall ops subs f, closed_fs f -> history_ok subs f ops ->
  Permutation (replay (view_of f) (win_history subs f ops)) (view_of (fold_left apply_op ops f)).
Proof.
  induction ops as [|o r IH]; intros subs f C H; [destruct subs; apply Permutation_refl|].
  destruct subs as [|sub sr]; [destruct H|]. destruct H as (Hn & Ho & Hc & Hr).
  cbn [win_history fold_left]. rewrite replay_app.
  eapply Permutation_trans.
  - apply replay_perm. apply win_replay_cov; eassumption.
  - apply IH; [now apply closed_apply | exact Hr].
Qed.

Theorem win_replay_history_wf : forall ops subs f, wf_fs f -> history_ok subs f ops ->
  Permutation (replay (view_of f) (win_history subs f ops)) (view_of (fold_left apply_op ops f)).
Proof. intros ops subs f W. apply win_replay_history. now apply wf_closed. Qed.

(* ---------------------------------------------------------------- the emitter over a whole history *)
Record woracle := WOracle { w_isdir : bytes -> bool; w_walk : bytes -> tree; w_sub : path -> tree }.

Section Run.
  Variable recursive : bool.
  Variable root : bytes.

  (* per operation: the oracles of its moment and the way its notifications were cut into reads;
     the pending RENAMED_OLD_NAME path is carried from call to call *)
  Fixpoint win_run (steps : list (woracle * list (list native))) (last : bytes) : list ev * bytes :=
    match steps with
    | [] => ([], last)
    | (oc, reads) :: r =>
      let '(o1, l1, _) := queue_events_seq (w_isdir oc) (w_walk oc) recursive root last reads in
      let '(o2, l2) := win_run r l1 in
      (o1 ++ o2, l2)
    end.

  Fixpoint win_steps_ok (steps : list (woracle * list (list native))) (f : fs) (ops : list op) : Prop :=
    match ops, steps with
    | [], [] => True
    | o :: r, (oc, reads) :: sr =>
      let after := apply_op f o in
      op_names_ok o = true /\ op_ok f o = true /\
      (forall p, w_walk oc (abspath root p) = w_sub oc p) /\ (forall p, wf_tree (w_sub oc p) = true) /\
      (forall p, In p (op_paths o) -> w_isdir oc (abspath root p) = fs_isdir after p) /\
      concat reads = map render_native (win_kernel o) /\
      covers (w_sub oc) after o /\
      win_steps_ok sr after r
    | _, _ => False
    end.

  Hypothesis Hroot : root <> [].
  Hypothesis Hsep : last_is_sep root = false.

  Fixpoint win_history_r (subs : list (path -> tree)) (f : fs) (ops : list op) : list aev :=
    match ops, subs with
    | o :: r, sub :: sr => win_contract sub recursive (apply_op f o) o ++ win_history_r sr (apply_op f o) r
    | _, _ => []
    end.

  Theorem win_run_contracts : forall ops steps f last, win_steps_ok steps f ops ->
    fst (win_run steps last) = map (render root) (win_history_r (map (fun st => w_sub (fst st)) steps) f ops).
  Proof.
    induction ops as [|o r IH]; intros steps f last H.
    - destruct steps; [reflexivity | destruct H].
    - destruct steps as [|[oc reads] sr]; [destruct H|].
      destruct H as (Hn & Ho & Hw & Hwf & Hi & Hc & _ & Hr). cbn [win_run map fst win_history_r].
      rewrite (win_contract_cut_ok (w_isdir oc) (w_walk oc) (w_sub oc) recursive root Hroot Hsep Hw Hwf f o last reads Hn Ho Hi Hc).
      specialize (IH sr (apply_op f o) (state_after root last o) Hr).
      destruct (win_run sr (state_after root last o)) as [o2 l2]. cbn [fst] in *. now rewrite IH, map_app.
  Qed.

  Lemma steps_history_ok : forall ops steps f, win_steps_ok steps f ops ->
    history_ok (map (fun st => w_sub (fst st)) steps) f ops.
  Proof.
    induction ops as [|o r IH]; intros steps f H; [destruct steps; exact I|].
    destruct steps as [|[oc reads] sr]; [destruct H|].
    destruct H as (Hn & Ho & _ & _ & _ & _ & Hc & Hr). cbn [map fst history_ok]. repeat split; auto.
  Qed.
End Run.

Lemma win_history_r_true : forall ops subs f, win_history_r true subs f ops = win_history subs f ops.
Proof.
  induction ops as [|o r IH]; intros subs f; [destruct subs; reflexivity|].
  destruct subs; [reflexivity|]. cbn [win_history_r win_history]. now rewrite IH.
Qed.

(* recursive watch: what WindowsApiEmitter queues over a whole history - one operation at a time,
   each operation's notifications cut into reads in any way - is the stream of contracts, and
   replaying it reproduces the final tree *)
Theorem win_emitter_history : forall root ops steps f last,
  root <> [] -> last_is_sep root = false -> wf_fs f -> win_steps_ok root steps f ops ->
  let subs := map (fun st => w_sub (fst st)) steps in
  fst (win_run true root steps last) = map (render root) (win_history subs f ops) /\
  Permutation (replay (view_of f) (win_history subs f ops)) (view_of (fold_left apply_op ops f)).
Proof.
  intros root ops steps f last Hr Hs W H subs. split.
  - rewrite (win_run_contracts true root Hr Hs ops steps f last H). now rewrite win_history_r_true.
  - apply win_replay_history; [now apply wf_closed | now apply (steps_history_ok root ops steps f)].
Qed.

(* ---------------------------------------------------------------- the whole notification stream, cut anywhere *)
Section Stream.
  Variable isdir : bytes -> bool.       (* os.path.isdir / os.walk whenever the emitter asks *)
  Variable walk : bytes -> tree.
  Variable sub : path -> tree.
  Variable recursive : bool.
  Variable root : bytes.
  Hypothesis Hroot : root <> [].
  Hypothesis Hsep : last_is_sep root = false.
  Hypothesis Hwalk : forall p, walk (abspath root p) = sub p.
  Hypothesis Hwf : forall p, wf_tree (sub p) = true.

  (* what ReadDirectoryChangesW delivers for a history, as one stream *)
  Definition win_stream (ops : list op) : list native :=
    flat_map (fun o => map render_native (win_kernel o)) ops.

  Fixpoint win_contracts (f : fs) (ops : list op) : list aev :=
    match ops with
    | [] => []
    | o :: r => win_contract sub recursive (apply_op f o) o ++ win_contracts (apply_op f o) r
    end.

  (* an executable history; whenever the emitter gets to an operation's notifications - right away or
     after later operations - os.path.isdir answers, on the paths that operation names, as right after
     the operation, and os.walk lists below its target what was there right after it *)
  Fixpoint win_stream_ok (f : fs) (ops : list op) : Prop :=
    match ops with
    | [] => True
    | o :: r =>
      let after := apply_op f o in
      op_names_ok o = true /\ op_ok f o = true /\
      (forall p, In p (op_paths o) -> isdir (abspath root p) = fs_isdir after p) /\
      covers sub after o /\
      win_stream_ok after r
    end.

  Theorem win_stream_contracts : forall ops f last, win_stream_ok f ops ->
    queue_events isdir walk recursive root last (win_stream ops)
    = (map (render root) (win_contracts f ops), fold_left (state_after root) ops last, false).
  Proof.
    induction ops as [|o r IH]; intros f last H; [reflexivity|].
    destruct H as (Hn & Ho & Hi & _ & Hr). cbn [win_stream flat_map win_contracts fold_left].
    fold (win_stream r). unfold queue_events. rewrite batch_go_app.
    pose proof (win_contract_ok isdir walk sub recursive root Hroot Hsep Hwalk Hwf f o last Hn Ho Hi) as E.
    unfold queue_events in E. rewrite E.
    pose proof (IH (apply_op f o) (state_after root last o) Hr) as E2. unfold queue_events in E2. rewrite E2.
    now rewrite map_app.
  Qed.

  Theorem win_stream_cut : forall ops f last reads, win_stream_ok f ops -> concat reads = win_stream ops ->
    queue_events_seq isdir walk recursive root last reads
    = (map (render root) (win_contracts f ops), fold_left (state_after root) ops last, false).
  Proof. intros ops f last reads H Hc. rewrite queue_events_cuts, Hc. now apply win_stream_contracts. Qed.
End Stream.

Theorem win_stream_replay : forall sub isdir root ops f, closed_fs f -> win_stream_ok isdir sub root f ops ->
  Permutation (replay (view_of f) (win_contracts sub true f ops)) (view_of (fold_left apply_op ops f)).
Proof.
  intros sub isdir root. induction ops as [|o r IH]; intros f C H; [apply Permutation_refl|].
  destruct H as (Hn & Ho & _ & Hc & Hr). cbn [win_contracts fold_left]. rewrite replay_app.
  eapply Permutation_trans.
  - apply replay_perm. apply win_replay_cov; eassumption.
  - apply IH; [now apply closed_apply | exact Hr].
Qed.

(* C20_win_replay_full *)
Theorem win_replay_stream_full :
  forall (isdir : bytes -> bool) (walk : bytes -> tree) (sub : path -> tree) (root : bytes)
         (ops : list op) (f : fs) (last : bytes) (reads : list (list native)),
  root <> [] -> last_is_sep root = false ->
  (forall p, walk (abspath root p) = sub p) -> (forall p, wf_tree (sub p) = true) ->
  wf_fs f -> win_stream_ok isdir sub root f ops ->
  concat reads = win_stream ops ->
  let es := win_contracts sub true f ops in
  fst (fst (queue_events_seq isdir walk true root last reads)) = map (render root) es /\
  Permutation (replay (view_of f) es) (view_of (fold_left apply_op ops f)).
Proof.
  intros isdir walk sub root ops f last reads Hr Hs Hw Hwf W H Hc es. split.
  - rewrite (win_stream_cut isdir walk sub true root Hr Hs Hw Hwf ops f last reads H Hc). reflexivity.
  - eapply win_stream_replay; [now apply wf_closed | exact H].
Qed.
