(* Model of watchdog.events.generate_sub_moved_events / generate_sub_created_events
   and of the prefix re-key loop of Inotify.read_events (inotify_c.py).
   Definitions only. *)
Require Import WD.Base.Prelude WD.Base.BStr.

(* A directory's content as os.walk sees it: sub-directories (in listing order,
   with their content) and file names (in listing order). *)
Inductive tree := Node : list (bytes * tree) -> list bytes -> tree.

Inductive kind := KFile | KDir.

(* os.walk(root), top-down: (dirpath, dirnames, filenames) triples. *)
Fixpoint walk (root : bytes) (t : tree) : list (bytes * list bytes * list bytes) :=
  match t with
  | Node ds fs =>
    (root, map fst ds, fs) ::
    (fix go (l : list (bytes * tree)) : list (bytes * list bytes * list bytes) :=
       match l with
       | [] => []
       | (n, sub) :: l' => walk (join root n) sub ++ go l'
       end) ds
  end.

(* The rewrite `full_path.replace(dest_dir_path, src_dir_path)` is a parameter:
   [replace_all] is the pinned code, [replace_first] the repaired code (count=1). *)
Section Rewrite.
  Variable rewrite : bytes -> bytes -> bytes -> bytes.   (* old new s *)

  Definition renamed (src dest full : bytes) : bytes :=
    match src with [] => [] | _ => rewrite dest src full end.

  Definition moved_step (src dest : bytes) (w : bytes * list bytes * list bytes)
    : list (kind * bytes * bytes) :=
    let '(root, ds, fs) := w in
    map (fun d => let full := join root d in (KDir, renamed src dest full, full)) ds ++
    map (fun f => let full := join root f in (KFile, renamed src dest full, full)) fs.

  (* generate_sub_moved_events(src, dest): (kind, src_path, dest_path), all synthetic *)
  Definition sub_moved_events (src dest : bytes) (t : tree) : list (kind * bytes * bytes) :=
    flat_map (moved_step src dest) (walk dest t).

  (* One key of Inotify._wd_for_path in the MOVED_TO re-key step (recursive watch). *)
  Definition rekey_path (src dst p : bytes) : bytes :=
    if beqb p src then dst
    else if starts (src ++ [sep]) p then rewrite src dst p
    else p.
End Rewrite.

Definition created_step (w : bytes * list bytes * list bytes) : list (kind * bytes) :=
  let '(root, ds, fs) := w in
  map (fun d => (KDir, join root d)) ds ++ map (fun f => (KFile, join root f)) fs.

(* generate_sub_created_events(src) *)
Definition sub_created_events (src : bytes) (t : tree) : list (kind * bytes) :=
  flat_map created_step (walk src t).

(* The descendants of the directory, as relative name lists, in os.walk order. *)
Fixpoint desc (rel : list bytes) (t : tree) : list (kind * list bytes) :=
  match t with
  | Node ds fs =>
    map (fun d => (KDir, rel ++ [fst d])) ds ++
    map (fun f => (KFile, rel ++ [f])) fs ++
    (fix go (l : list (bytes * tree)) : list (kind * list bytes) :=
       match l with
       | [] => []
       | (n, sub) :: l' => desc (rel ++ [n]) sub ++ go l'
       end) ds
  end.

Fixpoint wf_tree (t : tree) : bool :=
  match t with
  | Node ds fs =>
    forallb valid_name fs &&
    (fix go (l : list (bytes * tree)) : bool :=
       match l with
       | [] => true
       | (n, sub) :: l' => valid_name n && wf_tree sub && go l'
       end) ds
  end.
