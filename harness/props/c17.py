"""C17 - DelayedQueue: FIFO, never early, loses or duplicates nothing; close() unblocks.

Correspondence: the real DelayedQueue under the deterministic scheduler + virtual clock (one producer,
one consumer, one remover/closer; gaps drawn around the delay); the scheduler trace is mapped to the
model's labels and replayed through the extracted LTS in lock-step (every label must be enabled; values
returned by get()/remove(), their virtual times and the final queue content must agree).
Oracle: the property text evaluated on the log of the real run.
"""
from __future__ import annotations

from harness import core
from harness.core import Failure, Mismatch, Result, sx

MANIFEST = dict(
    design_ref="DESIGN.md §6 C17",
    text="Coq theorems over EVERY label list of the DelayedQueue LTS (any number of put/remove/close calls interleaved "
         "with the consumer's steps at lock granularity, any clock ticks): FIFO (get results are a sub-sequence of the put "
         "order), never-early, partition puts = got + removed + queued (nothing lost, nothing twice, removed never returned), "
         "close() unblocks / no lost wake-up. The LTS is tied to /repo by replaying real scheduler traces of the real "
         "DelayedQueue through the extracted model in lock-step on every run; the runs also schedule right after every "
         "lock release (what a call does between its critical section and its return can be overtaken), and the times "
         "judged by the oracle and compared with the model are those of the calls' critical sections.",
    note="Trusted: Coq kernel; CPython lock/condition semantics as implemented by the scheduler twins; steps are cut at "
         "lock acquisitions, Condition.wait and sleeps (code between two such points is atomic in model and harness); one "
         "consumer thread; element identities unique. Interpretation (DESIGN.md): after close() elements still queued are "
         "not handed out by get().",
    technique="Coq proof (LTS invariants by induction over runs) + lock-step trace correspondence under a deterministic scheduler",
)
TRUSTED = ["modelled, not verified: threading.Lock/Condition and time.time/sleep (scheduler twins, virtual clock)"]
ASSUMPTIONS = ["one consumer thread; producers/removers/closers unrestricted; element identities unique (distinct objects)"]


def oracle(prog, s, left):
    """Evaluate the property text on the real run. Returns list of (law, detail)."""
    from harness.dqprog import DELAY_UNITS, section_events
    bad = []
    ev = section_events(s)      # same entries, same order (= order in which the calls returned); times = time of the section
    puts = [(e[2], e[3], e[4]) for e in ev if e[1] == "put"]
    put_order = [p[0] for p in puts]
    tput = {p[0]: p[2] for p in puts}
    delayed = {p[0]: p[1] for p in puts}
    got = [(e[2], e[3]) for e in ev if e[1] == "got" and e[2] is not None]
    removed = [e[2] for e in ev if e[1] == "removed" and e[2] is not None]
    gids = [g[0] for g in got]
    # FIFO
    it = iter(put_order)
    if not all(any(x == y for y in it) for x in gids):
        bad.append(("fifo", f"get order {gids} is not a sub-sequence of put order {put_order}"))
    # never early
    for i, t in got:
        if i in tput and delayed[i] and t < tput[i] + DELAY_UNITS:
            bad.append(("never_early", f"delayed element {i} put at {tput[i]} returned at {t} < {tput[i]}+{DELAY_UNITS}"))
    # exactly once
    for name, l in (("got", gids), ("removed", removed)):
        if len(set(l)) != len(l):
            bad.append(("at_most_once", f"element handed out twice by {name}: {l}"))
    both = set(gids) & set(removed)
    if both:
        bad.append(("removed_returned", f"elements {sorted(both)} returned by remove() and by get()"))
    every = sorted(gids + removed + left)
    if every != sorted(put_order):
        bad.append(("lost_or_invented", f"put {sorted(put_order)} but got+removed+left = {every}"))
    # close
    closed_idx = [k for k, e in enumerate(ev) if e[1] == "closed"]
    if closed_idx:
        c = closed_idx[0]
        calls = [k for k, e in enumerate(ev) if e[1] == "get_called" and k > c]
        gots = [k for k, e in enumerate(ev) if e[1] == "got"]
        for k in calls:
            nxt = [g for g in gots if g > k]
            if nxt and ev[nxt[0]][2] is not None:
                bad.append(("close_end_marker", f"get() called after close() returned element {ev[nxt[0]][2]}"))
        if any(n == "cons" for n, _ in s.blocked_after):
            bad.append(("close_unblocks", "consumer still blocked in get() after close() returned"))
    if s.deadlock is not None:
        bad.append(("deadlock", str(s.deadlock)))
    for name, exc in s.uncaught():
        bad.append(("uncaught", f"{name}: {exc!r}"))
    return bad


def one(prog, chooser_desc, res: Result, cases, metas):
    from harness import detsched as ds
    from harness import dqprog
    if chooser_desc[0] == "random":
        ch = ds.RandomChooser(chooser_desc[1], tick_prob=0.1)
    else:
        ch = ds.ReplayChooser(chooser_desc[1])
    s, left = dqprog.run_dq_program(prog, ch)
    record(prog, s, left, res, cases, metas)
    return s


def record(prog, s, left, res: Result, cases, metas):
    from harness import dqprog
    choices = [c for _, c in s.choices]
    meta = {"program": prog, "schedule": choices}
    res.evaluations += 1
    ev = dqprog.section_events(s)
    nrem = sum(1 for e in ev if e[1] == "removed" and e[2] is not None)
    ncl = sum(1 for e in ev if e[1] == "closed")
    ngot = sum(1 for e in ev if e[1] == "got" and e[2] is not None)
    pre = sum(1 for i in range(1, len(choices)) if choices[i] != choices[i - 1])
    res.hist("puts", sum(1 for o in prog["prod"] if o[0] == "put"))
    res.hist("successful_removes", nrem)
    res.hist("closes", ncl)
    res.hist("context_switches", min(pre, 20))
    res.hist("schedule_len", len(choices) // 10 * 10)
    if nrem or ncl or ngot >= 2:
        res.nontrivial.add(core.digest(meta))
    if len(res.samples) < 3:
        res.samples.append({"program": prog, "schedule_prefix": choices[:25],
                            "log": [list(e) for e in ev][:20]})
    for law, detail in oracle(prog, s, left):
        res.failures.append(Failure(what=f"DelayedQueue: {law}: {detail}", case=meta,
                                    signature={"component": "DelayedQueue", "law": law},
                                    observed=[list(e) for e in ev], expected="see property C17"))
    labels = dqprog.dq_labels(prog, s)
    if labels is None:
        res.mismatches.append(Mismatch("DelayQueue LTS (critical sections)", meta,
                                       "one critical section per put/remove/close call",
                                       "more lock acquisitions than calls: the locking structure of the code differs from the model"))
        return
    cases.append(sx([dqprog.DELAY_UNITS, labels]))
    got = [[e[2], e[3]] for e in ev if e[1] == "got" and e[2] is not None]
    ends = sum(1 for e in ev if e[1] == "got" and e[2] is None)
    rem = [e[2] for e in ev if e[1] == "removed" and e[2] is not None]
    metas.append((meta, got, rem, ends, left))


def compare(res: Result, cases, metas):
    outs = core.run_model("delayqueue", cases)
    for o, (meta, got, rem, ends, left) in zip(outs, metas):
        res.traces_validated += 1
        if o[0] != "ok":
            res.mismatches.append(Mismatch("DelayQueue LTS (label not enabled)", meta, str(o)[:400],
                                           {"got": got, "removed": rem}))
            continue
        mg = [[int(a), int(b)] for a, b in o[2]]
        mr = [int(x) for x in o[3]]
        me = int(o[4])
        mq = [int(x) for x in o[5]]
        if mg != got or mr != rem or me != ends or mq != left:
            res.mismatches.append(Mismatch("DelayQueue LTS (observables)", meta,
                                           {"got": mg, "removed": mr, "ends": me, "left": mq},
                                           {"got": got, "removed": rem, "ends": ends, "left": left}))


CORPUS = [
    # remover takes the delayed head while the consumer waits on it; close at the end
    {"prod": [["put", 1, True], ["sleep", 1], ["put", 2, False]],
     "other": [["sleep", 1], ["remove", [1]]], "final_sleep": 12, "close_at_end": True},
    # close while the consumer is blocked on the empty queue
    {"prod": [], "other": [["sleep", 1], ["close"]], "final_sleep": 4, "close_at_end": False},
    # gaps exactly at the delay boundary
    {"prod": [["put", 1, True], ["sleep", 4], ["put", 2, True], ["sleep", 3], ["put", 3, False]],
     "other": [["sleep", 4], ["remove", [2, 3]]], "final_sleep": 12, "close_at_end": False},
]


def run(ctx) -> Result:
    from harness import detsched as ds
    from harness import dqprog
    res = Result()
    res.rule = ("programs: 1 producer (<=4 puts, delayed or not, gaps in {0,1,d-1,d,d+1} units), 1 consumer, 1 remover/closer; "
                "each run under a seeded random schedule with clock ticks (quick) or all schedules with <=2 pre-emptions "
                "(thorough, small programs); distinct = (program, schedule); non-trivial = a remove() succeeded, close() was "
                "called, or >= 2 elements were returned by get()")
    cases, metas = [], []
    rng = ctx.rng("dq")
    for k, prog in enumerate(CORPUS + [c["program"] for c in ctx.corpus() if "program" in c]):
        for seed in range(6):
            one(prog, ("random", 1000 * k + seed), res, cases, metas)
    for c in ctx.corpus():
        if "schedule" in c:
            one(c["program"], ("replay", c["schedule"]), res, cases, metas)
    # the hand-written programs: every schedule with at most one pre-emption (two in the thorough tier), including the
    # pre-emption right after a lock release (e.g. between close()'s wake-up and its return)
    nexp = 0
    for prog in CORPUS:
        seen = []

        def once_c(ch, prog=prog, seen=seen):
            s, left = dqprog.run_dq_program(prog, ch)
            seen.append((s, left))
            return s
        for s in ds.explore(once_c, preemption_bound=2 if ctx.thorough else 1, max_runs=600 if ctx.thorough else 80):
            pass
        nexp += len(seen)
        for s, left in seen:
            record(prog, s, left, res, cases, metas)
    res.notes.append(f"hand-written programs: {nexp} schedules with <= {2 if ctx.thorough else 1} pre-emption(s) enumerated")
    n = 500 if not ctx.thorough else 4000
    for k in range(n):
        prog = dqprog.gen_dq_program(rng)
        one(prog, ("random", ctx.seed * 100003 + k), res, cases, metas)
    if ctx.thorough:
        small = ctx.rng("small")
        total = 0
        for k in range(25):
            prog = dqprog.gen_dq_program(small, max_puts=2)
            seen = []

            def once(ch, prog=prog, seen=seen):
                s, left = dqprog.run_dq_program(prog, ch)
                seen.append((s, left))
                return s
            for s in ds.explore(once, preemption_bound=2, max_runs=400):
                pass
            total += len(seen)
            for s, left in seen:
                record(prog, s, left, res, cases, metas)
        res.notes.append(f"thorough: all schedules with <= 2 pre-emptions (max 400 per program) of 25 small programs: {total} runs")
    compare(res, cases, metas)
    return res


def replay(ctx, obj) -> int:
    from harness import detsched as ds
    from harness import dqprog
    case = obj.get("case", obj)
    res = Result()
    cases, metas = [], []
    s = one(case["program"], ("replay", case["schedule"]), res, cases, metas)
    compare(res, cases, metas)
    print("program:", case["program"])
    print("log:", s.events)
    for f in res.failures:
        print("FAIL:", f.what)
    for m in res.mismatches:
        print("MISMATCH:", m.pair, "model", m.model, "impl", m.impl)
    return 1 if res.failures or res.mismatches else 0
