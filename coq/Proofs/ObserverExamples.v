(* Concrete runs of the observer LTS used as non-vacuity witnesses. *)
Require Import WD.Base.Prelude WD.Model.Observer.

Definition A0 := TA 0%N.
(* schedule(h1, w2); start(); the emitter puts event 7; it is dispatched to h1 *)
Definition tr_deliver : list label :=
  [LCall 0%N (CSchedule 1%N 2%N); LStep A0; LStep A0; LStep A0;
   LCall 0%N CStart; LStep A0; LOrd A0 [0%nat]; LStep A0; LStep A0; LStep A0; LStep A0; LStep A0; LStep A0;
   LECheck 0%nat; LEPut 0%nat 7%N; LStep TD; LStep TD; LStep TD; LTurn 1%N []; LStep TD; LStep TD].
(* ... event 8 is dispatched and h1's callback calls stop() twice *)
Definition tr_stop_in_callback : list label :=
  tr_deliver ++ [LStep TD; LECheck 0%nat; LEPut 0%nat 8%N; LStep TD; LStep TD; LTurn 1%N [CStop; CStop]].
(* ... both stops run on the dispatcher thread (re-entrant lock, join of the emitter), the dispatcher exits *)
Definition tr_shutdown : list label :=
  tr_stop_in_callback ++
  [LStep TD; LStep TD; LStep TD; LOrd TD [0%nat]; LStep TD; LECheck 0%nat; LEExit 0%nat; LStep TD; LStep TD; LStep TD; LStep TD; LStep TD;
   LStep TD; LStep TD; LStep TD; LOrd TD []; LStep TD; LStep TD; LStep TD; LStep TD; LStep TD; LStep TD; LStep TD].
(* remove_handler_for_watch(h1, w2) from an API thread after the first delivery; event 8 is then dispatched to nobody *)
Definition tr_remove : list label :=
  tr_deliver ++ [LCall 0%N (CRemove 1%N 2%N); LStep A0; LStep A0; LStep A0;
                 LStep TD; LECheck 0%nat; LEPut 0%nat 8%N; LStep TD; LStep TD; LStep TD; LStep TD].

(* The PINNED start() (no lock, init_of false): a second start() removes the running emitter from the set
   while stop() iterates over it; stop() raises "Set changed size during iteration" before it puts the stop
   marker; the dispatcher waits in get() forever and observer.join() never returns. *)
Definition A1 := TA 1%N.
Definition tr_pinned_deadlock : list label :=
  [LCall 0%N (CSchedule 1%N 2%N); LStep A0; LStep A0; LStep A0;
   LCall 0%N CStart; LOrd A0 [0%nat]; LStep A0; LStep A0; LStep A0; LStep A0; LStep A0;
   LStep TD;
   LCall 0%N CStart; LOrd A0 [0%nat];
   LCall 1%N CStop; LStep A1; LStep A1; LOrd A1 [0%nat]; LStep A1;
   LStep A0;
   LECheck 0%nat; LEExit 0%nat;
   LStep A1; LStep A1; LStep A1;
   LStep A0; LStep A0; LStep A0;
   LCall 1%N CJoin].

Lemma pinned_deadlock : exists s, reachable_pinned s /\ deadlocked s = true /\ dstop s = true /\
  cont s A1 = [IJoinDisp; IRet CJoin] /\ dcont s = [DGet] /\ queue s = [] /\
  In (GRet A1 CStop true) (glog s).
Proof.
  destruct (run (init_of false) tr_pinned_deadlock) as [s|] eqn:E; [|vm_compute in E; discriminate].
  exists s. split; [exists tr_pinned_deadlock; exact E|].
  vm_compute in E. inversion E; subst. vm_compute. repeat split; auto 20.
Qed.

(* The emitter's unlocked read of _last_item and its enqueue are separate steps: after the emitter passed its
   flag check (LECheck) the dispatcher may get the identical previous event (which resets _last_item); the
   emitter then cannot skip any more (LESkip disabled) and the identical event is queued again (LEPut). *)
Definition tr_get_between_read_and_put : list label :=
  [LCall 0%N (CSchedule 1%N 2%N); LStep A0; LStep A0; LStep A0;
   LCall 0%N CStart; LStep A0; LOrd A0 [0%nat]; LStep A0; LStep A0; LStep A0; LStep A0; LStep A0; LStep A0;
   LECheck 0%nat; LEPut 0%nat 7%N; LECheck 0%nat; LStep TD; LStep TD].

(* schedule, then unschedule before the observer was started (the emitter thread never ran: join "ok = false"),
   then start(): the removed emitter is not started, it stays ENew and can take no step. *)
Definition tr_unschedule_unstarted : list label :=
  [LCall 0%N (CSchedule 1%N 2%N); LStep A0; LStep A0; LStep A0;
   LCall 0%N (CUnschedule 2%N); LStep A0; LStep A0; LStep A0; LStep A0; LStep A0;
   LCall 0%N CStart; LStep A0; LOrd A0 []; LStep A0; LStep A0; LStep A0].

(* schedule, start, the emitter puts 7; unschedule(w) stops and joins it and returns; the watch is scheduled
   again: a NEW emitter (1) is created and puts 8 after that Return. *)
Definition tr_put_after_unschedule_return : list label :=
  [LCall 0%N (CSchedule 1%N 2%N); LStep A0; LStep A0; LStep A0;
   LCall 0%N CStart; LStep A0; LOrd A0 [0%nat]; LStep A0; LStep A0; LStep A0; LStep A0; LStep A0; LStep A0;
   LECheck 0%nat; LEPut 0%nat 7%N;
   LCall 0%N (CUnschedule 2%N); LStep A0; LStep A0; LECheck 0%nat; LEExit 0%nat; LStep A0; LStep A0; LStep A0;
   LCall 0%N (CSchedule 1%N 2%N); LStep A0; LStep A0; LStep A0; LStep A0; LStep A0;
   LECheck 1%nat; LEPut 1%nat 8%N].
