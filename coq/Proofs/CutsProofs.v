(* How the kernel's event buffer is split between reads (C01's quantifier): the block
     AOp o; ARead n1; ...; ARead nj (any cut of the operation's records, no operation in between); ATick delay; AEmit x m
   delivers what the block with one big read delivers.
   Part B (this half): the buffer.  A rename whose IN_MOVED_FROM was put into the delay queue by an earlier read of the
   block is still paired: _group_events removes the held-back FROM from the queue and the pair is put. *)
Require Import WD.Base.Prelude WD.Base.BStr WD.Model.SubEvents WD.Model.Emitter WD.Model.Fs WD.Model.Reader
               WD.Model.DelayQueue WD.Model.Grouping WD.Model.Pipeline WD.Model.Contract.
Require Import WD.Proofs.GroupingProofs WD.Proofs.ContractProofs WD.Proofs.TieProofs WD.Proofs.TieStrongProofs.
Local Open Scope N_scope.

(* ================================================================== B1. grouping against a non-empty delay queue *)
Definition nofrom (c : N) (l : list Grouping.item) : Prop := forall it, In it l -> is_from c it = false.

(* the first queued item that satisfies matching_from_event, and the queue without it *)
Fixpoint qfind (c : N) (K : list Grouping.item) : option (nev * list Grouping.item) :=
  match K with
  | [] => None
  | it :: K' =>
    if is_from c it then match it with ISingle f => Some (f, K') | IPair _ _ => None end
    else match qfind c K' with Some (f, K'') => Some (f, it :: K'') | None => None end
  end.

(* _group_events on one batch, K = the items in the delay queue *)
Fixpoint ggoq (b : list nev) (g K : list Grouping.item) : list Grouping.item * list Grouping.item :=
  match b with
  | [] => (g, K)
  | e :: rest =>
    match n_kind e with
    | KTo c => match pair_in_grouped c e g with
               | Some g' => ggoq rest g' K
               | None => match qfind c K with
                         | Some (f, K') => ggoq rest (g ++ [IPair f e]) K'
                         | None => ggoq rest (g ++ [ISingle e]) K
                         end
               end
    | _ => ggoq rest (g ++ [ISingle e]) K
    end
  end.

Lemma memN_In x l : memN x l = true <-> In x l.
Proof.
  induction l as [|y l IH]; simpl; [split; [discriminate | contradiction]|].
  rewrite orb_true_iff, N.eqb_eq, IH. split; intros [H|H]; auto.
Qed.

Lemma sat_from_mem its c qd en it : In en qd -> item_of its (e_id en) = Some it ->
  memN (e_id en) (sat_from its c qd) = is_from c it.
Proof.
  intros Hin Hit. unfold sat_from. destruct (is_from c it) eqn:E.
  - apply memN_In. apply in_map. apply filter_In. split; [exact Hin|]. rewrite Hit. exact E.
  - destruct (memN _ _) eqn:M; [|reflexivity]. apply memN_In in M. apply in_map_iff in M as (e' & Eid & He').
    apply filter_In in He' as [_ He']. rewrite Eid, Hit, E in He'. discriminate.
Qed.

Lemma rf_qfind its c S : forall qd K,
  Forall2 (fun en it => item_of its (e_id en) = Some it) qd K ->
  (forall en it, In en qd -> item_of its (e_id en) = Some it -> memN (e_id en) S = is_from c it) ->
  match qfind c K with
  | Some (f, K') => exists en q', remove_first S qd = (Some en, q') /\ item_of its (e_id en) = Some (ISingle f) /\
                                   Forall2 (fun en it => item_of its (e_id en) = Some it) q' K' /\
                                   (forall x, In x q' -> In x qd)
  | None => fst (remove_first S qd) = None
  end.
Proof.
  induction 1 as [|en it qd K Hit HF IH]; intros HS; cbn [qfind remove_first]; [reflexivity|].
  rewrite (HS en it (or_introl eq_refl) Hit). destruct (is_from c it) eqn:E.
  - destruct it as [f|a b]; [|cbn in E; discriminate]. exists en, qd. repeat split; auto. intros x Hx. now right.
  - assert (IH' := IH (fun e i Hin => HS e i (or_intror Hin))). destruct (qfind c K) as [[f K']|].
    + destruct IH' as (en' & q' & Hr & Hi & HF' & Hsub). exists en', (en :: q'). rewrite Hr. repeat split; auto.
      intros x [<-|Hx]; [now left | right; now apply Hsub].
    + destruct (remove_first S qd) as [o l']. cbn in IH'. now subst o.
Qed.

Section RunQ.
  Variable delay : N.

  Lemma run_group_q b : forall f d g ds n its nr K, QInv d its n K ->
    exists d', reader_run delay (length b + f) (d, mkrst b g ds n its nr)
               = reader_run delay f (d', mkrst [] (fst (ggoq b g K)) ds n its nr) /\
               QInv d' its n (snd (ggoq b g K)) /\ clock d' = clock d.
  Proof.
    induction b as [|e b IH]; intros f d g ds n its nr K HI; [exists d; auto|].
    cbn [length plus reader_run snd batch grouped mkrst]. cbn [gstep mkrst batch grouped ggoq].
    destruct (n_kind e) eqn:Ek; cbn [items deleted_self next_el nread]; try (apply IH; exact HI).
    destruct (pair_in_grouped cookie e g) as [g'|]; [apply IH; exact HI|].
    assert (HR := rf_qfind its cookie (sat_from its cookie (q d)) (q d) K (qi_items _ _ _ _ HI)
                           (fun en it Hin Hit => sat_from_mem its cookie (q d) en it Hin Hit)).
    change (items (mkrst (e :: b) g ds n its nr)) with its. cbn [deleted_self next_el nread mkrst].
    destruct (qfind cookie K) as [[fr K']|].
    - destruct HR as (en & q' & Hr & Hi & HF' & Hsub). rewrite Hr. cbn [step]. rewrite Hr, Hi.
      set (d0 := {| q := q'; closed := closed d; cl := cl d; clock := clock d; pc := pc d; puts := puts d; got := got d;
                    ends := ends d; removed := removed d ++ [e_id en] |}).
      assert (HI0 : QInv d0 its n K').
      { destruct HI as [H1 H2 H3 H4 H5]. constructor; cbn [d0 q clock pc closed]; auto. }
      destruct (IH f d0 (g ++ [IPair fr e]) ds n its nr K' HI0) as (d' & A1 & A2 & A3).
      exists d'. split; [exact A1 | split; [exact A2 | exact A3]].
    - destruct (remove_first (sat_from its cookie (q d)) (q d)) as [o l']. cbn in HR. subst o. apply IH. exact HI.
  Qed.
End RunQ.

(* ================================================================== B2. a cut read against one big read, on items *)
Lemma ggo_app b1 : forall b2 g, ggo (b1 ++ b2) g = ggo b2 (ggo b1 g).
Proof.
  induction b1 as [|e b1 IH]; intros b2 g; cbn [app ggo]; [reflexivity|].
  destruct (n_kind e); try apply IH. destruct (pair_in_grouped cookie e g); apply IH.
Qed.

Lemma is_from_kind c e : is_from c (ISingle e) = true <-> n_kind e = KFrom c.
Proof.
  destruct e as [i kd]. cbn. destruct kd; try (split; discriminate). rewrite N.eqb_eq. split; congruence.
Qed.

Lemma is_from_kept c it : is_from c it = true -> kept it = true.
Proof.
  destruct it as [e|a b]; [|reflexivity]. intros H. apply is_from_kind in H. cbn. unfold Grouping.is_ignored. now rewrite H.
Qed.

Lemma nofrom_app c a b : nofrom c (a ++ b) <-> nofrom c a /\ nofrom c b.
Proof.
  unfold nofrom. split.
  - intros H. split; intros it Hin; apply H; apply in_app_iff; auto.
  - intros [Ha Hb] it Hin. apply in_app_iff in Hin as [Hin|Hin]; auto.
Qed.

Lemma nofrom_kept c G : nofrom c (filter kept G) <-> nofrom c G.
Proof.
  unfold nofrom. split; intros H it Hin.
  - destruct (is_from c it) eqn:E; [|reflexivity]. rewrite <- E. apply H. apply filter_In. split; [exact Hin|].
    now apply (is_from_kept c).
  - apply filter_In in Hin as [Hin _]. now apply H.
Qed.

Lemma pig_app_nofrom c e GK : nofrom c GK -> forall g,
  pair_in_grouped c e (GK ++ g) = option_map (app GK) (pair_in_grouped c e g).
Proof.
  induction GK as [|it GK IH]; intros H g; cbn [app pair_in_grouped].
  - destruct (pair_in_grouped c e g); reflexivity.
  - rewrite (H it (or_introl eq_refl)). rewrite IH by (intros x Hx; apply H; now right).
    destruct (pair_in_grouped c e g); reflexivity.
Qed.

Lemma pig_nofrom c' c e : forall g g', nofrom c' g -> pair_in_grouped c e g = Some g' -> nofrom c' g'.
Proof.
  induction g as [|it g IH]; intros g' H Hp; cbn [pair_in_grouped] in Hp; [discriminate|].
  destruct (is_from c it).
  - destruct it as [f|]; [|discriminate]. injection Hp as <-. intros x [<-|Hx]; [reflexivity | apply H; now right].
  - destruct (pair_in_grouped c e g) as [g''|]; [|discriminate]. injection Hp as <-.
    intros x [<-|Hx]; [apply H; now left|]. apply (IH g''); [intros y Hy; apply H; now right | reflexivity | exact Hx].
Qed.

Lemma ggo_frame b : forall GK g, (forall e c, In e b -> n_kind e = KTo c -> nofrom c GK) -> ggo b (GK ++ g) = GK ++ ggo b g.
Proof.
  induction b as [|e b IH]; intros GK g H; cbn [ggo]; [reflexivity|].
  assert (H' : forall e0 c, In e0 b -> n_kind e0 = KTo c -> nofrom c GK) by (intros; eapply H; [right|]; eassumption).
  destruct (n_kind e) eqn:Ek; try (rewrite <- app_assoc; now apply IH).
  rewrite (pig_app_nofrom cookie e GK (H e cookie (or_introl eq_refl) Ek)).
  destruct (pair_in_grouped cookie e g); cbn [option_map]; [now apply IH | rewrite <- app_assoc; now apply IH].
Qed.

Lemma ggo_from c B : forall g, (forall f, In f B -> n_kind f <> KFrom c) -> nofrom c g -> nofrom c (ggo B g).
Proof.
  induction B as [|e B IH]; intros g HB Hg; cbn [ggo]; [exact Hg|].
  assert (HB' : forall f, In f B -> n_kind f <> KFrom c) by (intros; apply HB; now right).
  assert (Hs : nofrom c (g ++ [ISingle e])).
  { apply nofrom_app. split; [exact Hg|]. intros x [<-|[]]. destruct (is_from c (ISingle e)) eqn:E; [|reflexivity].
    apply is_from_kind in E. exfalso. exact (HB e (or_introl eq_refl) E). }
  destruct (n_kind e) eqn:Ek; try (now apply IH).
  destruct (pair_in_grouped cookie e g) as [g'|] eqn:Ep; [|now apply IH].
  apply IH; [exact HB'|]. exact (pig_nofrom c cookie e g g' Hg Ep).
Qed.

Lemma qfind_nofrom c K : nofrom c K -> qfind c K = None.
Proof.
  induction K as [|it K IH]; intros H; cbn [qfind]; [reflexivity|].
  rewrite (H it (or_introl eq_refl)). rewrite IH by (intros x Hx; apply H; now right). reflexivity.
Qed.

Lemma qfind_last c K f : nofrom c K -> n_kind f = KFrom c -> qfind c (K ++ [ISingle f]) = Some (f, K).
Proof.
  induction K as [|it K IH]; intros H Hf; cbn [app qfind].
  - now rewrite (proj2 (is_from_kind c f) Hf).
  - rewrite (H it (or_introl eq_refl)). rewrite IH; [reflexivity | intros x Hx; apply H; now right | exact Hf].
Qed.

Lemma ggoq_nocross b : forall g K, (forall e c, In e b -> n_kind e = KTo c -> nofrom c K) -> ggoq b g K = (ggo b g, K).
Proof.
  induction b as [|e b IH]; intros g K H; cbn [ggoq ggo]; [reflexivity|].
  assert (H' : forall e0 c, In e0 b -> n_kind e0 = KTo c -> nofrom c K) by (intros; eapply H; [right|]; eassumption).
  destruct (n_kind e) eqn:Ek; try (now apply IH).
  destruct (pair_in_grouped cookie e g); [now apply IH|].
  rewrite (qfind_nofrom cookie K (H e cookie (or_introl eq_refl) Ek)). now apply IH.
Qed.

(* B = the native events of the earlier reads of the block, b = those of this read: a TO in b has its FROM in B only if
   the cut fell exactly between the two *)
Definition cutok (B b : list nev) : Prop :=
  forall b1 t b2 c, b = b1 ++ t :: b2 -> n_kind t = KTo c ->
    (forall f, In f B -> n_kind f <> KFrom c) \/
    (b1 = [] /\ exists X f, B = X ++ [f] /\ n_kind f = KFrom c /\ forall f', In f' X -> n_kind f' <> KFrom c).

Lemma filter_kept_app a b : filter kept (a ++ b) = filter kept a ++ filter kept b.
Proof. apply filter_app. Qed.

Theorem cut_group B b : cutok B b ->
  snd (ggoq b [] (filter kept (ggo B []))) ++ filter kept (fst (ggoq b [] (filter kept (ggo B []))))
  = filter kept (ggo (B ++ b) []).
Proof.
  intros Hc.
  assert (Hin : forall e c, In e b -> n_kind e = KTo c ->
                 (forall f, In f B -> n_kind f <> KFrom c) \/
                 (exists b', b = e :: b' /\ exists X f, B = X ++ [f] /\ n_kind f = KFrom c /\ forall f', In f' X -> n_kind f' <> KFrom c)).
  { intros e c He Hk. apply in_split in He as (b1 & b2 & ->). destruct (Hc b1 e b2 c eq_refl Hk) as [H|[-> H]]; [now left|].
    right. exists b2. split; [reflexivity | exact H]. }
  assert (NoX : (forall e c, In e b -> n_kind e = KTo c -> forall f, In f B -> n_kind f <> KFrom c) ->
                snd (ggoq b [] (filter kept (ggo B []))) ++ filter kept (fst (ggoq b [] (filter kept (ggo B []))))
                = filter kept (ggo (B ++ b) [])).
  { intros H. rewrite ggoq_nocross.
    - cbn [fst snd]. rewrite ggo_app. rewrite <- (app_nil_r (ggo B [])) at 2. rewrite ggo_frame, filter_kept_app; [reflexivity|].
      intros e c He Hk. apply ggo_from; [now apply (H e c) | intros x []].
    - intros e c He Hk. apply nofrom_kept. apply ggo_from; [now apply (H e c) | intros x []]. }
  destruct b as [|t b']; [apply NoX; intros e c []|].
  destruct (n_kind t) eqn:Ekt; try (apply NoX; intros e c He Hk; destruct (Hin e c He Hk) as [H|(b'' & E & _)]; [exact H|];
                                     injection E as <- _; congruence).
  destruct (Hin t cookie (or_introl eq_refl) Ekt) as [H0|(_ & _ & X & f & -> & Hf & HX)].
  { apply NoX. intros e c He Hk. destruct (Hin e c He Hk) as [H|(b'' & E & _)]; [exact H|]. injection E as <- _.
    assert (c = cookie) by congruence. subst c. exact H0. }
  (* the cut fell between FROM and TO *)
  assert (Hrest : forall e c, In e b' -> n_kind e = KTo c -> forall f0, In f0 (X ++ [f]) -> n_kind f0 <> KFrom c).
  { intros e c He Hk. apply in_split in He as (b1 & b2 & ->).
    destruct (Hc (t :: b1) e b2 c eq_refl Hk) as [H|[E _]]; [exact H | discriminate]. }
  assert (GB : ggo (X ++ [f]) [] = ggo X [] ++ [ISingle f]) by (rewrite ggo_app; cbn [ggo]; now rewrite Hf).
  assert (NX : nofrom cookie (ggo X [])) by (apply ggo_from; [exact HX | intros x []]).
  assert (Kf : kept (ISingle f) = true) by (apply (is_from_kept cookie), is_from_kind; exact Hf).
  rewrite GB, filter_kept_app. cbn [filter]. rewrite Kf. cbn [ggoq pair_in_grouped]. rewrite Ekt.
  rewrite (qfind_last cookie _ f (proj2 (nofrom_kept cookie _) NX) Hf). cbn [app].
  assert (NR : forall e c, In e b' -> n_kind e = KTo c -> nofrom c (ggo X [])).
  { intros e c He Hk. apply ggo_from; [|intros x []]. intros f0 Hf0. apply (Hrest e c He Hk). apply in_app_iff. now left. }
  rewrite ggoq_nocross by (intros e c He Hk; apply nofrom_kept; now apply (NR e c)).
  cbn [fst snd]. rewrite ggo_app. cbn [ggo]. rewrite Ekt, GB.
  rewrite (pig_app_nofrom cookie t (ggo X []) NX). cbn [pair_in_grouped]. rewrite (proj2 (is_from_kind cookie f) Hf).
  cbn [option_map]. rewrite ggo_frame by exact NR. now rewrite filter_kept_app.
Qed.

(* ================================================================== B3. one read of the block, the queue holding the earlier ones *)
Lemma pig_length c e : forall g g', pair_in_grouped c e g = Some g' -> length g' = length g.
Proof.
  induction g as [|it g IH]; intros g' H; cbn [pair_in_grouped] in H; [discriminate|].
  destruct (is_from c it).
  - destruct it; [|discriminate]. now injection H as <-.
  - destruct (pair_in_grouped c e g) as [g''|]; [|discriminate]. injection H as <-. cbn. f_equal. now apply IH.
Qed.

Lemma ggoq_length b : forall g K, (length (fst (ggoq b g K)) <= length g + length b)%nat.
Proof.
  induction b as [|e b IH]; intros g K; cbn [ggoq length]; [cbn; lia|].
  assert (S1 : forall x K0, (length (fst (ggoq b (g ++ [x]) K0)) <= length g + S (length b))%nat).
  { intros x K0. specialize (IH (g ++ [x]) K0). rewrite app_length in IH. cbn in IH. lia. }
  destruct (n_kind e); try apply S1.
  destruct (pair_in_grouped cookie e g) as [g'|] eqn:Ep.
  - specialize (IH g' K). rewrite (pig_length _ _ _ _ Ep) in IH. lia.
  - destruct (qfind cookie K) as [[f K']|]; apply S1.
Qed.

Lemma ggoq_safe b : forall g K, Forall safe_nev b -> Forall safe_item g -> Forall safe_item (fst (ggoq b g K)).
Proof.
  induction b as [|e b IH]; intros g K Hb Hg; cbn [ggoq]; [exact Hg|]. inversion Hb as [|? ? He Hb']; subst.
  assert (S1 : forall K0, Forall safe_item (fst (ggoq b (g ++ [ISingle e]) K0))).
  { intros K0. apply IH; [exact Hb'|]. apply Forall_app. split; [exact Hg | constructor; [exact He | constructor]]. }
  destruct (n_kind e); try apply S1.
  destruct (pair_in_grouped cookie e g) as [g'|] eqn:Ep.
  - apply IH; [exact Hb' | exact (pair_in_grouped_safe _ _ _ _ Hg Ep)].
  - destruct (qfind cookie K) as [[f K']|]; [|apply S1].
    apply IH; [exact Hb'|]. apply Forall_app. split; [exact Hg | constructor; [exact I | constructor]].
Qed.

Lemma reader_run_cut delay B b d n its nr : QInv d its n (filter kept (ggo B [])) -> Forall safe_nev b -> cutok B b ->
  exists d' n' its',
    reader_run delay (2 * length b + 2) (d, mkrst b [] false n its nr) = (d', mkrst [] [] false n' its' nr) /\
    QInv d' its' n' (filter kept (ggo (B ++ b) [])) /\ clock d' = clock d.
Proof.
  intros HI Hb Hc. set (K := filter kept (ggo B [])) in *.
  assert (Hl := ggoq_length b [] K). cbn [length plus] in Hl.
  replace (2 * length b + 2)%nat
    with (length b + (length (fst (ggoq b [] K)) + (2 * length b + 2 - length b - length (fst (ggoq b [] K)))))%nat by lia.
  destruct (run_group_q delay b (length (fst (ggoq b [] K)) + (2 * length b + 2 - length b - length (fst (ggoq b [] K))))
                        d [] false n its nr K HI) as (d1 & E1 & I1 & C1).
  rewrite E1.
  destruct (run_put_ds delay (fst (ggoq b [] K)) (2 * length b + 2 - length b - length (fst (ggoq b [] K))) d1 false n its nr
                       (snd (ggoq b [] K)) I1) as (d' & n' & its' & E2 & I2 & C2);
    [apply ggoq_safe; [exact Hb | constructor]|].
  exists d', n', its'. rewrite E2, run_done. split; [reflexivity|]. split; [|congruence].
  unfold K in I2. now rewrite (cut_group B b Hc) in I2.
Qed.

(* ================================================================== C. the pipeline: several reads, one tick, the emitter *)
(* the reader's kernel after read_events took the first n records *)
Definition kcut (k : kst) (n : nat) : kst :=
  {| k_watches := k_watches k; k_next_wd := k_next_wd k; k_queue := skipn n (k_queue k); k_next_cookie := k_next_cookie k |}.

(* the reader over a cut of the kernel queue: one read_batch per read, each starting with an empty event list *)
Fixpoint rcut (C : cfg) (t : fs) (r : rstate) (k : kst) (cuts : list nat) : outcome (rstate * kst * list (list raw)) :=
  match cuts with
  | [] => Done (r, k, [])
  | n :: cs =>
    match read_batch C t (r, kcut k n, []) (firstn n (k_queue k)) with
    | Crash s => Crash s
    | Done (r1, k1, evs) =>
      match rcut C t r1 k1 cs with
      | Done (r', k', Rs) => Done (r', k', evs :: Rs)
      | Crash s => Crash s
      end
    end
  end.

(* the condition of cut_group on the reader's events: R = the events of the earlier reads, b = those of this read *)
Definition rcutok (C : cfg) (R b : list raw) : Prop :=
  forall b1 t b2 c, b = b1 ++ t :: b2 -> nkind_of C t = KTo c ->
    (forall f, In f R -> nkind_of C f <> KFrom c) \/
    (b1 = [] /\ exists X f, R = X ++ [f] /\ nkind_of C f = KFrom c /\ forall f', In f' X -> nkind_of C f' <> KFrom c).

Fixpoint cuts_ok (C : cfg) (R : list raw) (Rs : list (list raw)) : Prop :=
  match Rs with
  | [] => True
  | b :: Rs' => rcutok C R b /\ cuts_ok C (R ++ b) Rs'
  end.

Lemma Forall2_in_l {A B} (P : A -> B -> Prop) l1 l2 a : Forall2 P l1 l2 -> In a l1 -> exists b, In b l2 /\ P a b.
Proof.
  induction 1 as [|x y l1 l2 Hxy HF IH]; intros Hin; [contradiction|].
  destruct Hin as [<-|Hin]; [exists y; split; [now left | exact Hxy]|].
  destruct (IH Hin) as (b & Hb & Hp). exists b. split; [now right | exact Hp].
Qed.

Lemma rcutok_cutok C tbl B R b rb : Forall2 (rel1 C tbl) B R -> Forall2 (rel1 C tbl) b rb -> rcutok C R rb -> cutok B b.
Proof.
  intros HB Hb Hc b1 t b2 c -> Hk.
  apply Forall2_app_inv_l in Hb as (rb1 & rb2' & H1 & H2 & ->). inversion H2 as [|? rt ? rb2 Ht H2' E1]; subst.
  assert (Hkt : nkind_of C rt = KTo c) by (destruct Ht as [_ Ht]; congruence).
  destruct (Hc rb1 rt rb2 c eq_refl Hkt) as [H|[-> (X & f & -> & Hf & HX)]].
  - left. intros f Hf Ef. destruct (Forall2_in_l _ _ _ _ HB Hf) as (rf & Hrf & [_ Hkf]). apply (H rf Hrf). congruence.
  - right. inversion H1; subst. split; [reflexivity|].
    apply Forall2_app_inv_r in HB as (BX & Bf & HX' & Hf' & ->). inversion Hf' as [|ef ? ? ? Hef Hnil]; subst. inversion Hnil; subst.
    exists BX, ef. split; [reflexivity|]. split; [destruct Hef as [_ Hef]; congruence|].
    intros f' Hf'' E. destruct (Forall2_in_l _ _ _ _ HX' Hf'') as (rf & Hrf & [_ Hkf]). apply (HX rf Hrf). congruence.
Qed.

Lemma alookup_app_old {V} (A B : list (N * V)) k v : alookup N.eqb k A = Some v -> alookup N.eqb k (A ++ B) = Some v.
Proof.
  induction A as [|[k' v'] A IH]; simpl; [discriminate|]. destruct (N.eqb k k'); [auto | apply IH].
Qed.

Lemma rel1_ext C tbl tbl' e r : rel1 C tbl e r -> rel1 C (tbl ++ tbl') e r.
Proof. intros [H1 H2]. split; [|exact H2]. unfold raw_of in *. now apply alookup_app_old. Qed.

Lemma cprun_app P h1 h2 : forall s acc, prun P s (h1 ++ h2) acc =
  match prun P s h1 acc with Done (s1, acc1) => prun P s1 h2 acc1 | Crash c => Crash c end.
Proof.
  induction h1 as [|a h1 IH]; intros s acc; cbn [app prun]; [reflexivity|].
  destruct (pstep P s a) as [[s1 ob]|c]; [apply IH | reflexivity].
Qed.

Section Cuts.
  Variable P : pcfg.
  Hypothesis HF : pc_filter P = None.
  Let C := pc_reader P.

  (* between the reads of a block: the queue holds the kept items of everything read so far, nothing has been emitted *)
  Record BInv (s : pstate) (clk : N) (B : list nev) (R : list raw) : Prop := {
    bi_buf : exists d n its nr, p_buf s = (d, mkrst [] [] false n its nr) /\ QInv d its n (filter kept (ggo B [])) /\ clock d = clk;
    bi_rel : Forall2 (rel1 C (p_tbl s)) B R;
    bi_tbl : forall id, In id (map fst (p_tbl s)) -> id < p_next s;
    bi_stop : p_stopped s = false
  }.

  Lemma read_cut_step s clk B R n r1 k1 evs :
    BInv s clk B R ->
    read_batch C (w_fs (p_world s)) (p_r s, kcut (p_k s) n, []) (firstn n (k_queue (p_k s))) = Done (r1, k1, evs) ->
    Forall (root_safe C) evs -> rcutok C R evs ->
    exists s1 nevs, pstep P s (ARead n) = Done (s1, ORaw (firstn n (k_queue (p_k s)))) /\
      BInv s1 clk (B ++ nevs) (R ++ evs) /\ p_world s1 = p_world s /\ p_k s1 = k1 /\ p_r s1 = r1 /\ p_out s1 = p_out s.
  Proof.
    intros [(d & n0 & its & nr & Hb & HI & Hclk) Hrel Htbl Hstop] Hrd Hsafe Hcut.
    unfold pstep. rewrite Hb. cbn [snd deleted_self mkrst]. fold C. fold (kcut (p_k s) n). rewrite Hrd.
    destruct (number C (p_next s) evs) as [nevs tbl] eqn:Hnum.
    destruct (number_spec _ _ _ _ _ Hnum) as [Hn1 [Hn2 [Hn3 Hn4]]].
    assert (Hrel2 := Hn4 (p_tbl s) Htbl).
    assert (Hrel1 : Forall2 (rel1 C (p_tbl s ++ tbl)) B R) by (eapply Forall2_imp; [|exact Hrel]; intros; now apply rel1_ext).
    assert (Hsn : Forall safe_nev nevs).
    { clear -Hrel2 Hsafe. induction Hrel2 as [|e r b raws' Hr Hf IH]; [constructor|]. inversion Hsafe; subst.
      constructor; [eapply root_safe_nev; eassumption | auto]. }
    assert (Hck : cutok B nevs) by (eapply rcutok_cutok; eassumption).
    cbn [gstep batch grouped deleted_self mkrst next_el items nread].
    destruct (reader_run_cut (pc_delay P) B nevs d n0 its (nr ++ nevs) HI Hsn Hck) as (d' & n' & its' & Hrun & HI' & Hclk').
    change (reader_run (pc_delay P) (2 * length nevs + 2) (d, mkrst nevs [] false n0 its (nr ++ nevs))) with
           (reader_run (pc_delay P) (2 * length nevs + 2)
              (d, {| batch := nevs; grouped := []; deleted_self := false; next_el := n0; items := its; nread := nr ++ nevs |})) in Hrun.
    rewrite Hrun. eexists _, nevs. split; [reflexivity|]. cbn [p_world p_k p_r p_out]. split; [|auto].
    constructor; cbn [p_buf p_tbl p_next p_stopped].
    - exists d', n', its', (nr ++ nevs). split; [reflexivity|]. split; [exact HI' | congruence].
    - apply Forall2_app; assumption.
    - intros id Hid. rewrite map_app in Hid. apply in_app_iff in Hid as [Hid|Hid].
      + apply Htbl in Hid. lia.
      + now apply (number_bound _ _ _ _ _ Hnum).
    - exact Hstop.
  Qed.

  Lemma reads_loop : forall cuts s clk B R acc r' k' Rs,
    BInv s clk B R -> rcut C (w_fs (p_world s)) (p_r s) (p_k s) cuts = Done (r', k', Rs) ->
    Forall (root_safe C) (concat Rs) -> cuts_ok C R Rs ->
    exists s' obs B', prun P s (map ARead cuts) acc = Done (s', obs) /\ BInv s' clk B' (R ++ concat Rs) /\
      p_world s' = p_world s /\ p_k s' = k' /\ p_r s' = r' /\ p_out s' = p_out s.
  Proof.
    induction cuts as [|n cuts IH]; intros s clk B R acc r' k' Rs HB Hrc Hsafe Hok; cbn [rcut map prun] in *.
    - injection Hrc as <- <- <-. exists s, acc, B. cbn [concat]. rewrite app_nil_r. split; [reflexivity|]. split; [exact HB|]. repeat split.
    - destruct (read_batch C (w_fs (p_world s)) (p_r s, kcut (p_k s) n, []) (firstn n (k_queue (p_k s)))) as [[[r1 k1] evs]|] eqn:Hrd;
        [|discriminate].
      destruct (rcut C (w_fs (p_world s)) r1 k1 cuts) as [[[r2 k2] Rs']|] eqn:Hrc'; [|discriminate].
      injection Hrc as <- <- <-. cbn [concat cuts_ok] in *. apply Forall_app in Hsafe as [Hs1 Hs2]. destruct Hok as [Hok1 Hok2].
      destruct (read_cut_step s clk B R n r1 k1 evs HB Hrd Hs1 Hok1) as (s1 & nevs & Hst & HB1 & Ew & Ek & Er & Eo).
      rewrite Hst. rewrite <- Ew, <- Ek, <- Er in Hrc'.
      destruct (IH s1 clk (B ++ nevs) (R ++ evs) (acc ++ [ORaw (firstn n (k_queue (p_k s)))]) r2 k2 Rs' HB1 Hrc' Hs2 Hok2)
        as (s' & obs & B' & Hrun & HB' & Ew' & Ek' & Er' & Eo').
      exists s', obs, B'. split; [exact Hrun|]. rewrite <- app_assoc in HB'. split; [exact HB'|]. repeat split; congruence.
  Qed.

  Definition cut_history (o : op) (cuts : list nat) (nit : nat) : list action :=
    AOp o :: map ARead cuts ++ ATick (pc_delay P) :: repeat AEmit nit.

  (* the tie for a block whose records are read in several reads *)
  Theorem tie_strong_cuts s o w' cuts r' k' Rs :
    buffer_idle (p_buf s) -> p_stopped s = false -> (forall id, In id (map fst (p_tbl s)) -> id < p_next s) ->
    apply_op (p_world s) o = Some w' ->
    rcut C (w_fs w') (p_r s) (kernel_op (p_k s) (w_fs (p_world s)) o) cuts = Done (r', k', Rs) ->
    Forall (root_safe C) (concat Rs) -> cuts_ok C [] Rs ->
    exists nit s' obs, prun P s (cut_history o cuts nit) [] = Done (s', obs) /\
      p_out s' = p_out s ++ emit_all (pc_full P) (c_recursive C) (c_root C) (content (w_fs w')) (group_batch C (concat Rs)) /\
      p_world s' = w' /\ p_k s' = k' /\ p_r s' = r' /\
      buffer_idle (p_buf s') /\ p_stopped s' = false /\ (forall id, In id (map fst (p_tbl s')) -> id < p_next s').
  Proof.
    intros Hidle Hstop Hfresh Happ Hrc Hsafe Hok.
    destruct s as [w k r [d rs] tbl0 nx out stopped]. cbn [p_world p_k p_r p_buf p_tbl p_next p_out p_stopped] in *.
    subst stopped. destruct Hidle as [Hq [Hcl [Hpc [Hb [Hg [Hds Hfr]]]]]]. cbn [fst snd] in *.
    destruct rs as [b0 g0 ds0 n0 its0 nr0]. cbn [batch grouped deleted_self items next_el] in *. subst b0 g0 ds0.
    set (k1 := kernel_op k (w_fs w) o) in *.
    set (s0 := {| p_world := w'; p_k := k1; p_r := r; p_buf := (d, mkrst [] [] false n0 its0 nr0);
                  p_tbl := tbl0; p_next := nx; p_out := out; p_stopped := false |}).
    assert (HB0 : BInv s0 (clock d) [] []).
    { constructor; cbn [s0 p_buf p_tbl p_next p_stopped]; [|constructor|exact Hfresh|reflexivity].
      exists d, n0, its0, nr0. split; [reflexivity|]. split; [|reflexivity].
      constructor; [rewrite Hq; constructor | rewrite Hq; intros en [] | exact Hpc | exact Hcl | exact Hfr]. }
    destruct (reads_loop cuts s0 (clock d) [] [] [ONone] r' k' Rs HB0 Hrc Hsafe Hok)
      as (s1 & obs1 & B & Hrun1 & [(d1 & n1 & its1 & nr1 & Hb1 & HI1 & Hclk1) Hrel1 Htbl1 Hstop1] & Ew1 & Ek1 & Er1 & Eo1).
    cbn [app] in Hrel1. set (R := concat Rs) in *. set (K := filter kept (ggo B [])) in *.
    exists (length K). unfold cut_history.
    match goal with |- context [prun P ?sx (AOp o :: _) _] =>
      assert (Hop : pstep P sx (AOp o) = Done (s0, ONone)) by (cbn [pstep p_world]; rewrite Happ; reflexivity);
      rewrite (prun_cons P _ _ _ _ _ _ Hop) end.
    cbn [app]. rewrite (cprun_app P (map ARead cuts)). rewrite Hrun1.
    destruct s1 as [w1 k1' r1 buf1 tbl1 nx1 out1 st1]. cbn [p_world p_k p_r p_buf p_tbl p_next p_out p_stopped s0] in *. subst.
    set (d2 := {| q := q d1; closed := closed d1; cl := cl d1; clock := clock d1 + pc_delay P; pc := pc d1;
                 puts := puts d1; got := got d1; ends := ends d1; removed := removed d1 |}).
    cbn [prun pstep p_buf gstep step].
    destruct HI1 as [H1 H2 H3 H4 H5].
    match goal with |- context [prun P ?s3 (repeat AEmit _) ?acc] =>
      destruct (emit_loop_strong P HF K (group_batch C R) s3 d2 (mkrst [] [] false n1 its1 nr1) acc)
        as (s' & obs & d3 & Hrun' & Hout & A1 & A2 & A3 & A4 & A5 & A6 & A7 & A8 & A9 & A10) end; try reflexivity.
    - exact H3.
    - exact H4.
    - exact H1.
    - intros en Hin. cbn [d2 q clock] in *. apply H2 in Hin. lia.
    - cbn [p_tbl]. unfold K, group_batch. apply Forall2_filter; [apply kept_put|]. apply ggo_rel; [exact Hrel1 | constructor].
    - now apply group_batch_safe.
    - exists s', obs. split; [exact Hrun'|]. cbn [p_out p_world p_k p_r p_tbl p_next] in *.
      split; [exact Hout|]. split; [exact A1|]. split; [exact A2|]. split; [exact A3|]. split; [|split; [exact A6|]].
      + rewrite A7. unfold buffer_idle. cbn [fst snd batch grouped deleted_self items next_el mkrst]. repeat split; try assumption.
      + rewrite A4, A5. exact Htbl1.
  Qed.
End Cuts.
