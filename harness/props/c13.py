"""C13 - the observer's registry stays consistent over any call sequence; failed calls leave no trace.

Implementation side: a real `BaseObserver(emitter_class=ScriptedEmitter)`.  ScriptedEmitter is an
EventEmitter subclass whose constructor / start() raise when the driver armed a fault for the
current call; nothing else of watchdog is replaced.  Observables, public API only: which calls raise,
`observer.emitters` (watch keys), `emitter.is_alive()`, `observer.is_alive()`, and who receives a
marker event queued through every reported emitter (dispatcher thread when the observer runs,
`dispatch_events` called from the test thread otherwise).

Correspondence: the same call sequence (with the set-iteration order start() actually used) through
the extracted model `registry` (impl machine with the repaired statement order, and the `spec` map).
Oracle: a reference map maintained here directly from the property text.
"""
from __future__ import annotations

import os
import threading
import time
import traceback

from harness import core
from harness.core import Atom, Failure, Mismatch, Result, sx

MANIFEST = dict(
    design_ref="DESIGN.md §6 C13",
    text="Coq theorems C13_refines (the registry machine of BaseObserver - schedule/add_handler/remove_handler/unschedule/"
         "unschedule_all/start/stop in the code's statement order, with an emitter-constructor or emitter-start failure "
         "injectable in every call and an arbitrary set-iteration order in start() - refines a simple map watch -> handler "
         "set, with equal per-call results), C13_emitters_exact, C13_share_one_emitter, C13_independent, "
         "C13_failed_schedule_identity, C13_failed_schedule_no_delivery, C13_no_internal_error, C13_second_start_identity; all by induction over "
         "arbitrary call lists (no bound). The model is tied to /repo by running the real BaseObserver with scripted "
         "emitters and the extracted model on the same call sequences on every run, and a reference-map oracle taken from "
         "the property text is evaluated on the real observer.",
    note="Sequential projection: one API thread, every call runs to completion, the harness joins the observer thread "
         "after stop() (C04/C05/C06 treat the interleavings). The model follows the repaired statement order "
         "(fixes/F2-schedule-rollback.diff); the pinned order is kept as C13_pinned_*_refuted. A failed start() "
         "de-schedules the watch whose emitter failed (semantics fixed by tests/test_observer.py::"
         "test_start_failure_should_not_prevent_further_try). Correspondence is sampled / bounded-exhaustive.",
    technique="Coq proof (forward simulation, induction over call lists) + differential correspondence via extracted "
              "OCaml model + reference-map oracle on the real BaseObserver with fault-injecting emitters",
)

TRUSTED = [
    "modelled, not verified: threading.Thread (start() of a started thread raises RuntimeError, is_alive() after "
    "start/join), set/dict/defaultdict semantics of CPython; the iteration order of `self._emitters.copy()` in start() "
    "is an input of the model (taken from the real run), not predicted",
    "ScriptedEmitter (harness) stands for any emitter class: its constructor/start raise on demand, its thread idles",
]
ASSUMPTIONS = [
    "one API thread and quiescence between calls (no event in flight, observer thread joined after stop())",
    "watch identity is ObservedWatch.key = (path, recursive, event_filter); follow_symlink is not part of the key",
    "a failed start() de-schedules the watch of the failing emitter (pinned by the repo's own test); a retry after such "
    "a failure meets the emitters the failed attempt had already started and de-schedules the first of them "
    "(RuntimeError of that emitter thread) - the model and the reference map follow the code here; a start() on an "
    "observer whose own thread was ever started is refused up front and changes nothing (C13_second_start_identity)",
]

PATHS = ["p0", "p1"]
HANDLERS = [1, 2]


# ------------------------------------------------------------------ the implementation under test
class InjectedFailure(OSError):
    pass


class InjectedFailure2(MemoryError):
    """The same injected failures in a flavour that is NOT an OSError (a thread that cannot be started raises
    RuntimeError, an allocation fails with MemoryError): 'a call that raised leaves no trace' does not depend on the class.
    (MemoryError, not RuntimeError: the harness reads RuntimeError as 'already started'.)"""


_FLIP = [0]


def injected(msg):
    _FLIP[0] += 1
    return (InjectedFailure2 if _FLIP[0] % 2 == 0 else InjectedFailure)(msg)


class Script:
    """Fault cell shared between the driver and the emitters of one observer."""

    def __init__(self):
        self.fault = "N"
        self.attempts = 0
        self.start_log = []      # watch keys whose emitter.start() was attempted during the current call
        self.failed_watch = None  # watch key of the emitter whose start() raised during the current call
        self.created = []

    def arm(self, fault):
        self.fault = fault
        self.attempts = 0
        self.start_log = []
        self.failed_watch = None


def wkey(watch):
    """Our JSON-able name of a watch key: [path, recursive, filter id]."""
    f = watch.event_filter
    return (watch.path, bool(watch.is_recursive), 0 if f is None else (2 if len(f) == 0 else 1))


def make_emitter_class(script: Script):
    from watchdog.observers.api import EventEmitter

    class ScriptedEmitter(EventEmitter):
        def __init__(self, event_queue, watch, *, timeout=1.0, event_filter=None):
            if script.fault == "C":
                raise injected("scripted constructor failure")
            super().__init__(event_queue, watch, timeout=timeout, event_filter=event_filter)
            script.created.append(self)

        def start(self):
            k = script.attempts
            script.attempts += 1
            script.start_log.append(wkey(self.watch))
            if isinstance(script.fault, (list, tuple)) and script.fault[0] == "F" and script.fault[1] == k:
                script.failed_watch = wkey(self.watch)
                raise injected("scripted start failure")
            try:
                super().start()
            except RuntimeError:
                script.failed_watch = wkey(self.watch)
                raise

        def queue_events(self, timeout):
            self.stopped_event.wait(timeout)

    return ScriptedEmitter


class Recorder:
    """An event handler: only `dispatch` is called by the observer."""

    def __init__(self, hid):
        self.hid = hid
        self.got = []

    def dispatch(self, event):
        self.got.append(event.src_path)


def classify_keyerror(exc) -> str:
    tb = traceback.extract_tb(exc.__traceback__)
    last = tb[-1]
    line = (last.line or "")
    if last.name == "unschedule" and "_emitter_for_watch[watch]" in line:
        return "KeyWatch"
    if last.name == "remove_handler_for_watch" and ".remove(event_handler)" in line:
        return "KeyHandler"
    return "KeyInternal"


class Impl:
    """One real observer driven call by call."""

    def __init__(self):
        from watchdog.events import FileModifiedEvent
        from watchdog.observers.api import BaseObserver, ObservedWatch

        self.FileModifiedEvent = FileModifiedEvent
        self.ObservedWatch = ObservedWatch
        self.script = Script()
        self.obs = BaseObserver(make_emitter_class(self.script), timeout=0.5)
        self.handlers = {h: Recorder(h) for h in HANDLERS}
        self.thread_started = False
        self.nmark = 0

    def filt(self, f):
        return None if not f else ([] if f == 2 else [self.FileModifiedEvent])      # 2 = the empty filter (a key of its own)

    def watch(self, w):
        return self.ObservedWatch(w[0], recursive=bool(w[1]), event_filter=self.filt(w[2]))

    def call(self, c, fault):
        """Returns (result, ord) - ord = the order start() visited the emitters (watch keys)."""
        obs, s = self.obs, self.script
        s.arm(fault)
        res = "Ok"
        try:
            k = c[0]
            if k == "S":
                obs.schedule(self.handlers[c[1]], c[2][0], recursive=bool(c[2][1]), event_filter=self.filt(c[2][2]))
            elif k == "A":
                obs.add_handler_for_watch(self.handlers[c[1]], self.watch(c[2]))
            elif k == "R":
                obs.remove_handler_for_watch(self.handlers[c[1]], self.watch(c[2]))
            elif k == "U":
                obs.unschedule(self.watch(c[1]))
            elif k == "UA":
                obs.unschedule_all()
            elif k == "ST":
                obs.start()
                self.thread_started = True
            elif k == "SP":
                obs.stop()
            else:
                raise ValueError(c)
        except KeyError as e:
            res = classify_keyerror(e)
        except (InjectedFailure, InjectedFailure2) as e:
            res = "Ctor" if "constructor" in str(e) else "Start"
        except RuntimeError:
            res = "Already"
        finally:
            ord_ = list(s.start_log)
            failed = s.failed_watch
            s.arm("N")
        # quiescence: a stopped observer thread is joined
        if self.thread_started and obs.stopped_event.is_set() and obs.is_alive():
            obs.join(10)
        return res, ord_, failed

    def observe(self, probe=True):
        obs = self.obs
        ems = list(obs.emitters)
        emitters = sorted([list(wkey(e.watch)), bool(e.is_alive())] for e in ems)
        if not probe:
            # dispatching a marker touches the handler table (a defaultdict): probing after EVERY call would heal
            # states that only go wrong when nothing looks at them in between - so some steps are not probed
            return emitters, None, bool(obs.is_alive())
        marks = {}
        for e in ems:
            self.nmark += 1
            m = f"marker-{self.nmark}"
            marks[m] = wkey(e.watch)
            # straight into the observer's queue: the probe is about the registry (which handlers an event of this
            # watch reaches), not about the emitter's class filter (an empty filter lets nothing through - C11)
            e._event_queue.put((self.FileModifiedEvent(m), e.watch))
        q = obs.event_queue
        if obs.is_alive():
            with q.all_tasks_done:
                ok = q.all_tasks_done.wait_for(lambda: q.unfinished_tasks == 0, timeout=10)
            if not ok:
                raise RuntimeError("dispatcher did not drain the queue within 10 s")
        else:
            while q.qsize():
                obs.dispatch_events(q)
        recv = {m: [] for m in marks}
        for h, r in self.handlers.items():
            for m in r.got:
                recv.setdefault(m, []).append(h)
            r.got.clear()
        receivers = sorted([list(marks.get(m, ("?", False, 0))), sorted(hs)] for m, hs in recv.items())
        return emitters, receivers, bool(obs.is_alive())

    def close(self):
        obs = self.obs
        try:
            obs.stop()
            if self.thread_started:
                obs.join(10)
        finally:
            for e in self.script.created:
                if e.is_alive():
                    e.stop()
                    e.join(10)


def probe_steps(seq):
    """The steps after which marker events are sent: the last one always, the others by a fixed pseudo-random choice."""
    import random
    r = random.Random(core.digest(seq))
    return {i for i in range(len(seq)) if i == len(seq) - 1 or r.random() < 0.4}


def run_impl(seq):
    """seq: list of [call, fault]. Returns the list of per-call observations."""
    _FLIP[0] = len(seq)          # the flavour of the injected failures depends on the sequence only (replayable)
    im = Impl()
    out = []
    probes = probe_steps(seq)
    try:
        for i, (c, f) in enumerate(seq):
            res, ord_, failed = im.call(c, f)
            ems, recv, alive = im.observe(i in probes)
            out.append({"res": res, "ord": ord_, "failed": failed, "emitters": ems, "receivers": recv, "alive": alive})
    finally:
        im.close()
    return out


# ------------------------------------------------------------------ the reference map (oracle)
LAW_TXT = {
    "failed-schedule-no-trace": "the handler of a schedule() that raised receives events",
    "start-failure-keeps-handlers": "a watch de-scheduled by a failed start() kept its handlers: they are served again "
                                    "when the watch is scheduled for another handler",
    "emitters-not-scheduled-watches": "observer.emitters are not exactly the emitters of the currently scheduled watches",
    "equal-watches-two-emitters": "two emitters for equal watches",
    "receivers-not-handler-set": "an event of a watch is not delivered to exactly the handler set of that watch",
    "unexpected-raise": "a call raised although the reference map says it succeeds",
    "missing-raise": "a call succeeded although the reference map says it raises KeyError",
    "independence": "unscheduling one watch changed another watch",
}


def oracle(seq, obs):
    """Evaluate the property text on the observations of the real observer.
    Returns None or (law, step, observed, expected)."""
    sched = set()
    hs = {}
    tainted = {}     # (h, w) -> "schedule" | "start": pairs that must not be served unless added again
    for i, ((c, f), o) in enumerate(zip(seq, obs)):
        k = c[0]
        res = o["res"]
        before = (set(sched), {w: set(v) for w, v in hs.items()})
        if k == "S":
            h, w = c[1], tuple(c[2])
            if res == "Ok":
                sched.add(w)
                hs.setdefault(w, set()).add(h)
                tainted.pop((h, w), None)
            elif res in ("Ctor", "Start"):
                # a schedule() that raised has no effect at all
                if h not in hs.get(w, ()):
                    tainted[(h, w)] = "schedule"
            else:
                return "unexpected-raise", i, res, "Ok or the injected failure"
        elif k == "A":
            h, w = c[1], tuple(c[2])
            if res != "Ok":
                return "unexpected-raise", i, res, "Ok"
            hs.setdefault(w, set()).add(h)
            tainted.pop((h, w), None)
        elif k == "R":
            h, w = c[1], tuple(c[2])
            if h in hs.get(w, ()):
                if res != "Ok":
                    return "unexpected-raise", i, res, "Ok"
                hs[w].discard(h)
            elif not res.startswith("Key"):
                return "missing-raise", i, res, "KeyError"
        elif k == "U":
            w = tuple(c[1])
            if w in sched:
                if res != "Ok":
                    return "unexpected-raise", i, res, "Ok"
                sched.discard(w)
                hs.pop(w, None)
            elif not res.startswith("Key"):
                return "missing-raise", i, res, "KeyError"
        elif k in ("UA", "SP"):
            if res != "Ok":
                return "unexpected-raise", i, res, "Ok"
            sched.clear()
            hs.clear()
        elif k == "ST":
            if res != "Ok" and o["failed"] is not None:
                # the watch whose emitter could not be started is de-scheduled (tests/test_observer.py)
                w = tuple(o["failed"])
                for h in hs.get(w, ()):
                    tainted[(h, w)] = "start"
                sched.discard(w)
                hs.pop(w, None)
        # --- what the observer shows now
        keys = [tuple(e[0]) for e in o["emitters"]]
        if len(keys) != len(set(keys)):
            return "equal-watches-two-emitters", i, keys, sorted(sched)
        if set(keys) != sched:
            law = "emitters-not-scheduled-watches"
            if k == "U" and res == "Ok" and (set(keys) ^ sched) - {tuple(c[1])}:
                law = "independence"
            return law, i, sorted(keys), sorted(sched)
        for w, got in (o["receivers"] or []):
            w = tuple(w)
            want = sorted(hs.get(w, ()))
            if got != want:
                for h in got:
                    if (h, w) in tainted and h not in want:
                        law = "failed-schedule-no-trace" if tainted[(h, w)] == "schedule" else "start-failure-keeps-handlers"
                        return law, i, {"watch": list(w), "receivers": got}, {"watch": list(w), "receivers": want}
                law = "receivers-not-handler-set"
                if k == "U" and res == "Ok" and w != tuple(c[1]):
                    law = "independence"
                return law, i, {"watch": list(w), "receivers": got}, {"watch": list(w), "receivers": want}
    return None


# ------------------------------------------------------------------ the model
def wire_w(w):
    return [int(PATHS.index(w[0]) + 1), bool(w[1]), int(w[2])]


def wire_call(c, ord_):
    k = c[0]
    if k in ("S", "A", "R"):
        return [Atom(k), int(c[1]), wire_w(c[2])]
    if k == "U":
        return [Atom("U"), wire_w(c[1])]
    if k == "ST":
        return [Atom("ST"), [wire_w(w) for w in ord_]]
    return [Atom(k)]


def wire_fault(f):
    if f == "N" or f == "C":
        return Atom(f)
    return [Atom("F"), int(f[1])]


def model_case(seq, obs, f2=True, f2b=True):
    return sx([Atom("trace"), bool(f2), bool(f2b),
               [[wire_call(c, o["ord"]), wire_fault(f)] for (c, f), o in zip(seq, obs)]])


def unwire_w(w):
    return [PATHS[int(w[0]) - 1], w[1] == "1", int(w[2])]


def model_obs(out):
    """Parsed model trace -> same shape as the implementation's observations."""
    res = []
    for r, ems, recv, alive in out:
        res.append({"res": r,
                    "emitters": sorted([unwire_w(w), a == "1"] for w, a in ems),
                    "receivers": sorted([unwire_w(w), sorted(int(h) for h in hs)] for w, hs in recv),
                    "alive": alive == "1"})
    return res


def strip(o):
    return {k: o[k] for k in ("res", "emitters", "receivers", "alive")}


# ------------------------------------------------------------------ generators
def all_watches(filters=(0,)):
    return [[p, r, f] for p in PATHS for r in (False, True) for f in filters]


def alphabet(watches, handlers, start_faults=(0, 1, 2)):
    """Every call with every fault that can strike it."""
    out = []
    for w in watches:
        for h in handlers:
            for f in ("N", "C", ["F", 0]):
                out.append([["S", h, w], f])
            out.append([["A", h, w], "N"])
            out.append([["R", h, w], "N"])
        out.append([["U", w], "N"])
    out.append([["UA"], "N"])
    out.append([["SP"], "N"])
    out.append([["ST"], "N"])
    for k in start_faults:
        out.append([["ST"], ["F", k]])
    return out


def rand_seq(rng, n, watches, handlers):
    seq = []
    for _ in range(n):
        x = rng.random()
        w = rng.choice(watches)
        h = rng.choice(handlers)
        if x < 0.34:
            y = rng.random()
            f = "C" if y < 0.18 else ["F", 0] if y < 0.36 else "N"
            seq.append([["S", h, w], f])
        elif x < 0.46:
            seq.append([["A", h, w], "N"])
        elif x < 0.60:
            seq.append([["R", h, w], "N"])
        elif x < 0.74:
            seq.append([["U", w], "N"])
        elif x < 0.78:
            seq.append([["UA"], "N"])
        elif x < 0.93:
            y = rng.random()
            seq.append([["ST"], ["F", rng.randint(0, 3)] if y < 0.4 else "N"])
        else:
            seq.append([["SP"], "N"])
    return seq


CORPUS_BUILTIN = [
    # F2: schedule raises (constructor), same watch scheduled for another handler
    [[["S", 1, ["p0", False, 0]], "C"], [["S", 2, ["p0", False, 0]], "N"]],
    # F2 on a running observer: emitter.start() raises
    [[["ST"], "N"], [["S", 1, ["p0", True, 0]], ["F", 0]], [["S", 2, ["p0", True, 0]], "N"]],
    # F2b: start() fails on the only emitter, unschedule, re-schedule
    [[["S", 1, ["p0", False, 0]], "N"], [["ST"], ["F", 0]], [["U", ["p0", False, 0]], "N"],
     [["S", 2, ["p0", False, 0]], "N"], [["ST"], "N"]],
    # start twice (the second is refused up front), stop, start again, equal watches, filters
    [[["S", 1, ["p0", False, 0]], "N"], [["S", 2, ["p0", False, 0]], "N"], [["S", 1, ["p0", False, 1]], "N"],
     [["ST"], "N"], [["ST"], "N"], [["S", 2, ["p1", True, 0]], "N"], [["SP"], "N"], [["S", 1, ["p1", False, 0]], "N"],
     [["ST"], "N"]],
    # handler added before the watch exists; stop before start
    [[["A", 1, ["p1", False, 0]], "N"], [["R", 2, ["p1", False, 0]], "N"], [["U", ["p1", False, 0]], "N"],
     [["S", 2, ["p1", False, 0]], "N"], [["SP"], "N"], [["S", 2, ["p1", False, 0]], "N"], [["ST"], "N"],
     [["S", 1, ["p0", False, 0]], "N"]],
]


def interesting(seq, obs):
    """Non-trivial: a call raised AND a later call changed the registry, or >= 2 emitters at some point."""
    raised = [i for i, o in enumerate(obs) if o["res"] != "Ok"]
    multi = any(len(o["emitters"]) >= 2 for o in obs)
    after = bool(raised) and any(o["emitters"] for o in obs[raised[0] + 1:])
    return multi or after


# ------------------------------------------------------------------ running a batch
def norm_seq(seq):
    return [[list(c) if not isinstance(c, list) else c, f] for c, f in seq]


def check_batch(ctx, res: Result, seqs, label, shrink=True, found=None):
    """Real code + oracle on every sequence, then the model on all of them."""
    found = found if found is not None else {}
    cases, impls, metas, orders = [], [], [], []
    for seq in seqs:
        obs = run_impl(seq)
        orders.append([o["ord"] for o in obs])
        res.evaluations += 1
        res.hist("length", len(seq))
        for (c, f), o in zip(seq, obs):
            res.hist("call", c[0] + ("" if f == "N" else "+ctor-fault" if f == "C" else "+start-fault"))
            res.hist("result", o["res"])
        if interesting(seq, obs):
            res.nontrivial.add(core.digest(seq))
        if len(res.samples) < 3 and len(seq) >= 4 and any(o["res"] != "Ok" for o in obs):
            res.samples.append({"calls": seq, "results": [o["res"] for o in obs],
                                "emitters_at_end": obs[-1]["emitters"], "receivers_at_end": obs[-1]["receivers"]})
        bad = oracle(seq, obs)
        if bad:
            law = bad[0]
            res.hist("oracle_failure", law)
            if law not in found:
                found[law] = True
                fseq = seq[: bad[1] + 1]
                if shrink:
                    def still(cand, law=law):
                        if not cand:
                            return False
                        b = oracle(cand, run_impl(cand))
                        return bool(b) and b[0] == law
                    fseq = core.shrink_list(fseq, still)
                    fobs = run_impl(fseq)
                    b2 = oracle(fseq, fobs)
                    if b2 and b2[0] == law:
                        bad = b2
                    else:
                        fseq = seq[: bad[1] + 1]
                        fobs = obs[: bad[1] + 1]
                else:
                    fobs = obs[: bad[1] + 1]
                res.failures.append(Failure(
                    what=LAW_TXT[law] + f" (call #{bad[1]} of the sequence)",
                    case={"calls": fseq, "results": [o["res"] for o in fobs]},
                    signature={"law": law},
                    observed=bad[2], expected=bad[3]))
        cases.append(model_case(seq, obs))
        impls.append([strip(o) for o in obs])
        metas.append(seq)
    outs = []
    for i in range(0, len(cases), 20000):
        outs += core.run_model("registry", cases[i:i + 20000])
    nmis = 0
    for seq, o, im in zip(metas, outs, impls):
        res.traces_validated += 1
        try:
            mo = model_obs(o)
            # steps that were not probed with marker events have no receivers on the implementation side
            mo = [dict(a, receivers=None) if b.get("receivers") is None else a for a, b in zip(mo, im)] + mo[len(im):]
        except Exception:
            mo = o
        if mo != im:
            nmis += 1
            if nmis <= 3:
                # first differing step
                j = next((j for j, (a, b) in enumerate(zip(mo, im)) if a != b), None) if isinstance(mo, list) else None
                res.mismatches.append(Mismatch(
                    pair="Registry.step vs BaseObserver", case={"calls": seq, "first_differing_call": j},
                    model=str(mo[j] if j is not None else mo)[:600], impl=str(im[j] if j is not None else im)[:600]))
    if nmis and shrink:
        # diagnosis: does the code under test follow the pinned statement order?
        pouts = core.run_model("registry", [model_case(seq, [dict(o, ord=o2) for o, o2 in zip(im, ords)], f2=False, f2b=False)
                                            for seq, im, ords in zip(metas, impls, orders)])
        def _same(o, im):
            mo = model_obs(o)
            return [dict(a, receivers=None) if b.get("receivers") is None else a for a, b in zip(mo, im)] + mo[len(im):] == im
        agree = sum(1 for o, im in zip(pouts, impls) if _same(o, im))
        res.notes.append(f"{label}: {nmis} of {len(cases)} sequences differ from the model of the repaired code; the code under "
                         f"test agrees with the model of the PINNED statement order (f2=f2b=false) on {agree} of {len(cases)}")
    if nmis > 3:
        res.mismatches.append(Mismatch(pair="Registry.step vs BaseObserver", case=f"{nmis - 3} more sequences ({label})",
                                       model="", impl=""))
    return found


def check_spec_runner(ctx, res: Result, seqs):
    """Extracted spec machine against the extracted impl machine (already proved equal: C13_refines) - a smoke test of
    the runner glue, on the orders the real run used."""
    cases_i, cases_s = [], []
    univ = [wire_w(w) for w in all_watches((0, 1, 2))]
    for seq in seqs:
        obs = run_impl(seq)
        cs = [[wire_call(c, o["ord"]), wire_fault(f)] for (c, f), o in zip(seq, obs)]
        cases_i.append(sx([Atom("trace"), True, True, cs]))
        cases_s.append(sx([Atom("spec"), cs, univ]))
    oi = core.run_model("registry", cases_i)
    os_ = core.run_model("registry", cases_s)
    for seq, a, b in zip(seqs, oi, os_):
        res.traces_validated += 1
        for (r1, ems, recv, al), (r2, sched, hs, al2) in zip(a, b):
            hmap = {tuple(map(str, w)): l for w, l in hs}
            ok = r1 == r2 and ems == sched and al == al2 and all(hmap[tuple(map(str, w))] == l for w, l in recv)
            if not ok:
                res.mismatches.append(Mismatch(pair="extracted impl machine vs extracted spec", case=seq,
                                               model=str(b)[:400], impl=str(a)[:400]))
                break


def canonical_seqs(alpha, n):
    """All sequences of length n over alpha up to renaming of paths, recursive flags and handlers:
    the first path mentioned is PATHS[0], the first flag False, the first handler HANDLERS[0]
    (the renamings act independently, so canonical = each first occurrence is the least value)."""
    def attrs(letter):
        c = letter[0]
        h = c[1] if c[0] in ("S", "A", "R") else None
        w = c[2] if c[0] in ("S", "A", "R") else c[1] if c[0] == "U" else None
        return h, w
    info = [attrs(l) for l in alpha]
    out = []

    def go(prefix, sp, sf, sh):
        if len(prefix) == n:
            out.append(list(prefix))
            return
        for letter, (h, w) in zip(alpha, info):
            if h is not None and not sh and h != HANDLERS[0]:
                continue
            if w is not None and ((not sp and w[0] != PATHS[0]) or (not sf and w[1])):
                continue
            prefix.append(letter)
            go(prefix, sp or w is not None, sf or w is not None, sh or h is not None)
            prefix.pop()
    go([], False, False, False)
    return out


def _worker(args):
    """Run a slice of the exhaustive space in a sub-process."""
    seed, prop, tier, seqs, label = args
    ctx = core.Ctx(prop=prop, tier=tier, seed=seed)
    res = Result()
    check_batch(ctx, res, seqs, label, shrink=False)
    return res


def run_exhaustive(ctx, res: Result, alpha, n, label, procs):
    import multiprocessing as mp
    t0 = time.time()
    seqs = canonical_seqs(alpha, n)
    total = len(seqs)
    chunk = max(1, min(4000, total // (procs * 4) + 1))
    jobs = [(ctx.seed, ctx.prop, ctx.tier, seqs[lo:lo + chunk], f"exhaustive-{n}") for lo in range(0, total, chunk)]
    with mp.get_context("fork").Pool(procs) as pool:
        for r in pool.imap_unordered(_worker, jobs):
            # keep one failure per law, a few mismatches
            laws = {f.signature.get("law") for f in res.failures}
            r.failures = [f for f in r.failures if f.signature.get("law") not in laws]
            r.mismatches = r.mismatches[: max(0, 4 - len(res.mismatches))]
            res.merge(r)
    res.notes.append(f"exhaustive: all {len(alpha) ** n} sequences of length {n} over {label} ({len(alpha)} call/fault "
                     f"letters) = {total} up to renaming of paths/flags/handlers, {time.time() - t0:.0f} s on {procs} processes")


def run(ctx) -> Result:
    res = Result()
    res.rule = ("call sequences over 2 paths x 2 recursive flags (x 2 filters in the random part) x 2 handlers, calls "
                "schedule/add_handler/remove_handler/unschedule/unschedule_all/start/stop, each schedule with no fault / "
                "constructor failure / start failure, each start() with no fault or the k-th emitter start failing; run "
                "on a real BaseObserver with scripted emitters; distinct = the sequence; non-trivial = at some point "
                ">= 2 emitters are registered, or a call raised and an emitter exists afterwards")
    found = {}
    seqs = [norm_seq(s) for s in CORPUS_BUILTIN]
    for c in ctx.corpus():
        seqs.append(norm_seq(c.get("calls", c.get("case", {}).get("calls", []))))
    check_batch(ctx, res, seqs, "corpus", found=found)
    rng = ctx.rng("random")
    n_random = 1500 if not ctx.thorough else 6000
    rseqs = []
    for i in range(n_random):
        filters = ((0, 1) if i % 2 else (0, 2, 1)) if i % 3 == 0 else (0,)
        ws = all_watches(filters)
        if i % 4 == 1:
            ws = ws[:2]          # few watches: many equal-watch collisions
        rseqs.append(rand_seq(rng, rng.randint(1, 30), ws, HANDLERS))
    check_batch(ctx, res, rseqs, "random", found=found)
    check_spec_runner(ctx, res, seqs + rseqs[:200])
    if ctx.thorough:
        procs = max(2, min(8, (os.cpu_count() or 4) // 2))
        full = alphabet(all_watches(), HANDLERS)
        for n in (1, 2, 3, 4):
            run_exhaustive(ctx, res, full, n, "2 paths x 2 flags x 2 handlers", procs)
        tiny = alphabet([["p0", False, 0], ["p1", False, 0]], [1], start_faults=(0, 1))
        run_exhaustive(ctx, res, tiny, 5, "2 paths x 1 flag x 1 handler", procs)
        res.exhaustive = True
    return res


def replay(ctx, obj) -> int:
    case = obj.get("case", obj)
    seq = norm_seq(case["calls"])
    obs = run_impl(seq)
    print("replay: BaseObserver(ScriptedEmitter) from", core.REPO)
    for i, ((c, f), o) in enumerate(zip(seq, obs)):
        print(f"  #{i} {c} fault={f} -> {o['res']}; emitters={o['emitters']} receivers={o['receivers']} alive={o['alive']}")
    bad = oracle(seq, obs)
    rc = 0
    if bad:
        print(f"FAIL: {LAW_TXT[bad[0]]} at call #{bad[1]}: observed {bad[2]} expected {bad[3]}")
        rc = 1
    if core.BIN.exists():
        out = core.run_model("registry", [model_case(seq, obs)])[0]
        mo = model_obs(out)
        for i, (a, b) in enumerate(zip(mo, [strip(o) for o in obs])):
            if a != b:
                print(f"MISMATCH at call #{i}: model {a} impl {b}")
                rc = 1
                break
    return rc
