(* C11, reader level: raw kernel events without a structural bit leave the reader's bookkeeping and the
   kernel untouched and only append their InotifyEvent; hence reading a batch from which such events
   have been removed ends in the same state and yields the corresponding sub-list of the output. *)
Require Import WD.Base.Prelude WD.Base.BStr WD.Model.SubEvents WD.Model.Emitter WD.Model.Fs WD.Model.Reader.
Require Import WD.Proofs.ContractProofs.

(* the bits the reader itself acts on *)
Definition structural (recursive : bool) (m : N) : bool :=
  is_moved_from m || is_moved_to m || Emitter.is_ignored m || (recursive && is_directory m && is_create m).

(* the raws _recursive_simulate fabricates *)
Definition sim_raw (x : raw) : Prop := r_mask x = IN_CREATE \/ r_mask x = N.lor IN_CREATE IN_ISDIR.

Lemma filter_all {A} (f : A -> bool) l : (forall x, In x l -> f x = true) -> filter f l = l.
Proof.
  induction l as [|a l IH]; intros H; simpl; [reflexivity|].
  rewrite (H a (or_introl eq_refl)). f_equal. apply IH. intros x Hx. apply H. now right.
Qed.

Section R.
  Variable C : cfg.

  (* ---------------------------------------------------------------- the accumulator is only appended to *)
  Lemma sim_dirs_acc t root ds : forall r k,
    exists r' k' o, Forall sim_raw o /\ forall acc, sim_dirs C r k t root ds acc = (r', k', acc ++ o).
  Proof.
    induction ds as [|d ds IH]; intros r k; cbn [sim_dirs].
    - exists r, k, []. split; [constructor|]. intros acc. now rewrite app_nil_r.
    - destruct (add_watch C r k t (join root d)) as [[[r1 k1] wd]|].
      + destruct (IH r1 k1) as [r' [k' [o [Ho H]]]].
        exists r', k', ({| r_wd := wd; r_mask := N.lor IN_CREATE IN_ISDIR; r_cookie := 0; r_name := d;
                           r_path := join root d |} :: o).
        split; [constructor; [right; reflexivity | exact Ho]|].
        intros acc. rewrite H, <- app_assoc. reflexivity.
      + destruct (IH (bump r) k) as [r' [k' [o [Ho H]]]]. exists r', k', o. split; [exact Ho | exact H].
  Qed.

  Lemma sim_files_acc r root fls :
    (exists o, Forall sim_raw o /\ forall acc, sim_files C r root fls acc = Done (acc ++ o)) \/
    (exists s, forall acc, sim_files C r root fls acc = Crash s).
  Proof.
    induction fls as [|f fls IH]; cbn [sim_files].
    - left. exists []. split; [constructor|]. intros acc. now rewrite app_nil_r.
    - destruct (alookup beqb (dirname (join root f)) (wfp r)) as [wd|].
      + destruct IH as [[o [Ho H]]|[s H]].
        * left. exists ({| r_wd := wd; r_mask := IN_CREATE; r_cookie := 0; r_name := f; r_path := join root f |} :: o).
          split; [constructor; [left; reflexivity | exact Ho]|].
          intros acc. rewrite H, <- app_assoc. reflexivity.
        * right. exists s. intros acc. apply H.
      + destruct (c_fix_simulate C); [exact IH|]. right. exists SITE_SIMULATE. reflexivity.
  Qed.

  Lemma simulate_acc t w : forall r k,
    (exists r' k' o, Forall sim_raw o /\ forall acc, simulate C r k t w acc = Done (r', k', acc ++ o)) \/
    (exists s, forall acc, simulate C r k t w acc = Crash s).
  Proof.
    induction w as [|[[root ds] fls] w IH]; intros r k; cbn [simulate].
    - left. exists r, k, []. split; [constructor|]. intros acc. now rewrite app_nil_r.
    - destruct (sim_dirs_acc t root ds r k) as [r1 [k1 [o1 [Ho1 H1]]]].
      destruct (sim_files_acc r1 root fls) as [[o2 [Ho2 H2]]|[s H2]].
      + destruct (IH r1 k1) as [[r' [k' [o3 [Ho3 H3]]]]|[s H3]].
        * left. exists r', k', (o1 ++ o2 ++ o3). split.
          { apply Forall_app; split; [exact Ho1 | apply Forall_app; split; assumption]. }
          intros acc. rewrite H1, H2, H3, <- !app_assoc. reflexivity.
        * right. exists s. intros acc. rewrite H1, H2, H3. reflexivity.
      + right. exists s. intros acc. rewrite H1, H2. reflexivity.
  Qed.

  (* ---------------------------------------------------------------- read_one, factored *)
  Definition ro_move (t : fs) (r : rstate) (k : kst) (e : kraw) (wd_path : bytes) : rstate * kst * raw :=
    let m := k_mask e in
    let src_path := match k_name e with [] => wd_path | _ => join wd_path (k_name e) end in
    let ev := {| r_wd := k_wd e; r_mask := m; r_cookie := k_cookie e; r_name := k_name e; r_path := src_path |} in
    if is_moved_from m then
      ({| wfp := wfp r; pfw := pfw r; mvf := aset N.eqb (k_cookie e) src_path (mvf r); calls := calls r |}, k, ev)
    else if is_moved_to m then
      let ev' := {| r_wd := k_wd e; r_mask := m; r_cookie := k_cookie e; r_name := k_name e;
                    r_path := join wd_path (k_name e) |} in
      match alookup N.eqb (k_cookie e) (mvf r) with
      | Some msrc =>
        match alookup beqb msrc (wfp r) with
        | Some mwd =>
          let r' := {| wfp := aset beqb src_path mwd (aremove beqb msrc (wfp r));
                       pfw := aset N.eqb mwd src_path (pfw r); mvf := mvf r; calls := calls r |} in
          ((if c_recursive C then rekey_loop (wfp r') msrc src_path r' else r'), k, ev')
        | None =>
          if c_fix_movein C && c_recursive C && is_directory m && fisdir src_path t
          then let '(r', k') := add_dirs C r k t (src_path :: walk_dirs t src_path) in (r', k', ev')
          else (r, k, ev')
        end
      | None =>
        if c_fix_movein C && c_recursive C && is_directory m && fisdir src_path t
        then let '(r', k') := add_dirs C r k t (src_path :: walk_dirs t src_path) in (r', k', ev')
        else (r, k, ev')
      end
    else (r, k, ev).

  Definition ro_ignored (r1 : rstate) (e : kraw) : outcome rstate :=
    if Emitter.is_ignored (k_mask e) then
      match alookup N.eqb (k_wd e) (pfw r1) with
      | None => Crash SITE_PATH_FOR_WD
      | Some path =>
        let rp := {| wfp := wfp r1; pfw := aremove N.eqb (k_wd e) (pfw r1); mvf := mvf r1; calls := calls r1 |} in
        match alookup beqb path (wfp rp) with
        | Some w => if N.eqb w (k_wd e)
                    then Done {| wfp := aremove beqb path (wfp rp); pfw := pfw rp; mvf := mvf rp; calls := calls rp |}
                    else Done rp
        | None => if c_fix_ignored C then Done rp else Crash SITE_IGNORED
        end
      end
    else Done r1.

  Lemma read_one_factored t r k acc e :
    read_one C t (r, k, acc) e =
    match alookup N.eqb (k_wd e) (pfw r) with
    | None => Crash SITE_PATH_FOR_WD
    | Some wd_path =>
      let '(r1, k1, ev1) := ro_move t r k e wd_path in
      match ro_ignored r1 e with
      | Crash s => Crash s
      | Done r2 =>
        let acc2 := acc ++ [ev1] in
        if c_recursive C && is_directory (k_mask e) && is_create (k_mask e) then
          match add_watch C r2 k1 t (r_path ev1) with
          | None => Done (bump r2, k1, acc2)
          | Some (r3, k3, _) => simulate C r3 k3 t (walk (r_path ev1) (content t (r_path ev1))) acc2
          end
        else Done (r2, k1, acc2)
      end
    end.
  Proof. reflexivity. Qed.

  Lemma ro_move_mask t r k e wdp : r_mask (snd (ro_move t r k e wdp)) = k_mask e.
  Proof.
    unfold ro_move.
    destruct (is_moved_from (k_mask e)); [reflexivity|].
    destruct (is_moved_to (k_mask e)); [|reflexivity].
    destruct (alookup N.eqb (k_cookie e) (mvf r)) as [msrc|].
    - destruct (alookup beqb msrc (wfp r)); [reflexivity|].
      destruct (c_fix_movein C && c_recursive C && is_directory (k_mask e) && fisdir _ t); [|reflexivity].
      destruct (add_dirs C r k t _); reflexivity.
    - destruct (c_fix_movein C && c_recursive C && is_directory (k_mask e) && fisdir _ t); [|reflexivity].
      destruct (add_dirs C r k t _); reflexivity.
  Qed.

  (* what one event does is independent of the accumulator; it appends its own InotifyEvent (same mask)
     followed - only for IN_CREATE|IN_ISDIR under a recursive watch - by simulated IN_CREATE raws *)
  Lemma read_one_acc t r k e :
    (exists r' k' ev sims,
        r_mask ev = k_mask e /\ Forall sim_raw sims /\ (sims <> [] -> c_recursive C = true) /\
        forall acc, read_one C t (r, k, acc) e = Done (r', k', acc ++ ev :: sims)) \/
    (exists s, forall acc, read_one C t (r, k, acc) e = Crash s).
  Proof.
    destruct (alookup N.eqb (k_wd e) (pfw r)) as [wdp|] eqn:Hl.
    2:{ right. exists SITE_PATH_FOR_WD. intros acc. rewrite read_one_factored, Hl. reflexivity. }
    pose proof (ro_move_mask t r k e wdp) as Hm.
    destruct (ro_move t r k e wdp) as [[r1 k1] ev1] eqn:Em. cbn [snd] in Hm.
    destruct (ro_ignored r1 e) as [r2|s] eqn:Ei.
    2:{ right. exists s. intros acc. rewrite read_one_factored, Hl, Em, Ei. reflexivity. }
    destruct (c_recursive C && is_directory (k_mask e) && is_create (k_mask e)) eqn:Ec.
    - assert (Hrec : c_recursive C = true).
      { destruct (c_recursive C); [reflexivity | discriminate]. }
      destruct (add_watch C r2 k1 t (r_path ev1)) as [[[r3 k3] wd3]|] eqn:Ea.
      + destruct (simulate_acc t (walk (r_path ev1) (content t (r_path ev1))) r3 k3)
          as [[r' [k' [o [Ho H]]]]|[s H]].
        * left. exists r', k', ev1, o.
          split; [exact Hm | split; [exact Ho | split; [intros _; exact Hrec |]]].
          intros acc. rewrite read_one_factored, Hl, Em, Ei, Ec, Ea. cbn zeta. rewrite H, <- app_assoc. reflexivity.
        * right. exists s. intros acc. rewrite read_one_factored, Hl, Em, Ei, Ec, Ea. apply H.
      + left. exists (bump r2), k1, ev1, [].
        split; [exact Hm | split; [constructor | split; [congruence |]]].
        intros acc. rewrite read_one_factored, Hl, Em, Ei, Ec, Ea. reflexivity.
    - left. exists r2, k1, ev1, [].
      split; [exact Hm | split; [constructor | split; [congruence |]]].
      intros acc. rewrite read_one_factored, Hl, Em, Ei, Ec. reflexivity.
  Qed.

  (* ---------------------------------------------------------------- a plain event *)
  Lemma read_one_plain_c11 t r k acc e :
    structural (c_recursive C) (k_mask e) = false ->
    read_one C t (r, k, acc) e =
    match alookup N.eqb (k_wd e) (pfw r) with
    | None => Crash SITE_PATH_FOR_WD
    | Some wdp => Done (r, k, acc ++ [mkraw e (rpath wdp (k_name e))])
    end.
  Proof.
    unfold structural. intros H.
    apply orb_false_iff in H as [H H4]. apply orb_false_iff in H as [H H3]. apply orb_false_iff in H as [H1 H2].
    rewrite read_one_factored. destruct (alookup N.eqb (k_wd e) (pfw r)) as [wdp|]; [|reflexivity].
    unfold ro_move, ro_ignored. rewrite H1, H2, H3, H4. reflexivity.
  Qed.

  (* ---------------------------------------------------------------- batches *)
  Theorem reader_transparent t (keep : N -> bool) :
    (forall m, structural (c_recursive C) m = true -> keep m = true) ->
    (c_recursive C = true -> keep IN_CREATE = true /\ keep (N.lor IN_CREATE IN_ISDIR) = true) ->
    forall b r k acc r' k' out,
      read_batch C t (r, k, acc) b = Done (r', k', out) ->
      read_batch C t (r, k, filter (fun x => keep (r_mask x)) acc) (filter (fun e => keep (k_mask e)) b)
      = Done (r', k', filter (fun x => keep (r_mask x)) out).
  Proof.
    intros Hstruct Hsim. induction b as [|e b IH]; intros r k acc r' k' out Hrun.
    - cbn in *. inversion Hrun; subst. reflexivity.
    - cbn [read_batch filter] in *.
      destruct (keep (k_mask e)) eqn:Hk.
      + destruct (read_one_acc t r k e) as [[r1 [k1 [ev [sims [Hm [Hs [Hrec H]]]]]]]|[s H]].
        2:{ rewrite H in Hrun. discriminate. }
        rewrite H in Hrun. cbn [read_batch]. rewrite H.
        assert (Hf : filter (fun x => keep (r_mask x)) (acc ++ ev :: sims)
                     = filter (fun x => keep (r_mask x)) acc ++ ev :: sims).
        { rewrite filter_app. f_equal. cbn [filter]. rewrite Hm, Hk. f_equal.
          destruct sims as [|x sims]; [reflexivity|].
          destruct (Hsim (Hrec ltac:(discriminate))) as [K1 K2].
          apply filter_all. intros y Hy.
          rewrite Forall_forall in Hs. destruct (Hs y Hy) as [-> | ->]; assumption. }
        rewrite <- Hf. apply IH. exact Hrun.
      + assert (Hp : structural (c_recursive C) (k_mask e) = false).
        { destruct (structural (c_recursive C) (k_mask e)) eqn:E; [|reflexivity].
          rewrite (Hstruct _ E) in Hk. discriminate. }
        rewrite (read_one_plain_c11 t r k acc e Hp) in Hrun.
        destruct (alookup N.eqb (k_wd e) (pfw r)) as [wdp|]; [|discriminate].
        specialize (IH _ _ _ _ _ _ Hrun).
        rewrite filter_app in IH. cbn [filter mkraw r_mask] in IH. rewrite Hk, app_nil_r in IH. exact IH.
  Qed.
End R.
