(* Model of watchdog.utils.event_debouncer.EventDebouncer as an LTS (DESIGN.md Group T, C18).
   Definitions only.

   Shared state: the pending list [_events], the stopped flag of BaseThread (written only inside
   [with self._cond] by EventDebouncer.stop, read by run() only while it holds the lock), the
   condition variable [_cond] (one possible waiter: the debouncer thread; [notified] is the
   waiter's wake-up token), the virtual clock.
   Granularity: a client's handle_event()/stop() is one critical section of the lock = one label;
   the thread's run() is cut at every lock hand-over (acquire, wait = release+enqueue, wake-up,
   re-acquire) and additionally at the loop heads, the stop check, the swap-out and the callback.
   The lock itself is not a field: it is held by the thread exactly in the [pc]s for which
   [lock_free] is false, and clients' sections are atomic.

   [repaired = true ] : first wait is `while not self._events and self.should_keep_running(): wait()`
   [repaired = false] : the pinned code, an unconditional `self._cond.wait()` (finding F5).
   Time unit: arbitrary ([interval] and all [Tick]s in the same unit); [interval = 0] means
   `if self.debounce_interval_seconds:` is false.  Events carry their arrival time (ghost). *)
Require Import WD.Base.Prelude WD.Base.Lts.

Definition ev := (N * N)%type.          (* (event id, clock at handle_event) *)

Inductive pc :=
| PInit                 (* thread started (or not yet), before `with self._cond:` *)
| PTop                  (* head of `while True`, lock held *)
| POuterWait            (* inside the un-timed wait: lock released, enqueued as waiter *)
| POuterReacq           (* woken, has not yet re-acquired the lock *)
| PInnerCheck           (* `if interval:` / `while self.should_keep_running():`, lock held *)
| PInnerWait (d : N)    (* inside wait(timeout=interval), deadline d *)
| PInnerReacq (r : bool)(* woken with result r (true = notified, false = timed out), lock not yet re-acquired *)
| PStopCheck            (* `if not self.should_keep_running(): break`, lock held *)
| PCallback (b : list ev) (* events swapped out, callback not yet called, lock held *)
| PDone.                (* run() returned, lock released *)

Record state := mk {
  clock : N;
  stopped : bool;
  events : list ev;               (* self._events *)
  pcs : pc;
  notified : bool;                (* wake-up token of the (only) waiter; meaningful in the wait pcs *)
  decided : N;                    (* ghost: clock at the last timed-out wait *)
  handed : list ev;               (* ghost: every event handed over, in critical-section order *)
  delivered : list (N * N * list ev)   (* ghost: (decision time, callback time, batch), oldest first *)
}.

Inductive label := HandleEvent (e : N) | Stop | Thr | Tick (d : N).

Definition init_state : state := mk 0 false [] PInit false 0 [] [].

Definition lock_free (p : pc) : bool :=
  match p with
  | PInit | POuterWait | POuterReacq | PInnerWait _ | PInnerReacq _ | PDone => true
  | PTop | PInnerCheck | PStopCheck | PCallback _ => false
  end.

Definition is_waiting (p : pc) : bool :=
  match p with POuterWait | PInnerWait _ => true | _ => false end.

Definition set_pc (s : state) (p : pc) : state :=
  mk (clock s) (stopped s) (events s) p (notified s) (decided s) (handed s) (delivered s).

(* enter a wait: release the lock, enqueue with a fresh token *)
Definition enter_wait (s : state) (p : pc) : state :=
  mk (clock s) (stopped s) (events s) p false (decided s) (handed s) (delivered s).

(* Condition.notify(): wakes the waiter if there is one *)
Definition notify (s : state) : state :=
  if is_waiting (pcs s)
  then mk (clock s) (stopped s) (events s) (pcs s) true (decided s) (handed s) (delivered s)
  else s.

Definition is_nil {A} (l : list A) : bool := match l with [] => true | _ => false end.

Fixpoint count_thr (tr : list label) : nat :=
  match tr with [] => O | Thr :: t => S (count_thr t) | _ :: t => count_thr t end.

Section Variant.
  Variable repaired : bool.
  Variable interval : N.

  Definition thr_step (s : state) : option state :=
    match pcs s with
    | PInit => Some (set_pc s PTop)
    | PTop =>
        if repaired
        then if is_nil (events s) && negb (stopped s) then Some (enter_wait s POuterWait)
             else Some (set_pc s PInnerCheck)
        else Some (enter_wait s POuterWait)
    | POuterWait => if notified s then Some (set_pc s POuterReacq) else None
    | POuterReacq => Some (set_pc s (if repaired then PTop else PInnerCheck))
    | PInnerCheck =>
        if N.eqb interval 0 then Some (set_pc s PStopCheck)
        else if stopped s then Some (set_pc s PStopCheck)
        else Some (enter_wait s (PInnerWait (clock s + interval)))
    | PInnerWait d =>
        if notified s then Some (set_pc s (PInnerReacq true))
        else if N.leb d (clock s)
             then Some (mk (clock s) (stopped s) (events s) (PInnerReacq false) (notified s) (clock s)
                           (handed s) (delivered s))
             else None
    | PInnerReacq r => Some (set_pc s (if r then PInnerCheck else PStopCheck))
    | PStopCheck =>
        if stopped s then Some (set_pc s PDone)
        else Some (mk (clock s) (stopped s) [] (PCallback (events s)) (notified s) (decided s)
                      (handed s) (delivered s))
    | PCallback b =>
        Some (mk (clock s) (stopped s) (events s) PTop (notified s) (decided s) (handed s)
                 (delivered s ++ [(decided s, clock s, b)]))
    | PDone => None
    end.

  Definition deb_step (s : state) (l : label) : option state :=
    match l with
    | HandleEvent e =>
        if lock_free (pcs s)
        then Some (notify (mk (clock s) (stopped s) (events s ++ [(e, clock s)]) (pcs s) (notified s)
                              (decided s) (handed s ++ [(e, clock s)]) (delivered s)))
        else None
    | Stop =>
        if lock_free (pcs s)
        then Some (notify (mk (clock s) true (events s) (pcs s) (notified s) (decided s) (handed s)
                              (delivered s)))
        else None
    | Thr => thr_step s
    | Tick d => Some (mk (clock s + d) (stopped s) (events s) (pcs s) (notified s) (decided s)
                         (handed s) (delivered s))
    end.

  Definition deb_lts : lts := {| St := state; Lbl := label; init := init_state; step := deb_step |}.

  (* The thread is blocked, not finished, and no timer will wake it: only a further notify can. *)
  Definition deadlockedb (s : state) : bool :=
    match pcs s with
    | PDone => false
    | PInnerWait _ => false
    | _ => match thr_step s with None => true | Some _ => false end
    end.

  (* A timer is pending: the thread sits in the timed wait and its deadline lies ahead. *)
  Definition timer_pending (s : state) : bool :=
    match pcs s with PInnerWait d => negb (notified s) && negb (N.leb d (clock s)) | _ => false end.

  (* What is not yet delivered: the batch in flight (swapped out, callback not yet run) and _events *)
  Definition in_flight (s : state) : list ev :=
    match pcs s with PCallback b => b | _ => [] end.
  Definition pending (s : state) : list ev := in_flight s ++ events s.
  Definition batches (s : state) : list (list ev) := map snd (delivered s).

  (* Upper bound on the thread's own remaining steps once stop() has run (see DebouncerProofs). *)
  Definition exit_rank (s : state) : nat :=
    match pcs s with
    | PDone => 0
    | PStopCheck => 1
    | PInnerCheck => 2
    | PInnerReacq false => 2
    | PInnerReacq true => 3
    | PTop => 3
    | PInit => 4
    | PInnerWait _ => 4
    | POuterReacq => if repaired then 4 else 3
    | POuterWait => if repaired then 5 else 4
    | PCallback _ => 4
    end%nat.

  (* Upper bound on the thread's own steps until everything pending is delivered, when neither
     handle_event nor stop interferes (interval > 0 adds the timed wait). *)
  Definition deliver_rank (s : state) : nat :=
    let w := (if N.eqb interval 0 then 0 else 2)%nat in     (* PInnerCheck -> PInnerWait -> PInnerReacq false *)
    match pcs s with
    | PCallback _ => 1
    | PStopCheck => 2
    | PInnerReacq false => 3
    | PInnerWait _ => if notified s then 5 + w else 4
    | PInnerCheck => 3 + w
    | PInnerReacq true => 4 + w
    | PTop => 4 + w
    | PInit => 5 + w
    | POuterReacq => 5 + w
    | POuterWait => 6 + w
    | PDone => 0
    end%nat.

  (* ---- helpers for the lock-step correspondence (macro steps of the adapter) ---- *)
  (* run the thread while it holds the lock (until it waits or finishes) *)
  Fixpoint run_locked (fuel : nat) (s : state) : state :=
    match fuel with
    | O => s
    | S f => if lock_free (pcs s) then s
             else match thr_step s with Some s' => run_locked f s' | None => s end
    end.

  (* run the thread, under the lock, until it has just made a callback; None if it releases the lock first *)
  Fixpoint run_to_callback (fuel : nat) (s : state) : option state :=
    match fuel with
    | O => None
    | S f => if lock_free (pcs s) then None
             else match pcs s, thr_step s with
                  | PCallback _, Some s' => Some s'
                  | _, Some s' => run_to_callback f s'
                  | _, None => None
                  end
    end.
End Variant.
