(* Model of watchdog.tricks.ShellCommandTrick.on_any_event / is_process_running with the
   wait_for_process and drop_during_process options (DESIGN.md Group T, C18).  Definitions only.
   One dispatching thread (the observer's dispatch thread) handles events one at a time; the
   ProcessWatcher threads (one per command when wait_for_process is off) discard themselves from
   _process_watchers when they see their child dead; children die whenever they like ([Exit]). *)
Require Import WD.Base.Prelude WD.Base.Lts.

Record state := mk {
  children : list bool;               (* process table: command i still running? *)
  process : option nat;               (* self.process *)
  watchers : list (nat * bool);       (* (child, already discarded from _process_watchers) *)
  dpc : option nat;                   (* dispatcher: Some c = blocked in self.process.wait() on child c *)
  max_alive : nat;                    (* ghost: largest number of commands running right after a Popen *)
  started : nat;                      (* ghost *)
  dropped : nat                       (* ghost *)
}.

Inductive label := Event | DStep | WStep (i : nat) | Exit (i : nat).

Definition count_alive (l : list bool) : nat := length (filter (fun b => b) l).
Definition alive_children (s : state) : nat := count_alive (children s).
Definition child_alive (s : state) (i : nat) : bool := nth i (children s) false.

Fixpoint set_nth {A} (n : nat) (x : A) (l : list A) : list A :=
  match n, l with
  | _, [] => []
  | O, _ :: t => x :: t
  | S k, h :: t => h :: set_nth k x t
  end.

Definition init_state : state := mk [] None [] None 0 0 0.

Section Options.
  Variable wait_for_process : bool.
  Variable drop_during_process : bool.

  (* is_process_running() *)
  Definition running (s : state) : bool :=
    existsb (fun w => negb (snd w)) (watchers s) ||
    match process s with Some p => child_alive s p | None => false end.

  Definition sh_step (s : state) (l : label) : option state :=
    match l with
    | Event =>
        match dpc s with
        | Some _ => None
        | None =>
            if drop_during_process && running s
            then Some (mk (children s) (process s) (watchers s) None (max_alive s) (started s) (S (dropped s)))
            else let c := length (children s) in
                 let ch := children s ++ [true] in
                 Some (mk ch (Some c)
                          (if wait_for_process then watchers s else watchers s ++ [(c, false)])
                          (if wait_for_process then Some c else None)
                          (Nat.max (max_alive s) (count_alive ch)) (S (started s)) (dropped s))
        end
    | DStep =>
        match dpc s with
        | Some c => if child_alive s c then None
                    else Some (mk (children s) (process s) (watchers s) None (max_alive s) (started s) (dropped s))
        | None => None
        end
    | WStep i =>
        match nth_error (watchers s) i with
        | Some (c, false) =>
            if child_alive s c then None
            else Some (mk (children s) (process s) (set_nth i (c, true) (watchers s)) (dpc s) (max_alive s)
                          (started s) (dropped s))
        | _ => None
        end
    | Exit i =>
        if child_alive s i
        then Some (mk (set_nth i false (children s)) (process s) (watchers s) (dpc s) (max_alive s) (started s) (dropped s))
        else None
    end.

  Definition shell_lts : lts := {| St := state; Lbl := label; init := init_state; step := sh_step |}.
End Options.
