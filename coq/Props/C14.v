(* C14 - Synthetic events for a moved directory name every descendant once and correctly.
   Only statements; every proof is `exact <lemma>`. *)
Require Import WD.Base.Prelude WD.Base.BStr WD.Model.SubEvents WD.Proofs.SubEventsProofs.

(* For every content tree whose names are arbitrary valid file names (non-empty, no '/' and
   no NUL - so a name or a chain of names may spell out [dest] again), every non-empty source
   path and every non-empty destination path not ending in '/': the synthetic moved events are,
   in os.walk order, exactly one per descendant [rel], with dest_path = dest/rel and
   src_path = src/rel, flavour = the descendant's kind. *)
Theorem C14_moved : forall (src dest : bytes),
  src <> [] -> dest <> [] -> last_is_sep dest = false -> forall t : tree, wf_tree t = true ->
  sub_moved_events replace_first src dest t
  = map (fun d => (fst d, src ++ relsuffix (snd d), dest ++ relsuffix (snd d))) (desc [] t).
Proof. exact sub_moved_correct. Qed.
Print Assumptions C14_moved.

Theorem C14_created : forall (src : bytes),
  src <> [] -> last_is_sep src = false -> forall t : tree, wf_tree t = true ->
  sub_created_events src t = map (fun d => (fst d, src ++ relsuffix (snd d))) (desc [] t).
Proof. exact sub_created_correct. Qed.
Print Assumptions C14_created.

(* Parents before children: an entry rel = q ++ [n] with q <> [] is preceded by (Dir, q). *)
Theorem C14_parents_first : forall (t : tree) l1 k q n l2,
  desc [] t = l1 ++ (k, q ++ [n]) :: l2 -> q <> [] -> In (KDir, q) l1.
Proof. exact desc_parents_first_root. Qed.
Print Assumptions C14_parents_first.

(* The reader's re-key step maps the moved directory to [dst] and every key below it to
   dst ++ (the same suffix); all other keys are untouched. *)
Theorem C14_rekey : forall src dst p, src <> [] ->
  rekey_path replace_first src dst p =
    if beqb p src then dst
    else if starts (src ++ [sep]) p then dst ++ skipn (length src) p
    else p.
Proof. exact rekey_first_correct. Qed.
Print Assumptions C14_rekey.

(* The pinned code rewrote every occurrence (str.replace without count): refuted. Kept as the
   record of finding F3; the model of the current code uses replace_first. *)
Theorem C14_replace_all_refuted :
  exists src dest t, wf_tree t = true /\ src <> [] /\ dest <> [] /\ last_is_sep dest = false /\
    sub_moved_events replace_all src dest t <> map (expect_moved src dest) (desc [] t).
Proof. exact replace_all_refuted. Qed.
Print Assumptions C14_replace_all_refuted.

(* Non-vacuity: a concrete tree with a colliding name satisfies the hypotheses. *)
Example C14_nonvacuous :
  let t := Node [(b_, Node [(b_, Node [] [a_])] [b_])] [a_] in
  wf_tree t = true /\ last_is_sep b_ = false /\
  sub_moved_events replace_first a_ b_ t =
    [(KDir, [97;47;98], [98;47;98]); (KFile, [97;47;97], [98;47;97]);
     (KDir, [97;47;98;47;98], [98;47;98;47;98]); (KFile, [97;47;98;47;98], [98;47;98;47;98]);
     (KFile, [97;47;98;47;98;47;97], [98;47;98;47;98;47;97])]%N.
Proof. vm_compute. repeat split. Qed.
