(* wire:  (enc ((action (cp ...) padbytes) ...)) -> bytes
          (parse le|bom xHEX n) -> (ok ((action (cp ...)) ...)) | oob | decerr | nofuel
          (valid (action (cp ...) padbytes)) -> 0/1 *)
open Sexp
open Conv

let rec_of = function
  | L [action; name; pad] ->
    ({ CodecWin.w_action = n_of action; w_name = list_of n_of name }, bytes_of pad)
  | _ -> failwith "codecwin: record"
let sx_rec (r : CodecWin.wrec) = L [sx_n r.CodecWin.w_action; sx_list sx_n r.CodecWin.w_name]
let dec = function
  | A "le" -> CodecWin.dec_utf16_le | A "bom" -> CodecWin.dec_utf16_bom | _ -> failwith "codecwin: codec"

let run = function
  | L [A "enc"; L rs] -> sx_bytes (CodecWin.encode (Stdlib.List.map rec_of rs))
  | L [A "parse"; d; b; n] ->
    (match CodecWin.parse (dec d) (bytes_of b) (n_of n) with
     | CodecWin.Ok l -> L [A "ok"; sx_list sx_rec l]
     | CodecWin.OutOfBounds -> A "oob"
     | CodecWin.DecodeError -> A "decerr"
     | CodecWin.NoFuel -> A "nofuel")
  | L [A "valid"; r] -> sx_bool (CodecWin.valid_recb (rec_of r))
  | _ -> failwith "codecwin: bad case"
