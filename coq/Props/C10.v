(* C10 - Polling reports exactly the diff of successive snapshots and survives races.
   Only statements; every proof is `exact <lemma>`. *)
Require Import WD.Base.Prelude WD.Base.BStr WD.Model.Snapshot WD.Model.Walk WD.Model.Poll.
Require Import WD.Proofs.WalkProofs WD.Proofs.PollProofs.
Require Import Coq.Sorting.Sorted.

(* --- A snapshot contains exactly the reachable entries, with the stat data returned ------------- *)

(* Without faults the constructor never raises and records the root and then, in walk order,
   exactly [reach]: the direct children of the root and, when recursive, everything below the
   child directories; each with the stat result of its node. *)
Theorem C10_walk_exact : forall rec root t,
  snapshot_of rec [] root (Some t) = Snap ((root, stat_of t) :: reach rec root t).
Proof. exact snapshot_nofault. Qed.
Print Assumptions C10_walk_exact.

(* [reach] is the reachability relation: direct children only when non-recursive. *)
Theorem C10_walk_reach_iff : forall rec root t p st,
  In (p, st) (reach rec root t) <-> reaches rec root t p st.
Proof. exact reach_iff. Qed.
Print Assumptions C10_walk_reach_iff.

Theorem C10_walk_nonrecursive : forall root st ch p s,
  reaches false root (Node st ch) p s <->
  st_isdir st = true /\ exists n sub, In (n, sub) ch /\ p = join root n /\ s = stat_of sub.
Proof. exact reaches_nonrec. Qed.
Print Assumptions C10_walk_nonrecursive.

(* --- Entries that vanish / turn into files / become unreadable during the walk are absent ------- *)

(* For every fault plan drawn from ENOENT / ENOTDIR / EACCES that spares the root's own stat and
   does not make the root itself unreadable, the constructor does not raise and the result is the
   fault-free snapshot of the pruned tree: an entry whose stat failed is absent with all below it,
   a directory whose listing failed is there but empty. *)
Theorem C10_walk_total : forall rec f root t,
  stated f = true ->
  fault_at f CStat root = None ->
  fault_at f CList root <> Some EACCES ->
  snapshot_of rec f root (Some t) = Snap ((root, stat_of t) :: reach rec root (prune f root t)).
Proof. exact snapshot_faults. Qed.
Print Assumptions C10_walk_total.

(* Pruning invents nothing, and without faults removes nothing. *)
Theorem C10_prune_sub : forall rec f root t p st,
  reaches rec root (prune f root t) p st -> reaches rec root t p st.
Proof. exact prune_reaches. Qed.
Print Assumptions C10_prune_sub.

Theorem C10_prune_nofault : forall root t, prune [] root t = t.
Proof. exact prune_nil. Qed.
Print Assumptions C10_prune_nofault.

(* Outside these hypotheses the code does raise: EACCES on the root's own listing, or any other
   errno (here EIO) on a sub-directory listing, escape the constructor. *)
Theorem C10_walk_raises_outside_stated :
  (exists rec root t, snapshot_of rec [(CList, root, EACCES)] root (Some t) = Raised EACCES) /\
  (exists rec root t f, fault_at f CStat root = None /\ fault_at f CList root = None /\
                        snapshot_of rec f root (Some t) = Raised EIO).
Proof. exact walk_raises_witness. Qed.
Print Assumptions C10_walk_raises_outside_stated.

(* --- One poll ------------------------------------------------------------------------------------ *)

(* If the new snapshot can be taken, the poll never crashes (no KeyError), replaces the baseline by
   the new snapshot and emits the events of diff(previous, new): the eight blocks in the source's
   order, every event once, every event justified by an entry of the matching category with the
   class of that entry's kind and its path(s), every entry of the diff reported. *)
Theorem C10_poll : forall rec f root ot st new,
  stopped st = false -> snapshot_of rec f root ot = Snap new ->
  exists d, diff false (prev st) new = Some d /\
    poll rec f root ot st = PStep (events_of d) (mkE new false) /\
    NoDup (events_of d) /\
    (forall e, In e (events_of d) <-> event_ok (prev st) new d e) /\
    StronglySorted ev_le (events_of d).
Proof. exact poll_events. Qed.
Print Assumptions C10_poll.

(* every entry of the four categories gets an event (with C09_kinds_partition: exactly one) *)
Theorem C10_poll_complete : forall r s d, diff false r s = Some d ->
  (forall p, In p (d_deleted d) -> In (ev1 FileDeleted p) (events_of d) \/ In (ev1 DirDeleted p) (events_of d)) /\
  (forall p, In p (d_modified d) -> In (ev1 FileModified p) (events_of d) \/ In (ev1 DirModified p) (events_of d)) /\
  (forall p, In p (d_created d) -> In (ev1 FileCreated p) (events_of d) \/ In (ev1 DirCreated p) (events_of d)) /\
  (forall m, In m (d_moved d) -> In (ev2 FileMoved m) (events_of d) \/ In (ev2 DirMoved m) (events_of d)).
Proof. exact events_complete. Qed.
Print Assumptions C10_poll_complete.

(* deletions of a kind come before creations of that kind *)
Theorem C10_deleted_before_created : forall d l1 e1 l2 e2 l3,
  events_of d = l1 ++ e1 :: l2 ++ e2 :: l3 ->
  ~ (ev_kind e1 = FileCreated /\ ev_kind e2 = FileDeleted) /\
  ~ (ev_kind e1 = DirCreated /\ ev_kind e2 = DirDeleted).
Proof. exact deleted_before_created. Qed.
Print Assumptions C10_deleted_before_created.

(* Nothing changed => no events, baseline kept. *)
Theorem C10_quiet : forall rec f root ot st,
  stopped st = false -> snapshot_of rec f root ot = Snap (prev st) ->
  poll rec f root ot st = PStep [] (mkE (prev st) false).
Proof. exact poll_quiet. Qed.
Print Assumptions C10_quiet.

(* The baseline is the tree at start(); an unchanged tree polled without faults is quiet. *)
Theorem C10_baseline_quiet : forall rec root t st,
  start rec [] root (Some t) = Some st ->
  prev st = (root, stat_of t) :: reach rec root t /\ stopped st = false /\
  poll rec [] root (Some t) st = PStep [] st.
Proof. exact start_then_quiet. Qed.
Print Assumptions C10_baseline_quiet.

(* Root gone (or its stat fails, or its listing fails with an errno that is not tolerated):
   exactly one DirDeleted(root), and the emitter is stopped; a stopped emitter is silent. *)
Theorem C10_root_gone : forall rec f root ot st,
  stopped st = false ->
  (ot = None \/ fault_at f CStat root <> None \/
   exists e, fault_at f CList root = Some e /\ tolerated e = false) ->
  poll rec f root ot st = PStep [Ev DirDeleted root None] (mkE (prev st) true).
Proof. exact poll_root_gone. Qed.
Print Assumptions C10_root_gone.

Theorem C10_stopped_silent : forall rec f root ot st,
  stopped st = true -> poll rec f root ot st = PStep [] st.
Proof. exact poll_stopped. Qed.
Print Assumptions C10_stopped_silent.

(* --- Non-vacuity ---------------------------------------------------------------------------------- *)
Definition ex_t : tree :=
  Node (mkStat 1 1 true 0 0)
    [([97], Node (mkStat 2 1 true 0 0) [([120], Node (mkStat 3 1 false 0 0) []);
                                         ([121], Node (mkStat 4 1 true 0 0) [([122], Node (mkStat 6 1 false 0 0) [])])]);
     ([98], Node (mkStat 5 1 false 0 0) [])]%N.
Definition ex_t' : tree :=
  Node (mkStat 1 1 true 1 0)
    [([97], Node (mkStat 2 1 true 0 0) [([120], Node (mkStat 3 1 false 0 9) [])]);
     ([99], Node (mkStat 5 1 false 0 0) []); ([101], Node (mkStat 7 1 true 0 0) [])]%N.
Definition ex_root : path := [47; 114]%N.

Example C10_walk_nonvacuous :
  stated [(CList, [47;114;47;97;47;121], EACCES); (CStat, [47;114;47;98], ENOENT)]%N = true /\
  snapshot_of true [(CList, [47;114;47;97;47;121], EACCES); (CStat, [47;114;47;98], ENOENT)]%N ex_root (Some ex_t) =
  Snap [([47;114], mkStat 1 1 true 0 0); ([47;114;47;97], mkStat 2 1 true 0 0);
        ([47;114;47;97;47;120], mkStat 3 1 false 0 0); ([47;114;47;97;47;121], mkStat 4 1 true 0 0)]%N.
Proof. vm_compute. split; reflexivity. Qed.

Example C10_poll_nonvacuous :
  exists st, start true [] ex_root (Some ex_t) = Some st /\
  poll true [] ex_root (Some ex_t') st =
  PStep [Ev FileDeleted [47;114;47;97;47;121;47;122] None; Ev FileModified [47;114;47;97;47;120] None;
         Ev FileMoved [47;114;47;98] (Some [47;114;47;99]);
         Ev DirDeleted [47;114;47;97;47;121] None; Ev DirModified [47;114] None;
         Ev DirCreated [47;114;47;101] None]%N
        (mkE ((ex_root, stat_of ex_t') :: reach true ex_root ex_t') false).
Proof. eexists. split; [vm_compute; reflexivity | vm_compute; reflexivity]. Qed.

Example C10_root_gone_nonvacuous :
  exists st, start true [] ex_root (Some ex_t) = Some st /\
  poll true [] ex_root None st = PStep [Ev DirDeleted ex_root None] (mkE (prev st) true).
Proof. eexists. split; vm_compute; reflexivity. Qed.
