(* C15 - Handlers call exactly the callbacks the event type and match rules dictate.
   Only statements; every proof is `exact <lemma>`.

   Oracles (universally quantified in every theorem): lower = str.lower,
   mp / mw = PurePosixPath(path).match(pattern) / PureWindowsPath(path).match(pattern),
   rmatch cs r p = re.compile(r, 0 if cs else re.IGNORECASE).match(p) is not None.
   gmatch cs path pat = "path matches pat, case folded when case-insensitive"
                      = if cs then mp path pat else mw path (lower pat).
   own_paths e = the non-empty ones among src_path and dest_path ("its paths"). *)
Require Import WD.Base.Prelude WD.Model.Handlers WD.Proofs.HandlersProofs.

(* ---------------------------------------------------------------- base handler *)
(* For each of the 11 concrete event classes (and FileSystemMovedEvent), whatever the paths:
   on_any_event, then exactly the one on_<type> callback of the class's event type; each once. *)
Theorem C15_base : forall src dest,
  map (fun c => dispatch_base (mkEvent c src dest))
      [FileDeletedEvent; FileModifiedEvent; FileCreatedEvent; FileMovedEvent; FileClosedEvent;
       FileClosedNoWriteEvent; FileOpenedEvent; DirDeletedEvent; DirModifiedEvent; DirCreatedEvent;
       DirMovedEvent; FileSystemMovedEvent]
  = [Done [OnAny; On Deleted]; Done [OnAny; On Modified]; Done [OnAny; On Created]; Done [OnAny; On Moved];
     Done [OnAny; On Closed]; Done [OnAny; On ClosedNoWrite]; Done [OnAny; On Opened];
     Done [OnAny; On Deleted]; Done [OnAny; On Modified]; Done [OnAny; On Created]; Done [OnAny; On Moved];
     Done [OnAny; On Moved]].
Proof. exact dispatch_base_table. Qed.
Print Assumptions C15_base.

Theorem C15_base_typed : forall c src dest t,
  event_type c = Some t -> dispatch_base (mkEvent c src dest) = Done [OnAny; On t].
Proof. exact dispatch_base_typed. Qed.
Print Assumptions C15_base_typed.

(* The table above is complete: the only other class is the bare FileSystemEvent, whose
   event_type "" names no callback (AttributeError after on_any_event). *)
Theorem C15_base_complete : forall c,
  In c concrete_classes \/ c = FileSystemMovedEvent \/ c = FileSystemEvent.
Proof. exact classes_complete. Qed.
Print Assumptions C15_base_complete.

Theorem C15_base_bare : forall src dest,
  dispatch_base (mkEvent FileSystemEvent src dest) = Raised [OnAny] AttributeError.
Proof. exact dispatch_base_bare. Qed.
Print Assumptions C15_base_bare.

(* ---------------------------------------------------------------- pattern handler *)
(* For a configuration without a pattern that is both included and excluded: the handler hands the
   event to the base dispatch iff it is not an ignored directory event and at least one of its
   paths matches an include pattern and no exclude pattern; otherwise it does nothing. *)
Theorem C15_pattern_iff : forall (lower : bytes -> bytes) (mp mw : bytes -> bytes -> bool) cfg e,
  let cs := p_cs cfg in
  let incl := default [star] (p_patterns cfg) in
  let excl := default [] (p_ignore cfg) in
  (forall q, In q (fold_case lower cs incl) -> ~ In q (fold_case lower cs excl)) ->
  let rule :=
    ~ (p_ignore_dirs cfg = true /\ is_directory (ecls e) = true) /\
    exists p, In p (own_paths e) /\
      (exists i, In i incl /\ gmatch lower mp mw cs p i = true) /\
      (forall x, In x excl -> gmatch lower mp mw cs p x = false) in
  (pattern_dispatch lower mp mw cfg e = dispatch_base e <-> rule) /\
  (pattern_dispatch lower mp mw cfg e = Done [] <-> ~ rule).
Proof. exact pattern_iff. Qed.
Print Assumptions C15_pattern_iff.

(* A pattern both included and excluded (after case folding) is rejected: ValueError, no callback,
   for every event that is not an ignored directory event and has a path. *)
Theorem C15_pattern_conflict : forall (lower : bytes -> bytes) (mp mw : bytes -> bytes -> bool) cfg e q,
  In q (fold_case lower (p_cs cfg) (default [star] (p_patterns cfg))) ->
  In q (fold_case lower (p_cs cfg) (default [] (p_ignore cfg))) ->
  ~ (p_ignore_dirs cfg = true /\ is_directory (ecls e) = true) ->
  own_paths e <> [] ->
  pattern_dispatch lower mp mw cfg e = Raised [] ValueError.
Proof. exact pattern_conflict. Qed.
Print Assumptions C15_pattern_conflict.

Theorem C15_pattern_raises_only_on_conflict : forall (lower : bytes -> bytes) (mp mw : bytes -> bytes -> bool) cfg e,
  pattern_dispatch lower mp mw cfg e = Raised [] ValueError ->
  exists q, In q (fold_case lower (p_cs cfg) (default [star] (p_patterns cfg))) /\
            In q (fold_case lower (p_cs cfg) (default [] (p_ignore cfg))).
Proof. exact pattern_raises_only_on_conflict. Qed.
Print Assumptions C15_pattern_raises_only_on_conflict.

(* Defaults: patterns=None behaves as ["*"], ignore_patterns=None as []; and if "*" matches every
   path of the event (the oracle's include-all), every event that is not an ignored directory event
   is dispatched. *)
Theorem C15_pattern_defaults : forall (lower : bytes -> bytes) (mp mw : bytes -> bytes -> bool) cfg e,
  pattern_dispatch lower mp mw cfg e =
  pattern_dispatch lower mp mw
    (mkP (Some (default [star] (p_patterns cfg))) (Some (default [] (p_ignore cfg)))
         (p_ignore_dirs cfg) (p_cs cfg)) e.
Proof. exact pattern_defaults. Qed.
Print Assumptions C15_pattern_defaults.

Theorem C15_pattern_default_includes_all : forall (lower : bytes -> bytes) (mp mw : bytes -> bytes -> bool) igd cs e,
  (forall p, In p (own_paths e) -> gmatch lower mp mw cs p star = true) ->
  ~ (igd = true /\ is_directory (ecls e) = true) -> own_paths e <> [] ->
  pattern_dispatch lower mp mw (mkP None None igd cs) e = dispatch_base e.
Proof. exact pattern_default_includes_all. Qed.
Print Assumptions C15_pattern_default_includes_all.

(* ---------------------------------------------------------------- regex handler *)
(* The regex handler hands the event to the base dispatch iff (it is not an ignored directory
   event and) no path of the event matches an ignore regex and some path matches an include regex;
   otherwise it does nothing. *)
Theorem C15_regex_iff : forall (rmatch : bool -> bytes -> bytes -> bool) cfg e,
  let cs := r_cs cfg in
  let rule :=
    ~ (r_ignore_dirs cfg = true /\ is_directory (ecls e) = true) /\
    (forall p r, In p (own_paths e) -> In r (default [] (r_ignore cfg)) -> rmatch cs r p = false) /\
    (exists p r, In p (own_paths e) /\ In r (regex_list (r_regexes cfg)) /\ rmatch cs r p = true) in
  (regex_dispatch rmatch cfg e = dispatch_base e <-> rule) /\
  (regex_dispatch rmatch cfg e = Done [] <-> ~ rule).
Proof. exact regex_iff. Qed.
Print Assumptions C15_regex_iff.

Theorem C15_regex_defaults : forall (rmatch : bool -> bytes -> bytes -> bool) cfg e,
  regex_dispatch rmatch cfg e =
  regex_dispatch rmatch (mkR (RList (regex_list (r_regexes cfg))) (Some (default [] (r_ignore cfg)))
                             (r_ignore_dirs cfg) (r_cs cfg)) e.
Proof. exact regex_defaults. Qed.
Print Assumptions C15_regex_defaults.

Theorem C15_regex_default_includes_all : forall (rmatch : bool -> bytes -> bytes -> bool) igd cs e,
  (forall p, rmatch cs dotstar p = true) ->
  ~ (igd = true /\ is_directory (ecls e) = true) -> own_paths e <> [] ->
  regex_dispatch rmatch (mkR RNone None igd cs) e = dispatch_base e.
Proof. exact regex_default_includes_all. Qed.
Print Assumptions C15_regex_default_includes_all.

(* ---------------------------------------------------------------- the path filters *)
(* filter_paths returns a sub-sequence of its input: exactly the elements that match an include
   pattern and no exclude pattern, in input order. *)
Theorem C15_filter_subseq : forall (lower : bytes -> bytes) (mp mw : bytes -> bytes -> bool) paths incl excl cs l,
  filter_paths lower mp mw paths incl excl cs = Ok l ->
  subseq l paths /\
  l = filter (fun p => existsb (gmatch lower mp mw cs p) (default [star] incl) &&
                       negb (existsb (gmatch lower mp mw cs p) (default [] excl))) paths /\
  (forall p, In p l <-> In p paths /\
             (exists i, In i (default [star] incl) /\ gmatch lower mp mw cs p i = true) /\
             (forall x, In x (default [] excl) -> gmatch lower mp mw cs p x = false)).
Proof. exact filter_paths_subseq. Qed.
Print Assumptions C15_filter_subseq.

Theorem C15_match_path_agrees : forall (lower : bytes -> bytes) (mp mw : bytes -> bytes -> bool) cs incl excl p b,
  match_path lower mp mw p incl excl cs = Ok b ->
  (b = true <-> (exists i, In i incl /\ gmatch lower mp mw cs p i = true) /\
                (forall x, In x excl -> gmatch lower mp mw cs p x = false)).
Proof. exact match_path_agrees. Qed.
Print Assumptions C15_match_path_agrees.

Theorem C15_match_any_agrees : forall (lower : bytes -> bytes) (mp mw : bytes -> bytes -> bool) paths incl excl cs b,
  match_any_paths lower mp mw paths incl excl cs = Ok b ->
  (b = true <-> exists p, In p paths /\
                (exists i, In i (default [star] incl) /\ gmatch lower mp mw cs p i = true) /\
                (forall x, In x (default [] excl) -> gmatch lower mp mw cs p x = false)).
Proof. exact match_any_paths_agrees. Qed.
Print Assumptions C15_match_any_agrees.

(* A pattern both included and excluded is rejected by all three filters (the generator raises at
   the first path, so the path list must be non-empty); without such a pattern none of them rejects. *)
Theorem C15_conflict : forall (lower : bytes -> bytes) (mp mw : bytes -> bytes -> bool) cs incl excl q,
  In q (fold_case lower cs (default [star] incl)) -> In q (fold_case lower cs (default [] excl)) ->
  (forall p, match_path lower mp mw p (default [star] incl) (default [] excl) cs = Conflict) /\
  (forall paths, paths <> [] ->
     filter_paths lower mp mw paths incl excl cs = Conflict /\
     match_any_paths lower mp mw paths incl excl cs = Conflict).
Proof. exact conflict_rejected. Qed.
Print Assumptions C15_conflict.

Theorem C15_no_conflict_total : forall (lower : bytes -> bytes) (mp mw : bytes -> bytes -> bool) cs incl excl,
  (forall q, In q (fold_case lower cs (default [star] incl)) -> ~ In q (fold_case lower cs (default [] excl))) ->
  (forall p, match_path lower mp mw p (default [star] incl) (default [] excl) cs <> Conflict) /\
  (forall paths, filter_paths lower mp mw paths incl excl cs <> Conflict /\
                 match_any_paths lower mp mw paths incl excl cs <> Conflict).
Proof. exact no_conflict_never_rejected. Qed.
Print Assumptions C15_no_conflict_total.

(* ---------------------------------------------------------------- the pinned code (findings F7, F7b) *)
(* Pinned handlers append dest_path even when it is "" (hasattr on a dataclass field is always
   true).  For every regex oracle, every regex r that matches "" but not the (non-empty) source of a
   non-move event: include [r] dispatches the event although no path of it matches ... *)
Theorem C15_regex_pinned_include_refuted : forall (rmatch : bool -> bytes -> bytes -> bool) r cs c src,
  src <> [] -> rmatch cs r [] = true -> rmatch cs r src = false ->
  let cfg := mkR (RList [r]) None false cs in
  let e := mkEvent c src [] in
  regex_dispatch_pinned rmatch cfg e = dispatch_base e /\
  ~ (~ (r_ignore_dirs cfg = true /\ is_directory (ecls e) = true) /\
     (forall p r, In p (own_paths e) -> In r (default [] (r_ignore cfg)) -> rmatch cs r p = false) /\
     (exists p r, In p (own_paths e) /\ In r (regex_list (r_regexes cfg)) /\ rmatch cs r p = true)).
Proof. exact regex_pinned_include_empty. Qed.
Print Assumptions C15_regex_pinned_include_refuted.

(* ... and ignore [r] suppresses the event although no path of it matches r. *)
Theorem C15_regex_pinned_ignore_refuted : forall (rmatch : bool -> bytes -> bytes -> bool) r cs c src,
  src <> [] -> rmatch cs r [] = true -> rmatch cs r src = false -> rmatch cs dotstar src = true ->
  let cfg := mkR RNone (Some [r]) false cs in
  let e := mkEvent c src [] in
  regex_dispatch_pinned rmatch cfg e = Done [] /\
  (~ (r_ignore_dirs cfg = true /\ is_directory (ecls e) = true) /\
   (forall p r, In p (own_paths e) -> In r (default [] (r_ignore cfg)) -> rmatch cs r p = false) /\
   (exists p r, In p (own_paths e) /\ In r (regex_list (r_regexes cfg)) /\ rmatch cs r p = true)).
Proof. exact regex_pinned_ignore_empty. Qed.
Print Assumptions C15_regex_pinned_ignore_refuted.

(* The C15_regex_iff statement is false of the pinned regex handler (witness: regex "^$",
   FileCreatedEvent("a")). *)
Theorem C15_regex_pinned_refuted :
  exists (rmatch : bool -> bytes -> bytes -> bool) cfg e,
    ~ (regex_dispatch_pinned rmatch cfg e = dispatch_base e <-> regex_rule rmatch cfg e).
Proof. exact regex_pinned_refuted. Qed.
Print Assumptions C15_regex_pinned_refuted.

(* Pinned match_any_paths = any(<the yielded path strings>): a matching path "" is yielded but is
   falsy, so the answer disagrees with the matching (witness: paths [""], include "**"). *)
Theorem C15_match_any_pinned_refuted :
  exists (lower : bytes -> bytes) (mp mw : bytes -> bytes -> bool) paths incl,
    match_any_paths_pinned lower mp mw paths (Some incl) None true = Ok false /\
    exists p i, In p paths /\ In i incl /\ gmatch lower mp mw true p i = true.
Proof. exact match_any_pinned_refuted. Qed.
Print Assumptions C15_match_any_pinned_refuted.

(* That falsy "" is what keeps the pinned pattern handler right: with a source path it takes the
   same decision as the repaired one ... *)
Theorem C15_pattern_pinned_agrees : forall (lower : bytes -> bytes) (mp mw : bytes -> bytes -> bool) cfg e,
  esrc e <> [] ->
  pattern_dispatch_pinned lower mp mw cfg e = pattern_dispatch lower mp mw cfg e.
Proof. exact pattern_pinned_agrees. Qed.
Print Assumptions C15_pattern_pinned_agrees.

(* ... whereas repairing match_any_paths alone, still appending the empty destination, would break
   it (witness: include "**", exclude "a", FileCreatedEvent("a") is dispatched). *)
Theorem C15_pattern_pinned_paths_refuted :
  exists (lower : bytes -> bytes) (mp mw : bytes -> bytes -> bool) cfg e,
    pattern_dispatch_with lower mp mw (fun _ => true) event_paths_pinned cfg e = dispatch_base e /\
    ~ pattern_rule lower mp mw cfg e.
Proof. exact pattern_pinned_paths_refuted. Qed.
Print Assumptions C15_pattern_pinned_paths_refuted.

(* ---------------------------------------------------------------- non-vacuity *)
(* ex_lower / ex_mp / ex_mw / ex_rm: the small concrete oracle defined at the end of HandlersProofs.v *)
(* move event a -> b, include ["a"], exclude ["b"]: dispatched because the source matches "a" and
   no exclude pattern (the destination alone would be excluded) *)
Example C15_pattern_nonvacuous :
  let cfg := mkP (Some [[97%N]]) (Some [[98%N]]) true false in
  let e := mkEvent FileMovedEvent [97%N] [98%N] in
  (forall q, In q (fold_case ex_lower false [[97%N]]) -> ~ In q (fold_case ex_lower false [[98%N]])) /\
  pattern_dispatch ex_lower ex_mp ex_mw cfg e = Done [OnAny; On Moved] /\
  pattern_dispatch ex_lower ex_mp ex_mw cfg (mkEvent DirMovedEvent [97%N] [98%N]) = Done [] /\
  pattern_dispatch ex_lower ex_mp ex_mw cfg (mkEvent FileMovedEvent [98%N] [98%N]) = Done [] /\
  pattern_dispatch ex_lower ex_mp ex_mw cfg (mkEvent FileCreatedEvent [65%N] []) = Done [OnAny; On Created] /\
  pattern_dispatch ex_lower ex_mp ex_mw (mkP (Some [[97%N]]) (Some [[98%N]]) true true)
                   (mkEvent FileCreatedEvent [65%N] []) = Done [].
Proof.
  vm_compute. repeat split.
  intros q [<-|[]] [H|[]]. discriminate H.
Qed.

(* "A" included and "a" excluded conflict when case-insensitive, not when case-sensitive *)
Example C15_conflict_nonvacuous :
  let e := mkEvent FileCreatedEvent [97%N] [] in
  pattern_dispatch ex_lower ex_mp ex_mw (mkP (Some [[65%N]; star]) (Some [[97%N]]) false false) e = Raised [] ValueError /\
  pattern_dispatch ex_lower ex_mp ex_mw (mkP (Some [[65%N]; star]) (Some [[97%N]]) false true) e = Done [] /\
  pattern_dispatch ex_lower ex_mp ex_mw (mkP (Some [[65%N]; star]) (Some [[98%N]]) false true) e = Done [OnAny; On Created] /\
  filter_paths ex_lower ex_mp ex_mw [[97%N]] (Some [[65%N]]) (Some [[97%N]]) false = Conflict /\
  filter_paths ex_lower ex_mp ex_mw [] (Some [[65%N]]) (Some [[97%N]]) false = Ok [].
Proof. vm_compute. repeat split. Qed.

Example C15_filter_nonvacuous :
  filter_paths ex_lower ex_mp ex_mw [[97%N]; [98%N]; [65%N]; [97%N]] None (Some [[98%N]]) true
    = Ok [[97%N]; [65%N]; [97%N]] /\
  filter_paths ex_lower ex_mp ex_mw [[97%N]; [98%N]; [65%N]; [97%N]] (Some [[97%N]]) None false
    = Ok [[97%N]; [65%N]; [97%N]] /\
  match_any_paths ex_lower ex_mp ex_mw [[98%N]; [65%N]] (Some [[97%N]]) None true = Ok false /\
  match_any_paths ex_lower ex_mp ex_mw [[98%N]; [65%N]] (Some [[97%N]]) None false = Ok true.
Proof. vm_compute. repeat split. Qed.

(* move event a -> b, include "a", ignore "b": suppressed because the destination matches an
   ignore regex; without the ignore list it is dispatched through the source *)
Example C15_regex_nonvacuous :
  regex_dispatch ex_rm (mkR (RStr [97%N]) (Some [[98%N]]) false true) (mkEvent FileMovedEvent [97%N] [98%N]) = Done [] /\
  regex_dispatch ex_rm (mkR (RStr [97%N]) None false true) (mkEvent FileMovedEvent [97%N] [98%N]) = Done [OnAny; On Moved] /\
  regex_dispatch ex_rm (mkR (RStr [97%N]) None false true) (mkEvent FileDeletedEvent [65%N] []) = Done [] /\
  regex_dispatch ex_rm (mkR (RStr [97%N]) None false false) (mkEvent FileDeletedEvent [65%N] []) = Done [OnAny; On Deleted] /\
  regex_dispatch ex_rm (mkR RNone None true false) (mkEvent DirDeletedEvent [65%N] []) = Done [] /\
  regex_dispatch ex_rm (mkR RNone None false false) (mkEvent DirDeletedEvent [65%N] []) = Done [OnAny; On Deleted].
Proof. vm_compute. repeat split. Qed.

Example C15_base_nonvacuous :
  dispatch_base (mkEvent FileClosedNoWriteEvent [97%N] []) = Done [OnAny; On ClosedNoWrite] /\
  (forall c, In c concrete_classes -> exists t, event_type c = Some t).
Proof. split; [reflexivity | exact concrete_typed]. Qed.
