(* C19: the NAME law (every path the reader stores / outputs and every path of every event is the watched
   root followed by real, valid entry names) and the TYPE law (typed transcription of queue_events). *)
Require Import WD.Base.Prelude WD.Base.BStr WD.Model.SubEvents WD.Proofs.SubEventsProofs
               WD.Model.Emitter WD.Model.Fs WD.Model.Reader WD.Proofs.ReaderFixProofs WD.Model.PathTypes.

(* ================================================================== byte-string lemmas *)
Definition nosep (n : bytes) : Prop := forall x, In x n -> N.eqb x sep = false.

Lemma valid_nosep n : valid_name n = true -> nosep n.
Proof.
  unfold valid_name. destruct n as [|c n]; [discriminate|]. intros H x Hx.
  rewrite forallb_forall in H. specialize (H x Hx).
  apply andb_true_iff in H as [H _]. now apply negb_true_iff in H.
Qed.

Lemma valid_nonempty n : valid_name n = true -> n <> [].
Proof. destruct n; [discriminate | discriminate]. Qed.

Lemma nosep_rev n : nosep n -> nosep (rev n).
Proof. intros H x Hx. apply H. now apply in_rev. Qed.

Lemma drop_to_sep_rev_app m r : nosep m -> drop_to_sep_rev (m ++ sep :: r) = sep :: r.
Proof.
  induction m as [|c m IH]; intros H; simpl.
  - reflexivity.
  - rewrite (H c) by (left; reflexivity). apply IH. intros x Hx. apply H. right. exact Hx.
Qed.

Lemma basename_rev_app m r acc : nosep m -> basename_rev (m ++ sep :: r) acc = rev m ++ acc.
Proof.
  revert acc. induction m as [|c m IH]; intros acc H; simpl.
  - reflexivity.
  - rewrite (H c) by (left; reflexivity). rewrite IH by (intros x Hx; apply H; right; exact Hx).
    now rewrite <- app_assoc.
Qed.

Lemma basename_rev_indep m a b acc : basename_rev (m ++ sep :: a) acc = basename_rev (m ++ sep :: b) acc.
Proof.
  revert acc. induction m as [|c m IH]; intros acc; simpl.
  - reflexivity.
  - destruct (N.eqb c sep); [reflexivity | apply IH].
Qed.

Lemma rev_app_sep a n : rev (a ++ sep :: n) = rev n ++ sep :: rev a.
Proof. rewrite rev_app_distr. simpl. now rewrite <- app_assoc. Qed.

Lemma basename_app_name a n : nosep n -> basename (a ++ sep :: n) = n.
Proof.
  intros H. unfold basename. rewrite rev_app_sep. rewrite basename_rev_app by now apply nosep_rev.
  now rewrite rev_involutive, app_nil_r.
Qed.

(* the last component does not depend on what precedes the last separator *)
Lemma basename_app_indep a b r : basename (a ++ sep :: r) = basename (b ++ sep :: r).
Proof. unfold basename. rewrite !rev_app_sep. apply basename_rev_indep. Qed.

Lemma last_is_sep_false_rev a :
  a <> [] -> last_is_sep a = false -> exists c r, rev a = c :: r /\ N.eqb c sep = false.
Proof.
  unfold last_is_sep. intros Ha H. destruct (rev a) as [|c r] eqn:E.
  - exfalso. apply Ha. apply (f_equal (@rev N)) in E. now rewrite rev_involutive in E.
  - exists c, r. split; [reflexivity | exact H].
Qed.

Lemma dirname_app_name a n :
  a <> [] -> last_is_sep a = false -> nosep n -> dirname (a ++ sep :: n) = a.
Proof.
  intros Ha Hs Hn. unfold dirname. rewrite rev_app_sep.
  rewrite drop_to_sep_rev_app by now apply nosep_rev.
  destruct (last_is_sep_false_rev a Ha Hs) as [c [r [E Hc]]].
  assert (Hstrip : rstrip_sep (rev (sep :: rev a)) = a).
  { unfold rstrip_sep. rewrite rev_involutive. cbn [rstrip_sep_rev]. rewrite N.eqb_refl.
    rewrite E. cbn [rstrip_sep_rev]. rewrite Hc. rewrite <- E. apply rev_involutive. }
  rewrite Hstrip. destruct a; [contradiction | reflexivity].
Qed.

(* n ++ "/" ++ u = m ++ "/" ++ v with separator-free n, m splits uniquely *)
Lemma nosep_split n m u v :
  nosep n -> nosep m -> n ++ sep :: u = m ++ sep :: v -> n = m /\ u = v.
Proof.
  revert m. induction n as [|c n IH]; intros [|d m] Hn Hm H; simpl in *.
  - inversion H. split; reflexivity.
  - inversion H; subst d.
    exfalso. specialize (Hm sep (or_introl eq_refl)). vm_compute in Hm. discriminate.
  - inversion H; subst c. exfalso. specialize (Hn sep (or_introl eq_refl)). vm_compute in Hn. discriminate.
  - inversion H; subst d. destruct (IH m) as [-> ->]; try assumption.
    + intros x Hx. apply Hn. right. exact Hx.
    + intros x Hx. apply Hm. right. exact Hx.
    + split; reflexivity.
Qed.

Lemma nosep_no_sep_end n m u : nosep n -> nosep m -> n ++ sep :: u = m -> False.
Proof.
  intros Hn Hm H. assert (Hin : In sep m) by (rewrite <- H; apply in_app_iff; right; left; reflexivity).
  specialize (Hm sep Hin). vm_compute in Hm. discriminate.
Qed.

Lemma forallb_valid_cons n rel :
  forallb valid_name (n :: rel) = true -> valid_name n = true /\ forallb valid_name rel = true.
Proof. simpl. intros H. now apply andb_true_iff in H. Qed.

(* a "/"-separated suffix of valid names parses uniquely: if relsuffix a ++ "/" ++ x = relsuffix b then a is a
   prefix of b *)
Lemma relsuffix_parse a : forall b x,
  forallb valid_name a = true -> forallb valid_name b = true ->
  relsuffix a ++ sep :: x = relsuffix b ->
  exists c, b = a ++ c /\ relsuffix c = sep :: x.
Proof.
  induction a as [|n a IH]; intros b x Ha Hb H.
  - exists b. split; [reflexivity|]. unfold relsuffix in H at 1. simpl in H. now rewrite <- H.
  - apply forallb_valid_cons in Ha as [Hn Ha].
    destruct b as [|m b].
    + unfold relsuffix in H. simpl in H. discriminate.
    + apply forallb_valid_cons in Hb as [Hm Hb].
      change (relsuffix (n :: a)) with ((sep :: n) ++ relsuffix a) in H.
      change (relsuffix (m :: b)) with ((sep :: m) ++ relsuffix b) in H.
      simpl in H. inversion H as [H'].
      rewrite <- app_assoc in H'.
      destruct a as [|n2 a].
      * (* a = []: n ++ sep :: x = m ++ relsuffix b *)
        unfold relsuffix in H' at 1. simpl in H'.
        destruct b as [|m2 b].
        { unfold relsuffix in H'. simpl in H'. rewrite app_nil_r in H'.
          exfalso. eapply (nosep_no_sep_end n m x); eauto using valid_nosep. }
        { change (relsuffix (m2 :: b)) with ((sep :: m2) ++ relsuffix b) in H'. simpl in H'.
          apply nosep_split in H' as [-> Hx]; eauto using valid_nosep.
          exists (m2 :: b). split; [reflexivity|].
          change (relsuffix (m2 :: b)) with ((sep :: m2) ++ relsuffix b). simpl. now rewrite Hx. }
      * change (relsuffix (n2 :: a)) with ((sep :: n2) ++ relsuffix a) in H'. simpl in H'.
        destruct b as [|m2 b].
        { unfold relsuffix in H' at 2. simpl in H'. rewrite app_nil_r in H'.
          exfalso. eapply (nosep_no_sep_end n m); eauto using valid_nosep. }
        { change (relsuffix (m2 :: b)) with ((sep :: m2) ++ relsuffix b) in H'. simpl in H'.
          apply nosep_split in H' as [-> Hx]; eauto using valid_nosep.
          destruct (IH (m2 :: b) x) as [c [Hc1 Hc2]].
          - exact Ha.
          - exact Hb.
          - change (relsuffix (n2 :: a)) with ((sep :: n2) ++ relsuffix a).
            change (relsuffix (m2 :: b)) with ((sep :: m2) ++ relsuffix b).
            simpl. rewrite <- app_assoc in Hx. simpl in Hx. rewrite <- Hx. now rewrite <- app_assoc.
          - exists c. split; [now rewrite Hc1 | exact Hc2]. }
Qed.

(* ================================================================== rooted paths *)
Lemma relsuffix_nil : relsuffix [] = [].
Proof. reflexivity. Qed.

Lemma relsuffix_cons n rel : relsuffix (n :: rel) = sep :: n ++ relsuffix rel.
Proof. reflexivity. Qed.

Lemma relsuffix_snoc_ne rel n : relsuffix (rel ++ [n]) <> [].
Proof.
  rewrite relsuffix_app, relsuffix_one. intros H. apply app_eq_nil in H as [_ H]. discriminate.
Qed.

Lemma forallb_valid_app a b :
  forallb valid_name (a ++ b) = true <-> forallb valid_name a = true /\ forallb valid_name b = true.
Proof. rewrite forallb_app. apply andb_true_iff. Qed.

Lemma forallb_valid_snoc a n :
  forallb valid_name (a ++ [n]) = true <-> forallb valid_name a = true /\ valid_name n = true.
Proof. rewrite forallb_valid_app. simpl. rewrite andb_true_r. reflexivity. Qed.

Section Rooted.
  Variable root : bytes.
  Hypothesis Hne : root <> [].
  Hypothesis Hsep : last_is_sep root = false.

  Lemma rooted_root : rooted root root.
  Proof. exists []. split; [reflexivity | now rewrite relsuffix_nil, app_nil_r]. Qed.

  Lemma below_rooted p : below root p -> rooted root p.
  Proof.
    intros [rel [n [Hr [Hn ->]]]]. exists (rel ++ [n]). split; [|reflexivity].
    now apply forallb_valid_snoc.
  Qed.

  Lemma rooted_ne p : rooted root p -> p <> [].
  Proof. intros [rel [_ ->]] H. apply app_eq_nil in H as [H _]. contradiction. Qed.

  Lemma rooted_last p : rooted root p -> last_is_sep p = false.
  Proof. intros [rel [Hv ->]]. now apply last_is_sep_root. Qed.

  Lemma rooted_cases p : rooted root p -> p = root \/ below root p.
  Proof.
    intros [rel [Hv ->]]. destruct rel as [|a rel'] using rev_ind.
    - left. now rewrite relsuffix_nil, app_nil_r.
    - right. apply forallb_valid_snoc in Hv as [Hv Hn]. exists rel', a. repeat split; assumption.
  Qed.

  Lemma not_below_root : ~ below root root.
  Proof.
    intros [rel [n [_ [_ H]]]]. rewrite <- (app_nil_r root) in H at 1.
    apply app_inv_head in H. symmetry in H. now apply relsuffix_snoc_ne in H.
  Qed.

  Lemma rooted_app p q : rooted root p -> forallb valid_name q = true -> rooted root (p ++ relsuffix q).
  Proof.
    intros [rel [Hv ->]] Hq. exists (rel ++ q). split.
    - apply forallb_valid_app. split; assumption.
    - now rewrite relsuffix_app, app_assoc.
  Qed.

  (* os.path.join(p, name) of a rooted path and a valid name *)
  Lemma join_below p n : rooted root p -> valid_name n = true -> below root (join p n).
  Proof.
    intros [rel [Hv ->]] Hn. exists rel, n. repeat split; try assumption.
    now apply join_root.
  Qed.

  Lemma join_rooted p n : rooted root p -> valid_name n = true -> rooted root (join p n).
  Proof. intros Hp Hn. apply below_rooted. now apply join_below. Qed.

  Lemma join_rooted_eq p n : rooted root p -> valid_name n = true -> join p n = p ++ sep :: n.
  Proof.
    intros Hp Hn. apply join_name; [now apply rooted_ne | now apply rooted_last | exact Hn].
  Qed.

  (* THE dirname lemma: the parent of root/rel/n is root/rel *)
  Lemma dirname_rooted rel n :
    forallb valid_name rel = true -> valid_name n = true ->
    dirname (root ++ relsuffix (rel ++ [n])) = root ++ relsuffix rel.
  Proof.
    intros Hv Hn. rewrite relsuffix_app, relsuffix_one, app_assoc.
    apply dirname_app_name.
    - intros H. apply app_eq_nil in H as [H _]. contradiction.
    - now apply last_is_sep_root.
    - now apply valid_nosep.
  Qed.

  Lemma basename_rooted rel n :
    valid_name n = true -> basename (root ++ relsuffix (rel ++ [n])) = n.
  Proof.
    intros Hn. rewrite relsuffix_app, relsuffix_one, app_assoc. apply basename_app_name. now apply valid_nosep.
  Qed.

  Lemma dirname_below p : below root p -> rooted root (dirname p).
  Proof.
    intros [rel [n [Hv [Hn ->]]]]. rewrite dirname_rooted by assumption. exists rel. split; [assumption|reflexivity].
  Qed.

  (* ---------------------------------------------------------------- descendants of a content tree *)
  Lemma desc_valid t : forall rel e,
    wf_tree t = true -> forallb valid_name rel = true -> In e (desc rel t) -> forallb valid_name (snd e) = true.
  Proof.
    induction t as [ds fs IH] using tree_ind'. intros rel e Hwf Hrel Hin.
    apply wf_tree_node in Hwf as [Hfs Hds].
    cbn [desc] in Hin. rewrite !in_app_iff in Hin. destruct Hin as [Hin|[Hin|Hin]].
    - apply in_map_iff in Hin as [d [<- Hd]]. cbn [snd]. apply forallb_valid_snoc. split; [assumption|].
      rewrite Forall_forall in Hds. now destruct (Hds _ Hd).
    - apply in_map_iff in Hin as [f [<- Hf]]. cbn [snd]. apply forallb_valid_snoc. split; [assumption|].
      rewrite forallb_forall in Hfs. now apply Hfs.
    - induction ds as [|[n s] ds IHds]; [contradiction|].
      inversion IH as [|? ? IHs IHrest]; subst. inversion Hds as [|? ? [Hn Hs] Hds']; subst.
      cbn [fst snd] in *. apply in_app_iff in Hin as [Hin|Hin].
      + eapply IHs; [exact Hs | | exact Hin]. apply forallb_valid_snoc. split; assumption.
      + now apply IHds.
  Qed.

  (* ---------------------------------------------------------------- the emitter *)
  Lemma roe_nil : roe root [].
  Proof. left. reflexivity. Qed.

  Lemma sub_moved_ok src dest t :
    rooted root src -> rooted root dest -> wf_tree t = true ->
    forall e, In e (sub_moved src dest t) -> ev_ok root e.
  Proof.
    intros Hs Hd Hwf e Hin. unfold sub_moved in Hin.
    rewrite (sub_moved_correct src dest (rooted_ne _ Hs) (rooted_ne _ Hd) (rooted_last _ Hd) t Hwf) in Hin.
    rewrite map_map in Hin. apply in_map_iff in Hin as [[k q] [<- Hq]].
    apply (desc_valid t [] (k, q) Hwf eq_refl) in Hq. cbn [snd] in Hq.
    unfold expect_moved. cbn [fst snd]. split; right; cbn; now apply rooted_app.
  Qed.

  Lemma sub_created_ok p t :
    rooted root p -> wf_tree t = true -> forall e, In e (sub_created p t) -> ev_ok root e.
  Proof.
    intros Hp Hwf e Hin. unfold sub_created in Hin.
    rewrite (sub_created_correct p (rooted_ne _ Hp) (rooted_last _ Hp) t Hwf) in Hin.
    rewrite map_map in Hin. apply in_map_iff in Hin as [[k q] [<- Hq]].
    apply (desc_valid t [] (k, q) Hwf eq_refl) in Hq. cbn [snd] in Hq.
    unfold expect_created. cbn [fst snd]. split; [right; cbn; now apply rooted_app | apply roe_nil].
  Qed.

  Lemma mk_src_ok c p : rooted root p -> ev_ok root (mk c p []).
  Proof. intros H. split; [right; exact H | apply roe_nil]. Qed.

  Lemma mk_dest_ok c p : rooted root p -> ev_ok root (mk c [] p).
  Proof. intros H. split; [apply roe_nil | right; exact H]. Qed.

  Lemma mk_both_ok c p q : rooted root p -> rooted root q -> ev_ok root (mk c p q).
  Proof. intros H1 H2. split; right; assumption. Qed.

  (* DirModifiedEvent(os.path.dirname(p)): the parent of an entry below the root is rooted; the root's own parent
     (outside the watched tree) is named only by an event about the root itself *)
  Lemma parent_modified_ok p : rooted root p -> ev_ok root (parent_modified p) \/ p = root.
  Proof.
    intros H. destruct (rooted_cases p H) as [->|Hb]; [right; reflexivity | left].
    split; [right; now apply dirname_below | apply roe_nil].
  Qed.

  Definition root_parent_event (it : item) (e : nevent) : Prop :=
    e = parent_modified root /\ exists r, In r (item_raws it) /\ r_path r = root.

  Theorem emit_paths full rec wp content it :
    (forall r, In r (item_raws it) -> rooted root (r_path r)) ->
    (forall p, wf_tree (content p) = true) ->
    forall e, In e (fst (emit full rec wp content it)) -> ev_ok root e \/ root_parent_event it e.
  Proof.
    intros Hr Hc e Hin. destruct it as [x | f t]; cbn [emit] in Hin.
    - assert (Hx : rooted root (r_path x)) by (apply Hr; left; reflexivity).
      assert (Hpm : e = parent_modified (r_path x) -> ev_ok root e \/ root_parent_event (Single x) e).
      { intros ->. destruct (parent_modified_ok _ Hx) as [H|H]; [left; exact H | right].
        split; [now rewrite H | exists x; split; [left; reflexivity | exact H]]. }
      unfold emit_single in Hin.
      repeat match type of Hin with
             | context [if ?b then _ else _] => destruct b
             end; cbn [fst In] in Hin;
      repeat match type of Hin with
             | _ \/ _ => destruct Hin as [Hin|Hin]
             | False => contradiction
             | _ = e => first [ apply Hpm; now symmetry
                              | subst e; left;
                                first [now apply mk_src_ok | now apply mk_dest_ok ] ]
             | In e (sub_created _ _) => left; eapply sub_created_ok; [exact Hx | apply Hc | exact Hin]
             end.
    - assert (Hf : rooted root (r_path f)) by (apply Hr; left; reflexivity).
      assert (Ht : rooted root (r_path t)) by (apply Hr; right; left; reflexivity).
      unfold emit_pair in Hin. cbn [fst In] in Hin.
      destruct Hin as [Hin|[Hin|[Hin|Hin]]].
      + subst e. left. now apply mk_both_ok.
      + subst e. destruct (parent_modified_ok _ Hf) as [H|H]; [left; exact H | right].
        split; [now rewrite H | exists f; split; [left; reflexivity | exact H]].
      + subst e. destruct (parent_modified_ok _ Ht) as [H|H]; [left; exact H | right].
        split; [now rewrite H | exists t; split; [right; left; reflexivity | exact H]].
      + destruct (is_directory (r_mask f) && rec); [|contradiction].
        left. eapply sub_moved_ok; [exact Hf | exact Ht | apply Hc | exact Hin].
  Qed.

  (* an item about entries strictly below the root: no exception *)
  Corollary emit_paths_below full rec wp content it :
    (forall r, In r (item_raws it) -> below root (r_path r)) ->
    (forall p, wf_tree (content p) = true) ->
    forall e, In e (fst (emit full rec wp content it)) -> ev_ok root e.
  Proof.
    intros Hr Hc e Hin.
    destruct (emit_paths full rec wp content it (fun r H => below_rooted _ (Hr r H)) Hc e Hin) as [H|[_ [r [Hi Hp]]]].
    - exact H.
    - exfalso. apply not_below_root. specialize (Hr r Hi). rewrite Hp in Hr. exact Hr.
  Qed.
End Rooted.

(* ================================================================== the TYPE law *)
Lemma tagged_eta v : tagged (pv_tag v) (pv_bytes v) = v.
Proof. destruct v; reflexivity. Qed.

Lemma decode_reader w b : decode_path w (of_reader b) = tagged w b.
Proof. destruct w; reflexivity. Qed.

Lemma dec_bytes wp b : pv_bytes (dec wp b) = b.
Proof. unfold dec. now rewrite decode_reader. Qed.

Lemma dec_tag wp b : pv_tag (dec wp b) = pv_tag wp.
Proof. unfold dec. now rewrite decode_reader. Qed.

Lemma ptag_eqb_refl g : ptag_eqb g g = true.
Proof. destruct g; reflexivity. Qed.

Lemma peqb_dec wp b : peqb (dec wp b) wp = beqb b (pv_bytes wp).
Proof. unfold peqb. now rewrite dec_tag, dec_bytes, ptag_eqb_refl. Qed.

(* ---------------------------------------------------------------- erasure: the typed transcription IS Emitter.emit *)
Lemma erase_tsub_moved src dest t :
  map erase_ev (tsub_moved src dest t) = sub_moved (pv_bytes src) (pv_bytes dest) t.
Proof.
  unfold tsub_moved, sub_moved, sub_moved_events, pwalk.
  induction (walk (pv_bytes dest) t) as [|[[r ds] fs] l IH]; [reflexivity|].
  cbn [map flat_map]. rewrite !map_app. rewrite IH. f_equal.
  unfold moved_step. rewrite !map_app, !map_map. f_equal; apply map_ext; intros a;
    unfold erase_ev, renamed, preplace1, pnonempty, pjoin, tagged; cbn;
    destruct (pv_bytes src); reflexivity.
Qed.

Lemma erase_tsub_created src t :
  map erase_ev (tsub_created src t) = sub_created (pv_bytes src) t.
Proof.
  unfold tsub_created, sub_created, sub_created_events, pwalk.
  induction (walk (pv_bytes src) t) as [|[[r ds] fs] l IH]; [reflexivity|].
  cbn [map flat_map]. rewrite !map_app. rewrite IH. f_equal.
  unfold created_step. rewrite !map_app, !map_map. f_equal; apply map_ext; intros a; reflexivity.
Qed.

Lemma erase_tmk wp c a b : erase_ev (tmk c (dec wp a) (dec wp b)) = mk c a b.
Proof. unfold erase_ev, tmk, mk. cbn. now rewrite !dec_bytes. Qed.
Lemma erase_tmk_l wp c a : erase_ev (tmk c (dec wp a) pempty) = mk c a [].
Proof. unfold erase_ev, tmk, mk. cbn. now rewrite !dec_bytes. Qed.
Lemma erase_tmk_r wp c a : erase_ev (tmk c pempty (dec wp a)) = mk c [] a.
Proof. unfold erase_ev, tmk, mk. cbn. now rewrite !dec_bytes. Qed.
Lemma erase_tparent wp a : erase_ev (tparent_modified (dec wp a)) = parent_modified a.
Proof. unfold erase_ev, tparent_modified, parent_modified, tmk, mk, pdirname. cbn. now rewrite !dec_bytes. Qed.

Theorem typed_emit_erase full rec wp content it :
  erase (typed_emit full rec wp content it) = emit full rec (pv_bytes wp) content it.
Proof.
  destruct it as [x | f t]; cbn [typed_emit emit].
  - unfold temit_single, emit_single. rewrite peqb_dec.
    repeat match goal with
           | |- context [if ?b then _ else _] => destruct b
           end;
    unfold erase; cbn [fst snd map];
    rewrite ?erase_tmk_l, ?erase_tmk_r, ?erase_tparent, ?erase_tsub_created, ?dec_bytes; reflexivity.
  - unfold temit_pair, emit_pair, erase. cbn [fst snd map].
    rewrite erase_tmk, !erase_tparent. f_equal. f_equal. f_equal. f_equal.
    destruct (is_directory (r_mask f) && rec); [|reflexivity].
    now rewrite erase_tsub_moved, !dec_bytes.
Qed.

(* ---------------------------------------------------------------- tags *)
Definition tev_ok (w : ptag) (e : tevent) : Prop := tag_ok w (te_src e) /\ tag_ok w (te_dest e).

Lemma tag_ok_tag w v : pv_tag v = w -> tag_ok w v.
Proof. intros H _. exact H. Qed.

Lemma tag_ok_empty w : tag_ok w pempty.
Proof. intros H. now elim H. Qed.

Lemma pwalk_tags top t r ds fs :
  In (r, ds, fs) (pwalk top t) ->
  pv_tag r = pv_tag top /\ (forall d, In d ds -> pv_tag d = pv_tag top) /\ (forall f, In f fs -> pv_tag f = pv_tag top).
Proof.
  unfold pwalk. intros H. apply in_map_iff in H as [[[r0 ds0] fs0] [E _]]. inversion E; subst.
  split; [reflexivity|]. split; intros x Hx; apply in_map_iff in Hx as [y [<- _]]; reflexivity.
Qed.

Lemma tsub_moved_tags w src dest t :
  pv_tag dest = w -> forall e, In e (tsub_moved src dest t) -> tev_ok w e.
Proof.
  intros Hd e Hin. unfold tsub_moved in Hin. apply in_flat_map in Hin as [[[r ds] fs] [Hw Hin]].
  apply pwalk_tags in Hw as [Hr _].
  apply in_app_iff in Hin as [Hin|Hin]; apply in_map_iff in Hin as [x [<- _]]; split; cbn [te_src te_dest];
    try (destruct (pnonempty src); [|apply tag_ok_empty]); apply tag_ok_tag; cbn; congruence.
Qed.

Lemma tsub_created_tags w src t :
  pv_tag src = w -> forall e, In e (tsub_created src t) -> tev_ok w e.
Proof.
  intros Hd e Hin. unfold tsub_created in Hin. apply in_flat_map in Hin as [[[r ds] fs] [Hw Hin]].
  apply pwalk_tags in Hw as [Hr _].
  apply in_app_iff in Hin as [Hin|Hin]; apply in_map_iff in Hin as [x [<- _]]; split; cbn [te_src te_dest];
    try apply tag_ok_empty; apply tag_ok_tag; cbn; congruence.
Qed.

Lemma tmk_ok wp c a b :
  (a = pempty \/ exists x, a = dec wp x) -> (b = pempty \/ exists x, b = dec wp x) ->
  tev_ok (pv_tag wp) (tmk c a b).
Proof.
  intros [->|[x ->]] [->|[y ->]]; split; cbn [tmk te_src te_dest];
    try apply tag_ok_empty; apply tag_ok_tag; apply dec_tag.
Qed.

Lemma tparent_ok wp x : tev_ok (pv_tag wp) (tparent_modified (dec wp x)).
Proof.
  split; cbn; [apply tag_ok_tag; cbn; apply dec_tag | apply tag_ok_empty].
Qed.

Theorem typed_emit_tags full rec wp content it :
  forall e, In e (fst (typed_emit full rec wp content it)) -> tev_ok (pv_tag wp) e.
Proof.
  intros e Hin. destruct it as [x | f t]; cbn [typed_emit] in Hin.
  - unfold temit_single in Hin.
    repeat match type of Hin with
           | context [if ?b then _ else _] => destruct b
           end; cbn [fst In] in Hin;
    repeat match type of Hin with
           | _ \/ _ => destruct Hin as [Hin|Hin]
           | False => contradiction
           | _ = e => subst e; first [ apply tparent_ok | apply tmk_ok; eauto ]
           | In e (tsub_created _ _) => eapply tsub_created_tags; [apply dec_tag | exact Hin]
           end.
  - unfold temit_pair in Hin. cbn [fst In] in Hin.
    destruct Hin as [Hin|[Hin|[Hin|Hin]]]; try (subst e; first [ apply tparent_ok | apply tmk_ok; eauto ]).
    destruct (is_directory (r_mask f) && rec); [|contradiction].
    eapply tsub_moved_tags; [apply dec_tag | exact Hin].
Qed.

(* for the three spellings of the watch path: bytes stay bytes, str and pathlib.Path give str *)
Corollary typed_emit_kind full rec k b content it :
  forall e, In e (fst (typed_emit full rec (tagged (watch_tag k) b) content it)) ->
    tag_ok (match k with WBytes => TBytes | _ => TStr end) (te_src e) /\
    tag_ok (match k with WBytes => TBytes | _ => TStr end) (te_dest e).
Proof.
  intros e Hin. apply typed_emit_tags in Hin. destruct k; exact Hin.
Qed.

(* ---------------------------------------------------------------- polling side and agreement *)
Lemma pjoins_tagged root rel : pjoins root rel = tagged (pv_tag root) (joins (pv_bytes root) rel).
Proof.
  revert root. induction rel as [|n rel IH]; intros root; cbn.
  - now rewrite tagged_eta.
  - unfold pjoins, joins in *. cbn [fold_left]. rewrite IH. reflexivity.
Qed.

Lemma pjoins_tag root rel : pv_tag (pjoins root rel) = pv_tag root.
Proof. now rewrite pjoins_tagged. Qed.

Lemma inotify_path_tagged wp rel : inotify_path wp rel = tagged (pv_tag wp) (joins (pv_bytes wp) rel).
Proof. unfold inotify_path. apply decode_reader. Qed.

Theorem inotify_polling_agree wp rel : inotify_path wp rel = pjoins wp rel.
Proof. now rewrite inotify_path_tagged, pjoins_tagged. Qed.

(* with a normalised root and valid names both are root ++ "/n1/n2..." with the watch's tag *)
Theorem agree_rooted wp rel :
  pv_bytes wp <> [] -> last_is_sep (pv_bytes wp) = false -> forallb valid_name rel = true ->
  inotify_path wp rel = tagged (pv_tag wp) (pv_bytes wp ++ relsuffix rel) /\
  pjoins wp rel = tagged (pv_tag wp) (pv_bytes wp ++ relsuffix rel).
Proof.
  intros H1 H2 H3. rewrite inotify_path_tagged, pjoins_tagged. rewrite joins_suffix by assumption. split; reflexivity.
Qed.

(* an event path of the typed emitter that names the entry [rel] (its bytes are root/rel) equals the polling path *)
Theorem event_path_agree full rec wp content it e v rel :
  In e (fst (typed_emit full rec wp content it)) -> (v = te_src e \/ v = te_dest e) ->
  pv_bytes wp <> [] -> last_is_sep (pv_bytes wp) = false -> forallb valid_name rel = true ->
  pv_bytes v = pv_bytes wp ++ relsuffix rel ->
  v = pjoins wp rel.
Proof.
  intros Hin Hv H1 H2 H3 Hb. apply typed_emit_tags in Hin as [Hs Hd].
  assert (Hne : pv_bytes v <> []).
  { rewrite Hb. intros H. apply app_eq_nil in H as [H _]. contradiction. }
  assert (Ht : pv_tag v = pv_tag wp) by (destruct Hv as [->| ->]; [now apply Hs | now apply Hd]).
  rewrite pjoins_tagged, joins_suffix by assumption. rewrite <- Hb, <- Ht. symmetry. apply tagged_eta.
Qed.

(* ================================================================== the reader invariant *)
Section AssocLemmas.
  Context {K V : Type} (keq : K -> K -> bool).

  Lemma in_aset (k : K) (v : V) (m : list (K * V)) (a : K) (b : V) :
    In (a, b) (aset keq k v m) -> In (a, b) m \/ (b = v /\ (a = k \/ keq k a = true)).
  Proof.
    induction m as [|[k' v'] m IH]; simpl; intros H.
    - destruct H as [H|[]]. inversion H; subst. right. split; [reflexivity | left; reflexivity].
    - destruct (keq k k') eqn:E; simpl in H.
      + destruct H as [H|H]; [inversion H; subst; right; split; [reflexivity | right; exact E] | left; right; exact H].
      + destruct H as [H|H]; [left; left; exact H|]. destruct (IH H) as [H'|H']; [left; right; exact H' | right; exact H'].
  Qed.

  Lemma in_aremove k (m : list (K * V)) x : In x (aremove keq k m) -> In x m.
  Proof.
    induction m as [|[k' v'] m IH]; simpl; intros H; [exact H|].
    destruct (keq k k'); [right; now apply IH|]. destruct H as [H|H]; [left; exact H | right; now apply IH].
  Qed.

  Lemma alookup_in (k : K) (m : list (K * V)) (v : V) : alookup keq k m = Some v -> exists k', In (k', v) m /\ keq k k' = true.
  Proof.
    induction m as [|[k' v'] m IH]; simpl; intros H; [discriminate|].
    destruct (keq k k') eqn:E.
    - inversion H; subst. exists k'. split; [left; reflexivity | exact E].
    - destruct (IH H) as [k'' [Hin Hk]]. exists k''. split; [right; exact Hin | exact Hk].
  Qed.
End AssocLemmas.

Lemma wf_tree_intro ds fs :
  forallb valid_name fs = true ->
  Forall (fun d => valid_name (fst d) = true /\ wf_tree (snd d) = true) ds ->
  wf_tree (Node ds fs) = true.
Proof.
  intros Hf Hd. cbn [wf_tree]. rewrite Hf. cbn [andb].
  induction Hd as [|[n s] ds [Hn Hs] _ IH]; [reflexivity|]. cbn [fst snd] in *. now rewrite Hn, Hs, IH.
Qed.

Lemma content_fuel_wf t : fs_names_ok t -> forall fuel d, wf_tree (content_fuel fuel t d) = true.
Proof.
  intros Hok fuel. induction fuel as [|k IH]; intros d; [reflexivity|].
  cbn [content_fuel]. apply wf_tree_intro.
  - apply forallb_forall. intros n Hn. apply in_map_iff in Hn as [e [<- He]].
    apply filter_In in He as [He _]. now apply Hok.
  - apply Forall_forall. intros x Hx. apply in_map_iff in Hx as [e [<- He]].
    apply filter_In in He as [He _]. cbn [fst snd]. split; [now apply Hok | apply IH].
Qed.

Lemma content_wf t d : fs_names_ok t -> wf_tree (content t d) = true.
Proof. intros H. unfold content. destruct (fisdir d t); [now apply content_fuel_wf | reflexivity]. Qed.

Section ReaderInv.
  Variable C : cfg.
  Hypothesis Hne : c_root C <> [].
  Hypothesis Hsep : last_is_sep (c_root C) = false.
  Notation root := (c_root C).

  Notation PathInv := (path_inv (c_root C)).

  Lemma pathinv_init : PathInv rinit0.
  Proof. constructor; [intros ? ? [] | intros ? ? [] | intros ? ? [] | intros ? ? H; cbn in H; discriminate H]. Qed.

  Lemma raw_ok_rooted x : raw_ok root x -> rooted root (r_path x).
  Proof. intros [H|[H _]]; [now apply below_rooted | exact H]. Qed.

  Lemma bump_inv r : PathInv r -> PathInv (bump r).
  Proof. intros [H1 H2 H3 H4]. constructor; assumption. Qed.

  Lemma add_watch_inv r k t p r' k' wd :
    PathInv r -> rooted root p -> add_watch C r k t p = Some (r', k', wd) -> PathInv r'.
  Proof.
    intros [H1 H2 H3 H4] Hp H. unfold add_watch in H.
    destruct (mem_nat (calls r) (c_faults C)); [discriminate|].
    destruct (kadd_watch k t p (c_mask C)) as [[k1 w1]|]; [|discriminate].
    inversion H; subst; clear H. constructor; cbn.
    - intros wd0 p0 Hin. apply in_aset in Hin as [Hin|[-> _]]; eauto.
    - intros p0 wd0 Hin. apply in_aset in Hin as [Hin|[_ [->|E]]]; eauto.
      + apply ReaderFixProofs.unlabel_in in Hin. eauto.
      + apply beqb_eq in E. now subst.
    - exact H3.
    - exact H4.
  Qed.

  Lemma walk_rooted t : forall p r ds fs,
    rooted root p -> wf_tree t = true -> In (r, ds, fs) (walk p t) ->
    rooted root r /\ forallb valid_name ds = true /\ forallb valid_name fs = true.
  Proof.
    induction t as [dl fl IH] using tree_ind'. intros p r ds fs Hp Hwf Hin.
    apply wf_tree_node in Hwf as [Hfs Hds]. cbn [walk] in Hin. destruct Hin as [Hin|Hin].
    - inversion Hin; subst. split; [exact Hp|]. split; [|exact Hfs].
      apply forallb_forall. intros n Hn. apply in_map_iff in Hn as [d [<- Hd]].
      rewrite Forall_forall in Hds. now destruct (Hds _ Hd).
    - induction dl as [|[n s] dl IHdl]; [contradiction|].
      inversion IH as [|? ? IHs IHrest]; subst. inversion Hds as [|? ? [Hn Hs] Hds']; subst.
      cbn [fst snd] in *. apply in_app_iff in Hin as [Hin|Hin].
      + eapply IHs; [| exact Hs | exact Hin]. now apply join_rooted.
      + now apply IHdl.
  Qed.

  Lemma walk_dirs_rooted t p q :
    fs_names_ok t -> rooted root p -> In q (walk_dirs t p) -> rooted root q.
  Proof.
    intros Hok Hp Hin. unfold walk_dirs in Hin. apply in_flat_map in Hin as [[[r ds] fs] [Hw Hin]].
    apply walk_rooted in Hw as [Hr [Hds _]]; [| exact Hp | now apply content_wf].
    apply in_map_iff in Hin as [d [<- Hd]]. apply join_rooted; try assumption.
    rewrite forallb_forall in Hds. now apply Hds.
  Qed.

  Lemma sim_dirs_inv t rt : rooted root rt -> forall ds r k acc r' k' acc',
    forallb valid_name ds = true -> PathInv r -> Forall (raw_ok root) acc ->
    sim_dirs C r k t rt ds acc = (r', k', acc') -> PathInv r' /\ Forall (raw_ok root) acc'.
  Proof.
    intros Hrt. induction ds as [|d ds IH]; intros r k acc r' k' acc' Hv Hi Ha H; cbn [sim_dirs] in H.
    - inversion H; subst. split; assumption.
    - apply forallb_valid_cons in Hv as [Hd Hv].
      destruct (add_watch C r k t (join rt d)) as [[[r1 k1] wd]|] eqn:E.
      + eapply IH; [exact Hv | | | exact H].
        * eapply add_watch_inv; [exact Hi | | exact E]. now apply join_rooted.
        * apply Forall_app. split; [exact Ha|]. constructor; [|constructor]. left. cbn. now apply join_below.
      + exact (IH (bump r) k acc r' k' acc' Hv (bump_inv _ Hi) Ha H).
  Qed.

  Lemma sim_files_inv r rt : rooted root rt -> forall fl acc acc',
    forallb valid_name fl = true -> Forall (raw_ok root) acc ->
    sim_files C r rt fl acc = Done acc' -> Forall (raw_ok root) acc'.
  Proof.
    intros Hrt. induction fl as [|f fl IH]; intros acc acc' Hv Ha H; cbn [sim_files] in H.
    - now inversion H; subst.
    - apply forallb_valid_cons in Hv as [Hf Hv].
      destruct (alookup beqb (dirname (join rt f)) (wfp r)).
      + eapply IH; [exact Hv | | exact H].
        apply Forall_app. split; [exact Ha|]. constructor; [|constructor]. left. cbn. now apply join_below.
      + destruct (c_fix_simulate C); [|discriminate]. eapply IH; [exact Hv | exact Ha | exact H].
  Qed.

  Lemma simulate_inv t : forall w r k acc r' k' acc',
    (forall rt ds fl, In (rt, ds, fl) w ->
       rooted root rt /\ forallb valid_name ds = true /\ forallb valid_name fl = true) ->
    PathInv r -> Forall (raw_ok root) acc ->
    simulate C r k t w acc = Done (r', k', acc') -> PathInv r' /\ Forall (raw_ok root) acc'.
  Proof.
    induction w as [|[[rt ds] fl] w IH]; intros r k acc r' k' acc' Hw Hi Ha H; cbn [simulate] in H.
    - inversion H; subst. split; assumption.
    - destruct (Hw rt ds fl (or_introl eq_refl)) as [Hrt [Hds Hfl]].
      destruct (sim_dirs C r k t rt ds acc) as [[r1 k1] acc1] eqn:E1.
      destruct (sim_dirs_inv t rt Hrt ds r k acc r1 k1 acc1 Hds Hi Ha E1) as [Hi1 Ha1].
      destruct (sim_files C r1 rt fl acc1) as [acc2|] eqn:E2; [|discriminate].
      eapply IH; [| exact Hi1 | | exact H].
      + intros ? ? ? Hin. apply Hw. right. exact Hin.
      + eapply sim_files_inv; [exact Hrt | exact Hfl | exact Ha1 | exact E2].
  Qed.

  (* the C14 re-key: a key src/rest becomes dst/rest, still rooted *)
  Lemma rekey_rooted src dst p :
    rooted root src -> rooted root dst -> rooted root p -> starts (src ++ [sep]) p = true ->
    rooted root (replace_first src dst p).
  Proof.
    intros Hs Hd Hp Hst. apply starts_spec in Hst as [rest ->]. rewrite <- app_assoc. cbn [app].
    rewrite <- app_assoc in Hp. cbn [app] in Hp.
    rewrite replace_first_prefix by (eapply rooted_ne; eauto).
    destruct Hs as [rs [Hrs ->]]. destruct Hd as [rd [Hrd ->]]. destruct Hp as [rp [Hrp Hp]].
    rewrite <- app_assoc in Hp. apply app_inv_head in Hp.
    destruct (relsuffix_parse rs rp rest Hrs Hrp Hp) as [c [-> Hc]].
    apply forallb_valid_app in Hrp as [_ Hcv].
    exists (rd ++ c). split; [apply forallb_valid_app; split; assumption|].
    rewrite relsuffix_app, Hc. now rewrite <- app_assoc.
  Qed.

  Lemma rekey_loop_inv src dst : rooted root src -> rooted root dst ->
    forall keys r, PathInv r -> PathInv (rekey_loop keys src dst r).
  Proof.
    intros Hs Hd. induction keys as [|[p w] keys IH]; intros r Hi; cbn [rekey_loop]; [exact Hi|].
    destruct (starts (src ++ [sep]) p) eqn:Est; [|now apply IH].
    destruct (alookup beqb p (wfp r)) as [wd|] eqn:El; [|now apply IH].
    apply IH. destruct Hi as [H1 H2 H3 H4].
    apply alookup_in in El as [p' [Hin Hk]]. apply beqb_eq in Hk. subst p'.
    assert (Hnp : rooted root (replace_first src dst p)) by (apply rekey_rooted; eauto).
    constructor; cbn.
    - intros wd0 p0 Hin0. apply in_aset in Hin0 as [Hin0|[-> _]]; eauto.
    - intros p0 wd0 Hin0. apply in_aset in Hin0 as [Hin0|[_ [->|E]]].
      + apply in_aremove in Hin0. eauto.
      + exact Hnp.
      + apply beqb_eq in E. now subst.
    - exact H3.
    - exact H4.
  Qed.

  Lemma add_dirs_inv t : forall ps r k r' k',
    (forall p, In p ps -> rooted root p) -> PathInv r ->
    add_dirs C r k t ps = (r', k') -> PathInv r'.
  Proof.
    induction ps as [|p ps IH]; intros r k r' k' Hps Hi H; cbn [add_dirs] in H.
    - now inversion H; subst.
    - destruct (add_watch C r k t p) as [[[r1 k1] wd]|] eqn:E.
      + eapply IH; [| | exact H]; [intros q Hq; apply Hps; right; exact Hq|].
        eapply add_watch_inv; [exact Hi | | exact E]. apply Hps. left. reflexivity.
      + inversion H; subst. now apply bump_inv.
  Qed.

  Lemma noparent_not_moved_to m : noparent m = true -> is_moved_to m = false.
  Proof.
    unfold noparent. intros H. repeat (apply andb_true_iff in H as [H ?]). now apply negb_true_iff in H.
  Qed.

  (* the loop body after the head (the whole body of the pinned code); a record for an unknown descriptor is skipped *)
  Lemma read_one_body_inv t r k acc e r' k' acc' :
    fs_names_ok t -> PathInv r -> Forall (raw_ok root) acc -> kraw_ok e ->
    read_one_body C t (r, k, acc) e = Done (r', k', acc') -> PathInv r' /\ Forall (raw_ok root) acc'.
  Proof.
    intros Hfs Hi Ha He H. unfold read_one_body in H.
    destruct (alookup N.eqb (k_wd e) (pfw r)) as [wd_path|] eqn:Ewd;
      [|destruct (c_fix_moveout C); [inversion H; subst; split; assumption | discriminate]].
    assert (Hwd : rooted root wd_path).
    { apply alookup_in in Ewd as [wd' [Hin _]]. eapply pi_pfw; eauto. }
    set (src_path := match k_name e with [] => wd_path | _ :: _ => join wd_path (k_name e) end) in *.
    assert (Hsrc : rooted root src_path).
    { unfold src_path. destruct He as [Hv|[-> _]]; [|exact Hwd].
      destruct (k_name e) eqn:En; [discriminate|]. rewrite <- En in *. now apply join_rooted. }
    set (ev := {| r_wd := k_wd e; r_mask := k_mask e; r_cookie := k_cookie e; r_name := k_name e;
                  r_path := src_path |}) in *.
    assert (Hev : raw_ok root ev).
    { unfold raw_ok, ev, src_path. cbn. destruct He as [Hv|[-> Hnp]].
      - left. destruct (k_name e) eqn:En; [discriminate|]. rewrite <- En in *. now apply join_below.
      - right. split; assumption. }
    match type of H with context [match ?X with pair _ _ => _ end] => destruct X as [[r1 k1] ev1] eqn:EX end.
    assert (H1 : PathInv r1 /\ raw_ok root ev1).
    { destruct (is_moved_from (k_mask e)).
      - inversion EX; subst; clear EX. split; [|exact Hev]. destruct Hi as [P1 P2 P3 P4].
        constructor; cbn; [eauto | eauto | |].
        + intros c p Hin. apply in_aset in Hin as [Hin|[-> _]]; eauto.
        + (* the new candidate is this record's src_path *)
          intros c p Hp. destruct (c_fix_moveout C && c_recursive C && is_directory (k_mask e)); [|eauto].
          inversion Hp; subst. exact Hsrc.
      - destruct (is_moved_to (k_mask e)) eqn:Emt; [|inversion EX; subst; split; assumption].
        set (ev' := {| r_wd := k_wd e; r_mask := k_mask e; r_cookie := k_cookie e; r_name := k_name e;
                       r_path := join wd_path (k_name e) |}) in *.
        assert (Hev' : raw_ok root ev').
        { left. cbn. destruct He as [Hv|[_ Hnp]]; [now apply join_below|].
          apply noparent_not_moved_to in Hnp. congruence. }
        assert (Hdirs : forall r0 k0, add_dirs C r k t (src_path :: walk_dirs t src_path) = (r0, k0) -> PathInv r0).
        { intros r0 k0 Had. eapply add_dirs_inv; [| exact Hi | exact Had].
          intros p [<-|Hp]; [exact Hsrc | eapply walk_dirs_rooted; eauto]. }
        destruct (alookup N.eqb (k_cookie e) (mvf r)) as [msrc|] eqn:Emv.
        + destruct (alookup beqb msrc (wfp r)) as [mwd|] eqn:Emw.
          * inversion EX; subst; clear EX. split; [|exact Hev'].
            assert (Hms : rooted root msrc).
            { apply alookup_in in Emv as [c' [Hin _]]. eapply pi_mvf; eauto. }
            assert (Hi' : PathInv {| wfp := aset beqb src_path mwd (aremove beqb msrc (wfp r));
                                     pfw := aset N.eqb mwd src_path (pfw r); mvf := mvf r; calls := calls r;
                                     pend := pend r |}).
            { destruct Hi as [P1 P2 P3 P4]. constructor; cbn.
              - intros wd0 p0 Hin0. apply in_aset in Hin0 as [Hin0|[-> _]]; eauto.
              - intros p0 wd0 Hin0. apply in_aset in Hin0 as [Hin0|[_ [->|E]]].
                + apply in_aremove in Hin0. eauto.
                + exact Hsrc.
                + apply beqb_eq in E. now subst.
              - exact P3.
              - exact P4. }
            destruct (c_recursive C); [now apply rekey_loop_inv | exact Hi'].
          * destruct (c_fix_movein C && c_recursive C && is_directory (k_mask e) && fisdir src_path t).
            -- destruct (add_dirs C r k t (src_path :: walk_dirs t src_path)) as [r0 k0] eqn:Ead.
               inversion EX; subst. split; [eapply Hdirs; eauto | exact Hev'].
            -- inversion EX; subst. split; assumption.
        + destruct (c_fix_movein C && c_recursive C && is_directory (k_mask e) && fisdir src_path t).
          * destruct (add_dirs C r k t (src_path :: walk_dirs t src_path)) as [r0 k0] eqn:Ead.
            inversion EX; subst. split; [eapply Hdirs; eauto | exact Hev'].
          * inversion EX; subst. split; assumption. }
    destruct H1 as [Hi1 Hev1]. clear EX.
    match type of H with
    | context [match ?X with Done _ => _ | Crash s => Crash s end] => destruct X as [r2|] eqn:E2; [|discriminate]
    end.
    assert (Hi2 : PathInv r2).
    { destruct (is_ignored (k_mask e)); [|inversion E2; subst; exact Hi1].
      destruct (alookup N.eqb (k_wd e) (pfw r1)) as [path|]; [|discriminate].
      assert (Hrp : PathInv {| wfp := wfp r1; pfw := aremove N.eqb (k_wd e) (pfw r1); mvf := mvf r1; calls := calls r1;
                               pend := pend r1 |}).
      { destruct Hi1 as [P1 P2 P3 P4]. constructor; cbn; eauto. intros wd0 p0 Hin0. apply in_aremove in Hin0. eauto. }
      cbn [wfp pfw mvf calls pend] in E2.
      destruct (alookup beqb path (wfp r1)) as [w|].
      - destruct (N.eqb w (k_wd e)); inversion E2; subst; [|exact Hrp].
        destruct Hrp as [P1 P2 P3 P4]. constructor; cbn in *; eauto. intros p0 wd0 Hin0. apply in_aremove in Hin0. eauto.
      - destruct (c_fix_ignored C); [|discriminate]. inversion E2; subst. exact Hrp. }
    assert (Hacc2 : Forall (raw_ok root) (acc ++ [ev1])).
    { apply Forall_app. split; [exact Ha | constructor; [exact Hev1 | constructor]]. }
    destruct (c_recursive C && is_directory (k_mask e) && is_create (k_mask e)).
    - destruct (add_watch C r2 k1 t (r_path ev1)) as [[[r3 k3] wd3]|] eqn:Eaw.
      + eapply simulate_inv; [| | exact Hacc2 | exact H].
        * intros rt ds fl Hin. eapply walk_rooted; [| | exact Hin]; [now apply raw_ok_rooted | now apply content_wf].
        * eapply add_watch_inv; [exact Hi2 | | exact Eaw]. now apply raw_ok_rooted.
      + inversion H; subst. split; [now apply bump_inv | exact Hacc2].
    - inversion H; subst. split; assumption.
  Qed.

  (* _forget_tree only removes entries *)
  Lemma forget_tree_inv p : forall keys r k r' k',
    PathInv r -> forget_tree keys p r k = (r', k') -> PathInv r'.
  Proof.
    induction keys as [|[q x] keys IH]; intros r k r' k' Hi H; cbn [forget_tree] in H.
    - now inversion H; subst.
    - destruct (beqb q p || starts (p ++ [sep]) q); [|eauto].
      destruct (alookup beqb q (wfp r)) as [wd|]; [|eauto].
      assert (Hr1 : PathInv {| wfp := aremove beqb q (wfp r); pfw := pfw r; mvf := mvf r; calls := calls r; pend := pend r |}).
      { destruct Hi as [P1 P2 P3 P4]. constructor; cbn; eauto. intros p0 wd0 Hin0. apply in_aremove in Hin0. eauto. }
      destruct (alookup N.eqb wd (pfw r)) as [q'|]; [|eauto].
      destruct (beqb q' q); [|eauto].
      eapply IH; [|exact H]. cbn [wfp pfw mvf calls pend].
      destruct Hr1 as [P1 P2 P3 P4]. constructor; cbn in *; eauto. intros wd0 p0 Hin0. apply in_aremove in Hin0. eauto.
  Qed.

  (* the head of the loop body: the candidate is dropped; on a mismatch the moved-out tree is forgotten *)
  Lemma settle_pending_inv r k e r' k' : PathInv r -> settle_pending C r k e = (r', k') -> PathInv r'.
  Proof.
    intros Hi H. unfold settle_pending in H.
    destruct (c_fix_moveout C); [|now inversion H; subst].
    destruct (pend r) as [[c p]|]; [|now inversion H; subst].
    assert (Hr0 : PathInv {| wfp := wfp r; pfw := pfw r; mvf := mvf r; calls := calls r; pend := None |}).
    { destruct Hi as [P1 P2 P3 P4]. constructor; cbn; eauto. intros ? ? Hx; discriminate Hx. }
    destruct (is_moved_to (k_mask e) && N.eqb (k_cookie e) c && amem N.eqb (k_wd e) (pfw r)); [now inversion H; subst|].
    eapply forget_tree_inv; eauto.
  Qed.

  Lemma read_one_inv t r k acc e r' k' acc' :
    fs_names_ok t -> PathInv r -> Forall (raw_ok root) acc -> kraw_ok e ->
    read_one C t (r, k, acc) e = Done (r', k', acc') -> PathInv r' /\ Forall (raw_ok root) acc'.
  Proof.
    intros Hfs Hi Ha He H. unfold read_one in H.
    destruct (settle_pending C r k e) as [r0 k0] eqn:Es.
    eapply read_one_body_inv; [exact Hfs | | exact Ha | exact He | exact H].
    eapply settle_pending_inv; eauto.
  Qed.

  Theorem read_batch_inv t : forall b r k acc r' k' acc',
    fs_names_ok t -> PathInv r -> Forall (raw_ok root) acc -> Forall kraw_ok b ->
    read_batch C t (r, k, acc) b = Done (r', k', acc') -> PathInv r' /\ Forall (raw_ok root) acc'.
  Proof.
    induction b as [|e b IH]; intros r k acc r' k' acc' Hfs Hi Ha Hb H; cbn [read_batch] in H.
    - inversion H; subst. split; assumption.
    - inversion Hb as [|? ? He Hb']; subst.
      destruct (read_one C t (r, k, acc) e) as [[[r1 k1] acc1]|] eqn:E; [|discriminate].
      destruct (read_one_inv _ _ _ _ _ _ _ _ Hfs Hi Ha He E) as [Hi1 Ha1].
      eapply IH; eauto.
  Qed.

  Theorem construct_inv k t r' k' :
    fs_names_ok t -> construct C k t = Some (r', k') -> PathInv r'.
  Proof.
    intros Hfs H. unfold construct in H. destruct (fisdir root t); [|discriminate].
    destruct (add_watch C rinit0 k t root) as [[[r1 k1] wd]|] eqn:E; [|discriminate].
    assert (Hi1 : PathInv r1).
    { eapply add_watch_inv; [apply pathinv_init | | exact E]. now apply rooted_root. }
    destruct (c_recursive C); [|inversion H; subst; exact Hi1].
    assert (Hps : forall p, In p (walk_dirs t root) -> rooted root p).
    { intros p Hp. eapply walk_dirs_rooted; eauto. now apply rooted_root. }
    clear E. revert r1 k1 Hi1 H Hps. generalize (walk_dirs t root) as ps.
    induction ps as [|p ps IH]; intros r1 k1 Hi1 H Hps.
    - inversion H; subst. exact Hi1.
    - destruct (add_watch C r1 k1 t p) as [[[r2 k2] wd2]|] eqn:E2; [|discriminate].
      eapply IH; [| exact H |]; [|intros q Hq; apply Hps; right; exact Hq].
      eapply add_watch_inv; [exact Hi1 | | exact E2]. apply Hps. left. reflexivity.
  Qed.

  (* consequence: every InotifyEvent the reader outputs has a rooted src_path *)
  Corollary raw_paths t b r k r' k' out :
    fs_names_ok t -> PathInv r -> Forall kraw_ok b ->
    read_batch C t (r, k, []) b = Done (r', k', out) -> forall x, In x out -> rooted root (r_path x).
  Proof.
    intros Hfs Hi Hb H x Hx.
    destruct (read_batch_inv t b r k [] r' k' out Hfs Hi (Forall_nil _) Hb H) as [_ Ho].
    rewrite Forall_forall in Ho. apply raw_ok_rooted. now apply Ho.
  Qed.
End ReaderInv.

(* ---------------------------------------------------------------- the same invariant, generically: over any pair
   of predicates closed under what the reader does to paths (instantiated below for roots with trailing separators) *)
Section ReaderGen.
  Variable C : cfg.
  Variables R B : bytes -> Prop.
  Hypothesis G_root : R (c_root C).
  Hypothesis G_join : forall p n, R p -> valid_name n = true -> B (join p n).
  Hypothesis G_BR : forall p, B p -> R p.
  Hypothesis G_rekey : forall src dst p,
    R src -> B dst -> R p -> starts (src ++ [sep]) p = true -> R (replace_first src dst p).

  Notation PathInv := (gpath_inv R).
  Notation root := (c_root C).

  Lemma g_pathinv_init : PathInv rinit0.
  Proof. constructor; [intros ? ? [] | intros ? ? [] | intros ? ? [] | intros ? ? H; cbn in H; discriminate H]. Qed.

  Lemma g_raw_ok_rooted x : graw_ok R B x -> R (r_path x).
  Proof. intros [H|[H _]]; [now apply G_BR | exact H]. Qed.

  Lemma g_bump_inv r : PathInv r -> PathInv (bump r).
  Proof. intros [H1 H2 H3 H4]. constructor; assumption. Qed.

  Lemma g_add_watch_inv r k t p r' k' wd :
    PathInv r -> R p -> add_watch C r k t p = Some (r', k', wd) -> PathInv r'.
  Proof.
    intros [H1 H2 H3 H4] Hp H. unfold add_watch in H.
    destruct (mem_nat (calls r) (c_faults C)); [discriminate|].
    destruct (kadd_watch k t p (c_mask C)) as [[k1 w1]|]; [|discriminate].
    inversion H; subst; clear H. constructor; cbn.
    - intros wd0 p0 Hin. apply in_aset in Hin as [Hin|[-> _]]; eauto.
    - intros p0 wd0 Hin. apply in_aset in Hin as [Hin|[_ [->|E]]]; eauto.
      + apply ReaderFixProofs.unlabel_in in Hin. eauto.
      + apply beqb_eq in E. now subst.
    - exact H3.
    - exact H4.
  Qed.

  Lemma g_walk_rooted t : forall p r ds fs,
    R p -> wf_tree t = true -> In (r, ds, fs) (walk p t) ->
    R r /\ forallb valid_name ds = true /\ forallb valid_name fs = true.
  Proof.
    induction t as [dl fl IH] using tree_ind'. intros p r ds fs Hp Hwf Hin.
    apply wf_tree_node in Hwf as [Hfs Hds]. cbn [walk] in Hin. destruct Hin as [Hin|Hin].
    - inversion Hin; subst. split; [exact Hp|]. split; [|exact Hfs].
      apply forallb_forall. intros n Hn. apply in_map_iff in Hn as [d [<- Hd]].
      rewrite Forall_forall in Hds. now destruct (Hds _ Hd).
    - induction dl as [|[n s] dl IHdl]; [contradiction|].
      inversion IH as [|? ? IHs IHrest]; subst. inversion Hds as [|? ? [Hn Hs] Hds']; subst.
      cbn [fst snd] in *. apply in_app_iff in Hin as [Hin|Hin].
      + eapply IHs; [| exact Hs | exact Hin]. apply G_BR; now apply G_join.
      + now apply IHdl.
  Qed.

  Lemma g_walk_dirs_rooted t p q :
    fs_names_ok t -> R p -> In q (walk_dirs t p) -> R q.
  Proof.
    intros Hok Hp Hin. unfold walk_dirs in Hin. apply in_flat_map in Hin as [[[r ds] fs] [Hw Hin]].
    apply g_walk_rooted in Hw as [Hr [Hds _]]; [| exact Hp | now apply content_wf].
    apply in_map_iff in Hin as [d [<- Hd]]. apply G_BR; apply G_join; try assumption.
    rewrite forallb_forall in Hds. now apply Hds.
  Qed.

  Lemma g_sim_dirs_inv t rt : R rt -> forall ds r k acc r' k' acc',
    forallb valid_name ds = true -> PathInv r -> Forall (graw_ok R B) acc ->
    sim_dirs C r k t rt ds acc = (r', k', acc') -> PathInv r' /\ Forall (graw_ok R B) acc'.
  Proof.
    intros Hrt. induction ds as [|d ds IH]; intros r k acc r' k' acc' Hv Hi Ha H; cbn [sim_dirs] in H.
    - inversion H; subst. split; assumption.
    - apply forallb_valid_cons in Hv as [Hd Hv].
      destruct (add_watch C r k t (join rt d)) as [[[r1 k1] wd]|] eqn:E.
      + eapply IH; [exact Hv | | | exact H].
        * eapply g_add_watch_inv; [exact Hi | | exact E]. apply G_BR; now apply G_join.
        * apply Forall_app. split; [exact Ha|]. constructor; [|constructor]. left. cbn. now apply G_join.
      + exact (IH (bump r) k acc r' k' acc' Hv (g_bump_inv _ Hi) Ha H).
  Qed.

  Lemma g_sim_files_inv r rt : R rt -> forall fl acc acc',
    forallb valid_name fl = true -> Forall (graw_ok R B) acc ->
    sim_files C r rt fl acc = Done acc' -> Forall (graw_ok R B) acc'.
  Proof.
    intros Hrt. induction fl as [|f fl IH]; intros acc acc' Hv Ha H; cbn [sim_files] in H.
    - now inversion H; subst.
    - apply forallb_valid_cons in Hv as [Hf Hv].
      destruct (alookup beqb (dirname (join rt f)) (wfp r)).
      + eapply IH; [exact Hv | | exact H].
        apply Forall_app. split; [exact Ha|]. constructor; [|constructor]. left. cbn. now apply G_join.
      + destruct (c_fix_simulate C); [|discriminate]. eapply IH; [exact Hv | exact Ha | exact H].
  Qed.

  Lemma g_simulate_inv t : forall w r k acc r' k' acc',
    (forall rt ds fl, In (rt, ds, fl) w ->
       R rt /\ forallb valid_name ds = true /\ forallb valid_name fl = true) ->
    PathInv r -> Forall (graw_ok R B) acc ->
    simulate C r k t w acc = Done (r', k', acc') -> PathInv r' /\ Forall (graw_ok R B) acc'.
  Proof.
    induction w as [|[[rt ds] fl] w IH]; intros r k acc r' k' acc' Hw Hi Ha H; cbn [simulate] in H.
    - inversion H; subst. split; assumption.
    - destruct (Hw rt ds fl (or_introl eq_refl)) as [Hrt [Hds Hfl]].
      destruct (sim_dirs C r k t rt ds acc) as [[r1 k1] acc1] eqn:E1.
      destruct (g_sim_dirs_inv t rt Hrt ds r k acc r1 k1 acc1 Hds Hi Ha E1) as [Hi1 Ha1].
      destruct (sim_files C r1 rt fl acc1) as [acc2|] eqn:E2; [|discriminate].
      eapply IH; [| exact Hi1 | | exact H].
      + intros ? ? ? Hin. apply Hw. right. exact Hin.
      + eapply g_sim_files_inv; [exact Hrt | exact Hfl | exact Ha1 | exact E2].
  Qed.


  Lemma g_rekey_loop_inv src dst : R src -> B dst ->
    forall keys r, PathInv r -> PathInv (rekey_loop keys src dst r).
  Proof.
    intros Hs Hd. induction keys as [|[p w] keys IH]; intros r Hi; cbn [rekey_loop]; [exact Hi|].
    destruct (starts (src ++ [sep]) p) eqn:Est; [|now apply IH].
    destruct (alookup beqb p (wfp r)) as [wd|] eqn:El; [|now apply IH].
    apply IH. destruct Hi as [H1 H2 H3 H4].
    apply alookup_in in El as [p' [Hin Hk]]. apply beqb_eq in Hk. subst p'.
    assert (Hnp : R (replace_first src dst p)) by (apply G_rekey; eauto).
    constructor; cbn.
    - intros wd0 p0 Hin0. apply in_aset in Hin0 as [Hin0|[-> _]]; eauto.
    - intros p0 wd0 Hin0. apply in_aset in Hin0 as [Hin0|[_ [->|E]]].
      + apply in_aremove in Hin0. eauto.
      + exact Hnp.
      + apply beqb_eq in E. now subst.
    - exact H3.
    - exact H4.
  Qed.

  Lemma g_add_dirs_inv t : forall ps r k r' k',
    (forall p, In p ps -> R p) -> PathInv r ->
    add_dirs C r k t ps = (r', k') -> PathInv r'.
  Proof.
    induction ps as [|p ps IH]; intros r k r' k' Hps Hi H; cbn [add_dirs] in H.
    - now inversion H; subst.
    - destruct (add_watch C r k t p) as [[[r1 k1] wd]|] eqn:E.
      + eapply IH; [| | exact H]; [intros q Hq; apply Hps; right; exact Hq|].
        eapply g_add_watch_inv; [exact Hi | | exact E]. apply Hps. left. reflexivity.
      + inversion H; subst. now apply g_bump_inv.
  Qed.


  (* the loop body after the head (the whole body of the pinned code); a record for an unknown descriptor is skipped *)
  Lemma g_read_one_body_inv t r k acc e r' k' acc' :
    fs_names_ok t -> PathInv r -> Forall (graw_ok R B) acc -> kraw_ok e ->
    read_one_body C t (r, k, acc) e = Done (r', k', acc') -> PathInv r' /\ Forall (graw_ok R B) acc'.
  Proof.
    intros Hfs Hi Ha He H. unfold read_one_body in H.
    destruct (alookup N.eqb (k_wd e) (pfw r)) as [wd_path|] eqn:Ewd;
      [|destruct (c_fix_moveout C); [inversion H; subst; split; assumption | discriminate]].
    assert (Hwd : R wd_path).
    { apply alookup_in in Ewd as [wd' [Hin _]]. eapply gpi_pfw; eauto. }
    set (src_path := match k_name e with [] => wd_path | _ :: _ => join wd_path (k_name e) end) in *.
    assert (Hsrc : R src_path).
    { unfold src_path. destruct He as [Hv|[-> _]]; [|exact Hwd].
      destruct (k_name e) eqn:En; [discriminate|]. rewrite <- En in *. apply G_BR; now apply G_join. }
    set (ev := {| r_wd := k_wd e; r_mask := k_mask e; r_cookie := k_cookie e; r_name := k_name e;
                  r_path := src_path |}) in *.
    assert (Hev : graw_ok R B ev).
    { unfold graw_ok, ev, src_path. cbn. destruct He as [Hv|[-> Hnp]].
      - left. destruct (k_name e) eqn:En; [discriminate|]. rewrite <- En in *. now apply G_join.
      - right. split; assumption. }
    match type of H with context [match ?X with pair _ _ => _ end] => destruct X as [[r1 k1] ev1] eqn:EX end.
    assert (H1 : PathInv r1 /\ graw_ok R B ev1).
    { destruct (is_moved_from (k_mask e)).
      - inversion EX; subst; clear EX. split; [|exact Hev]. destruct Hi as [P1 P2 P3 P4].
        constructor; cbn; [eauto | eauto | |].
        + intros c p Hin. apply in_aset in Hin as [Hin|[-> _]]; eauto.
        + (* the new candidate is this record's src_path *)
          intros c p Hp. destruct (c_fix_moveout C && c_recursive C && is_directory (k_mask e)); [|eauto].
          inversion Hp; subst. exact Hsrc.
      - destruct (is_moved_to (k_mask e)) eqn:Emt; [|inversion EX; subst; split; assumption].
        set (ev' := {| r_wd := k_wd e; r_mask := k_mask e; r_cookie := k_cookie e; r_name := k_name e;
                       r_path := join wd_path (k_name e) |}) in *.
        assert (Hev' : graw_ok R B ev').
        { left. cbn. destruct He as [Hv|[_ Hnp]]; [now apply G_join|].
          apply noparent_not_moved_to in Hnp. congruence. }
        assert (Hsrcb : B src_path).
        { unfold src_path. destruct He as [Hv|[_ Hnp]]; [|apply noparent_not_moved_to in Hnp; congruence].
          destruct (k_name e) eqn:En; [discriminate|]. rewrite <- En in *. now apply G_join. }
        assert (Hdirs : forall r0 k0, add_dirs C r k t (src_path :: walk_dirs t src_path) = (r0, k0) -> PathInv r0).
        { intros r0 k0 Had. eapply g_add_dirs_inv; [| exact Hi | exact Had].
          intros p [<-|Hp]; [exact Hsrc | eapply g_walk_dirs_rooted; eauto]. }
        destruct (alookup N.eqb (k_cookie e) (mvf r)) as [msrc|] eqn:Emv.
        + destruct (alookup beqb msrc (wfp r)) as [mwd|] eqn:Emw.
          * inversion EX; subst; clear EX. split; [|exact Hev'].
            assert (Hms : R msrc).
            { apply alookup_in in Emv as [c' [Hin _]]. eapply gpi_mvf; eauto. }
            assert (Hi' : PathInv {| wfp := aset beqb src_path mwd (aremove beqb msrc (wfp r));
                                     pfw := aset N.eqb mwd src_path (pfw r); mvf := mvf r; calls := calls r;
                                     pend := pend r |}).
            { destruct Hi as [P1 P2 P3 P4]. constructor; cbn.
              - intros wd0 p0 Hin0. apply in_aset in Hin0 as [Hin0|[-> _]]; eauto.
              - intros p0 wd0 Hin0. apply in_aset in Hin0 as [Hin0|[_ [->|E]]].
                + apply in_aremove in Hin0. eauto.
                + exact Hsrc.
                + apply beqb_eq in E. now subst.
              - exact P3.
              - exact P4. }
            destruct (c_recursive C); [now apply g_rekey_loop_inv | exact Hi'].
          * destruct (c_fix_movein C && c_recursive C && is_directory (k_mask e) && fisdir src_path t).
            -- destruct (add_dirs C r k t (src_path :: walk_dirs t src_path)) as [r0 k0] eqn:Ead.
               inversion EX; subst. split; [eapply Hdirs; eauto | exact Hev'].
            -- inversion EX; subst. split; assumption.
        + destruct (c_fix_movein C && c_recursive C && is_directory (k_mask e) && fisdir src_path t).
          * destruct (add_dirs C r k t (src_path :: walk_dirs t src_path)) as [r0 k0] eqn:Ead.
            inversion EX; subst. split; [eapply Hdirs; eauto | exact Hev'].
          * inversion EX; subst. split; assumption. }
    destruct H1 as [Hi1 Hev1]. clear EX.
    match type of H with
    | context [match ?X with Done _ => _ | Crash s => Crash s end] => destruct X as [r2|] eqn:E2; [|discriminate]
    end.
    assert (Hi2 : PathInv r2).
    { destruct (is_ignored (k_mask e)); [|inversion E2; subst; exact Hi1].
      destruct (alookup N.eqb (k_wd e) (pfw r1)) as [path|]; [|discriminate].
      assert (Hrp : PathInv {| wfp := wfp r1; pfw := aremove N.eqb (k_wd e) (pfw r1); mvf := mvf r1; calls := calls r1;
                               pend := pend r1 |}).
      { destruct Hi1 as [P1 P2 P3 P4]. constructor; cbn; eauto. intros wd0 p0 Hin0. apply in_aremove in Hin0. eauto. }
      cbn [wfp pfw mvf calls pend] in E2.
      destruct (alookup beqb path (wfp r1)) as [w|].
      - destruct (N.eqb w (k_wd e)); inversion E2; subst; [|exact Hrp].
        destruct Hrp as [P1 P2 P3 P4]. constructor; cbn in *; eauto. intros p0 wd0 Hin0. apply in_aremove in Hin0. eauto.
      - destruct (c_fix_ignored C); [|discriminate]. inversion E2; subst. exact Hrp. }
    assert (Hacc2 : Forall (graw_ok R B) (acc ++ [ev1])).
    { apply Forall_app. split; [exact Ha | constructor; [exact Hev1 | constructor]]. }
    destruct (c_recursive C && is_directory (k_mask e) && is_create (k_mask e)).
    - destruct (add_watch C r2 k1 t (r_path ev1)) as [[[r3 k3] wd3]|] eqn:Eaw.
      + eapply g_simulate_inv; [| | exact Hacc2 | exact H].
        * intros rt ds fl Hin. eapply g_walk_rooted; [| | exact Hin]; [now apply g_raw_ok_rooted | now apply content_wf].
        * eapply g_add_watch_inv; [exact Hi2 | | exact Eaw]. now apply g_raw_ok_rooted.
      + inversion H; subst. split; [now apply g_bump_inv | exact Hacc2].
    - inversion H; subst. split; assumption.
  Qed.

  (* _forget_tree only removes entries *)
  Lemma g_forget_tree_inv p : forall keys r k r' k',
    PathInv r -> forget_tree keys p r k = (r', k') -> PathInv r'.
  Proof.
    induction keys as [|[q x] keys IH]; intros r k r' k' Hi H; cbn [forget_tree] in H.
    - now inversion H; subst.
    - destruct (beqb q p || starts (p ++ [sep]) q); [|eauto].
      destruct (alookup beqb q (wfp r)) as [wd|]; [|eauto].
      assert (Hr1 : PathInv {| wfp := aremove beqb q (wfp r); pfw := pfw r; mvf := mvf r; calls := calls r; pend := pend r |}).
      { destruct Hi as [P1 P2 P3 P4]. constructor; cbn; eauto. intros p0 wd0 Hin0. apply in_aremove in Hin0. eauto. }
      destruct (alookup N.eqb wd (pfw r)) as [q'|]; [|eauto].
      destruct (beqb q' q); [|eauto].
      eapply IH; [|exact H]. cbn [wfp pfw mvf calls pend].
      destruct Hr1 as [P1 P2 P3 P4]. constructor; cbn in *; eauto. intros wd0 p0 Hin0. apply in_aremove in Hin0. eauto.
  Qed.

  (* the head of the loop body: the candidate is dropped; on a mismatch the moved-out tree is forgotten *)
  Lemma g_settle_pending_inv r k e r' k' : PathInv r -> settle_pending C r k e = (r', k') -> PathInv r'.
  Proof.
    intros Hi H. unfold settle_pending in H.
    destruct (c_fix_moveout C); [|now inversion H; subst].
    destruct (pend r) as [[c p]|]; [|now inversion H; subst].
    assert (Hr0 : PathInv {| wfp := wfp r; pfw := pfw r; mvf := mvf r; calls := calls r; pend := None |}).
    { destruct Hi as [P1 P2 P3 P4]. constructor; cbn; eauto. intros ? ? Hx; discriminate Hx. }
    destruct (is_moved_to (k_mask e) && N.eqb (k_cookie e) c && amem N.eqb (k_wd e) (pfw r)); [now inversion H; subst|].
    eapply g_forget_tree_inv; eauto.
  Qed.

  Lemma g_read_one_inv t r k acc e r' k' acc' :
    fs_names_ok t -> PathInv r -> Forall (graw_ok R B) acc -> kraw_ok e ->
    read_one C t (r, k, acc) e = Done (r', k', acc') -> PathInv r' /\ Forall (graw_ok R B) acc'.
  Proof.
    intros Hfs Hi Ha He H. unfold read_one in H.
    destruct (settle_pending C r k e) as [r0 k0] eqn:Es.
    eapply g_read_one_body_inv; [exact Hfs | | exact Ha | exact He | exact H].
    eapply g_settle_pending_inv; eauto.
  Qed.

  Theorem g_read_batch_inv t : forall b r k acc r' k' acc',
    fs_names_ok t -> PathInv r -> Forall (graw_ok R B) acc -> Forall kraw_ok b ->
    read_batch C t (r, k, acc) b = Done (r', k', acc') -> PathInv r' /\ Forall (graw_ok R B) acc'.
  Proof.
    induction b as [|e b IH]; intros r k acc r' k' acc' Hfs Hi Ha Hb H; cbn [read_batch] in H.
    - inversion H; subst. split; assumption.
    - inversion Hb as [|? ? He Hb']; subst.
      destruct (read_one C t (r, k, acc) e) as [[[r1 k1] acc1]|] eqn:E; [|discriminate].
      destruct (g_read_one_inv _ _ _ _ _ _ _ _ Hfs Hi Ha He E) as [Hi1 Ha1].
      eapply IH; eauto.
  Qed.

  Theorem g_construct_inv k t r' k' :
    fs_names_ok t -> construct C k t = Some (r', k') -> PathInv r'.
  Proof.
    intros Hfs H. unfold construct in H. destruct (fisdir root t); [|discriminate].
    destruct (add_watch C rinit0 k t root) as [[[r1 k1] wd]|] eqn:E; [|discriminate].
    assert (Hi1 : PathInv r1).
    { eapply g_add_watch_inv; [apply g_pathinv_init | | exact E]. exact G_root. }
    destruct (c_recursive C); [|inversion H; subst; exact Hi1].
    assert (Hps : forall p, In p (walk_dirs t root) -> R p).
    { intros p Hp. eapply g_walk_dirs_rooted; eauto. }
    clear E. revert r1 k1 Hi1 H Hps. generalize (walk_dirs t root) as ps.
    induction ps as [|p ps IH]; intros r1 k1 Hi1 H Hps.
    - inversion H; subst. exact Hi1.
    - destruct (add_watch C r1 k1 t p) as [[[r2 k2] wd2]|] eqn:E2; [|discriminate].
      eapply IH; [| exact H |]; [|intros q Hq; apply Hps; right; exact Hq].
      eapply g_add_watch_inv; [exact Hi1 | | exact E2]. apply Hps. left. reflexivity.
  Qed.

  (* consequence: every InotifyEvent the reader outputs has a rooted src_path *)
  Corollary g_raw_paths t b r k r' k' out :
    fs_names_ok t -> PathInv r -> Forall kraw_ok b ->
    read_batch C t (r, k, []) b = Done (r', k', out) -> forall x, In x out -> R (r_path x).
  Proof.
    intros Hfs Hi Hb H x Hx.
    destruct (g_read_batch_inv t b r k [] r' k' out Hfs Hi (Forall_nil _) Hb H) as [_ Ho].
    rewrite Forall_forall in Ho. apply g_raw_ok_rooted. now apply Ho.
  Qed.
End ReaderGen.

(* ================================================================== the kernel and the file system *)
Definition kqueue_ok (k : kst) : Prop := Forall kraw_ok (k_queue k).

Lemma kpush_ok q e : Forall kraw_ok q -> kraw_ok e -> Forall kraw_ok (kpush q e).
Proof.
  intros Hq He. unfold kpush.
  assert (Happ : Forall kraw_ok (q ++ [e])) by (apply Forall_app; split; [exact Hq | constructor; [exact He | constructor]]).
  destruct (rev q) as [|l ?]; [exact Happ|]. destruct (kraw_eqb l e); [exact Hq | exact Happ].
Qed.

(* what a notification may carry: a valid entry name, or no name with a mask that never reports the parent *)
Definition note_ok (bit : N) (isdir : bool) (name : bytes) : Prop :=
  valid_name name = true \/ (name = [] /\ noparent (if isdir then N.lor bit IN_ISDIR else bit) = true).

Lemma knotify_ok k ino bit isdir cookie name :
  kqueue_ok k -> note_ok bit isdir name -> kqueue_ok (knotify k ino bit isdir cookie name).
Proof.
  intros Hk Hn. unfold knotify. destruct (watch_of_ino k ino) as [w|]; [|exact Hk].
  destruct (N.eqb (N.land bit (kw_mask w)) 0); [exact Hk|].
  unfold kqueue_ok. cbn [k_queue]. apply kpush_ok; [exact Hk|]. exact Hn.
Qed.

Lemma kgone_ok k ino af : kqueue_ok k -> kqueue_ok (kgone k ino af).
Proof.
  intros Hk. unfold kgone. destruct (watch_of_ino k ino) as [w|]; [|exact Hk].
  unfold kqueue_ok. cbn [k_queue]. apply kpush_ok.
  - apply knotify_ok; [|right; split; [reflexivity | vm_compute; reflexivity]].
    destruct af; [|exact Hk]. apply knotify_ok; [exact Hk|]. right. split; [reflexivity | vm_compute; reflexivity].
  - right. split; [reflexivity | vm_compute; reflexivity].
Qed.

(* every record kernel_op appends has an empty name (IN_ATTRIB|IN_ISDIR, IN_DELETE_SELF, IN_IGNORED about the
   directory itself) or the basename of an operation path *)
Theorem kernel_op_ok k t o : op_names_ok o -> kqueue_ok k -> kqueue_ok (kernel_op k t o).
Proof.
  intros Ho Hk. destruct o; cbn [kernel_op op_names_ok] in *.
  - repeat apply knotify_ok; try exact Hk; left; exact Ho.
  - repeat apply knotify_ok; try exact Hk; left; exact Ho.
  - destruct (fisdir p t).
    + apply knotify_ok; [apply knotify_ok; [exact Hk | left; exact Ho]|].
      right. split; [reflexivity | vm_compute; reflexivity].
    + apply knotify_ok; [exact Hk | left; exact Ho].
  - apply knotify_ok; [exact Hk | left; exact Ho].
  - apply knotify_ok; [exact Hk | left; exact Ho].
  - apply knotify_ok; [now apply kgone_ok | left; exact Ho].
  - destruct Ho as [Hp Hq].
    assert (H2 : kqueue_ok
      (knotify (knotify {| k_watches := k_watches k; k_next_wd := k_next_wd k; k_queue := k_queue k;
                           k_next_cookie := k_next_cookie k + 1 |}
                        (ino_of t (dirname p)) IN_MOVED_FROM (fisdir p t) (k_next_cookie k) (basename p))
               (ino_of t (dirname q)) IN_MOVED_TO (fisdir p t) (k_next_cookie k) (basename q))).
    { apply knotify_ok; [apply knotify_ok; [exact Hk | left; exact Hp] | left; exact Hq]. }
    destruct (fisdir q t); [now apply kgone_ok | exact H2].
Qed.

Lemma frename_names p q t :
  fs_names_ok t -> valid_name (basename q) = true -> fs_names_ok (frename p q t).
Proof.
  intros Ht Hq e He. unfold frename in He. apply in_map_iff in He as [x [<- Hx]].
  destruct (beqb (f_path x) p); [exact Hq|].
  destruct (under p (f_path x)) eqn:Eu; [|now apply Ht].
  cbn [f_path]. unfold under in Eu. apply starts_spec in Eu as [r Er].
  rewrite <- app_assoc in Er. cbn [app] in Er.
  specialize (Ht x Hx). rewrite Er in *. rewrite skipn_app_length.
  now rewrite (basename_app_indep q p r).
Qed.

Lemma fremove_names p t : fs_names_ok t -> fs_names_ok (fremove p t).
Proof. intros Ht e He. unfold fremove in He. apply filter_In in He as [He _]. now apply Ht. Qed.

Theorem apply_op_names w o w' :
  fs_names_ok (w_fs w) -> op_names_ok o -> apply_op w o = Some w' -> fs_names_ok (w_fs w').
Proof.
  intros Hw Ho H. destruct o; cbn [apply_op op_names_ok] in *.
  - destruct (fisdir (dirname p) (w_fs w) && negb (fexists p (w_fs w))); [|discriminate].
    inversion H; subst; cbn. intros e He. apply in_app_iff in He as [He|[<-|[]]]; [now apply Hw | exact Ho].
  - destruct (flookup p (w_fs w)) as [e|]; [|discriminate]. destruct (f_dir e); [discriminate|]. now inversion H; subst.
  - destruct (fexists p (w_fs w)); [|discriminate]. now inversion H; subst.
  - destruct (flookup p (w_fs w)) as [e|]; [|discriminate]. destruct (f_dir e); [discriminate|].
    inversion H; subst; cbn. now apply fremove_names.
  - destruct (fisdir (dirname p) (w_fs w) && negb (fexists p (w_fs w))); [|discriminate].
    inversion H; subst; cbn. intros e He. apply in_app_iff in He as [He|[<-|[]]]; [now apply Hw | exact Ho].
  - destruct (flookup p (w_fs w)) as [e|]; [|discriminate].
    destruct (f_dir e && negb (has_children p (w_fs w))); [|discriminate].
    inversion H; subst; cbn. now apply fremove_names.
  - destruct Ho as [Hp Hq]. destruct (flookup p (w_fs w)) as [e|]; [|discriminate].
    destruct (beqb p q || under p q || negb (fisdir (dirname q) (w_fs w))); [discriminate|].
    destruct (flookup q (w_fs w)) as [v|].
    + destruct (f_dir e).
      * destruct (f_dir v && negb (has_children q (w_fs w))); [|discriminate].
        inversion H; subst; cbn. apply frename_names; [now apply fremove_names | exact Hq].
      * destruct (f_dir v); [discriminate|].
        inversion H; subst; cbn. apply frename_names; [now apply fremove_names | exact Hq].
    + inversion H; subst; cbn. now apply frename_names.
Qed.

(* ---------------------------------------------------------------- the reader and the kernel queue: the only records
   the reader causes are the IN_IGNORED records of inotify_rm_watch in _forget_tree (empty name, non-parent mask) *)
Lemma krm_watch_ok k wd : kqueue_ok k -> kqueue_ok (krm_watch k wd).
Proof.
  intros Hk. unfold krm_watch. destruct (find (fun w => N.eqb (kw_wd w) wd) (k_watches k)); [|exact Hk].
  unfold kqueue_ok. cbn [k_queue]. apply kpush_ok; [exact Hk|].
  right. split; [reflexivity | vm_compute; reflexivity].
Qed.

Section ReaderQueue.
  Variable C : cfg.

  Lemma kadd_watch_queue k t p m k' wd : kadd_watch k t p m = Some (k', wd) -> k_queue k' = k_queue k.
  Proof.
    unfold kadd_watch. destruct (flookup p t) as [e|]; [|discriminate].
    destruct (watch_of_ino k (f_ino e)); intros H; inversion H; subst; reflexivity.
  Qed.

  Lemma add_watch_queue r k t p r' k' wd : add_watch C r k t p = Some (r', k', wd) -> k_queue k' = k_queue k.
  Proof.
    unfold add_watch. destruct (mem_nat (calls r) (c_faults C)); [discriminate|].
    destruct (kadd_watch k t p (c_mask C)) as [[k1 w1]|] eqn:E; [|discriminate].
    intros H. inversion H; subst. eapply kadd_watch_queue; eauto.
  Qed.

  Lemma sim_dirs_queue t rt : forall ds r k acc r' k' acc',
    sim_dirs C r k t rt ds acc = (r', k', acc') -> k_queue k' = k_queue k.
  Proof.
    induction ds as [|d ds IH]; intros r k acc r' k' acc' H; cbn [sim_dirs] in H.
    - now inversion H; subst.
    - destruct (add_watch C r k t (join rt d)) as [[[r1 k1] wd]|] eqn:E.
      + apply IH in H. apply add_watch_queue in E. congruence.
      + now apply IH in H.
  Qed.

  Lemma simulate_queue t : forall w r k acc r' k' acc',
    simulate C r k t w acc = Done (r', k', acc') -> k_queue k' = k_queue k.
  Proof.
    induction w as [|[[rt ds] fl] w IH]; intros r k acc r' k' acc' H; cbn [simulate] in H.
    - now inversion H; subst.
    - destruct (sim_dirs C r k t rt ds acc) as [[r1 k1] acc1] eqn:E1.
      destruct (sim_files C r1 rt fl acc1) as [acc2|]; [|discriminate].
      apply IH in H. apply sim_dirs_queue in E1. congruence.
  Qed.

  Lemma add_dirs_queue t : forall ps r k r' k', add_dirs C r k t ps = (r', k') -> k_queue k' = k_queue k.
  Proof.
    induction ps as [|p ps IH]; intros r k r' k' H; cbn [add_dirs] in H.
    - now inversion H; subst.
    - destruct (add_watch C r k t p) as [[[r1 k1] wd]|] eqn:E.
      + apply IH in H. apply add_watch_queue in E. congruence.
      + now inversion H; subst.
  Qed.

  (* the loop body after the head leaves the queue alone *)
  Lemma read_one_body_queue t r k acc e r' k' acc' :
    read_one_body C t (r, k, acc) e = Done (r', k', acc') -> k_queue k' = k_queue k.
  Proof.
    intros H. unfold read_one_body in H.
    destruct (alookup N.eqb (k_wd e) (pfw r)) as [wd_path|];
      [|destruct (c_fix_moveout C); [now inversion H; subst | discriminate]].
    match type of H with context [match ?X with pair _ _ => _ end] => destruct X as [[r1 k1] ev1] eqn:EX end.
    assert (H1 : k_queue k1 = k_queue k).
    { repeat match type of EX with
             | (if ?b then _ else _) = _ => destruct b
             | match ?x with Some _ => _ | None => _ end = _ => destruct x
             | (let '(_, _) := ?X in _) = _ => let E := fresh "E" in destruct X eqn:E; apply add_dirs_queue in E
             end; inversion EX; subst; congruence. }
    clear EX.
    match type of H with
    | context [match ?X with Done _ => _ | Crash s => Crash s end] => destruct X as [r2|]; [|discriminate]
    end.
    destruct (c_recursive C && is_directory (k_mask e) && is_create (k_mask e)).
    - destruct (add_watch C r2 k1 t (r_path ev1)) as [[[r3 k3] wd3]|] eqn:Eaw.
      + apply simulate_queue in H. apply add_watch_queue in Eaw. congruence.
      + inversion H; subst. exact H1.
    - inversion H; subst. exact H1.
  Qed.

  Lemma forget_tree_kq p : forall keys r k r' k',
    kqueue_ok k -> forget_tree keys p r k = (r', k') -> kqueue_ok k'.
  Proof.
    induction keys as [|[q x] keys IH]; intros r k r' k' Hk H; cbn [forget_tree] in H.
    - now inversion H; subst.
    - destruct (beqb q p || starts (p ++ [sep]) q); [|eauto].
      destruct (alookup beqb q (wfp r)) as [wd|]; [|eauto].
      destruct (alookup N.eqb wd (pfw r)) as [q'|]; [|eauto].
      destruct (beqb q' q); [|eauto].
      eapply IH; [|exact H]. now apply krm_watch_ok.
  Qed.

  Lemma settle_pending_kq r k e r' k' : kqueue_ok k -> settle_pending C r k e = (r', k') -> kqueue_ok k'.
  Proof.
    intros Hk H. unfold settle_pending in H.
    destruct (c_fix_moveout C); [|now inversion H; subst].
    destruct (pend r) as [[c p]|]; [|now inversion H; subst].
    destruct (is_moved_to (k_mask e) && N.eqb (k_cookie e) c && amem N.eqb (k_wd e) (pfw r)); [now inversion H; subst|].
    eapply forget_tree_kq; eauto.
  Qed.

  Lemma read_one_kq t r k acc e r' k' acc' :
    kqueue_ok k -> read_one C t (r, k, acc) e = Done (r', k', acc') -> kqueue_ok k'.
  Proof.
    intros Hk H. unfold read_one in H. destruct (settle_pending C r k e) as [r0 k0] eqn:Es.
    apply read_one_body_queue in H. unfold kqueue_ok. rewrite H. eapply settle_pending_kq; eauto.
  Qed.

  Lemma read_batch_kq t : forall b r k acc r' k' acc',
    kqueue_ok k -> read_batch C t (r, k, acc) b = Done (r', k', acc') -> kqueue_ok k'.
  Proof.
    induction b as [|e b IH]; intros r k acc r' k' acc' Hk H; cbn [read_batch] in H.
    - now inversion H; subst.
    - destruct (read_one C t (r, k, acc) e) as [[[r1 k1] acc1]|] eqn:E; [|discriminate].
      eapply IH; [|exact H]. eapply read_one_kq; eauto.
  Qed.
End ReaderQueue.

(* ================================================================== no exception for what the reader outputs *)
Section Strict.
  Variable root : bytes.
  Hypothesis Hne : root <> [].
  Hypothesis Hsep : last_is_sep root = false.

  (* a mask that never reports the parent: every event is about the (rooted) path itself *)
  Lemma emit_single_noparent full rec wp ct x :
    noparent (r_mask x) = true -> rooted root (r_path x) ->
    forall e, In e (fst (emit_single full rec wp ct x)) -> ev_ok root e.
  Proof.
    intros Hnp Hx e Hin. unfold noparent in Hnp.
    apply andb_true_iff in Hnp as [Hnp H5]. apply andb_true_iff in Hnp as [Hnp H4].
    apply andb_true_iff in Hnp as [Hnp H3]. apply andb_true_iff in Hnp as [H1 H2].
    apply negb_true_iff in H1, H2, H3, H4.
    unfold emit_single in Hin. rewrite H1, H2, H3, H4 in Hin. cbn [orb andb] in Hin.
    destruct (is_attrib (r_mask x) || is_modify (r_mask x)).
    { destruct Hin as [<-|[]]. now apply mk_src_ok. }
    destruct (is_delete_self (r_mask x) && beqb (r_path x) wp).
    { destruct Hin as [<-|[]]. now apply mk_src_ok. }
    destruct (is_directory (r_mask x)); cbn [negb] in Hin; [contradiction|].
    rewrite orb_false_r in H5. apply negb_true_iff in H5. rewrite H5 in Hin.
    destruct (is_open (r_mask x)); [destruct Hin as [<-|[]]; now apply mk_src_ok|].
    destruct (is_close_nowrite (r_mask x)); [destruct Hin as [<-|[]]; now apply mk_src_ok | contradiction].
  Qed.

  (* an item as the pipeline delivers it: a single record the reader produced, or a pair of records about entries
     strictly below the root (the two halves of a rename always carry names) *)
  Definition item_strict (it : Emitter.item) : Prop :=
    match it with
    | Single x => raw_ok root x
    | Pair f t => below root (r_path f) /\ below root (r_path t)
    end.

  Theorem emit_paths_strict full rec wp ct it :
    item_strict it -> (forall p, wf_tree (ct p) = true) ->
    forall e, In e (fst (emit full rec wp ct it)) -> ev_ok root e.
  Proof.
    intros Hit Hc e Hin. destruct it as [x|f t]; cbn [item_strict] in Hit.
    - destruct Hit as [Hb|[Hr Hnp]].
      + eapply (emit_paths_below root Hne Hsep full rec wp ct (Single x)); [|exact Hc|exact Hin].
        intros r [<-|[]]. exact Hb.
      + cbn [emit] in Hin. eapply emit_single_noparent; eauto.
    - destruct Hit as [Hf Ht].
      eapply (emit_paths_below root Hne Hsep full rec wp ct (Pair f t)); [|exact Hc|exact Hin].
      intros r [<-|[<-|[]]]; assumption.
  Qed.
End Strict.

(* ================================================================== the pipeline *)
Require Import WD.Model.DelayQueue WD.Model.Grouping WD.Model.Pipeline
               WD.Proofs.DelayQueueProofs WD.Proofs.GroupingProofs.

Lemma Forall_firstn' {A} (Q : A -> Prop) n : forall l, Forall Q l -> Forall Q (firstn n l).
Proof. induction n as [|n IH]; intros [|x l] H; cbn; try constructor; inversion H; subst; auto. Qed.

Lemma Forall_skipn' {A} (Q : A -> Prop) n : forall l, Forall Q l -> Forall Q (skipn n l).
Proof. induction n as [|n IH]; intros [|x l] H; cbn; try assumption; inversion H; subst; auto. Qed.

Lemma alookup_app_some {V} k (m m' : list (N * V)) v :
  alookup N.eqb k m = Some v -> alookup N.eqb k (m ++ m') = Some v.
Proof.
  induction m as [|[k' v'] m IH]; cbn; [discriminate|]. destruct (N.eqb k k'); [auto | exact IH].
Qed.

Lemma alookup_app_none {V} k (m m' : list (N * V)) :
  alookup N.eqb k m = None -> alookup N.eqb k (m ++ m') = alookup N.eqb k m'.
Proof.
  induction m as [|[k' v'] m IH]; cbn; [reflexivity|]. destruct (N.eqb k k'); [discriminate | exact IH].
Qed.

Lemma alookup_fresh {V} k (m : list (N * V)) : (forall i x, In (i, x) m -> i <> k) -> alookup N.eqb k m = None.
Proof.
  induction m as [|[k' v'] m IH]; cbn; intros H; [reflexivity|].
  destruct (N.eqb k k') eqn:E.
  - apply N.eqb_eq in E. subst. exfalso. eapply H; [left; reflexivity | reflexivity].
  - apply IH. intros i x Hin. apply (H i x). right. exact Hin.
Qed.

Lemma number_in C : forall l n a b i x, number C n l = (a, b) -> In (i, x) b -> In x l.
Proof.
  induction l as [|e l IH]; intros n a b i x H Hin; cbn [number] in H.
  - inversion H; subst. contradiction.
  - destruct (number C (n + 1) l) as [a' b'] eqn:E. inversion H; subst.
    destruct Hin as [Hin|Hin]; [inversion Hin; subst; left; reflexivity | right; eapply IH; eauto].
Qed.

Lemma number_ids C : forall l n a b, number C n l = (a, b) ->
  (forall e, In e a -> (n <= n_id e < n + N.of_nat (length l))%N) /\
  (forall i x, In (i, x) b -> (n <= i < n + N.of_nat (length l))%N).
Proof.
  induction l as [|e l IH]; intros n a b H; cbn [number] in H.
  - inversion H; subst. split; intros; contradiction.
  - destruct (number C (n + 1) l) as [a' b'] eqn:E. inversion H; subst; clear H.
    destruct (IH _ _ _ E) as [H1 H2]. cbn [length]. split.
    + intros e0 [<-|Hin]; [cbn; lia|]. specialize (H1 _ Hin). lia.
    + intros i x [Hin|Hin]; [inversion Hin; subst; lia|]. specialize (H2 _ _ Hin). lia.
Qed.

Lemma number_lookup C : forall l n a b, number C n l = (a, b) ->
  forall e, In e a -> exists r, alookup N.eqb (n_id e) b = Some r /\ n_kind e = nkind_of C r.
Proof.
  induction l as [|x l IH]; intros n a b H e Hin; cbn [number] in H.
  - inversion H; subst. contradiction.
  - destruct (number C (n + 1) l) as [a' b'] eqn:E. inversion H; subst; clear H.
    destruct Hin as [<-|Hin].
    + exists x. cbn. rewrite N.eqb_refl. split; reflexivity.
    + destruct (IH _ _ _ E e Hin) as [r [Hr Hk]]. exists r. split; [|exact Hk].
      cbn. destruct (N.eqb (n_id e) n) eqn:En; [|exact Hr].
      apply N.eqb_eq in En. destruct (number_ids C _ _ _ _ E) as [H1 _]. specialize (H1 _ Hin). lia.
Qed.

Lemma item_to_emit_raws tbl it eit :
  item_to_emit tbl it = Some eit -> forall x, In x (item_raws eit) -> exists i, In (i, x) tbl.
Proof.
  unfold item_to_emit, raw_of. destruct it as [e|f t].
  - destruct (alookup N.eqb (n_id e) tbl) as [r|] eqn:E; [|discriminate]. intros H; inversion H; subst.
    intros x [<-|[]]. apply alookup_in in E as [i [Hin _]]. eauto.
  - destruct (alookup N.eqb (n_id f) tbl) as [a|] eqn:E1; [|discriminate].
    destruct (alookup N.eqb (n_id t) tbl) as [b|] eqn:E2; [|discriminate]. intros H; inversion H; subst.
    intros x [<-|[<-|[]]]; [apply alookup_in in E1 as [i [Hin _]] | apply alookup_in in E2 as [i [Hin _]]]; eauto.
Qed.

(* ---------------------------------------------------------------- the buffer keeps kinds and pairs honest *)
Section BufInv.
  Variable C : cfg.

  (* the native event's kind is the kind of the InotifyEvent recorded under its id *)
  Definition kind_ok (tbl : list (N * raw)) (e : nev) : Prop :=
    exists r, raw_of tbl e = Some r /\ n_kind e = nkind_of C r.

  Definition pair_wk (it : Grouping.item) : Prop :=
    match it with
    | ISingle _ => True
    | IPair f t => (exists c, n_kind f = KFrom c) /\ (exists c, n_kind t = KTo c)
    end.

  Definition item_wk (tbl : list (N * raw)) (it : Grouping.item) : Prop :=
    pair_wk it /\ forall e, In e (flat it) -> kind_ok tbl e.

  Record BInv (tbl : list (N * raw)) (r : rst) : Prop := mkBInv {
    bi_batch : forall e, In e (batch r) -> kind_ok tbl e;
    bi_grouped : forall it, In it (grouped r) -> item_wk tbl it;
    bi_items : forall id it, In (id, it) (items r) -> item_wk tbl it }.

  Lemma kind_ok_ext tbl tbl' e : kind_ok tbl e -> kind_ok (tbl ++ tbl') e.
  Proof. intros [r [H1 H2]]. exists r. split; [|exact H2]. unfold raw_of in *. now apply alookup_app_some. Qed.

  Lemma item_wk_ext tbl tbl' it : item_wk tbl it -> item_wk (tbl ++ tbl') it.
  Proof. intros [H1 H2]. split; [exact H1|]. intros e He. apply kind_ok_ext. now apply H2. Qed.

  Lemma binv_ext tbl tbl' r : BInv tbl r -> BInv (tbl ++ tbl') r.
  Proof.
    intros [H1 H2 H3]. constructor.
    - intros e He. apply kind_ok_ext. now apply H1.
    - intros it Hit. apply item_wk_ext. now apply H2.
    - intros id it Hit. apply item_wk_ext. eapply H3; eauto.
  Qed.

  Lemma single_wk tbl e : kind_ok tbl e -> item_wk tbl (ISingle e).
  Proof. intros H. split; [exact I|]. intros e' [<-|[]]. exact H. Qed.

  Lemma gstep_binv delay tbl s l s' :
    BInv tbl (snd s) -> (forall b, l = RRead b -> forall e, In e b -> kind_ok tbl e) ->
    gstep delay s l = Some s' -> BInv tbl (snd s').
  Proof.
    destruct s as [d r]. cbn [snd]. intros [B1 B2 B3] Hl H. destruct l as [b | | | l]; cbn [gstep] in H.
    - destruct (batch r); [|discriminate]. destruct (grouped r); [|discriminate].
      destruct (deleted_self r); [discriminate|]. inversion H; subst; clear H. cbn [snd].
      constructor; cbn; [intros e He; eapply Hl; eauto | intros ? [] | exact B3].
    - destruct (batch r) as [|e rest] eqn:Eb; [discriminate|].
      assert (He : kind_ok tbl e) by (apply B1; left; reflexivity).
      assert (Hrest : forall e', In e' rest -> kind_ok tbl e') by (intros e' H'; apply B1; right; exact H').
      assert (Hsingle : forall d0 : st,
        BInv tbl (snd (d0, {| batch := rest; grouped := grouped r ++ [ISingle e]; deleted_self := deleted_self r;
                              next_el := next_el r; items := items r; nread := nread r |}))).
      { intros d0. constructor; cbn; [exact Hrest | | exact B3].
        intros it Hit. apply in_app_iff in Hit as [Hit|[<-|[]]]; [now apply B2 | now apply single_wk]. }
      destruct (n_kind e) as [c|c| | |] eqn:Ek; try (inversion H; subst; apply Hsingle).
      destruct (pair_in_grouped c e (grouped r)) as [g'|] eqn:Ep.
      + inversion H; subst; clear H. cbn [snd].
        apply pair_in_grouped_spec in Ep as [a [f [b [Hg [-> [Hkf _]]]]]].
        constructor; cbn; [exact Hrest | | exact B3].
        intros it Hit. apply in_app_iff in Hit as [Hit|[<-|Hit]].
        * apply B2. rewrite Hg. apply in_app_iff. left. exact Hit.
        * split; [split; eauto|]. intros e' [<-|[<-|[]]]; [|exact He].
          assert (Hf : item_wk tbl (ISingle f)) by (apply B2; rewrite Hg; apply in_app_iff; right; left; reflexivity).
          apply Hf. left. reflexivity.
        * apply B2. rewrite Hg. apply in_app_iff. right. right. exact Hit.
      + destruct (remove_first (sat_from (items r) c (q d)) (q d)) as [[en|] q'] eqn:Er.
        * destruct (step delay d (Remove (sat_from (items r) c (q d)))) as [d'|]; [|discriminate].
          destruct (item_of (items r) (e_id en)) as [[f|? ?]|] eqn:Ei; try discriminate.
          inversion H; subst; clear H. cbn [snd].
          apply remove_first_some in Er as [qa [qb [_ [_ Hm]]]].
          assert (Hkf : n_kind f = KFrom c).
          { assert (Hin : In (e_id en) (sat_from (items r) c (q d))).
            { clear -Hm. induction (sat_from (items r) c (q d)) as [|y l IH]; cbn in Hm; [discriminate|].
              apply orb_true_iff in Hm as [Hm|Hm]; [left; symmetry; now apply N.eqb_eq | right; now apply IH]. }
            unfold sat_from in Hin. apply in_map_iff in Hin as [en' [Hid Hin]].
            apply filter_In in Hin as [_ Hp]. rewrite Hid, Ei in Hp.
            apply is_from_single in Hp as [f' [Hf' Hk]]. inversion Hf'; subst. exact Hk. }
          assert (Hf : item_wk tbl (ISingle f)).
          { unfold item_of in Ei. apply alookup_in in Ei as [id' [Hin _]]. eapply B3; eauto. }
          constructor; cbn; [exact Hrest | | exact B3].
          intros it Hit. apply in_app_iff in Hit as [Hit|[<-|[]]]; [now apply B2|].
          split; [split; eauto|]. intros e' [<-|[<-|[]]]; [|exact He]. apply Hf. left. reflexivity.
        * inversion H; subst. apply Hsingle.
    - destruct (batch r); [|discriminate]. destruct (grouped r) as [|it rest] eqn:Eg; [discriminate|].
      assert (Hit : item_wk tbl it) by (apply B2; left; reflexivity).
      assert (Hrest : forall it', In it' rest -> item_wk tbl it') by (intros it' H'; apply B2; right; exact H').
      destruct it as [e|f t].
      + destruct (Grouping.is_ignored e).
        * inversion H; subst; clear H. constructor; cbn; [intros ? [] | exact Hrest | exact B3].
        * destruct (step delay d (Put (next_el r) (single_from (ISingle e)))) as [d'|]; [|discriminate].
          inversion H; subst; clear H. constructor; cbn; [intros ? [] | exact Hrest |].
          intros id it' Hin. apply in_app_iff in Hin as [Hin|[Hin|[]]]; [eapply B3; eauto|].
          inversion Hin; subst. exact Hit.
      + destruct (step delay d (Put (next_el r) false)) as [d'|]; [|discriminate].
        inversion H; subst; clear H. constructor; cbn; [intros ? [] | exact Hrest |].
        intros id it' Hin. apply in_app_iff in Hin as [Hin|[Hin|[]]]; [eapply B3; eauto|].
        inversion Hin; subst. exact Hit.
    - destruct l; try discriminate;
        (destruct (step delay d _) as [d'|]; [|discriminate]; inversion H; subst; constructor; assumption).
  Qed.

  Lemma reader_run_binv delay tbl : forall fuel b, BInv tbl (snd b) -> BInv tbl (snd (reader_run delay fuel b)).
  Proof.
    induction fuel as [|f IH]; intros b Hb; cbn [reader_run]; [exact Hb|].
    destruct (batch (snd b)) eqn:E1.
    - destruct (grouped (snd b)) eqn:E2; [exact Hb|].
      destruct (gstep delay b RPut) as [b'|] eqn:E; [|exact Hb].
      apply IH. apply (gstep_binv delay tbl b RPut b' Hb); [intros ? Hx; discriminate Hx | exact E].
    - destruct (gstep delay b RGroup) as [b'|] eqn:E; [|exact Hb].
      apply IH. apply (gstep_binv delay tbl b RGroup b' Hb); [intros ? Hx; discriminate Hx | exact E].
  Qed.

  Lemma delivered_in b it : In it (delivered b) -> exists id, In (id, it) (items (snd b)).
  Proof.
    unfold delivered, items_of. intros H. apply in_flat_map in H as [id [_ H]].
    destruct (item_of (items (snd b)) id) as [it'|] eqn:E; [|contradiction]. destruct H as [<-|[]].
    unfold item_of in E. apply alookup_in in E as [id' [Hin _]]. eauto.
  Qed.

  Lemma nkind_from r c : nkind_of C r = KFrom c -> is_moved_from (r_mask r) = true.
  Proof.
    unfold nkind_of. destruct (is_moved_from (r_mask r)); [reflexivity|].
    destruct (is_moved_to (r_mask r)); [discriminate|]. destruct (Emitter.is_ignored (r_mask r)); [discriminate|].
    destruct (is_delete_self (r_mask r)); discriminate.
  Qed.

  Lemma nkind_to r c : nkind_of C r = KTo c -> is_moved_to (r_mask r) = true.
  Proof.
    unfold nkind_of. destruct (is_moved_from (r_mask r)); [discriminate|].
    destruct (is_moved_to (r_mask r)); [reflexivity|]. destruct (Emitter.is_ignored (r_mask r)); [discriminate|].
    destruct (is_delete_self (r_mask r)); discriminate.
  Qed.
End BufInv.

Section PipeInv.
  Variable P : pcfg.
  Hypothesis Hne : c_root (pc_reader P) <> [].
  Hypothesis Hsep : last_is_sep (c_root (pc_reader P)) = false.
  Notation root := (c_root (pc_reader P)).

  Record PInv (s : pstate) : Prop := mkPInv {
    pv_fs : fs_names_ok (w_fs (p_world s));
    pv_q : kqueue_ok (p_k s);
    pv_r : path_inv root (p_r s);
    pv_tbl : forall i x, In (i, x) (p_tbl s) -> raw_ok root x;
    pv_ids : forall i x, In (i, x) (p_tbl s) -> (i < p_next s)%N;
    pv_buf : BInv (pc_reader P) (p_tbl s) (snd (p_buf s));
    pv_out : forall e, In e (p_out s) -> ev_ok root e }.

  Lemma pinit_inv w s : fs_names_ok (w_fs w) -> pinit P w = Some s -> PInv s.
  Proof.
    intros Hw H. unfold pinit in H.
    destruct (construct (pc_reader P) kinit (w_fs w)) as [[r k]|] eqn:E; [|discriminate].
    inversion H; subst; clear H. constructor; cbn.
    - exact Hw.
    - unfold kqueue_ok.
      assert (Hq : k_queue k = k_queue kinit).
      { clear -E. unfold construct in E. destruct (fisdir _ _); [|discriminate].
        destruct (add_watch _ rinit0 kinit (w_fs w) _) as [[[r1 k1] wd]|] eqn:E1; [|discriminate].
        apply add_watch_queue in E1. destruct (c_recursive _); [|inversion E; subst; exact E1].
        rewrite <- E1. clear E1. revert r1 k1 E. generalize (walk_dirs (w_fs w) (c_root (pc_reader P))) as ps.
        induction ps as [|p ps IH]; intros r1 k1 E; [now inversion E; subst|].
        destruct (add_watch _ r1 k1 (w_fs w) p) as [[[r2 k2] wd2]|] eqn:E2; [|discriminate].
        apply IH in E. apply add_watch_queue in E2. congruence. }
      rewrite Hq. constructor.
    - eapply construct_inv; eauto.
    - intros ? ? [].
    - intros ? ? [].
    - constructor; cbn; [intros ? [] | intros ? [] | intros ? ? []].
    - intros ? [].
  Qed.

  (* the item handed to queue_events: a single reader record, or the two halves of a rename (both named) *)
  Lemma delivered_strict tbl b it eit :
    (forall i x, In (i, x) tbl -> raw_ok root x) -> BInv (pc_reader P) tbl (snd b) ->
    In it (delivered b) -> item_to_emit tbl it = Some eit -> item_strict root eit.
  Proof.
    intros Htbl Hb Hin Hit.
    assert (Hraw : forall x, In x (item_raws eit) -> raw_ok root x).
    { intros x Hx. eapply item_to_emit_raws in Hx as [i Hi]; [|exact Hit]. eauto. }
    apply delivered_in in Hin as [id Hin]. apply (bi_items _ _ _ Hb) in Hin as [Hwk Hk].
    destruct it as [e|f t]; unfold item_to_emit in Hit.
    - destruct (raw_of tbl e) as [r|]; [|discriminate]. inversion Hit; subst. apply Hraw. left. reflexivity.
    - destruct (raw_of tbl f) as [a|] eqn:Ea; [|discriminate].
      destruct (raw_of tbl t) as [b0|] eqn:Eb; [|discriminate]. inversion Hit; subst; clear Hit.
      destruct Hwk as [[c1 Hf] [c2 Ht]].
      destruct (Hk f (or_introl eq_refl)) as [a' [Ha' Hka]]. rewrite Ea in Ha'. inversion Ha'; subst a'.
      destruct (Hk t (or_intror (or_introl eq_refl))) as [b' [Hb' Hkb]]. rewrite Eb in Hb'. inversion Hb'; subst b'.
      rewrite Hf in Hka. symmetry in Hka. apply nkind_from in Hka.
      rewrite Ht in Hkb. symmetry in Hkb. apply nkind_to in Hkb.
      assert (Hnp : forall m, noparent m = true -> is_moved_from m = false /\ is_moved_to m = false).
      { intros m Hm. unfold noparent in Hm. repeat (apply andb_true_iff in Hm as [Hm ?]).
        split; now apply negb_true_iff. }
      split.
      + destruct (Hraw a (or_introl eq_refl)) as [H|[_ H]]; [exact H|]. apply Hnp in H as [H _]. congruence.
      + destruct (Hraw b0 (or_intror (or_introl eq_refl))) as [H|[_ H]]; [exact H|]. apply Hnp in H as [_ H]. congruence.
  Qed.

  Lemma pstep_inv s a s' ob :
    PInv s -> (forall o, a = AOp o -> op_names_ok o) -> pstep P s a = Done (s', ob) -> PInv s'.
  Proof.
    intros [I1 I2 I3 I4 I5 I6 I7] Ha H. destruct a as [o | n | | d]; cbn [pstep] in H.
    - destruct (apply_op (p_world s) o) as [w'|] eqn:E; inversion H; subst; clear H; [|constructor; assumption].
      constructor; cbn; try assumption.
      + eapply apply_op_names; eauto.
      + apply kernel_op_ok; auto.
    - destruct (deleted_self (snd (p_buf s))); [inversion H; subst; constructor; assumption|].
      match type of H with context [read_batch ?c ?t ?st ?b] => destruct (read_batch c t st b) as [[[r' k'] evs]|] eqn:E end;
        [|discriminate].
      assert (Hb : Forall kraw_ok (firstn n (k_queue (p_k s)))) by now apply Forall_firstn'.
      destruct (read_batch_inv _ Hne Hsep _ _ _ _ _ _ _ _ I1 I3 (Forall_nil _) Hb E) as [Hr' Hevs].
      assert (Hkq : kqueue_ok k').
      { eapply read_batch_kq; [|exact E]. unfold kqueue_ok. cbn [k_queue]. now apply Forall_skipn'. }
      destruct (number (pc_reader P) (p_next s) evs) as [nevs tbl] eqn:En.
      destruct (gstep (pc_delay P) (p_buf s) (RRead nevs)) as [b1|] eqn:Eg;
        inversion H; subst; clear H; [|constructor; assumption].
      destruct (number_ids _ _ _ _ _ En) as [Hid1 Hid2].
      constructor; cbn; try assumption.
      + intros i x Hin. apply in_app_iff in Hin as [Hin|Hin]; [eauto|].
        eapply number_in in Hin; [|exact En]. rewrite Forall_forall in Hevs. now apply Hevs.
      + intros i x Hin. apply in_app_iff in Hin as [Hin|Hin].
        * specialize (I5 _ _ Hin). lia.
        * specialize (Hid2 _ _ Hin). lia.
      + apply reader_run_binv.
        apply (gstep_binv (pc_reader P) (pc_delay P) (p_tbl s ++ tbl) (p_buf s) (RRead nevs) b1);
          [now apply binv_ext | | exact Eg].
        intros b0 Hb0 e He. inversion Hb0; subst b0.
        destruct (number_lookup _ _ _ _ _ En e He) as [r [Hr Hk]]. exists r. split; [|exact Hk].
        unfold raw_of. rewrite alookup_app_none; [exact Hr|].
        apply alookup_fresh. intros i x Hin. specialize (I5 _ _ Hin). specialize (Hid1 _ He). lia.
    - destruct (p_stopped s); [inversion H; subst; constructor; assumption|].
      destruct (gstep (pc_delay P) (p_buf s) (Q GetEnter)) as [b1|] eqn:E1; [|inversion H; subst; constructor; assumption].
      destruct (gstep (pc_delay P) b1 (Q GetDelay)) as [b2|] eqn:E2; [|inversion H; subst; constructor; assumption].
      destruct (gstep (pc_delay P) b2 (Q GetPop)) as [b3|] eqn:E3; [|inversion H; subst; constructor; assumption].
      assert (Hb3 : BInv (pc_reader P) (p_tbl s) (snd b3)).
      { eapply gstep_binv; [| | exact E3]; [|intros ? Hx; discriminate Hx].
        eapply gstep_binv; [| | exact E2]; [|intros ? Hx; discriminate Hx].
        eapply gstep_binv; [exact I6 | | exact E1]. intros ? Hx; discriminate Hx. }
      destruct (rev (delivered b3)) as [|it rest] eqn:Er; [inversion H; subst; constructor; assumption|].
      assert (Hdel : In it (delivered b3)) by (apply in_rev; rewrite Er; left; reflexivity).
      destruct (item_to_emit (p_tbl s) it) as [eit|] eqn:Eit; [|inversion H; subst; constructor; assumption].
      match type of H with context [emit_filtered ?F ?fu ?re ?wp ?ct ?it] =>
        destruct (emit_filtered F fu re wp ct it) as [evs stop] eqn:Eem end.
      inversion H; subst; clear H. constructor; cbn; try assumption.
      intros e Hin. apply in_app_iff in Hin as [Hin|Hin]; [eauto|].
      unfold emit_filtered in Eem. inversion Eem; subst; clear Eem.
      apply in_flat_map in Hin as [e' [Hin He]]. unfold queue_event in He.
      destruct (accepts (pc_filter P) (ev_cls e')); [|contradiction]. destruct He as [<-|[]].
      eapply (emit_paths_strict root Hne Hsep); [| | exact Hin].
      + eapply delivered_strict; eauto.
      + intros pp. now apply content_wf.
    - destruct (gstep (pc_delay P) (p_buf s) (Q (Tick d))) as [b'|] eqn:Eg;
        inversion H; subst; [|constructor; assumption].
      constructor; cbn; try assumption.
      eapply gstep_binv; [exact I6 | | exact Eg]. intros ? Hx; discriminate Hx.
  Qed.

  Theorem prun_inv : forall h s acc s' obs,
    PInv s -> (forall o, In (AOp o) h -> op_names_ok o) -> prun P s h acc = Done (s', obs) -> PInv s'.
  Proof.
    induction h as [|a h IH]; intros s acc s' obs Hi Hh H; cbn [prun] in H.
    - now inversion H; subst.
    - destruct (pstep P s a) as [[s1 o1]|] eqn:E; [|discriminate].
      eapply IH; [| | exact H].
      + eapply pstep_inv; [exact Hi | | exact E]. intros o ->. apply Hh. left. reflexivity.
      + intros o Ho. apply Hh. right. exact Ho.
  Qed.

  Theorem pipeline_paths w s0 h s obs :
    fs_names_ok (w_fs w) -> (forall o, In (AOp o) h -> op_names_ok o) ->
    pinit P w = Some s0 -> prun P s0 h [] = Done (s, obs) ->
    path_inv root (p_r s) /\
    (forall i x, In (i, x) (p_tbl s) -> rooted root (r_path x)) /\
    (forall e, In e (p_out s) -> ev_ok root e).
  Proof.
    intros Hw Hh H0 H. apply pinit_inv in H0; [|exact Hw].
    destruct (prun_inv h s0 [] s obs H0 Hh H) as [_ _ I3 I4 _ _ I7]. split; [exact I3|]. split; [|exact I7].
    intros i x Hin. eapply raw_ok_rooted; eauto.
  Qed.
End PipeInv.

(* ================================================================== name + type together *)
(* every non-empty path VALUE of every event of one (typed) queue_events() call on an item the pipeline delivers is
   the watch path joined with the valid relative names of some entry - with the watch's type: exactly the value the
   polling snapshot has for that entry *)
Theorem typed_emit_value full rec wp ct it :
  pv_bytes wp <> [] -> last_is_sep (pv_bytes wp) = false ->
  item_strict (pv_bytes wp) it -> (forall p, wf_tree (ct p) = true) ->
  forall e v, In e (fst (typed_emit full rec wp ct it)) -> (v = te_src e \/ v = te_dest e) ->
  pv_bytes v <> [] ->
  exists rel, forallb valid_name rel = true /\
              v = tagged (pv_tag wp) (pv_bytes wp ++ relsuffix rel) /\ v = pjoins wp rel.
Proof.
  intros H1 H2 Hit Hc e v Hin Hv Hne.
  assert (Her : In (erase_ev e) (fst (emit full rec (pv_bytes wp) ct it))).
  { rewrite <- typed_emit_erase. unfold erase. cbn [fst]. now apply in_map. }
  apply (emit_paths_strict (pv_bytes wp) H1 H2) in Her; [|exact Hit|exact Hc].
  assert (Hr : rooted (pv_bytes wp) (pv_bytes v)).
  { destruct Her as [Hs Hd]. destruct Hv as [-> | ->]; [destruct Hs as [Hs|Hs] | destruct Hd as [Hd|Hd]];
      cbn in *; try contradiction; assumption. }
  destruct Hr as [rel [Hrel Hb]]. exists rel. split; [exact Hrel|].
  assert (Hp : v = pjoins wp rel) by (eapply event_path_agree; eauto).
  split; [|exact Hp]. rewrite Hp. rewrite pjoins_tagged, joins_suffix by assumption. reflexivity.
Qed.

(* ================================================================== the root of a constructed pipeline is normalised *)
Lemma basename_valid_normal p : valid_name (basename p) = true -> p <> [] /\ last_is_sep p = false.
Proof.
  unfold basename, last_is_sep. destruct (rev p) as [|c r] eqn:E; cbn [basename_rev].
  - discriminate.
  - destruct (N.eqb c sep); [discriminate|]. intros _. split; [intros ->; discriminate E | reflexivity].
Qed.

Lemma flookup_in p t e : flookup p t = Some e -> In e t /\ f_path e = p.
Proof.
  induction t as [|x t IH]; cbn; [discriminate|]. destruct (beqb p (f_path x)) eqn:E.
  - intros H; inversion H; subst. apply beqb_eq in E. split; [left; reflexivity | now symmetry].
  - intros H. destruct (IH H) as [H1 H2]. split; [right; exact H1 | exact H2].
Qed.

(* the model's file system is keyed by the spelling of the root, and its entries have valid basenames: a pipeline
   can only be constructed on a root that is non-empty and does not end in '/' *)
Lemma pinit_root_normal P w s :
  fs_names_ok (w_fs w) -> pinit P w = Some s ->
  c_root (pc_reader P) <> [] /\ last_is_sep (c_root (pc_reader P)) = false.
Proof.
  intros Hw H. unfold pinit, construct in H.
  destruct (fisdir (c_root (pc_reader P)) (w_fs w)) eqn:E; [|discriminate].
  unfold fisdir in E. destruct (flookup (c_root (pc_reader P)) (w_fs w)) as [e|] eqn:El; [|discriminate].
  apply flookup_in in El as [Hin Hp]. apply basename_valid_normal. rewrite <- Hp. now apply Hw.
Qed.

Theorem pipeline_paths_any P w s0 h s obs :
  fs_names_ok (w_fs w) -> (forall o, In (AOp o) h -> op_names_ok o) ->
  pinit P w = Some s0 -> prun P s0 h [] = Done (s, obs) ->
  path_inv (c_root (pc_reader P)) (p_r s) /\
  (forall i x, In (i, x) (p_tbl s) -> rooted (c_root (pc_reader P)) (r_path x)) /\
  (forall e, In e (p_out s) -> ev_ok (c_root (pc_reader P)) e).
Proof.
  intros Hw Hh H0 H. destruct (pinit_root_normal P w s0 Hw H0) as [H1 H2].
  eapply pipeline_paths; eauto.
Qed.

(* ================================================================== any spelling of the root *)
Lemma join_normal root n : valid_name n = true -> join root n <> [] /\ last_is_sep (join root n) = false.
Proof.
  intros Hn. assert (Hc : exists c n', n = c :: n' /\ N.eqb c sep = false).
  { destruct n as [|c n']; [discriminate|]. exists c, n'. split; [reflexivity|].
    apply (valid_nosep _ Hn). left. reflexivity. }
  destruct Hc as [c [n' [-> Hc]]]. unfold join. rewrite Hc.
  destruct root as [|r0 root'].
  - split; [discriminate|]. change (c :: n') with ([] ++ c :: n'). now apply last_is_sep_app_name.
  - destruct (last_is_sep (r0 :: root')).
    + split; [discriminate | now apply last_is_sep_app_name].
    + split; [discriminate|]. change ((r0 :: root') ++ sep :: c :: n') with ((r0 :: root') ++ [sep] ++ c :: n').
      rewrite app_assoc. now apply last_is_sep_app_name.
Qed.

Lemma jbelow_rooted root p :
  jbelow root p <-> exists n, valid_name n = true /\ rooted (join root n) p.
Proof.
  split.
  - intros [n [rel [Hn [Hrel ->]]]]. exists n. split; [exact Hn|]. exists rel. split; [exact Hrel|].
    cbn. destruct (join_normal root n Hn) as [H1 H2]. now apply joins_suffix.
  - intros [n [Hn [rel [Hrel ->]]]]. exists n, rel. repeat split; try assumption.
    cbn. destruct (join_normal root n Hn) as [H1 H2]. symmetry. now apply (joins_suffix (join root n)).
Qed.

Lemma jbelow_jrooted root p : jbelow root p -> jrooted root p.
Proof.
  intros [n [rel [Hn [Hrel ->]]]]. exists (n :: rel). split; [|reflexivity]. cbn. now rewrite Hn, Hrel.
Qed.

Lemma rooted_top_jrooted root n p : valid_name n = true -> rooted (join root n) p -> jrooted root p.
Proof. intros Hn Hp. apply jbelow_jrooted. apply jbelow_rooted. eauto. Qed.

Lemma dirname_head_name h n :
  last_is_sep h = true -> nosep n -> dirname (h ++ n) = match rstrip_sep h with [] => h | y => y end.
Proof.
  intros Hh Hn. unfold dirname. rewrite rev_app_distr.
  unfold last_is_sep in Hh. destruct (rev h) as [|c r] eqn:E; [discriminate|].
  apply N.eqb_eq in Hh. subst c.
  rewrite drop_to_sep_rev_app by now apply nosep_rev.
  rewrite <- E, rev_involutive. reflexivity.
Qed.

Lemma dirname_top root n : root <> [] -> valid_name n = true -> dirname (join root n) = norm_root root.
Proof.
  intros Hr Hn. unfold norm_root.
  assert (Hj : join root n = if last_is_sep root then root ++ n else root ++ sep :: n).
  { unfold join. destruct n as [|c n']; [discriminate|].
    rewrite (valid_nosep _ Hn c (or_introl eq_refl)). destruct root; [contradiction | reflexivity]. }
  rewrite Hj. destruct (last_is_sep root) eqn:E.
  - apply dirname_head_name; [exact E | now apply valid_nosep].
  - apply dirname_app_name; [exact Hr | exact E | now apply valid_nosep].
Qed.

Lemma emit_single_noparent_shape full rec wp ct x :
  noparent (r_mask x) = true ->
  forall e, In e (fst (emit_single full rec wp ct x)) -> ev_src e = r_path x /\ ev_dest e = [].
Proof.
  intros Hnp e Hin. unfold noparent in Hnp.
  apply andb_true_iff in Hnp as [Hnp H5]. apply andb_true_iff in Hnp as [Hnp H4].
  apply andb_true_iff in Hnp as [Hnp H3]. apply andb_true_iff in Hnp as [H1 H2].
  apply negb_true_iff in H1, H2, H3, H4.
  unfold emit_single in Hin. rewrite H1, H2, H3, H4 in Hin. cbn [orb andb] in Hin.
  destruct (is_attrib (r_mask x) || is_modify (r_mask x)).
  { destruct Hin as [<-|[]]. split; reflexivity. }
  destruct (is_delete_self (r_mask x) && beqb (r_path x) wp).
  { destruct Hin as [<-|[]]. split; reflexivity. }
  destruct (is_directory (r_mask x)); cbn [negb] in Hin; [contradiction|].
  rewrite orb_false_r in H5. apply negb_true_iff in H5. rewrite H5 in Hin.
  destruct (is_open (r_mask x)); [destruct Hin as [<-|[]]; split; reflexivity|].
  destruct (is_close_nowrite (r_mask x)); [destruct Hin as [<-|[]]; split; reflexivity | contradiction].
Qed.

Section AnyRoot.
  Variable root : bytes.
  Hypothesis Hne : root <> [].

  Lemma roe_top n p : valid_name n = true -> roe (join root n) p -> jpath_ok root p.
  Proof. intros Hn [->|H]; [left; reflexivity | right; left; eapply rooted_top_jrooted; eauto]. Qed.

  Definition jev_ok (e : nevent) : Prop := jpath_ok root (ev_src e) /\ jpath_ok root (ev_dest e).

  Definition jitem_strict (it : Emitter.item) : Prop :=
    match it with
    | Single x => jbelow root (r_path x) \/ (jrooted root (r_path x) /\ noparent (r_mask x) = true)
    | Pair f t => jbelow root (r_path f) /\ jbelow root (r_path t)
    end.

  Lemma parent_top n p : valid_name n = true -> rooted (join root n) p -> jev_ok (parent_modified p).
  Proof.
    intros Hn Hp. destruct (join_normal root n Hn) as [H1 H2].
    destruct (parent_modified_ok _ H1 H2 p Hp) as [[Hs Hd]| ->].
    - split; eapply roe_top; eauto.
    - split; [right; right; cbn; now apply dirname_top | left; reflexivity].
  Qed.

  Theorem emit_paths_any_root full rec wp ct it :
    jitem_strict it -> (forall p, wf_tree (ct p) = true) ->
    forall e, In e (fst (emit full rec wp ct it)) -> jev_ok e.
  Proof.
    intros Hit Hc e Hin. destruct it as [x|f t]; cbn [jitem_strict] in Hit.
    - destruct Hit as [Hb|[Hr Hnp]].
      + apply jbelow_rooted in Hb as [n [Hn Hp]]. destruct (join_normal root n Hn) as [H1 H2].
        eapply (emit_paths (join root n) H1 H2 full rec wp ct (Single x)) in Hin; [| |exact Hc].
        * destruct Hin as [[Hs Hd]|[-> _]]; [split; eapply roe_top; eauto|].
          eapply parent_top; [exact Hn | now apply rooted_root].
        * intros r [<-|[]]. exact Hp.
      + cbn [emit] in Hin. destruct (emit_single_noparent_shape full rec wp ct x Hnp e Hin) as [Hs Hd].
        split; [rewrite Hs; right; left; exact Hr | rewrite Hd; left; reflexivity].
    - destruct Hit as [Hf Ht].
      apply jbelow_rooted in Hf as [nf [Hnf Hpf]]. apply jbelow_rooted in Ht as [nt [Hnt Hpt]].
      destruct (join_normal root nf Hnf) as [F1 F2]. destruct (join_normal root nt Hnt) as [T1 T2].
      cbn [emit] in Hin. unfold emit_pair in Hin. cbn [fst In] in Hin.
      destruct Hin as [<-|[<-|[<-|Hin]]].
      + split; right; left; cbn; [exact (rooted_top_jrooted root nf _ Hnf Hpf) | exact (rooted_top_jrooted root nt _ Hnt Hpt)].
      + exact (parent_top nf _ Hnf Hpf).
      + exact (parent_top nt _ Hnt Hpt).
      + destruct (is_directory (r_mask f) && rec); [|contradiction].
        unfold sub_moved in Hin.
        rewrite (sub_moved_correct (r_path f) (r_path t) (rooted_ne _ F1 _ Hpf) (rooted_ne _ T1 _ Hpt)
                                   (rooted_last _ T2 _ Hpt) _ (Hc _)) in Hin.
        rewrite map_map in Hin. apply in_map_iff in Hin as [[k q] [<- Hq]].
        apply (desc_valid _ [] (k, q) (Hc _) eq_refl) in Hq. cbn [snd] in Hq.
        unfold expect_moved. cbn [fst snd].
        split; right; left; cbn;
          [apply (rooted_top_jrooted root nf _ Hnf) | apply (rooted_top_jrooted root nt _ Hnt)]; now apply rooted_app.
  Qed.
End AnyRoot.

(* ================================================================== data of the non-vacuity examples *)
Definition rt_ : bytes := [47; 119]%N.                (* "/w" *)
Definition eacute_ : bytes := [195; 169]%N.           (* "é" in UTF-8 *)
Definition xff_ : bytes := [255]%N.                   (* b"\xff": undecodable *)
Definition zhong_ : bytes := [228; 184; 173]%N.       (* "中" *)

Definition P_ : pcfg :=
  {| pc_reader := {| c_recursive := true; c_mask := WATCHDOG_ALL; c_root := rt_; c_fix_ignored := true;
                     c_fix_movein := true; c_fix_simulate := true; c_fix_relabel := true; c_fix_moveout := true; c_faults := [] |};
     pc_full := false; pc_filter := None; pc_delay := 5 |}.
Definition w_ : world := {| w_fs := [{| f_path := rt_; f_ino := 1; f_dir := true |}]; w_next_ino := 2 |}.
Definition h_ : list action :=
  [AOp (Mkdir (rt_ ++ relsuffix [eacute_])); AOp (Touch (rt_ ++ relsuffix [eacute_; xff_])); ARead 10;
   AOp (Rename (rt_ ++ relsuffix [eacute_]) (rt_ ++ relsuffix [zhong_])); ARead 10; ATick 100;
   AEmit; AEmit; AEmit; AEmit].


(* ================================================================== repair F10: a directory that left the tree is forgotten *)
Lemma aremove_notin (q : bytes) (w : N) m : ~ In (q, w) (aremove beqb q m).
Proof.
  induction m as [|[a b] m IH]; cbn; [tauto|]. destruct (beqb q a) eqn:E; [exact IH|].
  intros [H|H]; [inversion H; subst; rewrite beqb_refl in E; discriminate | now apply IH].
Qed.

Lemma alookup_none_notin (q : bytes) (w : N) m : alookup beqb q m = None -> ~ In (q, w) m.
Proof.
  induction m as [|[a b] m IH]; cbn; [tauto|]. destruct (beqb q a) eqn:E; [discriminate|].
  intros H [Hin|Hin]; [inversion Hin; subst; rewrite beqb_refl in E; discriminate | now apply IH].
Qed.

Lemma forget_tree_wfp_sub p : forall keys r k r' k',
  forget_tree keys p r k = (r', k') -> forall x, In x (wfp r') -> In x (wfp r).
Proof.
  induction keys as [|[q0 x0] keys IH]; intros r k r' k' H x Hx; cbn [forget_tree] in H.
  - now inversion H; subst.
  - destruct (beqb q0 p || starts (p ++ [sep]) q0); [|eauto].
    destruct (alookup beqb q0 (wfp r)) as [wd|]; [|eauto].
    destruct (alookup N.eqb wd (pfw r)) as [q'|]; [destruct (beqb q' q0)|];
      eapply IH in H; try exact Hx; cbn in H; eapply in_aremove; exact H.
Qed.

(* every key of the snapshot that is the path or lies below it is gone afterwards *)
Lemma forget_tree_gone p : forall keys r k r' k',
  forget_tree keys p r k = (r', k') ->
  forall q w x, In (q, w) (wfp r') -> In (q, x) keys -> beqb q p || starts (p ++ [sep]) q = false.
Proof.
  induction keys as [|[q0 x0] keys IH]; intros r k r' k' H q w x Hq Hk; [contradiction|].
  destruct (beqb q p || starts (p ++ [sep]) q) eqn:Em; [exfalso | reflexivity].
  cbn [forget_tree] in H. destruct Hk as [Hk|Hk].
  - inversion Hk; subst q0 x0. rewrite Em in H.
    destruct (alookup beqb q (wfp r)) as [wd|] eqn:El.
    + assert (Hsub : In (q, w) (aremove beqb q (wfp r))).
      { destruct (alookup N.eqb wd (pfw r)) as [q'|]; [destruct (beqb q' q)|];
          eapply forget_tree_wfp_sub in H; try exact Hq; exact H. }
      exact (aremove_notin _ _ _ Hsub).
    + eapply forget_tree_wfp_sub in H; [|exact Hq]. exact (alookup_none_notin _ _ _ El H).
  - assert (Hf : beqb q p || starts (p ++ [sep]) q = false).
    { destruct (beqb q0 p || starts (p ++ [sep]) q0); [|eapply IH; eauto].
      destruct (alookup beqb q0 (wfp r)) as [wd|]; [|eapply IH; eauto].
      destruct (alookup N.eqb wd (pfw r)) as [q'|]; [destruct (beqb q' q0)|]; eapply IH; eauto. }
    congruence.
Qed.

(* The head of the loop body, current code: when the record after a directory IN_MOVED_FROM is not its IN_MOVED_TO on a known descriptor, no
   key of _wd_for_path is the moved-out path or lies below it any more, and nothing is remembered *)
Theorem settle_pending_forgotten C r k e c p r' k' :
  c_fix_moveout C = true -> pend r = Some (c, p) ->
  is_moved_to (k_mask e) && N.eqb (k_cookie e) c && amem N.eqb (k_wd e) (pfw r) = false ->
  settle_pending C r k e = (r', k') ->
  pend r' = None /\
  (forall x, In x (wfp r') -> In x (wfp r)) /\
  (forall q w, In (q, w) (wfp r') -> beqb q p || starts (p ++ [sep]) q = false).
Proof.
  intros Hf Hp Hm H. rewrite (settle_pending_forget C r k e c p Hf Hp Hm) in H.
  split; [|split].
  - apply forget_tree_sub in H as (_ & _ & _ & H). exact H.
  - intros x Hx. eapply forget_tree_wfp_sub in H; [|exact Hx]. exact H.
  - intros q w Hq. eapply forget_tree_gone; [exact H | exact Hq|].
    eapply forget_tree_wfp_sub in H; [|exact Hq]. exact H.
Qed.

(* data of the move-out example: /w watched, /o outside *)
Definition out_ : bytes := [47; 111]%N.               (* "/o" *)
Definition Pm_ (fix_moveout : bool) : pcfg :=
  {| pc_reader := {| c_recursive := true; c_mask := WATCHDOG_ALL; c_root := rt_; c_fix_ignored := true;
                     c_fix_movein := true; c_fix_simulate := true; c_fix_relabel := true; c_fix_moveout := fix_moveout; c_faults := [] |};
     pc_full := false; pc_filter := None; pc_delay := 5 |}.
Definition wm_ : world :=
  {| w_fs := [{| f_path := rt_; f_ino := 1; f_dir := true |}; {| f_path := out_; f_ino := 2; f_dir := true |}];
     w_next_ino := 3 |}.
Definition hm_ : list action :=
  [AOp (Mkdir (rt_ ++ relsuffix [eacute_])); ARead 10;
   AOp (Rename (rt_ ++ relsuffix [eacute_]) (out_ ++ relsuffix [eacute_])); ARead 10;
   AOp (Touch (out_ ++ relsuffix [eacute_; xff_])); ARead 10; ATick 100;
   AEmit; AEmit; AEmit; AEmit; AEmit; AEmit; AEmit; AEmit].

(* ================================================================== the reader for any spelling of the root *)
Section JRoot.
  Variable root : bytes.
  Hypothesis Hne : root <> [].

  (* what os.path.join(root, n) puts in front of the name *)
  Definition jpre : bytes := if last_is_sep root then root else root ++ [sep].

  Lemma join_root_pre n : valid_name n = true -> join root n = jpre ++ n.
  Proof.
    intros Hn. unfold join, jpre. destruct n as [|c n']; [discriminate|].
    rewrite (valid_nosep _ Hn c (or_introl eq_refl)). destruct root as [|r0 root']; [contradiction|].
    destruct (last_is_sep (r0 :: root')); [reflexivity|]. now rewrite <- app_assoc.
  Qed.

  Lemma joins_cons n rel :
    valid_name n = true -> forallb valid_name rel = true -> joins root (n :: rel) = jpre ++ n ++ relsuffix rel.
  Proof.
    intros Hn Hrel. cbn [joins fold_left]. destruct (join_normal root n Hn) as [H1 H2].
    change (fold_left join rel (join root n)) with (joins (join root n) rel).
    rewrite joins_suffix by assumption. rewrite join_root_pre by assumption. now rewrite <- app_assoc.
  Qed.

  Lemma joins_app a b : joins root (a ++ b) = joins (joins root a) b.
  Proof. unfold joins. apply fold_left_app. Qed.

  Lemma jrooted_root : jrooted root root.
  Proof. exists []. split; reflexivity. Qed.

  Lemma jjoin_below p n : jrooted root p -> valid_name n = true -> jbelow root (join p n).
  Proof.
    intros [rel [Hrel ->]] Hn.
    assert (E : join (joins root rel) n = joins root (rel ++ [n])) by (rewrite joins_app; reflexivity).
    rewrite E. destruct rel as [|a rel'].
    - exists n, []. repeat split; assumption.
    - apply forallb_valid_cons in Hrel as [Ha Hrel']. exists a, (rel' ++ [n]). repeat split; try assumption.
      apply forallb_valid_snoc. split; assumption.
  Qed.

  (* a path strictly below the root is normalised, so joining more names appends "/n1/n2..." *)
  Lemma jbelow_app p c :
    jbelow root p -> forallb valid_name c = true -> jbelow root (p ++ relsuffix c) /\ p ++ relsuffix c = joins p c.
  Proof.
    intros [n [rel [Hn [Hrel ->]]]] Hc.
    assert (Hnorm : joins root (n :: rel) <> [] /\ last_is_sep (joins root (n :: rel)) = false).
    { cbn [joins fold_left]. change (fold_left join rel (join root n)) with (joins (join root n) rel).
      destruct (join_normal root n Hn) as [H1 H2]. rewrite joins_suffix by assumption.
      split; [intros H; apply app_eq_nil in H as [H _]; contradiction | now apply last_is_sep_root]. }
    destruct Hnorm as [N1 N2].
    assert (E : joins root (n :: rel) ++ relsuffix c = joins (joins root (n :: rel)) c)
      by (symmetry; now apply joins_suffix).
    split; [|exact E]. rewrite E, <- joins_app. exists n, (rel ++ c). repeat split; try assumption.
    apply forallb_valid_app. split; assumption.
  Qed.

  Lemma length_lt_neq {A} (a b : list A) : length a < length b -> a <> b.
  Proof. intros H E. subst. lia. Qed.

  Lemma jpre_len : length root <= length jpre.
  Proof. unfold jpre. destruct (last_is_sep root); [lia | rewrite app_length; cbn; lia]. Qed.

  Lemma relsuffix_sep_head rel x : exists t, relsuffix rel ++ sep :: x = sep :: t.
  Proof. destruct rel as [|a rel]; [exists x; reflexivity | eexists; rewrite relsuffix_cons; reflexivity]. Qed.

  (* the C14 re-key for any root: a key src/rest becomes dst/rest *)
  Lemma jrekey src dst p :
    jrooted root src -> jbelow root dst -> jrooted root p -> starts (src ++ [sep]) p = true ->
    jrooted root (replace_first src dst p).
  Proof.
    intros [rs [Hrs Hs]] Hd [rp [Hrp Hp]] Hst.
    apply starts_spec in Hst as [rest Hrest]. rewrite <- app_assoc in Hrest. cbn [app] in Hrest.
    assert (Hsne : src <> []).
    { subst src. destruct rs as [|a rs']; [exact Hne|]. apply forallb_valid_cons in Hrs as [Ha Hrs'].
      rewrite joins_cons by assumption. unfold jpre. destruct (last_is_sep root); destruct root; try contradiction; discriminate. }
    rewrite Hrest. rewrite replace_first_prefix by exact Hsne.
    (* it is enough to find valid names c with "/" ++ rest = relsuffix c *)
    assert (Hc : exists c, forallb valid_name c = true /\ relsuffix c = sep :: rest).
    { destruct rp as [|np rp'].
      - (* p = root: too short *)
        exfalso. cbn in Hp. subst p. destruct rs as [|ns rs'].
        + cbn in Hs. subst src. apply (f_equal (@length N)) in Hrest. rewrite app_length in Hrest. cbn in Hrest. lia.
        + apply forallb_valid_cons in Hrs as [Hns Hrs']. rewrite joins_cons in Hs by assumption. subst src.
          apply (f_equal (@length N)) in Hrest. rewrite !app_length in Hrest. cbn [length] in Hrest.
          assert (L := jpre_len). destruct ns; [discriminate|]. cbn [length] in Hrest. lia.
      - apply forallb_valid_cons in Hrp as [Hnp Hrp']. rewrite joins_cons in Hp by assumption.
        destruct rs as [|ns rs'].
        + (* src = root *)
          cbn in Hs. subst src. subst p. unfold jpre in Hrest. destruct (last_is_sep root) eqn:El.
          * apply app_inv_head in Hrest. destruct np as [|c0 np']; [discriminate|].
            cbn in Hrest. inversion Hrest; subst c0.
            exfalso. assert (Hx := valid_nosep _ Hnp sep (or_introl eq_refl)). vm_compute in Hx. discriminate.
          * rewrite <- app_assoc in Hrest. apply app_inv_head in Hrest. cbn [app] in Hrest. inversion Hrest as [Hr].
            exists (np :: rp'). split; [cbn; now rewrite Hnp, Hrp' | now rewrite relsuffix_cons].
        + apply forallb_valid_cons in Hrs as [Hns Hrs']. rewrite joins_cons in Hs by assumption. subst src p.
          rewrite <- !app_assoc in Hrest. apply app_inv_head in Hrest.
          destruct (relsuffix_sep_head rs' rest) as [T HT]. rewrite HT in Hrest.
          destruct rp' as [|a rp''].
          * exfalso. rewrite relsuffix_nil, app_nil_r in Hrest. symmetry in Hrest.
            eapply (nosep_no_sep_end ns np T); eauto using valid_nosep.
          * rewrite relsuffix_cons in Hrest.
            apply nosep_split in Hrest as [-> Hr]; eauto using valid_nosep.
            assert (Hpar : relsuffix rs' ++ sep :: rest = relsuffix (a :: rp'')).
            { rewrite HT, relsuffix_cons. now rewrite Hr. }
            destruct (relsuffix_parse rs' (a :: rp'') rest Hrs' Hrp' Hpar) as [c [Hc1 Hc2]].
            exists c. split; [|exact Hc2]. rewrite Hc1 in Hrp'. now apply forallb_valid_app in Hrp' as [_ H]. }
    destruct Hc as [c [Hcv Hc]]. rewrite <- Hc.
    apply jbelow_jrooted. now apply jbelow_app.
  Qed.
End JRoot.

Section JReader.
  Variable C : cfg.
  Hypothesis Hne : c_root C <> [].
  Notation root := (c_root C).

  Lemma jpath_inv_g r : jpath_inv root r <-> gpath_inv (jrooted root) r.
  Proof.
    split.
    - intros (H1 & H2 & H3 & H4). constructor; assumption.
    - intros [H1 H2 H3 H4]. repeat split; assumption.
  Qed.

  Lemma jraw_ok_g x : jraw_ok root x <-> graw_ok (jrooted root) (jbelow root) x.
  Proof. reflexivity. Qed.

  Theorem jread_batch_inv t b r k acc r' k' acc' :
    fs_names_ok t -> jpath_inv root r -> Forall (jraw_ok root) acc -> Forall kraw_ok b ->
    read_batch C t (r, k, acc) b = Done (r', k', acc') ->
    jpath_inv root r' /\ Forall (jraw_ok root) acc'.
  Proof.
    intros Hfs Hi Ha Hb H. apply jpath_inv_g in Hi.
    destruct (g_read_batch_inv C (jrooted root) (jbelow root) (jjoin_below root) (jbelow_jrooted root)
                               (jrekey root Hne) t b r k acc r' k' acc' Hfs Hi Ha Hb H) as [Hi' Ha'].
    split; [now apply jpath_inv_g | exact Ha'].
  Qed.

  Theorem jconstruct_inv k t r' k' :
    fs_names_ok t -> construct C k t = Some (r', k') -> jpath_inv root r'.
  Proof.
    intros Hfs H. apply jpath_inv_g.
    exact (g_construct_inv C (jrooted root) (jbelow root) (jrooted_root root) (jjoin_below root)
                           (jbelow_jrooted root) k t r' k' Hfs H).
  Qed.

  Corollary jraw_paths t b r k r' k' out :
    fs_names_ok t -> jpath_inv root r -> Forall kraw_ok b ->
    read_batch C t (r, k, []) b = Done (r', k', out) -> forall x, In x out -> jrooted root (r_path x).
  Proof.
    intros Hfs Hi Hb H x Hx.
    destruct (jread_batch_inv t b r k [] r' k' out Hfs Hi (Forall_nil _) Hb H) as [_ Ho].
    rewrite Forall_forall in Ho. destruct (Ho x Hx) as [Hbx|[Hr _]]; [now apply jbelow_jrooted | exact Hr].
  Qed.
End JReader.

(* data of the trailing-slash reader example: the watch was given as "/w/" *)
Definition rts_ : bytes := rt_ ++ [sep].
Definition Cs_ : cfg :=
  {| c_recursive := true; c_mask := WATCHDOG_ALL; c_root := rts_; c_fix_ignored := true; c_fix_movein := true;
     c_fix_simulate := true; c_fix_relabel := true; c_fix_moveout := true; c_faults := [] |}.
Definition ts_ : fs :=
  [{| f_path := rt_; f_ino := 1; f_dir := true |};
   {| f_path := rt_ ++ relsuffix [eacute_]; f_ino := 2; f_dir := true |};
   {| f_path := rt_ ++ relsuffix [eacute_; xff_]; f_ino := 3; f_dir := false |}].
Definition ks_ : kst :=
  {| k_watches := [{| kw_wd := 1; kw_ino := 1; kw_mask := WATCHDOG_ALL |}]; k_next_wd := 2; k_queue := [];
     k_next_cookie := 1 |}.
Definition rs_ : rstate := {| wfp := [(rts_, 1%N)]; pfw := [(1%N, rts_)]; mvf := []; calls := 0; pend := None |}.
Definition bs_ : list kraw :=
  [{| k_wd := 1; k_mask := N.lor IN_CREATE IN_ISDIR; k_cookie := 0; k_name := eacute_ |};
   {| k_wd := 1; k_mask := N.lor IN_MOVED_FROM IN_ISDIR; k_cookie := 5; k_name := eacute_ |};
   {| k_wd := 1; k_mask := N.lor IN_MOVED_TO IN_ISDIR; k_cookie := 5; k_name := zhong_ |};
   {| k_wd := 1; k_mask := N.lor IN_ATTRIB IN_ISDIR; k_cookie := 0; k_name := [] |}].
