(* Model of InotifyEmitter.get_event_mask_from_filter (watchdog/observers/inotify.py) - the kernel
   event mask an event filter is compiled into - and of the set of native flags that matter for a
   filter, read off the emitter table (Emitter.emit).  Definitions only (this file is extracted).

   [mask_of_filter] follows the REPAIRED code (fixes/F6-filter-mask.diff); [mask_of_filter_pinned]
   is a frozen copy of the table of the pinned tree (commit 53522da), kept for C11_table_refuted_pinned.
   The table actually present in the source is regenerated into Gen/MaskTableGen.v on every run. *)
Require Import WD.Base.Prelude WD.Base.BStr WD.Model.SubEvents WD.Model.Emitter.

(* every bit of [b] is set in [m] *)
Definition flag_in (b m : N) : bool := N.eqb (N.land m b) b.

(* inotify_c.WATCHDOG_ALL_EVENTS: the mask used when there is no filter (IN_DONT_FOLLOW = 0x02000000) *)
Definition IN_DONT_FOLLOW : N := 33554432%N.
Definition WATCHDOG_ALL_EVENTS : N :=
  fold_left N.lor
    [IN_MODIFY; IN_ATTRIB; IN_MOVED_FROM; IN_MOVED_TO; IN_CREATE; IN_DELETE; IN_DELETE_SELF; IN_DONT_FOLLOW;
     IN_CLOSE_WRITE; IN_CLOSE_NOWRITE; IN_OPEN] 0%N.

(* InotifyConstants.IN_ALL_EVENTS: the 12 user-space event bits; a watch only ever reports an event
   bit it asked for (IN_IGNORED, IN_Q_OVERFLOW, IN_UNMOUNT are sent regardless and produce no
   FileSystemEvent). *)
Definition IN_ALL_EVENTS : N := 4095%N.

(* Kernel side (modelled, validated end-to-end on the real kernel): a watch with mask M is sent a
   raw event with flags m iff they share a user-space event bit. *)
Definition delivered (M m : N) : bool := has m (N.land M IN_ALL_EVENTS).

(* `issubclass(A, cls) or issubclass(B, cls)` *)
Definition sub_any (cs : list evclass) (cls : evbase) : bool := existsb (fun c => subclass c cls) cs.

(* ---- the repaired table: one iteration of `for cls in self._event_filter:` *)
Definition mask_step (event_mask : N) (cls : evbase) : N :=
  let event_mask := if sub_any [DirMoved; FileMoved] cls then N.lor event_mask IN_MOVE else event_mask in
  let event_mask := if sub_any [DirCreated; FileCreated] cls
                    then N.lor event_mask (N.lor IN_MOVE IN_CREATE) else event_mask in
  let event_mask := if sub_any [DirModified] cls
                    then N.lor event_mask
                           (N.lor IN_MOVE (N.lor IN_ATTRIB (N.lor IN_MODIFY (N.lor IN_CREATE (N.lor IN_DELETE IN_CLOSE_WRITE)))))
                    else event_mask in
  let event_mask := if sub_any [FileModified] cls then N.lor event_mask (N.lor IN_ATTRIB IN_MODIFY) else event_mask in
  let event_mask := if sub_any [DirDeleted; FileDeleted] cls
                    then N.lor event_mask (N.lor IN_MOVE IN_DELETE) else event_mask in
  let event_mask := if sub_any [FileClosed] cls then N.lor event_mask IN_CLOSE_WRITE else event_mask in
  let event_mask := if sub_any [FileClosedNoWrite] cls then N.lor event_mask IN_CLOSE_NOWRITE else event_mask in
  let event_mask := if sub_any [FileOpened] cls then N.lor event_mask IN_OPEN else event_mask in
  event_mask.

(* `event_mask = IN_DELETE_SELF`; `if self.watch.is_recursive: event_mask |= IN_MOVE | IN_CREATE` *)
Definition mask_init (recursive : bool) : N :=
  if recursive then N.lor IN_DELETE_SELF (N.lor IN_MOVE IN_CREATE) else IN_DELETE_SELF.

(* get_event_mask_from_filter(); None = "no filter": the caller then uses WATCHDOG_ALL_EVENTS *)
Definition mask_of_filter (recursive : bool) (F : option (list evbase)) : option N :=
  match F with
  | None => None
  | Some l => Some (fold_left mask_step l (mask_init recursive))
  end.

(* ---- frozen copy of the pinned table (an `if / elif` chain on class identity, no recursive case) *)
Definition is_one_of (cs : list evclass) (cls : evbase) : bool :=
  existsb (fun c => evbase_eqb cls (Concrete c)) cs.

Definition mask_step_pinned (event_mask : N) (cls : evbase) : N :=
  if is_one_of [DirMoved; FileMoved] cls then N.lor event_mask IN_MOVE
  else if is_one_of [DirCreated; FileCreated] cls then N.lor event_mask (N.lor IN_MOVE IN_CREATE)
  else if is_one_of [DirModified] cls
       then N.lor event_mask (N.lor IN_MOVE (N.lor IN_ATTRIB (N.lor IN_MODIFY (N.lor IN_CREATE IN_CLOSE_WRITE))))
  else if is_one_of [FileModified] cls then N.lor event_mask (N.lor IN_ATTRIB IN_MODIFY)
  else if is_one_of [DirDeleted; FileDeleted] cls then N.lor event_mask IN_DELETE
  else if is_one_of [FileClosed] cls then N.lor event_mask IN_CLOSE_WRITE
  else if is_one_of [FileClosedNoWrite] cls then N.lor event_mask IN_CLOSE_NOWRITE
  else if is_one_of [FileOpened] cls then N.lor event_mask IN_OPEN
  else event_mask.

Definition mask_of_filter_pinned (recursive : bool) (F : option (list evbase)) : option N :=
  match F with
  | None => None
  | Some l => Some (fold_left mask_step_pinned l IN_DELETE_SELF)
  end.

(* the mask the Inotify object is created with *)
Definition effective_mask (o : option N) : N :=
  match o with None => WATCHDOG_ALL_EVENTS | Some M => M end.
Definition flag_set (b : N) (o : option N) : bool := flag_in b (effective_mask o).

(* ------------------------------------------------------------------ which flags matter *)
(* Probe items: everything the buffer can hand to the emitter that carries flag b - the event alone,
   with and without IN_ISDIR, for the watched path itself and for an entry below it, and (for the two
   halves of a move) the paired item - over a directory content with one sub-directory and one file,
   so that both flavours of synthetic events occur. *)
Definition probe_root : bytes := [47; 114]%N.                      (* "/r" *)
Definition probe_entry : bytes := [47; 114; 47; 120]%N.            (* "/r/x" *)
Definition probe_entry2 : bytes := [47; 114; 47; 121]%N.           (* "/r/y" *)
Definition probe_tree : tree := Node [([100]%N, Node [] [])] [[102]%N].
Definition probe_raw (m : N) (p : bytes) : raw :=
  {| r_wd := 1%N; r_mask := m; r_cookie := 7%N; r_name := basename p; r_path := p |}.

Definition probe_items (b : N) : list item :=
  flat_map (fun isdir : N =>
    [Single (probe_raw (N.lor b isdir) probe_entry); Single (probe_raw (N.lor b isdir) probe_root)]
    ++ (if N.eqb b IN_MOVED_FROM || N.eqb b IN_MOVED_TO
        then [Pair (probe_raw (N.lor IN_MOVED_FROM isdir) probe_entry) (probe_raw (N.lor IN_MOVED_TO isdir) probe_entry2)]
        else []))
    [0%N; IN_ISDIR].

(* some item carrying flag b makes the (normal or full) emitter of a watch with this recursive
   setting hand an event of class c to queue_event *)
Definition produces (recursive : bool) (b : N) (c : evclass) : bool :=
  existsb (fun full : bool =>
    existsb (fun it => existsb (fun e => evclass_eqb (ev_cls e) c)
                         (fst (emit full recursive probe_root (fun _ => probe_tree) it)))
            (probe_items b))
    [false; true].

(* flag b can contribute an event the filter accepts *)
Definition contributes (F : option (list evbase)) (recursive : bool) (b : N) : bool :=
  existsb (fun c => accepts F c && produces recursive b c) all_classes.

(* The flags a watch with filter F must ask the kernel for:
   - IN_DELETE_SELF always (the emitter and the buffer stop on it);
   - for a recursive watch the flags whose events change which directories are watched, or under
     which path: IN_CREATE (new sub-directory), IN_MOVED_FROM / IN_MOVED_TO (re-keying);
   - every flag that can contribute an accepted event; the two halves of a move as a whole,
     because what one half is translated into depends on whether the other half is seen. *)
Definition needed_for (F : option (list evbase)) (recursive : bool) : list N :=
  IN_DELETE_SELF
  :: (if recursive then [IN_CREATE; IN_MOVED_FROM; IN_MOVED_TO] else [])
  ++ filter (fun b =>
       if N.eqb b IN_MOVED_FROM || N.eqb b IN_MOVED_TO
       then contributes F recursive IN_MOVED_FROM || contributes F recursive IN_MOVED_TO
       else contributes F recursive b)
     all_flags.

(* ------------------------------------------------------------------ what a watch with mask M is handed *)
(* In place of an item the unfiltered watch's buffer hands over, the buffer of a watch whose kernel mask
   is M (same paths, same pairing window) hands over: a single event only if the kernel sends it; a
   paired move only if both halves are sent - with one half missing the other half arrives alone. *)
Definition handed_over (M : N) (it : item) : list item :=
  match it with
  | Single e => if delivered M (r_mask e) then [Single e] else []
  | Pair f t =>
    match flag_in IN_MOVED_FROM M, flag_in IN_MOVED_TO M with
    | true, true => [Pair f t]
    | true, false => [Single f]
    | false, true => [Single t]
    | false, false => []
    end
  end.
