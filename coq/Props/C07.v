(* C07 - Monitoring never silently dies while the observer runs and the root exists.
   Statements only. *)
Require Import WD.Base.Prelude WD.Base.BStr WD.Model.SubEvents WD.Model.Emitter WD.Model.Fs WD.Model.Reader
               WD.Model.DelayQueue WD.Model.Grouping WD.Model.Pipeline WD.Proofs.NoCrashProofs.
Local Open Scope N_scope.

(* For EVERY initial world, EVERY history (operations of any kind on any path - inside the tree, on
   entries that have left it, re-using names -, reads cutting the kernel stream anywhere, emitter
   steps, clock ticks) and EVERY set of failing inotify_add_watch calls (transient lookup failures),
   recursive or not, with or without an event filter: the reader thread of the current code never
   raises (the model's only exceptional outcome, [Crash], is unreachable). *)
Theorem C07_no_crash : forall (P : pcfg),
  c_fix_ignored (pc_reader P) = true -> c_fix_simulate (pc_reader P) = true -> c_fix_moveout (pc_reader P) = true ->
  forall w s0 h, pinit P w = Some s0 -> exists s' obs, prun P s0 h [] = Done (s', obs).
Proof. exact no_crash. Qed.
Print Assumptions C07_no_crash.

(* The invariant behind it, exported: at every reachable state every live kernel watch carries a descriptor the reader
   knows, an IN_IGNORED record that is still queued never refers to a live watch (the clean-up it triggers cannot
   forget a live descriptor), and descriptors are never re-used.  (Before the repair of F10 the reader also had to know
   the descriptor of every QUEUED record - it raised KeyError otherwise; now a record for a descriptor it has forgotten
   is skipped: C07_unknown_descriptor_skipped.) *)
Theorem C07_descriptors_known : forall (P : pcfg),
  c_fix_ignored (pc_reader P) = true -> c_fix_simulate (pc_reader P) = true -> c_fix_moveout (pc_reader P) = true ->
  forall w s0 h s' obs, pinit P w = Some s0 -> prun P s0 h [] = Done (s', obs) ->
  (forall x, In x (k_watches (p_k s')) -> In (kw_wd x) (map fst (pfw (p_r s')))) /\
  (forall e, In e (k_queue (p_k s')) -> Emitter.is_ignored (k_mask e) = true ->
             forall x, In x (k_watches (p_k s')) -> kw_wd x <> k_wd e) /\
  NoDup (map kw_wd (k_watches (p_k s'))).
Proof. exact descriptors_known. Qed.
Print Assumptions C07_descriptors_known.

Theorem C07_unknown_descriptor_skipped : forall (P : pcfg), c_fix_moveout (pc_reader P) = true ->
  forall t r k acc e, alookup N.eqb (k_wd e) (pfw r) = None ->
  read_one_body (pc_reader P) t (r, k, acc) e = Done (r, k, acc).
Proof. exact unknown_descriptor_skipped. Qed.
Print Assumptions C07_unknown_descriptor_skipped.

(* Root deletion: the kernel's IN_DELETE_SELF for the watched root is translated into exactly one
   DirDeleted(root) and a stop request; a stopped emitter produces nothing further. *)
Theorem C07_root_deleted_event : forall full recursive root content e,
  r_mask e = IN_DELETE_SELF -> r_path e = root ->
  emit full recursive root content (Single e) = ([mk DirDeleted root []], true).
Proof. exact root_deleted_event. Qed.
Print Assumptions C07_root_deleted_event.

Theorem C07_stopped_is_silent : forall P s, p_stopped s = true -> pstep P s AEmit = Done (s, OSkip).
Proof. exact stopped_is_silent. Qed.
Print Assumptions C07_stopped_is_silent.

(* ---------------------------------------------------------------- the pinned code is refuted *)
Definition Rt : bytes := [47; 82].            (* "/R" *)
Definition Ot : bytes := [47; 79].            (* "/O" *)
Definition d_ (a : bytes) : bytes := a ++ [47; 100].   (* a ++ "/d" *)
Definition world0 : world :=
  {| w_fs := [{| f_path := Rt; f_ino := 1; f_dir := true |}; {| f_path := Ot; f_ino := 2; f_dir := true |}];
     w_next_ino := 3 |}.
Definition cfg0 (fi fs_ : bool) (faults : list nat) : pcfg :=
  {| pc_reader := {| c_recursive := true; c_mask := WATCHDOG_ALL; c_root := Rt; c_fix_ignored := fi;
                     c_fix_movein := true; c_fix_simulate := fs_;
                     c_fix_relabel := true; c_fix_moveout := fi && fs_;      (* the pinned configurations also pin the code before the repair of F10 *)
                     c_faults := faults |};
     pc_full := false; pc_filter := None; pc_delay := 4 |}.

Definition run0 (P : pcfg) (h : list action) : option N :=
  match pinit P world0 with
  | None => None
  | Some s0 => match prun P s0 h [] with Crash site => Some site | Done _ => None end
  end.

(* F1: mv R/d O/d; mkdir R/d; rmdir R/d; rmdir O/d  - KeyError in the IN_IGNORED clean-up *)
Definition h_f1 : list action :=
  [AOp (Mkdir (d_ Rt)); ARead 9; AOp (Rename (d_ Rt) (d_ Ot)); ARead 9; AOp (Mkdir (d_ Rt)); ARead 9;
   AOp (Rmdir (d_ Rt)); ARead 9; AOp (Rmdir (d_ Ot)); ARead 9].
Theorem C07_pinned_ignored_refuted : run0 (cfg0 false true []) h_f1 = Some SITE_IGNORED.
Proof. vm_compute. reflexivity. Qed.
Print Assumptions C07_pinned_ignored_refuted.

(* F14: add_watch of a new sub-directory fails (suppressed) and the directory contains a file *)
Definition h_f14 : list action :=
  [AOp (Mkdir (d_ Rt)); AOp (Mkdir (d_ (d_ Rt))); AOp (Touch (d_ (d_ (d_ Rt)))); ARead 9].
Theorem C07_pinned_simulate_refuted : run0 (cfg0 true false [2%nat]) h_f14 = Some SITE_SIMULATE.
Proof. vm_compute. reflexivity. Qed.
Print Assumptions C07_pinned_simulate_refuted.

(* the same histories on the current code: no crash (non-vacuity of C07_no_crash's hypotheses) *)
Example C07_nonvacuous :
  run0 (cfg0 true true []) h_f1 = None /\ run0 (cfg0 true true [2%nat]) h_f14 = None /\
  exists s0, pinit (cfg0 true true []) world0 = Some s0.
Proof. vm_compute. repeat split. eexists. reflexivity. Qed.

(* ---------------------------------------------------------------- "later changes do not go unreported": the root *)
Require Import WD.Model.PathTypes WD.Proofs.PathProofs WD.Proofs.CoverProofs WD.Proofs.RootAliveProofs.

(* For EVERY well-formed world, EVERY history whose operations leave the root and its ancestors in place (anything
   else may happen: directories moved out and changed outside, names re-used, deletions) cut by reads of any size,
   emitter steps and clock ticks, and EVERY set of failing inotify_add_watch calls: the root directory is still
   watched by the kernel under a descriptor the reader maps to the root's true path, and no stale path entry shares
   that descriptor - also in the stale-bookkeeping states of the known findings F10/F10b-d. *)
Theorem C07_root_alive : forall (P : pcfg),
  c_root (pc_reader P) <> [] -> last_is_sep (c_root (pc_reader P)) = false ->
  c_fix_ignored (pc_reader P) = true -> c_fix_simulate (pc_reader P) = true -> c_fix_moveout (pc_reader P) = true ->
  forall w s0 h s obs,
  wf_fs w -> fs_names_ok (w_fs w) -> (forall o, In (AOp o) h -> op_ok P o) ->
  pinit P w = Some s0 -> prun P s0 h [] = Done (s, obs) ->
  exists e kw,
    In e (w_fs (p_world s)) /\ f_path e = c_root (pc_reader P) /\ f_dir e = true /\
    watch_of_ino (p_k s) (f_ino e) = Some kw /\
    alookup N.eqb (kw_wd kw) (pfw (p_r s)) = Some (c_root (pc_reader P)) /\
    (forall p, alookup beqb p (wfp (p_r s)) = Some (kw_wd kw) -> p = c_root (pc_reader P)).
Proof. exact root_alive. Qed.
Print Assumptions C07_root_alive.

(* ... and therefore every record the kernel delivers on that descriptor about a named entry (create, modify, delete,
   attrib, close of a file; delete/attrib of a sub-directory) is handed on under  root/<name> *)
Theorem C07_root_probe : forall (C : cfg) w0 (w : world) r k acc m c n ns,
  pend r = None ->
  alookup N.eqb w0 (pfw r) = Some (c_root C) ->
  is_moved_from m = false -> is_moved_to m = false -> Emitter.is_ignored m = false ->
  is_directory m && is_create m = false ->
  read_one C (w_fs w) (r, k, acc) {| k_wd := w0; k_mask := m; k_cookie := c; k_name := n :: ns |} =
  Done (r, k, acc ++ [{| r_wd := w0; r_mask := m; r_cookie := c; r_name := n :: ns;
                         r_path := join (c_root C) (n :: ns) |}]).
Proof. exact root_probe. Qed.
Print Assumptions C07_root_probe.

(* non-vacuity: the history that used to produce the stale state of F10 (directory moved out, name re-used, change
   outside, old name removed) meets every hypothesis of C07_root_alive; with the repair every path the reader knows
   at the end exists (the departed directory was forgotten at the first record after its IN_MOVED_FROM) *)
Definition hx : list action :=
  [AOp (Mkdir (sub pR 100)); ARead 9; AOp (Rename (sub pR 100) (sub pO 102)); ARead 9;
   AOp (Mkdir (sub pR 100)); AOp (Touch (sub (sub pO 102) 120)); ARead 9; AOp (Rmdir (sub pR 100)); ARead 9].
Example C07_root_alive_nonvacuous :
  wf_fs w0 /\ fs_names_ok (w_fs w0) /\ (forall o, In (AOp o) hx -> op_ok (Px true) o) /\
  match pinit (Px true) w0 with
  | Some s0 => match prun (Px true) s0 hx [] with
               | Done (s, _) => forallb (fun x : N * bytes => fexists (snd x) (w_fs (p_world s))) (pfw (p_r s))
               | Crash _ => false
               end
  | None => false
  end = true.
Proof.
  assert (GS : gpath [47;115]%N) by (split; [discriminate | reflexivity]).
  assert (NR : npath pR) by (apply (npath_sub [47;115]%N 82 GS); reflexivity).
  assert (NO : npath pO) by (apply (npath_sub [47;115]%N 79 GS); reflexivity).
  assert (N1 : npath (sub pR 100)) by (apply npath_sub; [now apply npath_gpath | reflexivity]).
  assert (N2 : npath (sub pO 102)) by (apply npath_sub; [now apply npath_gpath | reflexivity]).
  assert (N3 : npath (sub (sub pO 102) 120)) by (apply npath_sub; [now apply npath_gpath | reflexivity]).
  split; [exact w0_wf|]. split; [|split].
  - intros e [<-|[<-|[<-|[<-|[]]]]]; reflexivity.
  - intros o Ho. simpl in Ho.
    repeat (destruct Ho as [Ho|Ho]; [try discriminate; inversion Ho; subst; clear Ho|]); try contradiction;
      (split; [simpl; auto | split; [simpl; auto | simpl; repeat split; try discriminate; auto]]).
  - vm_compute. reflexivity.
Qed.
