open Sexp
open Conv

(* tree on the wire: (ino dev isdir mtime size ((name tree) ...)); option tree: () | (tree) *)
let rec tree_of = function
  | L [i; d; k; m; z; L ch] ->
    Walk.Node ({ Snapshot.st_ino = n_of i; st_dev = n_of d; st_isdir = bool_of k; st_mtime = n_of m; st_size = n_of z },
               Stdlib.List.map (function L [n; t] -> (bytes_of n, tree_of t) | _ -> failwith "child") ch)
  | _ -> failwith "tree"
let otree_of = opt_of tree_of
let errno_of = function
  | A "ENOENT" -> Walk.ENOENT | A "ENOTDIR" -> Walk.ENOTDIR | A "EINVAL" -> Walk.EINVAL
  | A "EACCES" -> Walk.EACCES | A "EIO" -> Walk.EIO | _ -> failwith "errno"
let sx_errno = function
  | Walk.ENOENT -> A "ENOENT" | Walk.ENOTDIR -> A "ENOTDIR" | Walk.EINVAL -> A "EINVAL"
  | Walk.EACCES -> A "EACCES" | Walk.EIO -> A "EIO"
let call_of = function A "stat" -> Walk.CStat | A "listdir" -> Walk.CList | _ -> failwith "call"
(* faults: ((stat|listdir path errno) ...) *)
let faults_of = list_of (function L [c; p; e] -> ((call_of c, bytes_of p), errno_of e) | _ -> failwith "fault")

let sx_kind = function
  | Poll.FileDeleted -> A "FileDeleted" | Poll.FileModified -> A "FileModified" | Poll.FileCreated -> A "FileCreated"
  | Poll.FileMoved -> A "FileMoved" | Poll.DirDeleted -> A "DirDeleted" | Poll.DirModified -> A "DirModified"
  | Poll.DirCreated -> A "DirCreated" | Poll.DirMoved -> A "DirMoved"
let sx_event = function Poll.Ev (k, s, d) -> L [sx_kind k; sx_bytes s; sx_opt sx_bytes d]
let sx_outcome = function
  | Walk.Raised e -> L [A "RAISED"; sx_errno e]
  | Walk.Snap s -> L [A "SNAP"; M_snapshot.sx_snap s]

let run = function
  | L [A "snapshot"; r; root; t; f] ->
    sx_outcome (Walk.snapshot_of (bool_of r) (faults_of f) (bytes_of root) (otree_of t))
  | L [A "pruned"; r; root; t; f] ->
    (* the fault-free snapshot of the pruned tree *)
    let root = bytes_of root in
    sx_outcome (Walk.snapshot_of (bool_of r) [] root (Some (Walk.prune (faults_of f) root (tree_of t))))
  | L [A "polls"; r; root; L [t0; f0]; L steps] ->
    let r = bool_of r and root = bytes_of root in
    (match Poll.start r (faults_of f0) root (otree_of t0) with
     | None -> L [A "START-RAISED"]
     | Some st ->
       let st = ref st and dead = ref false in
       L (A "OK" :: Stdlib.List.map (function
         | L [t; f] ->
           if !dead then L [A "CRASH"] else
           (match Poll.poll r (faults_of f) root (otree_of t) !st with
            | Poll.PCrash -> dead := true; L [A "CRASH"]
            | Poll.PStep (evs, st') ->
              st := st';
              L [A "STEP"; sx_list sx_event evs; sx_bool st'.Poll.stopped; M_snapshot.sx_snap st'.Poll.prev])
         | _ -> failwith "step") steps))
  | _ -> failwith "walk: bad case"
