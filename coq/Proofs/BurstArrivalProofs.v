(* A burst that CONTAINS directory operations, for the one shape the code has a dedicated path for (_recursive_simulate):
   `mkdir p; <any sequence of mkdir / touch strictly below p>` applied back to back from a synchronised state - a directory
   that is already populated when the reader looks at its IN_CREATE|IN_ISDIR.  The kernel queues that one record (nothing
   below p is watched yet); the reader watches p, walks it, watches every sub-directory and fabricates create records. *)
Require Import WD.Base.Prelude WD.Base.BStr WD.Model.SubEvents WD.Model.Emitter WD.Model.Fs WD.Model.Reader
               WD.Model.DelayQueue WD.Model.Grouping WD.Model.Pipeline WD.Model.Contract.
Require Import WD.Proofs.ReaderFixProofs WD.Proofs.ContractProofs WD.Proofs.CoverProofs WD.Proofs.ReplayProofs
               WD.Proofs.SoundSeqProofs WD.Proofs.BurstProofs WD.Proofs.SubEventsProofs.

Local Arguments sep : simpl never.

(* an operation strictly below p that only adds an entry *)
Definition below_op (p : bytes) (o : op) : Prop :=
  match o with
  | Mkdir q | Touch q => npath q /\ under p q = true
  | _ => False
  end.

(* ================================================================== 1. the worlds of the burst *)
(* [t] extends [t0] by entries at or below p with inodes >= n0 *)
Definition grown (p : bytes) (n0 : N) (t0 t : fs) : Prop :=
  (forall e, In e t0 -> In e t) /\
  (forall e, In e t -> In e t0 \/ ((f_path e = p \/ under p (f_path e) = true) /\ (n0 <= f_ino e)%N)).

Lemma grown_step p n0 t0 w o w' : below_op p o -> apply_op w o = Some w' -> (n0 <= w_next_ino w)%N ->
  grown p n0 t0 (w_fs w) -> grown p n0 t0 (w_fs w') /\ (n0 <= w_next_ino w')%N.
Proof.
  intros Hb Ha Hn [G1 G2]. destruct o as [q|q|q|q|q|q|q q']; cbn [below_op] in Hb; try contradiction; destruct Hb as [Nq Uq];
    cbn [apply_op] in Ha;
    (destruct (fisdir (dirname q) (w_fs w) && negb (fexists q (w_fs w))); [|discriminate]); injection Ha as <-; cbn [w_fs w_next_ino];
    (split; [split|lia]).
  - intros e He. apply in_app_iff. left. now apply G1.
  - intros e He. apply in_app_iff in He as [He|[<-|[]]]; [now apply G2|]. right. cbn [f_path f_ino]. split; [now right | exact Hn].
  - intros e He. apply in_app_iff. left. now apply G1.
  - intros e He. apply in_app_iff in He as [He|[<-|[]]]; [now apply G2|]. right. cbn [f_path f_ino]. split; [now right | exact Hn].
Qed.

Lemma below_mono p w o w' : below_op p o -> apply_op w o = Some w' -> forall e, In e (w_fs w) -> In e (w_fs w').
Proof.
  intros Hb Ha e He. destruct o as [q|q|q|q|q|q|q q']; cbn [below_op] in Hb; try contradiction; cbn [apply_op] in Ha;
    (destruct (fisdir (dirname q) (w_fs w) && negb (fexists q (w_fs w))); [|discriminate]); injection Ha as <-; cbn [w_fs];
    apply in_app_iff; now left.
Qed.

Section Arrival.
  Variable C : cfg.
  Hypothesis Hfaults : c_faults C = [].
  Let root := c_root C.

  (* no kernel watch on an inode the old world did not have *)
  Lemma fresh_unwatched w k r i : wf_fs w -> WInv C (w_fs w) k r -> (w_next_ino w <= i)%N -> watch_of_ino k i = None.
  Proof.
    intros W I Hi. destruct (watch_of_ino k i) as [kw|] eqn:E; [|reflexivity]. exfalso.
    apply watch_of_ino_some in E as [Hk Ei]. destruct (wi_exact _ _ _ _ I kw Hk) as (e & He & _ & _ & Ie & _).
    assert (H := wf_fresh w W e He). lia.
  Qed.

  (* an operation below p in a grown world leaves the kernel alone: its parent directory is new, hence not watched *)
  Lemma below_kernel w0 k0 r0 p wi ki o wi' : wf_fs w0 -> WInv C (w_fs w0) k0 r0 -> wf_fs wi ->
    k_watches ki = k_watches k0 -> grown p (w_next_ino w0) (w_fs w0) (w_fs wi) ->
    (forall e, In e (w_fs w0) -> f_path e <> p /\ under p (f_path e) = false) ->
    below_op p o -> apply_op wi o = Some wi' -> kernel_op ki (w_fs wi) o = ki.
  Proof.
    intros W0 I Wi Hw [G1 G2] Hold Hb Ha.
    assert (Hun : forall q, npath q -> under p q = true -> fisdir (dirname q) (w_fs wi) = true ->
                    watch_of_ino ki (ino_of (w_fs wi) (dirname q)) = None).
    { intros q Nq Uq Fd. destruct (fisdir_in _ _ Fd) as (de & Hde & Ede & Dde).
      assert (Ei : ino_of (w_fs wi) (dirname q) = f_ino de).
      { unfold ino_of. rewrite <- Ede. now rewrite (flookup_in _ de (wf_paths wi Wi) Hde). }
      rewrite Ei. unfold watch_of_ino. rewrite Hw. fold (watch_of_ino k0 (f_ino de)).
      apply (fresh_unwatched w0 k0 r0 _ W0 I).
      destruct (G2 de Hde) as [Hold'|[_ Hi]]; [|exact Hi]. exfalso.
      destruct (Hold de Hold') as [H1 H2]. rewrite Ede in H1, H2.
      destruct (npath_parts q Nq) as (Eq & _ & Vn & _). rewrite Eq in Uq.
      apply np_under_split in Uq as [E|E]; [congruence | congruence | exact Vn]. }
    destruct o as [q|q|q|q|q|q|q q']; cbn [below_op] in Hb; try contradiction; destruct Hb as [Nq Uq];
      cbn [apply_op] in Ha; destruct (fisdir (dirname q) (w_fs wi)) eqn:Fd; try discriminate; cbn [kernel_op].
    - rewrite (knotify_unwatched ki _ _ _ _ _ (Hun q Nq Uq Fd)).
      rewrite (knotify_unwatched ki _ _ _ _ _ (Hun q Nq Uq Fd)).
      now rewrite (knotify_unwatched ki _ _ _ _ _ (Hun q Nq Uq Fd)).
    - now rewrite (knotify_unwatched ki _ _ _ _ _ (Hun q Nq Uq Fd)).
  Qed.
End Arrival.

(* ================================================================== 2. _recursive_simulate installs the watches of add_dirs *)
Section Simulate.
  Variable C : cfg.
  Hypothesis Hsim : c_fix_simulate C = true.

  Lemma cgo_app t a : forall b r k, cgo C t r k (a ++ b) = match cgo C t r k a with Some (r1, k1) => cgo C t r1 k1 b | None => None end.
  Proof.
    induction a as [|x a IH]; intros b r k; [reflexivity|]. cbn [app cgo].
    destruct (add_watch C r k t x) as [[[r1 k1] wd]|]; [apply IH | reflexivity].
  Qed.

  Lemma sim_dirs_cgo t rt ds : forall r k acc r' k', cgo C t r k (map (join rt) ds) = Some (r', k') ->
    exists acc', sim_dirs C r k t rt ds acc = (r', k', acc').
  Proof.
    induction ds as [|d ds IH]; intros r k acc r' k' H; cbn [map cgo sim_dirs] in *.
    - injection H as <- <-. eexists; reflexivity.
    - destruct (add_watch C r k t (join rt d)) as [[[r1 k1] wd]|]; [|discriminate]. now apply IH.
  Qed.

  Lemma sim_files_total r rt fls : forall acc, exists acc', sim_files C r rt fls acc = Done acc'.
  Proof.
    induction fls as [|f fls IH]; intros acc; cbn [sim_files]; [eexists; reflexivity|].
    destruct (alookup beqb (dirname (join rt f)) (wfp r)); [apply IH | rewrite Hsim; apply IH].
  Qed.

  Lemma simulate_cgo t wk : forall r k acc r' k',
    cgo C t r k (flat_map (fun w : bytes * list bytes * list bytes => let '(rt, ds, _) := w in map (join rt) ds) wk) = Some (r', k') ->
    exists acc', simulate C r k t wk acc = Done (r', k', acc').
  Proof.
    induction wk as [|[[rt ds] fls] wk IH]; intros r k acc r' k' H; cbn [flat_map simulate] in *.
    - injection H as <- <-. eexists; reflexivity.
    - rewrite cgo_app in H. destruct (cgo C t r k (map (join rt) ds)) as [[r1 k1]|] eqn:E; [|discriminate].
      destruct (sim_dirs_cgo t rt ds r k acc r1 k1 E) as (acc1 & ->).
      destruct (sim_files_total r1 rt fls acc1) as (acc2 & ->). now apply IH.
  Qed.
End Simulate.

(* ================================================================== 3. C02: the state after the burst is synchronised *)
Section ArrivalCover.
  Variable C : cfg.
  Hypothesis Hfaults : c_faults C = [].
  Hypothesis Hsim : c_fix_simulate C = true.
  Let root := c_root C.

  Lemma below_burst w0 k0 r0 p rest : wf_fs w0 -> WInv C (w_fs w0) k0 r0 ->
    (forall e, In e (w_fs w0) -> f_path e <> p /\ under p (f_path e) = false) ->
    Forall (below_op p) rest ->
    forall wi ki, wf_fs wi -> k_watches ki = k_watches k0 -> grown p (w_next_ino w0) (w_fs w0) (w_fs wi) ->
      (w_next_ino w0 <= w_next_ino wi)%N ->
      fst (burst_end ki wi rest) = ki /\ wf_fs (snd (burst_end ki wi rest)) /\
      grown p (w_next_ino w0) (w_fs w0) (w_fs (snd (burst_end ki wi rest))) /\
      (forall e, In e (w_fs wi) -> In e (w_fs (snd (burst_end ki wi rest)))).
  Proof.
    intros W0 I Hold. induction 1 as [|o rest Ho Hrest IH]; intros wi ki Wi Hw G Hn; cbn [burst_end]; [auto|].
    destruct (apply_op wi o) as [wi'|] eqn:Ea; [|now apply IH].
    rewrite (below_kernel C w0 k0 r0 p wi ki o wi' W0 I Wi Hw G Hold Ho Ea).
    destruct (grown_step p _ _ wi o wi' Ho Ea Hn G) as [G' Hn'].
    assert (Wi' : wf_fs wi').
    { apply (wf_apply_op wi o wi' Wi); [|exact Ea]. destruct o; cbn [below_op] in Ho; try contradiction; cbn [op_np]; apply Ho. }
    destruct (IH wi' ki Wi' Hw G' Hn') as (A1 & A2 & A3 & A4). split; [exact A1|]. split; [exact A2|]. split; [exact A3|].
    intros e He. apply A4. now apply (below_mono p wi o wi').
  Qed.

  (* mkdir p; <mkdir / touch below p>, nothing read in between; then everything read *)
  Lemma arrival_main w k r p rest : RSync C w k r -> npath p -> c_recursive C = true -> scope C p ->
    N.land IN_CREATE (c_mask C) <> 0%N ->
    Forall (below_op p) rest ->
    forall w1, apply_op w (Mkdir p) = Some w1 ->
    let KB := fst (burst_end k w (Mkdir p :: rest)) in let wn := snd (burst_end k w (Mkdir p :: rest)) in
    exists r' k' raws, read_batch C (w_fs wn) (r, drainq KB, []) (k_queue KB) = Done (r', k', raws) /\
      RSync C wn k' r' /\ length (k_queue KB) = 1%nat /\
      (* the worlds *)
      grown p (w_next_ino w) (w_fs w) (w_fs wn) /\
      (forall e, In e (w_fs w) -> f_path e <> p /\ under p (f_path e) = false) /\ p <> root /\
      (* the read: the record of p, then the walk from a state in which p is watched *)
      exists ev0 r3 k3 x kwx, r_path ev0 = p /\ r_mask ev0 = N.lor IN_CREATE IN_ISDIR /\
        In x (w_fs wn) /\ f_path x = p /\ f_dir x = true /\
        WInv C (w_fs wn) k3 r3 /\ cov k3 r3 x kwx /\
        simulate C r3 k3 (w_fs wn) (walk p (content (w_fs wn) p)) [ev0] = Done (r', k', raws).
  Proof.
    intros S Np Hrec Sp Hm Hrest w1 Ha KB wn. destruct S as [W Hr I Cv Hq Hpd].
    assert (W1 : wf_fs w1) by exact (wf_apply_op w (Mkdir p) w1 W Np Ha).
    assert (Ha' := Ha). cbn [apply_op] in Ha'.
    destruct (fisdir (dirname p) (w_fs w)) eqn:Ed; [|discriminate].
    destruct (fexists p (w_fs w)) eqn:Ex; [discriminate|]. cbn in Ha'. injection Ha' as E1.
    set (x := {| f_path := p; f_ino := w_next_ino w; f_dir := true |}) in *.
    apply fexists_false in Ex. destruct (fisdir_in _ _ Ed) as (de & Hde & Ede & Dde).
    assert (Eino : ino_of (w_fs w) (dirname p) = f_ino de).
    { unfold ino_of. rewrite <- Ede. now rewrite (flookup_in _ de (wf_paths w W) Hde). }
    assert (Hpr : p <> root).
    { intros E. destruct Hr as (e & He & Ee & _). apply Ex. rewrite E. unfold root. rewrite <- Ee. now apply in_map. }
    destruct (scope_parent C p Np Sp Hpr) as [Sd _]. rewrite <- Ede in Sd.
    destruct (Cv de Hde Dde Sd) as (kw & Cw & Cp & Cf).
    destruct (watched_entry C w k r de kw W I Hde Cw) as (_ & _ & _ & Hkw & Mkw).
    (* nothing of the old world lies at or below p *)
    assert (Hold : forall e, In e (w_fs w) -> f_path e <> p /\ under p (f_path e) = false).
    { intros e He. split; [intros E; apply Ex; rewrite <- E; now apply in_map|].
      apply (nothing_below w p de W Hde); [rewrite Ede; now apply under_dirname | | exact He].
      left. intros (y & Hy & Ey & _). apply Ex. rewrite <- Ey. now apply in_map. }
    (* the kernel after the burst *)
    set (K1 := kernel_op k (w_fs w) (Mkdir p)).
    assert (EK1 : K1 = kset_queue k [kev kw IN_CREATE true 0 (basename p)]).
    { unfold K1. cbn [kernel_op]. rewrite Eino. rewrite (knotify_watched _ _ _ _ _ _ kw Cw) by (rewrite Mkw; exact Hm).
      now rewrite Hq, kpush_nil. }
    assert (G1 : grown p (w_next_ino w) (w_fs w) (w_fs w1)).
    { rewrite <- E1. cbn [w_fs]. split; [intros e He; apply in_app_iff; now left|].
      intros e He. apply in_app_iff in He as [He|[<-|[]]]; [now left|]. right. cbn [f_path f_ino x]. split; [now left | lia]. }
    assert (Hn1 : (w_next_ino w <= w_next_ino w1)%N) by (rewrite <- E1; cbn; lia).
    destruct (below_burst w k r p rest W I Hold Hrest w1 K1 W1) as (EKB & Wn & [Gn1 Gn2] & Gm); try assumption.
    { rewrite EK1. reflexivity. }
    assert (EKB' : KB = K1) by (unfold KB; cbn [burst_end]; rewrite Ha; exact EKB).
    assert (Ewn : wn = snd (burst_end K1 w1 rest)) by (unfold wn; cbn [burst_end]; rewrite Ha; reflexivity).
    rewrite <- Ewn in Wn, Gn1, Gn2, Gm.
    rewrite EKB', EK1. cbn [k_queue kset_queue read_batch].
    assert (I0 : WInv C (w_fs wn) (drainq (kset_queue k [kev kw IN_CREATE true 0 (basename p)])) r).
    { apply (WInv_ext C (w_fs w) _ k); try assumption; try reflexivity; try (cbn; lia). intros e He _. now apply Gn1. }
    destruct (npath_parts p Np) as (Ep & Gd & Vn & Jp).
    rewrite read_one_body_eq by exact Hpd.
    rewrite (read_one_create C _ _ _ _ (kev kw IN_CREATE true 0 (basename p)) (dirname p) eq_refl eq_refl eq_refl eq_refl eq_refl)
      by (cbn [kev k_wd]; now rewrite Cp, Ede).
    assert (Epath : r_path (raw_ev (dirname p) (kev kw IN_CREATE true 0 (basename p))) = p).
    { unfold raw_ev, kev, src_path_of. cbn [r_path k_name]. destruct (basename p) eqn:Eb; [discriminate Vn|]. exact Jp. }
    cbv zeta. rewrite Epath, Hrec.
    assert (Hx : In x (w_fs wn)) by (apply Gm; rewrite <- E1; cbn [w_fs]; apply in_app_iff; right; now left).
    destruct (add_watch_ok C Hfaults wn _ r x Wn I0 Hx eq_refl Sp)
      as (r3 & k3 & wd & Hadd & I3 & Q3 & N3 & M3 & (kwx & Cx & Ewx) & P3 & L3).
    change (f_path x) with p in Hadd. rewrite Hadd.
    assert (Fp : fisdir p (w_fs wn) = true) by (apply (in_fisdir p _ (wf_paths _ Wn)); exists x; auto).
    assert (Hps : Forall (dir_in_scope C (w_fs wn)) (walk_dirs (w_fs wn) p)).
    { apply Forall_forall. intros y Hy. apply (walk_dirs_spec _ p Wn Fp) in Hy as (e & He & Ee & De & Ue).
      exists e. repeat split; try assumption. now apply (scope_under C p). }
    destruct (cgo_ok C Hfaults wn Wn _ k3 r3 I3 Hps) as (r4 & k4 & Hg & _ & I4 & (Q4 & N4 & M4 & X4) & Cvps & _).
    destruct (simulate_cgo C Hsim (w_fs wn) (walk p (content (w_fs wn) p)) r3 k3
                ([] ++ [raw_ev (dirname p) (kev kw IN_CREATE true 0 (basename p))]) r4 k4 Hg) as (raws & Hsimu).
    rewrite Hsimu. exists r4, k4, raws. split; [reflexivity|]. split; [|split; [reflexivity|]].
    2:{ split; [split; assumption|]. split; [exact Hold|]. split; [exact Hpr|].
        exists (raw_ev (dirname p) (kev kw IN_CREATE true 0 (basename p))), r3, k3, x, kwx.
        split; [exact Epath|]. split; [reflexivity|]. split; [exact Hx|]. split; [reflexivity|]. split; [reflexivity|].
        split; [exact I3|]. split; [exact Cx | exact Hsimu]. }
    constructor; try assumption.
    - destruct Hr as (er & Her & Eer & Der). exists er. split; [now apply Gn1 | auto].
    - intros e He De Se. destruct (Gn2 e He) as [Hold'|[[Ee|Ue] _]].
      + destruct (Cv e Hold' De Se) as (kw0 & C0). exists kw0. apply X4; [exact He|]. apply P3; [exact He|].
        destruct C0 as (A1 & A2 & A3). split; [|split]; assumption.
      + assert (e = x) by (apply (path_inj (w_fs wn)); [apply Wn| | |]; assumption). subst e.
        exists kwx. now apply X4.
      + apply Cvps; [exact He|]. apply (walk_dirs_spec _ p Wn Fp). exists e. auto.
    - rewrite Q4, Q3. reflexivity.
    - assert (H3 := add_watch_pend C _ _ _ _ _ _ _ Hadd). assert (H4 := cgo_pend C (w_fs wn) _ _ _ _ _ Hg). congruence.
  Qed.

  Theorem arrival_cover w k r p rest : RSync C w k r -> npath p -> c_recursive C = true -> scope C p ->
    N.land IN_CREATE (c_mask C) <> 0%N ->
    Forall (below_op p) rest ->
    forall w1, apply_op w (Mkdir p) = Some w1 ->
    let KB := fst (burst_end k w (Mkdir p :: rest)) in let wn := snd (burst_end k w (Mkdir p :: rest)) in
    exists r' k' raws, read_batch C (w_fs wn) (r, drainq KB, []) (k_queue KB) = Done (r', k', raws) /\
      RSync C wn k' r' /\ length (k_queue KB) = 1%nat.
  Proof.
    intros S Np Hrec Sp Hm Hrest w1 Ha KB wn.
    destruct (arrival_main w k r p rest S Np Hrec Sp Hm Hrest w1 Ha) as (r' & k' & raws & H1 & H2 & H3 & _).
    exists r', k', raws. auto.
  Qed.
End ArrivalCover.

Lemma child_last_sep_join a n : a <> [] -> last_is_sep a = false -> valid_name n = true -> last_is_sep (join a n) = false.
Proof. intros Ha Hs Hn. rewrite (join_name a n Ha Hs Hn). now apply child_last_sep. Qed.

(* ================================================================== 4. what the walk fabricates *)
Definition triple := (bytes * list bytes * list bytes)%type.
Definition craw_of (rw : raw) : bytes * bool := (r_path rw, Emitter.is_directory (r_mask rw)).
Definition cmask (rw : raw) : Prop := r_mask rw = IN_CREATE \/ r_mask rw = N.lor IN_CREATE IN_ISDIR.
Definition kp2 (x : kind * bytes) : bytes * bool := (snd x, kdir (fst x)).

(* os.walk is top-down: the directory of every triple has been listed (as a sub-directory) before; names are valid *)
Fixpoint gw (seen : list bytes) (l : list triple) : Prop :=
  match l with
  | [] => True
  | (rt, ds, fls) :: l' => In rt seen /\ rt <> [] /\ last_is_sep rt = false /\ forallb valid_name fls = true /\
                           gw (seen ++ map (join rt) ds) l'
  end.

Lemma gw_mono l : forall s1 s2, incl s1 s2 -> gw s1 l -> gw s2 l.
Proof.
  induction l as [|[[rt ds] fls] l IH]; intros s1 s2 Hi H; cbn [gw] in *; [exact I|].
  destruct H as (A & B & D & E & F). repeat split; try assumption; [now apply Hi|].
  apply (IH (s1 ++ map (join rt) ds)); [|exact F]. intros y Hy. apply in_app_iff in Hy as [Hy|Hy]; apply in_app_iff; auto.
Qed.

Lemma gw_app a : forall s b, gw s a -> gw (s ++ dirs_of a) b -> gw s (a ++ b).
Proof.
  induction a as [|[[rt ds] fls] a IH]; intros s b Ha Hb.
  - cbn [dirs_of flat_map] in Hb. now rewrite app_nil_r in Hb.
  - cbn [gw app] in *. destruct Ha as (A & B & D & E & F). repeat split; try assumption.
    apply IH; [exact F|]. unfold dirs_of in Hb. cbn [flat_map] in Hb. fold (dirs_of a) in Hb. now rewrite <- app_assoc.
Qed.

Lemma walk_gw T : forall root seen, root <> [] -> last_is_sep root = false -> wf_tree T = true -> In root seen ->
  gw seen (walk root T).
Proof.
  induction T as [ds fs IH] using tree_ind'. intros root seen H0 Hs Hwf Hin.
  rewrite walk_unfold. apply wf_tree_node in Hwf as [Hfs Hds]. cbn [gw]. repeat split; try assumption.
  assert (G : forall L s, incl L ds -> (forall ns, In ns L -> In (join root (fst ns)) s) ->
                          gw s (flat_map (fun ns => walk (join root (fst ns)) (snd ns)) L)).
  { induction L as [|ns L IHL]; intros s HL Hs'; cbn [flat_map]; [exact I|].
    assert (Hns : In ns ds) by (apply HL; now left).
    rewrite Forall_forall in IH, Hds. destruct (Hds ns Hns) as [Hv Hw].
    apply gw_app.
    - apply (IH ns Hns); [|now apply child_last_sep_join | exact Hw | apply Hs'; now left].
      rewrite (join_name root (fst ns) H0 Hs Hv). now destruct root.
    - apply IHL; [intros y Hy; apply HL; now right|]. intros y Hy. apply in_app_iff. left. apply Hs'. now right. }
  apply G; [apply incl_refl|]. intros ns Hns. apply in_app_iff. right. rewrite map_map. apply in_map_iff. exists ns. auto.
Qed.

Section SimExact.
  Variable C : cfg.
  Hypothesis Hfaults : c_faults C = [].
  Hypothesis Hsim : c_fix_simulate C = true.

  Lemma sim_dirs_out t rt ds : forall r k acc r' k', cgo C t r k (map (join rt) ds) = Some (r', k') ->
    exists sd, sim_dirs C r k t rt ds acc = (r', k', acc ++ sd) /\ map craw_of sd = map (fun d => (join rt d, true)) ds /\
               Forall cmask sd.
  Proof.
    induction ds as [|d ds IH]; intros r k acc r' k' H; cbn [map cgo sim_dirs] in *.
    - injection H as <- <-. exists []. rewrite app_nil_r. repeat split. constructor.
    - destruct (add_watch C r k t (join rt d)) as [[[r1 k1] wd]|]; [|discriminate].
      destruct (IH r1 k1 (acc ++ [{| r_wd := wd; r_mask := N.lor IN_CREATE IN_ISDIR; r_cookie := 0; r_name := d; r_path := join rt d |}])
                  r' k' H) as (sd & E & M & F).
      exists ({| r_wd := wd; r_mask := N.lor IN_CREATE IN_ISDIR; r_cookie := 0; r_name := d; r_path := join rt d |} :: sd).
      rewrite E, <- app_assoc. split; [reflexivity|]. split; [cbn [map]; rewrite M; reflexivity|].
      constructor; [right; reflexivity | exact F].
  Qed.

  Lemma sim_files_out r rt fls : (forall f, In f fls -> alookup beqb (dirname (join rt f)) (wfp r) <> None) ->
    forall acc, exists sf, sim_files C r rt fls acc = Done (acc ++ sf) /\ map craw_of sf = map (fun f => (join rt f, false)) fls /\
                           Forall cmask sf.
  Proof.
    induction fls as [|f fls IH]; intros Hl acc; cbn [sim_files map].
    - exists []. rewrite app_nil_r. repeat split. constructor.
    - destruct (alookup beqb (dirname (join rt f)) (wfp r)) as [wd|] eqn:E; [|exfalso; apply (Hl f); [now left | exact E]].
      destruct (IH (fun g Hg => Hl g (or_intror Hg))
                   (acc ++ [{| r_wd := wd; r_mask := IN_CREATE; r_cookie := 0; r_name := f; r_path := join rt f |}])) as (sf & Es & M & F).
      exists ({| r_wd := wd; r_mask := IN_CREATE; r_cookie := 0; r_name := f; r_path := join rt f |} :: sf).
      rewrite Es, <- app_assoc. split; [reflexivity|]. split; [cbn [map]; rewrite M; reflexivity|].
      constructor; [left; reflexivity | exact F].
  Qed.

  (* the walk from a state in which the listed directories are watched: one create record per entry found, in os.walk order *)
  Lemma simulate_exact w : wf_fs w -> forall wk seen r k acc,
    WInv C (w_fs w) k r ->
    (forall y, In y seen -> exists e kw, In e (w_fs w) /\ f_path e = y /\ cov k r e kw) ->
    gw seen wk -> Forall (dir_in_scope C (w_fs w)) (dirs_of wk) ->
    exists r' k' sims, simulate C r k (w_fs w) wk acc = Done (r', k', acc ++ sims) /\
      map craw_of sims = map kp2 (flat_map created_step wk) /\ Forall cmask sims.
  Proof.
    intros W. induction wk as [|[[rt ds] fls] wk IH]; intros seen r k acc I Hseen Hg Hps.
    - exists r, k, []. cbn [simulate flat_map map]. rewrite app_nil_r. repeat split. constructor.
    - cbn [gw] in Hg. destruct Hg as (Hrt & R0 & Rs & Hv & Hg).
      unfold dirs_of in Hps. cbn [flat_map] in Hps. fold (dirs_of wk) in Hps. apply Forall_app in Hps as [Hps1 Hps2].
      destruct (cgo_ok C Hfaults w W (map (join rt) ds) k r I Hps1) as (r1 & k1 & Hgo & _ & I1 & (_ & _ & _ & X1) & Cv1 & _).
      destruct (sim_dirs_out (w_fs w) rt ds r k acc r1 k1 Hgo) as (sd & Esd & Msd & Fsd).
      assert (Hseen1 : forall y, In y (seen ++ map (join rt) ds) -> exists e kw, In e (w_fs w) /\ f_path e = y /\ cov k1 r1 e kw).
      { intros y Hy. apply in_app_iff in Hy as [Hy|Hy].
        - destruct (Hseen y Hy) as (e & kw & He & Ee & Ce). exists e, kw. split; [exact He|]. split; [exact Ee|]. now apply X1.
        - rewrite Forall_forall in Hps1. destruct (Hps1 y Hy) as (e & He & Ee & _).
          destruct (Cv1 e He) as (kw & Ce); [now rewrite Ee|]. exists e, kw. auto. }
      destruct (sim_files_out r1 rt fls) with (acc := acc ++ sd) as (sf & Esf & Msf & Fsf).
      { intros f Hf. rewrite forallb_forall in Hv. rewrite (join_name rt f R0 Rs (Hv f Hf)).
        rewrite (ContractProofs.dirname_child rt f R0 Rs (Hv f Hf)).
        destruct (Hseen1 rt) as (e & kw & He & Ee & (_ & _ & Ce)); [apply in_app_iff; now left|]. rewrite Ee in Ce. now rewrite Ce. }
      destruct (IH (seen ++ map (join rt) ds) r1 k1 ((acc ++ sd) ++ sf) I1 Hseen1 Hg Hps2) as (r' & k' & sims & Es & Ms & Fs).
      exists r', k', (sd ++ sf ++ sims). cbn [simulate]. rewrite Esd, Esf, Es. split; [now rewrite <- !app_assoc|]. split.
      + cbn [flat_map]. rewrite !map_app, Msd, Msf, Ms. cbn [created_step]. rewrite map_app, !map_map. rewrite <- app_assoc. reflexivity.
      + apply Forall_app. split; [exact Fsd|]. apply Forall_app. now split.
  Qed.
End SimExact.

(* ================================================================== 5. the delivered stream *)
Lemma nkind_cmask C rw : cmask rw -> nkind_of C rw = KOther.
Proof. intros [H|H]; unfold nkind_of; rewrite H; reflexivity. Qed.

Lemma group_go_creates C b : forall g, Forall cmask b -> group_go C b g = g ++ map Single b.
Proof.
  induction b as [|rw b IH]; intros g H; cbn [group_go map]; [now rewrite app_nil_r|]. inversion H; subst.
  rewrite nkind_cmask by assumption. rewrite IH by assumption. now rewrite <- app_assoc.
Qed.

(* what one create record turns into: the created event and the parent's DirModified *)
Definition create_events (xv : bytes * bool) : list nevent := [mk (created_cls (snd xv)) (fst xv) []; parent_modified (fst xv)].

Lemma delivered_creates C full w b : Forall cmask b -> ReplayProofs.delivered C full w b = flat_map create_events (map craw_of b).
Proof.
  intros H. unfold ReplayProofs.delivered, group_batch. rewrite group_go_creates by exact H. cbn [app].
  induction b as [|rw b IH]; [reflexivity|]. inversion H as [|? ? Hc Hb]; subst.
  cbn [map filter put_item]. rewrite (nkind_cmask C rw Hc). cbn [emit_all emit].
  assert (E : emit_single full (c_recursive C) (c_root C) (content (w_fs w)) rw = (create_events (craw_of rw), false)).
  { unfold emit_single, create_events, craw_of. cbv zeta. destruct Hc as [E|E]; rewrite E; reflexivity. }
  rewrite E. cbn [flat_map app]. now rewrite IH.
Qed.

(* every entry the burst added has its record *)
Definition add_op (o : op) : Prop := match o with Mkdir _ | Touch _ => True | _ => False end.

Lemma burst_new ops : Forall add_op ops -> forall k w e, In e (w_fs (snd (burst_end k w ops))) ->
  In e (w_fs w) \/ exists rc, In rc (burst_recs w ops) /\ o_op rc = (if f_dir e then Mkdir (f_path e) else Touch (f_path e)).
Proof.
  induction 1 as [|o ops Ho Hops IH]; intros k w e He; cbn [burst_end burst_recs] in *; [now left|].
  destruct (apply_op w o) as [w'|] eqn:Ea; [|exact (IH _ _ _ He)].
  destruct (IH _ w' e He) as [Hin|(rc & Hrc & Erc)]; [|right; exists rc; split; [now right | exact Erc]].
  destruct o as [q|q|q|q|q|q|q q']; try contradiction; cbn [apply_op] in Ea;
    (destruct (fisdir (dirname q) (w_fs w) && negb (fexists q (w_fs w))); [|discriminate]); injection Ea as <-; cbn [w_fs] in Hin;
    (apply in_app_iff in Hin as [Hin|[<-|[]]]; [now left|]); right; (eexists; split; [left; reflexivity|]); reflexivity.
Qed.

Lemma below_add p o : below_op p o -> add_op o.
Proof. destruct o; cbn; auto. Qed.

Section ArrivalStream.
  Variable C : cfg.
  Hypothesis Hfaults : c_faults C = [].
  Hypothesis Hsim : c_fix_simulate C = true.

  (* the records of the read: p, then one create record for every entry below p *)
  Lemma arrival_raws w k r p rest : RSync C w k r -> npath p -> c_recursive C = true -> scope C p ->
    N.land IN_CREATE (c_mask C) <> 0%N ->
    Forall (below_op p) rest ->
    forall w1, apply_op w (Mkdir p) = Some w1 ->
    let KB := fst (burst_end k w (Mkdir p :: rest)) in let wn := snd (burst_end k w (Mkdir p :: rest)) in
    exists r' k' raws, read_batch C (w_fs wn) (r, drainq KB, []) (k_queue KB) = Done (r', k', raws) /\
      RSync C wn k' r' /\
      grown p (w_next_ino w) (w_fs w) (w_fs wn) /\
      (forall e, In e (w_fs w) -> f_path e <> p /\ under p (f_path e) = false) /\ p <> c_root C /\
      Forall cmask raws /\
      (forall x v, In (x, v) (map craw_of raws) <->
                   exists e, In e (w_fs wn) /\ f_path e = x /\ f_dir e = v /\ (x = p \/ under p x = true)).
  Proof.
    intros S Np Hrec Sp Hm Hrest w1 Ha KB wn.
    destruct (arrival_main C Hfaults Hsim w k r p rest S Np Hrec Sp Hm Hrest w1 Ha)
      as (r' & k' & raws & Hrd & S' & _ & G & Hold & Hpr & ev0 & r3 & k3 & x & kwx & Ep0 & Em0 & Hx & Ex & Dx & I3 & Cx & Hsimu).
    fold wn in Hrd, S', G, Hx, I3, Hsimu.
    assert (Wn := rs_wf _ _ _ _ S').
    assert (Fp : fisdir p (w_fs wn) = true) by (apply (in_fisdir p _ (wf_paths _ Wn)); exists x; auto).
    assert (Hps : Forall (dir_in_scope C (w_fs wn)) (dirs_of (walk p (content (w_fs wn) p)))).
    { apply Forall_forall. intros y Hy. apply (walk_dirs_spec _ p Wn Fp) in Hy as (e & He & Ee & De & Ue).
      exists e. repeat split; try assumption. now apply (scope_under C p). }
    assert (P0 : p <> [] /\ last_is_sep p = false).
    { destruct Np as (d & n & -> & _ & Hv). split; [now destruct d | now apply child_last_sep]. }
    assert (Hwf : wf_tree (content (w_fs wn) p) = true).
    { apply content_wf. intros e He. apply npath_wf_path. exact (wf_np wn Wn e He). }
    destruct (simulate_exact C Hfaults wn Wn (walk p (content (w_fs wn) p)) [p] r3 k3 [ev0] I3) as (r4 & k4 & sims & Es & Ms & Fs).
    { intros y [<-|[]]. exists x, kwx. auto. }
    { apply walk_gw; [exact (proj1 P0) | exact (proj2 P0) | exact Hwf | now left]. }
    { exact Hps. }
    rewrite Hsimu in Es. injection Es as <- <- ->.
    exists r', k', ([ev0] ++ sims). split; [exact Hrd|]. split; [exact S'|]. split; [exact G|]. split; [exact Hold|].
    split; [exact Hpr|]. split; [constructor; [right; exact Em0 | exact Fs]|].
    assert (E0 : craw_of ev0 = (p, true)) by (unfold craw_of; rewrite Ep0, Em0; reflexivity).
    intros y v. cbn [app map]. rewrite E0, Ms. fold (sub_created_events p (content (w_fs wn) p)).
    rewrite (sub_created_correct p (proj1 P0) (proj2 P0) _ Hwf), map_map.
    assert (EL : map (fun d : kind * list bytes => kp2 (expect_created p d)) (desc [] (content (w_fs wn) p)) =
                 map (fun d : kind * list bytes => (p ++ relsuffix (snd d), kdir (fst d))) (desc [] (content (w_fs wn) p)))
      by (apply map_ext; intros [kd rel]; reflexivity).
    rewrite EL. cbn [In]. rewrite (content_listing wn p Wn Fp y v). split.
    - intros [E|(e & He & Ee & De & Ue)]; [injection E as <- <-; exists x; auto | exists e; auto].
    - intros (e & He & Ee & De & [Ey|Ue]); [left | right; exists e; auto].
      assert (e = x) by (apply (path_inj (w_fs wn)); [apply Wn | exact He | exact Hx | congruence]). subst e. congruence.
  Qed.
End ArrivalStream.

(* ================================================================== 6. C03: every delivered event is justified *)
Lemma justified_created (root : bytes) (recs : list oprec) (x : bytes) (v : bool) (rc : oprec) :
  is_nil x || beqb x root || in_scope true root x = true -> In rc recs -> o_op rc = (if v then Mkdir x else Touch x) ->
  justified true root recs (mk (created_cls v) x []) = true.
Proof.
  intros Hs Hrc Erc. unfold justified. destruct v; cbn [mk created_cls ev_cls ev_src ev_dest ev_synth what_of]; cbv zeta; rewrite Hs;
    cbn [is_nil orb andb]; apply existsb_exists; exists rc; (split; [exact Hrc|]); rewrite Erc, beqb_refl; reflexivity.
Qed.

Lemma justified_parent (root : bytes) (recs : list oprec) (x : bytes) (v : bool) (rc : oprec) :
  is_nil (dirname x) || beqb (dirname x) root || in_scope true root (dirname x) = true -> In rc recs ->
  o_op rc = (if v then Mkdir x else Touch x) ->
  justified true root recs (parent_modified x) = true.
Proof.
  intros Hs Hrc Erc. unfold justified, parent_modified. cbn [mk ev_cls ev_src ev_dest ev_synth what_of]. cbv zeta. rewrite Hs.
  cbn [is_nil orb andb]. apply existsb_exists. exists rc. split; [exact Hrc|]. rewrite Erc. destruct v; cbn [op_p]; apply beqb_refl.
Qed.

Section ArrivalTheorems.
  Variable C : cfg.
  Variable full : bool.
  Hypothesis Hfaults : c_faults C = [].
  Hypothesis Hsim : c_fix_simulate C = true.

  Lemma scope_ok_of x : c_recursive C = true -> scope C x ->
    is_nil x || beqb x (c_root C) || in_scope true (c_root C) x = true.
  Proof.
    intros Hrec Sx. unfold scope in Sx. rewrite Hrec in Sx. destruct Sx as [->|U].
    - now rewrite beqb_refl, orb_true_r.
    - unfold in_scope. rewrite U. cbn [orb andb]. now rewrite orb_true_r.
  Qed.

  (* SOUNDNESS of the arrival burst: every delivered event is justified by an operation of the burst.  (Contract EQUALITY does
     not hold for this burst: the stream follows the walk order, not the order of the operations - all sub-directories of a
     directory before its files, a directory's content after its siblings - and a touch below p contributes only FileCreated
     and the parent's DirModified: the FileOpened / FileClosed of its contract happened in a directory not yet watched.) *)
  Theorem arrival_sound w k r p rest : RSync C w k r -> npath p -> c_recursive C = true -> scope C p ->
    N.land IN_CREATE (c_mask C) <> 0%N -> Forall (below_op p) rest ->
    forall w1, apply_op w (Mkdir p) = Some w1 ->
    let KB := fst (burst_end k w (Mkdir p :: rest)) in let wn := snd (burst_end k w (Mkdir p :: rest)) in
    exists r' k' raws, read_batch C (w_fs wn) (r, drainq KB, []) (k_queue KB) = Done (r', k', raws) /\ RSync C wn k' r' /\
      forallb (justified (c_recursive C) (c_root C) (burst_recs w (Mkdir p :: rest))) (ReplayProofs.delivered C full wn raws) = true.
  Proof.
    intros S Np Hrec Sp Hm Hrest w1 Ha KB wn.
    destruct (arrival_raws C Hfaults Hsim w k r p rest S Np Hrec Sp Hm Hrest w1 Ha)
      as (r' & k' & raws & Hrd & S' & G & Hold & Hpr & Fc & HL).
    fold wn in Hrd, S', G, HL. exists r', k', raws. split; [exact Hrd|]. split; [exact S'|].
    rewrite (delivered_creates C full wn raws Fc). apply forallb_forall. intros ev Hev.
    apply in_flat_map in Hev as ([x v] & Hxv & Hev). apply HL in Hxv as (e & He & Ee & De & Hb).
    assert (Wn := rs_wf _ _ _ _ S').
    assert (Hnew : ~ In e (w_fs w)).
    { intros Hin. destruct (Hold e Hin) as [A B]. rewrite Ee in A, B. destruct Hb as [Hb|Hb]; [now apply A | congruence]. }
    assert (Hadd : Forall add_op (Mkdir p :: rest)).
    { constructor; [exact I|]. eapply Forall_impl; [|exact Hrest]. apply below_add. }
    destruct (burst_new (Mkdir p :: rest) Hadd k w e He) as [Hin|(rc & Hrc & Erc)]; [contradiction|].
    rewrite Ee, De in Erc.
    assert (Sx : scope C x) by (destruct Hb as [->|Ux]; [exact Sp | now apply (scope_under C p)]).
    assert (Nx : npath x) by (rewrite <- Ee; exact (wf_np wn Wn e He)).
    assert (Hxr : x <> c_root C).
    { intros E. destruct (rs_root _ _ _ _ S) as (er & Her & Eer & _). destruct (Hold er Her) as [A B]. rewrite Eer in A, B.
      destruct Hb as [Hb|Hb]; [apply A; congruence | congruence]. }
    destruct (scope_parent C x Nx Sx Hxr) as [Sd _].
    rewrite Hrec. cbn [create_events fst snd] in Hev. destruct Hev as [<-|[<-|[]]].
    - exact (justified_created _ _ x v rc (scope_ok_of x Hrec Sx) Hrc Erc).
    - exact (justified_parent _ _ x v rc (scope_ok_of _ Hrec Sd) Hrc Erc).
  Qed.

  (* C01: replaying the delivered stream on a tree that agrees with the world before the burst gives the tree after it *)
  Lemma freplays_creates rec root L : forall g,
    freplays rec root g (flat_map create_events L) = fputs rec root L g.
  Proof.
    induction L as [|[x v] L IH]; intros g; [reflexivity|].
    cbn [flat_map create_events app fst snd]. unfold freplays, fputs. cbn [fold_left fst snd].
    change (mk (created_cls v) x []) with (mkC false (x, v)). rewrite fr_mkC, fr_pm. cbn [fst snd]. apply IH.
  Qed.

  Theorem arrival_replay w k r p rest t : RSync C w k r -> npath p -> c_recursive C = true -> scope C p ->
    N.land IN_CREATE (c_mask C) <> 0%N -> Forall (below_op p) rest ->
    forall w1, apply_op w (Mkdir p) = Some w1 ->
    TInv (c_recursive C) (c_root C) t w ->
    let KB := fst (burst_end k w (Mkdir p :: rest)) in let wn := snd (burst_end k w (Mkdir p :: rest)) in
    exists r' k' raws, read_batch C (w_fs wn) (r, drainq KB, []) (k_queue KB) = Done (r', k', raws) /\ RSync C wn k' r' /\
      TInv (c_recursive C) (c_root C) (replay (c_recursive C) (c_root C) t (ReplayProofs.delivered C full wn raws)) wn.
  Proof.
    intros S Np Hrec Sp Hm Hrest w1 Ha [Tn Tg] KB wn.
    destruct (arrival_raws C Hfaults Hsim w k r p rest S Np Hrec Sp Hm Hrest w1 Ha)
      as (r' & k' & raws & Hrd & S' & [G1 G2] & Hold & Hpr & Fc & HL).
    fold wn in Hrd, S', G1, G2, HL. exists r', k', raws. split; [exact Hrd|]. split; [exact S'|].
    assert (W := rs_wf _ _ _ _ S). assert (Wn := rs_wf _ _ _ _ S').
    split; [now apply replay_nodup|].
    rewrite (delivered_creates C full wn raws Fc).
    intros y. rewrite (replay_sem_list (c_recursive C) (c_root C) _ t (tl (c_recursive C) (c_root C) w) Tn Tg y).
    rewrite freplays_creates. rewrite !tlw_fdl.
    destruct (in_scope (c_recursive C) (c_root C) y) eqn:Iy; [|now rewrite fputs_noins, tlw_fdl, Iy].
    unfold fdl at 1. destruct (flookup y (w_fs wn)) as [e|] eqn:El.
    - destruct (flookup_some _ _ _ El) as [He Ee]. cbn [option_map].
      destruct (G2 e He) as [Hin|[Hb _]].
      + (* an old entry: untouched *)
        rewrite fputs_other.
        * rewrite tlw_fdl, Iy. unfold fdl. rewrite <- Ee, (flookup_in _ e (wf_paths _ W) Hin). reflexivity.
        * intros v Hv. apply HL in Hv as (e' & _ & _ & _ & Hb). destruct (Hold e Hin) as [A B]. rewrite Ee in A, B.
          destruct Hb as [Hb|Hb]; [now apply A | congruence].
      + (* an arrived entry: its create record *)
        rewrite Ee in Hb. apply fputs_hit; [exact Iy| |].
        * intros v Hv. apply HL in Hv as (e' & He' & Ee' & <- & _). f_equal.
          apply (path_inj (w_fs wn)); [apply Wn | exact He' | exact He | congruence].
        * left. exists (f_dir e). apply HL. exists e. auto.
    - cbn [option_map]. rewrite fputs_other.
      + rewrite tlw_fdl, Iy. unfold fdl. destruct (flookup y (w_fs w)) as [e|] eqn:E0; [|reflexivity].
        destruct (flookup_some _ _ _ E0) as [He Ee]. apply G1 in He. rewrite <- Ee, (flookup_in _ e (wf_paths _ Wn) He) in El. discriminate.
      + intros v Hv. apply HL in Hv as (e & He & Ee & _). rewrite <- Ee, (flookup_in _ e (wf_paths _ Wn) He) in El. discriminate.
  Qed.
End ArrivalTheorems.

(* ================================================================== 7. on the Pipeline model *)
Require Import WD.Proofs.TieStrongProofs WD.Proofs.CutsProofs WD.Proofs.SoundPipeProofs WD.Proofs.SoundLooseProofs.

Lemma justified_app_r rec root A B e : justified rec root B e = true -> justified rec root (A ++ B) e = true.
Proof.
  unfold justified. destruct (what_of (ev_cls e)) as [what isdir].
  intros H. apply andb_true_iff in H as [H1 H2]. rewrite H1. cbn [andb].
  destruct what, isdir; rewrite existsb_app; rewrite H2; apply orb_true_r.
Qed.

Lemma cmask_root_safe C rw : cmask rw -> root_safe C rw.
Proof. intros [H|H]; unfold root_safe; rewrite H; intros X; vm_compute in X; discriminate. Qed.

Lemma cmask_rcutok C R b : Forall cmask b -> rcutok C R b.
Proof.
  intros Hb b1 t b2 c -> Hk. exfalso. rewrite Forall_forall in Hb.
  rewrite (nkind_cmask C t) in Hk by (apply Hb; apply in_app_iff; right; now left). discriminate.
Qed.

Section ArrivalPipe.
  Variable P : pcfg.
  Hypothesis HF : pc_filter P = None.
  Let C := pc_reader P.
  Hypothesis Hfaults : c_faults C = [].
  Hypothesis Hsim : c_fix_simulate C = true.

  (* AOp (mkdir p); AOp ... (below p); ARead 1; any ticks / queue_events; the delay; queue_events until the buffer is empty *)
  Theorem arrival_pipeline s p rest L recs t0 :
    RSync C (p_world s) (p_k s) (p_r s) -> buffer_idle (p_buf s) -> p_stopped s = false ->
    (forall id, In id (map fst (p_tbl s)) -> (id < p_next s)%N) ->
    npath p -> c_recursive C = true -> scope C p -> N.land IN_CREATE (c_mask C) <> 0%N -> Forall (below_op p) rest ->
    forall w1, apply_op (p_world s) (Mkdir p) = Some w1 -> Forall tick_or_emit L ->
    TInv (c_recursive C) (c_root C) (replay (c_recursive C) (c_root C) t0 (p_out s)) (p_world s) ->
    exists nit s' obs, prun P s (burst_hist P (Mkdir p :: rest) [1%nat] L nit) [] = Done (s', obs) /\
      sound_along P s recs (burst_hist P (Mkdir p :: rest) [1%nat] L nit) = true /\
      p_world s' = snd (burst_end (p_k s) (p_world s) (Mkdir p :: rest)) /\
      TInv (c_recursive C) (c_root C) (replay (c_recursive C) (c_root C) t0 (p_out s')) (p_world s') /\
      RSync C (p_world s') (p_k s') (p_r s') /\ Cover C (w_fs (p_world s')) (p_k s') (p_r s') /\
      buffer_idle (p_buf s') /\ p_stopped s' = false /\ (forall id, In id (map fst (p_tbl s')) -> (id < p_next s')%N).
  Proof.
    intros S Hidle Hal Htbl Np Hrec Sp Hm Hrest w1 Ha HL T.
    set (ops := Mkdir p :: rest). set (KB := fst (burst_end (p_k s) (p_world s) ops)). set (wn := snd (burst_end (p_k s) (p_world s) ops)).
    destruct (arrival_main C Hfaults Hsim _ _ _ p rest S Np Hrec Sp Hm Hrest w1 Ha) as (r0 & k0 & raws0 & Hrd0 & _ & Hlen & _).
    destruct (arrival_raws C Hfaults Hsim _ _ _ p rest S Np Hrec Sp Hm Hrest w1 Ha)
      as (r' & k' & raws & Hrd & S' & _ & _ & _ & Fc & _).
    destruct (arrival_sound C (pc_full P) Hfaults Hsim _ _ _ p rest S Np Hrec Sp Hm Hrest w1 Ha) as (r1 & k1 & raws1 & Hrd1 & _ & J).
    destruct (arrival_replay C (pc_full P) Hfaults Hsim _ _ _ p rest _ S Np Hrec Sp Hm Hrest w1 Ha T) as (r2 & k2 & raws2 & Hrd2 & _ & T').
    fold ops KB wn in Hrd0, Hlen, Hrd, S', Hrd1, J, Hrd2, T'. cbv zeta in Hrd1, J, Hrd2, T'.
    rewrite Hrd in Hrd1, Hrd2. inversion Hrd1; subst r1 k1 raws1. inversion Hrd2; subst r2 k2 raws2. clear Hrd0 Hrd1 Hrd2.
    assert (Hrc : rcut C (w_fs wn) (p_r s) KB [1%nat] = Done (r', k', [raws])).
    { cbn [rcut]. destruct (k_queue KB) as [|a [|b q]] eqn:Eq; try discriminate Hlen.
      cbn [firstn]. assert (Ek : kcut KB 1 = drainq KB) by (unfold kcut, drainq, kset_queue; rewrite Eq; reflexivity).
      rewrite Ek, Hrd. reflexivity. }
    assert (Hsafe : Forall (root_safe C) (concat [raws])).
    { cbn [concat]. rewrite app_nil_r. eapply Forall_impl; [|exact Fc]. intros rw. apply cmask_root_safe. }
    assert (Hok : cuts_ok C [] [raws]) by (cbn [cuts_ok]; split; [now apply cmask_rcutok | exact I]).
    destruct (aops_run P ops s [] (map ARead [1%nat] ++ L ++ ATick (pc_delay P) :: repeat AEmit 0) recs) as [[obs0 Hr0] _].
    destruct (tie_reads P HF (after_burst s ops) [1%nat] L r' k' [raws] obs0 HL Hidle Hal Htbl Hrc Hsafe Hok)
      as (nit & s' & obs & Hrun & Hout & E1 & E2 & E3 & Hidle' & Hal' & Htbl').
    cbn [after_burst p_out p_world concat] in Hout, E1. rewrite app_nil_r in Hout. fold ops wn in Hout, E1.
    fold C in Hout. change (emit_all (pc_full P) (c_recursive C) (c_root C) (content (w_fs wn)) (group_batch C raws))
      with (ReplayProofs.delivered C (pc_full P) wn raws) in Hout.
    exists nit, s', obs. split; [|split; [|split; [exact E1|split; [|split; [|split; [|split; [exact Hidle'|split; [exact Hal' | exact Htbl']]]]]]]].
    - unfold burst_hist. fold ops. rewrite (ReplayPipeProofs.prun_app P (map AOp ops)), Hr0. exact Hrun.
    - unfold burst_hist. fold ops. rewrite (proj2 (aops_run P ops s [] _ recs)).
      assert (Hnoop : Forall noop (map ARead [1%nat] ++ L ++ ATick (pc_delay P) :: repeat AEmit nit)) by (now apply loose_rest_noop).
      destruct (sa_noop P _ Hnoop (after_burst s ops) obs0 s' obs [] (recs ++ burst_recs (p_world s) ops) Hrun) as (new & Hn & Hsa).
      rewrite app_nil_r in Hsa. rewrite Hsa. cbn [sound_along]. rewrite andb_true_r.
      cbn [after_burst p_out] in Hn. rewrite Hout in Hn. apply app_inv_head in Hn. subst new.
      apply forallb_forall. intros e He. apply justified_app_r. rewrite forallb_forall in J. exact (J e He).
    - rewrite Hout, E1. unfold replay. rewrite fold_left_app. exact T'.
    - rewrite E1, E2, E3. exact S'.
    - rewrite E1, E2, E3. exact (rs_cover _ _ _ _ S').
  Qed.
End ArrivalPipe.

(* the statement of Props/C02.v *)
Theorem burst_arrival_cover C w k r p rest : c_faults C = [] -> c_fix_simulate C = true ->
  RSync C w k r -> npath p -> c_recursive C = true -> scope C p -> N.land IN_CREATE (c_mask C) <> 0%N ->
  Forall (below_op p) rest ->
  forall w1, apply_op w (Mkdir p) = Some w1 ->
  let KB := fst (burst_end k w (Mkdir p :: rest)) in let wn := snd (burst_end k w (Mkdir p :: rest)) in
  length (k_queue KB) = 1%nat /\
  exists r' k' raws, read_batch C (w_fs wn) (r, drainq KB, []) (k_queue KB) = Done (r', k', raws) /\
    RSync C wn k' r' /\ Cover C (w_fs wn) k' r'.
Proof.
  intros Hf Hs S Np Hrec Sp Hm Hrest w1 Ha KB wn.
  destruct (arrival_cover C Hf Hs w k r p rest S Np Hrec Sp Hm Hrest w1 Ha) as (r' & k' & raws & Hrd & S' & Hl).
  split; [exact Hl|]. exists r', k', raws. split; [exact Hrd|]. split; [exact S' | exact (rs_cover _ _ _ _ S')].
Qed.

(* ================================================================== an instance *)
(* world w0 of CoverProofs: /s/R (watched, empty), /s/O, /s/O/d, /s/O/d/e.
   Burst: mkdir R/d; mkdir R/d/e; touch R/d/e/f; touch R/d/g - one record in the kernel queue *)
Definition ba_d : bytes := sub pR 100.
Definition ba_e : bytes := sub ba_d 101.
Definition ba_f : bytes := sub ba_e 102.
Definition ba_g : bytes := sub ba_d 103.
Definition ba_rest : list op := [Mkdir ba_e; Touch ba_f; Touch ba_g].

Lemma ba_rest_below : Forall (below_op ba_d) ba_rest.
Proof.
  assert (GR : gpath pR) by (split; [discriminate | reflexivity]).
  assert (ND : npath ba_d) by (apply npath_sub; [exact GR | reflexivity]).
  assert (NE : npath ba_e) by (apply npath_sub; [now apply npath_gpath | reflexivity]).
  repeat constructor; cbn [below_op]; try (vm_compute; reflexivity).
  - exact NE.
  - apply npath_sub; [now apply npath_gpath | reflexivity].
  - apply npath_sub; [now apply npath_gpath | reflexivity].
Qed.

Lemma arrival_example :
  exists r0 k0, construct (cfgx true true) kinit (w_fs w0) = Some (r0, k0) /\
    let KB := fst (burst_end k0 w0 (Mkdir ba_d :: ba_rest)) in let wn := snd (burst_end k0 w0 (Mkdir ba_d :: ba_rest)) in
    length (k_queue KB) = 1%nat /\
    exists r' k' raws, read_batch (cfgx true true) (w_fs wn) (r0, drainq KB, []) (k_queue KB) = Done (r', k', raws) /\
      RSync (cfgx true true) wn k' r' /\ Cover (cfgx true true) (w_fs wn) k' r' /\
      length (k_watches k') = 3%nat /\ map r_path raws = [ba_d; ba_e; ba_g; ba_f] /\
      fexists ba_f (w_fs wn) = true /\ fexists ba_g (w_fs wn) = true.
Proof.
  destruct (construct_cover (cfgx true true) eq_refl w0 w0_wf eq_refl) as (r & k & Hc & I & Cv & Hq & _ & Hp).
  assert (S : RSync (cfgx true true) w0 k r).
  { constructor; try assumption; [exact w0_wf|]. eexists. split; [left; reflexivity | split; reflexivity]. }
  exists r, k. split; [exact Hc|]. cbv zeta.
  assert (GR : gpath pR) by (split; [discriminate | reflexivity]).
  assert (ND : npath ba_d) by (apply npath_sub; [exact GR | reflexivity]).
  assert (SD : scope (cfgx true true) ba_d) by (right; vm_compute; reflexivity).
  assert (Hm : N.land IN_CREATE (c_mask (cfgx true true)) <> 0%N) by (vm_compute; discriminate).
  destruct (arrival_cover (cfgx true true) eq_refl eq_refl w0 k r ba_d ba_rest S ND eq_refl SD Hm ba_rest_below _ eq_refl)
    as (r' & k' & raws & Hrd & S' & Hlen).
  split; [exact Hlen|]. exists r', k', raws. split; [exact Hrd|]. split; [exact S'|]. split; [exact (rs_cover _ _ _ _ S')|].
  assert (Hc' := Hc). vm_compute in Hc'. inversion Hc'; subst r k. clear Hc'.
  assert (Hrd' := Hrd). vm_compute in Hrd'. inversion Hrd'. subst r' k' raws.
  split; [reflexivity|]. split; [reflexivity|]. split; vm_compute; reflexivity.
Qed.

(* the same instance: the delivered stream (walk order: R/d/g before R/d/e/f although it was created after it), every event
   justified, the replayed tree is the tree after the burst *)
Definition ba_events : list nevent :=
  [mk DirCreated ba_d []; mk DirModified pR []; mk DirCreated ba_e []; mk DirModified ba_d [];
   mk FileCreated ba_g []; mk DirModified ba_d []; mk FileCreated ba_f []; mk DirModified ba_e []].

Lemma arrival_example_stream :
  exists r0 k0, construct (cfgx true true) kinit (w_fs w0) = Some (r0, k0) /\
    let KB := fst (burst_end k0 w0 (Mkdir ba_d :: ba_rest)) in let wn := snd (burst_end k0 w0 (Mkdir ba_d :: ba_rest)) in
    exists r' k' raws, read_batch (cfgx true true) (w_fs wn) (r0, drainq KB, []) (k_queue KB) = Done (r', k', raws) /\
      ReplayProofs.delivered (cfgx true true) false wn raws = ba_events /\
      forallb (justified true pR (burst_recs w0 (Mkdir ba_d :: ba_rest))) ba_events = true /\
      length (burst_recs w0 (Mkdir ba_d :: ba_rest)) = 4%nat /\
      (forall x, alookup beqb x (replay true pR (tree_of true pR w0) ba_events) = alookup beqb x (tree_of true pR wn)).
Proof.
  destruct (construct_cover (cfgx true true) eq_refl w0 w0_wf eq_refl) as (r & k & Hc & I & Cv & Hq & _ & Hp).
  assert (S : RSync (cfgx true true) w0 k r).
  { constructor; try assumption; [exact w0_wf|]. eexists. split; [left; reflexivity | split; reflexivity]. }
  exists r, k. split; [exact Hc|]. cbv zeta.
  assert (GR : gpath pR) by (split; [discriminate | reflexivity]).
  assert (ND : npath ba_d) by (apply npath_sub; [exact GR | reflexivity]).
  assert (SD : scope (cfgx true true) ba_d) by (right; vm_compute; reflexivity).
  assert (Hm : N.land IN_CREATE (c_mask (cfgx true true)) <> 0%N) by (vm_compute; discriminate).
  destruct (arrival_replay (cfgx true true) false eq_refl eq_refl w0 k r ba_d ba_rest _ S ND eq_refl SD Hm ba_rest_below _ eq_refl
              (TInv_init true pR w0 w0_wf)) as (r' & k' & raws & Hrd & _ & T).
  destruct (arrival_sound (cfgx true true) false eq_refl eq_refl w0 k r ba_d ba_rest S ND eq_refl SD Hm ba_rest_below _ eq_refl)
    as (r2 & k2 & raws2 & Hrd2 & _ & J).
  cbv zeta in Hrd, Hrd2, T, J. rewrite Hrd in Hrd2. inversion Hrd2; subst r2 k2 raws2.
  exists r', k', raws. split; [exact Hrd|].
  assert (Hc' := Hc). vm_compute in Hc'. inversion Hc'; subst r k. clear Hc'.
  assert (Hrd' := Hrd). vm_compute in Hrd'. inversion Hrd'. subst r' k' raws.
  match goal with |- ?A = ba_events /\ _ => assert (Ed : A = ba_events) by (vm_compute; reflexivity) end.
  split; [exact Ed|]. split; [rewrite <- Ed; exact J|]. split; [vm_compute; reflexivity|].
  rewrite <- Ed. now apply TInv_tree_eq.
Qed.

(* on the Pipeline model from pinit: the four AOp back to back, one ARead of the one record, the delay, 4 queue_events calls *)
Definition ba_history : list action := burst_hist (Px true) (Mkdir ba_d :: ba_rest) [1%nat] [] 4.

Lemma arrival_pipeline_example :
  exists s0 s obs, pinit (Px true) w0 = Some s0 /\ prun (Px true) s0 ba_history [] = Done (s, obs) /\
    p_out s = ba_events /\ sound_along (Px true) s0 [] ba_history = true /\ length (k_watches (p_k s)) = 3%nat.
Proof.
  eexists; eexists; eexists. split; [vm_compute; reflexivity|]. split; [vm_compute; reflexivity|].
  split; [reflexivity|]. split; vm_compute; reflexivity.
Qed.
