(* Proofs about the SkipRepeatsQueue model: invariants of every run (any number of producers,
   items and steps), the sequential corollaries and the event equality law. *)
Require Import WD.Base.Prelude WD.Model.SkipQueue.
From Coq Require Import Permutation.

(* ------------------------------------------------------------------ lists *)

Lemma final_snoc {A} (l : list A) x : final (l ++ [x]) = Some x.
Proof.
  induction l as [|a l IH]; simpl; [reflexivity|].
  destruct (l ++ [x]) eqn:E; [destruct l; discriminate|]. exact IH.
Qed.

Lemma final_cons {A} (h : A) t : t <> [] -> final (h :: t) = final t.
Proof. destruct t; [congruence|reflexivity]. Qed.

Lemma final_In {A} (l : list A) y : final l = Some y -> In y l.
Proof.
  induction l as [|a l IH]; simpl; [discriminate|].
  destruct l; [intros [= ->]; now left | intros H; right; apply IH, H].
Qed.

Lemma final_some_snoc {A} (l : list A) y : final l = Some y -> exists l', l = l' ++ [y].
Proof.
  induction l as [|a l IH]; [discriminate|].
  destruct l as [|b l].
  - intros [= ->]. now exists [].
  - intros H. destruct (IH H) as [l' E]. exists (a :: l'). simpl. now rewrite <- E.
Qed.

Lemma final_nil_iff {A} (l : list A) : final l = None <-> l = [].
Proof.
  split; [|intros ->; reflexivity].
  induction l as [|a l IH]; [reflexivity|]. destruct l; [discriminate|]. intros H. discriminate (IH H).
Qed.

Lemma NoDup_snoc {A} (l : list A) x : NoDup l -> ~ In x l -> NoDup (l ++ [x]).
Proof.
  intros ND H. eapply Permutation_NoDup; [apply Permutation_cons_append|]. now constructor.
Qed.

Lemma NoDup_app_remove_l {A} (l l' : list A) : NoDup (l ++ l') -> NoDup l'.
Proof. induction l as [|a l IH]; simpl; [auto|]. intros H. inversion H; auto. Qed.

Lemma NoDup_app_remove_r {A} (l l' : list A) : NoDup (l ++ l') -> NoDup l.
Proof.
  induction l as [|a l IH]; simpl; intros H; [constructor|]. inversion H; subst.
  constructor; [|auto]. intros I. apply H2. apply in_or_app. now left.
Qed.

(* ------------------------------------------------------------------ association lists *)

Definition keys (m : list (N * pc)) : list N := map fst m.

Lemma alookup_none m p : alookup N.eqb p m = None <-> ~ In p (keys m).
Proof.
  induction m as [|[k v] m IH]; simpl; [tauto|].
  destruct (N.eqb_spec p k).
  - split; [discriminate|]. intros H. exfalso. apply H. now left.
  - rewrite IH. split; [intros H [E|E]; [congruence|tauto] | tauto].
Qed.

Lemma alookup_split m p c : alookup N.eqb p m = Some c ->
  exists m1 m2, m = m1 ++ (p, c) :: m2 /\ ~ In p (keys m1).
Proof.
  induction m as [|[k v] m IH]; simpl; [discriminate|].
  destruct (N.eqb_spec p k).
  - intros [= ->]. subst. exists [], m. split; [reflexivity|tauto].
  - intros H. destruct (IH H) as (m1 & m2 & -> & Hn). exists ((k, v) :: m1), m2. split; [reflexivity|].
    simpl. intros [E|E]; [congruence|tauto].
Qed.

Lemma aset_notin m p c : ~ In p (keys m) -> aset N.eqb p c m = m ++ [(p, c)].
Proof.
  induction m as [|[k v] m IH]; simpl; [reflexivity|]. intros H.
  destruct (N.eqb_spec p k); [exfalso; apply H; now left|]. rewrite IH; [reflexivity|tauto].
Qed.

Lemma aset_split m1 m2 p c c' : ~ In p (keys m1) ->
  aset N.eqb p c' (m1 ++ (p, c) :: m2) = m1 ++ (p, c') :: m2.
Proof.
  induction m1 as [|[k v] m1 IH]; simpl; intros H.
  - now rewrite N.eqb_refl.
  - destruct (N.eqb_spec p k); [exfalso; apply H; now left|]. rewrite IH; [reflexivity|tauto].
Qed.

Lemma aremove_notin m p : ~ In p (keys m) -> aremove N.eqb p m = m.
Proof.
  induction m as [|[k v] m IH]; simpl; [reflexivity|]. intros H.
  destruct (N.eqb_spec p k); [exfalso; apply H; now left|]. rewrite IH; [reflexivity|tauto].
Qed.

Lemma aremove_split m1 m2 p c : ~ In p (keys m1) -> ~ In p (keys m2) ->
  aremove N.eqb p (m1 ++ (p, c) :: m2) = m1 ++ m2.
Proof.
  induction m1 as [|[k v] m1 IH]; simpl; intros H1 H2.
  - rewrite N.eqb_refl. now apply aremove_notin.
  - destruct (N.eqb_spec p k); [exfalso; apply H1; now left|]. rewrite IH; [reflexivity|tauto|assumption].
Qed.

Lemma keys_app m1 m2 : keys (m1 ++ m2) = keys m1 ++ keys m2.
Proof. apply map_app. Qed.

(* A producer's entry located in a duplicate-free map. *)
Lemma locate m p c : NoDup (keys m) -> alookup N.eqb p m = Some c ->
  exists m1 m2, m = m1 ++ (p, c) :: m2 /\ ~ In p (keys m1) /\ ~ In p (keys m2).
Proof.
  intros ND H. destruct (alookup_split _ _ _ H) as (m1 & m2 & -> & Hn). exists m1, m2.
  split; [reflexivity|]. split; [assumption|].
  rewrite keys_app in ND. simpl in ND. apply NoDup_remove_2 in ND. intros I. apply ND. apply in_or_app. now right.
Qed.

(* ------------------------------------------------------------------ runs *)

Definition reachable (s : state) : Prop := exists tr, run init tr = Some s.

Lemma run_app s tr1 tr2 :
  run s (tr1 ++ tr2) = match run s tr1 with Some s1 => run s1 tr2 | None => None end.
Proof.
  revert s; induction tr1 as [|l tr1 IH]; intros s; simpl; [reflexivity|].
  destruct (step s l) as [[s' o]|]; [apply IH|reflexivity].
Qed.

Lemma run_snoc s tr l s' :
  run s (tr ++ [l]) = Some s' <-> exists s0 o, run s tr = Some s0 /\ step s0 l = Some (s', o).
Proof.
  rewrite run_app. destruct (run s tr) as [s0|]; simpl.
  - destruct (step s0 l) as [[s1 o]|] eqn:E.
    + split; [intros [= ->]; now exists s0, o | intros (s2 & o2 & [= <-] & H); rewrite E in H; now inversion H].
    + split; [discriminate | intros (s2 & o2 & [= <-] & H); congruence].
  - split; [discriminate | intros (s2 & o2 & H & _); discriminate].
Qed.

Lemma offered_app tr1 tr2 : offered (tr1 ++ tr2) = offered tr1 ++ offered tr2.
Proof. apply flat_map_app. Qed.

(* ------------------------------------------------------------------ the state invariant *)

Record Inv (s : state) : Prop := {
  inv_fifo : out s ++ queue s = enq s;
  inv_last : forall y, last_item s = Some y -> final (queue s) = Some y /\ final (enq s) = Some y;
  inv_keys : NoDup (keys (pcs s))
}.

Lemma Inv_init : Inv init.
Proof. split; simpl; [reflexivity | discriminate | constructor]. Qed.

Lemma NoDup_keys_aset m p c : NoDup (keys m) -> NoDup (keys (aset N.eqb p c m)).
Proof.
  intros ND. destruct (alookup N.eqb p m) as [c0|] eqn:E.
  - destruct (locate _ _ _ ND E) as (m1 & m2 & -> & H1 & H2).
    rewrite aset_split by assumption. rewrite keys_app in *. exact ND.
  - apply alookup_none in E. rewrite aset_notin by assumption. rewrite keys_app. simpl.
    apply NoDup_snoc; assumption.
Qed.

Lemma NoDup_keys_aremove m p : NoDup (keys m) -> NoDup (keys (aremove N.eqb p m)).
Proof.
  intros ND. destruct (alookup N.eqb p m) as [c0|] eqn:E.
  - destruct (locate _ _ _ ND E) as (m1 & m2 & -> & H1 & H2).
    rewrite aremove_split by assumption. rewrite keys_app in *. simpl in ND. eapply NoDup_remove_1, ND.
  - apply alookup_none in E. now rewrite aremove_notin.
Qed.

Lemma Inv_step s l s' o : Inv s -> step s l = Some (s', o) -> Inv s'.
Proof.
  intros [F L K] H. destruct s as [q la m e ou d]. unfold step, pc_of, with_pcs in H. simpl in *.
  destruct l as [p x|p|p|].
  - destruct (alookup N.eqb p m); [discriminate|]. inversion H; subst; clear H.
    split; simpl; [auto|auto|now apply NoDup_keys_aset].
  - destruct (alookup N.eqb p m) as [[x|x]|]; try discriminate.
    destruct la as [y|].
    + destruct (N.eqb (value x) (value y)); inversion H; subst; clear H;
        (split; simpl; [auto|auto|]); [now apply NoDup_keys_aremove|now apply NoDup_keys_aset].
    + inversion H; subst; clear H. split; simpl; [auto|auto|now apply NoDup_keys_aset].
  - destruct (alookup N.eqb p m) as [[x|x]|]; try discriminate. inversion H; subst; clear H.
    split; simpl.
    + now rewrite app_assoc.
    + intros y [= <-]. now rewrite !final_snoc.
    + now apply NoDup_keys_aremove.
  - destruct q as [|h t]; [discriminate|]. inversion H; subst; clear H. split; simpl.
    + now rewrite <- app_assoc.
    + intros y Hy. destruct la as [y0|]; [|discriminate].
      destruct (N.eqb_spec (ident h) (ident y0)); [discriminate|]. inversion Hy; subst.
      destruct (L y eq_refl) as [Lq Le]. split; [|assumption].
      destruct t as [|h2 t]; [|exact Lq]. simpl in Lq. inversion Lq; subst. congruence.
    + assumption.
Qed.

Lemma Inv_run s tr s' : Inv s -> run s tr = Some s' -> Inv s'.
Proof.
  revert s; induction tr as [|l tr IH]; intros s I H; simpl in H.
  - now inversion H; subst.
  - destruct (step s l) as [[s1 o]|] eqn:E; [|discriminate]. eapply IH; [eapply Inv_step; eassumption|assumption].
Qed.

Lemma Inv_reachable s : reachable s -> Inv s.
Proof. intros [tr H]. eapply Inv_run; [apply Inv_init|exact H]. Qed.

(* (FIFO) *)
Theorem fifo tr s : run init tr = Some s -> out s ++ queue s = enq s.
Proof. intros H. apply Inv_reachable. now exists tr. Qed.

(* (invariant of _last_item) *)
Theorem last_item_invariant tr s y : run init tr = Some s -> last_item s = Some y ->
  queue s <> [] /\ final (queue s) = Some y /\ final (enq s) = Some y.
Proof.
  intros H Hy. destruct (Inv_reachable s (ex_intro _ tr H)) as [_ L _]. destruct (L y Hy) as [A B].
  split; [|split; assumption]. intros E. rewrite E in A. discriminate.
Qed.

(* (re-acceptance) an empty queue has forgotten its last item *)
Theorem empty_resets_last tr s : run init tr = Some s -> queue s = [] -> last_item s = None.
Proof.
  intros H E. destruct (last_item s) as [y|] eqn:Hy; [|reflexivity].
  destruct (last_item_invariant _ _ _ H Hy) as [N _]. contradiction.
Qed.

(* ------------------------------------------------------------------ only justified drops *)

(* The state in which a drop of x against y is allowed by the property. *)
Definition justified (s : state) (x y : item) : Prop :=
  last_item s = Some y /\ value y = value x /\ final (enq s) = Some y /\ In y (queue s).

Lemma dropped_step s l s' o : step s l = Some (s', o) ->
  dropped s' = dropped s \/
  exists p x y, l = PRead2 p /\ pc_of s p = Some (AtRead2 x) /\ last_item s = Some y /\
                value y = value x /\ dropped s' = dropped s ++ [(x, y)].
Proof.
  intros H. destruct s as [q la m e ou d]. unfold step, pc_of, with_pcs in *. simpl in *.
  destruct l as [p x|p|p|].
  - destruct (alookup N.eqb p m); [discriminate|]. inversion H; subst. now left.
  - destruct (alookup N.eqb p m) as [[x|x]|] eqn:E; try discriminate. destruct la as [y|].
    + destruct (N.eqb_spec (value x) (value y)); inversion H; subst; [|now left].
      right. exists p, x, y. repeat split; auto.
    + inversion H; subst. now left.
  - destruct (alookup N.eqb p m) as [[x|x]|]; try discriminate. inversion H; subst. now left.
  - destruct q; [discriminate|]. inversion H; subst. now left.
Qed.

Theorem drops_justified tr s x y : run init tr = Some s -> In (x, y) (dropped s) ->
  exists tr1 p tr2 s1, tr = tr1 ++ PRead2 p :: tr2 /\ run init tr1 = Some s1 /\
    pc_of s1 p = Some (AtRead2 x) /\ justified s1 x y.
Proof.
  revert s. induction tr as [|l tr IH] using rev_ind; intros s H Hin.
  - inversion H; subst. contradiction.
  - apply run_snoc in H as (s0 & o & H0 & Hs).
    destruct (dropped_step _ _ _ _ Hs) as [E|(p & x0 & y0 & -> & Hpc & Hl & Hv & E)].
    + rewrite E in Hin. destruct (IH _ H0 Hin) as (tr1 & p & tr2 & s1 & -> & R).
      exists tr1, p, (tr2 ++ [l]), s1. split; [now rewrite <- app_assoc|exact R].
    + rewrite E in Hin. apply in_app_or in Hin as [Hin|[Hin|[]]].
      * destruct (IH _ H0 Hin) as (tr1 & p1 & tr2 & s1 & -> & R).
        exists tr1, p1, (tr2 ++ [PRead2 p]), s1. split; [now rewrite <- app_assoc|exact R].
      * inversion Hin; subst. exists tr, p, [], s0. split; [reflexivity|]. split; [assumption|].
        split; [assumption|]. destruct (Inv_reachable s0 (ex_intro _ tr H0)) as [_ L _].
        destruct (L y Hl) as [Lq Le]. repeat split; auto. now apply final_In.
Qed.

(* ------------------------------------------------------------------ nothing else is lost *)

Definition settled (s : state) : list item := enq s ++ map fst (dropped s) ++ pending s.

Lemma pending_map m : map (fun e : N * pc => pc_item (snd e)) m = map pc_item (map snd m).
Proof. now rewrite map_map. Qed.

Lemma conserve_step s l s' o : NoDup (keys (pcs s)) -> step s l = Some (s', o) ->
  Permutation (settled s') (settled s ++ offered_by l).
Proof.
  intros ND H. destruct s as [q la m e ou d]. unfold settled, pending, step, pc_of, with_pcs in *. simpl in *.
  destruct l as [p x|p|p|]; simpl.
  - destruct (alookup N.eqb p m) eqn:E; [discriminate|]. apply alookup_none in E.
    inversion H; subst; clear H. simpl. rewrite aset_notin by assumption. rewrite map_app. simpl.
    assert (pc_item (match la with Some _ => AtRead2 x | None => AtPut x end) = x) as -> by now destruct la.
    now rewrite !app_assoc.
  - rewrite app_nil_r.
    destruct (alookup N.eqb p m) as [[x|x]|] eqn:E; try discriminate.
    destruct (locate _ _ _ ND E) as (m1 & m2 & -> & H1 & H2).
    assert (Hset : map (fun e0 : N * pc => pc_item (snd e0)) (aset N.eqb p (AtPut x) (m1 ++ (p, AtRead2 x) :: m2))
                   = map (fun e0 : N * pc => pc_item (snd e0)) (m1 ++ (p, AtRead2 x) :: m2)).
    { rewrite aset_split by assumption. now rewrite !map_app. }
    destruct la as [y|].
    + destruct (N.eqb (value x) (value y)); inversion H; subst; clear H; simpl.
      * rewrite aremove_split by assumption. rewrite !map_app. simpl.
        apply Permutation_app_head. rewrite <- app_assoc. apply Permutation_app_head. simpl.
        apply Permutation_middle.
      * now rewrite Hset.
    + inversion H; subst; clear H; simpl. now rewrite Hset.
  - rewrite app_nil_r.
    destruct (alookup N.eqb p m) as [[x|x]|] eqn:E; try discriminate.
    destruct (locate _ _ _ ND E) as (m1 & m2 & -> & H1 & H2).
    inversion H; subst; clear H; simpl. rewrite aremove_split by assumption. rewrite !map_app. simpl.
    rewrite <- app_assoc. apply Permutation_app_head. simpl.
    change (x :: map fst d ++ ?a ++ ?b) with ((x :: map fst d) ++ a ++ b).
    rewrite (app_assoc (map fst d)), (app_assoc (x :: map fst d)).
    apply Permutation_sym. etransitivity; [apply Permutation_sym, Permutation_middle|].
    simpl. constructor. now rewrite <- app_assoc.
  - rewrite app_nil_r. destruct q; [discriminate|]. inversion H; subst; clear H. reflexivity.
Qed.

Lemma conserve_run s tr s' : Inv s -> run s tr = Some s' ->
  Permutation (settled s') (settled s ++ offered tr).
Proof.
  revert s; induction tr as [|l tr IH]; intros s I H; simpl in H.
  - inversion H; subst. unfold offered. simpl. now rewrite app_nil_r.
  - destruct (step s l) as [[s1 o]|] eqn:E; [|discriminate].
    etransitivity; [apply (IH s1); [eapply Inv_step; eassumption|assumption]|].
    change (offered (l :: tr)) with (offered_by l ++ offered tr). rewrite app_assoc.
    apply Permutation_app_tail. eapply conserve_step; [apply I|eassumption].
Qed.

(* Every offered item is, as a multiset, in exactly one place: appended, dropped or in flight. *)
Theorem conservation tr s : run init tr = Some s ->
  Permutation (offered tr) (enq s ++ map fst (dropped s) ++ pending s).
Proof.
  intros H. apply Permutation_sym. apply (conserve_run init tr s Inv_init H).
Qed.

Theorem conservation_nodup tr s : run init tr = Some s -> NoDup (map ident (offered tr)) ->
  NoDup (map ident (enq s ++ map fst (dropped s) ++ pending s)).
Proof.
  intros H ND. eapply Permutation_NoDup; [|exact ND]. apply Permutation_map, conservation, H.
Qed.

Lemma NoDup_map_app_disjoint {A B} (f : A -> B) l1 l2 x :
  NoDup (map f (l1 ++ l2)) -> In x l1 -> In x l2 -> False.
Proof.
  rewrite map_app. intros ND H1 H2. induction l1 as [|a l1 IH]; [contradiction|].
  simpl in ND. inversion ND as [|? ? Hn ND']; subst. destruct H1 as [->|H1].
  - apply Hn. apply in_or_app. right. now apply in_map.
  - now apply IH.
Qed.

Lemma NoDup_map_inv {A B} (f : A -> B) l : NoDup (map f l) -> NoDup l.
Proof.
  induction l as [|a l IH]; simpl; intros H; [constructor|]. inversion H; subst.
  constructor; [|now apply IH]. intros I. apply H2. now apply in_map.
Qed.

(* With unique identities: each offered item is in exactly one of enq / dropped / in flight, and
   nothing is in enq twice. *)
Theorem exactly_one tr s x : run init tr = Some s -> NoDup (map ident (offered tr)) -> In x (offered tr) ->
  (In x (enq s) \/ In x (map fst (dropped s)) \/ In x (pending s)) /\
  ~ (In x (enq s) /\ In x (map fst (dropped s))) /\
  ~ (In x (enq s) /\ In x (pending s)) /\
  ~ (In x (map fst (dropped s)) /\ In x (pending s)) /\
  NoDup (enq s) /\ NoDup (map fst (dropped s)) /\ NoDup (pending s).
Proof.
  intros H ND Hx. pose proof (conservation _ _ H) as P. pose proof (conservation_nodup _ _ H ND) as N.
  split.
  { apply (Permutation_in _ P) in Hx. apply in_app_or in Hx as [Hx|Hx]; [now left|].
    apply in_app_or in Hx as [Hx|Hx]; [right; now left | right; now right]. }
  split. { intros [A B]. eapply NoDup_map_app_disjoint; [exact N|exact A|]. apply in_or_app. now left. }
  split. { intros [A B]. eapply NoDup_map_app_disjoint; [exact N|exact A|]. apply in_or_app. now right. }
  split. { intros [A B]. rewrite map_app in N. apply NoDup_app_remove_l in N.
           eapply NoDup_map_app_disjoint; [exact N|exact A|exact B]. }
  apply NoDup_map_inv in N. split; [eapply NoDup_app_remove_r, N|].
  apply NoDup_app_remove_l in N. split; [eapply NoDup_app_remove_r, N | eapply NoDup_app_remove_l, N].
Qed.

(* Nothing is delivered that was not offered; nothing is delivered twice. *)
Theorem out_offered tr s x : run init tr = Some s -> In x (out s) -> In x (offered tr).
Proof.
  intros H Hx. pose proof (conservation _ _ H) as P. apply Permutation_sym in P. eapply Permutation_in; [exact P|].
  apply in_or_app. left. rewrite <- (fifo _ _ H). apply in_or_app. now left.
Qed.

Theorem out_nodup tr s : run init tr = Some s -> NoDup (map ident (offered tr)) -> NoDup (out s).
Proof.
  intros H ND. apply conservation_nodup in H as N; [|assumption]. apply NoDup_map_inv in N.
  apply NoDup_app_remove_r in N. rewrite <- (fifo _ _ H) in N. eapply NoDup_app_remove_r, N.
Qed.

(* When every put has returned and the queue is drained, the consumer got everything except the drops. *)
Theorem drained tr s : run init tr = Some s -> pcs s = [] -> queue s = [] ->
  Permutation (offered tr) (out s ++ map fst (dropped s)).
Proof.
  intros H Hp Hq. pose proof (conservation _ _ H) as P. pose proof (fifo _ _ H) as F.
  unfold pending in P. rewrite Hp in P. rewrite Hq in F. simpl in P. rewrite !app_nil_r in *. now rewrite F.
Qed.

(* A put that completed (its PPut step ran) left its item in enq. *)
Lemma enq_mono s tr s' : run s tr = Some s' -> exists l, enq s' = enq s ++ l.
Proof.
  revert s; induction tr as [|l tr IH]; intros s H; simpl in H.
  - inversion H; subst. exists []. now rewrite app_nil_r.
  - destruct (step s l) as [[s1 o]|] eqn:E; [|discriminate]. destruct (IH _ H) as [l2 E2].
    assert (exists l1, enq s1 = enq s ++ l1) as [l1 E1].
    { destruct s as [q la m e ou d]. unfold step, pc_of, with_pcs in E. simpl in *.
      destruct l as [p x|p|p|].
      - destruct (alookup N.eqb p m); [discriminate|]. inversion E; subst. exists []. simpl. now rewrite app_nil_r.
      - destruct (alookup N.eqb p m) as [[x|x]|]; try discriminate. destruct la as [y|].
        + destruct (N.eqb (value x) (value y)); inversion E; subst; exists []; simpl; now rewrite app_nil_r.
        + inversion E; subst. exists []. simpl. now rewrite app_nil_r.
      - destruct (alookup N.eqb p m) as [[x|x]|]; try discriminate. inversion E; subst. now exists [x].
      - destruct q; [discriminate|]. inversion E; subst. exists []. simpl. now rewrite app_nil_r. }
    exists (l1 ++ l2). now rewrite E2, E1, app_assoc.
Qed.

Theorem completed_put_in_enq tr1 p tr2 s1 s x :
  run init tr1 = Some s1 -> pc_of s1 p = Some (AtPut x) -> run init (tr1 ++ PPut p :: tr2) = Some s ->
  In x (enq s).
Proof.
  intros H1 Hpc H. rewrite run_app, H1 in H. simpl in H. unfold pc_of in Hpc. unfold pc_of in H. rewrite Hpc in H.
  apply enq_mono in H as [l E]. rewrite E. simpl. apply in_or_app. left. apply in_or_app. right. now left.
Qed.

(* ------------------------------------------------------------------ sequential use *)

Lemma alookup_snoc m p c : ~ In p (keys m) -> alookup N.eqb p (m ++ [(p, c)]) = Some c.
Proof.
  induction m as [|[k v] m IH]; simpl; intros H; [now rewrite N.eqb_refl|].
  destruct (N.eqb_spec p k); [exfalso; apply H; now left|]. apply IH. tauto.
Qed.

Lemma aremove_snoc m p c : ~ In p (keys m) -> aremove N.eqb p (m ++ [(p, c)]) = m.
Proof.
  intros H. replace (m ++ [(p, c)]) with (m ++ (p, c) :: []) by reflexivity.
  rewrite aremove_split; [apply app_nil_r|assumption|intros []].
Qed.

Lemma aset_snoc m p c c' : ~ In p (keys m) -> aset N.eqb p c' (m ++ [(p, c)]) = m ++ [(p, c')].
Proof. intros H. now apply aset_split. Qed.

Definition accept (s : state) (x : item) : state :=
  mkState (queue s ++ [x]) (Some x) (pcs s) (enq s ++ [x]) (out s) (dropped s).
Definition reject (s : state) (x y : item) : state :=
  mkState (queue s) (last_item s) (pcs s) (enq s) (out s) (dropped s ++ [(x, y)]).

(* Closed form of a put that runs without interleaving. *)
Lemma seq_put_spec s p x : pc_of s p = None ->
  seq_put p x s = Some (match last_item s with
                        | None => accept s x
                        | Some y => if N.eqb (value x) (value y) then reject s x y else accept s x
                        end).
Proof.
  intros Hp. pose proof Hp as Hk. unfold pc_of in Hk. apply alookup_none in Hk.
  destruct s as [q la m e ou d]. unfold seq_put, step_st, step, pc_of, with_pcs in *. simpl in *.
  rewrite Hp. simpl. rewrite aset_notin by assumption.
  destruct la as [y|]; unfold finish_put, step_st, step, pc_of, with_pcs; simpl.
  - rewrite alookup_snoc by assumption. rewrite aset_snoc, aremove_snoc by assumption.
    destruct (N.eqb (value x) (value y)); simpl.
    + rewrite (proj2 (alookup_none m p) Hk). reflexivity.
    + rewrite alookup_snoc by assumption. now rewrite aremove_snoc.
  - rewrite alookup_snoc by assumption. now rewrite aremove_snoc.
Qed.

(* A sequential put is a run of the LTS, so every theorem about runs applies to sequential use. *)
Lemma seq_put_run s p x s' : seq_put p x s = Some s' -> exists tr, run s tr = Some s' /\ offered tr = [x].
Proof.
  unfold seq_put, finish_put, step_st. intros H.
  destruct (step s (PRead1 p x)) as [[s1 o1]|] eqn:E1; [|discriminate].
  destruct (pc_of s1 p) as [[x1|x1]|].
  - destruct (step s1 (PRead2 p)) as [[s2 o2]|] eqn:E2; [|discriminate].
    destruct (pc_of s2 p) as [[x2|x2]|].
    + inversion H; subst. exists [PRead1 p x; PRead2 p]. split; [cbn [run]; now rewrite E1, E2 | reflexivity].
    + destruct (step s2 (PPut p)) as [[s3 o3]|] eqn:E3; [|discriminate]. inversion H; subst.
      exists [PRead1 p x; PRead2 p; PPut p]. split; [cbn [run]; now rewrite E1, E2, E3 | reflexivity].
    + inversion H; subst. exists [PRead1 p x; PRead2 p]. split; [cbn [run]; now rewrite E1, E2 | reflexivity].
  - destruct (step s1 (PPut p)) as [[s3 o3]|] eqn:E3; [|discriminate]. inversion H; subst.
    exists [PRead1 p x; PPut p]. split; [cbn [run]; now rewrite E1, E3 | reflexivity].
  - inversion H; subst. exists [PRead1 p x]. split; [cbn [run]; now rewrite E1 | reflexivity].
Qed.

Lemma seq_get_run s s' h : seq_get s = Some (s', h) -> run s [CGet] = Some s' /\ queue s = h :: queue s' /\ out s' = out s ++ [h].
Proof.
  unfold seq_get. simpl. destruct s as [q la m e ou d]. simpl. destruct q as [|a t]; [discriminate|].
  intros [= <- <-]. simpl. auto.
Qed.

Lemma reachable_run s tr s' : reachable s -> run s tr = Some s' -> reachable s'.
Proof. intros [tr0 H0] H. exists (tr0 ++ tr). now rewrite run_app, H0. Qed.

Lemma reachable_seq_put s p x s' : reachable s -> seq_put p x s = Some s' -> reachable s'.
Proof. intros R H. destruct (seq_put_run _ _ _ _ H) as (tr & Hr & _). eapply reachable_run; eassumption. Qed.

(* put after the queue was drained is accepted *)
Theorem seq_put_after_drain s p x : reachable s -> pc_of s p = None -> queue s = [] ->
  seq_put p x s = Some (accept s x).
Proof.
  intros [tr H] Hp Hq. rewrite seq_put_spec by assumption. now rewrite (empty_resets_last _ _ H Hq).
Qed.

(* ... in particular once the most recently enqueued item has been taken out *)
Theorem seq_put_after_taken_out s p x y : reachable s -> NoDup (enq s) -> pc_of s p = None ->
  final (enq s) = Some y -> In y (out s) -> seq_put p x s = Some (accept s x).
Proof.
  intros R ND Hp Hf Ho. apply seq_put_after_drain; try assumption.
  destruct (Inv_reachable _ R) as [F _ _]. destruct (queue s) as [|h t] eqn:Q; [reflexivity|exfalso].
  assert (final (h :: t) = Some y) as Hq.
  { apply final_some_snoc in Hf as [l' E]. rewrite E in F.
    assert (h :: t <> []) as NE by discriminate.
    destruct (exists_last NE) as (t' & z & Ez). rewrite Ez in *. rewrite app_assoc in F.
    apply app_inj_tail in F as [_ ->]. apply final_snoc. }
  apply final_In in Hq. rewrite <- F in ND. eapply NoDup_map_app_disjoint with (f := fun z : item => z).
  - rewrite map_id. exact ND.
  - exact Ho.
  - exact Hq.
Qed.

(* a put of a value different from the value of the previous put is accepted *)
Theorem seq_put_after_different s p y x s1 : pc_of s p = None -> seq_put p y s = Some s1 ->
  value x <> value y -> seq_put p x s1 = Some (accept s1 x).
Proof.
  intros Hp H1 Hv. rewrite seq_put_spec in H1 by assumption.
  assert (pc_of s1 p = None /\ exists z, last_item s1 = Some z /\ value z = value y) as [Hp1 (z & Hz & Hvz)].
  { destruct (last_item s) as [y0|] eqn:L.
    - destruct (N.eqb_spec (value y) (value y0)); inversion H1; subst; unfold pc_of, reject, accept; simpl;
        (split; [exact Hp|]); [exists y0; auto | exists y; auto].
    - inversion H1; subst. unfold pc_of, accept; simpl. split; [exact Hp|]. exists y; auto. }
  rewrite seq_put_spec by assumption. rewrite Hz.
  destruct (N.eqb_spec (value x) (value z)); [congruence|reflexivity].
Qed.

(* put x; put y; put x' with value x' = value x <> value y enqueues all three; three gets deliver them in order *)
Theorem seq_separated_equals p x y x' : value x <> value y -> value x' = value x ->
  exists s1 s2 s3, seq_put p x init = Some s1 /\ seq_put p y s1 = Some s2 /\ seq_put p x' s2 = Some s3 /\
    queue s3 = [x; y; x'] /\ enq s3 = [x; y; x'] /\ dropped s3 = [] /\
    exists s4 s5 s6, seq_get s3 = Some (s4, x) /\ seq_get s4 = Some (s5, y) /\ seq_get s5 = Some (s6, x') /\
      out s6 = [x; y; x'] /\ queue s6 = [].
Proof.
  intros Hv Hv'. rewrite seq_put_spec by reflexivity. simpl. eexists. eexists. eexists.
  split; [reflexivity|]. rewrite seq_put_spec by reflexivity. simpl.
  destruct (N.eqb_spec (value y) (value x)); [congruence|]. split; [reflexivity|].
  rewrite seq_put_spec by reflexivity. simpl.
  destruct (N.eqb_spec (value x') (value y)); [congruence|]. split; [reflexivity|]. simpl.
  repeat split. unfold seq_get. simpl. eexists. eexists. eexists.
  split; [reflexivity|]. simpl. split; [reflexivity|]. simpl. split; [reflexivity|]. simpl. auto.
Qed.

(* sequential drop: the second of two equal consecutive puts is dropped while the first one waits *)
Theorem seq_consecutive_dropped s p x y : pc_of s p = None -> last_item s = Some y -> value x = value y ->
  seq_put p x s = Some (reject s x y).
Proof. intros Hp Hl Hv. rewrite seq_put_spec by assumption. rewrite Hl, Hv, N.eqb_refl. reflexivity. Qed.

(* ------------------------------------------------------------------ per-producer order *)

Lemma pcs_step s l s' o q c : NoDup (keys (pcs s)) -> step s l = Some (s', o) -> In (q, c) (pcs s') ->
  (exists c0, In (q, c0) (pcs s) /\ pc_item c0 = pc_item c) \/ l = PRead1 q (pc_item c).
Proof.
  intros K H Hin. destruct s as [q0 la m e ou d]. unfold step, pc_of, with_pcs in H. simpl in *.
  destruct l as [p x|p|p|].
  - destruct (alookup N.eqb p m) eqn:E; [discriminate|]. apply alookup_none in E.
    inversion H; subst; clear H. simpl in Hin. rewrite aset_notin in Hin by assumption.
    apply in_app_or in Hin as [Hin|[Hin|[]]]; [left; now exists c|]. inversion Hin; subst. right.
    now destruct la.
  - destruct (alookup N.eqb p m) as [[x|x]|] eqn:E; try discriminate.
    destruct (locate _ _ _ K E) as (m1 & m2 & -> & K1 & K2).
    assert (In (q, c) (m1 ++ (p, AtPut x) :: m2) ->
            exists c0, In (q, c0) (m1 ++ (p, AtRead2 x) :: m2) /\ pc_item c0 = pc_item c) as Aux.
    { intros I. apply in_app_or in I as [I|[I|I]].
      - exists c. split; [apply in_or_app; now left|reflexivity].
      - inversion I; subst. exists (AtRead2 x). split; [apply in_or_app; right; now left|reflexivity].
      - exists c. split; [apply in_or_app; right; now right|reflexivity]. }
    assert (In (q, c) (m1 ++ m2) ->
            exists c0, In (q, c0) (m1 ++ (p, AtRead2 x) :: m2) /\ pc_item c0 = pc_item c) as Aux2.
    { intros I. exists c. split; [|reflexivity]. apply in_app_or in I as [I|I]; apply in_or_app; [now left|right; now right]. }
    left. destruct la as [y|].
    + destruct (N.eqb (value x) (value y)); inversion H; subst; clear H; simpl in Hin.
      * rewrite aremove_split in Hin by assumption. now apply Aux2.
      * rewrite aset_split in Hin by assumption. now apply Aux.
    + inversion H; subst; clear H; simpl in Hin. rewrite aset_split in Hin by assumption. now apply Aux.
  - destruct (alookup N.eqb p m) as [[x|x]|] eqn:E; try discriminate.
    destruct (locate _ _ _ K E) as (m1 & m2 & -> & K1 & K2).
    inversion H; subst; clear H; simpl in Hin. rewrite aremove_split in Hin by assumption.
    left. exists c. split; [|reflexivity]. apply in_app_or in Hin as [I|I]; apply in_or_app; [now left|right; now right].
  - destruct q0; [discriminate|]. inversion H; subst; clear H. simpl in Hin. left. now exists c.
Qed.

(* an in-flight item was offered by the producer that holds it *)
Lemma in_flight_owner tr : forall s q c, run init tr = Some s -> In (q, c) (pcs s) -> In (PRead1 q (pc_item c)) tr.
Proof.
  induction tr as [|l tr IH] using rev_ind; intros s q c H Hin.
  - inversion H; subst. contradiction.
  - apply run_snoc in H as (s0 & o & H0 & Hs).
    pose proof (Inv_reachable s0 (ex_intro _ tr H0)) as [_ _ K].
    destruct (pcs_step _ _ _ _ _ _ K Hs Hin) as [(c0 & I0 & E) | ->].
    + apply in_or_app. left. rewrite <- E. eapply IH; eassumption.
    + apply in_or_app. right. now left.
Qed.

Lemma two_offers tr q p x : In (PRead1 q x) tr -> In (PRead1 p x) tr -> q <> p -> ~ NoDup (map ident (offered tr)).
Proof.
  intros Hq Hp Hne ND. apply in_split in Hq as (a & b & ->).
  rewrite offered_app in ND. change (offered (PRead1 q x :: b)) with (x :: offered b) in ND.
  rewrite map_app in ND. simpl in ND. apply NoDup_remove_2 in ND. apply ND.
  assert (In x (offered a) \/ In x (offered b)) as [I|I].
  { apply in_app_or in Hp as [I|[I|I]].
    - left. unfold offered. apply in_flat_map. exists (PRead1 p x). split; [assumption|now left].
    - inversion I; congruence.
    - right. unfold offered. apply in_flat_map. exists (PRead1 p x). split; [assumption|now left]. }
  - apply in_or_app. left. now apply in_map.
  - apply in_or_app. right. now apply in_map.
Qed.

Lemma dropped_mono s tr s' x : run s tr = Some s' -> In x (map fst (dropped s)) -> In x (map fst (dropped s')).
Proof.
  revert s; induction tr as [|l tr IH]; intros s H I; simpl in H.
  - now inversion H; subst.
  - destruct (step s l) as [[s1 o]|] eqn:E; [|discriminate]. apply (IH s1 H).
    destruct (dropped_step _ _ _ _ E) as [->|(? & ? & ? & _ & _ & _ & _ & ->)]; [assumption|].
    rewrite map_app. apply in_or_app. now left.
Qed.

(* Per-producer order: if producer p offered x before x' and both were appended, x was appended first. *)
Theorem producer_order tr1 p x tr2 x' tr3 s :
  run init (tr1 ++ PRead1 p x :: tr2 ++ PRead1 p x' :: tr3) = Some s ->
  NoDup (map ident (offered (tr1 ++ PRead1 p x :: tr2 ++ PRead1 p x' :: tr3))) ->
  In x (enq s) -> In x' (enq s) ->
  exists l1 l2 l3, enq s = l1 ++ x :: l2 ++ x' :: l3.
Proof.
  intros H ND Hx Hx'.
  set (pre := tr1 ++ PRead1 p x :: tr2) in *.
  assert (Etr : tr1 ++ PRead1 p x :: tr2 ++ PRead1 p x' :: tr3 = pre ++ PRead1 p x' :: tr3).
  { unfold pre. now rewrite <- app_assoc. }
  rewrite Etr in *. clear Etr.
  pose proof H as H'. rewrite run_app in H'. destruct (run init pre) as [s2|] eqn:H2; [|discriminate].
  assert (NDpre : NoDup (map ident (offered pre))).
  { rewrite offered_app, map_app in ND. eapply NoDup_app_remove_r, ND. }
  assert (Opre : In x (offered pre)).
  { unfold pre. rewrite offered_app. apply in_or_app. right. now left. }
  assert (Lpre : In (PRead1 p x) pre).
  { unfold pre. apply in_or_app. right. now left. }
  assert (Oall : In x (offered (pre ++ PRead1 p x' :: tr3))).
  { rewrite offered_app. apply in_or_app. now left. }
  (* p is idle in s2 *)
  assert (Hidle : pc_of s2 p = None).
  { pose proof H' as H3. cbn [run] in H3. unfold step in H3. destruct (pc_of s2 p); [discriminate|reflexivity]. }
  (* x is not in flight in s2 *)
  assert (Hnp : ~ In x (pending s2)).
  { unfold pending. intros I. apply in_map_iff in I as ([q c] & Ec & Iq). simpl in Ec. subst x.
    pose proof (in_flight_owner _ _ _ _ H2 Iq) as Oq.
    destruct (N.eq_dec q p) as [->|Hne].
    - unfold pc_of in Hidle. apply alookup_none in Hidle. apply Hidle. unfold keys. apply in_map_iff. now exists (p, c).
    - exact (two_offers _ _ _ _ Oq Lpre Hne NDpre). }
  destruct (exactly_one _ _ x H2 NDpre Opre) as (W & _).
  assert (In x (enq s2)) as He2.
  { destruct W as [W|[W|W]]; [assumption| |contradiction]. exfalso.
    pose proof (dropped_mono _ _ _ _ H' W) as Wd.
    destruct (exactly_one _ _ x H ND Oall) as (_ & N1 & _). apply N1. now split. }
  destruct (enq_mono _ _ _ H') as [l E].
  assert (~ In x' (enq s2)) as Hn'.
  { intros I. assert (In x' (offered pre)) as O'.
    { pose proof (conservation _ _ H2) as P. apply Permutation_sym in P. eapply Permutation_in; [exact P|].
      apply in_or_app. now left. }
    rewrite offered_app, map_app in ND. change (offered (PRead1 p x' :: tr3)) with (x' :: offered tr3) in ND.
    simpl in ND. apply NoDup_remove_2 in ND. apply ND. apply in_or_app. left. now apply in_map. }
  rewrite E in Hx'. apply in_app_or in Hx' as [?|Hl]; [contradiction|].
  apply in_split in He2 as (a & b & Ea). apply in_split in Hl as (c & d & El).
  exists a, (b ++ c), d. rewrite E, Ea, El. now rewrite <- !app_assoc.
Qed.

(* ------------------------------------------------------------------ event equality *)

Lemma ecls_eqb_eq a b : ecls_eqb a b = true <-> a = b.
Proof. destruct a, b; unfold ecls_eqb; simpl; split; intros H; try reflexivity; discriminate H. Qed.

Lemma path_eqb_eq a b : path_eqb a b = true <-> a = b.
Proof.
  destruct a as [x|x], b as [y|y]; simpl; split; intros H; try discriminate H.
  - apply beqb_eq in H. now subst.
  - inversion H. apply beqb_refl.
  - apply beqb_eq in H. now subst.
  - inversion H. apply beqb_refl.
Qed.

Lemma etype_eqb_refl t : etype_eqb t t = true.
Proof. unfold etype_eqb. apply N.eqb_refl. Qed.

Theorem event_eqb_eq a b : event_eqb a b = true <-> a = b.
Proof.
  split.
  - unfold event_eqb. intros H. repeat (apply andb_true_iff in H as [? H]).
    destruct a, b; simpl in *.
    apply ecls_eqb_eq in H0. apply path_eqb_eq in H1. apply path_eqb_eq in H2. apply eqb_prop in H.
    now subst.
  - intros ->. unfold event_eqb.
    rewrite (proj2 (ecls_eqb_eq _ _) eq_refl), !(proj2 (path_eqb_eq _ _) eq_refl), etype_eqb_refl, !eqb_reflx.
    reflexivity.
Qed.

(* spelled out: equal iff same class and same values of the five compared fields *)
Theorem event_eqb_fields a b : event_eqb a b = true <->
  cls a = cls b /\ src_path a = src_path b /\ dest_path a = dest_path b /\
  event_type (cls a) = event_type (cls b) /\ is_directory (cls a) = is_directory (cls b) /\
  is_synthetic a = is_synthetic b.
Proof.
  rewrite event_eqb_eq. split.
  - intros ->. repeat split.
  - intros (H1 & H2 & H3 & _ & _ & H6). destruct a, b; simpl in *. now subst.
Qed.
