(* The dispatcher's loop and the ghost log: C04 "exactly once, in order, to the right handlers". *)
Require Import WD.Base.Prelude WD.Model.Observer WD.Proofs.ObserverProofs WD.Proofs.ObserverInv WD.Proofs.ObserverRet.

(* ------------------------------------------------------------------ an exception always has a Return to go to *)
Definition is_d (i : instr) : bool :=
  match i with DCheck | DExitI | DGet | DSnap | DTurns | DTaskDone => true | _ => false end.

Definition fr (i : instr) : bool :=
  match i with
  | ISched _ _ | IEmStartS _ | IRegEm _ | IAddHW _ _ | IAddH _ _ | IRemH _ _ | IUnsched _ | IEmStop _
  | IEmJoin _ | IDelWatch _ | IClear | IIterChk _ | IClearEm | IStartCopy | IStartEm _ | IFailStart _
  | IStartDisp | IJoinDisp => true
  | _ => false
  end.

Fixpoint ret_ahead (k : list instr) : bool :=
  match k with
  | [] => false
  | IRet _ :: _ => true
  | i :: k' => if barrier i || is_ret i then false else ret_ahead k'
  end.

Fixpoint raise_ok (k : list instr) : bool :=
  match k with
  | [] => true
  | i :: k' => (negb (fr i) || ret_ahead k') && raise_ok k'
  end.

Definition plain (i : instr) : bool := negb (barrier i) && negb (is_ret i).

Lemma ret_ahead_app new k : forallb plain new = true -> ret_ahead (new ++ k) = ret_ahead k.
Proof.
  induction new as [|i new IH]; simpl; auto. intros H. apply andb_true_iff in H as [H1 H2].
  unfold plain in H1. apply andb_true_iff in H1 as [Hb Hr].
  destruct i; simpl in *; try discriminate; auto.
Qed.

Lemma raise_ok_app new k : forallb plain new = true -> ret_ahead k = true -> raise_ok k = true ->
  raise_ok (new ++ k) = true.
Proof.
  induction new as [|i new IH]; simpl; auto. intros H Hr Hk. apply andb_true_iff in H as [H1 H2].
  rewrite IH by auto. rewrite ret_ahead_app by auto. rewrite Hr. rewrite orb_true_r. reflexivity.
Qed.

Lemma raise_ok_app_nofr new k : forallb (fun i => negb (fr i)) new = true -> raise_ok k = true -> raise_ok (new ++ k) = true.
Proof.
  induction new as [|i new IH]; simpl; auto. intros H Hk. apply andb_true_iff in H as [H1 H2].
  rewrite IH by auto. rewrite H1. reflexivity.
Qed.

Lemma raise_ok_tail i k : raise_ok (i :: k) = true -> raise_ok k = true.
Proof. simpl. intros H. apply andb_true_iff in H. tauto. Qed.

Lemma raise_ok_unwind k : raise_ok k = true -> raise_ok (unwind k) = true.
Proof.
  induction k as [|i k IH]; simpl; auto. intros H. apply andb_true_iff in H as [H1 H2].
  destruct i; simpl; auto.
Qed.

Lemma exec_raise_ok s t i k inp s' : exec s t i k inp = Some s' ->
  raise_ok (i :: k) = true -> raise_ok (cont s' t) = true.
Proof.
  intros H Hr. pose proof (raise_ok_tail _ _ Hr) as Hk.
  destruct i; crush_exec H; rewrite cont_set_cont_same;
    try (apply raise_ok_unwind; exact Hk); try exact Hk;
    simpl in Hr; rewrite ?Hk, ?andb_true_r in Hr; try reflexivity.
  all: try (simpl; rewrite ?Hr, ?Hk; reflexivity).
  all: try (destruct (fixed s), c; simpl; rewrite ?Hk; reflexivity).
  - apply raise_ok_app; [fb_solve| |].
    + simpl. rewrite ret_ahead_app by fb_solve. simpl. exact Hr.
    + simpl. rewrite ret_ahead_app by fb_solve. simpl. rewrite Hr. simpl.
      apply raise_ok_app; [fb_solve | simpl; exact Hr | simpl; rewrite Hr, Hk; reflexivity].
  - apply raise_ok_app; [fb_solve | simpl; exact Hr | simpl; rewrite Hr, Hk; reflexivity].
  - apply raise_ok_app_nofr; [fb_solve | simpl; exact Hk].
Qed.

Lemma nobarrier_app a b : nobarrier (a ++ b) = nobarrier a && nobarrier b.
Proof. apply forallb_app. Qed.

Lemma nobarrier_unwind k : nobarrier k = true -> nobarrier (unwind k) = true.
Proof.
  induction k as [|i k IH]; simpl; auto. intros H. apply andb_true_iff in H as [H1 H2].
  destruct i; simpl in *; auto.
Qed.

Lemma exec_nobarrier s t i k inp s' : exec s t i k inp = Some s' ->
  nobarrier (i :: k) = true -> nobarrier (cont s' t) = true.
Proof.
  intros H Hn. simpl in Hn. apply andb_true_iff in Hn as [Hi Hk].
  destruct i; simpl in Hi; try discriminate; crush_exec H; rewrite cont_set_cont_same;
    try (apply nobarrier_unwind; exact Hk); try exact Hk;
    try (simpl; rewrite ?Hk; reflexivity).
  all: repeat (rewrite nobarrier_app; simpl); rewrite ?Hk, ?andb_true_r;
    repeat (apply andb_true_iff; split); try reflexivity; unfold nobarrier; fb_solve.
Qed.

Definition SegInv (s : state) : Prop :=
  (forall t, raise_ok (cont s t) = true) /\ (forall n, nobarrier (cont s (TA n)) = true).

Lemma SegInv_reachable s : reachable s -> SegInv s.
Proof.
  apply reach_P.
  - intros s0 t i k inp s' [HR HN] Ec H. split.
    + intros t'. destruct (tid_eq_dec t' t) as [->|Hne].
      * eapply exec_raise_ok; eauto. rewrite <- Ec. apply HR.
      * destruct (exec_others _ _ _ _ _ _ H t' Hne) as [E | [_ [_ [_ E]]]]; rewrite E; auto.
    + intros n. destruct (tid_eq_dec (TA n) t) as [<-|Hne].
      * eapply exec_nobarrier; eauto. rewrite <- Ec. apply HN.
      * destruct (exec_others _ _ _ _ _ _ H (TA n) Hne) as [E | [_ [Ht _]]]; [rewrite E; auto | discriminate].
  - intros s0 n c [HR HN] Ec. split.
    + intros t'. destruct (tid_eq_dec t' (TA n)) as [->|Hne].
      * rewrite cont_set_cont_same. destruct (fixed s0), c; reflexivity.
      * rewrite cont_set_cont_other by congruence. destruct t'; [apply (HR TD) | apply (HR (TA n0))].
    + intros n'. destruct (tid_eq_dec (TA n') (TA n)) as [E|Hne].
      * rewrite E. rewrite cont_set_cont_same. destruct (fixed s0), c; reflexivity.
      * rewrite cont_set_cont_other by congruence. apply (HN n').
  - intros s0 l s' [HR HN] Hl H. destruct (em_step_frame _ _ _ Hl H) as [Ec _]. split; intros; rewrite Ec; auto.
  - split; [intros t; destruct t; reflexivity | intros n; reflexivity].
Qed.

(* ------------------------------------------------------------------ the dispatcher's position in its loop *)
Fixpoint after_d (k : list instr) : list instr :=
  match k with [] => [] | i :: k' => if is_d i then k else after_d k' end.

Definition nod (k : list instr) : bool := forallb (fun i => negb (is_d i)) k.

Lemma after_d_app new k : nod new = true -> after_d (new ++ k) = after_d k.
Proof.
  induction new as [|i new IH]; simpl; auto. intros H. apply andb_true_iff in H as [H1 H2].
  destruct (is_d i); try discriminate. auto.
Qed.

Lemma after_d_unwind k : ret_ahead k = true -> after_d (unwind k) = after_d k.
Proof.
  induction k as [|i k IH]; simpl; auto. intros H.
  destruct i; simpl in *; try discriminate; auto.
Qed.

(* events of the dispatch loop *)
Definition dispev (x : gev) : bool :=
  match x with GGet (QEv _ _) | GSnap _ _ | GTurn _ | GCb _ _ _ => true | _ => false end.

(* an instruction outside the dispatch loop: no dispatch event, the loop position is unchanged *)
Lemma exec_nond s t i k inp s' : is_d i = false -> exec s t i k inp = Some s' -> raise_ok (i :: k) = true ->
  (exists new, glog s' = new ++ glog s /\ forallb (fun x => negb (dispev x)) new = true) /\
  dcur s' = dcur s /\ dtodo s' = dtodo s /\ after_d (cont s' t) = after_d k.
Proof.
  intros Hd H Hr. simpl in Hr. apply andb_true_iff in Hr as [Hr _].
  destruct i; simpl in Hd; try discriminate; crush_exec H;
    rewrite cont_set_cont_same, glog_set_cont, dcur_set_cont, dtodo_set_cont; cbn;
    (split; [ first [ exists []; split; reflexivity | eexists [_]; split; reflexivity | eexists [_; _]; split; reflexivity ] |]);
    (split; [reflexivity|]); (split; [reflexivity|]);
    try reflexivity;
    try (simpl in Hr; apply after_d_unwind; exact Hr).
  all: try (destruct (fixed s), c; reflexivity).
  all: try (repeat (rewrite after_d_app by fb_solve; simpl); reflexivity).
Qed.

(* ------------------------------------------------------------------ the log, read as a list of dispatches *)
Record drec := { re : event; rw : watch; rsnap : option (list handler); rturns : list (handler * bool) }.

(* newest dispatch first; a turn is recorded with "was the handler registered for the watch at that moment"
   (computed from the registration events of the log, not from the callbacks) *)
Fixpoint dl (g : list gev) : list drec :=
  match g with
  | [] => []
  | x :: l =>
      match x, dl l with
      | GGet (QEv e w), ds => {| re := e; rw := w; rsnap := None; rturns := [] |} :: ds
      | GSnap w hs, r :: ds => {| re := re r; rw := rw r; rsnap := Some hs; rturns := rturns r |} :: ds
      | GTurn h, r :: ds => {| re := re r; rw := rw r; rsnap := rsnap r; rturns := (h, reg l h (rw r)) :: rturns r |} :: ds
      | _, ds => ds
      end
  end.

(* a finished dispatch: every handler of the snapshot had exactly one turn, nobody else had one *)
Definition complete (r : drec) : Prop :=
  exists hs, rsnap r = Some hs /\ NoDup (map fst (rturns r)) /\ (forall h, In h hs <-> In h (map fst (rturns r))).

Lemma dl_nondisp new g : forallb (fun x => negb (dispev x)) new = true -> dl (new ++ g) = dl g.
Proof.
  induction new as [|x new IH]; simpl; auto. intros H. apply andb_true_iff in H as [H1 H2].
  rewrite IH by auto. destruct x; simpl in H1; try discriminate; auto.
  destruct q; simpl in H1; try discriminate; auto.
Qed.

Lemma memN_In x l : memN x l = true <-> In x l.
Proof.
  unfold memN. rewrite existsb_exists. split.
  - intros [y [Hy E]]. apply N.eqb_eq in E. subst. auto.
  - intros H. exists x. split; auto. apply N.eqb_refl.
Qed.
Lemma In_remN y x l : In y (remN x l) <-> y <> x /\ In y l.
Proof.
  unfold remN. rewrite filter_In. split.
  - intros [H1 H2]. split; auto. intros ->. rewrite N.eqb_refl in H2. discriminate.
  - intros [H1 H2]. split; auto. destruct (N.eqb x y) eqn:E; auto. apply N.eqb_eq in E. congruence.
Qed.

Definition F1 := [DSnap; DTurns; IRel; DTaskDone; DCheck].
Definition F2 := [DTurns; IRel; DTaskDone; DCheck].
Definition F3 := [DTaskDone; DCheck].

Definition idle_pos (k : list instr) : Prop := k = [] \/ k = [DCheck] \/ k = [DGet] \/ k = [DExitI].

Definition DlInv (s : state) : Prop :=
  let ds := dl (glog s) in
  (idle_pos (after_d (dcont s)) /\ Forall complete ds) \/
  (after_d (dcont s) = F1 /\ exists e w ds', ds = {| re := e; rw := w; rsnap := None; rturns := [] |} :: ds' /\
      dcur s = Some (e, w) /\ Forall complete ds') \/
  (after_d (dcont s) = F2 /\ exists r ds' hs, ds = r :: ds' /\ dcur s = Some (re r, rw r) /\ rsnap r = Some hs /\
      NoDup (map fst (rturns r)) /\ (forall h, In h hs <-> (In h (dtodo s) \/ In h (map fst (rturns r)))) /\
      (forall h, In h (dtodo s) -> ~ In h (map fst (rturns r))) /\ Forall complete ds') \/
  (after_d (dcont s) = F3 /\ exists r ds', ds = r :: ds' /\ dcur s = Some (re r, rw r) /\ complete r /\ Forall complete ds').

(* steps that leave the loop position, the current event, the turn list and the dispatch log alone *)
Lemma DlInv_frame s s' : DlInv s -> after_d (dcont s') = after_d (dcont s) -> dl (glog s') = dl (glog s) ->
  dcur s' = dcur s -> dtodo s' = dtodo s -> DlInv s'.
Proof. unfold DlInv. intros H E1 E2 E3 E4. rewrite E1, E2, E3, E4. exact H. Qed.

Lemma is_d_barrier i : is_d i = true -> barrier i = true.
Proof. destruct i; simpl; auto. Qed.

Local Opaque remN.
Lemma DlInv_exec s t i k inp s' : LockInv s -> SegInv s -> DlInv s -> cont s t = i :: k ->
  exec s t i k inp = Some s' -> DlInv s'.
Proof.
  intros HL [HR HN] HD Ec H. destruct (is_d i) eqn:Hd.
  - (* a dispatch-loop instruction: only the dispatcher has those *)
    assert (t = TD).
    { destruct t; auto. specialize (HN n). rewrite Ec in HN. simpl in HN.
      rewrite (is_d_barrier _ Hd) in HN. discriminate. }
    subst t. simpl in Ec.
    assert (Ea : after_d (dcont s) = i :: k) by (rewrite Ec; simpl; rewrite Hd; reflexivity).
    unfold DlInv in HD. rewrite Ea in HD.
    destruct HD as [[Hi Hf] | [[E HD] | [[E HD] | [E HD]]]].
    + (* idle positions *)
      destruct Hi as [Hi | [Hi | [Hi | Hi]]]; inversion Hi; subst; simpl in H.
      * (* DCheck *) destruct (dstop s); inversion H; subst; left; split; simpl; auto; unfold idle_pos; auto.
      * (* DGet *) destruct (queue s) as [|[e w|] q]; try discriminate; inversion H; subst.
        -- right; left. split; [reflexivity|]. simpl. exists e, w, (dl (glog s)). repeat split; auto.
        -- left. split; simpl; auto. unfold idle_pos; auto.
      * (* DExitI *) inversion H; subst. left. split; simpl; auto. unfold idle_pos; auto.
    + (* DSnap *) inversion E; subst. destruct HD as [e [w [ds' [Eds [Ecur Hf]]]]]. simpl in H. rewrite Ecur in H.
      inversion H; subst. right; right; left. split; [reflexivity|]. simpl. simpl in Eds. rewrite Eds.
      eexists _, ds', _. repeat split; simpl; eauto; try (constructor); try tauto.
    + (* DTurns *) inversion E; subst. destruct HD as [r [ds' [hs [Eds [Ecur [Esn [Hnd [Hall [Hdis Hf]]]]]]]]].
      simpl in H. rewrite Ecur in H. destruct (dtodo s) as [|h0 todo] eqn:Et.
      * (* all turns taken *) inversion H; subst. right; right; right. split; [reflexivity|]. simpl.
        exists r, ds'. repeat split; auto. exists hs. split; [auto|]. split; [auto|].
        intros h. split; intros Hh.
        -- apply Hall in Hh. destruct Hh as [[]|Hh]; auto.
        -- apply Hall. auto.
      * destruct inp as [| |h calls]; try discriminate.
        destruct (memN h (h0 :: todo)) eqn:Em; try discriminate. apply memN_In in Em.
        assert (Hnew : forall g', dl (GTurn h :: glog s) = g' -> True) by auto. clear Hnew.
        assert (Hstep : forall s1, dtodo s1 = remN h (h0 :: todo) -> dcur s1 = dcur s ->
                  dl (glog s1) = {| re := re r; rw := rw r; rsnap := rsnap r; rturns := (h, reg (glog s) h (rw r)) :: rturns r |} :: ds' ->
                  after_d (dcont s1) = F2 -> DlInv s1).
        { intros s1 E1 E2 E3 E4. right; right; left. split; [exact E4|]. rewrite E3, E1, E2.
          eexists _, ds', hs. simpl. repeat split; auto.
          - constructor; auto.
          - intros Hh. apply Hall in Hh. destruct Hh as [Hh|Hh]; [|right; simpl; auto].
            destruct (N.eq_dec h1 h) as [->|Hne]; [right; simpl; auto | left; apply In_remN; auto].
          - intros [Hh|[Hh|Hh]]; apply Hall; auto.
            + apply In_remN in Hh. tauto.
            + subst. auto.
          - intros h1 Hh Hx. apply In_remN in Hh as [Hne Hin]. simpl in Hx. destruct Hx as [Hx|Hx]; [congruence|].
            eapply Hdis; eauto. }
        destruct (memN h (hset (rw r) (hauto (rw r) (handlers s)))); inversion H; subst; apply Hstep; simpl; auto;
          try (simpl in Eds; rewrite Eds; reflexivity).
        rewrite after_d_app by fb_solve. reflexivity.
    + (* DTaskDone *) inversion E; subst. destruct HD as [r [ds' [Eds [Ecur [Hc Hf]]]]]. simpl in H.
      inversion H; subst. left. split; simpl; [unfold idle_pos; auto|]. simpl in Eds. rewrite Eds. constructor; auto.
  - (* any other instruction *)
    assert (Hro : raise_ok (i :: k) = true) by (rewrite <- Ec; apply HR).
    destruct (exec_nond _ _ _ _ _ _ Hd H Hro) as [[new [Eg Hnd]] [Ecur [Etodo Ea]]].
    assert (Edl : dl (glog s') = dl (glog s)) by (rewrite Eg; apply dl_nondisp; auto).
    destruct (tid_eq_dec t TD) as [->|Hne].
    + eapply DlInv_frame; eauto. simpl in Ea, Ec. rewrite Ea, Ec. simpl. rewrite Hd. reflexivity.
    + destruct (exec_others _ _ _ _ _ _ H TD (not_eq_sym Hne)) as [E | [_ [_ [Hds E]]]].
      * eapply DlInv_frame; eauto. simpl in E. rewrite E. reflexivity.
      * destruct HL as [_ [_ [HDI _]]]. specialize (HDI Hds). unfold DlInv in *. rewrite HDI in HD. simpl in HD.
        simpl in E. rewrite E, Edl. simpl.
        destruct HD as [[_ Hf] | [[E' _] | [[E' _] | [E' _]]]]; try discriminate.
        left. split; auto. unfold idle_pos; auto.
Qed.
Local Transparent remN.

Lemma em_step_nondisp s l s' : em_label l = true -> step s l = Some s' ->
  exists new, glog s' = new ++ glog s /\ forallb (fun x => negb (dispev x)) new = true.
Proof.
  intros Hl H. destruct l; try discriminate; simpl in H;
    repeat match type of H with context [match ?x with _ => _ end] => destruct x eqn:? end;
    try discriminate; inversion H; subst; clear H; cbn;
    first [ exists []; split; reflexivity | eexists [_]; split; reflexivity ].
Qed.

Definition P3 (s : state) : Prop := LockInv s /\ SegInv s /\ DlInv s.

Lemma P3_exec s t i k inp s' : P3 s -> cont s t = i :: k -> exec s t i k inp = Some s' -> P3 s'.
Proof.
  intros [HL [HS HD]] Ec H.
  split; [eapply LockInv_exec; eauto|]. split.
  - destruct HS as [HR HN]. split.
    + intros t'. destruct (tid_eq_dec t' t) as [->|Hne].
      * eapply exec_raise_ok; eauto. rewrite <- Ec. apply HR.
      * destruct (exec_others _ _ _ _ _ _ H t' Hne) as [E | [_ [_ [_ E]]]]; rewrite E; auto.
    + intros n. destruct (tid_eq_dec (TA n) t) as [<-|Hne].
      * eapply exec_nobarrier; eauto. rewrite <- Ec. apply HN.
      * destruct (exec_others _ _ _ _ _ _ H (TA n) Hne) as [E | [_ [Ht _]]]; [rewrite E; auto | discriminate].
  - eapply DlInv_exec; eauto.
Qed.

Lemma P3_call s n c : P3 s -> cont s (TA n) = [] -> P3 (set_cont (TA n) (body (fixed s) c) (say (GCall (TA n) c) s)).
Proof.
  intros [HL [HS HD]] Ec. split; [apply LockInv_call; auto|]. split.
  - destruct HS as [HR HN]. split.
    + intros t'. destruct (tid_eq_dec t' (TA n)) as [->|Hne].
      * rewrite cont_set_cont_same. destruct (fixed s), c; reflexivity.
      * rewrite cont_set_cont_other by congruence. destruct t'; [apply (HR TD) | apply (HR (TA n0))].
    + intros n'. destruct (tid_eq_dec (TA n') (TA n)) as [E|Hne].
      * rewrite E. rewrite cont_set_cont_same. destruct (fixed s), c; reflexivity.
      * rewrite cont_set_cont_other by congruence. apply (HN n').
  - eapply DlInv_frame; eauto; reflexivity.
Qed.

Lemma P3_em s l s' : P3 s -> em_label l = true -> step s l = Some s' -> P3 s'.
Proof.
  intros [HL [HS HD]] Hl H. split; [eapply LockInv_em; eauto|].
  destruct (em_step_frame _ _ _ Hl H) as [Ec [_ [_ [_ [_ [_ [_ [_ [Et Ecur]]]]]]]]].
  split.
  - destruct HS as [HR HN]. split; intros; rewrite Ec; auto.
  - destruct (em_step_nondisp _ _ _ Hl H) as [new [Eg Hn]].
    eapply DlInv_frame; eauto.
    + specialize (Ec TD). simpl in Ec. rewrite Ec. reflexivity.
    + rewrite Eg. apply dl_nondisp; auto.
Qed.

Lemma P3_init : P3 init.
Proof.
  split; [|split].
  - repeat split; auto; destruct t; reflexivity.
  - split; [intros t; destruct t; reflexivity | intros n; reflexivity].
  - left. split; [left; reflexivity | constructor].
Qed.

Lemma P3_reachable s : reachable s -> P3 s.
Proof. apply reach_P; [apply P3_exec | apply P3_call | apply P3_em | apply P3_init]. Qed.

(* ------------------------------------------------------------------ C04: delivered = dequeued, filtered *)
Definition selw (w : watch) (r : drec) : bool := N.eqb w (rw r).
Definition had_turn (h : handler) (r : drec) : bool := existsb (fun p => N.eqb h (fst p) && snd p) (rturns r).
Definition sel (h : handler) (w : watch) (r : drec) : bool := selw w r && had_turn h r.

Definition fc (h : handler) (w : watch) (g : gev) : list event :=
  match g with GCb h' w' e => if N.eqb h h' && N.eqb w w' then [e] else [] | _ => [] end.

Lemma delivered_proj h w s : delivered h w s = flat_map (fc h w) (rev (glog s)).
Proof. reflexivity. Qed.

Lemma dl_head_same_key (p : drec -> bool) r r' ds :
  re r' = re r -> p r' = p r -> map re (filter p (rev (r' :: ds))) = map re (filter p (rev (r :: ds))).
Proof.
  intros E1 E2. simpl. rewrite !filter_app, !map_app. simpl. rewrite E2. destruct (p r); simpl; rewrite ?E1; reflexivity.
Qed.

(* the dequeued events of w are the dispatches of w, oldest first *)
Lemma dequeued_dl g w : flat_map (fd w) (rev g) = map re (filter (selw w) (rev (dl g))).
Proof.
  induction g as [|x g IH]; simpl; auto. rewrite flat_map_app. simpl. rewrite app_nil_r, IH.
  destruct x; simpl; rewrite ?app_nil_r; auto.
  - destruct q; simpl; rewrite ?app_nil_r; auto.
    rewrite filter_app, map_app. simpl. unfold selw. simpl. destruct (N.eqb w w0); reflexivity.
  - destruct (dl g) as [|r ds]; simpl; rewrite ?app_nil_r; auto.
    symmetry. apply (dl_head_same_key (selw w)); reflexivity.
  - destruct (dl g) as [|r ds]; simpl; rewrite ?app_nil_r; auto.
    symmetry. apply (dl_head_same_key (selw w)); reflexivity.
Qed.

Definition DelivInv (s : state) : Prop :=
  forall h w, flat_map (fc h w) (rev (glog s)) = map re (filter (sel h w) (rev (dl (glog s)))).

Lemma fc_nondisp h w new g : forallb (fun x => negb (dispev x)) new = true ->
  flat_map (fc h w) (rev (new ++ g)) = flat_map (fc h w) (rev g).
Proof.
  induction new as [|x new IH]; simpl; auto. intros H. apply andb_true_iff in H as [H1 H2].
  rewrite flat_map_app, IH by auto. destruct x; simpl in H1; try discriminate; simpl; try apply app_nil_r.
Qed.

Lemma DelivInv_frame s s' new : DelivInv s -> glog s' = new ++ glog s ->
  forallb (fun x => negb (dispev x)) new = true -> DelivInv s'.
Proof.
  intros H Eg Hn h w. rewrite Eg. rewrite fc_nondisp by auto. rewrite dl_nondisp by auto. apply H.
Qed.

Lemma deliv_step_other h w x g : fc h w x = [] ->
  flat_map (fc h w) (rev (x :: g)) = flat_map (fc h w) (rev g).
Proof. intros E. simpl. rewrite flat_map_app. simpl. rewrite E. rewrite !app_nil_r. reflexivity. Qed.

Lemma had_turn_false h r : ~ In h (map fst (rturns r)) -> had_turn h r = false.
Proof.
  unfold had_turn. intros H.
  destruct (existsb (fun p : handler * bool => (h =? fst p)%N && snd p) (rturns r)) eqn:E; auto.
  apply existsb_exists in E as [p [Hp E]]. apply andb_true_iff in E as [E _]. apply N.eqb_eq in E.
  exfalso. apply H. subst. apply in_map. exact Hp.
Qed.

Local Opaque remN.
Lemma DelivInv_exec s t i k inp s' : P3 s -> RegInv s -> DelivInv s -> cont s t = i :: k ->
  exec s t i k inp = Some s' -> DelivInv s'.
Proof.
  intros [HL [[HR HN] HD]] [Hreg _] HV Ec H. destruct (is_d i) eqn:Hd.
  - assert (t = TD).
    { destruct t; auto. specialize (HN n). rewrite Ec in HN. simpl in HN.
      rewrite (is_d_barrier _ Hd) in HN. discriminate. }
    subst t. simpl in Ec.
    assert (Ea : after_d (dcont s) = i :: k) by (rewrite Ec; simpl; rewrite Hd; reflexivity).
    unfold DlInv in HD. rewrite Ea in HD.
    destruct HD as [[Hi Hf] | [[E HD] | [[E HD] | [E HD]]]].
    + destruct Hi as [Hi | [Hi | [Hi | Hi]]]; inversion Hi; subst; simpl in H.
      * destruct (dstop s); inversion H; subst; eapply DelivInv_frame with (new := [_]); eauto; reflexivity.
      * destruct (queue s) as [|[e w|] q]; try discriminate; inversion H; subst.
        -- intros h w0. cbn [glog say set_dcont set_dcur set_queue set_glog]. rewrite deliv_step_other by reflexivity.
           rewrite HV. simpl. rewrite filter_app, map_app. simpl.
           assert (Es : sel h w0 {| re := e; rw := w; rsnap := None; rturns := [] |} = false)
             by (unfold sel, had_turn; simpl; apply andb_false_r).
           rewrite Es. simpl. rewrite app_nil_r. reflexivity.
        -- eapply DelivInv_frame with (new := [_]); eauto; reflexivity.
      * inversion H; subst. eapply DelivInv_frame with (new := [_]); eauto; reflexivity.
    + (* DSnap *) inversion E; subst. destruct HD as [e [w [ds' [Eds [Ecur Hf]]]]]. simpl in H. rewrite Ecur in H.
      inversion H; subst. intros h w0. cbn [glog say set_dcont set_dtodo set_handlers set_glog].
      rewrite deliv_step_other by reflexivity. rewrite HV. simpl dl. simpl in Eds. rewrite Eds.
      symmetry. apply (dl_head_same_key (sel h w0)); reflexivity.
    + (* DTurns *) inversion E; subst. destruct HD as [r [ds' [hs [Eds [Ecur [Esn [Hnd [Hall [Hdis Hf]]]]]]]]].
      simpl in H. rewrite Ecur in H. destruct (dtodo s) as [|h0 todo] eqn:Et.
      * inversion H; subst. eapply DelivInv_frame with (new := []); eauto; reflexivity.
      * destruct inp as [| |h calls]; try discriminate.
        destruct (memN h (h0 :: todo)) eqn:Em; try discriminate. apply memN_In in Em.
        assert (Hnot : had_turn h r = false) by (apply had_turn_false; apply Hdis; exact Em).
        rewrite hset_hauto in H. rewrite Hreg in H. simpl in Eds.
        assert (Hrhs : forall h' w' b, 
                  map re (filter (sel h' w') (rev ({| re := re r; rw := rw r; rsnap := rsnap r; rturns := (h, b) :: rturns r |} :: ds')))
                  = map re (filter (sel h' w') (rev (r :: ds'))) ++ (if N.eqb h' h && N.eqb w' (rw r) && b then [re r] else [])).
        { intros h' w' b. simpl. rewrite !filter_app, !map_app. simpl. rewrite <- app_assoc. f_equal.
          unfold sel, selw, had_turn. simpl.
          match goal with |- context [existsb ?f (rturns r)] => remember (existsb f (rturns r)) as X eqn:EX end.
          destruct (N.eqb h' h) eqn:Eh; simpl.
          - apply N.eqb_eq in Eh. subst h'. assert (EX' : X = false) by (subst X; exact Hnot). rewrite EX'. clear EX EX'.
            destruct (N.eqb w' (rw r)); simpl; auto. destruct b; reflexivity.
          - destruct (N.eqb w' (rw r)); simpl; [destruct X|]; simpl; rewrite ?app_nil_r; reflexivity. }
        destruct (reg (glog s) h (rw r)) eqn:Er; inversion H; subst; intros h' w';
          cbn [glog say set_dcont set_dtodo set_handlers set_glog].
        -- assert (Edl : dl (GCb h (rw r) (re r) :: GTurn h :: glog s)
                         = {| re := re r; rw := rw r; rsnap := rsnap r; rturns := (h, true) :: rturns r |} :: ds')
             by (simpl; rewrite Eds, Er; reflexivity).
           rewrite Edl, Hrhs, <- Eds, <- HV. simpl rev. rewrite !flat_map_app. simpl. rewrite !app_nil_r, andb_true_r.
           reflexivity.
        -- assert (Edl : dl (GTurn h :: glog s)
                         = {| re := re r; rw := rw r; rsnap := rsnap r; rturns := (h, false) :: rturns r |} :: ds')
             by (simpl; rewrite Eds, Er; reflexivity).
           rewrite Edl, Hrhs, <- Eds, <- HV. simpl rev. rewrite !flat_map_app. simpl. rewrite ?andb_false_r. repeat rewrite app_nil_r.
           reflexivity.
    + (* DTaskDone *) inversion E; subst. simpl in H. inversion H; subst.
      eapply DelivInv_frame with (new := [_]); eauto; reflexivity.
  - assert (Hro : raise_ok (i :: k) = true) by (rewrite <- Ec; apply HR).
    destruct (exec_nond _ _ _ _ _ _ Hd H Hro) as [[new [Eg Hnd]] _].
    eapply DelivInv_frame; eauto.
Qed.
Local Transparent remN.

Definition P4 (s : state) : Prop := P3 s /\ RegInv s /\ DelivInv s.

Lemma P4_reachable s : reachable s -> P4 s.
Proof.
  apply reach_P.
  - intros s0 t i k inp s' [H3 [Hr Hv]] Ec H. split; [eapply P3_exec; eauto|]. split; [eapply RegInv_exec; eauto|].
    eapply DelivInv_exec; eauto.
  - intros s0 n c [H3 [Hr Hv]] Ec. split; [apply P3_call; auto|]. split; [apply RegInv_call; auto|].
    eapply DelivInv_frame with (new := [_]); eauto; reflexivity.
  - intros s0 l s' [H3 [Hr Hv]] Hl H. split; [eapply P3_em; eauto|]. split; [eapply RegInv_em; eauto|].
    destruct (em_step_nondisp _ _ _ Hl H) as [new [Eg Hn]]. eapply DelivInv_frame; eauto.
  - split; [apply P3_init|]. split; [split; simpl; auto|]. intros h w. reflexivity.
Qed.

(* C04, main theorem: what handler h received for watch w is exactly, in order, the dequeued events of w
   in whose dispatch h had a turn while registered for w *)
Theorem delivered_is_filtered_dequeued s : reachable s -> forall h w,
  delivered h w s = map re (filter (sel h w) (rev (dl (glog s)))) /\
  dequeued w s = map re (filter (selw w) (rev (dl (glog s)))).
Proof.
  intros Hs h w. destruct (P4_reachable s Hs) as [_ [_ Hv]]. split.
  - rewrite delivered_proj. apply Hv.
  - apply dequeued_dl.
Qed.

(* every dispatch in the log but possibly the one in progress is complete: each handler of its snapshot
   had exactly one turn, nobody else had one; the one in progress has served a duplicate-free subset *)
Theorem dispatches_well_formed s : reachable s ->
  match dl (glog s) with
  | [] => True
  | r :: ds =>
      Forall complete ds /\ NoDup (map fst (rturns r)) /\
      (forall hs, rsnap r = Some hs -> forall h, In h (map fst (rturns r)) -> In h hs) /\
      (idle_pos (after_d (dcont s)) -> complete r)
  end.
Proof.
  intros Hs. destruct (P4_reachable s Hs) as [[_ [_ HD]] _]. unfold DlInv in HD.
  destruct HD as [[Hi Hf] | [[E HD] | [[E HD] | [E HD]]]].
  - destruct (dl (glog s)) as [|r ds]; auto. inversion Hf; subst.
    destruct H1 as [hs [E1 [E2 E3]]]. repeat split; auto.
    + intros hs' E' h Hh. rewrite E1 in E'. inversion E'; subst. apply E3. auto.
    + intros _. exists hs. auto.
  - destruct HD as [e [w [ds' [Eds [_ Hf]]]]]. rewrite Eds. simpl. repeat split; auto; try constructor.
    + intros hs E'. discriminate.
    + rewrite E. intros [X|[X|[X|X]]]; discriminate.
  - destruct HD as [r [ds' [hs [Eds [_ [Esn [Hnd [Hall [_ Hf]]]]]]]]]. rewrite Eds. repeat split; auto.
    + intros hs' E' h Hh. rewrite Esn in E'. inversion E'; subst. apply Hall. auto.
    + rewrite E. intros [X|[X|[X|X]]]; discriminate.
  - destruct HD as [r [ds' [Eds [_ [[hs [E1 [E2 E3]]] Hf]]]]]. rewrite Eds. repeat split; auto.
    + intros hs' E' h Hh. rewrite E1 in E'. inversion E'; subst. apply E3. auto.
    + intros _. exists hs. auto.
Qed.

(* a handler is called only by the dispatcher thread, and only while that thread holds the observer lock *)
Theorem callback_under_lock s t i k inp s' h w e x : reachable s -> cont s t = i :: k ->
  exec s t i k inp = Some s' -> glog s' = GCb h w e :: x :: glog s ->
  t = TD /\ exists n, lock s = Some (TD, S n).
Proof.
  intros Hs Ec H Hg. destruct (exec_callback _ _ _ _ _ _ _ _ _ _ H Hg) as [Ei _]. subst i.
  assert (t = TD).
  { destruct t; auto. destruct (P4_reachable s Hs) as [[_ [[_ HN] _]] _]. specialize (HN n). rewrite Ec in HN. discriminate. }
  subst t. split; auto. eapply needs_lock_owner; eauto.
Qed.
