(* C01 - placeholder until the pipeline theorems are proved; see Proofs/PipelineProofs.v *)
Require Import WD.Base.Prelude WD.Model.Pipeline.
