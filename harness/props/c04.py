"""C04 - queued events reach each registered handler exactly once, in order, no one else."""
from __future__ import annotations

from harness import core
from harness.core import Result

MANIFEST = dict(
    design_ref="DESIGN.md §6 Group O / C04",
    text="Coq theorems over every label list of the observer LTS (Model/Observer.v): C04_full (what handler h received for "
         "watch w is exactly, in order, the dequeued events of w in whose dispatch h had its turn while registered; dequeued = the "
         "dispatches of w), C04_exactly_once (every finished dispatch gave each handler of its snapshot exactly one turn and nobody "
         "else one; a dispatch ends only when complete), C04_fifo (dequeued ++ queued part of the queue = queued), "
         "C04_coalesce_only_identical_last, C04_never_foreign, C04_callback_justified, C04_callback_under_lock (callbacks only by the "
         "dispatcher thread while it holds the observer lock). The model is tied to /repo by lock-step replay of real BaseObserver "
         "runs (scripted emitters, recording handlers with re-entrant calls, deterministic scheduler) on every run; the property "
         "text itself is evaluated on the same runs by an oracle that uses only the observation log.",
    note="Trusted: Coq kernel; CPython/threading/queue.Queue semantics as implemented by the scheduler twins; SkipRepeatsQueue "
         "itself (C16). Interleavings are sampled (random, and exhaustive under 2 pre-emptions in the thorough tier).",
    technique="Coq proof (inductive invariants of an LTS) + lock-step correspondence via extracted OCaml model under a "
              "deterministic scheduler + log-based oracle",
)
TRUSTED = [
    "modelled, not verified: CPython atomicity of set/dict operations, threading.RLock/Event/Thread and queue.Queue (the scheduler "
    "twins implement the documented behaviour); the event queue is FIFO with SkipRepeatsQueue's coalescing allowance (C16 owns it)",
    "granularity: threads are cut at synchronisation primitives (harness/detsched.py yield points); code between two yield points "
    "is atomic in model and harness",
]
ASSUMPTIONS = [
    "'registered at the time it is dispatched' = registered when the dispatcher took the observer lock for the event and still "
    "registered when the handler's turn came (DESIGN.md §6 C04)",
    "a start() that raises un-schedules the watches it could not start (repair F2): the oracle treats it as a possible removal",
]


def judge(prog, s):
    from harness import obsprog as op
    bad = [(law, d, {}) for law, d in op.oracle_c04(prog, s)]
    ev = s.events
    ncb = sum(1 for e in ev if e[1] == "cb")
    key = None
    if ncb >= 1:
        deliv = {}
        for e in ev:
            if e[1] == "cb":
                deliv.setdefault(f"{e[2]}:{e[3]}", []).append(e[4])
        key = sorted(deliv.items())
    return bad, key


def programs(ctx, n, small=False):
    from harness import obsprog as op
    rng = ctx.rng("progs")
    out = [c["prog"] for c in ctx.corpus()]
    # the directed co-handler family first (removal / re-arm of the watch from inside a callback with several handlers on it)
    while len(out) < min(n, 24):
        out.append(op.gen_cohandler_program(rng))
    while len(out) < n:
        p = op.gen_cohandler_program(rng) if rng.random() < 0.25 else op.gen_program(rng, max_calls=2 if small else 4)
        if op.n_starts(p) <= 1:
            out.append(p)
    return out


def run(ctx) -> Result:
    from harness import obsprog as op
    res = Result()
    res.rule = ("random client programs (1-3 watches, 1-3 handlers, <=6 scripted events incl. identical neighbours and near-twins that differ in one field (class, is_directory, dest_path, is_synthetic), <=4 API calls "
                "+ prelude from 1-2 API threads, optional re-entrant calls from callbacks, final stop+join) x random schedules; "
                "distinct = (program, per-(handler,watch) delivered sequences); non-trivial = at least one callback happened")
    for c in ctx.corpus():
        if "choices" in c:
            s = op.run_case(c)
            bad, _ = judge(c["prog"], s)
            res.evaluations += 1
            for law, d, _x in bad[:1]:
                res.failures.append(core.Failure(what=f"C04: {law}: {d}", case=c, signature={"law": law}, observed=d))
    op.campaign(ctx, res, "C04", programs(ctx, 300 if not ctx.thorough else 1200), judge, n_random=3)
    # the same oracle with a scheduling point before every source line of the observer's own methods (see obsprog.line_tracer)
    op.campaign(ctx, res, "C04", [dict(p, line_yield=True) for p in programs(ctx, 60 if not ctx.thorough else 400)], judge,
                n_random=2, do_lockstep=False, tag="line")
    # identical neighbours in the emitter's script, explored exhaustively under <= 2 pre-emptions: the dispatcher's get()
    # at every point of the emitter's put() (the coalescing state of the queue must change atomically with the enqueue)
    twins = [
        dict(nw=1, nh=1, kind="scripted", scripts={"0": [0, 0, 0, 1, 1]}, threads=[[["schedule", 0, 0], ["start"]]], cbs={}),
        dict(nw=2, nh=1, kind="scripted", scripts={"0": [0, 0], "1": [0, 0]},
             threads=[[["schedule", 0, 0], ["schedule", 0, 1], ["start"]]], cbs={}),
    ]
    # near-twins back to back: events that differ in exactly one field (is_synthetic, class, is_directory, dest_path) are
    # different events and must each be delivered, also while the predecessor is still queued
    twins += [
        dict(nw=1, nh=1, kind="scripted", scripts={"0": [1, 0, 0, 1, 2, 3]}, threads=[[["schedule", 0, 0], ["start"]]], cbs={}),
        dict(nw=1, nh=1, kind="scripted", scripts={"0": [4, 6, 5, 4, 7, 6]}, threads=[[["schedule", 0, 0], ["start"]]], cbs={}),
    ]
    op.campaign(ctx, res, "C04", twins, judge, explore_runs=250 if not ctx.thorough else 3000, tag="twins")
    if ctx.thorough:
        op.campaign(ctx, res, "C04", programs(ctx, 25, small=True), judge, explore_runs=400, tag="x")
        res.notes.append("thorough: 25 small programs explored exhaustively under <=2 pre-emptions (capped at 400 schedules each)")
    res.notes.append(op.LOCKSTEP_NOTE)
    res.notes.append(f"start() variant under test: {'locked (repair F12)' if op.start_is_locked() else 'pinned (no lock)'}")
    return res


def replay(ctx, obj) -> int:
    from harness import obsprog as op
    return op.replay_generic(ctx, obj, [judge])
