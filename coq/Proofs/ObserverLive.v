(* C06: deadlock freedom of the observer LTS (wait-for argument) and bounded shutdown. *)
Require Import WD.Base.Prelude WD.Model.Observer WD.Proofs.ObserverProofs WD.Proofs.ObserverInv WD.Proofs.ObserverRet
  WD.Proofs.ObserverDisp.

(* ------------------------------------------------------------------ only existing emitters are referenced *)
Definition emref (i : instr) : option emid :=
  match i with
  | IEmStartS e | IRegEm e | IEmStop e | IEmJoin e | IStartEm e | IFailStart e => Some e
  | _ => None
  end.
Definition ref_ok (n : nat) (i : instr) : bool := match emref i with Some e => Nat.ltb e n | None => true end.
Definition refs_ok (n : nat) (k : list instr) : bool := forallb (ref_ok n) k.

Definition EmRef (s : state) : Prop :=
  (forall t, refs_ok (length (ems s)) (cont s t) = true) /\
  forallb (fun e => Nat.ltb e (length (ems s))) (emitters s) = true /\
  forallb (fun p => Nat.ltb (snd p) (length (ems s))) (efw s) = true.

Lemma ref_ok_mono n n' i : n <= n' -> ref_ok n i = true -> ref_ok n' i = true.
Proof.
  unfold ref_ok. destruct (emref i); auto. intros H E. apply Nat.ltb_lt in E. apply Nat.ltb_lt. clear - H E. lia.
Qed.
Lemma refs_ok_mono n n' k : n <= n' -> refs_ok n k = true -> refs_ok n' k = true.
Proof.
  intros H. unfold refs_ok. induction k as [|i k IH]; simpl; auto. intros E. apply andb_true_iff in E as [E1 E2].
  rewrite (ref_ok_mono n n' i H E1), IH; auto.
Qed.
Lemma refs_ok_app n a b : refs_ok n (a ++ b) = refs_ok n a && refs_ok n b.
Proof. apply forallb_app. Qed.
Lemma refs_ok_unwind n k : refs_ok n k = true -> refs_ok n (unwind k) = true.
Proof.
  unfold refs_ok. induction k as [|i k IH]; simpl; auto. intros E. apply andb_true_iff in E as [E1 E2].
  destruct i; simpl in *; auto.
Qed.

Lemma upd_nth_length {A} (f : A -> A) : forall l n, length (upd_nth n f l) = length l.
Proof. induction l as [|a l IH]; intros [|n]; simpl; auto. Qed.

Lemma ltb_all_mono n n' l : n <= n' -> forallb (fun e => Nat.ltb e n) l = true -> forallb (fun e => Nat.ltb e n') l = true.
Proof.
  intros H. induction l as [|e l IH]; simpl; auto. intros E. apply andb_true_iff in E as [E1 E2].
  rewrite IH by auto. apply Nat.ltb_lt in E1. assert (E3 : Nat.ltb e n' = true) by (apply Nat.ltb_lt; clear - E1 H; lia). rewrite E3. auto.
Qed.
Lemma ltb_efw_mono n n' (l : list (watch * emid)) : n <= n' ->
  forallb (fun p => Nat.ltb (snd p) n) l = true -> forallb (fun p => Nat.ltb (snd p) n') l = true.
Proof.
  intros H. induction l as [|[a e] l IH]; simpl; auto. intros E. apply andb_true_iff in E as [E1 E2].
  rewrite IH by auto. apply Nat.ltb_lt in E1. unfold emid in *. assert (E3 : Nat.ltb e n' = true) by (apply Nat.ltb_lt; clear - E1 H; lia). rewrite E3. auto.
Qed.

Lemma perm_ok_in order l e : perm_ok order l = true -> In e order -> memE e l = true.
Proof.
  unfold perm_ok. intros H Hin. apply andb_true_iff in H as [H _]. apply andb_true_iff in H as [_ H].
  rewrite forallb_forall in H. apply H. auto.
Qed.
Lemma memE_In e l : memE e l = true <-> In e l.
Proof.
  unfold memE. rewrite existsb_exists. split.
  - intros [y [Hy E]]. apply Nat.eqb_eq in E. subst. auto.
  - intros H. exists e. split; auto. apply Nat.eqb_refl.
Qed.
Lemma ltb_all_in n l e : forallb (fun e => Nat.ltb e n) l = true -> In e l -> Nat.ltb e n = true.
Proof. intros H Hin. rewrite forallb_forall in H. apply H. auto. Qed.

Lemma alookup_efw_lt n (m : list (watch * emid)) w e :
  forallb (fun p => Nat.ltb (snd p) n) m = true -> alookup N.eqb w m = Some e -> Nat.ltb e n = true.
Proof.
  induction m as [|[a b] m IH]; simpl; try discriminate. intros H E. apply andb_true_iff in H as [H1 H2].
  destruct (N.eqb w a); [inversion E; subst; auto | auto].
Qed.
Lemma efw_aremove_lt n (m : list (watch * emid)) w :
  forallb (fun p => Nat.ltb (snd p) n) m = true -> forallb (fun p => Nat.ltb (snd p) n) (aremove N.eqb w m) = true.
Proof.
  induction m as [|[a b] m IH]; simpl; auto. intros H. apply andb_true_iff in H as [H1 H2].
  destruct (N.eqb w a); simpl; auto. rewrite H1, IH; auto.
Qed.
Lemma efw_aset_lt n (m : list (watch * emid)) w e : Nat.ltb e n = true ->
  forallb (fun p => Nat.ltb (snd p) n) m = true -> forallb (fun p => Nat.ltb (snd p) n) (aset N.eqb w e m) = true.
Proof.
  intros He. induction m as [|[a b] m IH]; simpl; [rewrite He; auto|]. intros H. apply andb_true_iff in H as [H1 H2].
  destruct (N.eqb w a); simpl; rewrite ?He, ?H1, ?H2, ?IH; auto.
Qed.
Lemma ltb_remE n l e : forallb (fun e => Nat.ltb e n) l = true -> forallb (fun e => Nat.ltb e n) (remE e l) = true.
Proof.
  unfold remE. induction l as [|a l IH]; simpl; auto. intros H. apply andb_true_iff in H as [H1 H2].
  destruct (negb (Nat.eqb e a)); simpl; rewrite ?H1, ?IH; auto.
Qed.

Lemma get_em_lt s e m : get_em s e = Some m -> Nat.ltb e (length (ems s)) = true.
Proof. unfold get_em. intros H. apply Nat.ltb_lt. apply nth_error_Some. congruence. Qed.

Lemma exec_ems_len s t i k inp s' : exec s t i k inp = Some s' -> length (ems s) <= length (ems s').
Proof.
  intros H. destruct i; crush_exec H; rewrite ems_set_cont; cbn; unfold upd_em; cbn;
    rewrite ?upd_nth_length, ?app_length; simpl; lia.
Qed.

Lemma refs_ok_flat n order (f : emid -> list instr) :
  (forall e, In e order -> refs_ok n (f e) = true) -> refs_ok n (flat_map f order) = true.
Proof.
  intros Hf. unfold refs_ok in *. induction order as [|e order IH]; simpl; auto.
  rewrite forallb_app. rewrite Hf by (left; auto). apply IH. intros e' Hin. apply Hf. right; auto.
Qed.
Lemma refs_ok_map n order (f : emid -> instr) :
  (forall e, In e order -> ref_ok n (f e) = true) -> refs_ok n (map f order) = true.
Proof.
  intros Hf. unfold refs_ok in *. induction order as [|e order IH]; simpl; auto.
  rewrite Hf by (left; auto). apply IH. intros e' Hin. apply Hf. right; auto.
Qed.
Lemma order_lt n order l e : perm_ok order l = true -> forallb (fun e => Nat.ltb e n) l = true -> In e order ->
  Nat.ltb e n = true.
Proof. intros Hp Hl Hin. eapply ltb_all_in; eauto. apply memE_In. eapply perm_ok_in; eauto. Qed.

Lemma EmRef_self s t i k inp s' : exec s t i k inp = Some s' ->
  refs_ok (length (ems s)) (i :: k) = true ->
  forallb (fun e => Nat.ltb e (length (ems s))) (emitters s) = true ->
  forallb (fun p => Nat.ltb (snd p) (length (ems s))) (efw s) = true ->
  refs_ok (length (ems s')) (cont s' t) = true /\
  forallb (fun e => Nat.ltb e (length (ems s'))) (emitters s') = true /\
  forallb (fun p => Nat.ltb (snd p) (length (ems s'))) (efw s') = true.
Proof.
  intros H Hr He Hf. pose proof (exec_ems_len _ _ _ _ _ _ H) as Hlen.
  assert (Hk : refs_ok (length (ems s)) k = true) by (simpl in Hr; apply andb_true_iff in Hr; tauto).
  assert (Hi : ref_ok (length (ems s)) i = true) by (simpl in Hr; apply andb_true_iff in Hr; tauto).
  destruct i; crush_exec H; rewrite cont_set_cont_same, ems_set_cont, emitters_set_cont, efw_set_cont in *;
    cbn [ems emitters efw say set_handlers set_watches set_emitters set_efw set_ems set_queue set_lock set_dstarted
         set_dstop set_dexited set_dcur set_dtodo set_dcont set_aconts set_glog upd_em] in *;
    rewrite ?upd_nth_length in *.
  all: try (split; [|split]; auto using refs_ok_unwind; fail).
  - (* ICall *) split; [|split]; auto. rewrite refs_ok_app, Hk, andb_true_r. destruct (fixed s), c; reflexivity.
  - (* ISched, alive *) rewrite app_length in *. simpl length in *. split; [|split].
    + simpl. unfold ref_ok at 1 2. simpl. assert (E : Nat.ltb (length (ems s)) (length (ems s) + 1) = true) by (apply Nat.ltb_lt; lia).
      rewrite E. simpl. eapply refs_ok_mono; [|exact Hk]. lia.
    + eapply ltb_all_mono; [|exact He]. lia.
    + eapply ltb_efw_mono; [|exact Hf]. lia.
  - (* ISched, not alive *) rewrite app_length in *. simpl length in *. split; [|split].
    + simpl. unfold ref_ok at 1. simpl. assert (E : Nat.ltb (length (ems s)) (length (ems s) + 1) = true) by (apply Nat.ltb_lt; lia).
      rewrite E. simpl. eapply refs_ok_mono; [|exact Hk]. lia.
    + eapply ltb_all_mono; [|exact He]. lia.
    + eapply ltb_efw_mono; [|exact Hf]. lia.
  - (* IRegEm, already member *) split; [|split]; auto. apply efw_aset_lt; auto.
  - (* IRegEm *) split; [|split]; auto.
    + rewrite forallb_app. unfold ref_ok in Hi. simpl in Hi. simpl. rewrite Hi. rewrite andb_true_r. exact He.
    + apply efw_aset_lt; auto.
  - (* IUnsched *) assert (El : Nat.ltb e (length (ems s)) = true) by (eapply alookup_efw_lt; eauto).
    split; [|split].
    + simpl. unfold ref_ok. simpl. rewrite El. simpl. exact Hk.
    + apply ltb_remE; auto.
    + apply efw_aremove_lt; auto.
  - split; [|split]; auto using refs_ok_unwind. apply efw_aremove_lt; auto.
  - (* IClear *) split; [|split]; auto.
    assert (Ho : forall e, In e order -> Nat.ltb e (length (ems s)) = true) by (intros e Hin; eapply order_lt; eauto).
    rewrite refs_ok_app. rewrite refs_ok_flat by (intros e Hin; simpl; unfold ref_ok; simpl; rewrite (Ho e Hin); reflexivity).
    simpl. rewrite refs_ok_app. rewrite refs_ok_flat by (intros e Hin; simpl; unfold ref_ok; simpl; rewrite (Ho e Hin); reflexivity).
    simpl. exact Hk.
  - (* IStartCopy *) split; [|split]; auto.
    assert (Ho : forall e, In e order -> Nat.ltb e (length (ems s)) = true) by (intros e Hin; eapply order_lt; eauto).
    rewrite refs_ok_app. rewrite refs_ok_map by (intros e Hin; unfold ref_ok; simpl; apply Ho; auto). simpl. exact Hk.
  - (* IStartEm failure *) unfold ref_ok in Hi. simpl in Hi. split; [|split].
    + simpl. unfold ref_ok. simpl. rewrite Hi. simpl. exact Hk.
    + apply ltb_remE; auto.
    + apply efw_aremove_lt; auto.
  - split; [|split]; auto using refs_ok_unwind. apply efw_aremove_lt; auto.
  - (* callback *) split; [|split]; auto. rewrite refs_ok_app. simpl. rewrite Hk, andb_true_r.
    unfold refs_ok. clear. induction calls; simpl; auto.
Qed.

Lemma EmRef_exec s t i k inp s' : EmRef s -> cont s t = i :: k -> exec s t i k inp = Some s' -> EmRef s'.
Proof.
  intros [HT [He Hf]] Ec H.
  pose proof (HT t) as Ht. rewrite Ec in Ht.
  destruct (EmRef_self _ _ _ _ _ _ H Ht He Hf) as [H1 [H2 H3]].
  pose proof (exec_ems_len _ _ _ _ _ _ H) as Hlen.
  split; [|split; auto]. intros t'. destruct (tid_eq_dec t' t) as [->|Hne]; auto.
  destruct (exec_others _ _ _ _ _ _ H t' Hne) as [E | [_ [_ [_ E]]]]; rewrite E; [|reflexivity].
  eapply refs_ok_mono; eauto.
Qed.

Lemma em_step_ems s l s' : em_label l = true -> step s l = Some s' ->
  length (ems s') = length (ems s) /\ efw s' = efw s.
Proof.
  intros Hl H. destruct l; try discriminate; simpl in H;
    repeat match type of H with context [match ?x with _ => _ end] => destruct x eqn:? end;
    try discriminate; inversion H; subst; clear H; cbn; unfold set_epc, upd_em; cbn; rewrite ?upd_nth_length; auto.
Qed.

Lemma EmRef_reachable s : reachable s -> EmRef s.
Proof.
  apply reach_P.
  - apply EmRef_exec.
  - intros s0 n c [HT [He Hf]] Ec. split; [|split; auto]. intros t'.
    destruct (tid_eq_dec t' (TA n)) as [->|Hne].
    + rewrite cont_set_cont_same. destruct (fixed s0), c; reflexivity.
    + rewrite cont_set_cont_other by congruence. destruct t'; [apply (HT TD) | apply (HT (TA n0))].
  - intros s0 l s' [HT [He Hf]] Hl H.
    destruct (em_step_frame _ _ _ Hl H) as [Ec [_ [_ [_ [_ [_ [_ [Eem _]]]]]]]].
    destruct (em_step_ems _ _ _ Hl H) as [El Eefw].
    split; [|split]; rewrite El, ?Eem, ?Eefw; auto. intros t. rewrite Ec. apply HT.
  - split; [|split]; auto. intros t; destruct t; reflexivity.
Qed.

(* ------------------------------------------------------------------ `for e in self._emitters` never sees the set change *)
Definition is_iter (i : instr) : bool := match i with IIterChk _ => true | _ => false end.
Definition has_iter (k : list instr) : bool := existsb is_iter k.
Definition is_block (i : instr) : bool := match i with IIterChk _ | IEmStop _ | IEmJoin _ => true | _ => false end.
Fixpoint iter_ok (k : list instr) : bool :=
  match k with
  | [] => true
  | i :: k' => if is_block i then iter_ok k' else negb (has_iter k)
  end.
Definition iters_eq (m : nat) (k : list instr) : bool :=
  forallb (fun i => match i with IIterChk n => Nat.eqb n m | _ => true end) k.

Lemma has_iter_app a b : has_iter (a ++ b) = has_iter a || has_iter b.
Proof. apply existsb_app. Qed.
Lemma no_iter_iters_eq m k : has_iter k = false -> iters_eq m k = true.
Proof.
  unfold has_iter, iters_eq. induction k as [|i k IH]; simpl; auto. intros H. apply orb_false_iff in H as [H1 H2].
  rewrite IH by auto. destruct i; simpl in *; try discriminate; auto.
Qed.
Lemma no_iter_iter_ok k : has_iter k = false -> iter_ok k = true.
Proof.
  induction k as [|i k IH]; simpl; auto. intros H. unfold has_iter in H. simpl in H. apply orb_false_iff in H as [H1 H2].
  destruct (is_block i); auto. unfold has_iter. simpl. rewrite H1, H2. reflexivity.
Qed.
Lemma iter_ok_tail i k : iter_ok (i :: k) = true -> iter_ok k = true.
Proof.
  simpl. destruct (is_block i); auto. intros H. apply negb_true_iff in H. unfold has_iter in H. simpl in H.
  apply orb_false_iff in H as [_ H]. apply no_iter_iter_ok. exact H.
Qed.
Lemma iter_ok_nonblock i k : is_block i = false -> iter_ok (i :: k) = true -> has_iter k = false.
Proof.
  simpl. intros Hb H. rewrite Hb in H. apply negb_true_iff in H. unfold has_iter in *. simpl in H.
  apply orb_false_iff in H. tauto.
Qed.
Lemma iter_ok_block_app new k : forallb is_block new = true -> iter_ok (new ++ k) = iter_ok k.
Proof.
  induction new as [|i new IH]; simpl; auto. intros H. apply andb_true_iff in H as [H1 H2]. rewrite H1. auto.
Qed.
Lemma has_iter_unwind_false k : iter_ok k = true -> has_iter (unwind k) = false.
Proof.
  induction k as [|i k IH]; simpl; auto. intros H.
  destruct (is_block i) eqn:Eb.
  - destruct i; simpl in Eb; try discriminate; simpl; auto.
  - apply negb_true_iff in H. unfold has_iter in H. simpl in H. apply orb_false_iff in H as [H1 H2].
    assert (Hu : has_iter (unwind k) = false).
    { clear - H2. induction k as [|j k IH]; simpl in *; auto. apply orb_false_iff in H2 as [Ha Hb].
      destruct j; simpl in *; auto; unfold has_iter; simpl; auto. }
    destruct i; simpl in *; auto; unfold has_iter in *; simpl; auto.
Qed.

Lemma norets_ret_ahead k : norets k = true -> ret_ahead k = false.
Proof.
  induction k as [|i k IH]; simpl; auto. intros H. apply andb_true_iff in H as [H1 H2].
  destruct i; simpl in *; try discriminate; auto.
Qed.
Lemma norets_no_iter k : norets k = true -> raise_ok k = true -> has_iter k = false.
Proof.
  induction k as [|i k IH]; simpl; auto. intros H1 H2. apply andb_true_iff in H1 as [Ha Hb].
  apply andb_true_iff in H2 as [Hc Hd]. unfold has_iter. simpl. fold (has_iter k). rewrite IH by auto.
  destruct i; simpl in *; auto. rewrite (norets_ret_ahead k Hb) in Hc. discriminate.
Qed.

Definition ItB (k : list instr) : Prop := (has_iter k = true -> noacq k = true) /\ iter_ok k = true.

Lemma ItB_no_iter k : has_iter k = false -> ItB k.
Proof. intros H. split; [rewrite H; discriminate | apply no_iter_iter_ok; auto]. Qed.

Lemma existsb_flat_false {A} (P : instr -> bool) (f : A -> list instr) l :
  (forall a, existsb P (f a) = false) -> existsb P (flat_map f l) = false.
Proof. intros H. induction l; simpl; auto. rewrite existsb_app, H, IHl. auto. Qed.
Lemma existsb_map_false {A} (P : instr -> bool) (f : A -> instr) l :
  (forall a, P (f a) = false) -> existsb P (map f l) = false.
Proof. intros H. induction l; simpl; auto. rewrite H, IHl. auto. Qed.

Lemma exec_ItB s t i k inp s' : exec s t i k inp = Some s' -> ItB (i :: k) -> acq_pos (i :: k) = true ->
  ItB (cont s' t).
Proof.
  intros H [Hn Hok] Hap.
  pose proof (iter_ok_tail _ _ Hok) as Hokk.
  destruct (is_block i) eqn:Eb.
  - (* inside an iteration *)
    assert (HBk : ItB k).
    { split; auto. intros Hk. assert (Hik : has_iter (i :: k) = true) by (unfold has_iter in *; simpl; rewrite Hk; apply orb_true_r).
      specialize (Hn Hik). simpl in Hn. apply andb_true_iff in Hn. tauto. }
    destruct i; simpl in Eb; try discriminate; crush_exec H; rewrite cont_set_cont_same; auto;
      apply ItB_no_iter; apply has_iter_unwind_false; auto.
  - pose proof (iter_ok_nonblock _ _ Eb Hok) as Hk.
    destruct i; simpl in Eb; try discriminate; crush_exec H; rewrite cont_set_cont_same;
      try (apply ItB_no_iter; apply has_iter_unwind_false; auto; fail);
      try (apply ItB_no_iter; exact Hk);
      try (apply ItB_no_iter; unfold has_iter in *; simpl; exact Hk).
    all: try (apply ItB_no_iter; rewrite has_iter_app, Hk, orb_false_r; destruct (fixed s), c; reflexivity).
    all: try (apply ItB_no_iter; reflexivity).
    + (* IClear *) split.
      * intros _. simpl in Hap.
        rewrite noacq_app. simpl. rewrite noacq_app. simpl. rewrite Hap, !andb_true_r.
        unfold noacq. rewrite !forallb_flat_gen by (intros; reflexivity). reflexivity.
      * rewrite iter_ok_block_app by fb_solve. simpl. rewrite iter_ok_block_app by fb_solve. simpl.
        unfold has_iter in *. simpl. rewrite Hk. reflexivity.
    + (* IStartCopy *) apply ItB_no_iter. rewrite has_iter_app. unfold has_iter at 1.
      rewrite existsb_map_false by reflexivity. unfold has_iter in *. simpl. exact Hk.
    + (* callback *) apply ItB_no_iter. rewrite has_iter_app. unfold has_iter at 1.
      rewrite existsb_map_false by reflexivity. unfold has_iter in *. simpl. exact Hk.
Qed.

Definition mut_em (i : instr) : bool :=
  match i with IRegEm _ | IUnsched _ | IStartEm _ | IClearEm => true | _ => false end.

Lemma exec_emitters s t i k inp s' : exec s t i k inp = Some s' -> mut_em i = false -> emitters s' = emitters s.
Proof.
  intros H Hm. destruct i; simpl in Hm; try discriminate; crush_exec H; rewrite emitters_set_cont; reflexivity.
Qed.

Lemma iters_eq_app m a b : iters_eq m (a ++ b) = iters_eq m a && iters_eq m b.
Proof. apply forallb_app. Qed.
Lemma iters_eq_unwind m k : iters_eq m k = true -> iters_eq m (unwind k) = true.
Proof.
  unfold iters_eq. induction k as [|i k IH]; simpl; auto. intros H. apply andb_true_iff in H as [H1 H2].
  destruct i; simpl in *; auto.
Qed.

Lemma exec_iters_eq s t i k inp s' : exec s t i k inp = Some s' -> mut_em i = false ->
  iters_eq (length (emitters s)) (i :: k) = true -> iters_eq (length (emitters s)) (cont s' t) = true.
Proof.
  intros H Hm Hi. assert (Hk : iters_eq (length (emitters s)) k = true) by (simpl in Hi; apply andb_true_iff in Hi; tauto).
  destruct i; simpl in Hm; try discriminate; crush_exec H; rewrite cont_set_cont_same;
    try (apply iters_eq_unwind; exact Hk); try exact Hk;
    try (simpl; rewrite ?Hk; reflexivity).
  all: try (rewrite iters_eq_app, Hk, andb_true_r; destruct (fixed s), c; reflexivity).
  - (* IClear *) repeat (rewrite iters_eq_app; simpl). rewrite Hk, Nat.eqb_refl. simpl.
    unfold iters_eq. rewrite !forallb_flat_gen by (intros; simpl; rewrite Nat.eqb_refl; reflexivity). reflexivity.
  - rewrite iters_eq_app. simpl. rewrite Hk, andb_true_r. unfold iters_eq. apply forallb_map_gen. reflexivity.
  - rewrite iters_eq_app. simpl. rewrite Hk, andb_true_r. unfold iters_eq. apply forallb_map_gen. reflexivity.
Qed.

Lemma exec_mut_no_iter s t i k inp s' : exec s t i k inp = Some s' -> mut_em i = true -> ItB (i :: k) ->
  has_iter (cont s' t) = false.
Proof.
  intros H Hm [_ Hok].
  assert (Eb : is_block i = false) by (destruct i; simpl in Hm; try discriminate; reflexivity).
  pose proof (iter_ok_nonblock _ _ Eb Hok) as Hk. pose proof (iter_ok_tail _ _ Hok) as Hokk.
  destruct i; simpl in Hm; try discriminate; crush_exec H; rewrite cont_set_cont_same;
    try (apply has_iter_unwind_false; exact Hokk); try exact Hk;
    unfold has_iter in *; simpl; exact Hk.
Qed.

Lemma wfd_noacq_iter k : forall d, noacq k = true -> has_iter k = true -> wfd d k = true -> d <> 0.
Proof.
  induction k as [|i k IH]; simpl; intros d Hn Hi Hw; try discriminate.
  apply andb_true_iff in Hn as [Hn1 Hn2]. unfold has_iter in Hi. simpl in Hi.
  destruct i; simpl in *; try discriminate;
    try (apply andb_true_iff in Hw as [Hw1 Hw2]);
    try (eapply IH; eauto; fail).
  - destruct d; [discriminate | congruence].
  - destruct d; simpl in *; [discriminate | congruence].
Qed.

Definition ItInv (s : state) : Prop :=
  (forall t, ItB (cont s t)) /\ (forall t, iters_eq (length (emitters s)) (cont s t) = true).

Lemma held_other_zero s t t' n : lock s = Some (t, n) -> t' <> t -> held s t' = 0.
Proof.
  unfold held. intros -> Hne. destruct (tid_eqb t t') eqn:E; auto. apply tid_eqb_eq in E. congruence.
Qed.

Lemma mut_em_needs_lock i : mut_em i = true -> needs_lock i = true.
Proof. destruct i; simpl; auto. Qed.

Lemma ItInv_exec s t i k inp s' : LockInv s -> ItInv s -> cont s t = i :: k -> exec s t i k inp = Some s' -> ItInv s'.
Proof.
  intros HL [HB HE] Ec H. destruct HL as [Hf [HLB _]].
  assert (Hself : ItB (cont s' t)).
  { eapply exec_ItB; eauto. rewrite <- Ec; apply HB. specialize (HLB t). rewrite Ec in HLB. destruct HLB as [_ [E _]]. exact E. }
  assert (Hoth : forall t', t' <> t -> cont s' t' = cont s t' \/ cont s' t' = [DCheck]).
  { intros t' Hne. destruct (exec_others _ _ _ _ _ _ H t' Hne) as [E | [_ [_ [_ E]]]]; auto. }
  split.
  - intros t'. destruct (tid_eq_dec t' t) as [->|Hne]; auto.
    destruct (Hoth t' Hne) as [E|E]; rewrite E; [apply HB | apply ItB_no_iter; reflexivity].
  - destruct (mut_em i) eqn:Hm.
    + (* the emitter set changes: nobody is iterating over it *)
      assert (Hown : exists n, lock s = Some (t, S n)).
      { pose proof (HLB t) as Ht. rewrite Ec in Ht. destruct Ht as [Hw _].
        destruct (held s t) eqn:Eh.
        - exfalso. apply mut_em_needs_lock in Hm. destruct i; simpl in Hm; try discriminate; simpl in Hw; discriminate.
        - destruct (held_pos_owner s t) as [n' [El En]]; [congruence|]. exists n. congruence. }
      destruct Hown as [n Hlock].
      intros t'. apply no_iter_iters_eq. destruct (tid_eq_dec t' t) as [->|Hne].
      * eapply exec_mut_no_iter; eauto. rewrite <- Ec. apply HB.
      * destruct (Hoth t' Hne) as [E|E]; rewrite E; [|reflexivity].
        destruct (has_iter (cont s t')) eqn:Ei; auto. exfalso.
        destruct (HB t') as [Hn _]. specialize (Hn Ei). destruct (HLB t') as [Hw _].
        apply (wfd_noacq_iter _ _ Hn Ei Hw). eapply held_other_zero; eauto.
    + rewrite (exec_emitters _ _ _ _ _ _ H Hm). intros t'. destruct (tid_eq_dec t' t) as [->|Hne].
      * eapply exec_iters_eq; eauto. rewrite <- Ec. apply HE.
      * destruct (Hoth t' Hne) as [E|E]; rewrite E; [apply HE | reflexivity].
Qed.

Lemma ItInv_reachable s : reachable s -> ItInv s.
Proof.
  intros Hs. assert (G : LockInv s /\ ItInv s); [|tauto]. revert s Hs.
  apply (reach_P (fun s => LockInv s /\ ItInv s)).
  - intros s t i k inp s' [HL HI] Ec H. split; [eapply LockInv_exec; eauto | eapply ItInv_exec; eauto].
  - intros s n c [HL [HB HE]] Ec. split; [apply LockInv_call; auto|]. split; intros t'.
    + destruct (tid_eq_dec t' (TA n)) as [->|Hne].
      * rewrite cont_set_cont_same. apply ItB_no_iter. destruct (fixed s), c; reflexivity.
      * rewrite cont_set_cont_other by congruence. destruct t'; [apply (HB TD) | apply (HB (TA n0))].
    + rewrite emitters_set_cont. simpl emitters. destruct (tid_eq_dec t' (TA n)) as [->|Hne].
      * rewrite cont_set_cont_same. apply no_iter_iters_eq. destruct (fixed s), c; reflexivity.
      * rewrite cont_set_cont_other by congruence. destruct t'; [apply (HE TD) | apply (HE (TA n0))].
  - intros s l s' [HL [HB HE]] Hl H. split; [eapply LockInv_em; eauto|].
    destruct (em_step_frame _ _ _ Hl H) as [Ec [_ [_ [_ [_ [_ [_ [Eem _]]]]]]]].
    split; intros t; rewrite Ec, ?Eem; auto.
  - split; [apply LockInv_reachable; exists []; reflexivity|]. split; intros t; destruct t; try reflexivity;
      apply ItB_no_iter; reflexivity.
Qed.

(* `for e in self._emitters` never raises: the set has the size it had when the loop began *)
Lemma iter_check_passes s t n k : reachable s -> cont s t = IIterChk n :: k -> length (emitters s) = n.
Proof.
  intros Hs Ec. destruct (ItInv_reachable s Hs) as [_ HE]. specialize (HE t). rewrite Ec in HE.
  simpl in HE. apply andb_true_iff in HE as [HE _]. apply Nat.eqb_eq in HE. auto.
Qed.

(* ------------------------------------------------------------------ the stop marker is never lost *)
Definition is_marker (i : instr) : bool := match i with IMarker | IMarkerPut => true | _ => false end.
Definition marker_pending (k : list instr) : bool := existsb is_marker k.

Fixpoint marker_before_ret (k : list instr) : bool :=
  match k with
  | [] => false
  | i :: k' => if is_marker i then true else if is_ret i then false else marker_before_ret k'
  end.

Definition allowed (i : instr) : bool :=
  match i with
  | ISetStop | IAcq | IClear | IIterChk _ | IEmStop _ | IEmJoin _ | IClearEm | IRel | IMarker | IMarkerPut
  | IRet _ | IRetX _ => true
  | _ => false
  end.

(* between stop()'s flag set and its marker put only the instructions of unschedule_all occur;
   a flag set is always followed by its marker put *)
Fixpoint mseg (k : list instr) : bool :=
  match k with
  | [] => true
  | i :: k' => (negb (marker_before_ret k') || allowed i)
               && (match i with ISetStop => marker_before_ret k' | _ => true end) && mseg k'
  end.

Definition nomr (i : instr) : bool := negb (is_marker i) && negb (is_ret i).

Lemma mbr_app new k : forallb nomr new = true -> marker_before_ret (new ++ k) = marker_before_ret k.
Proof.
  induction new as [|i new IH]; simpl; auto. intros H. apply andb_true_iff in H as [H1 H2].
  unfold nomr in H1. apply andb_true_iff in H1 as [Ha Hb].
  destruct (is_marker i); try discriminate. destruct (is_ret i); try discriminate. auto.
Qed.

Lemma mseg_tail i k : mseg (i :: k) = true -> mseg k = true.
Proof. simpl. intros H. apply andb_true_iff in H. tauto. Qed.

Lemma mseg_app new k : forallb (fun i => nomr i && allowed i && negb (match i with ISetStop => true | _ => false end)) new = true ->
  mseg k = true -> mseg (new ++ k) = true.
Proof.
  induction new as [|i new IH]; simpl; auto. intros H Hk. apply andb_true_iff in H as [H1 H2].
  apply andb_true_iff in H1 as [H1 H3]. apply andb_true_iff in H1 as [H1 H4].
  rewrite IH by auto. rewrite H4, orb_true_r. simpl. destruct i; simpl in H3; try discriminate; reflexivity.
Qed.

Lemma mseg_app_nomarker new k : forallb (fun i => nomr i && negb (match i with ISetStop => true | _ => false end)) new = true ->
  marker_before_ret k = false -> mseg k = true -> mseg (new ++ k) = true.
Proof.
  induction new as [|i new IH]; simpl; auto. intros H Hm Hk. apply andb_true_iff in H as [H1 H2].
  apply andb_true_iff in H1 as [H1 H3].
  rewrite IH by auto. rewrite mbr_app by (clear - H2; induction new; simpl in *; auto; apply andb_true_iff in H2 as [Ha Hb];
                                          apply andb_true_iff in Ha as [Ha _]; rewrite Ha, IHnew; auto).
  rewrite Hm. simpl. destruct i; simpl in H3; try discriminate; reflexivity.
Qed.

Lemma mseg_unwind k : mseg k = true -> mseg (unwind k) = true.
Proof.
  induction k as [|i k IH]; simpl; auto. intros H. apply andb_true_iff in H as [H1 H2].
  destruct i; simpl in *; auto.
  - (* IRel *) rewrite IH by auto. rewrite !andb_true_r. apply orb_true_r.
  - (* IRet *) rewrite H1, H2. reflexivity.
Qed.

Lemma mp_unwind k : ret_ahead k = true -> marker_before_ret k = false -> marker_pending (unwind k) = marker_pending k.
Proof.
  unfold marker_pending. induction k as [|i k IH]; simpl; auto. intros Hr H.
  destruct i; simpl in *; try discriminate; auto; try (rewrite IH by auto; reflexivity).
Qed.

Lemma exec_mseg s t i k inp s' : exec s t i k inp = Some s' -> mseg (i :: k) = true -> mseg (cont s' t) = true.
Proof.
  intros H Hm. pose proof (mseg_tail _ _ Hm) as Hk.
  simpl in Hm. apply andb_true_iff in Hm as [Hm _]. apply andb_true_iff in Hm as [Hm Hs].
  destruct i; crush_exec H; rewrite cont_set_cont_same;
    try (apply mseg_unwind; exact Hk); try exact Hk;
    simpl in Hm; rewrite ?orb_false_r in Hm; try apply negb_true_iff in Hm.
  all: try (apply (mseg_app_nomarker [_] k); [reflexivity | exact Hm | exact Hk]).
  all: try (apply (mseg_app_nomarker [_; _] k); [reflexivity | exact Hm | exact Hk]).
  all: try (apply (mseg_app_nomarker [_; _; _] k); [reflexivity | exact Hm | exact Hk]).
  all: try (apply (mseg_app_nomarker [_; _; _; _] k); [reflexivity | exact Hm | exact Hk]).
  all: try reflexivity.
  - destruct (fixed s), c; simpl; rewrite ?Hm, ?Hk; reflexivity.
  - apply mseg_app; [fb_solve|]. apply (mseg_app [_]); [reflexivity|]. apply mseg_app; [fb_solve|].
    apply (mseg_app [_; _]); [reflexivity|]. exact Hk.
  - apply mseg_app_nomarker; [fb_solve | simpl; exact Hm | simpl; rewrite Hm, Hk; reflexivity].
  - simpl. rewrite Hk. rewrite orb_true_r. reflexivity.
  - apply mseg_app_nomarker; [fb_solve | simpl; exact Hm | simpl; rewrite Hm, Hk; reflexivity].
Qed.

Lemma exec_dstop s t i k inp s' : exec s t i k inp = Some s' -> dstop s' = dstop s \/ i = ISetStop.
Proof. intros H. destruct i; crush_exec H; rewrite dstop_set_cont; auto. Qed.

Lemma exec_queue s t i k inp s' : exec s t i k inp = Some s' ->
  queue s' = queue s \/ (i = IMarkerPut /\ queue s' = queue s ++ [QStop]) \/ (i = DGet /\ exists x, queue s = x :: queue s').
Proof.
  intros H. destruct i; crush_exec H; rewrite queue_set_cont; cbn; auto.
  - right; right. split; auto. eexists. eauto.
  - right; right. split; auto. eexists. eauto.
Qed.

Definition MsInv (s : state) : Prop := forall t, mseg (cont s t) = true.

Lemma MsInv_reachable s : reachable s -> MsInv s.
Proof.
  apply reach_P.
  - intros s0 t i k inp s' HM Ec H t'. destruct (tid_eq_dec t' t) as [->|Hne].
    + eapply exec_mseg; eauto. rewrite <- Ec. apply HM.
    + destruct (exec_others _ _ _ _ _ _ H t' Hne) as [E | [_ [_ [_ E]]]]; rewrite E; auto.
  - intros s0 n c HM Ec t'. destruct (tid_eq_dec t' (TA n)) as [->|Hne].
    + rewrite cont_set_cont_same. destruct (fixed s0), c; reflexivity.
    + rewrite cont_set_cont_other by congruence. destruct t'; [apply (HM TD) | apply (HM (TA n0))].
  - intros s0 l s' HM Hl H t. destruct (em_step_frame _ _ _ Hl H) as [Ec _]. rewrite Ec. apply HM.
  - intros t; destruct t; reflexivity.
Qed.

Definition MarkerInv (s : state) : Prop :=
  dstop s = true ->
  In QStop (queue s) \/ (exists t, marker_pending (cont s t) = true) \/ after_d (dcont s) <> [DGet].

Lemma mp_app a b : marker_pending (a ++ b) = marker_pending a || marker_pending b.
Proof. apply existsb_app. Qed.

(* thread t keeps a pending marker across one of its own steps, unless it puts it (or finds it queued) *)
Lemma exec_marker_self s t i k inp s' : P3 s -> MsInv s -> ItInv s -> QlastInv s -> cont s t = i :: k -> exec s t i k inp = Some s' ->
  marker_pending (i :: k) = true ->
  marker_pending (cont s' t) = true \/ In QStop (queue s').
Proof.
  intros [HL [[HR HN] HD]] HMs [_ HIt] HQ Ec H Hp.
  pose proof (HMs t) as Hms. rewrite Ec in Hms.
  pose proof (HR t) as Hro. rewrite Ec in Hro.
  destruct HL as [_ [HLB _]]. pose proof (HLB t) as HBt. rewrite Ec in HBt. destruct HBt as [_ [_ Hlast]].
  unfold marker_pending in Hp. simpl in Hp.
  destruct (is_marker i) eqn:Em.
  - destruct i; simpl in Em; try discriminate; simpl in H.
    + (* IMarker *) destruct (qlast_is s QStop) eqn:El; inversion H; subst.
      * right. rewrite queue_set_cont. cbn. unfold qlast_is in El. destruct (qlast s) as [y|] eqn:Ey; try discriminate.
        apply qitem_eqb_eq in El. subst y. apply last_is_in. apply HQ. exact Ey.
      * left. rewrite cont_set_cont_same. reflexivity.
    + (* IMarkerPut *) inversion H; subst. right. rewrite queue_set_cont. cbn. apply in_or_app. right. left; auto.
  - simpl in Hp. left.
    simpl in Hms. apply andb_true_iff in Hms as [Hms _]. apply andb_true_iff in Hms as [Hms _].
    simpl in Hro. apply andb_true_iff in Hro as [Hro _].
    assert (Hmp : forall new, marker_pending (new ++ k) = true) by (intros new; rewrite mp_app; unfold marker_pending; rewrite Hp; apply orb_true_r).
    destruct i; simpl in Em; try discriminate; crush_exec H; rewrite cont_set_cont_same;
      try exact Hp; try (apply (Hmp [_])); try (apply (Hmp [_; _])); try (apply (Hmp [_; _; _])); try (apply (Hmp [_; _; _; _]));
      try apply Hmp;
      try (simpl in Hms, Hro; rewrite mp_unwind; [exact Hp | exact Hro | ]; destruct (marker_before_ret k); simpl in Hms; [discriminate | reflexivity]).
    all: try (assert (k = []) by (eapply last_only_terminal; eauto); subst k; simpl in Hp; discriminate).
    + repeat (rewrite mp_app; simpl). unfold marker_pending. rewrite Hp. rewrite ?orb_true_r. reflexivity.
    + exfalso. specialize (HIt t). rewrite Ec in HIt. simpl in HIt. apply andb_true_iff in HIt as [HIt _]. rewrite Nat.eqb_sym in HIt. congruence.
    + rewrite mp_app. simpl. unfold marker_pending. rewrite Hp. apply orb_true_r.
    + rewrite mp_app. simpl. unfold marker_pending. rewrite Hp. apply orb_true_r.
Qed.

Lemma mbr_mp k : marker_before_ret k = true -> marker_pending k = true.
Proof.
  unfold marker_pending. induction k as [|i k IH]; simpl; try discriminate. intros H.
  destruct (is_marker i); auto. destruct (is_ret i); try discriminate. auto.
Qed.

Lemma MarkerInv_exec s t i k inp s' : P3 s -> MsInv s -> ItInv s -> QlastInv s -> MarkerInv s -> cont s t = i :: k ->
  exec s t i k inp = Some s' -> MarkerInv s'.
Proof.
  intros HP HMs HIt HQ HM Ec H Hstop'.
  destruct HP as [HL [[HR HN] HD]].
  assert (HP3 : P3 s) by (split; [exact HL | split; [split; assumption | exact HD]]).
  destruct (exec_dstop _ _ _ _ _ _ H) as [Eds | Ei].
  2:{ subst i. right; left. exists t. simpl in H. inversion H; subst. rewrite cont_set_cont_same.
      pose proof (HMs t) as Hm. rewrite Ec in Hm. simpl in Hm. apply andb_true_iff in Hm as [Hm _].
      apply andb_true_iff in Hm as [_ Hm]. apply mbr_mp; auto. }
  rewrite Eds in Hstop'. destruct (HM Hstop') as [D1 | [[t1 D2] | D3]].
  - (* a marker is queued *)
    destruct (exec_queue _ _ _ _ _ _ H) as [E | [[_ E] | [Ei [x E]]]].
    + left. rewrite E. auto.
    + left. rewrite E. apply in_or_app. auto.
    + subst i. rewrite E in D1. destruct D1 as [Ex | D1]; [|left; auto].
      subst x. right; right.
      assert (t = TD) by (destruct t; auto; specialize (HN n); rewrite Ec in HN; discriminate).
      subst t. simpl in H. rewrite E in H. inversion H; subst. simpl. discriminate.
  - (* a marker put is pending *)
    destruct (tid_eq_dec t1 t) as [->|Hne].
    + rewrite Ec in D2. destruct (exec_marker_self _ _ _ _ _ _ HP3 HMs HIt HQ Ec H D2) as [E|E]; [right; left; eauto | left; auto].
    + right; left. exists t1. destruct (exec_others _ _ _ _ _ _ H t1 Hne) as [E | [_ [Et [Hds _]]]].
      * rewrite E. auto.
      * exfalso. subst t1. destruct HL as [_ [_ [HDI _]]]. simpl in D2. rewrite (HDI Hds) in D2. discriminate.
  - (* the dispatcher is not waiting in get *)
    right; right. destruct (tid_eq_dec t TD) as [->|Hne].
    + simpl in Ec. destruct (is_d i) eqn:Hd.
      * assert (Ea : after_d (dcont s) = i :: k) by (rewrite Ec; simpl; rewrite Hd; reflexivity).
        destruct HL as [_ [HLB _]]. pose proof (HLB TD) as HB. simpl in HB. rewrite Ec in HB. destruct HB as [_ [_ Hlast]].
        unfold DlInv in HD. rewrite Ea in HD.
        destruct i; simpl in Hd; try discriminate; simpl in H.
        -- (* DCheck *) rewrite Hstop' in H. inversion H; subst. simpl. discriminate.
        -- (* DExitI *) inversion H; subst. simpl. discriminate.
        -- (* DGet *) exfalso. apply D3. rewrite Ea. f_equal. eapply last_only_terminal; eauto.
        -- (* DSnap *) destruct HD as [[Hi _] | [[E _] | [[E _] | [E _]]]];
             [destruct Hi as [Hi|[Hi|[Hi|Hi]]]; discriminate | | discriminate | discriminate].
           inversion E; subst. destruct (dcur s) as [[e w]|]; try discriminate. inversion H; subst. simpl. discriminate.
        -- (* DTurns *) destruct HD as [[Hi _] | [[E _] | [[E _] | [E _]]]];
             [destruct Hi as [Hi|[Hi|[Hi|Hi]]]; discriminate | discriminate | | discriminate].
           inversion E; subst. destruct (dtodo s); destruct (dcur s) as [[e w]|]; try discriminate;
             try (inversion H; subst; simpl; discriminate).
           destruct inp as [| |hh calls]; try discriminate. destruct (memN hh (h :: l)); try discriminate.
           destruct (memN hh (hset w (hauto w (handlers s)))); inversion H; subst; simpl;
             rewrite ?after_d_app by fb_solve; simpl; discriminate.
        -- (* DTaskDone *) destruct HD as [[Hi _] | [[E _] | [[E _] | [E _]]]];
             [destruct Hi as [Hi|[Hi|[Hi|Hi]]]; discriminate | discriminate | discriminate | ].
           inversion E; subst. inversion H; subst. simpl. discriminate.
      * assert (Hro : raise_ok (i :: k) = true) by (rewrite <- Ec; apply (HR TD)).
        destruct (exec_nond _ _ _ _ _ _ Hd H Hro) as [_ [_ [_ Ea]]]. simpl in Ea. rewrite Ea.
        rewrite Ec in D3. simpl in D3. rewrite Hd in D3. exact D3.
    + destruct (exec_others _ _ _ _ _ _ H TD (not_eq_sym Hne)) as [E | [_ [_ [_ E]]]]; simpl in E; rewrite E; auto.
      simpl. discriminate.
Qed.

Definition P5 (s : state) : Prop := P3 s /\ MsInv s /\ ItInv s /\ MarkerInv s /\ QlastInv s.

Lemma em_step_queue s l s' : em_label l = true -> step s l = Some s' ->
  queue s' = queue s \/ exists x, queue s' = queue s ++ [x].
Proof.
  intros Hl H. destruct l; try discriminate; simpl in H;
    repeat match type of H with context [match ?x with _ => _ end] => destruct x eqn:? end;
    try discriminate; inversion H; subst; clear H; cbn; eauto.
Qed.

Lemma P5_reachable s : reachable s -> P5 s.
Proof.
  apply reach_P.
  - intros s0 t i k inp s' [H3 [HMs [HIt [HM HQ]]]] Ec H.
    split; [eapply P3_exec; eauto|]. split; [|split; [|split]].
    + intros t'. destruct (tid_eq_dec t' t) as [->|Hne].
      * eapply exec_mseg; eauto. rewrite <- Ec. apply HMs.
      * destruct (exec_others _ _ _ _ _ _ H t' Hne) as [E | [_ [_ [_ E]]]]; rewrite E; auto.
    + destruct H3 as [HL _]. eapply ItInv_exec; eauto.
    + eapply MarkerInv_exec; eauto.
    + eapply QlastInv_exec; eauto.
  - intros s0 n c [H3 [HMs [[HB HE] [HM HQ]]]] Ec.
    split; [apply P3_call; auto|]. split; [|split; [|split]].
    + intros t'. destruct (tid_eq_dec t' (TA n)) as [->|Hne].
      * rewrite cont_set_cont_same. destruct (fixed s0), c; reflexivity.
      * rewrite cont_set_cont_other by congruence. destruct t'; [apply (HMs TD) | apply (HMs (TA n0))].
    + split; intros t'.
      * destruct (tid_eq_dec t' (TA n)) as [->|Hne].
        -- rewrite cont_set_cont_same. apply ItB_no_iter. destruct (fixed s0), c; reflexivity.
        -- rewrite cont_set_cont_other by congruence. destruct t'; [apply (HB TD) | apply (HB (TA n0))].
      * rewrite emitters_set_cont. simpl emitters. destruct (tid_eq_dec t' (TA n)) as [->|Hne].
        -- rewrite cont_set_cont_same. apply no_iter_iters_eq. destruct (fixed s0), c; reflexivity.
        -- rewrite cont_set_cont_other by congruence. destruct t'; [apply (HE TD) | apply (HE (TA n0))].
    + intros Hst. rewrite dstop_set_cont in Hst. simpl in Hst. destruct (HM Hst) as [D1 | [[t1 D2] | D3]].
      * left. rewrite queue_set_cont. exact D1.
      * right; left. exists t1. destruct (tid_eq_dec t1 (TA n)) as [->|Hne].
        -- rewrite Ec in D2. discriminate.
        -- rewrite cont_set_cont_other by congruence. destruct t1; exact D2.
      * right; right. exact D3.
    + exact HQ.
  - intros s0 l s' [H3 [HMs [[HB HE] [HM HQ]]]] Hl H.
    destruct (em_step_frame _ _ _ Hl H) as [Ec [_ [_ [_ [_ [Eds [_ [Eem _]]]]]]]].
    split; [eapply P3_em; eauto|]. split; [|split; [|split]].
    + intros t. rewrite Ec. apply HMs.
    + split; intros t; rewrite Ec, ?Eem; auto.
    + intros Hst. rewrite Eds in Hst. destruct (HM Hst) as [D1 | [[t1 D2] | D3]].
      * left. destruct (em_step_queue _ _ _ Hl H) as [E | [x E]]; rewrite E; auto. apply in_or_app. auto.
      * right; left. exists t1. rewrite Ec. exact D2.
      * right; right. specialize (Ec TD). simpl in Ec. rewrite Ec. exact D3.
    + eapply QlastInv_em; eauto.
  - split; [apply P3_init|]. split; [intros t; destruct t; reflexivity|]. split; [|split].
    + split; intros t; destruct t; try reflexivity; apply ItB_no_iter; reflexivity.
    + intros Hst. discriminate.
    + intros x E. discriminate.
Qed.

(* ------------------------------------------------------------------ observer.join() of an application thread *)
Definition is_join (i : instr) : bool := match i with IJoinDisp => true | _ => false end.
Definition has_join (k : list instr) : bool := existsb is_join k.

Lemma has_join_unwind k : has_join k = false -> has_join (unwind k) = false.
Proof.
  unfold has_join. induction k as [|i k IH]; simpl; auto. intros H. apply orb_false_iff in H as [H1 H2].
  destruct i; simpl in *; auto.
Qed.

Lemma exec_no_join s t i k inp s' : exec s t i k inp = Some s' -> barrier i = false ->
  has_join (i :: k) = false -> has_join (cont s' t) = false.
Proof.
  intros H Hb Hj. unfold has_join in Hj. simpl in Hj. apply orb_false_iff in Hj as [Hi Hk].
  destruct i; simpl in Hb, Hi; try discriminate; crush_exec H; rewrite cont_set_cont_same;
    try (apply has_join_unwind; exact Hk); try exact Hk;
    unfold has_join in *; simpl; rewrite ?existsb_app; simpl; rewrite ?Hk; auto.
  - rewrite existsb_flat_false by reflexivity. simpl. rewrite existsb_app. rewrite existsb_flat_false by reflexivity.
    simpl. exact Hk.
  - rewrite existsb_map_false by reflexivity. reflexivity.
Qed.

Definition JInv (s : state) : Prop :=
  forall n, has_join (cont s (TA n)) = true -> cont s (TA n) = [IJoinDisp; IRet CJoin].

Lemma JInv_reachable s : reachable s -> JInv s.
Proof.
  intros Hs. assert (G : SegInv s /\ JInv s); [|tauto]. revert s Hs.
  apply (reach_P (fun s => SegInv s /\ JInv s)).
  - intros s t i k inp s' [[HR HN] HJ] Ec H.
    assert (HS' : SegInv s').
    { split.
      + intros t'. destruct (tid_eq_dec t' t) as [->|Hne].
        * eapply exec_raise_ok; eauto. rewrite <- Ec. apply HR.
        * destruct (exec_others _ _ _ _ _ _ H t' Hne) as [E | [_ [_ [_ E]]]]; rewrite E; auto.
      + intros n. destruct (tid_eq_dec (TA n) t) as [<-|Hne].
        * eapply exec_nobarrier; eauto. rewrite <- Ec. apply HN.
        * destruct (exec_others _ _ _ _ _ _ H (TA n) Hne) as [E | [_ [Ht _]]]; [rewrite E; auto | discriminate]. }
    split; auto. intros n Hj. destruct (tid_eq_dec (TA n) t) as [<-|Hne].
    + specialize (HN n). rewrite Ec in HN. simpl in HN. apply andb_true_iff in HN as [Hb _]. apply negb_true_iff in Hb.
      destruct (has_join (i :: k)) eqn:Ej.
      * rewrite <- Ec in Ej. specialize (HJ n Ej). rewrite Ec in HJ. inversion HJ; subst. exfalso.
        crush_exec H; unfold cont in Hj; simpl in Hj; rewrite alookup_aset_same in Hj; discriminate.
      * rewrite (exec_no_join _ _ _ _ _ _ H Hb Ej) in Hj. discriminate.
    + destruct (exec_others _ _ _ _ _ _ H (TA n) Hne) as [E | [_ [Ht _]]]; [|discriminate].
      rewrite E in *. apply HJ; auto.
  - intros s n c [[HR HN] HJ] Ec. split.
    + split.
      * intros t'. destruct (tid_eq_dec t' (TA n)) as [->|Hne].
        -- rewrite cont_set_cont_same. destruct (fixed s), c; reflexivity.
        -- rewrite cont_set_cont_other by congruence. destruct t'; [apply (HR TD) | apply (HR (TA n0))].
      * intros n'. destruct (tid_eq_dec (TA n') (TA n)) as [E|Hne].
        -- rewrite E. rewrite cont_set_cont_same. destruct (fixed s), c; reflexivity.
        -- rewrite cont_set_cont_other by congruence. apply (HN n').
    + intros n' Hj. destruct (tid_eq_dec (TA n') (TA n)) as [E|Hne].
      * rewrite E in *. rewrite cont_set_cont_same in *. destruct (fixed s), c; simpl in Hj; try discriminate; reflexivity.
      * rewrite cont_set_cont_other in * by congruence. apply (HJ n'). exact Hj.
  - intros s l s' [[HR HN] HJ] Hl H. destruct (em_step_frame _ _ _ Hl H) as [Ec _]. split.
    + split; intros; rewrite Ec; auto.
    + intros n. rewrite Ec. apply HJ.
  - split; [split; [intros t; destruct t; reflexivity | intros n; reflexivity]|]. intros n Hj. discriminate.
Qed.

(* ------------------------------------------------------------------ a started, not exited dispatcher has something to do *)
Lemma exec_dexited s t i k inp s' : exec s t i k inp = Some s' -> dexited s' = dexited s \/ (i = DExitI /\ dexited s' = true).
Proof. intros H. destruct i; crush_exec H; rewrite dexited_set_cont; auto. Qed.

Definition DA (s : state) : Prop := dstarted s = true -> dexited s = false -> after_d (dcont s) <> [].

Lemma DA_exec s t i k inp s' : P3 s -> DA s -> cont s t = i :: k -> exec s t i k inp = Some s' -> DA s'.
Proof.
  intros [HL [[HR HN] HD]] HA Ec H Hst' Hex'.
  destruct (exec_misc _ _ _ _ _ _ H) as [_ [Eds _]].
  destruct (tid_eq_dec t TD) as [->|Hne].
  - simpl in Ec.
    assert (Hst : dstarted s = true).
    { destruct HL as [_ [_ [HDI _]]]. destruct (dstarted s) eqn:E; auto. rewrite (HDI eq_refl) in Ec. discriminate. }
    destruct (is_d i) eqn:Hd.
    + assert (Ea : after_d (dcont s) = i :: k) by (rewrite Ec; simpl; rewrite Hd; reflexivity).
      unfold DlInv in HD. rewrite Ea in HD.
      destruct i; simpl in Hd; try discriminate; simpl in H.
      * destruct (dstop s); inversion H; subst; simpl; discriminate.
      * inversion H; subst. simpl in Hex'. discriminate.
      * destruct (queue s) as [|[e w|] q]; try discriminate; inversion H; subst; simpl; discriminate.
      * destruct HD as [[Hi _] | [[E _] | [[E _] | [E _]]]];
          [destruct Hi as [Hi|[Hi|[Hi|Hi]]]; discriminate | | discriminate | discriminate].
        inversion E; subst. destruct (dcur s) as [[e w]|]; try discriminate. inversion H; subst. simpl. discriminate.
      * destruct HD as [[Hi _] | [[E _] | [[E _] | [E _]]]];
          [destruct Hi as [Hi|[Hi|[Hi|Hi]]]; discriminate | discriminate | | discriminate].
        inversion E; subst. destruct (dtodo s); destruct (dcur s) as [[e w]|]; try discriminate;
          try (inversion H; subst; simpl; discriminate).
        destruct inp as [| |hh calls]; try discriminate. destruct (memN hh (h :: l)); try discriminate.
        destruct (memN hh (hset w (hauto w (handlers s)))); inversion H; subst; simpl;
          rewrite ?after_d_app by fb_solve; simpl; discriminate.
      * destruct HD as [[Hi _] | [[E _] | [[E _] | [E _]]]];
          [destruct Hi as [Hi|[Hi|[Hi|Hi]]]; discriminate | discriminate | discriminate | ].
        inversion E; subst. inversion H; subst. simpl. discriminate.
    + assert (Hro : raise_ok (i :: k) = true) by (rewrite <- Ec; apply (HR TD)).
      destruct (exec_nond _ _ _ _ _ _ Hd H Hro) as [_ [_ [_ Ea]]]. simpl in Ea. rewrite Ea.
      destruct (exec_dexited _ _ _ _ _ _ H) as [Ex | [Ei _]]; [|subst i; discriminate].
      rewrite Ex in Hex'. specialize (HA Hst Hex'). rewrite Ec in HA. simpl in HA. rewrite Hd in HA. exact HA.
  - destruct (exec_others _ _ _ _ _ _ H TD (not_eq_sym Hne)) as [E | [_ [_ [_ E]]]]; simpl in E; rewrite E; [|simpl; discriminate].
    destruct (exec_dexited _ _ _ _ _ _ H) as [Ex | [Ei _]].
    + rewrite Ex in Hex'. destruct Eds as [Es | [Ei Es]].
      * rewrite Es in Hst'. auto.
      * (* IStartDisp by another thread: handled above via exec_others, here the continuation is unchanged only if it raised *)
        subst i. simpl in H. destruct (dstarted s) eqn:Est; [auto|].
        exfalso. inversion H; subst. destruct t; [congruence|]. simpl in E.
        destruct HL as [_ [_ [HDI _]]]. rewrite (HDI Est) in E. discriminate.
    + exfalso. subst i. destruct t; [congruence|]. specialize (HN n). rewrite Ec in HN. discriminate.
Qed.

Lemma DA_reachable s : reachable s -> DA s.
Proof.
  intros Hs. assert (G : P3 s /\ DA s); [|tauto]. revert s Hs.
  apply (reach_P (fun s => P3 s /\ DA s)).
  - intros s t i k inp s' [H3 HA] Ec H. split; [eapply P3_exec; eauto | eapply DA_exec; eauto].
  - intros s n c [H3 HA] Ec. split; [apply P3_call; auto|]. exact HA.
  - intros s l s' [H3 HA] Hl H. split; [eapply P3_em; eauto|].
    destruct (em_step_frame _ _ _ Hl H) as [Ec [_ [Eds [_ [Eex _]]]]].
    intros H1 H2. rewrite Eds in H1. rewrite Eex in H2. specialize (Ec TD). simpl in Ec. rewrite Ec. apply HA; auto.
  - split; [apply P3_init|]. intros H; discriminate.
Qed.

(* ------------------------------------------------------------------ C06 (i): no reachable state is deadlocked *)
Lemma em_started_not_exited_running m : em_started m = true -> em_exited m = false -> em_running m = true.
Proof. unfold em_started, em_exited, em_running. destruct (epcs m); auto; discriminate. Qed.

Lemma existsb_nth {A} (P : A -> bool) l n x : nth_error l n = Some x -> P x = true -> existsb P l = true.
Proof. intros H Hp. apply existsb_exists. exists x. split; auto. eapply nth_error_In; eauto. Qed.

Lemma api_in_tids s n : cont s (TA n) <> [] -> In (TA n) (all_tids s).
Proof.
  unfold cont, all_tids, api_tids. intros H. right.
  destruct (alookup N.eqb n (aconts s)) as [k|] eqn:E; [|congruence].
  clear H. induction (aconts s) as [|[a b] m IH]; simpl in *; try discriminate.
  destruct (N.eqb n a) eqn:En; [apply N.eqb_eq in En; subst; left; reflexivity | right; auto].
Qed.

Lemma tid_in_tids s t : cont s t <> [] -> In t (all_tids s).
Proof. destruct t; [intros _; left; reflexivity | apply api_in_tids]. Qed.

Lemma not_enabled_all s t : existsb (thread_enabled s) (all_tids s) = false -> In t (all_tids s) -> thread_enabled s t = false.
Proof.
  intros H Hin. destruct (thread_enabled s t) eqn:E; auto.
  assert (existsb (thread_enabled s) (all_tids s) = true) by (apply existsb_exists; exists t; auto). congruence.
Qed.

Lemma head_blocked s t : thread_enabled s t = false -> cont s t <> [] ->
  (exists k o n, cont s t = IAcq :: k /\ lock s = Some (o, n) /\ tid_eqb o t = false) \/
  (exists e k, cont s t = IEmJoin e :: k /\
               (get_em s e = None \/ exists m, get_em s e = Some m /\ em_started m = true /\ em_exited m = false)) \/
  (exists k, cont s t = IJoinDisp :: k /\ dstarted s = true /\ tid_eqb t TD = false /\ dexited s = false) \/
  (exists k, cont s t = DGet :: k /\ queue s = []).
Proof.
  unfold thread_enabled. intros H Hne. destruct (cont s t) as [|i k] eqn:Ec; [congruence|].
  destruct i; try discriminate.
  - left. destruct (lock s) as [[o n]|]; try discriminate. eauto 10.
  - right; left. exists e, k. split; auto. destruct (get_em s e) as [m|]; auto. right. exists m.
    apply orb_false_iff in H as [H1 H2]. apply negb_false_iff in H1. auto.
  - right; right; left. exists k. apply orb_false_iff in H as [H1 H2]. apply orb_false_iff in H1 as [H0 H1].
    apply negb_false_iff in H0. auto.
  - right; right; right. exists k. destruct (queue s); try discriminate. auto.
Qed.

Theorem no_deadlock s : reachable s -> deadlocked s = false.
Proof.
  intros Hs.
  destruct (P5_reachable s Hs) as [[HL [[HR HN] HD]] [_ [_ [HM _]]]].
  pose proof (EmRef_reachable s Hs) as [HRef _].
  pose proof (JInv_reachable s Hs) as HJ.
  pose proof (DA_reachable s Hs) as HA.
  destruct HL as [_ [HLB [HDI HLP]]].
  unfold deadlocked. destruct (any_enabled s) eqn:Ea; auto. simpl.
  unfold any_enabled in Ea. apply orb_false_iff in Ea as [Hen Hem].
  (* nobody waits in emitter.join() *)
  assert (K2 : forall t e k, In t (all_tids s) -> cont s t = IEmJoin e :: k -> False).
  { intros t e k Hin Ec. pose proof (not_enabled_all s t Hen Hin) as Hne.
    unfold thread_enabled in Hne. rewrite Ec in Hne.
    destruct (get_em s e) as [m|] eqn:Eg.
    - apply orb_false_iff in Hne as [H1 H2]. apply negb_false_iff in H1.
      assert (existsb em_running (ems s) = true).
      { eapply existsb_nth; eauto. apply em_started_not_exited_running; auto. }
      congruence.
    - specialize (HRef t). rewrite Ec in HRef. simpl in HRef. apply andb_true_iff in HRef as [Hr _].
      unfold ref_ok in Hr. simpl in Hr. apply Nat.ltb_lt in Hr. unfold get_em in Eg. apply nth_error_None in Eg. lia. }
  (* nobody waits for the observer lock *)
  assert (K1 : forall t k, In t (all_tids s) -> cont s t = IAcq :: k -> False).
  { intros t k Hin Ec. pose proof (not_enabled_all s t Hen Hin) as Hne.
    unfold thread_enabled in Hne. rewrite Ec in Hne.
    destruct (lock s) as [[o n]|] eqn:El; try discriminate.
    assert (Hh : held s o = n) by (unfold held; rewrite El, tid_eqb_refl; reflexivity).
    destruct n as [|n]; [unfold lock_pos in HLP; rewrite El in HLP; discriminate|].
    pose proof (HLB o) as HBo. rewrite Hh in HBo.
    assert (Hco : cont s o <> []) by (intros E; rewrite E in HBo; destruct HBo as [Hw _]; discriminate).
    pose proof (tid_in_tids s o Hco) as Hino.
    pose proof (not_enabled_all s o Hen Hino) as Hneo.
    destruct (head_blocked s o Hneo Hco) as [[k' [o' [n' [E1 [E2 E3]]]]] | [[e [k' [E1 _]]] | [[k' [E1 [E2 [E3 E4]]]] | [k' [E1 E2]]]]].
    - rewrite El in E2. inversion E2; subst. rewrite tid_eqb_refl in E3. discriminate.
    - eapply K2; eauto.
    - destruct o; [simpl in E3; discriminate|].
      assert (Hj : has_join (cont s (TA n0)) = true) by (rewrite E1; reflexivity).
      rewrite (HJ n0 Hj) in HBo. destruct HBo as [Hw _]. discriminate.
    - destruct HBo as [Hw [_ Hl]]. rewrite E1 in Hw, Hl.
      assert (k' = []) by (eapply last_only_terminal; eauto). subst. discriminate. }
  destruct (existsb (thread_stuck s) (all_tids s)) eqn:Est; auto. exfalso.
  apply existsb_exists in Est as [t [Hin Hst]].
  unfold thread_stuck in Hst. apply andb_true_iff in Hst as [Hne Hst]. apply negb_true_iff in Hne.
  destruct (cont s t) as [|i k] eqn:Ec; try discriminate.
  destruct i; try discriminate.
  - eapply K1; eauto.
  - eapply K2; eauto.
  - (* observer.join() although stop() was called *)
    unfold thread_enabled in Hne. rewrite Ec in Hne.
    apply orb_false_iff in Hne as [H1 Hex]. apply orb_false_iff in H1 as [Hds Htd]. apply negb_false_iff in Hds.
    pose proof (HA Hds Hex) as Had.
    assert (Hcd : cont s TD <> []) by (simpl; intros E; rewrite E in Had; apply Had; reflexivity).
    assert (HinD : In TD (all_tids s)) by (left; reflexivity).
    pose proof (not_enabled_all s TD Hen HinD) as HneD.
    destruct (head_blocked s TD HneD Hcd) as [[k' [o' [n' [E1 _]]]] | [[e [k' [E1 _]]] | [[k' [E1 [_ [E3 _]]]] | [k' [E1 E2]]]]].
    + eapply K1; eauto.
    + eapply K2; eauto.
    + simpl in E3. discriminate.
    + simpl in E1. pose proof (HLB TD) as HBD. simpl in HBD. rewrite E1 in HBD. destruct HBD as [_ [_ Hl]].
      assert (k' = []) by (eapply last_only_terminal; eauto). subst k'.
      destruct (HM Hst) as [D1 | [[t1 D2] | D3]].
      * rewrite E2 in D1. destruct D1.
      * assert (Hc1 : cont s t1 <> []) by (intros E; rewrite E in D2; discriminate).
        pose proof (tid_in_tids s t1 Hc1) as Hin1.
        pose proof (not_enabled_all s t1 Hen Hin1) as Hne1.
        destruct (head_blocked s t1 Hne1 Hc1) as [[k1 [o' [n' [F1' _]]]] | [[e [k1 [F1' _]]] | [[k1 [F1' [_ [F3' _]]]] | [k1 [F1' _]]]]].
        -- eapply K1; eauto.
        -- eapply K2; eauto.
        -- destruct t1; [simpl in F3'; discriminate|].
           assert (Hj : has_join (cont s (TA n)) = true) by (rewrite F1'; reflexivity).
           rewrite (HJ n Hj) in D2. discriminate.
        -- pose proof (HLB t1) as HB1. rewrite F1' in HB1. destruct HB1 as [_ [_ Hl1]].
           assert (k1 = []) by (eapply last_only_terminal; eauto). subst k1. rewrite F1' in D2. discriminate.
      * apply D3. rewrite E1. reflexivity.
Qed.

(* ------------------------------------------------------------------ thread_enabled is sound: an enabled thread can step *)
Definition NoDupEm (s : state) : Prop := nodupE (emitters s) = true.

Lemma memE_remE x y l : memE x (remE y l) = negb (Nat.eqb y x) && memE x l.
Proof.
  unfold remE, memE. induction l as [|a l IH]; simpl; [rewrite andb_false_r; auto|].
  destruct (Nat.eqb y a) eqn:Eya; simpl.
  - rewrite IH. apply Nat.eqb_eq in Eya. subst a. destruct (Nat.eqb y x) eqn:Eyx; simpl; auto.
    rewrite Nat.eqb_sym, Eyx. reflexivity.
  - rewrite IH. destruct (Nat.eqb x a) eqn:Exa; simpl; auto. apply Nat.eqb_eq in Exa. subst a. rewrite Eya. reflexivity.
Qed.
Lemma nodupE_remE y l : nodupE l = true -> nodupE (remE y l) = true.
Proof.
  induction l as [|a l IH]; simpl; auto. intros H. apply andb_true_iff in H as [H1 H2].
  unfold remE in *. simpl. destruct (Nat.eqb y a) eqn:E; simpl; auto.
  fold (remE y l). rewrite memE_remE. apply negb_true_iff in H1. rewrite H1, andb_false_r. simpl. apply IH; auto.
Qed.
Lemma memE_app x a b : memE x (a ++ b) = memE x a || memE x b.
Proof. unfold memE. apply existsb_app. Qed.
Lemma nodupE_app_one l e : nodupE l = true -> memE e l = false -> nodupE (l ++ [e]) = true.
Proof.
  induction l as [|a l IH]; simpl; auto. intros H Hm. apply andb_true_iff in H as [H1 H2].
  apply orb_false_iff in Hm as [Hm1 Hm2]. rewrite IH by auto. rewrite andb_true_r.
  rewrite memE_app. apply negb_true_iff in H1. rewrite H1. simpl. rewrite Nat.eqb_sym, Hm1. reflexivity.
Qed.

Lemma NoDupEm_reachable s : reachable s -> NoDupEm s.
Proof.
  apply reach_P.
  - intros s0 t i k inp s' Hn Ec H. unfold NoDupEm in *.
    destruct i; crush_exec H; rewrite emitters_set_cont; cbn; auto using nodupE_remE.
    apply nodupE_app_one; auto.
  - intros s0 n c Hn Ec. exact Hn.
  - intros s0 l s' Hn Hl H. destruct (em_step_frame _ _ _ Hl H) as [_ [_ [_ [_ [_ [_ [_ [Eem _]]]]]]]].
    unfold NoDupEm. rewrite Eem. exact Hn.
  - reflexivity.
Qed.

Lemma perm_ok_refl l : nodupE l = true -> perm_ok l l = true.
Proof.
  intros H. unfold perm_ok. rewrite Nat.eqb_refl, H, andb_true_r. simpl.
  apply forallb_forall. intros x Hx. apply memE_In. auto.
Qed.

Lemma get_em_some s e : Nat.ltb e (length (ems s)) = true -> exists m, get_em s e = Some m.
Proof.
  intros H. apply Nat.ltb_lt in H. unfold get_em. destruct (nth_error (ems s) e) eqn:E; eauto.
  apply nth_error_None in E. lia.
Qed.

Theorem enabled_sound s t : reachable s -> thread_enabled s t = true -> exists l s', step s l = Some s'.
Proof.
  intros Hs Hen.
  destruct (P3_reachable s Hs) as [[_ [HLB _]] [_ HD]].
  pose proof (EmRef_reachable s Hs) as [HRef _].
  pose proof (NoDupEm_reachable s Hs) as Hnd.
  unfold thread_enabled in Hen. destruct (cont s t) as [|i k] eqn:Ec; try discriminate.
  assert (Hstep : forall inp s1, (forall h calls, inp = InTurn h calls -> t = TD) -> exec s t i k inp = Some s1 ->
            exists l s', step s l = Some s').
  { intros inp s1 Ht E. destruct inp as [|order|h calls].
    - exists (LStep t). unfold step, step_thread. rewrite Ec, E. eauto.
    - exists (LOrd t order). unfold step, step_thread. rewrite Ec, E. eauto.
    - rewrite (Ht h calls eq_refl) in *. exists (LTurn h calls). unfold step, step_thread. rewrite Ec, E. eauto. }
  pose proof (HLB t) as HBt. rewrite Ec in HBt. destruct HBt as [Hw _].
  pose proof (HRef t) as Hr. rewrite Ec in Hr. simpl in Hr. apply andb_true_iff in Hr as [Hr _]. unfold ref_ok in Hr.
  destruct i; simpl in Hr;
    try (destruct (get_em_some s e Hr) as [m Em]).
  all: try (match goal with Ec' : cont ?s0 ?t0 = ?i :: ?k0 |- _ => destruct (exec s0 t0 i k0 NoIn) as [s1|] eqn:E end;
            [eapply (Hstep NoIn); eauto; intros; discriminate |];
            exfalso; simpl in E; rewrite ?Em in E;
            repeat (match type of E with context [match ?x with _ => _ end] => destruct x eqn:? end);
            try discriminate; fail).
  - (* IRel *) destruct (held s t) eqn:Eh; [simpl in Hw; discriminate|].
    destruct (held_pos_owner s t) as [n' [El En]]; [congruence|].
    eapply (Hstep NoIn); [intros; discriminate|]. simpl. rewrite El. rewrite En in Eh. subst n'. rewrite tid_eqb_refl. eauto.
  - (* IEmJoin *) rewrite Em in Hen.
    destruct (exec s t (IEmJoin e) k NoIn) as [s1|] eqn:E; [eapply (Hstep NoIn); eauto; intros; discriminate|].
    exfalso. simpl in E. rewrite Em in E. apply orb_true_iff in Hen as [Hen|Hen].
    + apply negb_true_iff in Hen. rewrite Hen in E. discriminate.
    + rewrite Hen in E. destruct (em_started m); discriminate.
  - (* IClear *) eapply (Hstep (InOrd (emitters s))); [intros; discriminate|]. simpl.
    rewrite (perm_ok_refl _ Hnd). eauto.
  - (* IStartCopy *)
    destruct (exec s t IStartCopy k (InOrd (emitters s))) as [s1|] eqn:E; [eapply Hstep; eauto; intros; discriminate|].
    exfalso. simpl in E. rewrite (perm_ok_refl _ Hnd) in E. destruct (fixed s && dstarted s); discriminate.
  - (* DSnap *)
    assert (t = TD) by (destruct t; auto; destruct (P3_reachable s Hs) as [_ [[_ HN] _]]; specialize (HN n); rewrite Ec in HN; discriminate).
    subst t. simpl in Ec. unfold DlInv in HD. rewrite Ec in HD. simpl in HD.
    destruct HD as [[Hi _] | [[E HD] | [[E _] | [E _]]]];
      [destruct Hi as [Hi|[Hi|[Hi|Hi]]]; discriminate | | discriminate | discriminate].
    destruct HD as [e [w [ds' [_ [Ecur _]]]]].
    eapply (Hstep NoIn); [intros; discriminate|]. simpl. rewrite Ecur. eauto.
  - (* DTurns *)
    assert (t = TD) by (destruct t; auto; destruct (P3_reachable s Hs) as [_ [[_ HN] _]]; specialize (HN n); rewrite Ec in HN; discriminate).
    subst t. simpl in Ec. unfold DlInv in HD. rewrite Ec in HD. simpl in HD.
    destruct HD as [[Hi _] | [[E _] | [[E HD] | [E _]]]];
      [destruct Hi as [Hi|[Hi|[Hi|Hi]]]; discriminate | discriminate | | discriminate].
    destruct HD as [r [ds' [hs [_ [Ecur _]]]]].
    destruct (dtodo s) as [|h l] eqn:Et.
    + eapply (Hstep NoIn); [intros; discriminate|]. simpl. rewrite Et. eauto.
    + destruct (exec s TD DTurns k (InTurn h [])) as [s1|] eqn:EE; [eapply Hstep; eauto|].
      exfalso. simpl in EE. rewrite Et, Ecur in EE. unfold memN at 1 in EE. simpl in EE. rewrite N.eqb_refl in EE. simpl in EE.
      destruct (memN h (hset (rw r) (hauto (rw r) (handlers s)))); discriminate.
Qed.

(* any_enabled is sound: then some label is enabled *)
Theorem any_enabled_sound s : reachable s -> any_enabled s = true -> exists l s', step s l = Some s'.
Proof.
  intros Hs H. unfold any_enabled in H. apply orb_true_iff in H as [H|H].
  - apply existsb_exists in H as [t [_ Ht]]. eapply enabled_sound; eauto.
  - apply existsb_exists in H as [m [Hin Hr]]. apply In_nth_error in Hin as [e He].
    destruct (emitter_never_blocked s e m He Hr) as [l [s' [_ Hstep]]]. eauto.
Qed.

(* stated the other way round: a stuck thread always coexists with an enabled one *)
Corollary stuck_implies_progress s t : reachable s -> In t (all_tids s) -> thread_stuck s t = true ->
  exists l s', step s l = Some s'.
Proof.
  intros Hs Hin Hst. apply any_enabled_sound; auto.
  pose proof (no_deadlock s Hs) as Hd. unfold deadlocked in Hd.
  destruct (any_enabled s); auto. cbn [negb andb] in Hd.
  assert (Hx : existsb (thread_stuck s) (all_tids s) = true) by (apply existsb_exists; eauto).
  rewrite Hx in Hd. discriminate.
Qed.

(* ------------------------------------------------------------------ C06 (ii): the dispatcher's remaining loop steps *)
Definition hcount (s : state) (w : watch) : nat := length (hset w (handlers s)).

(* remaining own loop steps of the dispatcher thread once its stop flag is set: a function of the state *)
Definition dbound (s : state) : nat :=
  match dcont s with
  | [] => 0
  | [DExitI] => 1
  | [DCheck] => 2
  | [DGet] => match queue s with
              | [] => 0
              | QStop :: _ => 3
              | QEv e w :: _ => 9 + hcount s w
              end
  | _ =>
      match after_d (dcont s), dcur s with
      | [DSnap; DTurns; IRel; DTaskDone; DCheck], Some (e, w) =>
          (match dcont s with IAcq :: _ => 8 | _ => 7 end) + hcount s w
      | [DTurns; IRel; DTaskDone; DCheck], _ => 6 + length (dtodo s)
      | [DTaskDone; DCheck], _ => match dcont s with IRel :: _ => 4 | _ => 3 end
      | _, _ => 0
      end
  end.

(* the dispatcher's own loop instructions: the dispatch-loop instructions and the acquire / release of the
   dispatch itself (not those of callbacks) *)
Definition loop_step (i : instr) (k : list instr) : bool :=
  is_d i || match i, k with
            | IAcq, [DSnap; DTurns; IRel; DTaskDone; DCheck] => true
            | IRel, [DTaskDone; DCheck] => true
            | _, _ => false
            end.

Lemma filter_len_le {A} (f : A -> bool) l : length (filter f l) <= length l.
Proof. induction l as [|a l IH]; simpl; auto. destruct (f a); simpl; lia. Qed.

Lemma length_remN_lt h l : In h l -> length (remN h l) < length l.
Proof.
  unfold remN. induction l as [|a l IH]; simpl; [tauto|]. intros [->|Hin].
  - rewrite N.eqb_refl. simpl. pose proof (filter_len_le (fun y => negb (N.eqb h y)) l). lia.
  - pose proof (filter_len_le (fun y => negb (N.eqb h y)) l). apply IH in Hin.
    destruct (negb (N.eqb h a)); simpl; lia.
Qed.

Lemma dbound_F2 s : after_d (dcont s) = F2 -> dbound s = 6 + length (dtodo s).
Proof.
  unfold dbound, F2. intros H. destruct (dcont s) as [|i l]; [discriminate|].
  destruct i; destruct l; simpl in H |- *; try discriminate; rewrite ?H; try reflexivity;
    try (inversion H; subst; reflexivity).
Qed.
Lemma dbound_F3 s : after_d (dcont s) = F3 -> dbound s = match dcont s with IRel :: _ => 4 | _ => 3 end.
Proof.
  unfold dbound, F3. intros H. destruct (dcont s) as [|i l]; [discriminate|].
  destruct i; destruct l; simpl in H |- *; try discriminate; rewrite ?H; try reflexivity;
    try (inversion H; subst; reflexivity).
Qed.
Lemma dbound_F1 s e w : after_d (dcont s) = F1 -> dcur s = Some (e, w) ->
  dbound s = (match dcont s with IAcq :: _ => 8 | _ => 7 end) + hcount s w.
Proof.
  unfold dbound, F1. intros H Hc. destruct (dcont s) as [|i l]; [discriminate|].
  destruct i; destruct l; simpl in H |- *; try discriminate; rewrite ?H, ?Hc; try reflexivity;
    try (inversion H; subst; rewrite ?Hc; reflexivity).
Qed.

Lemma loop_acq_shape k :
  match k with [DSnap; DTurns; IRel; DTaskDone; DCheck] => true | _ => false end = true -> k = F1.
Proof.
  intros H.
  destruct k as [|a k]; try discriminate; destruct a; try discriminate.
  destruct k as [|a k]; try discriminate; destruct a; try discriminate.
  destruct k as [|a k]; try discriminate; destruct a; try discriminate.
  destruct k as [|a k]; try discriminate; destruct a; try discriminate.
  destruct k as [|a k]; try discriminate; destruct a; try discriminate.
  destruct k; try discriminate. reflexivity.
Qed.
Lemma loop_rel_shape k : match k with [DTaskDone; DCheck] => true | _ => false end = true -> k = F3.
Proof.
  intros H.
  destruct k as [|a k]; try discriminate; destruct a; try discriminate.
  destruct k as [|a k]; try discriminate; destruct a; try discriminate.
  destruct k; try discriminate. reflexivity.
Qed.

Local Opaque remN.
Theorem dispatcher_loop_bounded s i k inp s' : P3 s -> dstop s = true -> dcont s = i :: k ->
  loop_step i k = true -> exec s TD i k inp = Some s' -> dbound s' < dbound s.
Proof.
  intros [HL [_ HD]] Hst Ec Hloop H.
  destruct HL as [_ [HLB _]]. pose proof (HLB TD) as HB. simpl in HB. rewrite Ec in HB. destruct HB as [_ [_ Hlast]].
  unfold loop_step in Hloop. destruct (is_d i) eqn:Hd.
  - assert (Ea : after_d (dcont s) = i :: k) by (rewrite Ec; simpl; rewrite Hd; reflexivity).
    unfold DlInv in HD. rewrite Ea in HD.
    destruct i; simpl in Hd; try discriminate; simpl in H.
    + (* DCheck *) assert (k = []) by (eapply last_only_terminal; eauto). subst k.
      rewrite Hst in H. inversion H; subst. unfold dbound. simpl. rewrite Ec. lia.
    + (* DExitI *) assert (k = []) by (eapply last_only_terminal; eauto). subst k.
      inversion H; subst. unfold dbound. simpl. rewrite Ec. lia.
    + (* DGet *) assert (k = []) by (eapply last_only_terminal; eauto). subst k.
      destruct (queue s) as [|[e w|] q] eqn:Eq; try discriminate; inversion H; subst; unfold dbound; simpl; rewrite Ec, Eq.
      * unfold hcount. simpl. lia.
      * lia.
    + (* DSnap *) destruct HD as [[Hi _] | [[E HD] | [[E _] | [E _]]]];
        [destruct Hi as [Hi|[Hi|[Hi|Hi]]]; discriminate | | discriminate | discriminate].
      inversion E; subst. destruct HD as [e [w [ds' [_ [Ecur _]]]]]. rewrite Ecur in H. inversion H; subst.
      unfold dbound. simpl. rewrite Ec, Ecur. simpl. unfold hcount. rewrite hset_hauto. lia.
    + (* DTurns *) destruct HD as [[Hi _] | [[E _] | [[E HD] | [E _]]]];
        [destruct Hi as [Hi|[Hi|[Hi|Hi]]]; discriminate | discriminate | | discriminate].
      inversion E; subst. destruct HD as [r [ds' [hs [_ [Ecur _]]]]]. rewrite Ecur in H.
      destruct (dtodo s) as [|h0 todo] eqn:Et.
      * inversion H; subst. unfold dbound. simpl. rewrite Ec, Et. simpl. lia.
      * destruct inp as [| |h calls]; try discriminate.
        destruct (memN h (h0 :: todo)) eqn:Em; try discriminate. apply memN_In in Em.
        pose proof (length_remN_lt h (h0 :: todo) Em) as Hlt.
        assert (Hs0 : dbound s = 6 + length (h0 :: todo)) by (rewrite <- Et; apply dbound_F2; rewrite Ec; reflexivity).
        rewrite Hs0.
        destruct (memN h (hset (rw r) (hauto (rw r) (handlers s)))); inversion H; subst;
          rewrite dbound_F2 by (simpl; rewrite ?after_d_app by fb_solve; reflexivity);
          cbn [dtodo set_dcont say set_dtodo set_handlers set_glog]; apply (proj1 (Nat.add_lt_mono_l _ _ 6)); exact Hlt.
    + (* DTaskDone *) destruct HD as [[Hi _] | [[E _] | [[E _] | [E _]]]];
        [destruct Hi as [Hi|[Hi|[Hi|Hi]]]; discriminate | discriminate | discriminate | ].
      inversion E; subst. inversion H; subst. unfold dbound. simpl. rewrite Ec. simpl. lia.
  - simpl in Hloop. destruct i; try discriminate.
    + (* the dispatch's own acquire *)
      apply loop_acq_shape in Hloop. subst k. unfold F1 in *.
      unfold DlInv in HD. rewrite Ec in HD. simpl in HD.
      destruct HD as [[Hi _] | [[E HD] | [[E _] | [E _]]]];
        [destruct Hi as [Hi|[Hi|[Hi|Hi]]]; discriminate | | discriminate | discriminate].
      destruct HD as [e [w [ds' [_ [Ecur _]]]]].
      simpl in H. destruct (lock s) as [[o n]|]; [destruct (tid_eqb o TD); try discriminate|]; inversion H; subst;
        unfold dbound; simpl; rewrite Ec, Ecur; simpl; unfold hcount; simpl; lia.
    + (* the dispatch's own release *)
      apply loop_rel_shape in Hloop. subst k. unfold F3 in *.
      simpl in H. destruct (lock s) as [[o [|n]]|]; try discriminate. destruct (tid_eqb o TD); try discriminate.
      inversion H; subst. unfold dbound. simpl. rewrite Ec. simpl. lia.
Qed.

(* ------------------------------------------------------------------ "exited" is stable *)
Definition exited_at (e : emid) (s : state) : Prop := exists m, get_em s e = Some m /\ em_exited m = true.

Lemma nth_upd_nth_other {A} (f : A -> A) : forall l n n', n <> n' -> nth_error (upd_nth n f l) n' = nth_error l n'.
Proof.
  induction l as [|a l IH]; intros [|n] [|n'] H; simpl; auto; try congruence.
Qed.

Lemma exited_upd e e' f s : exited_at e s ->
  (forall m, em_exited m = true -> em_exited (f m) = true) -> exited_at e (upd_em e' f s).
Proof.
  intros [m [Hm He]] Hf. unfold exited_at, get_em, upd_em in *. simpl.
  destruct (Nat.eq_dec e' e) as [->|Hne].
  - exists (f m). split; [apply nth_upd_nth; exact Hm | apply Hf; exact He].
  - exists m. split; [rewrite nth_upd_nth_other by exact Hne; exact Hm | exact He].
Qed.

Lemma exited_app e x s : exited_at e s -> exited_at e (set_ems (ems s ++ [x]) s).
Proof.
  intros [m [Hm He]]. exists m. split; auto. unfold get_em in *. simpl. rewrite nth_error_app1; auto.
  apply nth_error_Some. congruence.
Qed.

Lemma exited_frame e s s1 : ems s1 = ems s -> exited_at e s -> exited_at e s1.
Proof. unfold exited_at, get_em. intros ->. auto. Qed.

Lemma exited_upd_unstarted e e' m' f s : exited_at e s -> get_em s e' = Some m' -> em_started m' = false ->
  exited_at e (upd_em e' f s).
Proof.
  intros [m [Hm He]] Hm' Hs'. destruct (Nat.eq_dec e' e) as [->|Hne].
  - exfalso. rewrite Hm in Hm'. inversion Hm'; subst. unfold em_started, em_exited in *. destruct (epcs m'); discriminate.
  - exists m. split; auto. unfold get_em, upd_em in *. simpl. rewrite nth_upd_nth_other; auto.
Qed.

Lemma exited_exec e s t i k inp s' : exited_at e s -> exec s t i k inp = Some s' -> exited_at e s'.
Proof.
  intros Hx H.
  destruct i; crush_exec H; (eapply exited_frame; [apply ems_set_cont|]); cbn;
    try exact Hx;
    try (eapply exited_frame; [|exact Hx]; reflexivity).
  - eapply exited_frame; [|apply exited_app; exact Hx]. reflexivity.
  - eapply exited_frame; [|apply exited_app; exact Hx]. reflexivity.
  - eapply exited_frame; [|eapply exited_upd_unstarted; eauto]. reflexivity.
  - eapply exited_frame; [|apply (exited_upd e e0 (fun m : em => {| ew := ew m; epcs := epcs m; estop := true |}) s Hx)]; [reflexivity|].
    intros m Hm. exact Hm.
  - eapply exited_frame; [|eapply exited_upd_unstarted; eauto]. reflexivity.
Qed.

Lemma exited_em_step e s l s' : exited_at e s -> em_label l = true -> step s l = Some s' -> exited_at e s'.
Proof.
  intros [m [Hm He]] Hl H.
  assert (Hpc : epcs m = EExited) by (unfold em_exited in He; destruct (epcs m); try discriminate; reflexivity).
  destruct l; try discriminate; simpl in H;
    destruct (get_em s e0) as [m0|] eqn:E0; try discriminate;
    destruct (epcs m0) eqn:Ep; try discriminate;
    repeat match type of H with context [if ?x then _ else _] => destruct x end; try discriminate;
    inversion H; subst; clear H;
    (destruct (Nat.eq_dec e0 e) as [->|Hne]; [rewrite Hm in E0; inversion E0; subst; congruence|]);
    exists m; (split; [|exact He]); unfold get_em, set_epc, upd_em in *; cbn; rewrite nth_upd_nth_other; auto.
Qed.

(* once an emitter thread has exited it stays exited, in every continuation of the run *)
Theorem exited_stable e s l s' : exited_at e s -> step s l = Some s' -> exited_at e s'.
Proof.
  intros Hx H. refine (step_P (exited_at e) _ _ _ s l s' Hx H).
  - intros s0 t i k inp s1 H0 _ H1. eapply exited_exec; eauto.
  - intros s0 n c H0 _. eapply exited_frame; [|exact H0]. reflexivity.
  - intros s0 l0 s1 H0 Hl H1. eapply exited_em_step; eauto.
Qed.
