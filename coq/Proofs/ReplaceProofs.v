(* C03 - a directory of the tree renamed over an EMPTY directory of the tree: the contract (moved + both parents modified +
   synthetic moved events + DirModified of the replaced directory) is met.  The watch-state side of the operation is
   c02p's [rename_dir_rekey] (CoverProofs); here the raw events and what the emitter makes of them. *)
Require Import WD.Base.Prelude WD.Base.BStr WD.Model.SubEvents WD.Model.Emitter WD.Model.Fs WD.Model.Reader
               WD.Model.DelayQueue WD.Model.Grouping WD.Model.Pipeline WD.Model.Contract.
Require Import WD.Proofs.SubEventsProofs WD.Proofs.ReaderFixProofs WD.Proofs.ContractProofs WD.Proofs.CoverProofs.

Lemma kgone_hit_attrib k q c ino w :
  watch_of_ino k ino = Some w -> kw_mask w = WATCHDOG_ALL ->
  kgone (kset k q c) ino true =
  kset (kdrop k (kw_wd w))
       (kpush (kpush (kpush q (kev w IN_ATTRIB true 0 [])) (kev w IN_DELETE_SELF false 0 [])) (kignored w)) c.
Proof.
  intros Hw Hm. unfold kgone.
  change (watch_of_ino (kset k q c) ino) with (watch_of_ino k ino). rewrite Hw.
  rewrite (knotify_hit _ _ _ _ _ _ _ _ w Hw Hm) by reflexivity.
  rewrite (knotify_hit _ _ _ _ _ _ _ _ w Hw Hm) by reflexivity. reflexivity.
Qed.

Lemma kpush_three a b l e : kraw_eqb l e = false -> kpush [a; b; l] e = [a; b; l; e].
Proof. apply (ContractProofs.kpush_snoc [a; b]). Qed.
Lemma kpush_four a b c l e : kraw_eqb l e = false -> kpush [a; b; c; l] e = [a; b; c; l; e].
Proof. apply (ContractProofs.kpush_snoc [a; b; c]). Qed.

Lemma group_pair_victim C f t a d i c b1 b2 :
  nkind_of C f = KFrom c -> nkind_of C t = KTo c -> nkind_of C a = KOther ->
  nkind_of C d = KDeleteSelf b1 -> nkind_of C i = KIgnored b2 ->
  group_batch C [f; t; a; d; i] = [Pair f t; Single a; Single d].
Proof.
  intros Hf Ht Ha Hd Hi. unfold group_batch. cbn [group_go app]. rewrite Hf, Ht. cbn [pair_in_batch is_from_raw].
  rewrite Hf, N.eqb_refl, Ha, Hd, Hi. cbn [app filter put_item]. now rewrite Ha, Hd, Hi.
Qed.

(* ================================================================== what os.walk finds under a renamed directory *)
(* [content]'s fuel (the length of the entry list) is more than enough: any fuel >= the number of entries below d gives
   the same tree; removing an entry that is not below d changes nothing; frename maps the sub-tree below p to the sub-tree
   below q.  Hence content (w_fs w') q = content (w_fs w) p for every successful directory rename in a well-formed world. *)
Definition below (x : bytes) (t : fs) : list fent := filter (fun e => under x (f_path e)) t.

Lemma child_under x y : npath y -> is_child x y = true -> under x y = true.
Proof.
  intros Ny H. unfold is_child in H. apply andb_true_iff in H as [H _]. apply beqb_eq in H. subst x.
  now apply under_dirname.
Qed.

Lemma filter_filter_implied {A} (f g : A -> bool) l :
  (forall x, In x l -> f x = true -> g x = true) -> filter f (filter g l) = filter f l.
Proof.
  induction l as [|a l IH]; intros H; simpl; [reflexivity|].
  assert (IH' : filter f (filter g l) = filter f l) by (apply IH; intros x Hx; apply H; now right).
  destruct (g a) eqn:Eg; simpl.
  - now rewrite IH'.
  - destruct (f a) eqn:Ef; [|exact IH']. rewrite (H a (or_introl eq_refl) Ef) in Eg. discriminate.
Qed.

Section Fuel.
  Variable t : fs.
  Hypothesis Hnp : forall e, In e t -> npath (f_path e).

  Lemma content_fuel_step : forall n x, length (below x t) <= n -> content_fuel (S n) t x = content_fuel n t x.
  Proof.
    induction n as [|n IH]; intros x Hb.
    - (* nothing below x: no children *)
      assert (Hnil : below x t = []) by (destruct (below x t); [reflexivity | simpl in Hb; lia]).
      assert (Hno : forall e, In e t -> is_child x (f_path e) = false).
      { intros e He. destruct (is_child x (f_path e)) eqn:E; [|reflexivity].
        assert (Hin : In e (below x t)) by (apply filter_In; split; [exact He | apply child_under; auto]).
        rewrite Hnil in Hin. destruct Hin. }
      cbn [content_fuel]. rewrite !filter_none; [reflexivity | |]; intros e He; rewrite (Hno e He); reflexivity.
    - cbn [content_fuel]. f_equal. apply map_ext_in. intros e He. apply filter_In in He as [He Hc].
      apply andb_true_iff in Hc as [Hc _]. f_equal.
      change (content_fuel (S n) t (f_path e) = content_fuel n t (f_path e)). apply IH.
      assert (Hu : under x (f_path e) = true) by (apply child_under; auto).
      assert (Hlt : length (below (f_path e) t) < length (below x t)).
      { unfold below. apply (filter_length_lt _ _ t e); [| exact He | apply under_irrefl | exact Hu].
        intros z Hz. eapply under_trans; eassumption. }
      lia.
  Qed.

  Lemma content_fuel_enough x : forall n, length (below x t) <= n ->
    content_fuel n t x = content_fuel (length (below x t)) t x.
  Proof.
    intros n Hn. replace n with ((n - length (below x t)) + length (below x t)) by lia.
    induction (n - length (below x t)) as [|d IH]; [reflexivity|].
    cbn [plus]. rewrite content_fuel_step by lia. exact IH.
  Qed.
End Fuel.

(* removing an entry that is neither p nor below p does not change what lies below p *)
Lemma content_fuel_fremove t q p : (forall e, In e t -> npath (f_path e)) -> under p q = false ->
  forall n x, (x = p \/ under p x = true) ->
  content_fuel n (fremove q t) x = content_fuel n t x.
Proof.
  intros Hnp Hq. induction n as [|n IH]; intros x Hx; [reflexivity|]. cbn [content_fuel].
  assert (Hkeep : forall g : fent -> bool, forall e, In e t -> (is_child x (f_path e) && g e) = true ->
                    negb (beqb q (f_path e)) = true).
  { intros g e He H. apply andb_true_iff in H as [H _]. apply negb_true_iff, beqb_neq. intros E.
    assert (Hu : under x q = true) by (rewrite E; apply child_under; auto).
    assert (under p q = true); [|congruence].
    destruct Hx as [->|Hx]; [exact Hu | eapply under_trans; eassumption]. }
  unfold fremove at 2 3.
  rewrite (filter_filter_implied (fun e => is_child x (f_path e) && f_dir e)) by (intros e He; apply (Hkeep f_dir e He)).
  rewrite (filter_filter_implied (fun e => is_child x (f_path e) && negb (f_dir e)))
    by (intros e He; apply (Hkeep (fun e => negb (f_dir e)) e He)).
  f_equal. apply map_ext_in. intros e He. apply filter_In in He as [He Hc]. apply andb_true_iff in Hc as [Hc _].
  f_equal. apply IH. right.
  assert (Hu : under x (f_path e) = true) by (apply child_under; auto).
  destruct Hx as [->|Hx]; [exact Hu | eapply under_trans; eassumption].
Qed.

Lemma below_fremove t q p : under p q = false -> below p (fremove q t) = below p t.
Proof.
  intros Hq. unfold below, fremove. apply filter_filter_implied. intros e _ Hu.
  apply negb_true_iff, beqb_neq. intros E. rewrite <- E in Hu. congruence.
Qed.

Lemma flookup_fremove_other q p t : p <> q -> flookup p (fremove q t) = flookup p t.
Proof.
  intros Hne. unfold fremove. induction t as [|a l IH]; simpl; [reflexivity|].
  destruct (beqb q (f_path a)) eqn:Eq; simpl.
  - apply beqb_eq in Eq. destruct (beqb p (f_path a)) eqn:Ep; [apply beqb_eq in Ep; congruence | exact IH].
  - destruct (beqb p (f_path a)); [reflexivity | exact IH].
Qed.

Lemma content_fremove t q p : (forall e, In e t -> npath (f_path e)) -> p <> q -> under p q = false ->
  content (fremove q t) p = content t p.
Proof.
  intros Hnp Hne Hq. unfold content, fisdir. rewrite (flookup_fremove_other q p t Hne).
  destruct (flookup p t) as [e|]; [|reflexivity]. destruct (f_dir e); [|reflexivity].
  assert (Hnp' : forall e0, In e0 (fremove q t) -> npath (f_path e0)) by (intros e0 H0; apply Hnp; now apply fremove_in in H0).
  rewrite (content_fuel_enough (fremove q t) Hnp' p (length (fremove q t))) by (unfold below; apply filter_length_le).
  rewrite (content_fuel_enough t Hnp p (length t)) by (unfold below; apply filter_length_le).
  rewrite (below_fremove t q p Hq). apply (content_fuel_fremove t q p Hnp Hq). now left.
Qed.

(* every successful rename of a directory in a well-formed world *)
Theorem rename_dir_content w p q w' : wf_fs w -> npath p -> npath q ->
  apply_op w (Rename p q) = Some w' -> fisdir p (w_fs w) = true ->
  content (w_fs w') q = content (w_fs w) p.
Proof.
  intros W Np Nq Ha Fp.
  destruct (rename_inv w p q w' W Np Nq Ha) as (ep & t1 & Elp & Hne & Hupq & Edq & -> & Hbelow & Hq1). cbn [w_fs].
  destruct (npath_parts p Np) as (Ep & [Hdp Hsp] & Hnp & _).
  destruct (npath_parts q Nq) as (Eq & [Hdq Hsq] & Hnq & _).
  assert (Hwfp : forall e, In e (w_fs w) -> wf_path (f_path e)).
  { intros e He. destruct (wf_np w W e He) as (d0 & n0 & E0 & [_ Hs0] & Hn0). exists d0, n0. auto. }
  assert (Hgoal : forall t0, (forall e, In e t0 -> In e (w_fs w) /\ f_path e <> q \/ In e (w_fs w) /\ flookup q (w_fs w) = None) ->
            fisdir p t0 = true -> content (frename p q t0) q = content t0 p).
  { intros t0 Hsub Fp0. rewrite Ep, Eq. apply content_rename; try assumption.
    - intros e He. destruct (Hsub e He) as [[H _]|[H _]]; now apply Hwfp.
    - rewrite <- Eq. intros e He. destruct (Hsub e He) as [[_ H]|[H Hn]];
        [apply beqb_neq; congruence | now apply (ContractProofs.flookup_none q (w_fs w) Hn)].
    - rewrite <- Eq. intros e He. apply Hbelow. destruct (Hsub e He) as [[H _]|[H _]]; exact H.
    - now rewrite <- Ep. }
  destruct Hq1 as [[Elq ->]|(v & Elq & -> & _)].
  - apply Hgoal; [|exact Fp]. intros e He. right. auto.
  - rewrite Hgoal.
    + apply content_fremove; [apply (wf_np w W) | exact Hne | exact Hupq].
    + intros e He. apply fremove_in in He. left. exact He.
    + unfold fisdir. rewrite flookup_fremove_other by exact Hne. exact Fp.
Qed.

Section Replace.
  Variable C : cfg.
  Variable full : bool.

  Theorem contract_rename_dir_over w k r p q w' ep v :
    RSync C w k r -> npath p -> npath q -> c_recursive C = true -> c_mask C = WATCHDOG_ALL ->
    apply_op w (Rename p q) = Some w' ->
    flookup p (w_fs w) = Some ep -> f_dir ep = true -> scope C p -> p <> c_root C -> scope C q -> q <> c_root C ->
    flookup q (w_fs w) = Some v -> f_dir v = true ->
    exists evs, deliver_one C full w k r (Rename p q) = Some evs /\
      collapse evs = collapse (contract (c_recursive C) full (c_root C) (w_fs w) (Rename p q)).
  Proof.
    intros S Np Nq Hrec Hmask Ha Elp Dep Sp Hpr Sq Hqr Elq Dv. destruct S as [W Hr I Cv Hq Hpd].
    destruct (rename_inv w p q w' W Np Nq Ha) as (ep' & t1 & Elp' & Hne & Hupq & Edq & Hw' & Hbelow & Hq1).
    assert (ep' = ep) by congruence. subst ep'.
    destruct (flookup_some _ _ _ Elp) as [Hep Eep]. destruct (flookup_some _ _ _ Elq) as [Hv Evp].
    assert (Sv : scope C (f_path v)) by now rewrite Evp.
    destruct (Cv v Hv Dv Sv) as (kwv & Cvv). assert (Cvv' := Cvv). destruct Cvv' as (Cwv & Cpv & Cfv). rewrite Evp in Cpv, Cfv.
    assert (Fq : fisdir q (w_fs w) = true) by (unfold fisdir; now rewrite Elq).
    assert (Fp : fisdir p (w_fs w) = true) by (unfold fisdir; now rewrite Elp).
    assert (Iv : ino_of (w_fs w) q = f_ino v) by (unfold ino_of; now rewrite Elq).
    assert (Hct := rename_dir_content w p q w' W Np Nq Ha Fp).
    set (kf := kdrained (kernel_op k (w_fs w) (Rename p q))).
    destruct (rename_dir_rekey C w k r p q ep (w_fs w') kf W Hr I Cv Hpd Np Nq Hrec Elp Dep Sp Hpr Sq Hqr Hne Hupq Hbelow Edq)
      as (kwp & kwq & kwe & r'' & evs0 & Cwp & Cwq & Cep & Hrd1 & Hmv & Hpd2 & F & Pf & T & Hsafe0 & Lp2 & Kw2).
    assert (Hpq'' : alookup N.eqb (kw_wd kwv) (pfw r'') = Some q).
    { rewrite <- Evp. apply Pf; try assumption; rewrite Evp; [congruence|]. destruct (under p q) eqn:E; congruence. }
    assert (Hne_wd : kw_wd kwe <> kw_wd kwv).
    { intros E. destruct Cep as (Cwe & _). destruct (watch_of_ino_some _ _ _ Cwe) as [Hke Eie].
      destruct (watch_of_ino_some _ _ _ Cwv) as [Hkv Eiv].
      assert (kwe = kwv) by (apply (wd_inj k); [apply I| | |]; assumption). subst kwe.
      assert (ep = v) by (apply (ino_inj w); try assumption; congruence). subst v. congruence. }
    assert (Hwq'' : alookup beqb q (wfp r'') = Some (kw_wd kwe)).
    { destruct (F ep kwe Hep Dep) as [F1 _]; [now rewrite Eep | congruence | exact Cep|]. now rewrite Eep, rk_self in F1. }
    (* the parents' descriptors map to the parents' paths *)
    assert (Hpar : forall d kw, fisdir d (w_fs w) = true -> watch_of_ino k (ino_of (w_fs w) d) = Some kw ->
                     kw_mask kw = WATCHDOG_ALL /\ alookup N.eqb (kw_wd kw) (pfw r) = Some d).
    { intros d kw Hd Hk. destruct (fisdir_in _ _ Hd) as (e0 & He0 & Ee0 & De0).
      destruct (watch_of_ino_some _ _ _ Hk) as [Hin Hino]. split; [now rewrite (wi_mask _ _ _ _ I kw Hin)|].
      destruct (wi_exact _ _ _ _ I kw Hin) as (e & He & _ & _ & Ie & Pe & _).
      assert (Hi0 : ino_of (w_fs w) d = f_ino e0).
      { unfold ino_of. rewrite <- Ee0. now rewrite (flookup_in _ e0 (wf_paths w W) He0). }
      assert (e = e0) by (apply (ino_inj w); try assumption; congruence). subst e. now rewrite <- Ee0. }
    assert (Urp : under (c_root C) p = true).
    { unfold scope in Sp. rewrite Hrec in Sp. destruct Sp as [Sp'|Sp']; [contradiction | exact Sp']. }
    assert (Fdp : fisdir (dirname p) (w_fs w) = true).
    { destruct Hr as (er & Her & Eer & Der).
      assert (Hdp : isdir_in (dirname p) (w_fs w)).
      { rewrite <- Eep. apply (wf_parent w W ep er Hep Her). now rewrite Eep, Eer. }
      destruct Hdp as (dp0 & Hdp0 & Edp0 & Ddp0). unfold fisdir. rewrite <- Edp0.
      now rewrite (flookup_in _ dp0 (wf_paths w W) Hdp0). }
    destruct (Hpar _ _ Fdp Cwp) as [Mp Pp]. destruct (Hpar _ _ Edq Cwq) as [Mq Pq].
    assert (Mv : kw_mask kwv = WATCHDOG_ALL).
    { destruct (watch_of_ino_some _ _ _ Cwv) as [Hin _]. now rewrite (wi_mask _ _ _ _ I kwv Hin). }
    destruct (npath_parts p Np) as (Ep & [Hdp Hsp] & Hnp & _).
    destruct (npath_parts q Nq) as (Eq & [Hdq Hsq] & Hnq & _).
    (* the kernel queue *)
    unfold deliver_one. rewrite Ha. fold kf.
    assert (Hkq : kernel_op k (w_fs w) (Rename p q) =
                  kset (kdrop k (kw_wd kwv))
                       [kev kwp IN_MOVED_FROM true (k_next_cookie k) (basename p);
                        kev kwq IN_MOVED_TO true (k_next_cookie k) (basename q);
                        kev kwv IN_ATTRIB true 0 []; kev kwv IN_DELETE_SELF false 0 []; kignored kwv]
                       (k_next_cookie k + 1)).
    { cbn [kernel_op]. rewrite Fp, Fq, Iv.
      change {| k_watches := k_watches k; k_next_wd := k_next_wd k; k_queue := k_queue k;
                k_next_cookie := k_next_cookie k + 1 |} with (kset k (k_queue k) (k_next_cookie k + 1)).
      rewrite Hq.
      rewrite (knotify_hit _ _ _ _ _ _ _ _ kwp Cwp Mp) by reflexivity. rewrite kpush_nil.
      rewrite (knotify_hit _ _ _ _ _ _ _ _ kwq Cwq Mq) by reflexivity.
      rewrite kpush_one by (apply kraw_neq_mask; reflexivity).
      rewrite (kgone_hit_attrib _ _ _ _ kwv Cwv Mv).
      rewrite kpush_two by (apply kraw_neq_mask; reflexivity).
      rewrite kpush_three by (apply kraw_neq_mask; reflexivity).
      rewrite kpush_four by (apply kraw_neq_mask; reflexivity). reflexivity. }
    rewrite Hkq. cbn [k_queue kset].
    set (ef := kev kwp IN_MOVED_FROM true (k_next_cookie k) (basename p)) in *.
    set (et := kev kwq IN_MOVED_TO true (k_next_cookie k) (basename q)) in *.
    unfold mv_from, mv_to in Hrd1. fold ef et in Hrd1.
    (* the two halves: the raw events are those of every rename *)
    assert (Hevs0 : evs0 = [mkraw ef p; mkraw et q]).
    { cbn [read_batch] in Hrd1.
      rewrite (ContractProofs.read_one_from C _ _ _ _ _ (dirname p)) in Hrd1 by (first [exact Hpd | exact Pp | reflexivity]).
      match type of Hrd1 with context [read_one C ?t (?r1, ?k1, ?acc) et] =>
        destruct (ContractProofs.read_one_to C t r1 k1 acc et (dirname q)) as [r' [k' Hrd]];
          [ cbn [pend k_cookie kev ef et]; intros c0 p0 Hc0;
            match type of Hc0 with context [if ?b then _ else _] =>
              destruct b; [inversion Hc0; reflexivity | rewrite Hpd in Hc0; discriminate] end
          | exact Pq | reflexivity | reflexivity | reflexivity | reflexivity | rewrite Hrd in Hrd1 ] end.
      inversion Hrd1. cbn [k_name kev ef et app rpath].
      rewrite (rpath_child (dirname p) (basename p)), (join_name (dirname q) (basename q)) by assumption.
      now rewrite <- Ep, <- Eq. }
    subst evs0.
    change [ef; et; kev kwv IN_ATTRIB true 0 []; kev kwv IN_DELETE_SELF false 0 []; kignored kwv]
      with ([ef; et] ++ [kev kwv IN_ATTRIB true 0 []; kev kwv IN_DELETE_SELF false 0 []; kignored kwv]).
    rewrite (read_batch_app C), Hrd1. cbn [read_batch].
    rewrite (ContractProofs.read_one_plain C _ _ _ _ _ q) by (first [exact Hpd2 | exact Hpq'' | reflexivity]).
    rewrite (ContractProofs.read_one_plain C _ _ _ _ _ q) by (first [exact Hpd2 | exact Hpq'' | reflexivity]).
    rewrite read_one_body_eq by exact Hpd2. unfold kignored.
    rewrite (read_one_ignored_other C _ _ _ _ _ q (kw_wd kwe) Hpq'' Hwq'' Hne_wd).
    cbn [k_name kev app rpath].
    rewrite (group_pair_victim C _ _ _ _ _ (k_next_cookie k) (beqb q (c_root C)) (beqb q (c_root C))) by reflexivity.
    eexists. split; [reflexivity|].
    (* the emitter *)
    assert (Hqroot : beqb q (c_root C) = false) by now apply beqb_neq.
    assert (Urq : under (c_root C) q = true).
    { unfold scope in Sq. rewrite Hrec in Sq. destruct Sq as [Sq'|Sq']; [contradiction | exact Sq']. }
    assert (Hwfp : forall e, In e (w_fs w) -> wf_path (f_path e)).
    { intros e He. destruct (wf_np w W e He) as (d0 & n0 & E0 & [_ Hs0] & Hn0). exists d0, n0. auto. }
    assert (Hwf : wf_tree (content (w_fs w) p) = true) by now apply content_wf.
    assert (Hpne : p <> []) by (rewrite Ep; apply child_ne).
    assert (Hqne : q <> []) by (rewrite Eq; apply child_ne).
    assert (Hqs : last_is_sep q = false) by (rewrite Eq; now apply child_last_sep).
    assert (Hsm := sub_moved_synth_eq p q _ Hpne Hqne Hqs Hwf). rewrite <- Hct in Hsm.
    cbn [emit_all emit]. unfold emit_pair. cbn [r_path r_mask mkraw kev k_mask fst snd ef et].
    change (is_directory (N.lor IN_MOVED_FROM IN_ISDIR)) with true.
    unfold mkraw, kev. cbn [k_wd k_mask k_cookie k_name].
    rewrite (emit_delete_self_nonroot C full) by exact Hqroot.
    rewrite Hrec. cbn [andb].
    unfold contract, in_scope. rewrite Urp, Urq, Fp, Fq. cbn [andb orb app].
    rewrite Hsm, <- Hct.
    match goal with |- context [emit_single ?a ?b ?c ?d ?e] =>
      change (emit_single a b c d e) with ([mk DirModified q []], false) end.
    cbn [app]. rewrite ?app_nil_r. reflexivity.
  Qed.
End Replace.

(* ================================================================== a concrete instance, also through the pipeline *)
Definition rp_d : bytes := sub pR 100.            (* /s/R/d    directory *)
Definition rp_df : bytes := sub rp_d 102.         (* /s/R/d/f  file *)
Definition rp_e : bytes := sub pR 101.            (* /s/R/e    empty directory *)
Definition rp_ef : bytes := sub rp_e 102.         (* /s/R/e/f  where the file ends up *)

Definition rp_world : world :=
  {| w_fs := [ {| f_path := pR; f_ino := 1; f_dir := true |}; {| f_path := pO; f_ino := 2; f_dir := true |};
               {| f_path := rp_d; f_ino := 3; f_dir := true |}; {| f_path := rp_df; f_ino := 4; f_dir := false |};
               {| f_path := rp_e; f_ino := 5; f_dir := true |} ];
     w_next_ino := 6 |}.

Lemma rp_world_wf : wf_fs rp_world.
Proof.
  assert (GS : gpath [47;115]%N) by (split; [discriminate | reflexivity]).
  assert (NR : npath pR) by (apply (npath_sub [47;115]%N 82 GS); reflexivity).
  assert (NO : npath pO) by (apply (npath_sub [47;115]%N 79 GS); reflexivity).
  assert (ND : npath rp_d) by (apply npath_sub; [now apply npath_gpath | reflexivity]).
  assert (NF : npath rp_df) by (apply npath_sub; [now apply npath_gpath | reflexivity]).
  assert (NE : npath rp_e) by (apply npath_sub; [now apply npath_gpath | reflexivity]).
  constructor; cbn [rp_world w_fs w_next_ino map f_path f_ino]; [| | | | |lia].
  - repeat constructor; cbn; intuition discriminate.
  - repeat constructor; cbn; intuition discriminate.
  - intros e [<-|[<-|[<-|[<-|[<-|[]]]]]]; cbn; lia.
  - intros e [<-|[<-|[<-|[<-|[<-|[]]]]]]; assumption.
  - intros e d [<-|[<-|[<-|[<-|[<-|[]]]]]] [<-|[<-|[<-|[<-|[<-|[]]]]]] Hu; vm_compute in Hu; try discriminate;
      first [ eexists; split; [left; reflexivity | split; vm_compute; reflexivity]
            | eexists; split; [right; right; left; reflexivity | split; vm_compute; reflexivity] ].
Qed.

Definition rp_events : list nevent :=
  [mk DirMoved rp_d rp_e; parent_modified rp_d; parent_modified rp_e;
   {| ev_cls := FileMoved; ev_src := rp_df; ev_dest := rp_ef; ev_synth := true |};
   mk DirModified rp_e []].

Lemma replace_nonvacuous :
  exists r k w',
    construct (cfgx true true) kinit (w_fs rp_world) = Some (r, k) /\ RSync (cfgx true true) rp_world k r /\
    npath rp_d /\ npath rp_e /\ scope (cfgx true true) rp_d /\ scope (cfgx true true) rp_e /\
    apply_op rp_world (Rename rp_d rp_e) = Some w' /\
    fisdir rp_d (w_fs rp_world) = true /\ fisdir rp_e (w_fs rp_world) = true /\
    content (w_fs w') rp_e = content (w_fs rp_world) rp_d /\
    deliver_one (cfgx true true) false rp_world k r (Rename rp_d rp_e) = Some rp_events /\
    collapse rp_events = collapse (contract true false pR (w_fs rp_world) (Rename rp_d rp_e)) /\
    (* through the pipeline model: AOp; ARead (whole queue); ATick; AEmit x4 from the initial state *)
    exists s0 s obs, pinit (Px true) rp_world = Some s0 /\
      prun (Px true) s0 (tie_history (Px true) s0 (Rename rp_d rp_e) 4) [] = Done (s, obs) /\ p_out s = rp_events.
Proof.
  destruct (construct_cover (cfgx true true) eq_refl rp_world rp_world_wf eq_refl) as (r & k & Hc & I & Cv & Hq & _ & Hp).
  exists r, k. eexists. split; [exact Hc|]. split.
  { constructor; try assumption; [exact rp_world_wf|].
    eexists. split; [left; reflexivity | split; reflexivity]. }
  vm_compute in Hc. inversion Hc; subst r k. clear Hc.
  assert (GR : gpath pR) by (split; [discriminate | reflexivity]).
  split; [apply npath_sub; [exact GR | reflexivity]|]. split; [apply npath_sub; [exact GR | reflexivity]|].
  split; [right; vm_compute; reflexivity|]. split; [right; vm_compute; reflexivity|].
  split; [vm_compute; reflexivity|]. split; [vm_compute; reflexivity|]. split; [vm_compute; reflexivity|].
  split; [vm_compute; reflexivity|]. split; [vm_compute; reflexivity|]. split; [vm_compute; reflexivity|].
  eexists; eexists; eexists. split; [vm_compute; reflexivity|]. split; vm_compute; reflexivity.
Qed.

(* ================================================================== the replaced directory has no watch of its own *)
(* non-recursive watch, or the target lies outside the scope: the kernel has nothing to say about the victim, the
   operation looks like a rename onto a free name *)
Section ReplaceUnwatched.
  Variable C : cfg.
  Variable full : bool.
  Variables (w : world) (k : kst) (r : rstate).
  Hypothesis Hq : k_queue k = [].
  Hypothesis Hpend : pend r = None.
  Let rec := c_recursive C.
  Let root := c_root C.

  Ltac own :=
    cbn [pend k_cookie ContractProofs.kev]; intros c0 p0 Hc0;
    first [ rewrite Hpend in Hc0; discriminate
          | match type of Hc0 with context [if ?b then _ else _] =>
              destruct b; [inversion Hc0; reflexivity | rewrite Hpend in Hc0; discriminate] end ].

  Ltac start_rename Happ :=
    unfold delivers, deliver_one; rewrite Happ;
    unfold contract; rewrite ?in_scope_child by assumption;
    cbn [kernel_op]; rewrite ?dirname_child, ?basename_child by assumption;
    match goal with
    | |- context [ {| k_watches := k_watches k; k_next_wd := k_next_wd k; k_queue := k_queue k;
                      k_next_cookie := ?c |} ] =>
      change {| k_watches := k_watches k; k_next_wd := k_next_wd k; k_queue := k_queue k;
                k_next_cookie := c |} with (kset k (k_queue k) c)
    end; rewrite Hq.

  Lemma contract_rename_dir_over_unwatched dp np dq nq w' :
    dp <> [] -> last_is_sep dp = false -> valid_name np = true ->
    dq <> [] -> last_is_sep dq = false -> valid_name nq = true ->
    cover C r k (w_fs w) dp -> cover C r k (w_fs w) dq ->
    fisdir (dp ++ sep :: np) (w_fs w) = true -> fisdir (dq ++ sep :: nq) (w_fs w) = true ->
    watch_of_ino k (ino_of (w_fs w) (dq ++ sep :: nq)) = None ->
    (c_recursive C = false \/ in_scope (c_recursive C) (c_root C) (dq ++ sep :: nq) = false) ->
    content (w_fs w') (dq ++ sep :: nq) = content (w_fs w) (dp ++ sep :: np) ->
    wf_tree (content (w_fs w) (dp ++ sep :: np)) = true ->
    apply_op w (Rename (dp ++ sep :: np) (dq ++ sep :: nq)) = Some w' ->
    delivers C full w k r (Rename (dp ++ sep :: np) (dq ++ sep :: nq)).
  Proof.
    intros Hdp Hsp Hnp Hdq Hsq Hnq Hcp Hcq Hfp Hfq Hvw Hvict Hct Hwf Happ.
    rewrite in_scope_child in Hvict by assumption. start_rename Happ.
    rewrite Hfp, Hfq. unfold cover in Hcp, Hcq. fold rec root in Hcp, Hcq, Hvict |- *.
    assert (Hsm := sub_moved_synth_eq (dp ++ sep :: np) (dq ++ sep :: nq) _ (child_ne dp np) (child_ne dq nq)
                                      (child_last_sep dq nq Hnq) Hwf).
    assert (Hsc := sub_created_synth_eq (dq ++ sep :: nq) _ (child_ne dq nq) (child_last_sep dq nq Hnq) Hwf).
    rewrite <- Hct in Hsm, Hsc.
    destruct (watched_dir rec root dp).
    - destruct Hcp as [wp [Hw [Hm [Hp Hf]]]].
      rewrite (knotify_hit _ _ _ _ _ _ _ _ wp Hw Hm) by reflexivity. rewrite kpush_nil.
      destruct (watched_dir rec root dq) eqn:Ewq.
      + assert (Hr : rec = false) by (destruct Hvict as [H|H]; [exact H | discriminate]).
        destruct Hcq as [wq [Hw' [Hm' [Hp' Hf']]]].
        rewrite (knotify_hit _ _ _ _ _ _ _ _ wq Hw' Hm') by reflexivity.
        rewrite kpush_one by (apply kraw_neq_mask; reflexivity).
        rewrite kgone_miss by exact Hvw.
        cbn [k_queue kset read_batch].
        rewrite (ContractProofs.read_one_from C _ _ _ _ _ dp) by (first [exact Hpend | exact Hp | reflexivity]).
        match goal with |- context [read_one C ?t (?r1, ?k1, ?acc) ?e] =>
          destruct (ContractProofs.read_one_to C t r1 k1 acc e dq) as [r' [k' Hrd]];
            [own | exact Hp' | reflexivity | reflexivity | reflexivity | reflexivity | rewrite Hrd] end.
        cbn [k_name ContractProofs.kev app rpath]. rewrite ?rpath_child by assumption.
        rewrite (join_name dq nq) by assumption.
        rewrite <- Hct.
        set (p := dp ++ sep :: np) in *. set (q := dq ++ sep :: nq) in *.
        rewrite (group_pair C _ _ (k_next_cookie k)) by reflexivity.
        eexists. split; [reflexivity|].
        cbn [emit_all emit]. unfold emit_pair. cbn [r_path r_mask mkraw ContractProofs.kev k_mask fst snd].
        change (is_directory (N.lor IN_MOVED_FROM IN_ISDIR)) with true.
        rewrite Hr. cbn [andb app]. rewrite ?app_nil_r. reflexivity.
      + rewrite knotify_miss by exact Hcq. rewrite kgone_miss by exact Hvw.
        cbn [k_queue kset read_batch].
        rewrite (ContractProofs.read_one_from C _ _ _ _ _ dp) by (first [exact Hpend | exact Hp | reflexivity]).
        cbn [k_name ContractProofs.kev app rpath]. rewrite ?rpath_child by assumption.
        set (p := dp ++ sep :: np) in *. set (q := dq ++ sep :: nq) in *.
        eexists. split; [reflexivity|]. destruct full; reflexivity.
    - rewrite knotify_miss by exact Hcp.
      destruct (watched_dir rec root dq) eqn:Ewq.
      + assert (Hr : rec = false) by (destruct Hvict as [H|H]; [exact H | discriminate]).
        destruct Hcq as [wq [Hw' [Hm' [Hp' Hf']]]].
        rewrite (knotify_hit _ _ _ _ _ _ _ _ wq Hw' Hm') by reflexivity. rewrite kpush_nil.
        rewrite kgone_miss by exact Hvw.
        cbn [k_queue kset read_batch].
        match goal with |- context [read_one C ?t (?r1, ?k1, ?acc) ?e] =>
          destruct (ContractProofs.read_one_to C t r1 k1 acc e dq) as [r' [k' Hrd]];
            [own | exact Hp' | reflexivity | reflexivity | reflexivity | reflexivity | rewrite Hrd] end.
        cbn [k_name ContractProofs.kev app rpath]. rewrite (join_name dq nq) by assumption.
        rewrite <- Hct.
        set (p := dp ++ sep :: np) in *. set (q := dq ++ sep :: nq) in *.
        eexists. split; [reflexivity|].
        match goal with |- context [group_batch C [?e]] => change (group_batch C [e]) with [Single e] end.
        cbn [emit_all emit]. unfold emit_single. cbn [r_path r_mask mkraw ContractProofs.kev k_mask fst snd].
        change (is_moved_to (N.lor IN_MOVED_TO IN_ISDIR)) with true.
        change (is_directory (N.lor IN_MOVED_TO IN_ISDIR)) with true. cbv iota.
        rewrite Hr. destruct full; cbn [andb app]; rewrite ?app_nil_r; reflexivity.
      + rewrite knotify_miss by exact Hcq. rewrite kgone_miss by exact Hvw. eexists; split; reflexivity.
  Qed.
End ReplaceUnwatched.

(* ================================================================== the same from well-formedness of the world alone *)
Lemma wf_fs_tree w p : wf_fs w -> wf_tree (content (w_fs w) p) = true.
Proof.
  intros W. apply content_wf. intros e He. destruct (wf_np w W e He) as (d0 & n0 & E0 & [_ Hs0] & Hn0). exists d0, n0. auto.
Qed.

(* a directory renamed onto a free name: inside the scope, out of it, into it *)
Theorem contract_rename_dir_wf C full w k r p q w' :
  k_queue k = [] -> pend r = None -> wf_fs w -> npath p -> npath q ->
  cover C r k (w_fs w) (dirname p) -> cover C r k (w_fs w) (dirname q) ->
  fisdir p (w_fs w) = true -> fisdir q (w_fs w) = false ->
  apply_op w (Rename p q) = Some w' ->
  delivers C full w k r (Rename p q).
Proof.
  intros Hq Hpd W Np Nq Hcp Hcq Fp Fq Ha.
  assert (Hct := rename_dir_content w p q w' W Np Nq Ha Fp). assert (Hwf := wf_fs_tree w p W). clear W.
  destruct Np as (dp & np & -> & [Hdp Hsp] & Hnp). destruct Nq as (dq & nq & -> & [Hdq Hsq] & Hnq).
  rewrite dirname_child in Hcp, Hcq by assumption.
  eapply contract_rename_dir_tree; eassumption.
Qed.

(* a directory renamed over an empty directory that has no watch of its own *)
Theorem contract_rename_dir_over_unwatched_wf C full w k r p q w' :
  k_queue k = [] -> pend r = None -> wf_fs w -> npath p -> npath q ->
  cover C r k (w_fs w) (dirname p) -> cover C r k (w_fs w) (dirname q) ->
  fisdir p (w_fs w) = true -> fisdir q (w_fs w) = true ->
  watch_of_ino k (ino_of (w_fs w) q) = None ->
  (c_recursive C = false \/ in_scope (c_recursive C) (c_root C) q = false) ->
  apply_op w (Rename p q) = Some w' ->
  delivers C full w k r (Rename p q).
Proof.
  intros Hq Hpd W Np Nq Hcp Hcq Fp Fq Hvw Hv Ha.
  assert (Hct := rename_dir_content w p q w' W Np Nq Ha Fp). assert (Hwf := wf_fs_tree w p W). clear W.
  destruct Np as (dp & np & -> & [Hdp Hsp] & Hnp). destruct Nq as (dq & nq & -> & [Hdq Hsq] & Hnq).
  rewrite dirname_child in Hcp, Hcq by assumption.
  eapply contract_rename_dir_over_unwatched; eassumption.
Qed.

(* ---- a concrete instance for the unwatched case: /s/R/d moved over the empty directory /s/O/z outside the scope *)
Definition rp_z : bytes := sub pO 122.            (* /s/O/z    empty directory *)
Definition rp_world2 : world :=
  {| w_fs := w_fs rp_world ++ [ {| f_path := rp_z; f_ino := 6; f_dir := true |} ]; w_next_ino := 7 |}.

Lemma rp_world2_wf : wf_fs rp_world2.
Proof.
  assert (GS : gpath [47;115]%N) by (split; [discriminate | reflexivity]).
  assert (NR : npath pR) by (apply (npath_sub [47;115]%N 82 GS); reflexivity).
  assert (NO : npath pO) by (apply (npath_sub [47;115]%N 79 GS); reflexivity).
  assert (ND : npath rp_d) by (apply npath_sub; [now apply npath_gpath | reflexivity]).
  assert (NF : npath rp_df) by (apply npath_sub; [now apply npath_gpath | reflexivity]).
  assert (NE : npath rp_e) by (apply npath_sub; [now apply npath_gpath | reflexivity]).
  assert (NZ : npath rp_z) by (apply npath_sub; [now apply npath_gpath | reflexivity]).
  constructor; cbn [rp_world2 rp_world w_fs w_next_ino map f_path f_ino app]; [| | | | |lia].
  - repeat constructor; cbn; intuition discriminate.
  - repeat constructor; cbn; intuition discriminate.
  - intros e [<-|[<-|[<-|[<-|[<-|[<-|[]]]]]]]; cbn; lia.
  - intros e [<-|[<-|[<-|[<-|[<-|[<-|[]]]]]]]; assumption.
  - intros e d [<-|[<-|[<-|[<-|[<-|[<-|[]]]]]]] [<-|[<-|[<-|[<-|[<-|[<-|[]]]]]]] Hu; vm_compute in Hu; try discriminate;
      first [ eexists; split; [left; reflexivity | split; vm_compute; reflexivity]
            | eexists; split; [right; left; reflexivity | split; vm_compute; reflexivity]
            | eexists; split; [right; right; left; reflexivity | split; vm_compute; reflexivity] ].
Qed.

Lemma replace_unwatched_nonvacuous :
  exists r k w',
    construct (cfgx true true) kinit (w_fs rp_world2) = Some (r, k) /\ k_queue k = [] /\ pend r = None /\
    wf_fs rp_world2 /\ npath rp_d /\ npath rp_z /\
    cover (cfgx true true) r k (w_fs rp_world2) (dirname rp_d) /\ cover (cfgx true true) r k (w_fs rp_world2) (dirname rp_z) /\
    fisdir rp_d (w_fs rp_world2) = true /\ fisdir rp_z (w_fs rp_world2) = true /\
    watch_of_ino k (ino_of (w_fs rp_world2) rp_z) = None /\ in_scope true pR rp_z = false /\
    apply_op rp_world2 (Rename rp_d rp_z) = Some w' /\
    deliver_one (cfgx true true) false rp_world2 k r (Rename rp_d rp_z) = Some [mk DirDeleted rp_d []; parent_modified rp_d] /\
    contract true false pR (w_fs rp_world2) (Rename rp_d rp_z) = [mk DirDeleted rp_d []; parent_modified rp_d].
Proof.
  assert (GR : gpath pR) by (split; [discriminate | reflexivity]).
  assert (GO : gpath pO) by (split; [discriminate | reflexivity]).
  eexists; eexists; eexists. split; [vm_compute; reflexivity|]. split; [reflexivity|]. split; [reflexivity|].
  split; [exact rp_world2_wf|]. split; [apply npath_sub; [exact GR | reflexivity]|].
  split; [apply npath_sub; [exact GO | reflexivity]|].
  split; [vm_compute; eexists; repeat split|]. split; [vm_compute; reflexivity|].
  repeat split; vm_compute; reflexivity.
Qed.
