"""Gated real-kernel driver for the inotify pipeline (C01, C02, C03, C07, C11, C19).

The REAL InotifyObserver runs on a scratch directory against the REAL kernel; its threads are made
deterministic from outside (no source change):
  * watchdog.observers.inotify_c.select -> proxy whose poll() parks the reader thread on a gate,
  * watchdog.observers.inotify_c.os     -> proxy whose read() hands out exactly k whole inotify records
                                           (read one by one from the real descriptor, so the rest stays in the kernel queue),
  * watchdog.observers.inotify_c.inotify_add_watch -> wrapper (call log, optional fault injection),
  * watchdog.utils.delayed_queue.time   -> virtual clock,
  * InotifyBuffer.read_event            -> wrapper parking the emitter thread on a gate.
A history is a list of actions performed by the driver thread:
  op(...) | read(k) | emit() | tick(d) ; waiting is done on semaphores, never on sleeps.
Directory-scan noise (IN_OPEN/IN_CLOSE_NOWRITE with IN_ISDIR) is dropped by the read proxy and counted.
"""
from __future__ import annotations

import errno
import os
import select as _select
import shutil
import struct
import tempfile
import threading
import time as _time

IN = dict(ACCESS=1, MODIFY=2, ATTRIB=4, CLOSE_WRITE=8, CLOSE_NOWRITE=0x10, OPEN=0x20, MOVED_FROM=0x40,
          MOVED_TO=0x80, CREATE=0x100, DELETE=0x200, DELETE_SELF=0x400, MOVE_SELF=0x800,
          UNMOUNT=0x2000, Q_OVERFLOW=0x4000, IGNORED=0x8000, ISDIR=0x40000000)
NAMES = {v: k for k, v in IN.items()}


def mask_names(m):
    return "|".join(n for v, n in sorted(NAMES.items()) if m & v)


class Gate:
    def __init__(self, name):
        self.name = name
        self.arrived = threading.Semaphore(0)
        self.go = threading.Semaphore(0)
        self.payload = None
        self.free = False
        self.parked = 0

    def wait_here(self):
        if self.free:
            return None
        self.parked += 1
        self.arrived.release()
        self.go.acquire()
        self.parked -= 1
        return self.payload

    def await_arrival(self, timeout=10.0):
        return self.arrived.acquire(timeout=timeout)

    def release(self, payload=None):
        self.payload = payload
        self.go.release()

    def open(self):
        self.free = True
        for _ in range(4):
            self.go.release()


class VClock:
    def __init__(self):
        self.now = 1000.0
        self.cond = threading.Condition()

    def time(self):
        return self.now

    monotonic = time

    def sleep(self, d):
        with self.cond:
            target = self.now + d
            while self.now < target and not getattr(self, "free", False):
                self.cond.wait(0.5)
            if getattr(self, "free", False) and self.now < target:
                self.now = target      # free-running (shutdown): time passes as far as anybody sleeps

    def advance(self, d):
        with self.cond:
            self.now += d
            self.cond.notify_all()


class _Proxy:
    def __init__(self, real, **over):
        object.__setattr__(self, "_real", real)
        object.__setattr__(self, "_over", over)

    def __getattr__(self, name):
        over = object.__getattribute__(self, "_over")
        if name in over:
            return over[name]
        return getattr(object.__getattribute__(self, "_real"), name)


class Hang(Exception):
    pass


class GatedObserver:
    """One real InotifyObserver with one watch on a scratch root, driven step by step."""

    UNIT = 0.125

    def __init__(self, root, *, recursive=True, full=False, path_kind="str", event_filter=None, drop_noise=True,
                 extra_watches=()):
        self.root = root
        self.recursive = recursive
        self.full = full
        self.path_kind = path_kind
        self.event_filter = event_filter
        self.drop_noise = drop_noise
        self.hold_dispatch = None        # a threading.Event while the handler is held (dispatcher lags behind the emitter)
        self.gate_poll = Gate("poll")
        self.gate_emit = Gate("emit")
        self.vclock = VClock()
        self.raw_log = []        # every record handed to the reader: (wd, mask, cookie, name)
        self.noise = 0
        self.add_watch_log = []  # (path, result wd or -errno)
        self.add_watch_faults = {}   # call index -> errno
        self.add_watch_hooks = {}    # call index -> callable(path bytes), run right before the real inotify_add_watch
        self.walk_faults = {}        # call index -> errno  (os.walk inside inotify_c)
        self.events = []         # events delivered to the handler, in order
        self.thread_errors = []
        self._lock = threading.Lock()
        self.inotify_fd = None
        self.extra_watches = extra_watches
        self.extra_events = {}
        self.ino_order = {}      # st_ino -> creation index (maintained by the driver of the history)
        self.file_watch = False  # watchdog put a watch on a non-directory (see add_watch wrapper)

    # ------------------------------------------------------------------ patching
    def start(self):
        from watchdog.observers import inotify_buffer, inotify_c
        from watchdog.observers.inotify import InotifyObserver
        from watchdog.utils import delayed_queue
        from watchdog.events import FileSystemEventHandler

        self._saved = {
            "os": inotify_c.os, "select": inotify_c.select, "add": inotify_c.inotify_add_watch,
            "init": inotify_c.inotify_init, "time": delayed_queue.time, "read_event": inotify_buffer.InotifyBuffer.read_event,
            "excepthook": threading.excepthook,
        }
        me = self
        real_init = inotify_c.inotify_init
        real_add = inotify_c.inotify_add_watch

        def init():
            fd = real_init()
            if fd >= 0 and me.inotify_fd is None:
                me.inotify_fd = fd
                os.set_blocking(fd, False)
            return fd

        def add_watch(fd, path, mask):
            n = len(me.add_watch_log)
            if n in me.add_watch_faults:
                import ctypes
                ctypes.set_errno(me.add_watch_faults[n])
                me.add_watch_log.append((path, -me.add_watch_faults[n]))
                return -1
            if n in me.add_watch_hooks:
                me.add_watch_hooks.pop(n)(path)      # a change by another process at exactly this moment
            wd = real_add(fd, path, mask)
            me.add_watch_log.append((path, wd))
            if wd >= 0 and n > 0 and not os.path.isdir(path):
                # a watch on a non-directory (a directory's name re-used by a file before the reader looked):
                # outside the scope of the kernel model, which only has directory watches
                me.file_watch = True
            return wd

        class Poll:
            def __init__(self):
                self.real = _select.poll()
                self.fds = []

            def register(self, fd, mask=None):
                self.fds.append(fd)
                self.real.register(fd, mask if mask is not None else _select.POLLIN)

            def poll(self, timeout=None):
                if me.gate_poll.free:
                    return self.real.poll()
                k = me.gate_poll.wait_here()
                if me.gate_poll.free:
                    return self.real.poll()
                me._handout = k
                return [(me.inotify_fd, _select.POLLIN)]

        def os_read(fd, n):
            if fd == me.inotify_fd and not me.gate_poll.free:
                k = me._handout or 0
                recs = me._read_records(k)
                return b"".join(recs)
            if fd == me.inotify_fd:
                try:
                    return os.read(fd, n)
                except BlockingIOError:
                    return b""
            return os.read(fd, n)

        walk_calls = [0]

        def ordered_walk(top, *a, **kw):
            """os.walk with every listing sorted by creation order of the entries (the order of the model's
            file-system list), so that walk order is deterministic and the same on both sides."""
            def key(root):
                def k(n):
                    try:
                        return me.ino_order.get(os.lstat(os.path.join(root, n)).st_ino, 1 << 60)
                    except OSError:
                        return 1 << 61
                return k
            for root, ds, fs in os.walk(top, *a, **kw):
                ds.sort(key=key(root))
                fs.sort(key=key(root))
                yield root, ds, fs

        def os_walk(top, *a, **kw):
            n = walk_calls[0]
            walk_calls[0] += 1
            if n in me.walk_faults:
                raise OSError(me.walk_faults[n], os.strerror(me.walk_faults[n]), top)
            return ordered_walk(top, *a, **kw)

        orig_read_event = inotify_buffer.InotifyBuffer.read_event

        def read_event(buf):
            me.gate_emit.wait_here()
            return orig_read_event(buf)

        def hook(args):
            me.thread_errors.append((args.thread.name if args.thread else "?", repr(args.exc_value)))

        inotify_c.inotify_init = init
        inotify_c.inotify_add_watch = add_watch
        inotify_c.select = _Proxy(_select, poll=Poll)
        inotify_c.os = _Proxy(os, read=os_read, walk=os_walk)
        from watchdog import events as _events
        self._saved["events_os"] = _events.os
        _events.os = _Proxy(os, walk=ordered_walk)
        delayed_queue.time = self.vclock
        inotify_buffer.InotifyBuffer.read_event = read_event
        threading.excepthook = hook

        class H(FileSystemEventHandler):
            def on_any_event(h, event):
                if me.hold_dispatch is not None:
                    me.hold_dispatch.wait(30)        # a slow handler: the dispatcher falls behind the emitter
                with me._lock:
                    me.events.append(event)

        self.handler = H()
        self.observer = InotifyObserver(generate_full_events=self.full)
        path = self.root
        if self.path_kind == "bytes":
            path = os.fsencode(self.root)
        elif self.path_kind == "path":
            import pathlib
            path = pathlib.Path(self.root)
        self.watch_path = path
        self.watch = self.observer.schedule(self.handler, path, recursive=self.recursive, event_filter=self.event_filter)
        self.observer.start()
        # the reader parks at its first poll, the emitter at its first read_event
        if not self.gate_poll.await_arrival():
            raise Hang("reader thread did not reach poll()")
        if not self.gate_emit.await_arrival():
            raise Hang("emitter thread did not reach read_event()")
        self._reader_parked = True
        self._emitter_parked = True
        return self

    def _read_one(self):
        """Exactly one record from the kernel queue (None if empty)."""
        n = 16
        while n <= 16 + 4096:
            try:
                return os.read(self.inotify_fd, n)
            except BlockingIOError:
                return None
            except OSError as e:
                if e.errno == errno.EINVAL:
                    n += 16
                    continue
                raise
        return None

    def _read_records(self, k):
        out = []
        last = None            # the previous record of this read, and whether only noise came after it
        noise_since = False
        while len(out) < k:
            r = self._read_one()
            if r is None:
                break
            wd, mask, cookie, ln = struct.unpack_from("iIII", r, 0)
            name = r[16:16 + ln].rstrip(b"\0")
            if self.drop_noise and (mask & IN["ISDIR"]) and (mask & (IN["OPEN"] | IN["CLOSE_NOWRITE"] | IN["ACCESS"])) \
                    and not (mask & ~(IN["ISDIR"] | IN["OPEN"] | IN["CLOSE_NOWRITE"] | IN["ACCESS"])):
                self.noise += 1
                noise_since = True
                continue
            rec = (wd, mask, cookie, name)
            if self.drop_noise and noise_since and rec == last:
                # the kernel would have coalesced this record with its identical predecessor had the dropped
                # directory-scan noise not been queued in between: drop it as part of the noise
                self.noise += 1
                noise_since = False
                continue
            last, noise_since = rec, False
            self.raw_log.append(rec)
            out.append(r)
        return out

    # ------------------------------------------------------------------ actions
    def pending_bytes(self):
        import fcntl
        import termios
        buf = bytearray(4)
        fcntl.ioctl(self.inotify_fd, termios.FIONREAD, buf)
        return struct.unpack("i", buf)[0]

    def _await(self, gate, alive, what, timeout=15.0):
        """Wait until the thread parks at `gate` again; returns False if the thread ended instead."""
        t0 = _time.time()
        while True:
            if gate.await_arrival(timeout=0.05):
                return True
            if not alive():
                # the thread may have parked just before we looked
                if gate.await_arrival(timeout=0.05):
                    return True
                return False
            if _time.time() - t0 > timeout:
                raise Hang(f"{what} did not come back (errors={self.thread_errors})")

    def read(self, k=10 ** 6):
        """Let the reader thread take one read() of at most k records; returns the records it was handed."""
        if not self._reader_parked:
            return []
        n0 = len(self.raw_log)
        self.gate_poll.release(k)
        if not self._await(self.gate_poll, self.reader_alive, "reader thread"):
            self._reader_parked = False        # the buffer thread has exited (root deleted or crash)
        return self.raw_log[n0:]

    def reader_maps(self):
        """The reader's book-keeping (Inotify._wd_for_path, Inotify._path_for_wd) as two dicts, or None."""
        try:
            em = self.observer._emitter_for_watch[self.watch]
            ino = em._inotify._inotify
            with ino._lock:
                return dict(ino._wd_for_path), dict(ino._path_for_wd)
        except Exception:
            return None

    def emit(self):
        """Let the emitter thread consume one item of the buffer (must be available); returns the events delivered."""
        if not self._emitter_parked:
            return []
        n0 = len(self.events)
        self.gate_emit.release()
        if not self._await(self.gate_emit, self.emitter_alive, "emitter thread"):
            self._emitter_parked = False       # the emitter stopped itself (root deleted) or crashed
        if self.hold_dispatch is not None:
            return []                    # the events pile up in the observer's queue; release_dispatch() collects them
        self._join_queue()
        return self.events[n0:]

    def _join_queue(self, timeout=8.0):
        """event_queue.join() with a time limit (a queue whose task accounting is broken would block for ever)."""
        q = self.observer.event_queue
        t0 = _time.time()
        with q.all_tasks_done:
            while q.unfinished_tasks:
                left = timeout - (_time.time() - t0)
                if left <= 0:
                    raise Hang(f"the observer's event queue did not drain: unfinished_tasks={q.unfinished_tasks}, "
                               f"queued={len(q.queue)} (errors={self.thread_errors})")
                q.all_tasks_done.wait(min(left, 0.5))

    def release_dispatch(self):
        """End a held-dispatcher phase: every event queued meanwhile is delivered now; returns them."""
        n0 = len(self.events)
        ev, self.hold_dispatch = self.hold_dispatch, None
        if ev is not None:
            ev.set()
        self._join_queue()
        return self.events[n0:]

    def tick(self, units):
        self.vclock.advance(units * self.UNIT)

    def reader_alive(self):
        return any(type(t).__name__ == "InotifyBuffer" and t.is_alive() for t in threading.enumerate())

    def emitter_alive(self):
        return any(type(t).__name__ in ("InotifyEmitter", "InotifyFullEmitter") and t.is_alive()
                   for t in threading.enumerate())

    # ------------------------------------------------------------------ shutdown
    def stop(self):
        from watchdog.observers import inotify_buffer, inotify_c
        from watchdog.utils import delayed_queue
        self.vclock.free = True
        self.gate_poll.open()
        self.gate_emit.open()
        with self.vclock.cond:
            self.vclock.cond.notify_all()
        try:
            self.observer.stop()
            self.observer.join(timeout=10)
        finally:
            inotify_c.os = self._saved["os"]
            from watchdog import events as _events
            _events.os = self._saved["events_os"]
            inotify_c.select = self._saved["select"]
            inotify_c.inotify_add_watch = self._saved["add"]
            inotify_c.inotify_init = self._saved["init"]
            delayed_queue.time = self._saved["time"]
            inotify_buffer.InotifyBuffer.read_event = self._saved["read_event"]
            threading.excepthook = self._saved["excepthook"]
        return not self.observer.is_alive()


def scratch():
    base = "/dev/shm" if os.path.isdir("/dev/shm") else None
    return tempfile.mkdtemp(prefix="wdg", dir=base)
