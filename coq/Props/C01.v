(* C01 - Replaying the native (inotify) event stream reproduces the real directory tree.
   Only statements; every proof is `exact <lemma>`.

   [replay] (Proofs/ReplayProofs.v) is harness/pipeprops.py `replay` as a Gallina function over association lists
   (Python dicts) - INCLUDING the current rule for Moved events: a Moved event, synthetic or not, whose source is not
   a key of the replayed tree creates its destination (`if src not in tree: tree[dest] = isdir`), and a Moved event
   whose source is present is applied as a move of the whole sub-tree, synthetic or not.  [in_scope] is
   Contract.in_scope (below the root; non-recursive: a direct child) which agrees with pipeprops.in_scope on the paths
   of a well-formed tree.  Trees are compared as finite maps ([tree_of w] = scope_listing).
   [TInv rec root t w]: the keys of t are distinct and t, as a finite map, is the tree of w in scope.
   The reader/kernel invariant is C02's RSync (Proofs/CoverProofs.v); the event lists come from Contract.deliver_one =
   read the whole kernel queue in one batch, group it (a MOVED_FROM/MOVED_TO pair of one cookie is one item:
   Contract.group_batch = Grouping.pair_in_grouped on one batch), emit every item; the per-operation contract lemmas
   of C03 (Proofs/ContractProofs.v) are reused: replay only looks at the first structural event of each contract. *)
Require Import WD.Base.Prelude WD.Base.BStr WD.Model.SubEvents WD.Model.Emitter WD.Model.Fs WD.Model.Reader
               WD.Model.Pipeline WD.Model.Contract WD.Proofs.CoverProofs WD.Proofs.CoverOutProofs WD.Proofs.ReplayProofs WD.Proofs.ReplayOutProofs WD.Proofs.ReplayPipeProofs
               WD.Proofs.ContractProofs WD.Proofs.TieStrongProofs WD.Proofs.CutsProofs WD.Proofs.CutsReaderProofs WD.Proofs.CutsShapeProofs WD.Proofs.CutsPipeProofs.

(* ---- the association-list replay has the obvious pointwise meaning, and keeps keys distinct *)
Theorem C01_replay_semantics : forall recursive root t e, NoDup (map fst t) ->
  NoDup (map fst (replay1 recursive root t e)) /\
  forall x, alookup beqb x (replay1 recursive root t e) = freplay1 recursive root (fun y => alookup beqb y t) e x.
Proof. intros recursive root t e H. split; [now apply replay1_nodup | exact (replay1_sem recursive root t e H)]. Qed.
Print Assumptions C01_replay_semantics.

(* ---- what each contract (C03) does to the real tree: its first event turns the tree before the operation into the
   tree after it, every event of the contract leaves the tree after it unchanged *)
Theorem C01_contract_replay : forall C full w o w', wf_fs w -> c01_op0 C w o -> apply_op w o = Some w' ->
  ctr_ok (c_recursive C) (c_root C) (tl (c_recursive C) (c_root C) w) (tl (c_recursive C) (c_root C) w')
         (contract (c_recursive C) full (c_root C) (w_fs w) o).
Proof. exact ctr_ok_covered. Qed.
Print Assumptions C01_contract_replay.

(* ---- the one-operation replay law.  c01_op0 = C02's covered_op minus the directory renames that are not inside the
   tree of a recursive watch (Touch, Write, Chmod of a file or a directory other
   than the root, Unlink, Mkdir, Rmdir, Rename of a file - inside / out = deleted / in = created / replacing a file,
   normal and full emitter -, Rename of a directory inside the tree of a recursive watch to a fresh name = Moved +
   one synthetic Moved per descendant). *)
Theorem C01_replay_step : forall C full w k r o w' t, c_faults C = [] -> c_mask C = WATCHDOG_ALL ->
  RSync C w k r -> c01_op C w o -> apply_op w o = Some w' -> TInv (c_recursive C) (c_root C) t w ->
  let k1 := kernel_op k (w_fs w) o in
  exists r' k' raws,
    read_batch C (w_fs w') (r, drainq k1, []) (k_queue k1) = Done (r', k', raws) /\ RSync C w' k' r' /\
    deliver_one C full w k r o = Some (delivered C full w' raws) /\
    TInv (c_recursive C) (c_root C) (replay (c_recursive C) (c_root C) t (delivered C full w' raws)) w'.
Proof. exact replay_step. Qed.
Print Assumptions C01_replay_step.

(* c01_op = c01_op0 (above: the operations whose delivered events are C03's contract) or c01_in: a directory - with
   whatever it contains - moved INTO the tree of a recursive watch from outside, to a fresh name.  Its events are
   DirCreated(q) [full emitter: DirMoved(None, q)], DirModified(parent), one synthetic created event per descendant
   (generate_sub_created_events over os.walk(q), C14_created); os.walk lists exactly the entries below q with their kinds
   (C01_movein_listing), so the replay inserts exactly the sub-tree that the rename put below q (C01_movein_sem). *)
Theorem C01_movein_listing : forall w q, wf_fs w -> fisdir q (w_fs w) = true -> forall x v,
  In (x, v) (map (fun d : kind * list bytes => (q ++ relsuffix (snd d), kdir (fst d))) (desc [] (content (w_fs w) q))) <->
  exists e, In e (w_fs w) /\ f_path e = x /\ f_dir e = v /\ under q x = true.
Proof. exact content_listing. Qed.
Print Assumptions C01_movein_listing.

Theorem C01_replay_step_in : forall C full w k r p q ep w' t, c_faults C = [] -> c_mask C = WATCHDOG_ALL -> RSync C w k r ->
  npath p -> npath q -> c_recursive C = true -> c_fix_movein C = true ->
  flookup p (w_fs w) = Some ep -> f_dir ep = true -> ~ scope C p -> under p (c_root C) = false -> scope C q ->
  flookup q (w_fs w) = None -> apply_op w (Rename p q) = Some w' -> TInv (c_recursive C) (c_root C) t w ->
  let k1 := kernel_op k (w_fs w) (Rename p q) in
  exists r' k' raws,
    read_batch C (w_fs w') (r, drainq k1, []) (k_queue k1) = Done (r', k', raws) /\ RSync C w' k' r' /\
    deliver_one C full w k r (Rename p q) = Some (delivered C full w' raws) /\
    TInv (c_recursive C) (c_root C) (replay (c_recursive C) (c_root C) t (delivered C full w' raws)) w'.
Proof. exact replay_step_in. Qed.
Print Assumptions C01_replay_step_in.

(* the delivered stream of a moved-in directory, exactly *)
Theorem C01_movein_delivered : forall C full w' wd c q, c_recursive C = true ->
  delivered C full w' [{| r_wd := wd; r_mask := N.lor IN_MOVED_TO IN_ISDIR; r_cookie := c; r_name := basename q; r_path := q |}]
  = movein_events full q (content (w_fs w') q).
Proof. exact delivered_movein. Qed.
Print Assumptions C01_movein_delivered.

(* ... and over an EMPTY DIRECTORY of the tree (C02_step_rename_dir_in_over): the delivered stream is the stream of the move-in
   followed by events about the replaced directory (DirModified(q) from its IN_ATTRIB; its IN_DELETE_SELF and IN_IGNORED
   emit nothing), which leave the replayed tree alone.  One-step law; NOT yet a disjunct of c01_op: C03's
   SoundSeqProofs.c01x_np states "no directory is replaced" (novictim) for every operation of c01_x, which this operation
   violates - the classes have to be split there first. *)
Theorem C01_replay_step_in_over : forall C full w k r p q ep v w' t, c_faults C = [] -> c_mask C = WATCHDOG_ALL -> RSync C w k r ->
  npath p -> npath q -> c_recursive C = true -> c_fix_movein C = true ->
  flookup p (w_fs w) = Some ep -> f_dir ep = true -> ~ scope C p -> under p (c_root C) = false -> scope C q -> q <> c_root C ->
  flookup q (w_fs w) = Some v -> f_dir v = true -> apply_op w (Rename p q) = Some w' -> TInv (c_recursive C) (c_root C) t w ->
  let k1 := kernel_op k (w_fs w) (Rename p q) in
  exists r' k' raws,
    read_batch C (w_fs w') (r, drainq k1, []) (k_queue k1) = Done (r', k', raws) /\ RSync C w' k' r' /\
    deliver_one C full w k r (Rename p q) = Some (delivered C full w' raws) /\
    TInv (c_recursive C) (c_root C) (replay (c_recursive C) (c_root C) t (delivered C full w' raws)) w'.
Proof. exact replay_step_in_over. Qed.
Print Assumptions C01_replay_step_in_over.

(* ---- sequential histories of any length over trees of any size: every operation is followed by a read of the
   whole kernel queue and the emission of the grouped items ([drun] accumulates the stream) *)
Theorem C01_sequential_synced_partial : forall C full, c_faults C = [] -> c_mask C = WATCHDOG_ALL ->
  forall ops w k r t0 out, RSync C w k r ->
  TInv (c_recursive C) (c_root C) (replay (c_recursive C) (c_root C) t0 out) w -> ops_c01 C w ops ->
  exists w' k' r' out', drun C full w k r ops out = Some (w', k', r', out') /\ RSync C w' k' r' /\
    TInv (c_recursive C) (c_root C) (replay (c_recursive C) (c_root C) t0 out') w'.
Proof. exact replay_sequential. Qed.
Print Assumptions C01_sequential_synced_partial.

(* from a fresh watch: replaying the whole stream on the initial tree gives the final tree *)
Theorem C01_from_start_synced_partial : forall C full ops w, c_faults C = [] -> c_mask C = WATCHDOG_ALL -> wf_fs w ->
  fisdir (c_root C) (w_fs w) = true -> ops_c01 C w ops ->
  exists r0 k0 w' k' r' out, construct C kinit (w_fs w) = Some (r0, k0) /\
    drun C full w k0 r0 ops [] = Some (w', k', r', out) /\
    forall x, alookup beqb x (replay (c_recursive C) (c_root C) (tree_of (c_recursive C) (c_root C) w) out)
            = alookup beqb x (tree_of (c_recursive C) (c_root C) w').
Proof. exact replay_from_start. Qed.
Print Assumptions C01_from_start_synced_partial.

(* ---- the same block on the Pipeline model, through DelayQueue and Grouping (by C03_pipeline_tie): from an idle
   pipeline (ContractProofs.buffer_idle: nothing queued, nothing being grouped, consumer outside get()) the history
   AOp o; ARead (whole kernel queue); ATick delay; AEmit x nit  appends to p_out a stream whose replay is the new tree *)
Theorem C01_block_pipeline : forall P s o w' t0, let C := pc_reader P in
  c_faults C = [] -> c_mask C = WATCHDOG_ALL -> pc_filter P = None ->
  ContractProofs.buffer_idle (p_buf s) -> p_stopped s = false ->
  (forall id, In id (map fst (p_tbl s)) -> (id < p_next s)%N) ->
  RSync C (p_world s) (p_k s) (p_r s) -> c01_op C (p_world s) o -> apply_op (p_world s) o = Some w' ->
  TInv (c_recursive C) (c_root C) (replay (c_recursive C) (c_root C) t0 (p_out s)) (p_world s) ->
  exists nit s' obs, prun P s (ContractProofs.tie_history P s o nit) [] = Done (s', obs) /\
    TInv (c_recursive C) (c_root C) (replay (c_recursive C) (c_root C) t0 (p_out s')) w'.
Proof. exact replay_block. Qed.
Print Assumptions C01_block_pipeline.

(* ---- sequences of blocks on the Pipeline model, of any length: the history is one block
   AOp o; ARead (whole kernel queue); ATick delay; AEmit x nit   per applicable operation ([block_hist]); after every
   block the pipeline is synchronised and idle again ([PSync]: RSync, nothing buffered, reader thread and emitter alive -
   no raw event of a covered operation announces the end of the root), and the replay of p_out is the tree *)
Theorem C01_sequential_pipeline_synced_partial : forall P t0, let C := pc_reader P in
  c_faults C = [] -> c_mask C = WATCHDOG_ALL -> pc_filter P = None ->
  forall ops s, PSync P s -> ops_c01 C (p_world s) ops ->
  TInv (c_recursive C) (c_root C) (replay (c_recursive C) (c_root C) t0 (p_out s)) (p_world s) ->
  exists h s' obs, block_hist P s ops h /\ prun P s h [] = Done (s', obs) /\ PSync P s' /\
    TInv (c_recursive C) (c_root C) (replay (c_recursive C) (c_root C) t0 (p_out s')) (p_world s').
Proof. exact blocks_replay. Qed.
Print Assumptions C01_sequential_pipeline_synced_partial.

Theorem C01_pipeline_from_start_synced_partial : forall P ops w s0, let C := pc_reader P in
  c_faults C = [] -> c_mask C = WATCHDOG_ALL -> pc_filter P = None -> wf_fs w -> fisdir (c_root C) (w_fs w) = true ->
  pinit P w = Some s0 -> ops_c01 C w ops ->
  exists h s' obs, block_hist P s0 ops h /\ prun P s0 h [] = Done (s', obs) /\ PSync P s' /\
    forall x, alookup beqb x (replay (c_recursive C) (c_root C) (tree_of (c_recursive C) (c_root C) w) (p_out s'))
            = alookup beqb x (tree_of (c_recursive C) (c_root C) (p_world s')).
Proof. exact replay_pipeline_from_start. Qed.
Print Assumptions C01_pipeline_from_start_synced_partial.

(* ================================================================== past directory move-outs (the repair of F10) *)
(* Vocabulary: Proofs/CoverOutProofs.v (GS, hot, hot_next, watched_parent, notified, blw - see Props/C02.v) and
   Proofs/ReplayOutProofs.v: c01_x = c01_op or a directory of the tree moved out to a fresh place outside;
   step_ok1 C w hot o: hot = None: c01_x; hot = Some h (a directory has just left to h): c01_op, acting in a directory
   of the tree and notifying no directory at or below h.  Current code only (c_fix_moveout = true). *)

(* the replay law for a directory that leaves the tree: deleted (full emitter: Moved(p, "")) + parent modified removes
   the whole sub-tree from the replayed tree *)
Theorem C01_replay_step_out : forall C full, c_mask C = WATCHDOG_ALL -> forall w k r p q w' ep t,
  RSync C w k r -> npath p -> npath q -> c_recursive C = true ->
  apply_op w (Rename p q) = Some w' -> flookup p (w_fs w) = Some ep -> f_dir ep = true ->
  scope C p -> p <> c_root C -> ~ scope C q -> flookup q (w_fs w) = None ->
  TInv (c_recursive C) (c_root C) t w ->
  let k1 := kernel_op k (w_fs w) (Rename p q) in
  forall r' k' raws, read_batch C (w_fs w') (r, drainq k1, []) (k_queue k1) = Done (r', k', raws) ->
  TInv (c_recursive C) (c_root C) (replay (c_recursive C) (c_root C) t (delivered C full w' raws)) w'.
Proof. exact replay_step_out. Qed.
Print Assumptions C01_replay_step_out.

(* one operation from a state synchronised up to junk, or right after a directory move-out *)
Theorem C01_replay_step_x : forall C full, c_faults C = [] -> c_fix_moveout C = true -> c_mask C = WATCHDOG_ALL ->
  forall w k r hot o w' t, GS C w k r hot -> step_ok1 C w hot o -> apply_op w o = Some w' ->
  TInv (c_recursive C) (c_root C) t w ->
  let k1 := kernel_op k (w_fs w) o in
  exists r' k' raws, read_batch C (w_fs w') (r, drainq k1, []) (k_queue k1) = Done (r', k', raws) /\
    GS C w' k' r' (hot_next C w hot o) /\ Forall (rsafe C) raws /\
    TInv (c_recursive C) (c_root C) (replay (c_recursive C) (c_root C) t (delivered C full w' raws)) w'.
Proof. exact gs_replay_step. Qed.
Print Assumptions C01_replay_step_x.

(* sequential histories of any length containing directory move-outs followed by anything in step_ok1 *)
Theorem C01_sequential_partial : forall C full, c_faults C = [] -> c_fix_moveout C = true -> c_mask C = WATCHDOG_ALL ->
  forall ops w k r hot t0 out, GS C w k r hot ->
  TInv (c_recursive C) (c_root C) (replay (c_recursive C) (c_root C) t0 out) w -> ops_x1 C w hot ops ->
  exists w' k' r' out' hot', drun C full w k r ops out = Some (w', k', r', out') /\ GS C w' k' r' hot' /\
    TInv (c_recursive C) (c_root C) (replay (c_recursive C) (c_root C) t0 out') w'.
Proof. exact replay_sequential_x. Qed.
Print Assumptions C01_sequential_partial.

Theorem C01_from_start_partial : forall C full, c_faults C = [] -> c_fix_moveout C = true -> c_mask C = WATCHDOG_ALL ->
  forall ops w, wf_fs w -> fisdir (c_root C) (w_fs w) = true -> ops_x1 C w None ops ->
  exists r0 k0 w' k' r' out, construct C kinit (w_fs w) = Some (r0, k0) /\
    drun C full w k0 r0 ops [] = Some (w', k', r', out) /\
    forall x, alookup beqb x (replay (c_recursive C) (c_root C) (tree_of (c_recursive C) (c_root C) w) out)
            = alookup beqb x (tree_of (c_recursive C) (c_root C) w').
Proof. exact replay_from_start_x. Qed.
Print Assumptions C01_from_start_partial.

(* on the Pipeline model, block by block *)
Theorem C01_sequential_pipeline_partial : forall P t0, let C := pc_reader P in
  c_faults C = [] -> c_fix_moveout C = true -> c_mask C = WATCHDOG_ALL -> pc_filter P = None ->
  forall ops s hot, PSx P s hot -> ops_x1 C (p_world s) hot ops ->
  TInv (c_recursive C) (c_root C) (replay (c_recursive C) (c_root C) t0 (p_out s)) (p_world s) ->
  exists h s' obs hot', block_hist_x P s ops h /\ prun P s h [] = Done (s', obs) /\ PSx P s' hot' /\
    TInv (c_recursive C) (c_root C) (replay (c_recursive C) (c_root C) t0 (p_out s')) (p_world s').
Proof. exact blocks_replay_x. Qed.
Print Assumptions C01_sequential_pipeline_partial.

Theorem C01_pipeline_from_start_partial : forall P ops w s0, let C := pc_reader P in
  c_faults C = [] -> c_fix_moveout C = true -> c_mask C = WATCHDOG_ALL -> pc_filter P = None -> wf_fs w ->
  fisdir (c_root C) (w_fs w) = true -> pinit P w = Some s0 -> ops_x1 C w None ops ->
  exists h s' obs hot', block_hist_x P s0 ops h /\ prun P s0 h [] = Done (s', obs) /\ PSx P s' hot' /\
    forall x, alookup beqb x (replay (c_recursive C) (c_root C) (tree_of (c_recursive C) (c_root C) w) (p_out s'))
            = alookup beqb x (tree_of (c_recursive C) (c_root C) (p_world s')).
Proof. exact replay_pipeline_from_start_x. Qed.
Print Assumptions C01_pipeline_from_start_partial.

(* pinned code (cfgo false: c_fix_moveout = c_fix_relabel = false; either repair alone replays it) on the F10d history mkdir R/b; mkdir R/b/b; mv R/b/b O/x; mv O/x R/n; mv R/b R/m;
   touch R/n/f : the replayed stream is NOT the tree (events carry the stale path) *)
Theorem C01_f10d_pinned_refuted : run_replay (cfgo false) f10d_ops = Some false.
Proof. exact f10d_replay_pinned_refuted. Qed.
Print Assumptions C01_f10d_pinned_refuted.

(* ================================================================== the full statements *)
Definition repaired (C : cfg) : Prop :=
  c_faults C = [] /\ c_fix_ignored C = true /\ c_fix_movein C = true /\ c_fix_simulate C = true /\ c_mask C = WATCHDOG_ALL.

Definition quiescent (s : pstate) : Prop :=
  k_queue (p_k s) = [] /\ DelayQueue.q (fst (p_buf s)) = [] /\ buf_ready (p_buf s).

Definition tree_eq (a b : tree) : Prop := forall p, alookup beqb p a = alookup beqb p b.

(* sequential layer (DESIGN.md C01 layer 1): every operation on a normal path that leaves the root alone, each
   followed by a full drain of the Pipeline model (ARead of the whole kernel queue, then AEmit / ATick until the
   delay queue is empty).
   MISSING relative to C01_sequential_partial: (a) the operation kinds outside c01_x - a directory moved into the
   tree over an empty directory (its one-step law is C01_replay_step_in_over; not yet in c01_op), a directory moved out onto an existing name, a directory renamed
   over an empty directory, an operation inside a directory that has just left the tree (before the next record),
   directory renames under a non-recursive watch or entirely outside the tree (C02 covers their watch state, their
   replay is not proved), Chmod of the root; (b) [seq_run]'s drain (AEmit / ATick driven by the queue) instead of the
   fixed block shape of C01_sequential_pipeline_partial. *)
Definition C01_sequential_full : Prop :=
  forall P, repaired (pc_reader P) -> pc_filter P = None ->
  forall w0 s0, wf_fs w0 -> fisdir (c_root (pc_reader P)) (w_fs w0) = true -> pinit P w0 = Some s0 ->
  forall ops, Forall (fun o => op_np o /\ op_keeps_root (pc_reader P) o) ops ->
  forall fuel s, seq_run P fuel s0 ops = Done s -> quiescent s ->
  tree_eq (replay (c_recursive (pc_reader P)) (c_root (pc_reader P))
                  (tree_of (c_recursive (pc_reader P)) (c_root (pc_reader P)) w0) (p_out s))
          (tree_of (c_recursive (pc_reader P)) (c_root (pc_reader P)) (p_world s)).

(* the property itself (DESIGN.md C01): any history of the gated driver's actions that respects the directory pacing
   condition; [paced] = no operation touches the contents or re-uses a name of a directory that was created, renamed,
   moved or removed since the pipeline was last quiescent (a directory may be renamed again right after it arrived).
   MISSING relative to the sequential layer: bursts (several operations between two reads), arbitrary read cuts
   (ARead k with k smaller than the queue: a MOVED_FROM and its MOVED_TO in different reads are paired through the
   delay queue, or degrade to deleted + created), ATicks at arbitrary points. *)
Definition dir_op_paths (t : fs) (o : op) : list bytes :=
  match o with
  | Mkdir p | Rmdir p => [p]
  | Rename p q => if fisdir p t then [p; q] else []
  | _ => []
  end.
Definition op_paths (o : op) : list bytes :=
  match o with Touch p | Write p | Chmod p | Unlink p | Mkdir p | Rmdir p => [p] | Rename p q => [p; q] end.
Definition touches_hot (hot : list bytes) (o : op) : bool :=
  existsb (fun h => existsb (fun p => under h p || (beqb p h && match o with Rename _ _ => false | _ => true end))
                            (op_paths o)) hot.
Fixpoint paced (P : pcfg) (s : pstate) (hot : list bytes) (h : list action) : Prop :=
  match h with
  | [] => True
  | a :: h' =>
    match pstep P s a with
    | Crash _ => True
    | Done (s', _) =>
      let hot0 := match a with AOp _ => hot | _ => if match DelayQueue.q (fst (p_buf s')), k_queue (p_k s') with [], [] => true | _, _ => false end then [] else hot end in
      match a with
      | AOp o => touches_hot hot o = false /\ paced P s' (dir_op_paths (w_fs (p_world s)) o ++ hot) h'
      | _ => paced P s' hot0 h'
      end
    end
  end.
Definition C01_replay_full : Prop :=
  forall P, repaired (pc_reader P) -> pc_filter P = None ->
  forall w0 s0, wf_fs w0 -> fisdir (c_root (pc_reader P)) (w_fs w0) = true -> pinit P w0 = Some s0 ->
  forall h, paced P s0 [] h ->
  (forall o, In (AOp o) h -> op_np o /\ op_keeps_root (pc_reader P) o) ->
  forall s obs, prun P s0 h [] = Done (s, obs) -> quiescent s ->
  tree_eq (replay (c_recursive (pc_reader P)) (c_root (pc_reader P))
                  (tree_of (c_recursive (pc_reader P)) (c_root (pc_reader P)) w0) (p_out s))
          (tree_of (c_recursive (pc_reader P)) (c_root (pc_reader P)) (p_world s)).

(* ================================================================== non-vacuity *)

(* the replay function on a concrete stream: created, a directory moved with its sub-tree (the synthetic event of the
   descendant finds its source gone and only confirms the destination), an event out of scope, deleted *)
Example C01_replay_example :
  let R := pR in
  replay true R []
    [ mk DirCreated (sub R 97) []; mk FileCreated (sub (sub R 97) 102) []; mk DirModified R [];
      mk DirMoved (sub R 97) (sub R 98);
      {| ev_cls := FileMoved; ev_src := sub (sub R 97) 102; ev_dest := sub (sub R 98) 102; ev_synth := true |};
      mk FileCreated (sub pO 120) [];
      mk FileMoved (sub R 120) (sub R 121);                      (* source never announced: the destination exists now *)
      mk FileDeleted (sub (sub R 98) 102) [] ]
  = [(sub R 98, true); (sub R 121, false)].
Proof. vm_compute. reflexivity. Qed.

(* a history through every constructor of c01_op, run on the model from Inotify.__init__ on: the replay of the
   delivered stream IS the final tree (both computed) *)
Definition c01_ops : list op :=
  [Mkdir (sub pR 97); Mkdir (sub (sub pR 97) 99); Touch (sub (sub pR 97) 102); Write (sub (sub pR 97) 102);
   Chmod (sub (sub pR 97) 102); Chmod (sub pR 97);
   Rename (sub pR 97) (sub pR 98);                                   (* directory with a sub-directory and a file *)
   Rename (sub (sub pR 98) 102) (sub pR 102);                        (* file, inside *)
   Rename (sub pR 102) (sub pO 102);                                 (* file, out *)
   Rename (sub pO 102) (sub (sub pR 98) 103);                        (* file, in *)
   Unlink (sub (sub pR 98) 103); Rmdir (sub (sub pR 98) 99); Rmdir (sub pR 98)].

Example C01_ops_nonvacuous : ops_c01 (cfgx true true) w0 c01_ops.
Proof.
  assert (GR : gpath pR) by (split; [discriminate | reflexivity]).
  assert (GO : gpath pO) by (split; [discriminate | reflexivity]).
  assert (Na : forall n, valid_name [n] = true -> npath (sub pR n)) by (intros; now apply npath_sub).
  assert (No : forall n, valid_name [n] = true -> npath (sub pO n)) by (intros; now apply npath_sub).
  assert (Nb : forall m n, valid_name [m] = true -> valid_name [n] = true -> npath (sub (sub pR m) n)).
  { intros. apply npath_sub; [apply npath_gpath; now apply Na | assumption]. }
  unfold c01_ops.
  eapply ops_c01_cons; [vm_compute; reflexivity | left; split; [apply co_mkdir; now apply Na | exact I] |].
  eapply ops_c01_cons; [vm_compute; reflexivity | left; split; [apply co_mkdir; now apply Nb | exact I] |].
  eapply ops_c01_cons; [vm_compute; reflexivity | left; split; [apply co_quiet; [exact I | now apply Nb] | exact I] |].
  eapply ops_c01_cons; [vm_compute; reflexivity | left; split; [apply co_quiet; [exact I | now apply Nb] | exact I] |].
  eapply ops_c01_cons; [vm_compute; reflexivity | left; split; [apply co_quiet; [exact I | now apply Nb] | vm_compute; discriminate] |].
  eapply ops_c01_cons; [vm_compute; reflexivity | left; split; [apply co_quiet; [exact I | now apply Na] | vm_compute; discriminate] |].
  eapply ops_c01_cons; [vm_compute; reflexivity | left; split; [|intros _; split; [right; vm_compute; reflexivity | split; [reflexivity | vm_compute; reflexivity]]] |].
  { eapply co_rename_dir; try (now apply Na); try reflexivity; try (vm_compute; reflexivity);
      try (right; vm_compute; reflexivity); try (vm_compute; discriminate). }
  eapply ops_c01_cons; [vm_compute; reflexivity | left; split; [|intros H; vm_compute in H; discriminate] |].
  { eapply co_rename_file; try (now apply Na); try (now apply Nb); try (vm_compute; reflexivity). }
  eapply ops_c01_cons; [vm_compute; reflexivity | left; split; [|intros H; vm_compute in H; discriminate] |].
  { eapply co_rename_file; try (now apply Na); try (now apply No); try (vm_compute; reflexivity). }
  eapply ops_c01_cons; [vm_compute; reflexivity | left; split; [|intros H; vm_compute in H; discriminate] |].
  { eapply co_rename_file; try (now apply No); try (now apply Nb); try (vm_compute; reflexivity). }
  eapply ops_c01_cons; [vm_compute; reflexivity | left; split; [apply co_quiet; [exact I | now apply Nb] | exact I] |].
  eapply ops_c01_cons; [vm_compute; reflexivity | left; split; [apply co_rmdir; [now apply Nb | vm_compute; discriminate] | exact I] |].
  eapply ops_c01_cons; [vm_compute; reflexivity | left; split; [apply co_rmdir; [now apply Na | vm_compute; discriminate] | exact I] |].
  exact I.
Qed.

Example C01_sequential_example :
  exists r0 k0 w' k' r' out, construct (cfgx true true) kinit (w_fs w0) = Some (r0, k0) /\
    drun (cfgx true true) false w0 k0 r0 (firstn 10 c01_ops) [] = Some (w', k', r', out) /\
    length out = 28 /\
    tree_of true pR w' = [(sub pR 98, true); (sub (sub pR 98) 99, true); (sub (sub pR 98) 103, false)] /\
    same_tree (replay true pR (tree_of true pR w0) out) (tree_of true pR w') = true.
Proof. eexists _, _, _, _, _, _. split; [vm_compute; reflexivity|]. split; [vm_compute; reflexivity|]. vm_compute. auto. Qed.

(* the Pipeline model run block by block (6 AEmit per block) on the first ten operations of c01_ops *)
Example C01_pipeline_example :
  exists s0 s', pinit (Px true) w0 = Some s0 /\ run_blocks (Px true) 6 s0 (firstn 10 c01_ops) = Some s' /\
    p_stopped s' = false /\ length (p_out s') = 28 /\
    same_tree (replay true pR (tree_of true pR w0) (p_out s')) (tree_of true pR (p_world s')) = true.
Proof. eexists _, _. split; [vm_compute; reflexivity|]. split; [vm_compute; reflexivity|]. vm_compute. auto. Qed.

(* the F10 histories on the repaired model: the replayed stream is the tree; and they satisfy ops_x1 *)
Example C01_f10_repaired : run_replay (cfgo true) f10d_ops = Some true /\ run_replay (cfgo true) f10b_ops = Some true.
Proof. exact f10d_replay_repaired. Qed.

Example C01_f10b_ops_x1_nonvacuous : ops_x1 (cfgo true) w0 None f10b_ops.
Proof.
  assert (GR : gpath pR) by (split; [discriminate | reflexivity]).
  assert (GO : gpath pO) by (split; [discriminate | reflexivity]).
  assert (Na : forall n, valid_name [n] = true -> npath (sub pR n)) by (intros; now apply npath_sub).
  assert (No : forall n, valid_name [n] = true -> npath (sub pO n)) by (intros; now apply npath_sub).
  assert (NS : forall p, ~ scope (cfgo true) (sub pO p)) by (intros p [H|H]; vm_compute in H; discriminate).
  unfold f10b_ops.
  eapply ops_x1_cons; [vm_compute; reflexivity | apply c1_op; left; split; [apply co_mkdir; now apply Na | exact I] |].
  eapply ops_x1_cons; [vm_compute; reflexivity | |].
  { eapply c1_out; try (now apply Na); try (now apply No); try reflexivity; try (vm_compute; reflexivity);
      try (right; vm_compute; reflexivity); try (vm_compute; discriminate). apply NS. }
  vm_compute hot_next.
  eapply ops_x1_cons; [vm_compute; reflexivity | |].
  { split; [left; split; [apply co_mkdir; now apply Na | exact I]|]. split.
    - exists pR. split; [now left|]. split; [now left | reflexivity].
    - intros d [<-|[]]. vm_compute. reflexivity. }
  vm_compute hot_next.
  eapply ops_x1_cons; [vm_compute; reflexivity | |].
  { apply c1_op. left. split; [|intros _; split; [right; vm_compute; reflexivity | split; [reflexivity | vm_compute; reflexivity]]].
    eapply co_rename_dir; try (now apply Na); try reflexivity; try (vm_compute; reflexivity);
      try (right; vm_compute; reflexivity); try (vm_compute; discriminate). }
  exact I.
Qed.
(* the F10d history  mkdir R/b; mkdir R/b/b; mv R/b/b O/x; mv O/x R/n; mv R/b R/m; touch R/n/f  contains a directory
   moved out and moved back IN under another name (right after the move-out): it is a history of the replay law *)
Example C01_f10d_ops_x1 : ops_x1 (cfgo true) w0 None f10d_ops.
Proof.
  assert (GR : gpath pR) by (split; [discriminate | reflexivity]).
  assert (GO : gpath pO) by (split; [discriminate | reflexivity]).
  assert (Na : forall n, valid_name [n] = true -> npath (sub pR n)) by (intros; now apply npath_sub).
  assert (No : forall n, valid_name [n] = true -> npath (sub pO n)) by (intros; now apply npath_sub).
  assert (Nb : forall m n, valid_name [m] = true -> valid_name [n] = true -> npath (sub (sub pR m) n)).
  { intros. apply npath_sub; [apply npath_gpath; now apply Na | assumption]. }
  assert (NS : forall p, ~ scope (cfgo true) (sub pO p)) by (intros p [H|H]; vm_compute in H; discriminate).
  unfold f10d_ops.
  eapply ops_x1_cons; [vm_compute; reflexivity | apply c1_op; left; split; [apply co_mkdir; now apply Na | exact I] |].
  eapply ops_x1_cons; [vm_compute; reflexivity | apply c1_op; left; split; [apply co_mkdir; now apply Nb | exact I] |].
  eapply ops_x1_cons; [vm_compute; reflexivity | |].
  { eapply c1_out; try (now apply Nb); try (now apply No); try reflexivity; try (vm_compute; reflexivity);
      try (right; vm_compute; reflexivity); try (vm_compute; discriminate). apply NS. }
  vm_compute hot_next.
  eapply ops_x1_cons; [vm_compute; reflexivity | |].
  { split; [|split].
    - right. eexists. split; [now apply No|]. split; [now apply Na|]. split; [reflexivity|]. split; [reflexivity|].
      split; [vm_compute; reflexivity|]. split; [reflexivity|]. split; [apply NS|]. split; [vm_compute; reflexivity|].
      split; [right; vm_compute; reflexivity | vm_compute; reflexivity].
    - exists pR. split; [right; now left|]. split; [now left | reflexivity].
    - intros d [<-|[<-|[<-|[]]]]; vm_compute; reflexivity. }
  vm_compute hot_next.
  eapply ops_x1_cons; [vm_compute; reflexivity | |].
  { apply c1_op. left. split; [|intros _; split; [right; vm_compute; reflexivity | split; [reflexivity | vm_compute; reflexivity]]].
    eapply co_rename_dir; try (now apply Na); try reflexivity; try (vm_compute; reflexivity);
      try (right; vm_compute; reflexivity); try (vm_compute; discriminate). }
  eapply ops_x1_cons; [vm_compute; reflexivity | |].
  { apply c1_op. left. split; [apply co_quiet; [exact I | now apply Nb] | exact I]. }
  exact I.
Qed.

(* hence - as an INSTANCE of C01_from_start_partial, not by computing the run - the replay of the stream delivered for
   the F10d history is the final tree (normal and full emitter) *)
Example C01_f10d_instance : forall full,
  exists r0 k0 w' k' r' out, construct (cfgo true) kinit (w_fs w0) = Some (r0, k0) /\
    drun (cfgo true) full w0 k0 r0 f10d_ops [] = Some (w', k', r', out) /\
    forall x, alookup beqb x (replay true pR (tree_of true pR w0) out) = alookup beqb x (tree_of true pR w').
Proof.
  intros full. exact (C01_from_start_partial (cfgo true) full eq_refl eq_refl eq_refl f10d_ops w0 w0_wf eq_refl C01_f10d_ops_x1).
Qed.


(* ================================================================== how the kernel's buffer is split between reads *)
(* buffer level (Grouping over the delay queue): the block  AOp o; ARead n1; ...; ARead nj; ATick delay; AEmit x nit  delivers
   what the block with one read delivers - emit_all over group_batch of ALL the reader's events of the block.  A rename
   whose IN_MOVED_FROM was put (delayed) by an earlier read is still paired: _group_events removes it from the queue and
   the pair is put.  rcut = the reader over the cut (C02_cut_reads: same reader state, kernel and events as one read);
   cuts_ok = the pairing condition on the cut; it holds for every cut of one operation's records (C02_cut_paired). *)
Theorem C01_tie_cuts : forall P, pc_filter P = None -> forall s o w' cuts r' k' Rs, let C := pc_reader P in
  buffer_idle (p_buf s) -> p_stopped s = false -> (forall id, In id (map fst (p_tbl s)) -> (id < p_next s)%N) ->
  apply_op (p_world s) o = Some w' ->
  rcut C (w_fs w') (p_r s) (kernel_op (p_k s) (w_fs (p_world s)) o) cuts = Done (r', k', Rs) ->
  Forall (root_safe C) (concat Rs) -> cuts_ok C [] Rs ->
  exists nit s' obs, prun P s (cut_history P o cuts nit) [] = Done (s', obs) /\
    p_out s' = p_out s ++ emit_all (pc_full P) (c_recursive C) (c_root C) (content (w_fs w')) (group_batch C (concat Rs)) /\
    p_world s' = w' /\ p_k s' = k' /\ p_r s' = r' /\
    buffer_idle (p_buf s') /\ p_stopped s' = false /\ (forall id, In id (map fst (p_tbl s')) -> (id < p_next s')%N).
Proof. exact tie_strong_cuts. Qed.
Print Assumptions C01_tie_cuts.

(* the replay law over histories of any length of blocks with ARBITRARY cuts chosen by ct (sum_cutter: the cuts of every
   block add up to the number of queued records - nothing else) *)
Theorem C01_sequential_pipeline_cuts_partial : forall P ct t0, let C := pc_reader P in
  c_faults C = [] -> c_fix_moveout C = true -> c_mask C = WATCHDOG_ALL -> pc_filter P = None -> sum_cutter P ct ->
  forall ops s hot, PSx P s hot -> ops_x1 C (p_world s) hot ops ->
  TInv (c_recursive C) (c_root C) (replay (c_recursive C) (c_root C) t0 (p_out s)) (p_world s) ->
  exists h s' obs hot', cut_hist P ct s ops h /\ prun P s h [] = Done (s', obs) /\ PSx P s' hot' /\
    TInv (c_recursive C) (c_root C) (replay (c_recursive C) (c_root C) t0 (p_out s')) (p_world s').
Proof. exact blocks_replay_cuts. Qed.
Print Assumptions C01_sequential_pipeline_cuts_partial.

Theorem C01_pipeline_from_start_cuts_partial : forall P ct ops w s0, let C := pc_reader P in
  c_faults C = [] -> c_fix_moveout C = true -> c_mask C = WATCHDOG_ALL -> pc_filter P = None -> sum_cutter P ct -> wf_fs w ->
  fisdir (c_root C) (w_fs w) = true -> pinit P w = Some s0 -> ops_x1 C w None ops ->
  exists h s' obs hot', cut_hist P ct s0 ops h /\ prun P s0 h [] = Done (s', obs) /\ PSx P s' hot' /\
    forall x, alookup beqb x (replay (c_recursive C) (c_root C) (tree_of (c_recursive C) (c_root C) w) (p_out s'))
            = alookup beqb x (tree_of (c_recursive C) (c_root C) (p_world s')).
Proof. exact replay_pipeline_from_start_cuts. Qed.
Print Assumptions C01_pipeline_from_start_cuts_partial.

(* a rename cut between IN_MOVED_FROM and IN_MOVED_TO, through the pipeline: the same events as with one read *)
Example C01_cut_rename_example :
  exists s0 sc sb oc ob, pinit (Px true) w0 = Some s0 /\
    prun (Px true) s0 hcut [] = Done (sc, oc) /\ prun (Px true) s0 hbig [] = Done (sb, ob) /\
    p_out sc = p_out sb /\ p_r sc = p_r sb /\ p_k sc = p_k sb /\
    In {| ev_cls := DirMoved; ev_src := sub pR 97; ev_dest := sub pR 98; ev_synth := false |} (p_out sc) /\
    k_queue (p_k sc) = [] /\ Cover (cfgx true true) (w_fs (p_world sc)) (p_k sc) (p_r sc).
Proof. exact cut_rename_example. Qed.


(* ================================================================== directory move-outs back to back *)
(* ops_x12 = ops_x1 where the operation right after a directory move-out may be ANOTHER directory move-out (see
   C02_out_after_out): the events of the second move-out are those of the same move-out from the synchronised state in which
   the first directory is already forgotten (C02_pending_transfer), so the replay follows. *)
Theorem C01_replay_step_x2 : forall C full, c_faults C = [] -> c_fix_moveout C = true -> c_mask C = WATCHDOG_ALL ->
  forall w k r hot o w' t, GS2 C w k r hot -> step_ok12 C w hot o -> apply_op w o = Some w' ->
  TInv (c_recursive C) (c_root C) t w ->
  let k1 := kernel_op k (w_fs w) o in
  exists r' k' raws, read_batch C (w_fs w') (r, drainq k1, []) (k_queue k1) = Done (r', k', raws) /\
    GS2 C w' k' r' (is_dir_out C w o) /\ Forall (rsafe C) raws /\
    TInv (c_recursive C) (c_root C) (replay (c_recursive C) (c_root C) t (delivered C full w' raws)) w'.
Proof. exact gs2_replay_step. Qed.
Print Assumptions C01_replay_step_x2.

Theorem C01_from_start_x2_partial : forall C full, c_faults C = [] -> c_fix_moveout C = true -> c_mask C = WATCHDOG_ALL ->
  forall ops w, wf_fs w -> fisdir (c_root C) (w_fs w) = true -> ops_x12 C w None ops ->
  exists r0 k0 w' k' r' out, construct C kinit (w_fs w) = Some (r0, k0) /\
    drun C full w k0 r0 ops [] = Some (w', k', r', out) /\
    forall x, alookup beqb x (replay (c_recursive C) (c_root C) (tree_of (c_recursive C) (c_root C) w) out)
            = alookup beqb x (tree_of (c_recursive C) (c_root C) w').
Proof. exact replay_from_start_x2. Qed.
Print Assumptions C01_from_start_x2_partial.

Theorem C01_pipeline_from_start_x2_partial : forall P ops w s0, let C := pc_reader P in
  c_faults C = [] -> c_fix_moveout C = true -> c_mask C = WATCHDOG_ALL -> pc_filter P = None -> wf_fs w ->
  fisdir (c_root C) (w_fs w) = true -> pinit P w = Some s0 -> ops_x12 C w None ops ->
  exists h s' obs hot', block_hist_x P s0 ops h /\ prun P s0 h [] = Done (s', obs) /\ PSx2 P s' hot' /\
    forall x, alookup beqb x (replay (c_recursive C) (c_root C) (tree_of (c_recursive C) (c_root C) w) (p_out s'))
            = alookup beqb x (tree_of (c_recursive C) (c_root C) (p_world s')).
Proof. exact replay_pipeline_from_start_x2. Qed.
Print Assumptions C01_pipeline_from_start_x2_partial.

(* mkdir R/a; mkdir R/b; mv R/a O/x; mv R/b O/y; mkdir R/a; mv R/a R/b *)
Definition two_out_ops1 : list op :=
  [Mkdir (sub pR 97); Mkdir (sub pR 98); Rename (sub pR 97) (sub pO 120); Rename (sub pR 98) (sub pO 121);
   Mkdir (sub pR 97); Rename (sub pR 97) (sub pR 98)].

Example C01_two_out_ops_x12 : ops_x12 (cfgo true) w0 None two_out_ops1.
Proof.
  assert (GR : gpath pR) by (split; [discriminate | reflexivity]).
  assert (GO : gpath pO) by (split; [discriminate | reflexivity]).
  assert (Na : forall n, valid_name [n] = true -> npath (sub pR n)) by (intros; now apply npath_sub).
  assert (No : forall n, valid_name [n] = true -> npath (sub pO n)) by (intros; now apply npath_sub).
  assert (NS : forall p, ~ scope (cfgo true) (sub pO p)) by (intros p [H|H]; vm_compute in H; discriminate).
  assert (X2 : forall w o w' ops hot, apply_op w o = Some w' -> step_ok12 (cfgo true) w hot o ->
                 ops_x12 (cfgo true) w' (is_dir_out (cfgo true) w o) ops -> ops_x12 (cfgo true) w hot (o :: ops)).
  { intros w o w' ops hot Ha Hs Hc. cbn [ops_x12]. rewrite Ha. now split. }
  unfold two_out_ops1.
  eapply X2; [vm_compute; reflexivity | apply c1_op; left; split; [apply co_mkdir; now apply Na | exact I] |]. vm_compute is_dir_out.
  eapply X2; [vm_compute; reflexivity | apply c1_op; left; split; [apply co_mkdir; now apply Na | exact I] |]. vm_compute is_dir_out.
  eapply X2; [vm_compute; reflexivity | |].
  { eapply c1_out; try (now apply Na); try (now apply No); try reflexivity; try (vm_compute; reflexivity);
      try (right; vm_compute; reflexivity); try (vm_compute; discriminate). apply NS. }
  vm_compute is_dir_out.
  eapply X2; [vm_compute; reflexivity | |].
  { split; [|split].
    - eapply c1_out; try (now apply Na); try (now apply No); try reflexivity; try (vm_compute; reflexivity);
        try (right; vm_compute; reflexivity); try (vm_compute; discriminate). apply NS.
    - exists pR. split; [now left|]. split; [now left | reflexivity].
    - intros d [<-|[<-|[<-|[]]]]; vm_compute; reflexivity. }
  vm_compute is_dir_out.
  eapply X2; [vm_compute; reflexivity | |].
  { split; [apply c1_op; left; split; [apply co_mkdir; now apply Na | exact I]|]. split.
    - exists pR. split; [now left|]. split; [now left | reflexivity].
    - intros d [<-|[]]. vm_compute. reflexivity. }
  vm_compute is_dir_out.
  eapply X2; [vm_compute; reflexivity | |].
  { apply c1_op. left. split; [|intros _; split; [right; vm_compute; reflexivity | split; [reflexivity | vm_compute; reflexivity]]].
    eapply co_rename_dir; try (now apply Na); try reflexivity; try (vm_compute; reflexivity);
      try (right; vm_compute; reflexivity); try (vm_compute; discriminate). }
  exact I.
Qed.

Example C01_two_out_instance : forall full,
  exists r0 k0 w' k' r' out, construct (cfgo true) kinit (w_fs w0) = Some (r0, k0) /\
    drun (cfgo true) full w0 k0 r0 two_out_ops1 [] = Some (w', k', r', out) /\
    forall x, alookup beqb x (replay true pR (tree_of true pR w0) out) = alookup beqb x (tree_of true pR w').
Proof.
  intros full. exact (C01_from_start_x2_partial (cfgo true) full eq_refl eq_refl eq_refl two_out_ops1 w0 w0_wf eq_refl C01_two_out_ops_x12).
Qed.


(* mkdir R/t; mv O/d R/t (a directory with content over an empty directory); touch R/t/e/f : computed on the model *)
Example C01_in_over_computed :
  run_replay (cfgo true) [Mkdir (sub pR 116); Rename (sub pO 100) (sub pR 116); Touch (sub (sub (sub pR 116) 101) 102)] = Some true.
Proof. vm_compute. reflexivity. Qed.

(* ================================================================== bursts of file-level operations *)
(* Several FILE-LEVEL operations (touch, write, chmod of a file, unlink, file renames inside / in / out / replacing a file - the
   class [burst_ok] of C03_burst_files_contract, Proofs/BurstProofs.v) applied back to back from a synchronised state, then
   everything read: replaying the delivered stream on the tree before the burst gives the tree after the burst.  Side
   condition as in C03: the kernel coalesced no record across an operation border (only `chmod f; chmod f` does).  Each
   chunk of the stream equals its operation's contract up to collapse (C03) and replay is invariant under collapse
   (C01_contract_replay).  Stated only: bursts that create, remove or rename a directory. *)
Require Import WD.Proofs.TieProofs WD.Proofs.ReplaceProofs WD.Proofs.CutsPipeProofs WD.Proofs.SoundLooseProofs WD.Proofs.BurstProofs WD.Proofs.BurstReplayProofs.

Theorem C01_burst_files_replay : forall C full w k r ops t,
  c_faults C = [] -> c_fix_moveout C = true -> c_mask C = WATCHDOG_ALL ->
  RSync C w k r -> burst_ok C w ops ->
  let KB := fst (burst_end k w ops) in let wn := snd (burst_end k w ops) in
  k_queue KB = concat (seq_qs k w ops) ->
  TInv (c_recursive C) (c_root C) t w ->
  exists r' raws, read_batch C (w_fs wn) (r, drainq KB, []) (k_queue KB) = Done (r', drainq KB, raws) /\
    TInv (c_recursive C) (c_root C) (replay (c_recursive C) (c_root C) t (delivered C full wn raws)) wn.
Proof. exact burst_files_replay. Qed.
Print Assumptions C01_burst_files_replay.

(* from Inotify.__init__ on a well-formed world *)
Theorem C01_burst_files_replay_from_start : forall C full w ops,
  c_faults C = [] -> c_fix_moveout C = true -> c_mask C = WATCHDOG_ALL ->
  wf_fs w -> fisdir (c_root C) (w_fs w) = true -> burst_ok C w ops ->
  exists r0 k0, construct C kinit (w_fs w) = Some (r0, k0) /\
    let KB := fst (burst_end k0 w ops) in let wn := snd (burst_end k0 w ops) in
    (k_queue KB = concat (seq_qs k0 w ops) ->
     exists r' raws, read_batch C (w_fs wn) (r0, drainq KB, []) (k_queue KB) = Done (r', drainq KB, raws) /\
       forall x, alookup beqb x (replay (c_recursive C) (c_root C) (tree_of (c_recursive C) (c_root C) w) (delivered C full wn raws))
               = alookup beqb x (tree_of (c_recursive C) (c_root C) wn)).
Proof. exact burst_files_replay_from_start. Qed.
Print Assumptions C01_burst_files_replay_from_start.

(* on the Pipeline model: the operations back to back, the reads cut arbitrarily, any ticks / queue_events calls, the delay,
   queue_events until the buffer is empty ([burst_hist]); the invariant of the accumulated stream is kept and the state is
   synchronised and idle again, so bursts and single blocks can alternate *)
Theorem C01_burst_files_replay_pipeline : forall P s ops cuts L t0, pc_filter P = None -> let C := pc_reader P in
  c_faults C = [] -> c_fix_moveout C = true -> c_mask C = WATCHDOG_ALL ->
  RSync C (p_world s) (p_k s) (p_r s) -> buffer_idle (p_buf s) -> p_stopped s = false ->
  (forall id, In id (map fst (p_tbl s)) -> (id < p_next s)%N) ->
  burst_ok C (p_world s) ops ->
  let KB := fst (burst_end (p_k s) (p_world s) ops) in
  k_queue KB = concat (seq_qs (p_k s) (p_world s) ops) ->
  CutsPipeProofs.sum cuts = length (k_queue KB) -> Forall tick_or_emit L ->
  TInv (c_recursive C) (c_root C) (replay (c_recursive C) (c_root C) t0 (p_out s)) (p_world s) ->
  exists nit s' obs, prun P s (burst_hist P ops cuts L nit) [] = Done (s', obs) /\
    TInv (c_recursive C) (c_root C) (replay (c_recursive C) (c_root C) t0 (p_out s')) (p_world s') /\
    RSync C (p_world s') (p_k s') (p_r s') /\ buffer_idle (p_buf s') /\ p_stopped s' = false /\
    (forall id, In id (map fst (p_tbl s')) -> (id < p_next s')%N).
Proof. exact burst_files_replay_pipeline. Qed.
Print Assumptions C01_burst_files_replay_pipeline.

(* instance: world /s/R (watched), /s/O, /s/R/d, /s/R/d/f, /s/R/e; burst touch R/d/a; mv R/d/f R/e/f; mv R/d/a O/a; chmod R/e/f;
   write R/e/f; unlink R/e/f - 11 records, none coalesced; the replayed stream is the tree after the burst (f is gone, a is
   outside), the state is synchronised and covered *)
Example C01_burst_files_nonvacuous :
  exists r0 k0, construct (cfgx true true) kinit (w_fs rp_world) = Some (r0, k0) /\
    let KB := fst (burst_end k0 rp_world burst_ops) in let wn := snd (burst_end k0 rp_world burst_ops) in
    k_queue KB = concat (seq_qs k0 rp_world burst_ops) /\
    exists r' raws, read_batch (cfgx true true) (w_fs wn) (r0, drainq KB, []) (k_queue KB) = Done (r', drainq KB, raws) /\
      length raws = 11%nat /\
      (forall x, alookup beqb x (replay true pR (tree_of true pR rp_world) (delivered (cfgx true true) false wn raws))
               = alookup beqb x (tree_of true pR wn)) /\
      RSync (cfgx true true) wn (drainq KB) r' /\ Cover (cfgx true true) (w_fs wn) (drainq KB) r' /\
      flookup bf_ef (w_fs wn) = None /\ fexists bf_oa (w_fs wn) = true.
Proof. exact burst_replay_example. Qed.

(* ================================================================== a burst that CONTAINS directory operations: an arrival *)
(* `mkdir p; <any sequence of mkdir / touch strictly below p>` ([below_op]; operations that fail are skipped) applied back to
   back from a synchronised state, then one read (the kernel queued one record, see C02_burst_arrival_cover), grouping,
   emission: the reader fabricates one create record per entry its walk finds below p, and replaying the delivered stream on a
   tree that agrees with the world before the burst gives the tree after the burst; the state is synchronised again.
   Hypotheses: recursive watch, p in scope, IN_CREATE in the mask, c_fix_simulate, no injected fault.  read_batch / delivered
   level; not lifted to the Pipeline model.  Stated only: every other burst with a directory operation. *)
Require Import WD.Proofs.BurstArrivalProofs.

Theorem C01_burst_arrival_replay : forall C full, c_faults C = [] -> c_fix_simulate C = true ->
  forall w k r p rest t, RSync C w k r -> npath p -> c_recursive C = true -> scope C p ->
  N.land IN_CREATE (c_mask C) <> 0%N -> Forall (below_op p) rest ->
  forall w1, apply_op w (Mkdir p) = Some w1 ->
  TInv (c_recursive C) (c_root C) t w ->
  let KB := fst (burst_end k w (Mkdir p :: rest)) in let wn := snd (burst_end k w (Mkdir p :: rest)) in
  exists r' k' raws, read_batch C (w_fs wn) (r, drainq KB, []) (k_queue KB) = Done (r', k', raws) /\ RSync C wn k' r' /\
    TInv (c_recursive C) (c_root C) (replay (c_recursive C) (c_root C) t (ReplayProofs.delivered C full wn raws)) wn.
Proof. exact arrival_replay. Qed.
Print Assumptions C01_burst_arrival_replay.

(* instance (world w0: /s/R watched and empty): mkdir R/d; mkdir R/d/e; touch R/d/e/f; touch R/d/g, one read: eight events in
   walk order (R/d/g before R/d/e/f), all justified (C03), and the replayed tree is the tree after the burst *)
Example C01_burst_arrival_nonvacuous :
  exists r0 k0, construct (cfgx true true) kinit (w_fs w0) = Some (r0, k0) /\
    let KB := fst (burst_end k0 w0 (Mkdir ba_d :: ba_rest)) in let wn := snd (burst_end k0 w0 (Mkdir ba_d :: ba_rest)) in
    exists r' k' raws, read_batch (cfgx true true) (w_fs wn) (r0, drainq KB, []) (k_queue KB) = Done (r', k', raws) /\
      ReplayProofs.delivered (cfgx true true) false wn raws = ba_events /\
      forallb (justified true pR (burst_recs w0 (Mkdir ba_d :: ba_rest))) ba_events = true /\
      length (burst_recs w0 (Mkdir ba_d :: ba_rest)) = 4%nat /\
      (forall x, alookup beqb x (replay true pR (tree_of true pR w0) ba_events) = alookup beqb x (tree_of true pR wn)).
Proof. exact arrival_example_stream. Qed.

(* the arrival burst on the Pipeline model: AOp (mkdir p); AOp ... (below p); ARead 1 (the one record); any ticks / queue_events
   calls; the delay; queue_events until the buffer is empty ([burst_hist] with the cut [1]).  The run does not crash, every
   queued event is justified (sound_along), the replay invariant of the accumulated stream is kept, the state is synchronised,
   covered and idle again - so arrival bursts, file-level bursts and single blocks can alternate. *)
Theorem C01_burst_arrival_pipeline : forall P, pc_filter P = None -> let C := pc_reader P in c_faults C = [] -> c_fix_simulate C = true ->
  forall s p rest L recs t0,
  RSync C (p_world s) (p_k s) (p_r s) -> buffer_idle (p_buf s) -> p_stopped s = false ->
  (forall id, In id (map fst (p_tbl s)) -> (id < p_next s)%N) ->
  npath p -> c_recursive C = true -> scope C p -> N.land IN_CREATE (c_mask C) <> 0%N -> Forall (below_op p) rest ->
  forall w1, apply_op (p_world s) (Mkdir p) = Some w1 -> Forall tick_or_emit L ->
  TInv (c_recursive C) (c_root C) (replay (c_recursive C) (c_root C) t0 (p_out s)) (p_world s) ->
  exists nit s' obs, prun P s (burst_hist P (Mkdir p :: rest) [1%nat] L nit) [] = Done (s', obs) /\
    sound_along P s recs (burst_hist P (Mkdir p :: rest) [1%nat] L nit) = true /\
    p_world s' = snd (burst_end (p_k s) (p_world s) (Mkdir p :: rest)) /\
    TInv (c_recursive C) (c_root C) (replay (c_recursive C) (c_root C) t0 (p_out s')) (p_world s') /\
    RSync C (p_world s') (p_k s') (p_r s') /\ Cover C (w_fs (p_world s')) (p_k s') (p_r s') /\
    buffer_idle (p_buf s') /\ p_stopped s' = false /\ (forall id, In id (map fst (p_tbl s')) -> (id < p_next s')%N).
Proof. exact arrival_pipeline. Qed.
Print Assumptions C01_burst_arrival_pipeline.

Example C01_burst_arrival_pipeline_nonvacuous :
  exists s0 s obs, pinit (Px true) w0 = Some s0 /\ prun (Px true) s0 ba_history [] = Done (s, obs) /\
    p_out s = ba_events /\ sound_along (Px true) s0 [] ba_history = true /\ length (k_watches (p_k s)) = 3%nat.
Proof. exact arrival_pipeline_example. Qed.
