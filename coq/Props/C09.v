(* C09 - A snapshot diff is a correct, minimal, inode-faithful description of the change.
   Only statements; every proof is `exact <lemma>`.
   [diff ign r s = Some d]: the run of DirectorySnapshotDiff.__init__(r, s, ignore_device=ign) ends
   without KeyError with the internal sets created/deleted/modified/moved ([d_created] ...) and the
   eight public lists.  [wf]: unique paths, every inode has one path, no empty path. *)
Require Import WD.Base.Prelude WD.Model.Snapshot WD.Proofs.SnapshotProofs.

(* No KeyError, whatever the snapshots are. *)
Theorem C09_total : forall ign r s, exists d, diff ign r s = Some d.
Proof. exact diff_total. Qed.
Print Assumptions C09_total.

(* Accounting: new path set = old - deleted - move sources + created + move destinations. *)
Theorem C09_account : forall r s d, wf r -> wf s -> diff false r s = Some d ->
  forall p, In p (paths s) <->
    (In p (paths r) /\ ~ In p (d_deleted d) /\ ~ In p (map fst (d_moved d)))
    \/ In p (d_created d) \/ In p (map snd (d_moved d)).
Proof. exact diff_account. Qed.
Print Assumptions C09_account.

(* Moved iff the same inode is found under a different path. *)
Theorem C09_moved_iff : forall r s d, wf r -> wf s -> diff false r s = Some d ->
  forall a b, In (a, b) (d_moved d) <->
    a <> b /\ exists i, inode_at r a = Some i /\ inode_at s b = Some i.
Proof. exact diff_moved_iff. Qed.
Print Assumptions C09_moved_iff.

(* Created (deleted) iff the path is in the new (old) snapshot and its inode is absent from the other
   one.  (This is the exact characterisation; the property text states the "only if" half.) *)
Theorem C09_created_iff : forall r s d, wf r -> wf s -> diff false r s = Some d ->
  forall p, In p (d_created d) <-> exists i, inode_at s p = Some i /\ ~ In i (inodes r).
Proof. exact diff_created_iff. Qed.
Print Assumptions C09_created_iff.

Theorem C09_deleted_iff : forall r s d, wf r -> wf s -> diff false r s = Some d ->
  forall p, In p (d_deleted d) <-> exists i, inode_at r p = Some i /\ ~ In i (inodes s).
Proof. exact diff_deleted_iff. Qed.
Print Assumptions C09_deleted_iff.

(* Modified iff the entry kept its identity (same inode, under the same or another path) and its
   mtime or size differ; it is reported under the old path. *)
Theorem C09_modified_iff : forall r s d, wf r -> wf s -> diff false r s = Some d ->
  forall a, In a (d_modified d) <->
    exists b sa sb, lookup a r = Some sa /\ lookup b s = Some sb /\ inode_of sa = inode_of sb /\
                    (st_mtime sa <> st_mtime sb \/ st_size sa <> st_size sb).
Proof. exact diff_modified_iff. Qed.
Print Assumptions C09_modified_iff.

(* The file / directory lists partition each category by kind (kind of the new entry for created,
   of the old entry otherwise); holds for every input and both values of ignore_device. *)
Theorem C09_kinds : forall ign r s d, diff ign r s = Some d ->
  (forall p, In p (dirs_created d) <-> In p (d_created d) /\ isdir_at s p = Some true) /\
  (forall p, In p (files_created d) <-> In p (d_created d) /\ isdir_at s p = Some false) /\
  (forall p, In p (dirs_deleted d) <-> In p (d_deleted d) /\ isdir_at r p = Some true) /\
  (forall p, In p (files_deleted d) <-> In p (d_deleted d) /\ isdir_at r p = Some false) /\
  (forall p, In p (dirs_modified d) <-> In p (d_modified d) /\ isdir_at r p = Some true) /\
  (forall p, In p (files_modified d) <-> In p (d_modified d) /\ isdir_at r p = Some false) /\
  (forall a b, In (a, b) (dirs_moved d) <-> In (a, b) (d_moved d) /\ isdir_at r a = Some true) /\
  (forall a b, In (a, b) (files_moved d) <-> In (a, b) (d_moved d) /\ isdir_at r a = Some false).
Proof. exact diff_kinds. Qed.
Print Assumptions C09_kinds.

(* ... and every entry of a category is in exactly one of its two lists. *)
Theorem C09_kinds_partition : forall ign r s d, diff ign r s = Some d ->
  (forall p, In p (d_created d) <-> In p (dirs_created d) \/ In p (files_created d)) /\
  (forall p, In p (d_deleted d) <-> In p (dirs_deleted d) \/ In p (files_deleted d)) /\
  (forall p, In p (d_modified d) <-> In p (dirs_modified d) \/ In p (files_modified d)) /\
  (forall m, In m (d_moved d) <-> In m (dirs_moved d) \/ In m (files_moved d)) /\
  (forall p, ~ (In p (dirs_created d) /\ In p (files_created d))) /\
  (forall p, ~ (In p (dirs_deleted d) /\ In p (files_deleted d))) /\
  (forall p, ~ (In p (dirs_modified d) /\ In p (files_modified d))) /\
  (forall m, ~ (In m (dirs_moved d) /\ In m (files_moved d))).
Proof. exact diff_kinds_partition. Qed.
Print Assumptions C09_kinds_partition.

(* Every list names each entry once (they are built from Python sets). *)
Theorem C09_nodup : forall ign r s d, diff ign r s = Some d ->
  NoDup (dirs_created d) /\ NoDup (files_created d) /\ NoDup (dirs_deleted d) /\ NoDup (files_deleted d) /\
  NoDup (dirs_modified d) /\ NoDup (files_modified d) /\ NoDup (dirs_moved d) /\ NoDup (files_moved d).
Proof. exact diff_nodup. Qed.
Print Assumptions C09_nodup.

(* Pairwise consistency of the four categories. *)
Theorem C09_disjoint : forall r s d, wf r -> wf s -> diff false r s = Some d ->
  (forall p, In p (d_deleted d) -> ~ In p (map fst (d_moved d))) /\
  (forall p, In p (d_created d) -> ~ In p (map snd (d_moved d))) /\
  (forall p, In p (d_deleted d) -> ~ In p (d_modified d)) /\
  (forall a b b', In (a, b) (d_moved d) -> In (a, b') (d_moved d) -> b = b') /\
  (forall a a' b, In (a, b) (d_moved d) -> In (a', b) (d_moved d) -> a = a') /\
  (forall a b, In (a, b) (d_moved d) -> a <> b) /\
  (forall p, In p (d_created d) -> In p (d_deleted d) ->
     In p (paths r) /\ In p (paths s) /\ inode_at r p <> inode_at s p) /\
  (forall p, In p (d_modified d) -> In p (d_created d) -> In p (map fst (d_moved d))).
Proof. exact diff_disjoint. Qed.
Print Assumptions C09_disjoint.

(* Diffing a snapshot against itself is empty (any snapshot, any ignore_device). *)
Theorem C09_self : forall ign s, diff ign s s = Some empty_diff.
Proof. exact diff_self. Qed.
Print Assumptions C09_self.

(* Swapping the arguments swaps created with deleted and reverses the moves (any snapshots). *)
Theorem C09_swap : forall ign r s d d', diff ign r s = Some d -> diff ign s r = Some d' ->
  (forall p, In p (d_created d) <-> In p (d_deleted d')) /\
  (forall p, In p (d_deleted d) <-> In p (d_created d')) /\
  (forall a b, In (a, b) (d_moved d) <-> In (b, a) (d_moved d')).
Proof. exact diff_swap. Qed.
Print Assumptions C09_swap.

(* With ignore_device a pure change of device ids is no change. *)
Theorem C09_ignore_device : forall r s,
  (forall p, In p (paths r) <-> In p (paths s)) ->
  (forall p a b, lookup p r = Some a -> lookup p s = Some b ->
     st_ino a = st_ino b /\ st_mtime a = st_mtime b /\ st_size a = st_size b) ->
  diff true r s = Some empty_diff.
Proof. exact diff_ignore_device. Qed.
Print Assumptions C09_ignore_device.

(* Non-vacuity: a well-formed pair with a move + modification, a new file under the old name of the
   moved one, a deletion, a modified root; and the device-only change. *)
Definition ex_r : snap :=
  [([47;114], mkStat 1 1 true 0 0); ([47;114;47;97], mkStat 2 1 false 0 0);
   ([47;114;47;98], mkStat 3 1 false 0 0); ([47;114;47;99], mkStat 4 1 true 0 0)]%N.
Definition ex_s : snap :=
  [([47;114], mkStat 1 1 true 1 0); ([47;114;47;97], mkStat 5 1 false 0 0);
   ([47;114;47;100], mkStat 2 1 false 0 7); ([47;114;47;98], mkStat 3 1 false 0 0)]%N.
Example C09_nonvacuous :
  wfb ex_r = true /\ wfb ex_s = true /\
  option_map (fun d => (d_created d, d_deleted d, d_modified d, d_moved d)) (diff false ex_r ex_s) =
  Some ([[47;114;47;97]], [[47;114;47;99]], [[47;114]; [47;114;47;97]],
        [([47;114;47;97], [47;114;47;100])])%N.
Proof. vm_compute. repeat split. Qed.

Example C09_wfb_wf : wf ex_r /\ wf ex_s.
Proof. split; apply wfb_wf; vm_compute; reflexivity. Qed.

Example C09_ignore_device_nonvacuous :
  let s' := map (fun e => (fst e, mkStat (st_ino (snd e)) 9 (st_isdir (snd e)) (st_mtime (snd e)) (st_size (snd e)))) ex_r in
  diff true ex_r s' = Some empty_diff /\ diff false ex_r s' <> Some empty_diff.
Proof. vm_compute. split; [reflexivity | discriminate]. Qed.
