Require Import WD.Base.Prelude WD.Base.BStr WD.Model.SubEvents WD.Model.Emitter WD.Model.Fs WD.Model.Reader WD.Model.Grouping WD.Model.Pipeline WD.Model.Contract.
Require Import WD.Proofs.SubEventsProofs WD.Proofs.ContractProofs WD.Proofs.CoverProofs WD.Proofs.ReplayProofs.

(* ================================================================== a directory moved into the tree *)
(* os.walk lists EVERY entry below the directory (the converse of desc_content_sound) *)
Definition kof (b : bool) : kind := if b then KDir else KFile.

Lemma desc_content_complete w : wf_fs w -> forall fuel d de base e, In de (w_fs w) -> f_path de = d ->
  length (filter (fun x => under d (f_path x)) (w_fs w)) < fuel ->
  In e (w_fs w) -> under d (f_path e) = true ->
  exists rel', rel' <> [] /\ f_path e = d ++ relsuffix rel' /\
               In (kof (f_dir e), base ++ rel') (desc base (content_fuel fuel (w_fs w) d)).
Proof.
  intros W. induction fuel as [|fuel IH]; intros d de base e Hde Ede Hk He Ue; [lia|].
  cbn [content_fuel]. rewrite desc_unfold.
  destruct (chain_child_gen w W _ e (le_n _) He d de Hde Ue (or_introl (eq_sym Ede))) as (c & Hc & Ec & Hce).
  assert (Nc := wf_np w W c Hc).
  assert (Hch : is_child d (f_path c) = true) by now apply is_child_np.
  assert (Hcp : f_path c = d ++ relsuffix [basename (f_path c)]).
  { rewrite relsuffix_one. rewrite <- Ec. now apply npath_parts. }
  destruct Hce as [->|Hce].
  - exists [basename (f_path e)]. split; [discriminate|]. split; [exact Hcp|]. rewrite !in_app_iff.
    destruct (f_dir e) eqn:De; cbn [kof].
    + left. rewrite map_map. apply in_map_iff. exists e. cbn [fst]. split; [reflexivity|]. apply filter_In. now rewrite Hch, De.
    + right. left. rewrite map_map. apply in_map_iff. exists e. split; [reflexivity|]. apply filter_In. now rewrite Hch, De.
  - assert (Dc : f_dir c = true).
    { assert (Hx : isdir_in (f_path c) (w_fs w)) by (apply (chain w e (f_path c) c W He Hc Hce); now left).
      destruct Hx as (c' & Hc' & Ec' & Dc'). assert (c' = c) by (apply (path_inj (w_fs w)); [apply W| | |]; assumption). congruence. }
    assert (Ucd : under d (f_path c) = true) by (rewrite <- Ec; now apply under_dirname).
    assert (Hlt : length (filter (fun x => under (f_path c) (f_path x)) (w_fs w)) < fuel).
    { assert (H := filter_length_lt (fun x => under (f_path c) (f_path x)) (fun x => under d (f_path x)) (w_fs w) c).
      cbv beta in H. specialize (H (fun x Hx => under_trans _ _ _ Ucd Hx) Hc (under_irrefl _) Ucd). lia. }
    destruct (IH (f_path c) c (base ++ [basename (f_path c)]) e Hc eq_refl Hlt He Hce) as (rel' & Hne & Ee & Hin).
    exists (basename (f_path c) :: rel'). split; [discriminate|]. split.
    + rewrite Ee, Hcp at 1. change (basename (f_path c) :: rel') with ([basename (f_path c)] ++ rel').
      now rewrite relsuffix_app, app_assoc.
    + rewrite !in_app_iff. right. right. apply in_flat_map.
      exists (basename (f_path c), content_fuel fuel (w_fs w) (f_path c)). split.
      * apply in_map_iff. exists c. split; [reflexivity|]. apply filter_In. now rewrite Hch, Dc.
      * cbn [fst snd]. rewrite <- app_assoc in Hin. exact Hin.
Qed.

Lemma kdir_kof b : kdir (kof b) = b. Proof. now destruct b. Qed.

(* the listing of a directory of the file system: exactly the entries below it, with their kinds *)
Lemma content_listing w q : wf_fs w -> fisdir q (w_fs w) = true -> forall x v,
  In (x, v) (map (fun d : kind * list bytes => (q ++ relsuffix (snd d), kdir (fst d))) (desc [] (content (w_fs w) q))) <->
  exists e, In e (w_fs w) /\ f_path e = x /\ f_dir e = v /\ under q x = true.
Proof.
  intros W Hq x v. unfold content. rewrite Hq. split.
  - intros Hin. apply in_map_iff in Hin as ([k rel] & E & Hin). cbn [fst snd] in E. injection E as <- <-.
    destruct (desc_content_sound w W _ _ _ _ _ Hin) as (rel' & E & Hne & e & He & Ee & De). cbn [app] in E. subst rel'.
    exists e. split; [exact He|]. split; [exact Ee|]. split; [exact De|].
    destruct (relsuffix_form rel Hne) as [s ->]. apply under_app.
  - intros (e & He & <- & <- & Ue). apply fisdir_in in Hq as (qe & Hqe & Eqe & _).
    assert (Hlt : length (filter (fun y => under q (f_path y)) (w_fs w)) < length (w_fs w)).
    { assert (H := filter_length_lt (fun y => under q (f_path y)) (fun _ => true) (w_fs w) qe (fun _ _ => eq_refl) Hqe).
      cbv beta in H. rewrite Eqe in H. specialize (H (under_irrefl q) eq_refl).
      assert (E : filter (fun _ : fent => true) (w_fs w) = w_fs w) by (clear; induction (w_fs w) as [|a l IHl]; cbn; congruence).
      now rewrite E in H. }
    destruct (desc_content_complete w W (length (w_fs w)) q qe [] e Hqe Eqe Hlt He Ue) as (rel' & Hne & Ee & Hin).
    apply in_map_iff. exists (kof (f_dir e), rel'). cbn [fst snd app] in *. split; [now rewrite Ee, kdir_kof | exact Hin].
Qed.

Section InSem.
  Variables (recursive full : bool) (root : bytes).
  Let ins := in_scope recursive root.
  Let fr := freplay1 recursive root.
  Let tlw := tl recursive root.

  Definition fputs (L : list (bytes * bool)) (g : pt) : pt :=
    fold_left (fun f kv => fput recursive root (fst kv) (snd kv) f) L g.

  Lemma fputs_noins L : forall g x, ins x = false -> fputs L g x = g x.
  Proof.
    induction L as [|[k v] L IH]; intros g x Hx; cbn [fputs fold_left]; [reflexivity|]. fold (fputs L).
    rewrite IH by exact Hx. unfold fput. cbn [fst snd]. destruct (beqb x k) eqn:E; [|now rewrite andb_false_r].
    apply beqb_eq in E. subst k. fold ins. now rewrite Hx.
  Qed.

  Lemma fputs_other L : forall g x, (forall v, ~ In (x, v) L) -> fputs L g x = g x.
  Proof.
    induction L as [|[k v] L IH]; intros g x Hx; cbn [fputs fold_left]; [reflexivity|]. fold (fputs L).
    rewrite IH by (intros v0 H; apply (Hx v0); now right). unfold fput. cbn [fst snd].
    destruct (beqb x k) eqn:E; [|now rewrite andb_false_r]. apply beqb_eq in E. subst k. exfalso. apply (Hx v). now left.
  Qed.

  Lemma fputs_hit L : forall g x v0, ins x = true -> (forall v, In (x, v) L -> v = v0) ->
    (exists v, In (x, v) L) \/ g x = Some v0 -> fputs L g x = Some v0.
  Proof.
    induction L as [|[k v] L IH]; intros g x v0 Hx Hv Hor; cbn [fputs fold_left].
    - destruct Hor as [[v' []]|H]; exact H.
    - fold (fputs L). apply IH; [exact Hx | intros v' H; apply Hv; now right|].
      destruct Hor as [[v' [E|H]]|H].
      + injection E as -> ->. right. unfold fput. cbn [fst snd]. fold ins. now rewrite Hx, beqb_refl, (Hv v' (or_introl eq_refl)).
      + left. eauto.
      + right. unfold fput. cbn [fst snd]. fold ins. destruct (ins k && beqb x k) eqn:E; [|exact H].
        apply andb_true_iff in E as [_ E]. apply beqb_eq in E. subst k. now rewrite (Hv v (or_introl eq_refl)).
  Qed.

  Lemma fput_ext k v f g : peq f g -> peq (fput recursive root k v f) (fput recursive root k v g).
  Proof. intros H x. unfold fput. now rewrite H. Qed.

  Lemma fputs_ext L : forall f g, peq f g -> peq (fputs L f) (fputs L g).
  Proof. induction L as [|[k v] L IH]; intros f g H; cbn [fputs fold_left]; [exact H|]. apply IH. now apply fput_ext. Qed.

  Definition freplays (g : pt) (evs : list nevent) : pt := fold_left fr evs g.

  Lemma replay_sem_list evs : forall t g, NoDup (map fst t) -> peq (look t) g ->
    peq (look (replay recursive root t evs)) (freplays g evs).
  Proof.
    induction evs as [|e evs IH]; intros t g Hn Hg; cbn [replay fold_left freplays]; [exact Hg|].
    apply IH; [now apply replay1_nodup|]. intros x. rewrite (replay1_sem _ _ t e Hn). now apply freplay1_ext.
  Qed.

  Definition mkC (synth : bool) (kv : bytes * bool) : nevent :=
    {| ev_cls := created_cls (snd kv); ev_src := fst kv; ev_dest := []; ev_synth := synth |}.

  Lemma fr_mkC g sy kv : fr g (mkC sy kv) = fput recursive root (fst kv) (snd kv) g.
  Proof. unfold fr, freplay1, mkC. cbn [ev_cls ev_src]. destruct (snd kv); reflexivity. Qed.

  Lemma freplays_created sy L : forall g, freplays g (map (mkC sy) L) = fputs L g.
  Proof. induction L as [|kv L IH]; intros g; cbn [map freplays fold_left fputs]; [reflexivity|]. rewrite fr_mkC. apply IH. Qed.

  (* the events of a directory moved in: DirCreated(q) [full emitter: DirMoved(None, q)], the parent's DirModified, one
     synthetic created event per descendant *)
  Definition movein_events (q : bytes) (T : SubEvents.tree) : list nevent :=
    (if full then mk (moved_cls true) [] q else mk (created_cls true) q []) :: parent_modified q :: sub_created q T.

  Lemma freplays_movein g q T : q <> [] -> last_is_sep q = false -> wf_tree T = true ->
    freplays g (movein_events q T) =
    fputs ((q, true) :: map (fun d : kind * list bytes => (q ++ relsuffix (snd d), kdir (fst d))) (desc [] T)) g.
  Proof.
    intros H0 Hs Hwf. unfold movein_events, freplays. cbn [fold_left].
    assert (E1 : fr g (if full then mk (moved_cls true) [] q else mk (created_cls true) q []) = fput recursive root q true g).
    { destruct full; unfold fr, freplay1; cbn; [destruct q; [contradiction | reflexivity] | reflexivity]. }
    assert (E2 : forall h, fr h (parent_modified q) = h) by (intros; apply fr_pm).
    rewrite E1, E2. rewrite (sub_created_synth_eq q T H0 Hs Hwf). unfold synth_created.
    match goal with |- _ = fputs (_ :: ?L) g => change (fputs ((q, true) :: L) g) with (fputs L (fput recursive root q true g)) end.
    rewrite <- (freplays_created true). unfold freplays. f_equal.
    rewrite map_map. apply map_ext. intros [k rel]. unfold mkC. cbn. now destruct k.
  Qed.

  (* what these events do to the tree *)
  Lemma movein_sem w p q w' ep : wf_fs w -> npath p -> npath q -> apply_op w (Rename p q) = Some w' ->
    flookup p (w_fs w) = Some ep -> f_dir ep = true -> flookup q (w_fs w) = None ->
    (forall x, ins x = true -> below p x = false) -> ins q = true ->
    peq (fputs ((q, true) :: map (fun d : kind * list bytes => (q ++ relsuffix (snd d), kdir (fst d)))
                                 (desc [] (content (w_fs w') q))) (tlw w)) (tlw w').
  Proof.
    intros W Np Nq Ha El De Elq Hp Hq x.
    assert (W' : wf_fs w') by exact (wf_apply_op w (Rename p q) w' W (conj Np Nq) Ha).
    destruct (rename_look w p q w' W Np Nq Ha) as (ep' & El' & Hne & Hupq & Huqp & Hbq & _ & Hfd).
    assert (ep' = ep) by congruence. subst ep'.
    assert (Fq' : fdl (w_fs w') q = Some true).
    { rewrite Hfd. cbv zeta. rewrite below_refl, skipn_all, app_nil_r. apply beqb_neq in Hne. rewrite Hne. unfold fdl. now rewrite El, <- De. }
    assert (Dq' : fisdir q (w_fs w') = true).
    { unfold fdl in Fq'. unfold fisdir. destruct (flookup q (w_fs w')) as [e|]; [|discriminate]. cbn in Fq'. congruence. }
    set (L := (q, true) :: _). unfold tlw. rewrite !tlw_fdl. fold ins.
    destruct (ins x) eqn:Ix; [|now rewrite fputs_noins, tlw_fdl; fold ins; rewrite ?Ix].
    assert (HL : forall v, In (x, v) L <-> (x = q /\ v = true) \/
                   exists e, In e (w_fs w') /\ f_path e = x /\ f_dir e = v /\ under q x = true).
    { intros v. unfold L. cbn [In]. rewrite (content_listing w' q W' Dq' x v). split; (intros [H|H]; [left|right; exact H]).
      - now injection H as <- <-.
      - destruct H as [-> ->]. reflexivity. }
    destruct (bytes_eq_dec x q) as [->|Hxq].
    - rewrite Fq'. apply fputs_hit; [exact Ix| |left; exists true; apply HL; now left].
      intros v Hv. apply HL in Hv as [[_ ->]|(e & _ & _ & _ & U)]; [reflexivity | now rewrite under_irrefl in U].
    - destruct (under q x) eqn:Ux.
      + unfold fdl at 1. destruct (flookup x (w_fs w')) as [e'|] eqn:Ex.
        * destruct (flookup_some _ _ _ Ex) as [He' Ee']. cbn [option_map]. apply fputs_hit; [exact Ix| |].
          -- intros v Hv. apply HL in Hv as [[E _]|(e & He & Ee & <- & _)]; [contradiction|].
             f_equal. apply (path_inj (w_fs w')); [apply W'| | |]; congruence.
          -- left. exists (f_dir e'). apply HL. right. exists e'. auto.
        * cbn [option_map]. rewrite fputs_other.
          -- rewrite tlw_fdl. fold ins. rewrite Ix. unfold fdl. destruct (flookup x (w_fs w)) as [e|] eqn:E0; [|reflexivity].
             destruct (flookup_some _ _ _ E0) as [He Ee]. rewrite <- Ee, (Hbq e He) in Ux. discriminate.
          -- intros v Hv. apply HL in Hv as [[E _]|(e & He & Ee & _)]; [contradiction|].
             rewrite <- Ee, (flookup_in _ e (wf_paths _ W') He) in Ex. discriminate.
      + rewrite fputs_other.
        * rewrite tlw_fdl. fold ins. rewrite Ix, Hfd. cbv zeta. unfold below at 1. apply beqb_neq in Hxq. rewrite Hxq, Ux. cbn [orb].
          now rewrite (Hp x Ix).
        * intros v Hv. apply HL in Hv as [[E _]|(e & _ & _ & _ & U)]; [contradiction | congruence].
  Qed.
End InSem.

Lemma delivered_movein C full w' wd c q : c_recursive C = true ->
  delivered C full w' [{| r_wd := wd; r_mask := N.lor IN_MOVED_TO IN_ISDIR; r_cookie := c; r_name := basename q; r_path := q |}]
  = movein_events full q (content (w_fs w') q).
Proof.
  intros Hrec. unfold delivered, group_batch, group_go, movein_events.
  change (nkind_of C {| r_wd := wd; r_mask := N.lor IN_MOVED_TO IN_ISDIR; r_cookie := c; r_name := basename q; r_path := q |}) with (KTo c).
  cbn [pair_in_batch app filter put_item].
  change (nkind_of C {| r_wd := wd; r_mask := N.lor IN_MOVED_TO IN_ISDIR; r_cookie := c; r_name := basename q; r_path := q |}) with (KTo c).
  cbn [emit_all emit]. unfold emit_single. cbn [r_mask r_path].
  change (Emitter.is_moved_to (N.lor IN_MOVED_TO IN_ISDIR)) with true.
  change (Emitter.is_directory (N.lor IN_MOVED_TO IN_ISDIR)) with true. rewrite Hrec. cbn [andb]. cbv iota beta.
  now rewrite app_nil_r.
Qed.

(* One directory moved into the tree from outside (to a fresh name), one read, grouping, emission: the reader is synchronised
   again and the replayed tree has the arrived sub-tree *)
Theorem replay_step_in C full w k r p q ep w' t : c_faults C = [] -> c_mask C = WATCHDOG_ALL -> RSync C w k r ->
  npath p -> npath q -> c_recursive C = true -> c_fix_movein C = true ->
  flookup p (w_fs w) = Some ep -> f_dir ep = true -> ~ scope C p -> under p (c_root C) = false -> scope C q ->
  flookup q (w_fs w) = None -> apply_op w (Rename p q) = Some w' -> TInv (c_recursive C) (c_root C) t w ->
  let k1 := kernel_op k (w_fs w) (Rename p q) in
  exists r' k' raws,
    read_batch C (w_fs w') (r, drainq k1, []) (k_queue k1) = Done (r', k', raws) /\ RSync C w' k' r' /\
    deliver_one C full w k r (Rename p q) = Some (delivered C full w' raws) /\
    TInv (c_recursive C) (c_root C) (replay (c_recursive C) (c_root C) t (delivered C full w' raws)) w'.
Proof.
  intros Hf Hm S Np Nq Hrec Hfix El De Sp Hpr Sq Elq Ha [Tn Tg] k1.
  assert (M : mask_ok C) by (unfold mask_ok; rewrite Hm; repeat split; vm_compute; discriminate).
  destruct M as (M1 & M2 & M3).
  destruct (step_rename_dir_in_ev C Hf w k r p q w' ep S Np Nq Hrec Hfix M2 M3 Ha El De Sp Hpr Sq Elq) as (r' & k' & wd & Hrd & S').
  fold k1 in Hrd. eexists r', k', _. split; [exact Hrd|]. split; [exact S'|]. split.
  { unfold deliver_one. rewrite Ha. change (kdrained (kernel_op k (w_fs w) (Rename p q))) with (drainq k1). fold k1. now rewrite Hrd. }
  assert (W := rs_wf _ _ _ _ S). assert (W' := rs_wf _ _ _ _ S').
  split; [now apply replay_nodup|].
  rewrite (delivered_movein C full w' wd (k_next_cookie k) q Hrec).
  assert (Hq0 : q <> [] /\ last_is_sep q = false).
  { destruct Nq as (d & n & -> & _ & Hv). split; [now destruct d | now apply child_last_sep]. }
  assert (Hwf : wf_tree (content (w_fs w') q) = true).
  { apply content_wf. intros e He. apply npath_wf_path. exact (wf_np w' W' e He). }
  intros x. rewrite (replay_sem_list (c_recursive C) (c_root C) _ t (tl (c_recursive C) (c_root C) w) Tn Tg x).
  rewrite (freplays_movein (c_recursive C) full (c_root C) _ q _ (proj1 Hq0) (proj2 Hq0) Hwf).
  apply (movein_sem (c_recursive C) (c_root C) w p q w' ep W Np Nq Ha El De Elq).
  - intros y Hy. unfold in_scope in Hy. rewrite Hrec in Hy. cbn [orb] in Hy. rewrite andb_true_r in Hy.
    assert (Sy : scope C y) by (unfold scope; rewrite Hrec; now right).
    destruct (scope_not_below C p y Hrec Sp Hpr Sy) as [E1 E2]. unfold below. apply beqb_neq in E1. now rewrite E1, E2.
  - unfold in_scope. rewrite Hrec. cbn [orb]. rewrite andb_true_r. unfold scope in Sq. rewrite Hrec in Sq.
    destruct Sq as [->|Sq]; [|exact Sq]. exfalso. destruct (rs_root _ _ _ _ S) as (er & Her & Eer & _).
    apply CoverProofs.flookup_none in Elq. apply Elq. rewrite <- Eer. now apply in_map.
Qed.
