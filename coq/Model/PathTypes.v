(* C19: path NAMES (rooted) and path TYPES (str / bytes tags) of the inotify emitter and of the
   polling snapshot.  Definitions only.

   A path VALUE carries a tag.  The bytes of a [TStr] value are its os.fsencode image (os.fsencode /
   os.fsdecode are taken as mutually inverse on file names - surrogateescape - which is validated by the
   harness, not proved), so that erasing the tags of the typed transcription below gives back the
   validated byte-level model [Emitter.emit]. *)
Require Import WD.Base.Prelude WD.Base.BStr WD.Model.SubEvents WD.Model.Emitter WD.Model.Fs WD.Model.Reader.

(* ------------------------------------------------------------------ names *)
(* the watched root followed by real, valid entry names *)
Definition rooted (root p : bytes) : Prop :=
  exists rel, forallb valid_name rel = true /\ p = root ++ relsuffix rel.

(* strictly below the root: at least one entry name *)
Definition below (root p : bytes) : Prop :=
  exists rel n, forallb valid_name rel = true /\ valid_name n = true /\ p = root ++ relsuffix (rel ++ [n]).

(* what the property statement allows for an event path: the empty string or a rooted path *)
Definition roe (root p : bytes) : Prop := p = [] \/ rooted root p.

Definition ev_ok (root : bytes) (e : nevent) : Prop := roe root (ev_src e) /\ roe root (ev_dest e).

Definition item_raws (it : item) : list raw :=
  match it with Single e => [e] | Pair f t => [f; t] end.

(* ------------------------------------------------------------------ any spelling of the root *)
(* For a root spelled with trailing separators (or "/" itself) paths are [joins root rel], not root ++ "/n1/...".
   Everything below the first name is again rooted - under the normalised path [join root n] of the top-level entry -
   so the emitter law carries over; the parent of a top-level entry is the root with its trailing separators
   stripped. *)
Definition jrooted (root p : bytes) : Prop :=
  exists rel, forallb valid_name rel = true /\ p = joins root rel.
Definition jbelow (root p : bytes) : Prop :=
  exists n rel, valid_name n = true /\ forallb valid_name rel = true /\ p = joins root (n :: rel).
(* dirname (join root n) *)
Definition norm_root (root : bytes) : bytes :=
  if last_is_sep root then match rstrip_sep root with [] => root | y => y end else root.

Definition jpath_ok (root p : bytes) : Prop := p = [] \/ jrooted root p \/ p = norm_root root.


(* masks for which queue_events never reports the parent directory (in particular everything the kernel sends with an
   empty name: IN_ATTRIB|IN_ISDIR, IN_DELETE_SELF, IN_IGNORED about the watched directory itself) *)
Definition noparent (m : N) : bool :=
  negb (is_moved_to m) && negb (is_delete m) && negb (is_moved_from m) && negb (is_create m) &&
  (negb (is_close_write m) || is_directory m).

(* a raw kernel record: a valid entry name, or no name and a mask of the kind above (so never IN_MOVED_TO, whose
   handler in read_events joins the name unconditionally) *)
Definition kraw_ok (e : kraw) : Prop :=
  valid_name (k_name e) = true \/ (k_name e = [] /\ noparent (k_mask e) = true).

(* an InotifyEvent as the reader outputs it: about an entry strictly below the root, or about a watched directory
   itself (possibly the root) with a mask that never reports the parent *)
Definition raw_ok (root : bytes) (x : raw) : Prop :=
  below root (r_path x) \/ (rooted root (r_path x) /\ noparent (r_mask x) = true).

Definition fs_names_ok (t : fs) : Prop := forall e, In e t -> valid_name (basename (f_path e)) = true.

Definition op_names_ok (o : op) : Prop :=
  match o with
  | Touch p | Write p | Chmod p | Unlink p | Mkdir p | Rmdir p => valid_name (basename p) = true
  | Rename p q => valid_name (basename p) = true /\ valid_name (basename q) = true
  end.

(* the reader invariant: every path stored in _path_for_wd, _wd_for_path, _moved_from_events and the remembered
   _moved_out_candidate (the src_path of a directory IN_MOVED_FROM) is rooted *)
Record path_inv (root : bytes) (r : rstate) : Prop := mkPI {
  pi_pfw : forall wd p, In (wd, p) (pfw r) -> rooted root p;
  pi_wfp : forall p wd, In (p, wd) (wfp r) -> rooted root p;
  pi_mvf : forall c p, In (c, p) (mvf r) -> rooted root p;
  pi_pend : forall c p, pend r = Some (c, p) -> rooted root p }.

(* the same invariant over an arbitrary pair of predicates "is a path of the tree" / "is strictly below the root" *)
Record gpath_inv (R : bytes -> Prop) (r : rstate) : Prop := mkGPI {
  gpi_pfw : forall wd p, In (wd, p) (pfw r) -> R p;
  gpi_wfp : forall p wd, In (p, wd) (wfp r) -> R p;
  gpi_mvf : forall c p, In (c, p) (mvf r) -> R p;
  gpi_pend : forall c p, pend r = Some (c, p) -> R p }.
Definition graw_ok (R B : bytes -> Prop) (x : raw) : Prop :=
  B (r_path x) \/ (R (r_path x) /\ noparent (r_mask x) = true).

(* the same for a root spelled with trailing separators (theorem C19_reader_any_root) *)
Definition jraw_ok (root : bytes) (x : raw) : Prop :=
  jbelow root (r_path x) \/ (jrooted root (r_path x) /\ noparent (r_mask x) = true).
Definition jpath_inv (root : bytes) (r : rstate) : Prop :=
  (forall wd p, In (wd, p) (pfw r) -> jrooted root p) /\
  (forall p wd, In (p, wd) (wfp r) -> jrooted root p) /\
  (forall c p, In (c, p) (mvf r) -> jrooted root p) /\
  (forall c p, pend r = Some (c, p) -> jrooted root p).

(* ------------------------------------------------------------------ types *)
Inductive ptag := TStr | TBytes.
Record pval := { pv_tag : ptag; pv_bytes : bytes }.

Definition ptag_eqb (a b : ptag) : bool :=
  match a, b with TStr, TStr | TBytes, TBytes => true | _, _ => false end.

(* the three spellings schedule() accepts; ObservedWatch.__init__ turns a pathlib.Path into str *)
Inductive wkind := WStr | WBytes | WPath.
Definition watch_tag (k : wkind) : ptag := match k with WBytes => TBytes | WStr | WPath => TStr end.

Definition tagged (g : ptag) (b : bytes) : pval := {| pv_tag := g; pv_bytes := b |}.

(* what the reader (inotify_c.py, constructed on os.fsencode(watch.path)) hands over *)
Definition of_reader (b : bytes) : pval := tagged TBytes b.
(* the literal "" *)
Definition pempty : pval := tagged TStr [].

Definition fsdecode (v : pval) : pval := tagged TStr (pv_bytes v).
(* InotifyEmitter._decode_path: `path if isinstance(self.watch.path, bytes) else os.fsdecode(path)` *)
Definition decode_path (wtag : ptag) (v : pval) : pval :=
  match wtag with TBytes => v | TStr => fsdecode v end.

(* os.path.dirname, os.path.join, str/bytes.replace(old, new, 1): the result has the type of the (first) argument *)
Definition pdirname (v : pval) : pval := tagged (pv_tag v) (dirname (pv_bytes v)).
Definition pjoin (a b : pval) : pval := tagged (pv_tag a) (join (pv_bytes a) (pv_bytes b)).
Definition preplace1 (s old new : pval) : pval :=
  tagged (pv_tag s) (replace_first (pv_bytes old) (pv_bytes new) (pv_bytes s)).
(* `==` on paths: a str never equals a bytes object *)
Definition peqb (a b : pval) : bool := ptag_eqb (pv_tag a) (pv_tag b) && beqb (pv_bytes a) (pv_bytes b).
(* truthiness `if src_dir_path` *)
Definition pnonempty (v : pval) : bool := match pv_bytes v with [] => false | _ => true end.

(* os.walk(top) / os.scandir(top): every root and every name has the type of [top] *)
Definition pwalk (top : pval) (t : tree) : list (pval * list pval * list pval) :=
  map (fun w : bytes * list bytes * list bytes =>
         let '(r, ds, fs) := w in
         (tagged (pv_tag top) r, map (tagged (pv_tag top)) ds, map (tagged (pv_tag top)) fs))
      (walk (pv_bytes top) t).

Record tevent := { te_cls : evclass; te_src : pval; te_dest : pval; te_synth : bool }.

Definition erase_ev (e : tevent) : nevent :=
  {| ev_cls := te_cls e; ev_src := pv_bytes (te_src e); ev_dest := pv_bytes (te_dest e); ev_synth := te_synth e |}.
Definition erase (r : list tevent * bool) : list nevent * bool := (map erase_ev (fst r), snd r).

(* cls(src_path) leaves dest_path at its default "" *)
Definition tmk (c : evclass) (src dest : pval) : tevent :=
  {| te_cls := c; te_src := src; te_dest := dest; te_synth := false |}.
Definition tparent_modified (p : pval) : tevent := tmk DirModified (pdirname p) pempty.

(* events.generate_sub_moved_events(src, dest) *)
Definition tsub_moved (src dest : pval) (t : tree) : list tevent :=
  flat_map (fun w : pval * list pval * list pval =>
              let '(root, ds, fs) := w in
              map (fun d => let full := pjoin root d in
                            {| te_cls := DirMoved;
                               te_src := if pnonempty src then preplace1 full dest src else pempty;
                               te_dest := full; te_synth := true |}) ds ++
              map (fun f => let full := pjoin root f in
                            {| te_cls := FileMoved;
                               te_src := if pnonempty src then preplace1 full dest src else pempty;
                               te_dest := full; te_synth := true |}) fs)
           (pwalk dest t).

(* events.generate_sub_created_events(src) *)
Definition tsub_created (src : pval) (t : tree) : list tevent :=
  flat_map (fun w : pval * list pval * list pval =>
              let '(root, ds, fs) := w in
              map (fun d => {| te_cls := DirCreated; te_src := pjoin root d; te_dest := pempty; te_synth := true |}) ds ++
              map (fun f => {| te_cls := FileCreated; te_src := pjoin root f; te_dest := pempty; te_synth := true |}) fs)
           (pwalk src t).

(* InotifyEmitter.queue_events, statement by statement, on tagged values *)
Section TypedEmit.
  Variable full_events recursive : bool.
  Variable wpath : pval.                      (* self.watch.path (already str for a pathlib.Path) *)
  Variable content : bytes -> tree.

  Definition dec (b : bytes) : pval := decode_path (pv_tag wpath) (of_reader b).

  Definition temit_pair (f t : raw) : list tevent * bool :=
    let src := dec (r_path f) in
    let dest := dec (r_path t) in
    let d := is_directory (r_mask f) in
    ( tmk (moved_cls d) src dest
      :: tparent_modified src
      :: tparent_modified dest
      :: (if d && recursive then tsub_moved src dest (content (pv_bytes dest)) else []),
      false ).

  Definition temit_single (e : raw) : list tevent * bool :=
    let m := r_mask e in
    let p := dec (r_path e) in
    let d := is_directory m in
    if is_moved_to m then
      ( (if full_events then tmk (moved_cls d) pempty p else tmk (created_cls d) p pempty)
        :: tparent_modified p
        :: (if d && recursive then tsub_created p (content (pv_bytes p)) else []),
        false )
    else if is_attrib m || is_modify m then
      ( [tmk (modified_cls d) p pempty], false )
    else if is_delete m || (is_moved_from m && negb full_events) then
      ( [tmk (deleted_cls d) p pempty; tparent_modified p], false )
    else if is_moved_from m && full_events then
      ( [tmk (moved_cls d) p pempty; tparent_modified p], false )
    else if is_create m then
      ( [tmk (created_cls d) p pempty; tparent_modified p], false )
    else if is_delete_self m && peqb p wpath then
      ( [tmk (deleted_cls d) p pempty], true )
    else if negb d then
      if is_open m then ( [tmk FileOpened p pempty], false )
      else if is_close_write m then ( [tmk FileClosed p pempty; tparent_modified p], false )
      else if is_close_nowrite m then ( [tmk FileClosedNoWrite p pempty], false )
      else ( [], false )
    else ( [], false ).

  Definition typed_emit (it : item) : list tevent * bool :=
    match it with
    | Single e => temit_single e
    | Pair f t => temit_pair f t
    end.
End TypedEmit.

(* the type law for one path of one event: non-empty => the watch's tag *)
Definition tag_ok (w : ptag) (v : pval) : Prop := pv_bytes v <> [] -> pv_tag v = w.

(* ------------------------------------------------------------------ polling side *)
(* DirectorySnapshot.walk: `os.path.join(root, entry.name) for entry in scandir(root)`, recursively: the path of the
   entry with relative names [rel] under the watch path *)
Definition pjoins (root : pval) (rel : list bytes) : pval :=
  fold_left (fun a n => pjoin a (tagged (pv_tag a) n)) rel root.

(* the inotify side for the same entry: the reader's bytes, decoded by the emitter *)
Definition inotify_path (wpath : pval) (rel : list bytes) : pval :=
  decode_path (pv_tag wpath) (of_reader (joins (pv_bytes wpath) rel)).
