(* Proofs about the model of DirectorySnapshot.__init__ / walk (Model/Walk.v). *)
Require Import WD.Base.Prelude WD.Base.BStr WD.Model.Snapshot WD.Model.Walk.

Section TreeInd.
  Variable P : tree -> Prop.
  Hypothesis HNode : forall st ch, Forall (fun d => P (snd d)) ch -> P (Node st ch).
  Fixpoint tree_ind' (t : tree) : P t :=
    match t with
    | Node st ch =>
      HNode st ch
        ((fix go (l : list (bytes * tree)) : Forall (fun d => P (snd d)) l :=
            match l with
            | [] => Forall_nil _
            | d :: l' => Forall_cons d (tree_ind' (snd d)) (go l')
            end) ch)
    end.
End TreeInd.

(* ---------------------------------------------------------------- named inner loops *)

Definition walk_list (rec : bool) (f : faults) (root : path) : list (bytes * tree) -> wres :=
  fix go (l : list (bytes * tree)) : wres :=
    match l with
    | [] => WOk []
    | (n, sub) :: l' =>
      if stat_ok f root n && st_isdir (stat_of sub) then
        match walk rec f (join root n) sub with
        | WOk es => match go l' with WOk es' => WOk (es ++ es') | r => r end
        | WRaise e => if is_perm e then go l' else WRaise e
        end
      else go l'
    end.

Definition ents (f : faults) (root : path) (ch : list (bytes * tree)) : snap :=
  flat_map (fun c => if stat_ok f root (fst c)
                     then [(join root (fst c), stat_of (snd c))] else []) ch.

Definition reach_list (rec : bool) (root : path) : list (bytes * tree) -> snap :=
  fix go (l : list (bytes * tree)) : snap :=
    match l with
    | [] => []
    | (n, sub) :: l' => reach rec (join root n) sub ++ go l'
    end.

Definition prune_list (f : faults) (root : path) : list (bytes * tree) -> list (bytes * tree) :=
  fix go (l : list (bytes * tree)) : list (bytes * tree) :=
    match l with
    | [] => []
    | (n, sub) :: l' =>
      if stat_ok f root n then (n, prune f (join root n) sub) :: go l' else go l'
    end.

Lemma walk_eq rec f root st ch :
  walk rec f root (Node st ch) =
  match fault_at f CList root with
  | Some e => if tolerated e then WOk [] else WRaise e
  | None =>
    if negb (st_isdir st) then WOk []
    else if rec then
           match walk_list rec f root ch with
           | WOk below => WOk (ents f root ch ++ below)
           | r => r
           end
         else WOk (ents f root ch)
  end.
Proof. reflexivity. Qed.

Lemma walk_list_nil rec f root : walk_list rec f root [] = WOk [].
Proof. reflexivity. Qed.

Lemma walk_list_cons rec f root n sub l :
  walk_list rec f root ((n, sub) :: l) =
  if stat_ok f root n && st_isdir (stat_of sub) then
    match walk rec f (join root n) sub with
    | WOk es => match walk_list rec f root l with WOk es' => WOk (es ++ es') | r => r end
    | WRaise e => if is_perm e then walk_list rec f root l else WRaise e
    end
  else walk_list rec f root l.
Proof. reflexivity. Qed.

Lemma reach_eq rec root st ch :
  reach rec root (Node st ch) =
  if st_isdir st then
    map (fun c => (join root (fst c), stat_of (snd c))) ch ++
    (if rec then reach_list rec root ch else [])
  else [].
Proof. reflexivity. Qed.

Lemma reach_list_nil rec root : reach_list rec root [] = [].
Proof. reflexivity. Qed.

Lemma reach_list_cons rec root n sub l :
  reach_list rec root ((n, sub) :: l) = reach rec (join root n) sub ++ reach_list rec root l.
Proof. reflexivity. Qed.

Lemma prune_eq f root st ch :
  prune f root (Node st ch) =
  match fault_at f CList root with
  | Some _ => Node st []
  | None => Node st (prune_list f root ch)
  end.
Proof. reflexivity. Qed.

Lemma prune_list_nil f root : prune_list f root [] = [].
Proof. reflexivity. Qed.

Lemma prune_list_cons f root n sub l :
  prune_list f root ((n, sub) :: l) =
  if stat_ok f root n then (n, prune f (join root n) sub) :: prune_list f root l
  else prune_list f root l.
Proof. reflexivity. Qed.

(* ---------------------------------------------------------------- small facts *)

Lemma stat_of_prune f root t : stat_of (prune f root t) = stat_of t.
Proof. destruct t as [st ch]. rewrite prune_eq. destruct (fault_at f CList root); reflexivity. Qed.

Lemma reach_notdir rec root t : st_isdir (stat_of t) = false -> reach rec root t = [].
Proof. destruct t as [st ch]. simpl stat_of. intros H. rewrite reach_eq, H. reflexivity. Qed.

Lemma reach_leaf rec root st : reach rec root (Node st []) = [].
Proof. rewrite reach_eq. destruct (st_isdir st), rec; reflexivity. Qed.

Lemma stat_ok_nil root n : stat_ok [] root n = true.
Proof. reflexivity. Qed.

Lemma ents_nil root ch :
  ents [] root ch = map (fun c => (join root (fst c), stat_of (snd c))) ch.
Proof.
  unfold ents. induction ch as [|c ch IH]; [reflexivity|].
  cbn [flat_map map]. rewrite stat_ok_nil, IH. reflexivity.
Qed.

(* ---------------------------------------------------------------- no faults *)

Lemma walk_nofault rec : forall t root, walk rec [] root t = WOk (reach rec root t).
Proof.
  induction t as [st ch IH] using tree_ind'. intros root.
  rewrite walk_eq, reach_eq. cbn [fault_at].
  destruct (st_isdir st); cbn [negb]; [|reflexivity].
  rewrite ents_nil.
  destruct rec; [|rewrite app_nil_r; reflexivity].
  assert (HL : walk_list true [] root ch = WOk (reach_list true root ch)).
  { induction ch as [|[n sub] ch IHch]; [reflexivity|].
    inversion IH as [|x l Hsub Hrest]; subst.
    rewrite walk_list_cons, reach_list_cons, stat_ok_nil. cbn [andb].
    rewrite (IHch Hrest).
    destruct (st_isdir (stat_of sub)) eqn:Hd.
    - cbn [snd] in Hsub. rewrite Hsub. reflexivity.
    - rewrite (reach_notdir true _ sub Hd). reflexivity. }
  rewrite HL. reflexivity.
Qed.

Lemma snapshot_nofault : forall rec root t,
  snapshot_of rec [] root (Some t) = Snap ((root, stat_of t) :: reach rec root t).
Proof.
  intros rec root t. unfold snapshot_of. cbn [fault_at]. rewrite walk_nofault. reflexivity.
Qed.

(* ---------------------------------------------------------------- reach = reaches *)

Lemma in_reach_list rec root x : forall ch,
  In x (reach_list rec root ch) <->
  exists n sub, In (n, sub) ch /\ In x (reach rec (join root n) sub).
Proof.
  induction ch as [|[n sub] ch IH].
  - rewrite reach_list_nil. split; [intros [] | intros (n & sub & [] & _)].
  - rewrite reach_list_cons, in_app_iff, IH. split.
    + intros [H | (n' & sub' & Hin & H)].
      * exists n, sub. split; [left; reflexivity | exact H].
      * exists n', sub'. split; [right; exact Hin | exact H].
    + intros (n' & sub' & [E | Hin] & H).
      * inversion E; subst. left. exact H.
      * right. exists n', sub'. split; assumption.
Qed.

Lemma reach_reaches rec : forall t root p st,
  In (p, st) (reach rec root t) -> reaches rec root t p st.
Proof.
  induction t as [s ch IH] using tree_ind'. intros root p st.
  rewrite reach_eq. destruct (st_isdir s) eqn:Hd; [|intros []].
  rewrite in_app_iff. intros [H | H].
  - apply in_map_iff in H as ([n sub] & E & Hin). cbn [fst snd] in E.
    inversion E; subst. apply R_child; assumption.
  - destruct rec eqn:Hrec; [|destruct H].
    apply in_reach_list in H as (n & sub & Hin & H).
    rewrite Forall_forall in IH. specialize (IH _ Hin). cbn [snd] in IH.
    eapply R_below; [reflexivity | exact Hd | exact Hin | apply IH; exact H].
Qed.

Lemma reaches_reach rec root t p st :
  reaches rec root t p st -> In (p, st) (reach rec root t).
Proof.
  induction 1 as [root s ch n sub Hd Hin | root s ch n sub p st Hrec Hd Hin Hr IH].
  - rewrite reach_eq, Hd, in_app_iff. left.
    apply in_map_iff. exists (n, sub). split; [reflexivity | exact Hin].
  - rewrite reach_eq, Hd, in_app_iff. right. rewrite Hrec.
    apply in_reach_list. exists n, sub. split; [exact Hin|]. rewrite <- Hrec. exact IH.
Qed.

Lemma reach_iff : forall rec root t p st,
  In (p, st) (reach rec root t) <-> reaches rec root t p st.
Proof. intros. split; [apply reach_reaches | apply reaches_reach]. Qed.

Lemma reaches_nonrec : forall root st ch p s,
  reaches false root (Node st ch) p s <->
  st_isdir st = true /\ exists n sub, In (n, sub) ch /\ p = join root n /\ s = stat_of sub.
Proof.
  intros root st ch p s. split.
  - intros H. inversion H; subst.
    + split; [assumption|]. eexists _, _. split; [eassumption|]. split; reflexivity.
    + discriminate.
  - intros (Hd & n & sub & Hin & -> & ->). apply R_child; assumption.
Qed.

(* ---------------------------------------------------------------- faults of the stated set *)

Lemma stated_fault f c p e : stated f = true -> fault_at f c p = Some e -> stated_errno e = true.
Proof.
  unfold stated. induction f as [|[[c' p'] e'] f IH]; cbn [forallb fault_at snd].
  - discriminate.
  - intros H. apply andb_true_iff in H as [H1 H2].
    destruct (call_eqb c c' && beqb p p').
    + intros E. inversion E; subst. exact H1.
    + apply IH. exact H2.
Qed.

Lemma walk_eacces rec f root t :
  fault_at f CList root = Some EACCES -> walk rec f root t = WRaise EACCES.
Proof. intros H. destruct t as [st ch]. rewrite walk_eq, H. reflexivity. Qed.

Lemma prune_listfault f root t e :
  fault_at f CList root = Some e -> prune f root t = Node (stat_of t) [].
Proof. intros H. destruct t as [st ch]. rewrite prune_eq, H. reflexivity. Qed.

Lemma ents_prune f root ch :
  ents f root ch = map (fun c => (join root (fst c), stat_of (snd c))) (prune_list f root ch).
Proof.
  unfold ents. induction ch as [|[n sub] ch IH]; [reflexivity|].
  rewrite prune_list_cons. cbn [flat_map fst snd].
  destruct (stat_ok f root n).
  - cbn [map app fst snd]. rewrite stat_of_prune, IH. reflexivity.
  - cbn [app]. exact IH.
Qed.

Lemma walk_faults rec f : stated f = true -> forall t root,
  fault_at f CList root <> Some EACCES ->
  walk rec f root t = WOk (reach rec root (prune f root t)).
Proof.
  intros Hst. induction t as [st ch IH] using tree_ind'. intros root Hroot.
  rewrite walk_eq, prune_eq.
  destruct (fault_at f CList root) as [e|] eqn:Hf.
  - rewrite reach_leaf. pose proof (stated_fault _ _ _ _ Hst Hf) as He.
    destruct e; try discriminate; try reflexivity. congruence.
  - rewrite reach_eq. destruct (st_isdir st); cbn [negb]; [|reflexivity].
    rewrite ents_prune.
    destruct rec; [|rewrite app_nil_r; reflexivity].
    assert (HL : walk_list true f root ch = WOk (reach_list true root (prune_list f root ch))).
    { clear Hroot Hf. induction ch as [|[n sub] ch IHch]; [reflexivity|].
      inversion IH as [|x l Hsub Hrest]; subst. cbn [snd] in Hsub.
      rewrite walk_list_cons, prune_list_cons, (IHch Hrest).
      destruct (stat_ok f root n); cbn [andb]; [|reflexivity].
      rewrite reach_list_cons.
      destruct (st_isdir (stat_of sub)) eqn:Hd.
      - destruct (fault_at f CList (join root n)) as [e|] eqn:Hf.
        + pose proof (stated_fault _ _ _ _ Hst Hf) as He.
          destruct e; try discriminate.
          * rewrite Hsub by congruence. reflexivity.
          * rewrite Hsub by congruence. reflexivity.
          * rewrite (walk_eacces _ _ _ _ Hf). cbn [is_perm].
            rewrite (prune_listfault _ _ _ _ Hf), reach_leaf. reflexivity.
        + rewrite Hsub by congruence. reflexivity.
      - rewrite reach_notdir by (rewrite stat_of_prune; exact Hd). reflexivity. }
    rewrite HL. reflexivity.
Qed.

Lemma snapshot_faults : forall rec f root t,
  stated f = true ->
  fault_at f CStat root = None ->
  fault_at f CList root <> Some EACCES ->
  snapshot_of rec f root (Some t) = Snap ((root, stat_of t) :: reach rec root (prune f root t)).
Proof.
  intros rec f root t Hst Hs Hl. unfold snapshot_of. rewrite Hs.
  rewrite (walk_faults rec f Hst t root Hl). reflexivity.
Qed.

(* ---------------------------------------------------------------- pruning *)

Lemma in_prune_list f root n sub' : forall ch,
  In (n, sub') (prune_list f root ch) ->
  exists sub, In (n, sub) ch /\ sub' = prune f (join root n) sub.
Proof.
  induction ch as [|[m sub] ch IH]; [intros []|].
  rewrite prune_list_cons. destruct (stat_ok f root m).
  - intros [E | H].
    + inversion E; subst. exists sub. split; [left; reflexivity | reflexivity].
    + destruct (IH H) as (s & Hin & E). exists s. split; [right; exact Hin | exact E].
  - intros H. destruct (IH H) as (s & Hin & E). exists s. split; [right; exact Hin | exact E].
Qed.

Lemma prune_reaches_gen rec f : forall t root p st,
  reaches rec root (prune f root t) p st -> reaches rec root t p st.
Proof.
  induction t as [s ch IH] using tree_ind'. intros root p st.
  rewrite prune_eq. destruct (fault_at f CList root).
  - intros H. inversion H; subst; contradiction.
  - intros H. inversion H; subst.
    + match goal with Hp : In _ (prune_list _ _ _) |- _ =>
        apply in_prune_list in Hp as (sub0 & Hin & ->) end.
      rewrite stat_of_prune. apply R_child; assumption.
    + match goal with Hp : In _ (prune_list _ _ _) |- _ =>
        apply in_prune_list in Hp as (sub0 & Hin & ->) end.
      rewrite Forall_forall in IH. pose proof (IH _ Hin) as IH'. cbn [snd] in IH'.
      eapply R_below; [reflexivity | assumption | exact Hin | apply IH'; assumption].
Qed.

Lemma prune_reaches : forall rec f root t p st,
  reaches rec root (prune f root t) p st -> reaches rec root t p st.
Proof. intros rec f root t p st. apply prune_reaches_gen. Qed.

Lemma prune_nil : forall root t, prune [] root t = t.
Proof.
  intros root t. revert root. induction t as [st ch IH] using tree_ind'. intros root.
  rewrite prune_eq. cbn [fault_at]. f_equal.
  induction ch as [|[n sub] ch IHch]; [reflexivity|].
  inversion IH as [|x l Hsub Hrest]; subst. cbn [snd] in Hsub.
  rewrite prune_list_cons, stat_ok_nil, Hsub, (IHch Hrest). reflexivity.
Qed.

(* ---------------------------------------------------------------- outside the stated set *)

Lemma walk_raises_witness :
  (exists rec root t, snapshot_of rec [(CList, root, EACCES)] root (Some t) = Raised EACCES) /\
  (exists rec root t f, fault_at f CStat root = None /\ fault_at f CList root = None /\
                        snapshot_of rec f root (Some t) = Raised EIO).
Proof.
  split.
  - exists true, [47; 114]%N, (Node (mkStat 1 1 true 0 0) []).
    vm_compute. reflexivity.
  - exists true, [47; 114]%N,
      (Node (mkStat 1 1 true 0 0) [([97]%N, Node (mkStat 2 1 true 0 0) [])]),
      [(CList, [47; 114; 47; 97]%N, EIO)].
    vm_compute. repeat split.
Qed.
