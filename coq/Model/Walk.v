(* Model of DirectorySnapshot.__init__ + walk (dirsnapshot.py l.294-342) over a virtual tree with a
   fault plan.  Definitions only.

   The file system is a rose tree: every node carries the stat result the `stat` function returns
   for it and, for directories, the entries `listdir` returns in order.  A fault plan makes the
   `stat` / `listdir` call for a given path fail with an errno.  (Each path is stat'ed and listed at
   most once per walk, so "the call for path p" and "the n-th call" name the same thing; the harness
   injects by call position and tells the model which call that was.) *)
Require Import WD.Base.Prelude WD.Base.BStr WD.Model.Snapshot.

Inductive tree := Node : stat -> list (bytes * tree) -> tree.

Definition stat_of (t : tree) : stat := match t with Node st _ => st end.
Definition children (t : tree) : list (bytes * tree) := match t with Node _ ch => ch end.

Inductive errno := ENOENT | ENOTDIR | EINVAL | EACCES | EIO.
Inductive call := CStat | CList.

Definition errno_eqb (a b : errno) : bool :=
  match a, b with
  | ENOENT, ENOENT | ENOTDIR, ENOTDIR | EINVAL, EINVAL | EACCES, EACCES | EIO, EIO => true
  | _, _ => false
  end.
Definition call_eqb (a b : call) : bool :=
  match a, b with CStat, CStat | CList, CList => true | _, _ => false end.

Definition faults := list (call * path * errno).

Fixpoint fault_at (f : faults) (c : call) (p : path) : option errno :=
  match f with
  | [] => None
  | (c', p', e) :: f' => if call_eqb c c' && beqb p p' then Some e else fault_at f' c p
  end.

(* walk(): `if e.errno in (ENOENT, ENOTDIR, EINVAL): return` *)
Definition tolerated (e : errno) : bool :=
  match e with ENOENT | ENOTDIR | EINVAL => true | _ => false end.
(* contextlib.suppress(PermissionError): EACCES (and EPERM) are PermissionError *)
Definition is_perm (e : errno) : bool := match e with EACCES => true | _ => false end.

(* What the generator hands to __init__ before it ends (WOk) or raises (WRaise). *)
Inductive wres := WOk (es : snap) | WRaise (e : errno).

Definition stat_ok (f : faults) (root n : bytes) : bool :=
  match fault_at f CStat (join root n) with None => true | Some _ => false end.

Fixpoint walk (rec : bool) (f : faults) (root : path) (t : tree) : wres :=
  match t with
  | Node st ch =>
    match fault_at f CList root with
    | Some e => if tolerated e then WOk [] else WRaise e        (* l.321-329 *)
    | None =>
      if negb (st_isdir st) then WOk []                         (* the fs itself says ENOTDIR *)
      else
        (* l.331-336: stat every listed name; any OSError skips the entry *)
        let ents := flat_map (fun c => if stat_ok f root (fst c)
                                       then [(join root (fst c), stat_of (snd c))] else []) ch in
        if rec then
          (* l.338-342 *)
          match (fix go (l : list (bytes * tree)) : wres :=
                   match l with
                   | [] => WOk []
                   | (n, sub) :: l' =>
                     if stat_ok f root n && st_isdir (stat_of sub) then
                       match walk rec f (join root n) sub with
                       | WOk es => match go l' with WOk es' => WOk (es ++ es') | r => r end
                       | WRaise e => if is_perm e then go l' else WRaise e
                       end
                     else go l'
                   end) ch with
          | WOk below => WOk (ents ++ below)
          | r => r
          end
        else WOk ents
    end
  end.

Inductive outcome := Raised (e : errno) | Snap (s : snap).

(* DirectorySnapshot(root, recursive=rec, stat=..., listdir=...); None = the root does not exist *)
Definition snapshot_of (rec : bool) (f : faults) (root : path) (ot : option tree) : outcome :=
  match ot with
  | None => Raised ENOENT
  | Some t =>
    match fault_at f CStat root with
    | Some e => Raised e                                        (* l.309: unguarded *)
    | None =>
      match walk rec f root t with
      | WOk es => Snap ((root, stat_of t) :: es)
      | WRaise e => Raised e
      end
    end
  end.

(* ------------------------------------------------------------ specification side *)

(* The entries strictly below [root] that are reachable: the direct children of a directory and,
   when recursive, what is reachable below each child directory; in walk order. *)
Fixpoint reach (rec : bool) (root : path) (t : tree) : snap :=
  match t with
  | Node st ch =>
    if st_isdir st then
      map (fun c => (join root (fst c), stat_of (snd c))) ch ++
      (if rec then
         (fix go (l : list (bytes * tree)) : snap :=
            match l with
            | [] => []
            | (n, sub) :: l' => reach rec (join root n) sub ++ go l'
            end) ch
       else [])
    else []
  end.

(* The tree as the walk sees it under a fault plan: an entry whose stat fails is absent (with all
   that lies below it); a directory whose listing fails is present but empty. *)
Fixpoint prune (f : faults) (root : path) (t : tree) : tree :=
  match t with
  | Node st ch =>
    match fault_at f CList root with
    | Some _ => Node st []
    | None =>
      Node st ((fix go (l : list (bytes * tree)) : list (bytes * tree) :=
                  match l with
                  | [] => []
                  | (n, sub) :: l' =>
                    if stat_ok f root n then (n, prune f (join root n) sub) :: go l' else go l'
                  end) ch)
    end
  end.

(* the fault set of the property: ENOENT / ENOTDIR / EACCES *)
Definition stated_errno (e : errno) : bool :=
  match e with ENOENT | ENOTDIR | EACCES => true | _ => false end.
Definition stated (f : faults) : bool := forallb (fun x => stated_errno (snd x)) f.

(* Relational reading of "reachable": [reaches rec root t p st] - the entry with path [p] and stat
   [st] lies below the directory [t] (whose path is [root]): a direct child, or, when recursive,
   reachable below a child. *)
Inductive reaches (rec : bool) : path -> tree -> path -> stat -> Prop :=
| R_child : forall root st ch n sub,
    st_isdir st = true -> In (n, sub) ch ->
    reaches rec root (Node st ch) (join root n) (stat_of sub)
| R_below : forall root st ch n sub p s,
    rec = true -> st_isdir st = true -> In (n, sub) ch ->
    reaches rec (join root n) sub p s ->
    reaches rec root (Node st ch) p s.
