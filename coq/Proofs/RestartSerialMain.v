(* AutoRestartTrick, repaired protocol: the invariant is inductive; the C18 restart theorems. *)
Require Import WD.Base.Prelude WD.Base.Lts WD.Model.Restart WD.Proofs.RestartSerialProofs.

Section Serial.
  Variable roe : bool.
  Variable ka : N.
  Notation rstep' := (rstep true roe ka).
  Notation step' := (rs_step true roe ka).
  Notation M := (restart_lts true roe ka).

  (* ---------------------------------------------------------------- environment steps *)
  Lemma inv_tick s d : Inv s ->
    Inv (mk (clock s + d) (children s) (process s) (process_watcher s) (proc_stopping s) (trick_stopping s)
            (lock s) (tpc s) (watchers s) (mpcs s) (spawns s) (admitted s) (max_alive s)).
  Proof.
    intros I. constructor; simpl.
    - exact (K1 s I). - exact (K2 s I). - exact (K3 s I). - exact (K4 s I). - exact (K5 s I).
    - exact (K6 s I). - exact (K6m s I). - exact (K7a s I). - exact (K7b s I). - exact (K7c s I).
    - exact (K8 s I). - exact (K9 s I). - exact (K10 s I). - exact (K11 s I).
  Qed.

  Lemma inv_exit s i : Inv s -> child_alive s i = true ->
    Inv (upd s (set_nth i false (children s)) (process s) (process_watcher s) (proc_stopping s)
             (trick_stopping s) (lock s) (spawns s) (admitted s)).
  Proof.
    intros I A. unfold child_alive in A.
    pose proof (count_alive_kill i (children s) A) as C.
    assert (Z : count_alive (set_nth i false (children s)) = 0%nat).
    { destruct (K8 s I) as [Z | (Z & _)]; unfold alive_children in Z; lia. }
    constructor; simpl.
    - exact (K1 s I). - exact (K2 s I). - exact (K3 s I). - exact (K4 s I). - exact (K5 s I).
    - exact (K6 s I). - exact (K6m s I). - exact (K7a s I). - exact (K7b s I).
    - intros t H p Hp. unfold child_alive. simpl. rewrite nth_set_nth_false.
      destruct (Nat.eqb i p); [reflexivity | apply (K7c s I t H p Hp)].
    - left. exact Z.
    - exact (K9 s I). - exact (K10 s I).
    - destruct (K11 s I) as (C1 & C2 & C3). repeat split.
      + exact C1.
      + rewrite length_set_nth. exact C2.
      + rewrite Z. lia.
  Qed.

  (* ---------------------------------------------------------------- stop(): the flag section *)
  Lemma lock_free_tm s : Inv s -> lock_free_for s TM = true -> lock s = None.
  Proof.
    intros I H. unfold lock_free_for in H. destruct (lock s) as [t|] eqn:L; [|reflexivity].
    apply tid_eqb_eq in H. subst. destruct (K2 s I TM L) as [X _]. discriminate.
  Qed.

  Lemma inv_mflag s : Inv s -> mpcs s = MFlag -> lock_free_for s TM = true ->
    Inv (set_mpc (upd s (children s) (process s) (process_watcher s) (proc_stopping s) true (lock s)
                      (spawns s) (admitted s)) MCapture).
  Proof.
    intros I Hm Hl. pose proof (lock_free_tm s I Hl) as L.
    assert (NI : forall t r, rp s t = Some r -> is_tm t = false -> inside r = true -> False).
    { intros t r H Ht Hi. pose proof (K1 s I t r H Ht Hi). congruence. }
    set (s2 := set_mpc (upd s (children s) (process s) (process_watcher s) (proc_stopping s) true (lock s)
                      (spawns s) (admitted s)) MCapture).
    assert (RP : forall t, rp s2 t = rp s t).
    { intros t. destruct t; try reflexivity. simpl. rewrite Hm. reflexivity. }
    assert (F1 : lock s2 = lock s) by reflexivity.
    assert (F2 : trick_stopping s2 = true) by reflexivity.
    assert (F3 : mpcs s2 = MCapture) by reflexivity.
    assert (F4 : proc_stopping s2 = proc_stopping s) by reflexivity.
    assert (F5 : process_watcher s2 = process_watcher s) by reflexivity.
    assert (F6 : process s2 = process s) by reflexivity.
    assert (F7 : children s2 = children s) by reflexivity.
    assert (F8 : watchers s2 = watchers s) by reflexivity.
    assert (F9 : spawns s2 = spawns s /\ admitted s2 = admitted s /\
                 max_alive s2 = Nat.max (max_alive s) (count_alive (children s))) by (repeat split).
    clearbody s2.
    constructor.
    - intros t r H Ht Hi. rewrite RP in H. exfalso. exact (NI t r H Ht Hi).
    - intros t X. rewrite F1, L in X. discriminate.
    - rewrite F2, F3. reflexivity.
    - intros t r H Ht Hd. rewrite RP in H. exfalso. exact (NI t r H Ht (deep_inside _ Hd)).
    - intros P. rewrite F4 in P. destruct (K5 s I P) as (t & r & A & B). exists t, r. rewrite RP. auto.
    - intros t r H. rewrite RP in H. rewrite F5. apply (K6 s I t r H).
    - rewrite F3. discriminate.
    - intros t r H. rewrite RP in H. rewrite F6. apply (K7a s I t r H).
    - intros t p kt H. rewrite RP in H. rewrite F6. apply (K7b s I t p kt H).
    - intros t H. rewrite RP in H. unfold child_alive. rewrite F6, F7. apply (K7c s I t H).
    - unfold alive_children, child_alive. rewrite F6, F7. apply (K8 s I).
    - intros r H. rewrite RP in H. apply (K9 s I r H).
    - rewrite F8, F5. apply (K10 s I).
    - destruct (K11 s I) as (C1 & C2 & C3). pose proof (count_le1 s I). destruct F9 as (G1 & G2 & G3).
      unfold pending in *. rewrite F1, G1, G2, G3, F7. rewrite L in *. repeat split; auto. lia.
  Qed.

  (* ---------------------------------------------------------------- the invariant is inductive *)
  Lemma k6m_old s : Inv s -> forall m', (m_after m' = true -> m_after (mpcs s) = true) ->
    m_after m' = true -> process_watcher s = None /\ process s = None.
  Proof. intros I m' H A. apply (K6m s I). auto. Qed.

  Lemma inv_T_rstep s r s1 r' : Inv s -> tpc s = Some r -> rstep' TT s r = Some (s1, r') ->
    Inv (set_tpc s1 (Some r')).
  Proof.
    intros I Hr Hs. apply (inv_move roe ka s TT r s1 r').
    destruct (rstep_frame roe ka TT s r s1 r' Hs) as [_ Hm].
    split; [exact I|]. split; [exact Hr|]. split; [exact Hs|]. split; [discriminate|].
    split; [apply (moved_set_tpc s1 (Some r'))|]. simpl. rewrite Hm. auto.
  Qed.

  Lemma inv_W_rstep s i w r s1 r' : Inv s -> nth_error (watchers s) i = Some w -> w_pc w = WRestart r ->
    rstep' (TW i) s r = Some (s1, r') -> Inv (set_wpc s1 i (WRestart r')).
  Proof.
    intros I Hw Hp Hs.
    assert (Hr : rp s (TW i) = Some r) by (simpl; rewrite Hw; unfold wr; rewrite Hp; reflexivity).
    destruct (rstep_frame roe ka (TW i) s r s1 r' Hs) as [Hrp Hm].
    assert (Hw1 : exists w1, nth_error (watchers s1) i = Some w1).
    { pose proof (Hrp (TW i)) as X. rewrite Hr in X. simpl in X.
      destruct (nth_error (watchers s1) i); [eauto | discriminate]. }
    destruct Hw1 as [w1 Hw1].
    apply (inv_move roe ka s (TW i) r s1 r').
    split; [exact I|]. split; [exact Hr|]. split; [exact Hs|]. split; [discriminate|].
    split; [apply (moved_set_wpc s1 i w1 (WRestart r') Hw1)|].
    unfold set_wpc; rewrite Hw1; simpl; rewrite Hm; auto.
  Qed.

  Lemma inv_M_rstep s cw r s1 r' : Inv s -> mpcs s = MStop cw r -> r <> SCheck ->
    rstep' TM s r = Some (s1, r') -> Inv (set_mpc s1 (MStop cw r')).
  Proof.
    intros I Hm Hn Hs.
    assert (Hr : rp s TM = Some r) by (simpl; rewrite Hm; reflexivity).
    apply (inv_move roe ka s TM r s1 r').
    split; [exact I|]. split; [exact Hr|]. split; [exact Hs|]. split; [intros _; exact Hn|].
    split; [apply (moved_set_mpc s1 (MStop cw r'))|].
    simpl. rewrite Hm. split; [reflexivity | discriminate].
  Qed.

  Lemma inv_step s l s' : Inv s -> step' s l = Some s' -> Inv s'.
  Proof.
    intros I H. destruct l as [| |i| | |i|d]; simpl in H.
    - (* Trigger *)
      destruct (tpc s) eqn:T; [discriminate|]. inversion H; subst; clear H.
      apply (inv_local s TT (Some RLock) _ I (moved_set_tpc s (Some RLock))); simpl; auto.
      + intros r X. inversion X; reflexivity.
      + rewrite T. discriminate.
      + apply (K6m s I).
    - (* TStep *)
      destruct (tpc s) as [r|] eqn:T; [|discriminate].
      destruct r; try (destruct (rstep' TT s _) as [[s1 r']|] eqn:Hs; [|discriminate]; inversion H; subst; clear H;
                       eapply inv_T_rstep; eauto).
      inversion H; subst; clear H.
      apply (inv_local s TT None _ I (moved_set_tpc s None)); simpl; auto.
      + discriminate.
      + rewrite T. intros r X. inversion X; subst. split; auto.
      + apply (K6m s I).
    - (* WStep *)
      destruct (nth_error (watchers s) i) as [w|] eqn:Hw; [|discriminate].
      assert (LOC : forall p, (forall r, w_pc w = WRestart r -> pregion r = false /\ inside r = false) ->
                    (forall r, p = WRestart r -> inside r = false) -> Inv (set_wpc s i p)).
      { intros p Hold Hnew.
        apply (inv_local s (TW i) _ _ I (moved_set_wpc s i w p Hw)); simpl; auto.
        - intros r X. destruct p; try discriminate. inversion X; subst. apply Hnew. reflexivity.
        - rewrite Hw. unfold wr. intros r X. destruct (w_pc w) eqn:P; try discriminate. inversion X; subst.
          destruct (Hold r eq_refl). auto.
        - unfold set_wpc. rewrite Hw. reflexivity.
        - unfold set_wpc. rewrite Hw. simpl. apply (K6m s I). }
      destruct (w_pc w) as [| | |r|] eqn:P; try discriminate.
      + destruct (child_alive s (w_child w)); inversion H; subst; apply LOC; intros; discriminate.
      + destruct (w_stopped w); inversion H; subst; apply LOC; intros; discriminate.
      + destruct (w_stopped w); inversion H; subst; apply LOC; intros r X; try discriminate.
        inversion X; subst; reflexivity.
      + destruct r; try (destruct (rstep' (TW i) s _) as [[s1 r']|] eqn:Hs; [|discriminate]; inversion H; subst; clear H;
                         eapply inv_W_rstep; eauto).
        inversion H; subst. apply LOC; intros r X; try discriminate. inversion X; subst. auto.
    - (* StopCall *)
      destruct (mpcs s) eqn:Mp; try discriminate. inversion H; subst; clear H.
      apply (inv_local s TM None _ I (moved_set_mpc s MFlag)); simpl; auto; try discriminate.
      + rewrite Mp. discriminate.
      + rewrite Mp. reflexivity.
    - (* MStep *)
      destruct (mpcs s) as [| | |cw r|cw|] eqn:Mp; try discriminate.
      + (* MFlag *)
        destruct (lock_free_for s TM) eqn:Lf; [|discriminate].
        pose proof (K3 s I) as T3. rewrite Mp in T3. simpl in T3. rewrite T3 in H. inversion H; subst; clear H.
        apply inv_mflag; auto.
      + (* MCapture *)
        inversion H; subst; clear H.
        apply (inv_local s TM (Some PEnter) _ I (moved_set_mpc s (MStop (process_watcher s) PEnter))); simpl; auto.
        * intros r X. inversion X; reflexivity.
        * rewrite Mp. discriminate.
        * rewrite Mp. reflexivity.
        * discriminate.
      + (* MStop *)
        destruct r; try (destruct (rstep' TM s _) as [[s1 r']|] eqn:Hs; [|discriminate]; inversion H; subst; clear H;
                         eapply inv_M_rstep; eauto; discriminate).
        inversion H; subst; clear H.
        assert (Hr : rp s TM = Some SCheck) by (simpl; rewrite Mp; reflexivity).
        apply (inv_local s TM None _ I (moved_set_mpc s (MJoin cw))); simpl; auto; try discriminate.
        * rewrite Mp. intros r X. inversion X; subst. split; [reflexivity | discriminate].
        * rewrite Mp. reflexivity.
        * intros _. split; [apply (K6 s I TM SCheck Hr eq_refl) | apply (K7a s I TM SCheck Hr eq_refl)].
      + (* MJoin *)
        assert (G : Inv (set_mpc s MReturned)).
        { apply (inv_local s TM None _ I (moved_set_mpc s MReturned)); simpl; auto; try discriminate.
          - rewrite Mp. discriminate.
          - rewrite Mp. reflexivity.
          - intros _. apply (K6m s I). rewrite Mp. reflexivity. }
        destruct cw as [j|]; [|inversion H; subst; exact G].
        destruct (nth_error (watchers s) j) as [w|]; [|inversion H; subst; exact G].
        destruct (w_pc w); try discriminate. inversion H; subst; exact G.
    - (* Exit *)
      destruct (child_alive s i) eqn:A; [|discriminate]. inversion H; subst. apply inv_exit; auto.
    - (* Tick *)
      inversion H; subst. apply inv_tick; auto.
  Qed.

  Lemma inv_init : Inv (init_state roe).
  Proof.
    unfold init_state. destruct roe; constructor; simpl; try discriminate; auto.
    all: try (intros t r H; destruct t as [|[|[|i]]|]; simpl in H; discriminate).
    all: try (intros t p kt H; destruct t as [|[|[|i]]|]; simpl in H; discriminate).
    all: try (intros t H; destruct t as [|[|[|i]]|]; simpl in H; discriminate).
    all: try (right; split; [reflexivity|]; exists 0%nat; split; reflexivity).
    all: try (intros [|[|i]] w H; simpl in H; try discriminate; inversion H; subst; simpl; auto; discriminate).
    all: try (intros [|i] w H; simpl in H; discriminate).
    all: try (unfold pending; simpl; repeat split; lia).
  Qed.

  Lemma inv_reachable s : reachable M s -> Inv s.
  Proof. apply (invariant_reachable M Inv inv_init inv_step). Qed.

  (* ---------------------------------------------------------------- consequences *)
  Lemma one_child tr s : run M (init_state roe) tr = Some s ->
    (alive_children s <= 1)%nat /\ (max_alive s <= 1)%nat.
  Proof.
    intros H. assert (I : Inv s) by (apply inv_reachable; exists tr; exact H).
    split; [destruct (K8 s I) as [Z | (Z & _)]; lia | apply (K11 s I)].
  Qed.

  Lemma pending_le1 s : (pending s <= 1)%nat.
  Proof. unfold pending. destruct (lock s); [destruct (rp s t); [destruct (prespawn r)|]|]; lia. Qed.

  Lemma spawn_count tr s : run M (init_state roe) tr = Some s ->
    (spawns s + pending s = S (admitted s))%nat /\ (pending s <= 1)%nat /\ length (children s) = spawns s.
  Proof.
    intros H. assert (I : Inv s) by (apply inv_reachable; exists tr; exact H).
    destruct (K11 s I) as (A & B & _). repeat split; auto. apply pending_le1.
  Qed.

  Lemma rstep_spawns t0 s r s1 r' : rstep' t0 s r = Some (s1, r') -> r <> SSpawn -> spawns s1 = spawns s.
  Proof.
    intros H N. destruct r; simpl in H; try congruence;
      repeat match type of H with
             | context [if ?b then _ else _] => destruct b
             | context [match ?x with _ => _ end] => destruct x
             end; try discriminate H; inversion H; subst; reflexivity.
  Qed.

  Lemma spawn_frozen s l s' : Inv s -> trick_stopping s = true -> step' s l = Some s' -> spawns s' = spawns s.
  Proof.
    intros I T H. destruct l as [| |i| | |i|d]; simpl in H.
    - destruct (tpc s); [discriminate|]. inversion H; reflexivity.
    - destruct (tpc s) as [r|] eqn:Hr; [|discriminate].
      assert (N : r <> SSpawn).
      { intro; subst. pose proof (K4 s I TT SSpawn Hr eq_refl eq_refl). congruence. }
      destruct r; try (destruct (rstep' TT s _) as [[s1 r']|] eqn:Hs; [|discriminate]; inversion H; subst; clear H;
                       simpl; eapply rstep_spawns; eauto).
      inversion H; reflexivity.
    - destruct (nth_error (watchers s) i) as [w|] eqn:Hw; [|discriminate].
      assert (SW : forall p, spawns (set_wpc s i p) = spawns s) by (intros; unfold set_wpc; rewrite Hw; reflexivity).
      destruct (w_pc w) as [| | |r|] eqn:P; try discriminate.
      + destruct (child_alive s (w_child w)); inversion H; apply SW.
      + destruct (w_stopped w); inversion H; apply SW.
      + destruct (w_stopped w); inversion H; apply SW.
      + assert (Hr : rp s (TW i) = Some r) by (simpl; rewrite Hw; unfold wr; rewrite P; reflexivity).
        assert (N : r <> SSpawn).
        { intro; subst. pose proof (K4 s I (TW i) SSpawn Hr eq_refl eq_refl). congruence. }
        destruct r; try (destruct (rstep' (TW i) s _) as [[s1 r']|] eqn:Hs; [|discriminate]; inversion H; subst; clear H;
                         unfold set_wpc; destruct (nth_error (watchers s1) i); simpl; eapply rstep_spawns; eauto).
        inversion H; apply SW.
    - destruct (mpcs s); try discriminate. inversion H; reflexivity.
    - destruct (mpcs s) as [| | |cw r|cw|] eqn:Mp; try discriminate.
      + destruct (lock_free_for s TM); [|discriminate]. destruct (trick_stopping s); inversion H; reflexivity.
      + inversion H; reflexivity.
      + assert (Hr : rp s TM = Some r) by (simpl; rewrite Mp; reflexivity).
        assert (N : r <> SSpawn) by (intro; subst; pose proof (K9 s I _ Hr); discriminate).
        destruct r; try (destruct (rstep' TM s _) as [[s1 r']|] eqn:Hs; [|discriminate]; inversion H; subst; clear H;
                         simpl; eapply rstep_spawns; eauto).
        inversion H; reflexivity.
      + destruct cw as [j|]; [|inversion H; reflexivity].
        destruct (nth_error (watchers s) j) as [w|]; [|inversion H; reflexivity].
        destruct (w_pc w); try discriminate. inversion H; reflexivity.
    - destruct (child_alive s i); [|discriminate]. inversion H; reflexivity.
    - inversion H; reflexivity.
  Qed.

  Lemma rstep_mpcs t0 s r s1 r' : rstep' t0 s r = Some (s1, r') -> mpcs s1 = mpcs s.
  Proof. intros H. apply (rstep_frame roe ka t0 s r s1 r' H). Qed.

  Lemma returned_stays s l s' : mpcs s = MReturned -> step' s l = Some s' -> mpcs s' = MReturned.
  Proof.
    intros R H. destruct l as [| |i| | |i|d]; simpl in H.
    - destruct (tpc s); [discriminate|]. inversion H; exact R.
    - destruct (tpc s) as [r|]; [|discriminate].
      destruct r; try (destruct (rstep' TT s _) as [[s1 r']|] eqn:Hs; [|discriminate]; inversion H; subst; clear H;
                       simpl; rewrite (rstep_mpcs _ _ _ _ _ Hs); exact R).
      inversion H; exact R.
    - destruct (nth_error (watchers s) i) as [w|] eqn:Hw; [|discriminate].
      assert (SW : forall p, mpcs (set_wpc s i p) = MReturned) by (intros; unfold set_wpc; rewrite Hw; exact R).
      destruct (w_pc w) as [| | |r|]; try discriminate.
      + destruct (child_alive s (w_child w)); inversion H; apply SW.
      + destruct (w_stopped w); inversion H; apply SW.
      + destruct (w_stopped w); inversion H; apply SW.
      + destruct r; try (destruct (rstep' (TW i) s _) as [[s1 r']|] eqn:Hs; [|discriminate]; inversion H; subst; clear H;
                         unfold set_wpc; destruct (nth_error (watchers s1) i); simpl;
                         rewrite (rstep_mpcs _ _ _ _ _ Hs); exact R).
        inversion H; apply SW.
    - rewrite R in H. discriminate.
    - rewrite R in H. discriminate.
    - destruct (child_alive s i); [|discriminate]. inversion H; exact R.
    - inversion H; exact R.
  Qed.

  Lemma after_stop_state s : Inv s -> mpcs s = MReturned ->
    alive_children s = 0%nat /\ forallb (fun w => negb (watcher_live w)) (watchers s) = true /\
    process s = None /\ process_watcher s = None /\ trick_stopping s = true.
  Proof.
    intros I R. assert (A : m_after (mpcs s) = true) by (rewrite R; reflexivity).
    destruct (K6m s I A) as [Pw Pr]. repeat split; auto.
    - destruct (K8 s I) as [Z | (_ & p & Hp & _)]; [exact Z | congruence].
    - apply forallb_forall. intros w Hin. apply In_nth_error in Hin. destruct Hin as [i Hi].
      destruct (w_stopped w) eqn:S.
      + unfold watcher_live. rewrite S. destruct (w_pc w); reflexivity.
      + pose proof (K10 s I i w Hi S). congruence.
    - rewrite (K3 s I), R. reflexivity.
  Qed.

  Lemma after_stop_run tr : forall s s', Inv s -> mpcs s = MReturned -> run M s tr = Some s' ->
    Inv s' /\ mpcs s' = MReturned /\ spawns s' = spawns s.
  Proof.
    induction tr as [|l tr IH]; intros s s' I R H; simpl in H.
    - inversion H; subst. split; [exact I | split; [exact R | reflexivity]].
    - destruct (step' s l) as [s1|] eqn:E; [|discriminate].
      pose proof (inv_step s l s1 I E) as I1. pose proof (returned_stays s l s1 R E) as R1.
      destruct (after_stop_state s I R) as (_ & _ & _ & _ & T).
      pose proof (spawn_frozen s l s1 I T E) as S1.
      destruct (IH s1 s' I1 R1 H) as (A & B & C). split; [exact A | split; [exact B | congruence]].
  Qed.

  Lemma after_stop tr s : run M (init_state roe) tr = Some s -> mpcs s = MReturned ->
    alive_children s = 0%nat /\
    forallb (fun w => negb (watcher_live w)) (watchers s) = true /\
    forall tr' s', run M s tr' = Some s' ->
      spawns s' = spawns s /\ alive_children s' = 0%nat /\ mpcs s' = MReturned /\
      forallb (fun w => negb (watcher_live w)) (watchers s') = true.
  Proof.
    intros H R. assert (I : Inv s) by (apply inv_reachable; exists tr; exact H).
    destruct (after_stop_state s I R) as (A & B & _). repeat split; auto;
      destruct (after_stop_run tr' s s' I R H0) as (I' & R' & S'); auto;
      destruct (after_stop_state s' I' R') as (A' & B' & _); auto.
  Qed.
End Serial.
