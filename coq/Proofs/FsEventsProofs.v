(* FSEvents emitter: the non-recursive filter, and witnesses for the batch findings (C20 part 3). *)
Require Import WD.Base.Prelude WD.Base.BStr WD.Model.SubEvents WD.Proofs.SubEventsProofs.
Require Import WD.Model.PlatFs WD.Proofs.PlatFsProofs WD.Model.FsEvents.

Section Flat.
  Variable stat_ino : bytes -> option N.
  Variable walk : bytes -> tree.
  Variable recursive : bool.
  Variable root : bytes.

  (* every queued event went through FSEventsEmitter.queue_event's filter *)
  Lemma loop_keep : forall fuel view evs out v s,
    loop stat_ino walk recursive root fuel view evs = Some (out, v, s) ->
    Forall (fun e => keep recursive root e = true) out.
  Proof.
    induction fuel as [|f IH]; intros view evs out v s H.
    - destruct evs; simpl in H; [|discriminate]. inversion H; subst. constructor.
    - destruct evs as [|e rest]; simpl in H; [inversion H; subst; constructor|].
      destruct (process stat_ino walk root view e rest) as [[[o1 v1] rest1] s1].
      destruct (loop stat_ino walk recursive root f v1 rest1) as [[[o2 v2] s2]|] eqn:E; [|discriminate].
      inversion H; subst. apply Forall_app. split.
      + apply Forall_forall. intros x Hx. unfold q in Hx. apply filter_In in Hx. tauto.
      + eapply IH. exact E.
  Qed.

  (* the loop always terminates within len(events) iterations *)
  Lemma remove_first_length {A} (f : A -> bool) l : (length (remove_first f l) <= length l)%nat.
  Proof. induction l as [|x l IH]; simpl; [lia|]. destruct (f x); simpl; lia. Qed.

  Lemma process_rest view e rest :
    (length (snd (fst (process stat_ino walk root view e rest))) <= length rest)%nat.
  Proof.
    unfold process.
    repeat match goal with
           | |- context [if ?b then _ else _] => destruct b
           | |- context [match find ?f ?l with _ => _ end] => destruct (find f l)
           end; cbn [fst snd]; try lia; apply remove_first_length.
  Qed.

  Lemma loop_total : forall fuel view evs, (length evs <= fuel)%nat ->
    loop stat_ino walk recursive root fuel view evs <> None.
  Proof.
    induction fuel as [|f IH]; intros view evs Hl.
    - destruct evs; [simpl; discriminate | simpl in Hl; lia].
    - destruct evs as [|e rest]; [simpl; discriminate|]. cbn [loop].
      pose proof (process_rest view e rest) as Hr.
      destruct (process stat_ino walk root view e rest) as [[[o1 v1] rest1] s1]. cbn [fst snd] in Hr.
      specialize (IH v1 rest1). simpl in Hl.
      destruct (loop stat_ino walk recursive root f v1 rest1) as [[[o2 v2] s2]|]; [discriminate|].
      exfalso. apply IH; [lia | reflexivity].
  Qed.
End Flat.

Theorem fsevents_flat stat_ino walk root view evs out v s :
  queue_events stat_ino walk false root view evs = Some (out, v, s) ->
  Forall (fun e => is_recursive_event root e = false) out.
Proof.
  intros H. apply loop_keep in H. eapply Forall_impl; [|exact H].
  intros e He. unfold keep in He. simpl in He. now apply negb_true_iff in He.
Qed.

Theorem fsevents_total stat_ino walk recursive root view evs :
  queue_events stat_ino walk recursive root view evs <> None.
Proof. apply loop_total, Nat.le_refl. Qed.

(* ---------------------------------------------------------------- what the filter means for paths *)
Lemma drop_to_sep_rev_name n r :
  forallb (fun c => negb (N.eqb c sep)) n = true ->
  drop_to_sep_rev (rev n ++ sep :: r) = sep :: r.
Proof.
  intros Hn.
  assert (H : forall l, (forall c, In c l -> N.eqb c sep = false) -> drop_to_sep_rev (l ++ sep :: r) = sep :: r).
  { induction l as [|c l IH]; intros Hl; simpl.
    - reflexivity.
    - rewrite (Hl c) by now left. apply IH. intros x Hx. apply Hl. now right. }
  apply H. intros c Hc. apply in_rev in Hc. rewrite forallb_forall in Hn.
  specialize (Hn c Hc). now apply negb_true_iff in Hn.
Qed.

(* os.path.dirname(a + "/" + n) = a for a non-empty a without trailing separator *)
Lemma dirname_child a n : a <> [] -> last_is_sep a = false -> valid_name n = true ->
  dirname (a ++ sep :: n) = a.
Proof.
  intros Ha Hs Hn. unfold dirname.
  assert (Hn' : forallb (fun c => negb (N.eqb c sep)) n = true).
  { unfold valid_name in Hn. destruct n; [discriminate|]. rewrite forallb_forall in *.
    intros c Hc. specialize (Hn c Hc). now apply andb_true_iff in Hn as [Hn _]. }
  rewrite rev_app_distr. cbn [rev]. rewrite <- app_assoc. cbn [app].
  rewrite drop_to_sep_rev_name by exact Hn'.
  cbn [rev]. rewrite rev_involutive.
  unfold rstrip_sep. rewrite rev_app_distr. cbn [rev app rstrip_sep_rev]. rewrite N.eqb_refl.
  unfold last_is_sep in Hs. destruct (rev a) as [|c r] eqn:E.
  - exfalso. apply Ha. apply (f_equal (@rev N)) in E. now rewrite rev_involutive in E.
  - cbn [rstrip_sep_rev]. rewrite Hs. rewrite <- E, rev_involutive.
    destruct a; [contradiction | reflexivity].
Qed.

Lemma abspath_snoc root p n : abspath root (p ++ [n]) = abspath root p ++ sep :: n.
Proof. unfold abspath. now rewrite relsuffix_app, relsuffix_one, app_assoc. Qed.

Lemma abspath_eq_root root p : forallb valid_name p = true -> abspath root p = root -> p = [].
Proof.
  unfold abspath. intros Hv H. destruct p as [|n p]; [reflexivity|].
  exfalso. apply (f_equal (@length N)) in H. rewrite app_length in H.
  unfold relsuffix in H. simpl in H. rewrite app_length in H. simpl in H. lia.
Qed.


Lemma dirname_abspath root p n :
  root <> [] -> last_is_sep root = false -> forallb valid_name (p ++ [n]) = true ->
  dirname (abspath root (p ++ [n])) = abspath root p.
Proof.
  intros Hr Hs Hv. rewrite forallb_app in Hv. apply andb_true_iff in Hv as [Hp Hn].
  cbn [forallb] in Hn. rewrite andb_true_r in Hn.
  rewrite abspath_snoc. apply dirname_child.
  - unfold abspath. destruct root; [contradiction | discriminate].
  - now apply last_is_sep_root.
  - exact Hn.
Qed.

(* A non-moved event that survives the non-recursive filter names the root or a direct child. *)
Theorem flat_depth root p :
  root <> [] -> last_is_sep root = false -> forallb valid_name p = true ->
  forall e, (exists k syn, e = Created k (abspath root p) syn) \/ (exists k, e = Deleted k (abspath root p)) \/
            (exists k, e = Modified k (abspath root p)) ->
  is_recursive_event root e = false -> (length p <= 1)%nat.
Proof.
  intros Hr Hs Hv e He Hrec.
  assert (Hat : exists k, beqb (match k with KDir => abspath root p | KFile => dirname (abspath root p) end) root = true).
  { destruct He as [(k & syn & ->)|[(k & ->)|(k & ->)]]; exists k; cbn [is_recursive_event] in Hrec;
      now apply negb_false_iff in Hrec. }
  destruct Hat as [k Hat]. apply beqb_eq in Hat.
  destruct k.
  - (* file flavour: dirname = root *)
    destruct (rev p) as [|n r] eqn:E.
    + apply (f_equal (@rev bytes)) in E. rewrite rev_involutive in E. subst. simpl. lia.
    + assert (Hp : p = rev r ++ [n]) by (apply (f_equal (@rev bytes)) in E; now rewrite rev_involutive in E).
      subst p. rewrite dirname_abspath in Hat by assumption.
      rewrite forallb_app in Hv. apply andb_true_iff in Hv as [Hv _].
      apply abspath_eq_root in Hat; [|exact Hv]. rewrite Hat. simpl. lia.
  - apply abspath_eq_root in Hat; [|exact Hv]. subst. simpl. lia.
Qed.

(* ---------------------------------------------------------------- witnesses *)
Local Open Scope N_scope.
Definition r_ : bytes := [47; 114].          (* "/r" *)
Definition na : bytes := [97].  Definition nb : bytes := [98].  Definition nc : bytes := [99].

(* F12: mv a b; mv b c in one batch (the two events for b coalesced): the stream is
   moved a->b, created c - b is never deleted, so the replayed tree keeps b. *)
Lemma fsevents_batched_refuted :
  let before := [Entry [na] KFile 7] in
  let ops := [ORename [na] [nb]; ORename [nb] [nc]] in
  let after := fold_left apply_op ops before in
  let natives := coalesce_all (map (frender r_) (fsevents_kernel before (ORename [na] [nb]) ++
                                               fsevents_kernel (apply_op before (ORename [na] [nb])) (ORename [nb] [nc]))) in
  let stat p := if beqb p (abspath r_ [nc]) then Some 7 else None in
  exists out v, queue_events stat (fun _ => Node [] []) true r_ [] natives = Some (out, v, false) /\
    out = map (render r_) [AMoved KFile [na] [nb] false; AModified KDir []; AModified KDir [];
                           ACreated KFile [nc] false; AModified KDir []] /\
    replay (view_of before) [AMoved KFile [na] [nb] false; ACreated KFile [nc] false] <> view_of after.
Proof. vm_compute. eexists. eexists. split; [reflexivity|]. split; [reflexivity | discriminate]. Qed.

(* the strict reading of "nothing below the root's direct children" fails for a move into the root:
   the kept moved event names its old place two levels down *)
Lemma fsevents_flat_strict_refuted :
  is_recursive_event r_ (Moved KFile (abspath r_ [na; nb]) (abspath r_ [nc]) false) = false.
Proof. reflexivity. Qed.

(* non-recursive watch: the creation of a direct child *directory* is filtered out (only
   DirModified(root) survives) although a direct child is inside the scope of the watch *)
Lemma fsevents_nonrec_child_dir_dropped :
  queue_events (fun _ => None) (fun _ => Node [] []) false r_ []
               [frender r_ ([na], 5, N.lor F_CREATED F_IS_DIR)] = Some ([Modified KDir r_], [5], false).
Proof. reflexivity. Qed.

(* ---------------------------------------------------------------- the created-and-removed branch and _fs_view *)
Lemma mem_discard_self i v : mem i (discard i v) = false.
Proof.
  unfold mem, discard. apply not_true_is_false. intros H. apply existsb_exists in H as (x & Hx & E).
  apply filter_In in Hx as [_ Hx]. apply N.eqb_eq in E. subst x. rewrite N.eqb_refl in Hx. discriminate.
Qed.

(* An event flagged both created and removed (an item gone again - possibly an item whose creation
   was processed in an EARLIER batch and whose removal repeats the sticky ItemCreated flag) leaves its
   inode out of the _fs_view: the branch's discard is what forgets an inode that entered the view
   earlier, so that a later item with the recycled inode number is reported as created. *)
Theorem created_removed_forgets stat_ino walk root view e rest :
  has e F_CREATED = true -> has e F_REMOVED = true ->
  mem (f_ino e) (snd (fst (fst (process stat_ino walk root view e rest)))) = false.
Proof.
  intros Hc Hr. unfold process. rewrite Hc, Hr. cbn [andb].
  destruct (has e F_ROOT_CHANGED); cbn [fst snd]; [reflexivity | apply mem_discard_self].
Qed.

(* create a | write a, unlink a with the sticky created flag | create c with a's recycled inode 7 *)
Lemma sticky_created_inode_reuse :
  let a := abspath r_ [na] in let c := abspath r_ [nc] in
  let fl l := fold_left N.lor l 0%N in
  let qe := queue_events (fun _ => None) (fun _ => Node [] []) true r_ in
  qe [] [FNative a 7 (fl [F_CREATED; F_IS_FILE])]
    = Some ([Created KFile a false; Modified KDir r_], [7], false) /\
  qe [7] [FNative a 7 (fl [F_CREATED; F_MODIFIED; F_REMOVED; F_IS_FILE])]
    = Some ([Modified KFile a; Deleted KFile a; Modified KDir r_], [], false) /\
  qe [] [FNative c 7 (fl [F_CREATED; F_IS_FILE])]
    = Some ([Created KFile c false; Modified KDir r_], [7], false) /\
  (* had the inode stayed in the view, the creation of c would not be queued *)
  qe [7] [FNative c 7 (fl [F_CREATED; F_IS_FILE])] = Some ([], [7], false).
Proof. vm_compute. repeat split. Qed.
