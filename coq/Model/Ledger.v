(* Ledger - sequential resource ledger of one inotify watch: construction expanded into its kernel
   calls, each of which may fail; thread starts; tear-down through the CloseProto protocol.

   Definitions only (extracted).  Proofs: Proofs/LedgerProofs.v.

   Source: InotifyEmitter.on_thread_start (inotify.py l.116-121) -> InotifyBuffer.__init__
   (inotify_buffer.py l.26-33: Inotify(...), self.start()) -> Inotify.__init__ (inotify_c.py l.145-193):
     call 0      inotify_init()                 -1 -> _raise_error()
     call 1      os.pipe()                      raises OSError itself
                 poller.register(fd) x 2        ValueError when the inotify fd is -1
     call 2+k    inotify_add_watch(dir k)       -1 -> _raise_error();  k = 0 is the watched root
   _raise_error (l.435-446) raises for every errno EXCEPT EACCES: then the caller goes on with
   the value -1 (as inotify fd, resp. as watch descriptor stored in _wd_for_path/_path_for_wd).
   Then BaseThread.start of the buffer thread and of the emitter thread. *)
Require Import WD.Base.Prelude WD.Model.CloseProto.

Inductive errno := ENOENT | ENOSPC | EMFILE | EACCES.
Definition raises (e : errno) : bool := match e with EACCES => false | _ => true end.

Inductive exn := OSError (e : errno) | ValueError.

(* the process-wide counts the property speaks about *)
Record ledger := { nfd : nat; nthr : nat }.

(* what a half-built or built Inotify instance holds *)
Record handle := { h_i : bool; h_r : bool; h_w : bool;      (* descriptor allocated and open *)
                   h_wds : list Z }.                          (* watch descriptors per directory; -1 = EACCES *)
Definition no_handle := {| h_i := false; h_r := false; h_w := false; h_wds := [] |}.

Inductive outcome := Built (h : handle) | Raised (x : exn).

Definition fault := option errno.
Definition fault_at (fs : list fault) (k : nat) : fault := nth k fs None.

Definition b2n (b : bool) : nat := if b then 1 else 0.
Definition held (h : handle) : nat := b2n (h_i h) + b2n (h_r h) + b2n (h_w h).
Definition add_fds (k : nat) (L : ledger) : ledger := {| nfd := nfd L + k; nthr := nthr L |}.
Definition sub_fds (k : nat) (L : ledger) : ledger := {| nfd := nfd L - k; nthr := nthr L |}.
Definition add_thr (k : nat) (L : ledger) : ledger := {| nfd := nfd L; nthr := nthr L + k |}.
Definition sub_thr (k : nat) (L : ledger) : ledger := {| nfd := nfd L; nthr := nthr L - k |}.

(* the exception path of Inotify.__init__: the repaired code (fix F4a) closes what exists; the
   pinned code closes nothing *)
Definition on_failure (fixed : bool) (h : handle) (L : ledger) : ledger :=
  if fixed then sub_fds (held h) L else L.

(* one inotify_add_watch per directory, calls 2.. : Some wds | raised errno *)
Fixpoint add_watches (fs : list fault) (k n : nat) (wds : list Z) : list Z + errno :=
  match n with
  | 0 => inl wds
  | S n' =>
      match fault_at fs (2 + k) with
      | Some e => if raises e then inr e else add_watches fs (S k) n' (wds ++ [(-1)%Z])
      | None => add_watches fs (S k) n' (wds ++ [Z.of_nat (S k)])
      end
  end.

(* Inotify.__init__ *)
Definition inotify_new (fixed : bool) (fs : list fault) (ndirs : nat) (L : ledger) : outcome * ledger :=
  match fault_at fs 0 with
  | Some e =>
      if raises e then (Raised (OSError e), L)
      else (* EACCES: not raised, self._inotify_fd = -1 *)
        match fault_at fs 1 with
        | Some e' => (Raised (OSError e'), on_failure fixed no_handle L)
        | None =>
            let h := {| h_i := false; h_r := true; h_w := true; h_wds := [] |} in
            (* poller.register(-1): ValueError *)
            (Raised ValueError, on_failure fixed h (add_fds 2 L))
        end
  | None =>
      let L1 := add_fds 1 L in
      let h1 := {| h_i := true; h_r := false; h_w := false; h_wds := [] |} in
      match fault_at fs 1 with
      | Some e' => (Raised (OSError e'), on_failure fixed h1 L1)
      | None =>
          let L2 := add_fds 2 L1 in
          let h2 := {| h_i := true; h_r := true; h_w := true; h_wds := [] |} in
          match add_watches fs 0 ndirs [] with
          | inr e => (Raised (OSError e), on_failure fixed h2 L2)
          | inl wds => (Built {| h_i := true; h_r := true; h_w := true; h_wds := wds |}, L2)
          end
      end
  end.

(* emitter.start(): on_thread_start builds the InotifyBuffer (Inotify + buffer thread), then the
   emitter thread itself is started.  A failure propagates out of schedule() / start(). *)
Definition emitter_start (fixed : bool) (fs : list fault) (ndirs : nat) (L : ledger) : outcome * ledger :=
  match inotify_new fixed fs ndirs L with
  | (Built h, L') => (Built h, add_thr 2 L')
  | r => r
  end.

(* emitter.stop(); emitter.join() after the close protocol ended in state s: every os.close the
   protocol performed released one descriptor; join() returned for the buffer thread (it has
   finished) and for the emitter thread. *)
Definition teardown (s : st) (L : ledger) : ledger :=
  sub_thr 2 (sub_fds (ni s + nr s + nw s) L).

Definition proto_variant (fixed : bool) : variant := if fixed then repaired else pinned.

(* cycles of schedule/unschedule (or start/stop): a failed construction, or a watch that is built
   and later stopped with the close protocol following the label list tr *)
Inductive cycle :=
| Watch (fs : list fault) (ndirs : nat) (tr : list label).

Definition completed (x : option state) : option st :=
  match x with
  | Some (Ok s) => if reader_done s && close_returned s then Some s else None
  | _ => None
  end.

(* None: the cycle is not a completed one (stop()/join() has not returned, or the protocol went Bad) *)
Definition run_cycle (fixed : bool) (c : cycle) (L : ledger) : option ledger :=
  match c with
  | Watch fs n tr =>
      match emitter_start fixed fs n L with
      | (Raised _, L') => Some L'
      | (Built h, L') =>
          let v := proto_variant fixed in
          match completed (run (step v) (Ok (init v true)) tr) with
          | Some s => Some (teardown s L')
          | None => None
          end
      end
  end.

Fixpoint run_cycles (fixed : bool) (cs : list cycle) (L : ledger) : option ledger :=
  match cs with
  | [] => Some L
  | c :: cs' => match run_cycle fixed c L with Some L' => run_cycles fixed cs' L' | None => None end
  end.
