(* Every successful operation keeps the flat tree parent-closed (needed to chain the per-operation
   laws of C20 into laws about histories). *)
Require Import WD.Base.Prelude WD.Base.BStr WD.Model.SubEvents.
Require Import WD.Model.PlatFs WD.Proofs.PlatFsProofs WD.Proofs.PlatReplayProofs.

Lemma lookup_app f g p : lookup (f ++ g) p = match lookup f p with Some e => Some e | None => lookup g p end.
Proof.
  unfold lookup. induction f as [|e f IH]; simpl; [reflexivity|].
  destruct (path_eqb (e_path e) p); [reflexivity | exact IH].
Qed.

Lemma isdir_app_l f g p : fs_isdir f p = true -> fs_isdir (f ++ g) p = true.
Proof. unfold fs_isdir. rewrite lookup_app. destruct (lookup f p); [auto | discriminate]. Qed.

Lemma lookup_filter g f p :
  (forall a b, path_eqb a b = true -> g a = g b) ->
  lookup (filter (fun e => g (e_path e)) f) p = if g p then lookup f p else None.
Proof.
  intros Hg. unfold lookup. induction f as [|e f IH]; simpl; [now destruct (g p)|].
  destruct (g (e_path e)) eqn:G; simpl.
  - destruct (path_eqb (e_path e) p) eqn:E.
    + now rewrite <- (Hg _ _ E), G.
    + exact IH.
  - destruct (path_eqb (e_path e) p) eqn:E.
    + rewrite IH. now rewrite <- (Hg _ _ E), G.
    + exact IH.
Qed.

Lemma path_eqb_app_head a x y : path_eqb (a ++ x) (a ++ y) = path_eqb x y.
Proof. induction a as [|c a IH]; simpl; [reflexivity|]. now rewrite beqb_refl. Qed.

Lemma parent_shorter d : d <> [] -> under d (parent d) = false.
Proof.
  intros Hd. apply not_true_is_false. intros U. apply under_length in U.
  pose proof (parent_length d Hd). lia.
Qed.

(* ---------------------------------------------------------------- rename *)
Section Rename.
  Variable f : fs.
  Variables s d : path.
  Hypothesis C : closed_fs f.
  Hypothesis Hs : s <> [].
  Hypothesis Hd : d <> [].
  Hypothesis Hms : fs_mem f s = true.
  Hypothesis Hmd : fs_mem f d = false.
  Hypothesis Hsd : under s d = false.

  Let R (e : entry) : entry :=
    if under s (e_path e) then Entry (reprefix s d (e_path e)) (e_kind e) (e_ino e) else e.

  Lemma isdir_rename_other t : under s t = false -> under d t = false ->
    fs_isdir (map R f) t = fs_isdir f t.
  Proof.
    intros Us Ud. unfold fs_isdir, lookup.
    assert (H : forall l, (forall e, In e l -> In e f) ->
      match find (fun e => path_eqb (e_path e) t) (map R l) with Some e => kind_eqb (e_kind e) KDir | None => false end =
      match find (fun e => path_eqb (e_path e) t) l with Some e => kind_eqb (e_kind e) KDir | None => false end).
    { induction l as [|e l IH]; intros Hl; [reflexivity|]. cbn [map find].
      assert (IH' := IH (fun x Hx => Hl x (or_intror Hx))).
      unfold R at 1 2. destruct (under s (e_path e)) eqn:U; cbn [e_path e_kind].
      - assert (path_eqb (reprefix s d (e_path e)) t = false) as ->.
        { apply not_true_is_false. intros H. apply path_eqb_eq in H. unfold reprefix in H.
          rewrite <- H, under_app in Ud. discriminate. }
        assert (path_eqb (e_path e) t = false) as ->; [|exact IH'].
        apply not_true_is_false. intros H. apply path_eqb_eq in H. rewrite H in U. congruence.
      - destruct (path_eqb (e_path e) t); [reflexivity | exact IH']. }
    apply H. auto.
  Qed.

  Lemma isdir_rename_under t : under s t = true ->
    fs_isdir (map R f) (d ++ skipn (length s) t) = fs_isdir f t.
  Proof.
    intros Ut. unfold fs_isdir, lookup. pose proof (under_split _ _ Ut) as Et.
    assert (H : forall l, (forall e, In e l -> In e f) ->
      match find (fun e => path_eqb (e_path e) (d ++ skipn (length s) t)) (map R l) with Some e => kind_eqb (e_kind e) KDir | None => false end =
      match find (fun e => path_eqb (e_path e) t) l with Some e => kind_eqb (e_kind e) KDir | None => false end).
    { induction l as [|e l IH]; intros Hl; [reflexivity|]. cbn [map find].
      assert (He : In e f) by (apply Hl; now left).
      assert (IH' := IH (fun x Hx => Hl x (or_intror Hx))).
      unfold R at 1 2. destruct (under s (e_path e)) eqn:U; cbn [e_path e_kind].
      - unfold reprefix. rewrite path_eqb_app_head.
        assert (path_eqb (e_path e) t = path_eqb (skipn (length s) (e_path e)) (skipn (length s) t)) as ->.
        { rewrite (under_split _ _ U) at 1. rewrite Et at 1. apply path_eqb_app_head. }
        destruct (path_eqb _ _); [reflexivity | exact IH'].
      - assert (path_eqb (e_path e) (d ++ skipn (length s) t) = false) as ->.
        { apply not_true_is_false. intros H. apply path_eqb_eq in H.
          pose proof (nothing_under_d f d C Hd Hmd e He) as N. rewrite H, under_app in N. discriminate. }
        assert (path_eqb (e_path e) t = false) as ->; [|exact IH'].
        apply not_true_is_false. intros H. apply path_eqb_eq in H. rewrite H in U. congruence. }
    apply H. auto.
  Qed.

  Lemma closed_rename : (match parent d with [] => true | pp => fs_isdir f pp end) = true ->
    closed_fs (apply_op f (ORename s d)).
  Proof.
    intros Hpd. cbn [apply_op]. fold R. intros e' He'. apply in_map_iff in He' as (e & <- & He).
    destruct (C e He) as [Hne Hpar]. unfold R. destruct (under s (e_path e)) eqn:U; cbn [e_path].
    - unfold reprefix. split; [destruct d; [contradiction | discriminate]|].
      destruct (skipn (length s) (e_path e)) as [|x r] eqn:Ex.
      + rewrite app_nil_r. destruct (parent d) as [|c pp] eqn:Ep; [now left | right].
        rewrite isdir_rename_other; [exact Hpd | |].
        * apply not_true_is_false. intros H. rewrite <- Ep in H. apply under_parent in H. congruence.
        * rewrite <- Ep. now apply parent_shorter.
      + right. rewrite parent_app by discriminate.
        assert (Ep : parent (e_path e) = s ++ parent (x :: r)).
        { rewrite (under_split _ _ U) at 1. rewrite Ex. apply parent_app. discriminate. }
        destruct Hpar as [Hpar|Hpar]; [rewrite Ep in Hpar; destruct s; [contradiction | discriminate]|].
        rewrite Ep in Hpar. rewrite <- Hpar.
        rewrite <- (isdir_rename_under (s ++ parent (x :: r))) by apply under_app.
        now rewrite skipn_app_len.
    - split; [exact Hne|]. destruct Hpar as [Hpar|Hpar]; [now left | right].
      rewrite isdir_rename_other; [exact Hpar | |].
      + apply not_true_is_false. intros H. apply under_parent in H. congruence.
      + apply isdir_mem, mem_in in Hpar as (e2 & He2 & <-). now apply (nothing_under_d f d).
  Qed.
End Rename.

(* ---------------------------------------------------------------- the other operations *)
Lemma closed_add f p k i : closed_fs f -> fresh_at f p i = true -> closed_fs (f ++ [Entry p k i]).
Proof.
  intros C Hf e He. apply in_app_or in He as [He|[<-|[]]].
  - destruct (C e He) as [Hne Hpar]. split; [exact Hne|]. destruct Hpar as [H|H]; [now left | right; now apply isdir_app_l].
  - cbn [e_path]. unfold fresh_at in Hf. rewrite !andb_true_iff in Hf. destruct Hf as [[[Hp _] Hpar] _].
    split; [destruct p; [discriminate | discriminate]|].
    destruct (parent p) as [|c pp]; [now left | right; now apply isdir_app_l].
Qed.

Lemma closed_remove f p : closed_fs f -> closed_fs (filter (fun e => negb (under p (e_path e))) f).
Proof.
  intros C e He. apply filter_In in He as [He Hk]. apply negb_true_iff in Hk.
  destruct (C e He) as [Hne Hpar]. split; [exact Hne|]. destruct Hpar as [H|H]; [now left | right].
  unfold fs_isdir. rewrite (lookup_filter (fun q => negb (under p q))).
  - assert (under p (parent (e_path e)) = false) as ->; [|exact H].
    apply not_true_is_false. intros U. apply under_parent in U. congruence.
  - intros a b E. apply path_eqb_eq in E. now subst.
Qed.

Lemma isdir_prefixed d content q :
  fs_isdir (map (fun e => Entry (d ++ e_path e) (e_kind e) (e_ino e)) content) (d ++ q) = fs_isdir content q.
Proof.
  unfold fs_isdir, lookup. induction content as [|e c IH]; [reflexivity|]. cbn [map find e_path].
  rewrite path_eqb_app_head. destruct (path_eqb (e_path e) q); [reflexivity | exact IH].
Qed.

Lemma closed_movein f d k i content :
  closed_fs f -> op_names_ok (OMoveIn d k i content) = true -> op_ok f (OMoveIn d k i content) = true ->
  closed_fs (apply_op f (OMoveIn d k i content)).
Proof.
  intros C Hn Ho. cbn [op_ok] in Ho.
  apply andb_true_iff in Ho as [Ho Hclosed]. apply andb_true_iff in Ho as [Ho Hcont].
  apply andb_true_iff in Ho as [Ho Hkind].
  cbn [op_names_ok] in Hn. apply andb_true_iff in Hn as [Hd _]. apply path_ok_split in Hd as [Hd _].
  pose proof (fresh_not_mem _ _ _ Ho) as Hm.
  cbn [apply_op].
  change (f ++ Entry d k i :: map (fun e => Entry (d ++ e_path e) (e_kind e) (e_ino e)) content)
    with (f ++ [Entry d k i] ++ map (fun e => Entry (d ++ e_path e) (e_kind e) (e_ino e)) content).
  rewrite app_assoc. intros e He. apply in_app_or in He as [He|He].
  - destruct (closed_add f d k i C Ho e He) as [Hne Hpar]. split; [exact Hne|].
    destruct Hpar as [H|H]; [now left | right; now apply isdir_app_l].
  - apply in_map_iff in He as (c & <- & Hc). cbn [e_path].
    rewrite forallb_forall in Hcont, Hclosed. specialize (Hcont c Hc). specialize (Hclosed c Hc).
    assert (Hq : e_path c <> []) by (destruct (e_path c); [discriminate | discriminate]).
    split; [destruct d; [contradiction | discriminate]|]. right.
    rewrite parent_app by exact Hq.
    assert (Hk : k = KDir) by (destruct k; [destruct content; [destruct Hc | discriminate] | reflexivity]).
    destruct (parent (e_path c)) as [|x pp] eqn:Ep.
    + rewrite app_nil_r. apply isdir_app_l. rewrite isdir_new_entry by exact Hm. now rewrite Hk.
    + unfold fs_isdir. rewrite lookup_app.
      assert (lookup (f ++ [Entry d k i]) (d ++ x :: pp) = None) as ->.
      { rewrite lookup_app.
        assert (lookup f (d ++ x :: pp) = None) as ->.
        { destruct (lookup f (d ++ x :: pp)) as [e2|] eqn:E2; [|reflexivity]. exfalso.
          apply lookup_in in E2 as [He2 Ee2]. pose proof (no_orphans f d C Hd Hm e2 He2) as N.
          rewrite Ee2, under_app in N. discriminate. }
        unfold lookup. cbn [find e_path].
        assert (path_eqb d (d ++ x :: pp) = false) as ->; [|reflexivity].
        rewrite path_eqb_sym. now rewrite path_eqb_app_nil. }
      exact (eq_trans (isdir_prefixed d content (x :: pp)) Hclosed).
Qed.

Theorem closed_apply f o : closed_fs f -> op_names_ok o = true -> op_ok f o = true -> closed_fs (apply_op f o).
Proof.
  intros C Hn Ho. destruct o as [p i|p i|p|p|p|p|s d|s|d k i content].
  - now apply closed_add.
  - now apply closed_add.
  - exact C.
  - exact C.
  - now apply closed_remove.
  - now apply closed_remove.
  - cbn [op_names_ok] in Hn. apply andb_true_iff in Hn as [Hs Hd].
    apply path_ok_split in Hs as [Hs _]. apply path_ok_split in Hd as [Hd _].
    cbn [op_ok] in Ho. repeat (apply andb_true_iff in Ho as [Ho ?]).
    apply closed_rename; try assumption; now apply negb_true_iff.
  - now apply closed_remove.
  - now apply closed_movein.
Qed.
