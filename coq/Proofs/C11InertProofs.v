(* C11, repaired reader (F10): WHEN a remembered move-out candidate is settled does not matter.
   [settle_now] = what the head of the next loop iteration will do to a remembered candidate (unless that iteration is
   the matching IN_MOVED_TO).  Records that cannot produce anything - unknown-for-ever descriptors, or plain records that
   the watch is not even sent - may be removed from a batch: the run ends in a state with the same settled form. *)
Require Import WD.Base.Prelude WD.Base.BStr WD.Model.SubEvents WD.Model.Emitter WD.Model.Fs WD.Model.Reader.
Require Import WD.Proofs.ReaderFixProofs WD.Proofs.ContractProofs
               WD.Proofs.C11KernelProofs WD.Proofs.C11ReaderProofs WD.Proofs.C11TwinProofs.

Lemma with_mask_same C : with_mask C (c_mask C) = C.
Proof. destruct C; reflexivity. Qed.

Lemma forget_tree_fst keys p : forall r k1 k2, fst (forget_tree keys p r k1) = fst (forget_tree keys p r k2).
Proof.
  induction keys as [|[q x] keys IH]; intros r k1 k2; cbn [forget_tree]; [reflexivity|].
  destruct (beqb q p || starts (p ++ [sep]) q); [|apply IH].
  destruct (alookup beqb q (wfp r)) as [wd|]; [|apply IH].
  destruct (alookup N.eqb wd (pfw r)) as [q'|]; [|apply IH].
  destruct (beqb q' q); apply IH.
Qed.

Section Now.
  Variable C : cfg.

  Definition settle_now (r : rstate) (k : kst) : rstate * kst :=
    if c_fix_moveout C then
      match pend r with
      | Some (c, p) =>
        forget_tree (wfp r) p {| wfp := wfp r; pfw := pfw r; mvf := mvf r; calls := calls r; pend := None |} k
      | None => (r, k)
      end
    else (r, k).

  (* the record is the second half of the very rename whose first half is remembered, on a known descriptor *)
  Definition matching (r : rstate) (e : kraw) : bool :=
    c_fix_moveout C &&
    match pend r with
    | Some (c, _) => is_moved_to (k_mask e) && N.eqb (k_cookie e) c && amem N.eqb (k_wd e) (pfw r)
    | None => false
    end.

  Lemma settle_pending_now r k e : matching r e = false -> settle_pending C r k e = settle_now r k.
  Proof.
    unfold matching, settle_pending, settle_now. destruct (c_fix_moveout C); [|reflexivity].
    destruct (pend r) as [[c p]|]; [|reflexivity]. cbn [andb]. intros ->. reflexivity.
  Qed.

  Lemma settle_now_idle r k : pending_of C r = false -> settle_now r k = (r, k).
  Proof.
    unfold pending_of, settle_now. destruct (c_fix_moveout C); [|reflexivity].
    destruct (pend r); [discriminate | reflexivity].
  Qed.

  Lemma settle_now_not_pending r k : pending_of C (fst (settle_now r k)) = false.
  Proof.
    unfold settle_now, pending_of. destruct (c_fix_moveout C) eqn:Hf; [|reflexivity].
    destruct (pend r) as [[c p]|] eqn:Ep; [|cbn [fst]; now rewrite Ep].
    rewrite forget_tree_pend. reflexivity.
  Qed.

  Lemma settle_now_fst r k1 k2 : fst (settle_now r k1) = fst (settle_now r k2).
  Proof.
    unfold settle_now. destruct (c_fix_moveout C); [|reflexivity].
    destruct (pend r) as [[c p]|]; [apply forget_tree_fst | reflexivity].
  Qed.

  Lemma settle_now_idem r k : settle_now (fst (settle_now r k)) (snd (settle_now r k)) = settle_now r k.
  Proof.
    rewrite (settle_now_idle _ _ (settle_now_not_pending r k)). now destruct (settle_now r k).
  Qed.

  Lemma matching_idle r e : pending_of C r = false -> matching r e = false.
  Proof.
    unfold pending_of, matching. destruct (c_fix_moveout C); [|reflexivity]. destruct (pend r); [discriminate | reflexivity].
  Qed.

  Lemma matching_not_to r e : is_moved_to (k_mask e) = false -> matching r e = false.
  Proof. unfold matching. intros ->. destruct (c_fix_moveout C); [|reflexivity]. destruct (pend r) as [[c p]|]; reflexivity. Qed.

  Lemma matching_unknown r e : ~ In (k_wd e) (map fst (pfw r)) -> matching r e = false.
  Proof.
    unfold matching. intros H. destruct (c_fix_moveout C); [|reflexivity]. destruct (pend r) as [[c p]|]; [|reflexivity].
    assert (A : amem N.eqb (k_wd e) (pfw r) = false).
    { unfold amem. destruct (alookup N.eqb (k_wd e) (pfw r)) eqn:E; [|reflexivity].
      exfalso. apply H. clear H. induction (pfw r) as [|[a b0] l IH]; simpl in *; [discriminate|].
      destruct (N.eqb (k_wd e) a) eqn:Ea; [left; symmetry; now apply N.eqb_eq | right; apply IH; exact E]. }
    rewrite A. now rewrite !andb_false_r.
  Qed.

  Lemma matching_cookie r e c p : pend r = Some (c, p) -> k_cookie e <> c -> matching r e = false.
  Proof.
    unfold matching. intros -> H. destruct (c_fix_moveout C); [|reflexivity].
    apply N.eqb_neq in H. rewrite H. now rewrite andb_false_r.
  Qed.
End Now.

(* ------------------------------------------------------------------ descriptors that are gone for good *)
Section AL2.
  Context {K V : Type} (keq : K -> K -> bool).

  Lemma aset_fst k (v : V) m x : In x (map fst (aset keq k v m)) -> x = k \/ In x (map fst m).
  Proof.
    induction m as [|[k' v'] m IH]; simpl; [intros [<-|[]]; now left|].
    destruct (keq k k'); simpl; [tauto|]. intros [<-|H]; [tauto|]. destruct (IH H); tauto.
  Qed.

  Lemma aset_snd k (v : V) m x : In x (map snd (aset keq k v m)) -> x = v \/ In x (map snd m).
  Proof.
    induction m as [|[k' v'] m IH]; simpl; [intros [<-|[]]; now left|].
    destruct (keq k k'); simpl; [intros [<-|H]; tauto|]. intros [<-|H]; [tauto|]. destruct (IH H); tauto.
  Qed.

  Lemma aremove_fst k (m : list (K * V)) x : In x (map fst (aremove keq k m)) -> In x (map fst m).
  Proof.
    induction m as [|[k' v'] m IH]; simpl; [tauto|]. destruct (keq k k'); simpl; [tauto|]. intros [<-|H]; tauto.
  Qed.

  Lemma aremove_snd k (m : list (K * V)) x : In x (map snd (aremove keq k m)) -> In x (map snd m).
  Proof.
    induction m as [|[k' v'] m IH]; simpl; [tauto|]. destruct (keq k k'); simpl; [tauto|]. intros [<-|H]; tauto.
  Qed.

  Lemma alookup_snd k (m : list (K * V)) v : alookup keq k m = Some v -> In v (map snd m).
  Proof.
    induction m as [|[k' v'] m IH]; simpl; [discriminate|]. destruct (keq k k'); [intros H; inversion H; now left | tauto].
  Qed.
End AL2.

(* repair F10e: the stale key deleted by _add_watch only shrinks _wd_for_path *)
Lemma unlabel_snd C r wd p v : In v (map snd (unlabel C r wd p)) -> In v (map snd (wfp r)).
Proof. intros H. apply in_map_iff in H as [x [<- Hx]]. apply in_map. eapply unlabel_in. exact Hx. Qed.

Lemma unlabel_fst C r wd p v : In v (map fst (unlabel C r wd p)) -> In v (map fst (wfp r)).
Proof. intros H. apply in_map_iff in H as [x [<- Hx]]. apply in_map. eapply unlabel_in. exact Hx. Qed.

(* [gone wd r k]: the descriptor is below the kernel's counter, belongs to no kernel watch and occurs nowhere in the
   reader's tables - it can never come back (descriptors are not reused) *)
Definition gone (wd : N) (r : rstate) (k : kst) : Prop :=
  (wd < k_next_wd k)%N /\ (forall w, In w (k_watches k) -> kw_wd w <> wd) /\
  ~ In wd (map fst (pfw r)) /\ ~ In wd (map snd (wfp r)).

Lemma kadd_watch_gone wd k t p m k' wd' :
  kadd_watch k t p m = Some (k', wd') -> (wd < k_next_wd k)%N -> (forall w, In w (k_watches k) -> kw_wd w <> wd) ->
  wd' <> wd /\ (wd < k_next_wd k')%N /\ (forall w, In w (k_watches k') -> kw_wd w <> wd).
Proof.
  unfold kadd_watch. destruct (flookup p t) as [e|]; [|discriminate].
  destruct (watch_of_ino k (f_ino e)) as [w0|] eqn:Ew; intros H Hlt Hw; inversion H; subst; cbn [k_next_wd k_watches].
  - unfold watch_of_ino in Ew. apply find_some in Ew as [Ew _]. split; [apply Hw; exact Ew|]. split; [exact Hlt|].
    intros w Hin. apply in_map_iff in Hin as [x [<- Hx]]. destruct (N.eqb (kw_wd x) (kw_wd w0)); cbn [kw_wd]; apply Hw; exact Hx.
  - split; [lia|]. split; [lia|]. intros w Hin. apply in_app_or in Hin as [Hin|[<-|[]]]; [apply Hw; exact Hin | cbn [kw_wd]; lia].
Qed.

Lemma krm_watch_gone wd k wd0 :
  (wd < k_next_wd k)%N -> (forall w, In w (k_watches k) -> kw_wd w <> wd) ->
  (wd < k_next_wd (krm_watch k wd0))%N /\ (forall w, In w (k_watches (krm_watch k wd0)) -> kw_wd w <> wd).
Proof.
  intros Hlt Hw. unfold krm_watch. destruct (find _ _); [|split; assumption]. cbn [k_next_wd k_watches].
  split; [exact Hlt|]. intros w Hin. apply filter_In in Hin as [Hin _]. apply Hw; exact Hin.
Qed.

Section Gone.
  Variable C : cfg.
  Variable wd : N.

  Lemma add_watch_gone r k t p r' k' wd' :
    add_watch C r k t p = Some (r', k', wd') -> gone wd r k -> gone wd r' k'.
  Proof.
    unfold add_watch. destruct (mem_nat _ _); [discriminate|].
    destruct (kadd_watch k t p (c_mask C)) as [[k1 w1]|] eqn:E; [|discriminate].
    intros H [G1 [G2 [G3 G4]]]. inversion H; subst.
    destruct (kadd_watch_gone wd _ _ _ _ _ _ E G1 G2) as [A [B D]].
    split; [exact B|]. split; [exact D|]. cbn [pfw wfp]. split.
    - intros Hin. apply aset_fst in Hin as [->|Hin]; [now apply A | now apply G3].
    - intros Hin. apply aset_snd in Hin as [->|Hin]; [now apply A | apply unlabel_snd in Hin; now apply G4].
  Qed.

  Lemma bump_gone r k : gone wd r k -> gone wd (bump r) k.
  Proof. intros H; exact H. Qed.

  Lemma sim_dirs_gone t root ds : forall r k acc, gone wd r k ->
    gone wd (fst (fst (sim_dirs C r k t root ds acc))) (snd (fst (sim_dirs C r k t root ds acc))).
  Proof.
    induction ds as [|d ds IH]; intros r k acc G; cbn [sim_dirs]; [exact G|].
    destruct (add_watch C r k t (join root d)) as [[[r1 k1] w1]|] eqn:Ea; apply IH; [|exact G].
    eapply add_watch_gone; eassumption.
  Qed.

  Lemma simulate_gone t w : forall r k acc r' k' out,
    simulate C r k t w acc = Done (r', k', out) -> gone wd r k -> gone wd r' k'.
  Proof.
    induction w as [|[[root ds] fls] w IH]; intros r k acc r' k' out H G; cbn [simulate] in H.
    - inversion H; subst. exact G.
    - pose proof (sim_dirs_gone t root ds r k acc G) as G1.
      destruct (sim_dirs C r k t root ds acc) as [[r1 k1] a1]. cbn [fst snd] in G1.
      destruct (sim_files C r1 root fls a1); [|discriminate]. eapply IH; eassumption.
  Qed.

  Lemma add_dirs_gone t ps : forall r k, gone wd r k -> gone wd (fst (add_dirs C r k t ps)) (snd (add_dirs C r k t ps)).
  Proof.
    induction ps as [|p ps IH]; intros r k G; cbn [add_dirs]; [exact G|].
    destruct (add_watch C r k t p) as [[[r1 k1] w1]|] eqn:Ea; [|exact G].
    apply IH. eapply add_watch_gone; eassumption.
  Qed.

  Lemma rekey_loop_gone keys src dst k : forall r, gone wd r k -> gone wd (rekey_loop keys src dst r) k.
  Proof.
    induction keys as [|[p x] keys IH]; intros r G; cbn [rekey_loop]; [exact G|].
    destruct (starts (src ++ [sep]) p); [|apply IH; exact G].
    destruct (alookup beqb p (wfp r)) as [w1|] eqn:E; [|apply IH; exact G].
    apply IH. destruct G as [G1 [G2 [G3 G4]]]. pose proof (alookup_snd _ _ _ _ E) as Hv.
    split; [exact G1|]. split; [exact G2|]. cbn [pfw wfp]. split.
    - intros Hin. apply aset_fst in Hin as [->|Hin]; [now apply G4 | now apply G3].
    - intros Hin. apply aset_snd in Hin as [->|Hin]; [now apply G4|]. apply aremove_snd in Hin. now apply G4.
  Qed.

  Lemma forget_tree_gone keys p : forall r k, gone wd r k ->
    gone wd (fst (forget_tree keys p r k)) (snd (forget_tree keys p r k)).
  Proof.
    induction keys as [|[q x] keys IH]; intros r k G; cbn [forget_tree]; [exact G|].
    destruct (beqb q p || starts (p ++ [sep]) q); [|apply IH; exact G].
    destruct (alookup beqb q (wfp r)) as [w1|]; [|apply IH; exact G].
    destruct G as [G1 [G2 [G3 G4]]].
    assert (Ga : gone wd {| wfp := aremove beqb q (wfp r); pfw := pfw r; mvf := mvf r; calls := calls r; pend := pend r |} k).
    { split; [exact G1|]. split; [exact G2|]. cbn [pfw wfp]. split; [exact G3|].
      intros Hin. apply aremove_snd in Hin. now apply G4. }
    destruct (alookup N.eqb w1 (pfw r)) as [q'|]; [|apply IH; exact Ga].
    destruct (beqb q' q); [|apply IH; exact Ga].
    apply IH. destruct (krm_watch_gone wd k w1 G1 G2) as [A B].
    split; [exact A|]. split; [exact B|]. cbn [pfw wfp]. split.
    - intros Hin. apply aremove_fst in Hin. now apply G3.
    - intros Hin. apply aremove_snd in Hin. now apply G4.
  Qed.

  Lemma settle_now_gone r k : gone wd r k -> gone wd (fst (settle_now C r k)) (snd (settle_now C r k)).
  Proof.
    intros G. unfold settle_now. destruct (c_fix_moveout C); [|exact G].
    destruct (pend r) as [[c p]|]; [|exact G]. apply forget_tree_gone. exact G.
  Qed.

  Lemma settle_pending_gone r k e : gone wd r k -> gone wd (fst (settle_pending C r k e)) (snd (settle_pending C r k e)).
  Proof.
    intros G. unfold settle_pending. destruct (c_fix_moveout C); [|exact G].
    destruct (pend r) as [[c p]|]; [|exact G].
    destruct (is_moved_to (k_mask e) && N.eqb (k_cookie e) c && amem N.eqb (k_wd e) (pfw r)); [exact G|].
    apply forget_tree_gone. exact G.
  Qed.

  Lemma ro_move_gone t r k e wdp : gone wd r k ->
    gone wd (fst (fst (ro_move C t r k e wdp))) (snd (fst (ro_move C t r k e wdp))).
  Proof.
    intros G. unfold ro_move. destruct (is_moved_from (k_mask e)); [exact G|].
    destruct (is_moved_to (k_mask e)); [|exact G].
    assert (A : forall (b : bool) ps (ev : raw),
      let X := if b then let '(r', k') := add_dirs C r k t ps in (r', k', ev) else (r, k, ev) in
      gone wd (fst (fst X)) (snd (fst X))).
    { intros b ps ev. destruct b; cbn zeta; [|exact G]. pose proof (add_dirs_gone t ps r k G) as H.
      destruct (add_dirs C r k t ps). exact H. }
    destruct (alookup N.eqb (k_cookie e) (mvf r)) as [msrc|]; [|apply A].
    destruct (alookup beqb msrc (wfp r)) as [mwd|] eqn:E; [|apply A].
    cbn [fst snd]. destruct G as [G1 [G2 [G3 G4]]]. pose proof (alookup_snd _ _ _ _ E) as Hv.
    assert (G' : gone wd {| wfp := aset beqb match k_name e with [] => wdp | _ :: _ => join wdp (k_name e) end mwd
                                     (aremove beqb msrc (wfp r));
                            pfw := aset N.eqb mwd match k_name e with [] => wdp | _ :: _ => join wdp (k_name e) end (pfw r);
                            mvf := mvf r; calls := calls r; pend := pend r |} k).
    { split; [exact G1|]. split; [exact G2|]. cbn [pfw wfp]. split.
      - intros Hin. apply aset_fst in Hin as [->|Hin]; [now apply G4 | now apply G3].
      - intros Hin. apply aset_snd in Hin as [->|Hin]; [now apply G4|]. apply aremove_snd in Hin. now apply G4. }
    destruct (c_recursive C); [apply rekey_loop_gone|]; exact G'.
  Qed.

  Lemma ro_ignored_gone r e r2 k : ro_ignored C r e = Done r2 -> gone wd r k -> gone wd r2 k.
  Proof.
    unfold ro_ignored. destruct (Emitter.is_ignored (k_mask e)); [|intros H; inversion H; subst; tauto].
    destruct (alookup N.eqb (k_wd e) (pfw r)) as [path|]; [|discriminate]. cbn [wfp pfw].
    intros H [G1 [G2 [G3 G4]]].
    assert (A : ~ In wd (map fst (aremove N.eqb (k_wd e) (pfw r)))) by (intros Hin; apply aremove_fst in Hin; now apply G3).
    destruct (alookup beqb path (wfp r)) as [w1|].
    - destruct (N.eqb w1 (k_wd e)); inversion H; subst; (split; [exact G1|]); (split; [exact G2|]); cbn [pfw wfp];
        (split; [exact A|]); [|exact G4]. intros Hin. apply aremove_snd in Hin. now apply G4.
    - destruct (c_fix_ignored C); [|discriminate]. inversion H; subst.
      split; [exact G1|]. split; [exact G2|]. cbn [pfw wfp]. split; [exact A | exact G4].
  Qed.

  Lemma read_one_body_gone t r k acc e r' k' out :
    read_one_body C t (r, k, acc) e = Done (r', k', out) -> gone wd r k -> gone wd r' k'.
  Proof.
    rewrite read_one_body_factored. destruct (alookup N.eqb (k_wd e) (pfw r)) as [wdp|].
    2:{ destruct (c_fix_moveout C); [|discriminate]. intros H; inversion H; subst. tauto. }
    intros H G. pose proof (ro_move_gone t r k e wdp G) as Gm.
    destruct (ro_move C t r k e wdp) as [[r1 k1] ev1]. cbn [fst snd] in Gm.
    destruct (ro_ignored C r1 e) as [r2|] eqn:Ei; [|discriminate].
    pose proof (ro_ignored_gone _ _ _ k1 Ei Gm) as G2.
    destruct (c_recursive C && is_directory (k_mask e) && is_create (k_mask e)).
    - destruct (add_watch C r2 k1 t (r_path ev1)) as [[[r3 k3] w3]|] eqn:Ea.
      + eapply simulate_gone; [exact H|]. eapply add_watch_gone; eassumption.
      + inversion H; subst. exact G2.
    - inversion H; subst. exact G2.
  Qed.

  Lemma read_one_gone t r k acc e r' k' out :
    read_one C t (r, k, acc) e = Done (r', k', out) -> gone wd r k -> gone wd r' k'.
  Proof.
    rewrite read_one_settle. intros H G. eapply read_one_body_gone; [exact H|]. apply settle_pending_gone. exact G.
  Qed.
End Gone.

(* ------------------------------------------------------------------ more about one iteration *)
Section One.
  Variable C : cfg.

  Lemma read_one_body_plain t r k acc e :
    structural (c_recursive C) (k_mask e) = false ->
    read_one_body C t (r, k, acc) e =
    match alookup N.eqb (k_wd e) (pfw r) with
    | None => if c_fix_moveout C then Done (r, k, acc) else Crash SITE_PATH_FOR_WD
    | Some wdp => Done (r, k, acc ++ [mkraw e (rpath wdp (k_name e))])
    end.
  Proof.
    unfold structural. intros H.
    apply orb_false_iff in H as [H H4]. apply orb_false_iff in H as [H H3]. apply orb_false_iff in H as [H1 H2].
    rewrite read_one_body_factored. destruct (alookup N.eqb (k_wd e) (pfw r)) as [wdp|]; [|reflexivity].
    unfold ro_move, ro_ignored. rewrite H1, H2, H3, H4. reflexivity.
  Qed.

  Lemma read_one_body_unknown t r k acc e :
    ~ In (k_wd e) (map fst (pfw r)) ->
    read_one_body C t (r, k, acc) e = if c_fix_moveout C then Done (r, k, acc) else Crash SITE_PATH_FOR_WD.
  Proof.
    intros H. rewrite read_one_body_factored.
    destruct (alookup N.eqb (k_wd e) (pfw r)) eqn:E; [|reflexivity].
    exfalso. apply H. clear H. induction (pfw r) as [|[a b0] l IH]; simpl in *; [discriminate|].
    destruct (N.eqb (k_wd e) a) eqn:Ea; [left; symmetry; now apply N.eqb_eq | right; apply IH; exact E].
  Qed.

  (* a candidate remembered after the loop body is the record's own *)
  Lemma ro_move_pend_cookie t r k e wdp :
    pend (fst (fst (ro_move C t r k e wdp))) = pend r \/
    exists p, pend (fst (fst (ro_move C t r k e wdp))) = Some (k_cookie e, p).
  Proof.
    destruct (ro_move_pend C t r k e wdp) as [H|H]; [now left|].
    unfold ro_move. unfold sets_pend in H.
    apply andb_true_iff in H as [H H4]. apply andb_true_iff in H as [H H3]. apply andb_true_iff in H as [H1 H2].
    rewrite H3. cbn [fst pend]. rewrite H1, H2, H4. right. eexists. reflexivity.
  Qed.

  Lemma read_one_body_pend_cookie t r k acc e r' k' out :
    read_one_body C t (r, k, acc) e = Done (r', k', out) ->
    pend r' = pend r \/ exists p, pend r' = Some (k_cookie e, p).
  Proof.
    rewrite read_one_body_factored. destruct (alookup N.eqb (k_wd e) (pfw r)) as [wdp|].
    2:{ destruct (c_fix_moveout C); [|discriminate]. intros H; inversion H; subst. now left. }
    pose proof (ro_move_pend_cookie t r k e wdp) as Hm.
    destruct (ro_move C t r k e wdp) as [[r1 k1] ev1]. cbn [fst] in Hm.
    destruct (ro_ignored C r1 e) as [r2|] eqn:Ei; [|discriminate]. apply ro_ignored_pend in Ei.
    assert (A : forall rr, pend rr = pend r2 -> pend rr = pend r \/ exists p, pend rr = Some (k_cookie e, p)).
    { intros rr E. rewrite E, Ei. exact Hm. }
    destruct (c_recursive C && is_directory (k_mask e) && is_create (k_mask e)).
    - destruct (add_watch C r2 k1 t (r_path ev1)) as [[[r3 k3] wd]|] eqn:Ea.
      + intros H. apply simulate_pend in H. apply add_watch_pend in Ea. apply A. congruence.
      + intros H. inversion H; subst. apply A. reflexivity.
    - intros H. inversion H; subst. apply A. reflexivity.
  Qed.
End One.

(* ------------------------------------------------------------------ removing inert records from a batch *)
Section Inert.
  Variable C : cfg.
  Let M := c_mask C.

  (* same watches, same counters (one world: every watch has the mask of the configuration) *)
  Definition ksame (k1 k2 : kst) : Prop := kwt M M k1 k2.

  (* the same settled form *)
  Definition E2 (r1 : rstate) (k1 : kst) (r2 : rstate) (k2 : kst) : Prop :=
    fst (settle_now C r1 k1) = fst (settle_now C r2 k2) /\
    ksame (snd (settle_now C r1 k1)) (snd (settle_now C r2 k2)).

  Definition safe (r : rstate) (rest : list kraw) : Prop := forall e, In e rest -> matching C r e = false.

  (* the second half of a directory rename, if it comes at all, comes right after the first half *)
  Fixpoint shapeP (b : list kraw) : Prop :=
    match b with
    | [] => True
    | f :: post =>
      (sets_pend C (k_mask f) = true ->
       forall e, In e (tl post) -> is_moved_to (k_mask e) = true -> k_cookie e <> k_cookie f) /\ shapeP post
    end.

  Definition oshape (o : list raw) (e : kraw) : Prop :=
    o = [] \/ exists ev sims, o = ev :: sims /\ r_mask ev = k_mask e /\ Forall sim_raw sims /\
                              (sims <> [] -> c_recursive C = true).

  Lemma settle_now_same r k1 k2 : ksame k1 k2 ->
    fst (settle_now C r k1) = fst (settle_now C r k2) /\ ksame (snd (settle_now C r k1)) (snd (settle_now C r k2)).
  Proof.
    intros K. split; [apply settle_now_fst|]. unfold settle_now. destruct (c_fix_moveout C); [|exact K].
    destruct (pend r) as [[c p]|]; [|exact K].
    apply (forget_tree_twin M M). exact K.
  Qed.

  Lemma body_same t r k1 k2 acc1 acc2 e r' k1' out1 :
    ksame k1 k2 -> read_one_body C t (r, k1, acc1) e = Done (r', k1', out1) ->
    exists o k2', out1 = acc1 ++ o /\ read_one_body C t (r, k2, acc2) e = Done (r', k2', acc2 ++ o) /\
                  ksame k1' k2' /\ oshape o e.
  Proof.
    intros K H.
    destruct (read_one_body_acc C t r k1 e) as [[ra [ka [o [Ho Ha]]]]|[s Ha]]; [|rewrite Ha in H; discriminate].
    rewrite Ha in H. inversion H; subst ra ka out1. clear H.
    pose proof (read_one_body_twin C (c_mask C) (c_mask C) eq_refl t r k1 k2 acc2 e K) as T.
    rewrite with_mask_same in T. rewrite Ha in T.
    destruct (read_one_body C t (r, k2, acc2) e) as [[[r2 k2'] a2]|]; [|contradiction].
    destruct T as [T1 [T2 T3]]. cbn [fst snd] in *. subst r2 a2.
    exists o, k2'. split; [reflexivity | split; [reflexivity | split; [exact T3 | exact Ho]]].
  Qed.

  Lemma one_same t r k1 k2 acc1 acc2 e r' k1' out1 :
    ksame k1 k2 -> read_one C t (r, k1, acc1) e = Done (r', k1', out1) ->
    exists o k2', out1 = acc1 ++ o /\ read_one C t (r, k2, acc2) e = Done (r', k2', acc2 ++ o) /\
                  ksame k1' k2' /\ oshape o e.
  Proof.
    intros K H. rewrite read_one_settle in *.
    destruct (settle_twin C (c_mask C) (c_mask C) r k1 k2 e K) as [S1 S2].
    rewrite with_mask_same in S1, S2. rewrite <- S1.
    eapply body_same; eassumption.
  Qed.

  Variable keep : N -> bool.
  Variable sel : kraw -> bool.
  Variable dead : N -> bool.
  Let kp := fun x : raw => keep (r_mask x).
  Hypothesis Hstruct : forall m, structural (c_recursive C) m = true -> keep m = true.
  Hypothesis Hsim : c_recursive C = true -> keep IN_CREATE = true /\ keep (N.lor IN_CREATE IN_ISDIR) = true.

  Lemma kept_out o e : keep (k_mask e) = true -> oshape o e -> filter kp o = o.
  Proof.
    intros Hk [->|[ev [sims [-> [Hm [Hs Hrec]]]]]]; [reflexivity|].
    cbn [filter]. unfold kp at 1. rewrite Hm, Hk. f_equal.
    destruct sims as [|x sims]; [reflexivity|]. destruct (Hsim (Hrec ltac:(discriminate))) as [K1 K2].
    apply filter_all. intros y Hy. rewrite Forall_forall in Hs. unfold kp. destruct (Hs y Hy) as [-> | ->]; assumption.
  Qed.

  (* the two runs: aligned (same reader state) or skewed (same settled form, nothing matching ahead) *)
  Definition inv (rest : list kraw) (r1 : rstate) (k1 : kst) (r2 : rstate) (k2 : kst) : Prop :=
    (r1 = r2 /\ ksame k1 k2 /\ (pending_of C r1 = true -> safe r1 (tl rest)) /\
     (forall wd, dead wd = true -> gone wd r1 k1 /\ gone wd r2 k2))
    \/
    (E2 r1 k1 r2 k2 /\ safe r1 rest /\ safe r2 rest /\
     (forall wd, dead wd = true ->
        gone wd (fst (settle_now C r1 k1)) (snd (settle_now C r1 k1)) /\
        gone wd (fst (settle_now C r2 k2)) (snd (settle_now C r2 k2)))).

  Lemma inv_E2 rest r1 k1 r2 k2 : inv rest r1 k1 r2 k2 -> E2 r1 k1 r2 k2.
  Proof.
    intros [[-> [K _]]|[H _]]; [|exact H]. apply settle_now_same. exact K.
  Qed.

  Lemma safe_idle r rest : pending_of C r = false -> safe r rest.
  Proof. intros H e _. apply matching_idle. exact H. Qed.

  Lemma safe_tl r e rest : safe r (e :: rest) -> safe r rest.
  Proof. intros H x Hx. apply H. now right. Qed.

  (* after an iteration, a remembered candidate can only be matched by the very next record *)
  Lemma pending_safe t r k acc e r' k' out rest :
    read_one C t (r, k, acc) e = Done (r', k', out) -> shapeP (e :: rest) ->
    pending_of C r' = true -> safe r' (tl rest).
  Proof.
    intros H [Hs _] Hp. rewrite read_one_settle in H.
    pose proof (settle_not_pending C r k e) as Hn.
    pose proof (read_one_pending C t r k acc e r' k' out) as Hsp. rewrite read_one_settle in Hsp. specialize (Hsp H Hp).
    destruct (read_one_body_pend_cookie C _ _ _ _ _ _ _ _ H) as [E|[p E]].
    - unfold pending_of in *. rewrite E in Hp. congruence.
    - intros x Hx. destruct (is_moved_to (k_mask x)) eqn:Ex; [|now apply matching_not_to].
      eapply matching_cookie; [exact E|]. apply (Hs Hsp x Hx Ex).
  Qed.

  (* crash for crash *)
  Lemma one_same_crash t r k1 k2 acc1 acc2 e s :
    ksame k1 k2 -> read_one C t (r, k1, acc1) e = Crash s -> read_one C t (r, k2, acc2) e = Crash s.
  Proof.
    intros K H.
    destruct (read_one_acc C t r k1 e) as [[ra [ka [o [Ho Ha]]]]|[s' Ha]]; [rewrite Ha in H; discriminate|].
    rewrite Ha in H. inversion H; subst s'.
    pose proof (read_one_twin C (c_mask C) (c_mask C) eq_refl t r k1 k2 acc2 e K) as T.
    rewrite with_mask_same in T. rewrite Ha in T.
    unfold orel in T. destruct (read_one C t (r, k2, acc2) e); [contradiction | now subst].
  Qed.

  Lemma body_same_crash t r k1 k2 acc1 acc2 e s :
    ksame k1 k2 -> read_one_body C t (r, k1, acc1) e = Crash s -> read_one_body C t (r, k2, acc2) e = Crash s.
  Proof.
    intros K H.
    destruct (read_one_body_acc C t r k1 e) as [[ra [ka [o [Ho Ha]]]]|[s' Ha]]; [rewrite Ha in H; discriminate|].
    rewrite Ha in H. inversion H; subst s'.
    pose proof (read_one_body_twin C (c_mask C) (c_mask C) eq_refl t r k1 k2 acc2 e K) as T.
    rewrite with_mask_same in T. rewrite Ha in T.
    unfold orel in T. destruct (read_one_body C t (r, k2, acc2) e); [contradiction | now subst].
  Qed.

  (* ONE RECORD of the longer batch *)
  Lemma inert_step t e b r1 k1 r2 k2 acc :
    (sel e = false ->
       dead (k_wd e) = true \/ (structural (c_recursive C) (k_mask e) = false /\ keep (k_mask e) = false)) ->
    (sel e = true -> keep (k_mask e) = true) ->
    shapeP (e :: b) -> inv (e :: b) r1 k1 r2 k2 ->
    match read_one C t (r1, k1, acc) e with
    | Done (ra, ka, oa) =>
      if sel e
      then exists o rb kb, oa = acc ++ o /\ filter kp o = o /\
                           read_one C t (r2, k2, filter kp acc) e = Done (rb, kb, filter kp acc ++ o) /\ inv b ra ka rb kb
      else filter kp oa = filter kp acc /\ inv b ra ka r2 k2
    | Crash s =>
      if sel e then read_one C t (r2, k2, filter kp acc) e = Crash s else c_fix_moveout C = false
    end.
  Proof.
    intros Hdel Hkeep Hsh I.
    destruct (read_one C t (r1, k1, acc) e) as [[[ra ka] oa]|s] eqn:E1.
    - destruct (sel e) eqn:Es.
      + pose proof (Hkeep eq_refl) as Hk.
        destruct I as [[<- [K [Ps G]]]|[[EE1 EE2] [S1 [S2 G]]]].
        * destruct (one_same t r1 k1 k2 acc (filter kp acc) e ra ka oa K E1) as [o [kb [-> [E2' [K' Ho]]]]].
          exists o, ra, kb. split; [reflexivity|]. split; [exact (kept_out o e Hk Ho)|]. split; [exact E2'|].
          left. split; [reflexivity|]. split; [exact K'|]. split.
          { intros Hp. eapply pending_safe; eassumption. }
          intros wd Hd. destruct (G wd Hd) as [G1 G2]. split; eapply read_one_gone; eassumption.
        * rewrite read_one_settle in E1. rewrite (settle_pending_now C r1 k1 e (S1 e (or_introl eq_refl))) in E1.
          destruct (body_same t _ _ (snd (settle_now C r2 k2)) acc (filter kp acc) e ra ka oa EE2 E1)
            as [o [kb [-> [E2' [K' Ho]]]]].
          exists o, ra, kb. split; [reflexivity|]. split; [exact (kept_out o e Hk Ho)|]. split.
          { rewrite read_one_settle, (settle_pending_now C r2 k2 e (S2 e (or_introl eq_refl))). rewrite <- EE1. exact E2'. }
          left. split; [reflexivity|]. split; [exact K'|]. split.
          { intros Hp. pose proof (settle_now_not_pending C r1 k1) as Hn.
            destruct (read_one_body_pend_cookie C _ _ _ _ _ _ _ _ E1) as [E|[p E]].
            - unfold pending_of in *. rewrite E in Hp. congruence.
            - assert (Hsp : sets_pend C (k_mask e) = true).
              { destruct (read_one_body_pend C _ _ _ _ _ _ _ _ E1) as [E'|E']; [|exact E'].
                unfold pending_of in *. rewrite E' in Hp. congruence. }
              intros x Hx. destruct (is_moved_to (k_mask x)) eqn:Ex; [|now apply matching_not_to].
              eapply matching_cookie; [exact E|]. destruct Hsh as [Hs _]. apply (Hs Hsp x Hx Ex). }
          intros wd Hd. destruct (G wd Hd) as [G1 G2]. split.
          { eapply read_one_body_gone; eassumption. }
          { eapply read_one_body_gone; [exact E2'|]. rewrite EE1. exact G2. }
      + assert (Hm : matching C r1 e = false).
        { destruct I as [[<- [K [Ps G]]]|[_ [S1 _]]]; [|apply S1; now left].
          destruct (Hdel eq_refl) as [Hd|[Hp _]].
          - apply matching_unknown. destruct (G _ Hd) as [[_ [_ [G3 _]]] _]. exact G3.
          - apply matching_not_to. unfold structural in Hp.
            apply orb_false_iff in Hp as [Hp _]. apply orb_false_iff in Hp as [Hp _]. apply orb_false_iff in Hp as [_ Hp]. exact Hp. }
        rewrite read_one_settle, (settle_pending_now C r1 k1 e Hm) in E1.
        assert (GE : forall wd, dead wd = true ->
                  gone wd (fst (settle_now C r1 k1)) (snd (settle_now C r1 k1)) /\
                  gone wd (fst (settle_now C r2 k2)) (snd (settle_now C r2 k2))).
        { destruct I as [[<- [K [Ps G]]]|[_ [_ [_ G]]]]; [|exact G].
          intros wd Hd. destruct (G wd Hd) as [G1 G2]. split; apply settle_now_gone; assumption. }
        assert (Hstate : ra = fst (settle_now C r1 k1) /\ ka = snd (settle_now C r1 k1) /\ filter kp oa = filter kp acc).
        { destruct (Hdel eq_refl) as [Hd|[Hp Hk]].
          - destruct (GE _ Hd) as [[_ [_ [G3 _]]] _].
            rewrite (read_one_body_unknown C t _ _ acc e G3) in E1.
            destruct (c_fix_moveout C); [|discriminate]. inversion E1; subst. repeat split; reflexivity.
          - rewrite (read_one_body_plain C t _ _ acc e Hp) in E1.
            destruct (alookup N.eqb (k_wd e) (pfw (fst (settle_now C r1 k1)))) as [wdp|].
            + inversion E1; subst. repeat split; try reflexivity.
              rewrite filter_app. cbn [filter]. unfold kp at 2. cbn [mkraw r_mask]. rewrite Hk. apply app_nil_r.
            + destruct (c_fix_moveout C); [|discriminate]. inversion E1; subst. repeat split; reflexivity. }
        destruct Hstate as [-> [-> Hout]]. split; [exact Hout|].
        right. pose proof (inv_E2 _ _ _ _ _ I) as [EE1 EE2]. split; [|split; [|split]].
        * unfold E2. rewrite settle_now_idem. split; [exact EE1 | exact EE2].
        * apply safe_idle. apply settle_now_not_pending.
        * destruct I as [[<- [K [Ps G]]]|[_ [_ [S2 _]]]]; [|eapply safe_tl; exact S2].
          destruct (pending_of C r1) eqn:Hp; [apply Ps; reflexivity | apply safe_idle; exact Hp].
        * intros wd Hd. rewrite settle_now_idem. apply GE. exact Hd.
    - destruct (sel e) eqn:Es.
      + destruct I as [[<- [K _]]|[[EE1 EE2] [S1 [S2 _]]]].
        * eapply one_same_crash; eassumption.
        * rewrite read_one_settle in E1. rewrite (settle_pending_now C r1 k1 e (S1 e (or_introl eq_refl))) in E1.
          rewrite read_one_settle, (settle_pending_now C r2 k2 e (S2 e (or_introl eq_refl))). rewrite <- EE1.
          eapply body_same_crash; eassumption.
      + (* an inert record can only crash the pinned reader *)
        assert (Hm : matching C r1 e = false).
        { destruct I as [[<- [K [Ps G]]]|[_ [S1 _]]]; [|apply S1; now left].
          destruct (Hdel eq_refl) as [Hd|[Hp _]].
          - apply matching_unknown. destruct (G _ Hd) as [[_ [_ [G3 _]]] _]. exact G3.
          - apply matching_not_to. unfold structural in Hp.
            apply orb_false_iff in Hp as [Hp _]. apply orb_false_iff in Hp as [Hp _]. apply orb_false_iff in Hp as [_ Hp]. exact Hp. }
        rewrite read_one_settle, (settle_pending_now C r1 k1 e Hm) in E1.
        destruct (Hdel eq_refl) as [Hd|[Hp Hk]].
        * assert (G3 : ~ In (k_wd e) (map fst (pfw (fst (settle_now C r1 k1))))).
          { destruct I as [[<- [K [Ps G]]]|[_ [_ [_ G]]]].
            - destruct (G _ Hd) as [G1 _]. apply (settle_now_gone C _ _ _) in G1. destruct G1 as [_ [_ [G3 _]]]. exact G3.
            - destruct (G _ Hd) as [[_ [_ [G3 _]]] _]. exact G3. }
          rewrite (read_one_body_unknown C t _ _ acc e G3) in E1. destruct (c_fix_moveout C); [discriminate | reflexivity].
        * rewrite (read_one_body_plain C t _ _ acc e Hp) in E1.
          destruct (alookup N.eqb (k_wd e) (pfw (fst (settle_now C r1 k1)))); [discriminate|].
          destruct (c_fix_moveout C); [discriminate | reflexivity].
  Qed.

  Section Batch.
    Variable t : fs.
    Variable b0 : list kraw.

    Theorem inert : forall b r1 k1 r2 k2 acc r1' k1' out,
      (forall e, In e b -> sel e = false ->
                 dead (k_wd e) = true \/ (structural (c_recursive C) (k_mask e) = false /\ keep (k_mask e) = false)) ->
      (forall e, In e b -> sel e = true -> keep (k_mask e) = true) ->
      shapeP b -> inv b r1 k1 r2 k2 ->
      read_batch C t (r1, k1, acc) b = Done (r1', k1', out) ->
      exists r2' k2', read_batch C t (r2, k2, filter kp acc) (filter sel b) = Done (r2', k2', filter kp out) /\
                      E2 r1' k1' r2' k2'.
    Proof.
      induction b as [|e b IH]; intros r1 k1 r2 k2 acc r1' k1' out Hdel Hkeep Hsh I Hrun.
      - cbn in *. inversion Hrun; subst. exists r2, k2. split; [reflexivity|]. eapply inv_E2; exact I.
      - cbn [read_batch filter] in *.
        pose proof (inert_step t e b r1 k1 r2 k2 acc (Hdel e (or_introl eq_refl)) (Hkeep e (or_introl eq_refl)) Hsh I) as St.
        destruct (read_one C t (r1, k1, acc) e) as [[[ra ka] oa]|] eqn:E1; [|discriminate].
        assert (Hdel' : forall x, In x b -> sel x = false ->
                  dead (k_wd x) = true \/ (structural (c_recursive C) (k_mask x) = false /\ keep (k_mask x) = false))
          by (intros x Hx; apply Hdel; now right).
        assert (Hkeep' : forall x, In x b -> sel x = true -> keep (k_mask x) = true) by (intros x Hx; apply Hkeep; now right).
        assert (Hsh' : shapeP b) by (destruct Hsh; assumption).
        destruct (sel e).
        + destruct St as [o [rb [kb [-> [Ho [E2' I']]]]]]. cbn [read_batch]. rewrite E2'.
          assert (Hf : filter kp (acc ++ o) = filter kp acc ++ o) by (rewrite filter_app, Ho; reflexivity).
          rewrite <- Hf. eapply IH; eassumption.
        + destruct St as [Hout I']. destruct (IH _ _ _ _ _ _ _ _ Hdel' Hkeep' Hsh' I' Hrun) as [r2' [k2' [Hr HE]]].
          exists r2', k2'. split; [|exact HE]. rewrite <- Hout. exact Hr.
    Qed.

    (* ... and back: with the repair, the longer batch does not crash where the shorter one does not *)
    Theorem inert_back : c_fix_moveout C = true -> forall b r1 k1 r2 k2 acc r2' k2' out2,
      (forall e, In e b -> sel e = false ->
                 dead (k_wd e) = true \/ (structural (c_recursive C) (k_mask e) = false /\ keep (k_mask e) = false)) ->
      (forall e, In e b -> sel e = true -> keep (k_mask e) = true) ->
      shapeP b -> inv b r1 k1 r2 k2 ->
      read_batch C t (r2, k2, filter kp acc) (filter sel b) = Done (r2', k2', out2) ->
      exists r1' k1' out, read_batch C t (r1, k1, acc) b = Done (r1', k1', out).
    Proof.
      intros Hfix. induction b as [|e b IH]; intros r1 k1 r2 k2 acc r2' k2' out2 Hdel Hkeep Hsh I Hrun.
      - cbn. eexists; eexists; eexists; reflexivity.
      - cbn [read_batch filter] in *.
        pose proof (inert_step t e b r1 k1 r2 k2 acc (Hdel e (or_introl eq_refl)) (Hkeep e (or_introl eq_refl)) Hsh I) as St.
        assert (Hdel' : forall x, In x b -> sel x = false ->
                  dead (k_wd x) = true \/ (structural (c_recursive C) (k_mask x) = false /\ keep (k_mask x) = false))
          by (intros x Hx; apply Hdel; now right).
        assert (Hkeep' : forall x, In x b -> sel x = true -> keep (k_mask x) = true) by (intros x Hx; apply Hkeep; now right).
        assert (Hsh' : shapeP b) by (destruct Hsh; assumption).
        destruct (read_one C t (r1, k1, acc) e) as [[[ra ka] oa]|s] eqn:E1.
        + destruct (sel e).
          * destruct St as [o [rb [kb [-> [Ho [E2' I']]]]]]. cbn [read_batch] in Hrun. rewrite E2' in Hrun.
            assert (Hf : filter kp (acc ++ o) = filter kp acc ++ o) by (rewrite filter_app, Ho; reflexivity).
            rewrite <- Hf in Hrun. eapply IH; eassumption.
          * destruct St as [Hout I']. rewrite <- Hout in Hrun. eapply IH; eassumption.
        + destruct (sel e).
          * cbn [read_batch] in Hrun. rewrite St in Hrun. discriminate.
          * congruence.
    Qed.
  End Batch.
End Inert.
