Require Import WD.Base.Prelude WD.Model.DelayQueue.
From Coq Require Import Permutation.
Local Open Scope N_scope.

Definition ids (l : list entry) : list N := map e_id l.
Definition gids (s : st) : list N := map fst (got s).

Inductive sublist {A} : list A -> list A -> Prop :=
| sub_nil : sublist [] []
| sub_skip x l m : sublist l m -> sublist l (x :: m)
| sub_keep x l m : sublist l m -> sublist (x :: l) (x :: m).

Lemma sublist_refl {A} (l : list A) : sublist l l.
Proof. induction l; [apply sub_nil | apply sub_keep; auto]. Qed.

Lemma sublist_nil_l {A} (l : list A) : sublist [] l.
Proof. induction l; constructor; auto. Qed.

Lemma sublist_trans {A} (a b c : list A) : sublist a b -> sublist b c -> sublist a c.
Proof.
  intros Hab Hbc. revert a Hab. induction Hbc; intros a Hab.
  - inversion Hab. constructor.
  - apply sub_skip. auto.
  - inversion Hab; subst; [apply sub_skip | apply sub_keep]; auto.
Qed.

Lemma sublist_app_tail {A} (l m : list A) x : sublist l m -> sublist (l ++ [x]) (m ++ [x]).
Proof. induction 1; simpl; [apply sub_keep; apply sub_nil | apply sub_skip; auto | apply sub_keep; auto]. Qed.

Lemma sublist_app_l {A} (a b : list A) : sublist a (a ++ b).
Proof. induction a; simpl; [apply sublist_nil_l | apply sub_keep; auto]. Qed.

Lemma sublist_app2 {A} (a b b' : list A) : sublist b' b -> sublist (a ++ b') (a ++ b).
Proof. induction a; simpl; auto. intros. apply sub_keep. auto. Qed.

Lemma sublist_In {A} (l m : list A) x : sublist l m -> In x l -> In x m.
Proof. induction 1; simpl; intuition. Qed.

(* remove_first facts *)
Lemma remove_first_none sat l l' : remove_first sat l = (None, l') -> l' = l.
Proof.
  revert l'; induction l as [|e l IH]; simpl; intros l' H.
  - inversion H. reflexivity.
  - destruct (memN (e_id e) sat); [discriminate|].
    destruct (remove_first sat l) as [r l''] eqn:E. inversion H; subst r l'.
    f_equal. apply IH. reflexivity.
Qed.

Lemma remove_first_some sat l e l' :
  remove_first sat l = (Some e, l') ->
  exists a b, l = a ++ e :: b /\ l' = a ++ b /\ memN (e_id e) sat = true.
Proof.
  revert l'; induction l as [|x l IH]; simpl; intros l' H; [discriminate|].
  destruct (memN (e_id x) sat) eqn:M.
  - inversion H; subst x l'. exists [], l. auto.
  - destruct (remove_first sat l) as [r l''] eqn:E. inversion H; subst r l'.
    destruct (IH _ eq_refl) as [a [b [Hl [Hl'' Hm]]]]. subst l l''. exists (x :: a), b. auto.
Qed.

Lemma sublist_remove_mid {A} (a b : list A) e : sublist (a ++ b) (a ++ e :: b).
Proof. apply sublist_app2. apply sub_skip. apply sublist_refl. Qed.

Section Delay.
  Variable delay : N.

  Definition is_prefix {A} (a b : list A) : Prop := exists c, b = a ++ c.

  Record Inv (s : st) : Prop := {
    inv_fifo : sublist (gids s ++ ids (q s)) (ids (puts s));
    inv_part : Permutation (ids (puts s)) (gids s ++ removed s ++ ids (q s));
    inv_qin : forall e, In e (q s) -> In e (puts s);
    inv_head : forall h, pc s = CHead h \/ pc s = CPop h -> In h (puts s);
    inv_pop : forall h, pc s = CPop h -> e_delayed h = false \/ e_tins h + delay <= clock s;
    inv_closed : closed s = true <-> cl s <> Open;
    inv_wait : pc s = CWait -> q s = [] /\ cl s <> Closed;
  }.

  Lemma inv_init : Inv init.
  Proof.
    constructor; simpl.
    - constructor.
    - constructor.
    - intros e [].
    - intros h [H|H]; discriminate.
    - intros h H; discriminate.
    - split; [discriminate | intros H; contradiction].
    - discriminate.
  Qed.

  Ltac inv_some :=
    match goal with H : Some _ = Some _ |- _ => inversion H; subst; clear H end.

  Lemma notify_head p h : notify p = CHead h \/ notify p = CPop h -> p = CHead h \/ p = CPop h.
  Proof. destruct p; simpl; intros [H|H]; try discriminate; auto. Qed.

  Lemma notify_pop p h : notify p = CPop h -> p = CPop h.
  Proof. destruct p; simpl; intros H; try discriminate; auto. Qed.

  Lemma notify_wait p : notify p <> CWait.
  Proof. destruct p; simpl; discriminate. Qed.

  Lemma step_inv s l s' : Inv s -> step delay s l = Some s' -> Inv s'.
  Proof.
    intros I Hs. destruct I as [Ififo Ipart Iqin Ihead Ipop Iclosed Iwait].
    destruct l; simpl in Hs.
    - (* Put *)
      inv_some. constructor; simpl.
      + unfold gids, ids in *. simpl. rewrite !map_app. simpl. rewrite app_assoc.
        now apply sublist_app_tail.
      + unfold gids, ids in *. simpl. rewrite !map_app. simpl.
        rewrite !app_assoc. apply Permutation_app_tail. rewrite <- app_assoc. exact Ipart.
      + intros e He. apply in_app_iff in He as [He|[<-|[]]]; apply in_app_iff; auto.
        right. left. reflexivity.
      + intros h Hh. apply notify_head in Hh. apply in_app_iff. left. auto.
      + intros h Hh. apply notify_pop in Hh. auto.
      + exact Iclosed.
      + intros Hw. exfalso. eapply notify_wait; eauto.
    - (* Remove *)
      destruct (remove_first sat (q s)) as [[e|] q'] eqn:E; inv_some.
      + apply remove_first_some in E as [a [b [Hq [-> Hm]]]].
        constructor; simpl.
        * unfold gids, ids in *. simpl. rewrite Hq in Ififo. rewrite map_app in *. simpl in Ififo.
          eapply sublist_trans; [|exact Ififo]. apply sublist_app2. apply sublist_remove_mid.
        * unfold gids, ids in *. simpl. rewrite Hq in Ipart. rewrite map_app in *. simpl in Ipart.
          eapply Permutation_trans; [exact Ipart|].
          apply Permutation_app_head. rewrite <- app_assoc. apply Permutation_app_head.
          simpl. apply Permutation_sym. apply Permutation_middle.
        * intros x Hx. apply Iqin. rewrite Hq. apply in_app_iff in Hx as [Hx|Hx]; apply in_app_iff; auto.
          right. right. exact Hx.
        * exact Ihead.
        * exact Ipop.
        * exact Iclosed.
        * intros Hw. destruct (Iwait Hw) as [Hnil _]. rewrite Hnil in Hq. destruct a; discriminate.
      + constructor; assumption.
    - (* Close1 *)
      inv_some. constructor; simpl; auto.
      + split; [intros _|reflexivity]. destruct (cl s); discriminate.
      + intros Hw. destruct (Iwait Hw) as [Hnil Hc]. split; [exact Hnil|].
        destruct (cl s); try discriminate. contradiction.
    - (* Close2 *)
      destruct (cl s) eqn:Ecl; [discriminate| |]; inv_some; constructor; simpl; auto;
        try (intros h Hh; apply notify_head in Hh; auto);
        try (intros h Hh; apply notify_pop in Hh; auto);
        try (intros Hw; exfalso; eapply notify_wait; eauto).
      all: split; [discriminate|]; intros _; apply Iclosed; try rewrite Ecl; discriminate.
    - (* GetEnter *)
      assert (Hgo : (pc s = CIdle \/ pc s = CWoken) \/ ~ (pc s = CIdle \/ pc s = CWoken)).
      { destruct (pc s); auto; right; intros [H|H]; discriminate. }
      destruct Hgo as [Hgo|Hno].
      2:{ destruct (pc s); try discriminate; exfalso; apply Hno; auto. }
      assert (Hs' : (if closed s
               then Some {| q := q s; closed := closed s; cl := cl s; clock := clock s; pc := CIdle;
                            puts := puts s; got := got s; ends := S (ends s); removed := removed s |}
               else match q s with
                    | [] => Some {| q := q s; closed := closed s; cl := cl s; clock := clock s; pc := CWait;
                                    puts := puts s; got := got s; ends := ends s; removed := removed s |}
                    | h :: _ => Some {| q := q s; closed := closed s; cl := cl s; clock := clock s; pc := CHead h;
                                        puts := puts s; got := got s; ends := ends s; removed := removed s |}
                    end) = Some s').
      { destruct Hgo as [H|H]; rewrite H in Hs; exact Hs. }
      clear Hs. destruct (closed s) eqn:Ec.
      + inv_some. constructor; simpl; auto; try (intros h [H|H]; discriminate); try discriminate.
      + destruct (q s) as [|h q'] eqn:Eq; inv_some; constructor; simpl; auto;
          try (intros h0 [H|H]; discriminate); try discriminate; try (rewrite Eq; auto).
        * intros _. split; [reflexivity|]. intros Hc.
          assert (Hf : false = true) by (apply Iclosed; rewrite Hc; discriminate). discriminate.
        * intros h0 [H|H]; inversion H; subst. apply Iqin. try rewrite Eq. left. reflexivity.
    - (* GetDelay *)
      destruct (pc s) eqn:Epc; try discriminate.
      destruct (negb (e_delayed h) || (e_tins h + delay <=? clock s)) eqn:Ed; [|discriminate].
      inv_some. constructor; simpl; auto; try discriminate.
      + intros h0 [H|H]; inversion H; subst. apply Ihead. auto.
      + intros h0 H. inversion H; subst. apply orb_true_iff in Ed as [Ed|Ed].
        * left. now apply negb_true_iff in Ed.
        * right. now apply N.leb_le in Ed.
    - (* GetPop *)
      destruct (pc s) eqn:Epc; try discriminate.
      destruct (q s) as [|h' q'] eqn:Eq.
      + inv_some. constructor; simpl; auto; try (intros h0 [H|H]; discriminate); try discriminate.
      + destruct (N.eqb (e_id h') (e_id h)) eqn:Eid; inv_some; constructor; simpl; auto;
          try (intros h0 [H|H]; discriminate); try discriminate; try (rewrite Eq; auto).
        * unfold gids, ids in *. simpl in *. rewrite map_app. simpl. rewrite <- app_assoc. exact Ififo.
        * unfold gids, ids in *. simpl in *. rewrite map_app. simpl. rewrite <- !app_assoc. simpl.
          eapply Permutation_trans; [exact Ipart|]. apply Permutation_app_head.
          apply Permutation_sym. apply Permutation_middle.
        * intros e He. apply Iqin. right. exact He.
    - (* Tick *)
      inv_some. constructor; simpl; auto.
      intros h Hh. destruct (Ipop h Hh); [left; assumption | right; lia].
  Qed.

  Lemma run_inv tr : forall s s', Inv s -> run delay s tr = Some s' -> Inv s'.
  Proof.
    induction tr as [|l tr IH]; simpl; intros s s' I H.
    - inversion H; subst. exact I.
    - destruct (step delay s l) as [s1|] eqn:E; [|discriminate].
      eapply IH; [eapply step_inv; eauto | exact H].
  Qed.

  Theorem reachable_inv s : reachable delay s -> Inv s.
  Proof. intros [tr H]. eapply run_inv; [apply inv_init | exact H]. Qed.

  (* ----- never early (needs unique element identities) *)
  Definition Early (s : st) : Prop :=
    NoDup (ids (puts s)) ->
    forall id t, In (id, t) (got s) ->
    forall e, In e (puts s) -> e_id e = id -> e_delayed e = true -> e_tins e + delay <= t.

  Lemma step_puts_prefix s l s' : step delay s l = Some s' -> is_prefix (puts s) (puts s').
  Proof.
    intros H. destruct l; simpl in H;
      repeat match goal with
             | H : context [match ?x with _ => _ end] |- _ => destruct x eqn:?; try discriminate
             | H : context [if ?x then _ else _] |- _ => destruct x eqn:?; try discriminate
             end; inv_some; simpl; try (exists []; now rewrite app_nil_r); eexists; reflexivity.
  Qed.

  Lemma NoDup_prefix {A} (a c : list A) : NoDup (a ++ c) -> NoDup a.
  Proof.
    induction a as [|x a IH]; simpl; intros H; [constructor|].
    inversion H as [|? ? Hx Hn]; subst. constructor; [|auto].
    intros Hin. apply Hx. apply in_app_iff. auto.
  Qed.

  Lemma NoDup_suffix {A} (a c : list A) : NoDup (a ++ c) -> NoDup c.
  Proof. induction a as [|x a IH]; simpl; intros H; [exact H|]. inversion H; auto. Qed.

  Lemma nodup_ids_inj l a b : NoDup (ids l) -> In a l -> In b l -> e_id a = e_id b -> a = b.
  Proof.
    induction l as [|x l IH]; simpl; intros Hn Ha Hb Hid; [contradiction|].
    inversion Hn as [|? ? Hx Hn']; subst.
    destruct Ha as [->|Ha], Hb as [->|Hb]; auto.
    - exfalso. apply Hx. rewrite Hid. apply in_map. exact Hb.
    - exfalso. apply Hx. rewrite <- Hid. apply in_map. exact Ha.
  Qed.

  Lemma step_early s l s' : Inv s -> Early s -> step delay s l = Some s' -> Early s'.
  Proof.
    intros I E Hs Hn id t Hin e He Hid Hd.
    assert (Hpre := step_puts_prefix _ _ _ Hs). destruct Hpre as [c Hc].
    assert (Hn0 : NoDup (ids (puts s))).
    { unfold ids in *. rewrite Hc, map_app in Hn. eapply NoDup_prefix; eauto. }
    destruct I as [Ififo Ipart Iqin Ihead Ipop Iclosed Iwait].
    (* is (id,t) an old result? *)
    assert (Hold : In (id, t) (got s) ->  e_tins e + delay <= t).
    { intros Hg.
      (* the element with this id was already put (it is in got, hence in puts s) *)
      assert (Hidin : In id (ids (puts s))).
      { eapply sublist_In; [exact Ififo|]. apply in_app_iff. left. unfold gids.
        change id with (fst (id, t)). apply in_map. exact Hg. }
      unfold ids in Hidin. apply in_map_iff in Hidin as [e0 [He0id He0]].
      assert (e0 = e).
      { eapply (nodup_ids_inj (puts s')); eauto; [rewrite Hc; apply in_app_iff; auto | congruence]. }
      subst e0. eapply E; eauto. }
    destruct l; simpl in Hs;
      repeat match goal with
             | H : context [match ?x with _ => _ end] |- _ => destruct x eqn:?; try discriminate
             | H : context [if ?x then _ else _] |- _ => destruct x eqn:?; try discriminate
             end; inv_some; simpl in *; try (apply Hold; exact Hin).
    (* the successful pop *)
    apply in_app_iff in Hin as [Hin|[Hin|[]]]; [apply Hold; exact Hin|].
    inversion Hin; subst. clear Hin.
    match goal with H : (e_id ?h' =? e_id ?h) = true |- _ => apply N.eqb_eq in H; rename H into Hidh end.
    match goal with H : pc s = CPop ?h |- _ => rename H into Hpc end.
    match goal with H : q s = ?h' :: _ |- _ => rename H into Hq end.
    assert (Hh : In h (puts s)) by (apply Ihead; auto).
    assert (Hh' : In e0 (puts s)) by (apply Iqin; try rewrite Hq; left; reflexivity).
    assert (e0 = h) by (eapply nodup_ids_inj; eauto). subst e0.
    assert (e = h) by (eapply (nodup_ids_inj (puts s)); eauto; congruence). subst e.
    assert (Hp : e_delayed h = false \/ e_tins h + delay <= clock s) by (apply Ipop; auto).
    destruct Hp as [Hf|Hle]; [congruence | exact Hle].
  Qed.

  Lemma run_early tr : forall s s', Inv s -> Early s -> run delay s tr = Some s' -> Early s'.
  Proof.
    induction tr as [|l tr IH]; simpl; intros s s' I E H.
    - inversion H; subst. exact E.
    - destruct (step delay s l) as [s1|] eqn:Es; [|discriminate].
      eapply IH; [eapply step_inv; eauto | eapply step_early; eauto | exact H].
  Qed.

  Theorem reachable_early s : reachable delay s -> Early s.
  Proof.
    intros [tr H]. eapply run_early; [apply inv_init | | exact H].
    intros _ id t Hin. simpl in Hin. contradiction.
  Qed.

  (* ----- corollaries in the shape of the property *)
  Theorem fifo s : reachable delay s -> sublist (gids s) (ids (puts s)).
  Proof.
    intros R. apply reachable_inv in R. eapply sublist_trans; [apply sublist_app_l | apply (inv_fifo _ R)].
  Qed.

  Theorem partition s : reachable delay s ->
    Permutation (ids (puts s)) (gids s ++ removed s ++ ids (q s)).
  Proof. intros R. apply reachable_inv in R. apply (inv_part _ R). Qed.

  Theorem at_most_once s : reachable delay s -> NoDup (ids (puts s)) ->
    NoDup (gids s ++ removed s ++ ids (q s)).
  Proof. intros R Hn. eapply Permutation_NoDup; [apply partition; exact R | exact Hn]. Qed.

  Lemma NoDup_app_disjoint {A} (a b : list A) x : NoDup (a ++ b) -> In x a -> ~ In x b.
  Proof.
    induction a as [|y a IH]; simpl; intros Hn Ha Hb; [contradiction|].
    inversion Hn as [|? ? Hy Hn']; subst. destruct Ha as [->|Ha].
    - apply Hy. apply in_app_iff. auto.
    - eapply IH; eauto.
  Qed.

  Theorem removed_not_returned s : reachable delay s -> NoDup (ids (puts s)) ->
    forall id, In id (removed s) -> ~ In id (gids s) /\ ~ In id (ids (q s)).
  Proof.
    intros R Hn id Hr. assert (H := at_most_once s R Hn). split.
    - intros Hg. eapply NoDup_app_disjoint; [exact H | exact Hg |]. apply in_app_iff. auto.
    - intros Hq. apply NoDup_suffix in H.
      eapply NoDup_app_disjoint; [exact H | exact Hr | exact Hq].
  Qed.

  Theorem close_unblocks s : reachable delay s -> cl s = Closed ->
    pc s <> CWait /\
    (pc s = CIdle \/ pc s = CWoken ->
     exists s', step delay s GetEnter = Some s' /\ ends s' = S (ends s) /\ pc s' = CIdle /\ got s' = got s).
  Proof.
    intros R Hc. apply reachable_inv in R. split.
    - intros Hw. destruct (inv_wait _ R Hw) as [_ Hn]. contradiction.
    - intros Hpc. assert (Hcl : closed s = true) by (apply (inv_closed _ R); rewrite Hc; discriminate).
      simpl. destruct Hpc as [-> | ->]; rewrite Hcl; eexists; repeat split.
  Qed.

  (* a blocked consumer is only ever blocked on an empty, not-yet-closed queue *)
  Theorem wait_only_when_empty_open s : reachable delay s -> pc s = CWait -> q s = [] /\ cl s <> Closed.
  Proof. intros R. apply reachable_inv in R. apply (inv_wait _ R). Qed.

  (* an element put without delay passes the delay wait at once, whatever the clock *)
  Theorem nodelay_immediate s h : pc s = CHead h -> e_delayed h = false ->
    exists s', step delay s GetDelay = Some s' /\ pc s' = CPop h.
  Proof. intros Hpc Hd. simpl. rewrite Hpc, Hd. simpl. eexists; split; reflexivity. Qed.
End Delay.
