(* C07 - Monitoring never silently dies while the observer runs and the root exists.
   Statements only. *)
Require Import WD.Base.Prelude WD.Base.BStr WD.Model.SubEvents WD.Model.Emitter WD.Model.Fs WD.Model.Reader
               WD.Model.DelayQueue WD.Model.Grouping WD.Model.Pipeline WD.Proofs.NoCrashProofs.
Local Open Scope N_scope.

(* For EVERY initial world, EVERY history (operations of any kind on any path - inside the tree, on
   entries that have left it, re-using names -, reads cutting the kernel stream anywhere, emitter
   steps, clock ticks) and EVERY set of failing inotify_add_watch calls (transient lookup failures),
   recursive or not, with or without an event filter: the reader thread of the current code never
   raises (the model's only exceptional outcome, [Crash], is unreachable). *)
Theorem C07_no_crash : forall (P : pcfg),
  c_fix_ignored (pc_reader P) = true -> c_fix_simulate (pc_reader P) = true ->
  forall w s0 h, pinit P w = Some s0 -> exists s' obs, prun P s0 h [] = Done (s', obs).
Proof. exact no_crash. Qed.
Print Assumptions C07_no_crash.

(* The invariant behind it, exported: at every reachable state every live kernel watch and every
   unread kernel event carries a descriptor the reader knows. *)
Theorem C07_descriptors_known : forall (P : pcfg),
  c_fix_ignored (pc_reader P) = true -> c_fix_simulate (pc_reader P) = true ->
  forall w s0 h s' obs, pinit P w = Some s0 -> prun P s0 h [] = Done (s', obs) ->
  (forall x, In x (k_watches (p_k s')) -> In (kw_wd x) (map fst (pfw (p_r s')))) /\
  okq (map fst (pfw (p_r s'))) (k_queue (p_k s')).
Proof. exact descriptors_known. Qed.
Print Assumptions C07_descriptors_known.

(* Root deletion: the kernel's IN_DELETE_SELF for the watched root is translated into exactly one
   DirDeleted(root) and a stop request; a stopped emitter produces nothing further. *)
Theorem C07_root_deleted_event : forall full recursive root content e,
  r_mask e = IN_DELETE_SELF -> r_path e = root ->
  emit full recursive root content (Single e) = ([mk DirDeleted root []], true).
Proof. exact root_deleted_event. Qed.
Print Assumptions C07_root_deleted_event.

Theorem C07_stopped_is_silent : forall P s, p_stopped s = true -> pstep P s AEmit = Done (s, OSkip).
Proof. exact stopped_is_silent. Qed.
Print Assumptions C07_stopped_is_silent.

(* ---------------------------------------------------------------- the pinned code is refuted *)
Definition Rt : bytes := [47; 82].            (* "/R" *)
Definition Ot : bytes := [47; 79].            (* "/O" *)
Definition d_ (a : bytes) : bytes := a ++ [47; 100].   (* a ++ "/d" *)
Definition world0 : world :=
  {| w_fs := [{| f_path := Rt; f_ino := 1; f_dir := true |}; {| f_path := Ot; f_ino := 2; f_dir := true |}];
     w_next_ino := 3 |}.
Definition cfg0 (fi fs_ : bool) (faults : list nat) : pcfg :=
  {| pc_reader := {| c_recursive := true; c_mask := WATCHDOG_ALL; c_root := Rt; c_fix_ignored := fi;
                     c_fix_movein := true; c_fix_simulate := fs_; c_faults := faults |};
     pc_full := false; pc_filter := None; pc_delay := 4 |}.

Definition run0 (P : pcfg) (h : list action) : option N :=
  match pinit P world0 with
  | None => None
  | Some s0 => match prun P s0 h [] with Crash site => Some site | Done _ => None end
  end.

(* F1: mv R/d O/d; mkdir R/d; rmdir R/d; rmdir O/d  - KeyError in the IN_IGNORED clean-up *)
Definition h_f1 : list action :=
  [AOp (Mkdir (d_ Rt)); ARead 9; AOp (Rename (d_ Rt) (d_ Ot)); ARead 9; AOp (Mkdir (d_ Rt)); ARead 9;
   AOp (Rmdir (d_ Rt)); ARead 9; AOp (Rmdir (d_ Ot)); ARead 9].
Theorem C07_pinned_ignored_refuted : run0 (cfg0 false true []) h_f1 = Some SITE_IGNORED.
Proof. vm_compute. reflexivity. Qed.
Print Assumptions C07_pinned_ignored_refuted.

(* F14: add_watch of a new sub-directory fails (suppressed) and the directory contains a file *)
Definition h_f14 : list action :=
  [AOp (Mkdir (d_ Rt)); AOp (Mkdir (d_ (d_ Rt))); AOp (Touch (d_ (d_ (d_ Rt)))); ARead 9].
Theorem C07_pinned_simulate_refuted : run0 (cfg0 true false [2%nat]) h_f14 = Some SITE_SIMULATE.
Proof. vm_compute. reflexivity. Qed.
Print Assumptions C07_pinned_simulate_refuted.

(* the same histories on the current code: no crash (non-vacuity of C07_no_crash's hypotheses) *)
Example C07_nonvacuous :
  run0 (cfg0 true true []) h_f1 = None /\ run0 (cfg0 true true [2%nat]) h_f14 = None /\
  exists s0, pinit (cfg0 true true []) world0 = Some s0.
Proof. vm_compute. repeat split. eexists. reflexivity. Qed.
