(* C03 / F10 - what the repaired reader (c_fix_moveout = true) does with a directory that has left the tree:
   its watches are forgotten (_wd_for_path, _path_for_wd, kernel), a record the kernel still delivers for a
   forgotten descriptor produces no event, and no later record is translated to a path below the directory's
   former in-tree path - from the first record processed after its IN_MOVED_FROM on. *)
Require Import WD.Base.Prelude WD.Base.BStr WD.Model.SubEvents WD.Model.Emitter WD.Model.Fs WD.Model.Reader
               WD.Model.DelayQueue WD.Model.Grouping WD.Model.Pipeline WD.Model.Contract.
Require Import WD.Proofs.ReaderFixProofs WD.Proofs.ContractProofs.

(* ---- association lists *)
Section AL.
  Context {K V : Type} (keq : K -> K -> bool).
  Hypothesis keq_spec : forall a b, keq a b = true <-> a = b.

  Lemma keq_refl a : keq a a = true.
  Proof. now apply keq_spec. Qed.

  Lemma al_rem_eq a (m : list (K * V)) : alookup keq a (aremove keq a m) = None.
  Proof.
    induction m as [|[x v] m IH]; simpl; [reflexivity|]. destruct (keq a x) eqn:E; [exact IH|].
    simpl. now rewrite E.
  Qed.

  Lemma al_rem_ne a b (m : list (K * V)) : a <> b -> alookup keq a (aremove keq b m) = alookup keq a m.
  Proof.
    intros Hn. induction m as [|[x v] m IH]; simpl; [reflexivity|]. destruct (keq b x) eqn:Eb.
    - apply keq_spec in Eb. subst x. rewrite IH. destruct (keq a b) eqn:Ea; [|reflexivity].
      apply keq_spec in Ea. contradiction.
    - simpl. now rewrite IH.
  Qed.

  Lemma al_rem_some a b (m : list (K * V)) v :
    alookup keq a (aremove keq b m) = Some v -> alookup keq a m = Some v.
  Proof.
    destruct (keq a b) eqn:E.
    - apply keq_spec in E. subst. now rewrite al_rem_eq.
    - rewrite al_rem_ne; [auto|]. intros ->. now rewrite keq_refl in E.
  Qed.

  Lemma al_rem_none a b (m : list (K * V)) : alookup keq a m = None -> alookup keq a (aremove keq b m) = None.
  Proof.
    intros H. destruct (alookup keq a (aremove keq b m)) eqn:E; [|reflexivity].
    apply al_rem_some in E. congruence.
  Qed.

  Lemma al_in a (m : list (K * V)) v : alookup keq a m = Some v -> In a (map fst m).
  Proof.
    induction m as [|[x w] m IH]; simpl; [discriminate|]. destruct (keq a x) eqn:E; [|auto].
    apply keq_spec in E. auto.
  Qed.
End AL.

Lemma Neqb_spec a b : N.eqb a b = true <-> a = b.
Proof. apply N.eqb_eq. Qed.


Lemma has_wd_find k wd : has_wd k wd = false -> find (fun x => N.eqb (kw_wd x) wd) (k_watches k) = None.
Proof.
  unfold has_wd. induction (k_watches k) as [|x l IH]; simpl; [reflexivity|].
  destruct (N.eqb (kw_wd x) wd); [discriminate | exact IH].
Qed.

Lemma existsb_filter_neg {A} (f : A -> bool) l : existsb f (filter (fun x => negb (f x)) l) = false.
Proof. induction l as [|x l IH]; simpl; [reflexivity|]. destruct (f x) eqn:E; simpl; [|rewrite E]; exact IH. Qed.

Lemma existsb_filter_sub {A} (f g : A -> bool) l : existsb f (filter g l) = true -> existsb f l = true.
Proof.
  induction l as [|x l IH]; simpl; [auto|]. destruct (g x); simpl.
  - destruct (f x); [reflexivity | exact IH].
  - intros H. rewrite (IH H). apply orb_true_r.
Qed.

Lemma find_none_existsb {A} (f : A -> bool) l : find f l = None -> existsb f l = false.
Proof. induction l as [|x l IH]; simpl; [reflexivity|]. destruct (f x); [discriminate | exact IH]. Qed.

Lemma has_wd_rm k wd : has_wd (krm_watch k wd) wd = false.
Proof.
  unfold krm_watch, has_wd. destruct (find _ (k_watches k)) eqn:E; cbn [k_watches].
  - apply (existsb_filter_neg (fun x => N.eqb (kw_wd x) wd)).
  - now apply find_none_existsb.
Qed.

(* removing a watch never brings another one back *)
Lemma has_wd_rm_sub k wd' wd : has_wd (krm_watch k wd') wd = true -> has_wd k wd = true.
Proof.
  unfold krm_watch, has_wd. destruct (find _ (k_watches k)); cbn [k_watches]; [|auto].
  apply existsb_filter_sub.
Qed.

Section Forget.
  Variable C : cfg.

  (* forget_tree only removes *)
  Lemma forget_tree_mono keys p : forall r k r' k',
    forget_tree keys p r k = (r', k') ->
    (forall wd q, alookup N.eqb wd (pfw r') = Some q -> alookup N.eqb wd (pfw r) = Some q) /\
    (forall wd, has_wd k' wd = true -> has_wd k wd = true).
  Proof.
    induction keys as [|[q x] keys IH]; simpl; intros r k r' k' H.
    - inversion H; subst. split; auto.
    - destruct (beqb q p || starts (p ++ [sep]) q); [|eauto].
      destruct (alookup beqb q (wfp r)) as [wd|]; [|eauto].
      destruct (alookup N.eqb wd (pfw r)) as [q'|]; [|apply IH in H; exact H].
      destruct (beqb q' q); apply IH in H; cbn [pfw] in H; [|exact H].
      destruct H as [H1 H2]. split.
      + intros wd0 q0 H0. apply H1 in H0. now apply (al_rem_some N.eqb Neqb_spec) in H0.
      + intros wd0 H0. apply H2 in H0. now apply has_wd_rm_sub in H0.
  Qed.

  (* a key that is the directory or below it, whose descriptor maps back to it: everything about it is gone *)
  Lemma forget_tree_key keys p q wd : forall r k r' k',
    In q (map fst keys) -> tgt p q = true ->
    alookup beqb q (wfp r) = Some wd -> alookup N.eqb wd (pfw r) = Some q ->
    forget_tree keys p r k = (r', k') ->
    alookup beqb q (wfp r') = None /\ alookup N.eqb wd (pfw r') = None /\ has_wd k' wd = false.
  Proof.
    induction keys as [|[q1 x] keys IH]; simpl; intros r k r' k' Hin Ht Hw Hp H; [contradiction|].
    fold (tgt p q1) in H.
    destruct (beqb q1 q) eqn:E1.
    - (* this is the key *)
      apply beqb_eq in E1. subst q1. rewrite Ht, Hw, Hp, beqb_refl in H.
      destruct (forget_tree_mono _ _ _ _ _ _ H) as [M1 M2]. cbn [pfw] in M1.
      destruct (forget_tree_sub _ _ _ _ _ _ H) as [S1 _]. cbn [wfp] in S1.
      split; [|split].
      + destruct (alookup beqb q (wfp r')) eqn:E; [|reflexivity]. apply S1 in E.
        rewrite (al_rem_eq beqb) in E. discriminate.
      + destruct (alookup N.eqb wd (pfw r')) eqn:E; [|reflexivity]. apply M1 in E.
        rewrite (al_rem_eq N.eqb) in E. discriminate.
      + destruct (has_wd k' wd) eqn:E; [|reflexivity]. apply M2 in E. rewrite has_wd_rm in E. discriminate.
    - assert (Hne : q <> q1) by (intros ->; rewrite beqb_refl in E1; discriminate).
      assert (Hin' : In q (map fst keys)) by (destruct Hin as [Hin|Hin]; [congruence | exact Hin]).
      destruct (tgt p q1); [|eapply IH; eauto].
      destruct (alookup beqb q1 (wfp r)) as [wd1|] eqn:Ew1; [|eapply IH; eauto].
      assert (Hw' : alookup beqb q (aremove beqb q1 (wfp r)) = Some wd).
      { rewrite (al_rem_ne beqb beqb_eq) by exact Hne. exact Hw. }
      destruct (alookup N.eqb wd1 (pfw r)) as [q'|] eqn:Ep1;
        [|eapply IH in H; [exact H | exact Hin' | exact Ht | exact Hw' | exact Hp]].
      destruct (beqb q' q1) eqn:Eq';
        [|eapply IH in H; [exact H | exact Hin' | exact Ht | exact Hw' | exact Hp]].
      apply beqb_eq in Eq'. subst q'.
      eapply IH in H; [exact H | exact Hin' | exact Ht | exact Hw' |]. cbn [pfw].
      rewrite (al_rem_ne N.eqb Neqb_spec); [exact Hp|]. intros ->. rewrite Hp in Ep1. congruence.
  Qed.
End Forget.

(* ================================================================== the loop head after a directory move-out *)

Section MoveOut.
  Variable C : cfg.
  Hypothesis Hfix : c_fix_moveout C = true.

  (* a record for a descriptor the reader does not know produces no event and changes nothing (pinned code: KeyError) *)
  Lemma read_body_forgotten t r k acc e :
    alookup N.eqb (k_wd e) (pfw r) = None -> read_one_body C t (r, k, acc) e = Done (r, k, acc).
  Proof. intros H. unfold read_one_body. now rewrite H, Hfix. Qed.

  Lemma settle_pfw_sub r k e r0 k0 : settle_pending C r k e = (r0, k0) ->
    (forall wd q, alookup N.eqb wd (pfw r0) = Some q -> alookup N.eqb wd (pfw r) = Some q) /\
    (forall wd, has_wd k0 wd = true -> has_wd k wd = true) /\ pend r0 = None.
  Proof.
    unfold settle_pending. rewrite Hfix. destruct (pend r) as [[c p]|] eqn:Ep.
    - destruct (is_moved_to (k_mask e) && N.eqb (k_cookie e) c && amem N.eqb (k_wd e) (pfw r)).
      + intros H. inversion H; subst. cbn. auto.
      + intros H. destruct (forget_tree_mono _ _ _ _ _ _ H) as [M1 M2].
        destruct (forget_tree_sub _ _ _ _ _ _ H) as [_ [_ [_ M4]]]. cbn in *. auto.
    - intros H. inversion H; subst. auto.
  Qed.

  (* whatever is pending: a record for an unknown descriptor never produces an event *)
  Theorem read_one_forgotten t r k acc e :
    alookup N.eqb (k_wd e) (pfw r) = None ->
    exists r' k', read_one C t (r, k, acc) e = Done (r', k', acc) /\ alookup N.eqb (k_wd e) (pfw r') = None.
  Proof.
    intros H. unfold read_one. destruct (settle_pending C r k e) as [r0 k0] eqn:Es.
    destruct (settle_pfw_sub _ _ _ _ _ Es) as [M1 _].
    assert (H0 : alookup N.eqb (k_wd e) (pfw r0) = None).
    { destruct (alookup N.eqb (k_wd e) (pfw r0)) eqn:E; [|reflexivity]. apply M1 in E. congruence. }
    exists r0, k0. split; [now apply read_body_forgotten | exact H0].
  Qed.

  (* the first record after a directory IN_MOVED_FROM that is not its IN_MOVED_TO: the directory's watches are
     forgotten - the key, the descriptor entry and the kernel watch of the directory and of everything below it *)
  Theorem moveout_forgets r k e c p r0 k0 :
    pend r = Some (c, p) -> is_moved_to (k_mask e) && N.eqb (k_cookie e) c && amem N.eqb (k_wd e) (pfw r) = false ->
    settle_pending C r k e = (r0, k0) ->
    forall q wd, tgt p q = true -> alookup beqb q (wfp r) = Some wd -> alookup N.eqb wd (pfw r) = Some q ->
      alookup beqb q (wfp r0) = None /\ alookup N.eqb wd (pfw r0) = None /\ has_wd k0 wd = false.
  Proof.
    intros Hp Hm Hs q wd Ht Hw Hq. rewrite (settle_pending_forget C r k e c p Hfix Hp Hm) in Hs.
    eapply (forget_tree_key (wfp r) p q wd); [| exact Ht | | | exact Hs]; cbn [wfp pfw]; try assumption.
    eapply (al_in beqb beqb_eq). exact Hw.
  Qed.

  (* ... and then every record the kernel still delivers for one of those descriptors is dropped *)
  Corollary moveout_record_dropped t r k e c p r0 k0 acc e' :
    pend r = Some (c, p) -> is_moved_to (k_mask e) && N.eqb (k_cookie e) c && amem N.eqb (k_wd e) (pfw r) = false ->
    settle_pending C r k e = (r0, k0) ->
    forall q, tgt p q = true -> alookup beqb q (wfp r) = Some (k_wd e') -> alookup N.eqb (k_wd e') (pfw r) = Some q ->
    read_one_body C t (r0, k0, acc) e' = Done (r0, k0, acc).
  Proof.
    intros Hp Hm Hs q Ht Hw Hq. apply read_body_forgotten.
    now destruct (moveout_forgets _ _ _ _ _ _ _ Hp Hm Hs q (k_wd e') Ht Hw Hq) as [_ [H _]].
  Qed.

  (* with consistent bookkeeping no descriptor is left that is recorded at or below the former path *)
  Theorem moveout_clean r k e c p r0 k0 :
    consistent r -> pfw_norm r ->
    pend r = Some (c, p) -> is_moved_to (k_mask e) && N.eqb (k_cookie e) c && amem N.eqb (k_wd e) (pfw r) = false ->
    settle_pending C r k e = (r0, k0) -> clean p r0.
  Proof.
    intros Hc Hn Hp Hm Hs wd q Hq. destruct (settle_pfw_sub _ _ _ _ _ Hs) as [M1 _].
    assert (Hq' := M1 _ _ Hq). split; [|exact (Hn _ _ Hq')].
    destruct (tgt p q) eqn:Et; [|reflexivity].
    destruct (moveout_forgets _ _ _ _ _ _ _ Hp Hm Hs q wd Et (Hc _ _ Hq') Hq') as [_ [H _]]. congruence.
  Qed.
End MoveOut.

(* ================================================================== no record is translated below the former path *)
Section NoPhantom.
  Variable C : cfg.
  Hypothesis Hfix : c_fix_moveout C = true.
  Variable p : bytes.


  Lemma clean_path r wd a n : clean p r -> alookup N.eqb wd (pfw r) = Some a -> name_ok n ->
    under p (match n with [] => a | _ => join a n end) = false.
  Proof.
    intros Hc Ha Hn. destruct (Hc _ _ Ha) as [Ht [Hne Hs]]. unfold tgt in Ht. apply orb_false_iff in Ht as [Ht1 Ht2].
    destruct Hn as [->|Hn]; [exact Ht2|].
    assert (Hj : match n with [] => a | _ => join a n end = a ++ sep :: n).
    { rewrite <- (join_name a n Hne Hs Hn). destruct n; [discriminate | reflexivity]. }
    rewrite Hj, under_child by exact Hn. unfold under. now rewrite Ht1, Ht2.
  Qed.

  Definition pfw_sub (r' r : rstate) : Prop :=
    forall wd q, alookup N.eqb wd (pfw r') = Some q -> alookup N.eqb wd (pfw r) = Some q.

  Lemma clean_sub r r' : clean p r -> pfw_sub r' r -> clean p r'.
  Proof. intros Hc Hs wd q Hq. apply (Hc wd q). now apply Hs. Qed.

  Lemma body_no_phantom t r k acc e r' k' acc' :
    clean p r -> quiet e -> read_one_body C t (r, k, acc) e = Done (r', k', acc') ->
    (acc' = acc \/ exists ev, acc' = acc ++ [ev] /\ under p (r_path ev) = false) /\ pfw_sub r' r.
  Proof.
    intros Hc [Hn [Hto Hcr]] H. unfold read_one_body in H.
    destruct (alookup N.eqb (k_wd e) (pfw r)) as [a|] eqn:Ea.
    2:{ rewrite Hfix in H. inversion H; subst. split; [now left | intros ? ? ?; assumption]. }
    assert (Hpath := clean_path r (k_wd e) a (k_name e) Hc Ea Hn).
    assert (Hcr' : forall b, b && is_directory (k_mask e) && is_create (k_mask e) = false).
    { intros b. now rewrite <- andb_assoc, Hcr, andb_false_r. }
    rewrite Hto in H.
    set (sp := match k_name e with [] => a | _ :: _ => join a (k_name e) end) in *.
    set (ev := {| r_wd := k_wd e; r_mask := k_mask e; r_cookie := k_cookie e; r_name := k_name e; r_path := sp |}) in *.
    assert (Hev : under p (r_path ev) = false) by exact Hpath.
    destruct (is_moved_from (k_mask e)).
    - (* first half of a rename: the tables are untouched *)
      cbn [pfw wfp mvf calls pend] in H.
      destruct (Emitter.is_ignored (k_mask e)).
      + rewrite Ea in H. cbn [pfw wfp] in H.
        match type of H with context [alookup beqb a ?m] => destruct (alookup beqb a m) as [w0|] end.
        * destruct (N.eqb w0 (k_wd e)); cbn [r_path] in H; rewrite Hcr' in H; inversion H; subst;
            (split; [right; eauto | intros wd q Hq; cbn [pfw] in Hq; now apply (al_rem_some N.eqb Neqb_spec) in Hq]).
        * destruct (c_fix_ignored C); [|discriminate]. cbn [r_path] in H. rewrite Hcr' in H. inversion H; subst.
          split; [right; eauto | intros wd q Hq; cbn [pfw] in Hq; now apply (al_rem_some N.eqb Neqb_spec) in Hq].
      + cbn [r_path] in H. rewrite Hcr' in H. inversion H; subst. split; [right; eauto | intros wd q Hq; exact Hq].
    - destruct (Emitter.is_ignored (k_mask e)).
      + rewrite Ea in H. cbn [pfw wfp] in H.
        match type of H with context [alookup beqb a ?m] => destruct (alookup beqb a m) as [w0|] end.
        * destruct (N.eqb w0 (k_wd e)); cbn [r_path] in H; rewrite Hcr' in H; inversion H; subst;
            (split; [right; eauto | intros wd q Hq; cbn [pfw] in Hq; now apply (al_rem_some N.eqb Neqb_spec) in Hq]).
        * destruct (c_fix_ignored C); [|discriminate]. cbn [r_path] in H. rewrite Hcr' in H. inversion H; subst.
          split; [right; eauto | intros wd q Hq; cbn [pfw] in Hq; now apply (al_rem_some N.eqb Neqb_spec) in Hq].
      + cbn [r_path] in H. rewrite Hcr' in H. inversion H; subst. split; [right; eauto | intros wd q Hq; exact Hq].
  Qed.

  (* one loop iteration, whatever is pending; [r0] is an earlier state whose descriptor table bounds the current one:
     a record that is quiet, or whose descriptor was already unknown in [r0] *)
  Lemma read_one_no_phantom t r0 r k acc e r' k' acc' :
    clean p r -> pfw_sub r r0 -> quiet_or_unknown r0 e -> read_one C t (r, k, acc) e = Done (r', k', acc') ->
    (acc' = acc \/ exists ev, acc' = acc ++ [ev] /\ under p (r_path ev) = false) /\ clean p r' /\ pfw_sub r' r0.
  Proof.
    intros Hc Hs0 Hq H. unfold read_one in H. destruct (settle_pending C r k e) as [r1 k1] eqn:Es.
    destruct (settle_pfw_sub C Hfix _ _ _ _ _ Es) as [M1 _].
    assert (Hc1 : clean p r1) by (apply (clean_sub r); assumption).
    assert (Hs1 : pfw_sub r1 r0) by (intros wd q Hwq; apply Hs0, M1, Hwq).
    destruct Hq as [Hq|Hu].
    - destruct (body_no_phantom _ _ _ _ _ _ _ _ Hc1 Hq H) as [H1 H2]. split; [exact H1|]. split.
      + now apply (clean_sub r1).
      + intros wd q Hwq. apply Hs1, H2, Hwq.
    - assert (Hu1 : alookup N.eqb (k_wd e) (pfw r1) = None).
      { destruct (alookup N.eqb (k_wd e) (pfw r1)) eqn:E; [|reflexivity]. apply Hs1 in E. congruence. }
      rewrite (read_body_forgotten C Hfix _ _ _ _ _ Hu1) in H. inversion H; subst. split; [now left | split; assumption].
  Qed.

  (* any number of such records, in any number of batches *)
  Theorem batch_no_phantom t r0 b : forall r k acc r' k' acc',
    clean p r -> pfw_sub r r0 -> Forall (quiet_or_unknown r0) b -> read_batch C t (r, k, acc) b = Done (r', k', acc') ->
    clean p r' /\ pfw_sub r' r0 /\
    exists new, acc' = acc ++ new /\ Forall (fun ev => under p (r_path ev) = false) new.
  Proof.
    induction b as [|e b IH]; intros r k acc r' k' acc' Hc Hs Hq H; cbn [read_batch] in H.
    - inversion H; subst. split; [exact Hc|]. split; [exact Hs|]. exists []. split; [now rewrite app_nil_r | constructor].
    - inversion Hq as [|? ? Hqe Hqb]; subst.
      destruct (read_one C t (r, k, acc) e) as [[[r1 k1] acc1]|s1] eqn:E1; [|discriminate].
      destruct (read_one_no_phantom _ _ _ _ _ _ _ _ _ Hc Hs Hqe E1) as [Ha [Hc1 Hs1]].
      destruct (IH _ _ _ _ _ _ Hc1 Hs1 Hqb H) as [Hc' [Hs' [new [Hn Hf]]]]. split; [exact Hc'|]. split; [exact Hs'|].
      destruct Ha as [->|[ev [-> Hev]]].
      + exists new. auto.
      + exists (ev :: new). split; [now rewrite Hn, <- app_assoc | constructor; assumption].
  Qed.
End NoPhantom.

(* "From the first record processed after its IN_MOVED_FROM on": in a state with consistent, normalised tables in which the
   IN_MOVED_FROM of directory [p] is pending and the next record is not [p]'s IN_MOVED_TO on a descriptor the reader knows
   (i.e. the directory has left the tree - this includes its IN_MOVED_TO delivered through a forgotten descriptor), a batch
   of records that are quiet or arrive on unknown descriptors yields no raw event with a path below [p], and leaves no
   descriptor recorded at or below [p]. *)
Theorem no_phantom_after_moveout C t r k acc c p e b r' k' acc' :
  c_fix_moveout C = true -> consistent r -> pfw_norm r -> pend r = Some (c, p) ->
  is_moved_to (k_mask e) && N.eqb (k_cookie e) c && amem N.eqb (k_wd e) (pfw r) = false ->
  Forall (quiet_or_unknown r) (e :: b) ->
  read_batch C t (r, k, acc) (e :: b) = Done (r', k', acc') ->
  clean p r' /\ exists new, acc' = acc ++ new /\ Forall (fun ev => under p (r_path ev) = false) new.
Proof.
  intros Hfix Hc Hn Hp Hm Hq H. cbn [read_batch] in H.
  destruct (read_one C t (r, k, acc) e) as [[[r1 k1] acc1]|s1] eqn:E1; [|discriminate].
  inversion Hq as [|? ? Hqe Hqb]; subst.
  unfold read_one in E1. destruct (settle_pending C r k e) as [r0 k0] eqn:Es.
  assert (Hc0 : clean p r0) by (eapply moveout_clean; eauto).
  destruct (settle_pfw_sub C Hfix _ _ _ _ _ Es) as [M1 _].
  assert (Hstep : (acc1 = acc \/ exists ev, acc1 = acc ++ [ev] /\ under p (r_path ev) = false) /\ pfw_sub r1 r0).
  { destruct Hqe as [Hqe|Hu].
    - exact (body_no_phantom C Hfix p _ _ _ _ _ _ _ _ Hc0 Hqe E1).
    - assert (Hu0 : alookup N.eqb (k_wd e) (pfw r0) = None).
      { destruct (alookup N.eqb (k_wd e) (pfw r0)) eqn:E; [|reflexivity]. apply M1 in E. congruence. }
      rewrite (read_body_forgotten C Hfix _ _ _ _ _ Hu0) in E1. inversion E1; subst.
      split; [now left | intros ? ? ?; assumption]. }
  destruct Hstep as [Ha Hs1].
  assert (Hc1 : clean p r1) by (now apply (clean_sub p r0)).
  assert (Hs1' : pfw_sub r1 r) by (intros wd q Hwq; apply M1, Hs1, Hwq).
  destruct (batch_no_phantom C Hfix p t r b _ _ _ _ _ _ Hc1 Hs1' Hqb H) as [Hc' [_ [new [Hnew Hf]]]]. split; [exact Hc'|].
  destruct Ha as [->|[ev [-> Hev]]].
  - exists new. auto.
  - exists (ev :: new). split; [now rewrite Hnew, <- app_assoc | constructor; assumption].
Qed.

(* ================================================================== on the Pipeline model, by computation *)
(* the configuration of the phantom witness with the repair switched on (= the current code) *)
Definition fx_cfg : pcfg :=
  {| pc_reader := {| c_recursive := true; c_mask := WATCHDOG_ALL; c_root := ph_R; c_fix_ignored := true;
                     c_fix_movein := true; c_fix_simulate := true; c_fix_relabel := true; c_fix_moveout := true; c_faults := [] |};
     pc_full := false; pc_filter := None; pc_delay := 5 |}.

(* mkdir R/d; drain; mv R/d O/d; drain; touch O/d/g; drain - the history that refutes soundness of the pinned code -
   is now sound: nothing is delivered for the touch, no event lies below /R/d, and d's watch is gone everywhere *)
Lemma phantom_repaired :
  exists s0 s obs, pinit fx_cfg ph_world = Some s0 /\ prun fx_cfg s0 ph_history [] = Done (s, obs) /\
    sound_along fx_cfg s0 [] ph_history = true /\
    forallb (fun ev => negb (under ph_Rd (ev_src ev))) (p_out s) = true /\
    wfp (p_r s) = [(ph_R, 1%N)] /\ pfw (p_r s) = [(1%N, ph_R)] /\ pend (p_r s) = None /\
    has_wd (p_k s) 2 = false.
Proof.
  eexists; eexists; eexists. split; [vm_compute; reflexivity|]. split; [vm_compute; reflexivity|].
  repeat split; vm_compute; reflexivity.
Qed.

(* Two directories leave the tree in one burst and the second is moved INTO the first (mv R/a O/x; mv R/b O/x/b, read in
   one batch).  The kernel delivers the second IN_MOVED_TO through the first directory's still existing watch, a
   descriptor the reader has just forgotten.  With the FIRST version of the repair (candidate cleared on any IN_MOVED_TO
   with the same cookie; not expressible with the flags of [cfg]) that record cancelled the pending candidate although it
   was then skipped: R/b kept its watch and its stale path, and mkdir O/x/b/z was delivered as DirCreated(R/b/z) (found by
   the thorough tier of this check on the real patched observer; corpus/C03/f10-nested-moveout.json).  The current code
   keeps the candidate only when the IN_MOVED_TO arrives on a known descriptor: *)
Definition gap_Ra : bytes := [47; 82; 47; 97]%N.                      (* /R/a *)
Definition gap_Rb : bytes := [47; 82; 47; 98]%N.                      (* /R/b *)
Definition gap_Ox : bytes := [47; 79; 47; 120]%N.                     (* /O/x *)
Definition gap_Oxb : bytes := [47; 79; 47; 120; 47; 98]%N.            (* /O/x/b *)
Definition gap_Oxbz : bytes := [47; 79; 47; 120; 47; 98; 47; 122]%N.  (* /O/x/b/z *)
Definition gap_Rbz : bytes := [47; 82; 47; 98; 47; 122]%N.            (* /R/b/z - the stale in-tree path *)

Definition gap_history : list action :=
  [AOp (Mkdir gap_Ra); ARead 100; AEmit; AEmit; AOp (Mkdir gap_Rb); ARead 100; AEmit; AEmit;
   AOp (Rename gap_Ra gap_Ox); AOp (Rename gap_Rb gap_Oxb); ARead 100; ATick 10; AEmit; AEmit; AEmit; AEmit;
   AOp (Mkdir gap_Oxbz); ARead 100; AEmit; AEmit; AEmit].

(* sound; no event below /R/a or /R/b; both sub-trees forgotten: only the root is left in the tables and in the kernel *)
Lemma nested_moveout_repaired :
  exists s0 s obs, pinit fx_cfg ph_world = Some s0 /\ prun fx_cfg s0 gap_history [] = Done (s, obs) /\
    sound_along fx_cfg s0 [] gap_history = true /\
    forallb (fun ev => negb (under gap_Ra (ev_src ev)) && negb (under gap_Rb (ev_src ev))) (p_out s) = true /\
    wfp (p_r s) = [(ph_R, 1%N)] /\ pfw (p_r s) = [(1%N, ph_R)] /\ pend (p_r s) = None /\
    has_wd (p_k s) 2 = false /\ has_wd (p_k s) 3 = false.
Proof.
  eexists; eexists; eexists. split; [vm_compute; reflexivity|]. split; [vm_compute; reflexivity|].
  repeat split; vm_compute; reflexivity.
Qed.

(* history-level soundness for the CURRENT code (all five reader repairs on): stated, not proved; no refutation is known
   any more (F10, its nested variant and F10e are repaired; see the _repaired lemmas) *)
Definition sound_full_current : Prop :=
  forall P w s0 h, pc_filter P = None -> c_mask (pc_reader P) = WATCHDOG_ALL ->
    c_fix_ignored (pc_reader P) = true -> c_fix_movein (pc_reader P) = true -> c_fix_simulate (pc_reader P) = true ->
    c_fix_relabel (pc_reader P) = true -> c_fix_moveout (pc_reader P) = true ->
    pinit P w = Some s0 -> sound_along P s0 [] h = true.

(* ---- a concrete state for the non-vacuity example: right after the IN_MOVED_FROM of /R/d has been read *)
Lemma al_pair {V} (m : list (N * V)) a v : alookup N.eqb a m = Some v -> In (a, v) m.
Proof.
  induction m as [|[x w] m IH]; simpl; [discriminate|]. destruct (N.eqb a x) eqn:E; [|auto].
  apply N.eqb_eq in E. intros H. inversion H; subst. auto.
Qed.

Lemma consistent_sound r :
  forallb (fun x : N * bytes => match alookup beqb (snd x) (wfp r) with Some w => N.eqb w (fst x) | None => false end)
          (pfw r) = true -> consistent r.
Proof.
  intros H wd q Hq. rewrite forallb_forall in H. specialize (H _ (al_pair _ _ _ Hq)). cbn [fst snd] in H.
  destruct (alookup beqb q (wfp r)); [|discriminate]. apply N.eqb_eq in H. now subst.
Qed.

Lemma pfw_norm_sound r :
  forallb (fun x : N * bytes => negb (is_nil (snd x)) && negb (last_is_sep (snd x))) (pfw r) = true -> pfw_norm r.
Proof.
  intros H wd q Hq. rewrite forallb_forall in H. specialize (H _ (al_pair _ _ _ Hq)). cbn [fst snd] in H.
  apply andb_true_iff in H as [H1 H2]. apply negb_true_iff in H1, H2. split; [|exact H2].
  intros ->. discriminate.
Qed.

Definition mo_state : option pstate :=
  match pinit fx_cfg ph_world with
  | Some s0 => match prun fx_cfg s0 [AOp (Mkdir ph_Rd); ARead 100; AEmit; AEmit; AOp (Rename ph_Rd ph_Od); ARead 100;
                                     AOp (Touch ph_Odg)] [] with
               | Done (s, _) => Some s
               | Crash _ => None
               end
  | None => None
  end.

Lemma moveout_nonvacuous :
  exists s e b, mo_state = Some s /\ k_queue (p_k s) = e :: b /\
    pend (p_r s) = Some (1%N, ph_Rd) /\ consistent (p_r s) /\ pfw_norm (p_r s) /\
    is_moved_to (k_mask e) && N.eqb (k_cookie e) 1 && amem N.eqb (k_wd e) (pfw (p_r s)) = false /\ Forall quiet (e :: b) /\ length b = 2%nat /\
    alookup beqb ph_Rd (wfp (p_r s)) = Some 2%N /\ alookup N.eqb 2%N (pfw (p_r s)) = Some ph_Rd /\ has_wd (p_k s) 2 = true /\
    exists r' k', read_batch (pc_reader fx_cfg) (w_fs (p_world s)) (p_r s, p_k s, []) (e :: b) = Done (r', k', []) /\
                  wfp r' = [(ph_R, 1%N)] /\ has_wd k' 2 = false.
Proof.
  eexists; eexists; eexists. split; [vm_compute; reflexivity|]. split; [vm_compute; reflexivity|].
  split; [vm_compute; reflexivity|]. split; [apply consistent_sound; vm_compute; reflexivity|].
  split; [apply pfw_norm_sound; vm_compute; reflexivity|]. split; [vm_compute; reflexivity|].
  split; [repeat constructor; try (right; vm_compute; reflexivity); vm_compute; reflexivity|].
  split; [reflexivity|]. split; [vm_compute; reflexivity|]. split; [vm_compute; reflexivity|].
  split; [vm_compute; reflexivity|]. eexists; eexists. split; [vm_compute; reflexivity|]. split; vm_compute; reflexivity.
Qed.

(* ---- F10e: the known finding that still refutes history-level soundness of the current code *)
Definition e_Rc : bytes := [47; 82; 47; 99]%N.                        (* /R/c *)
Definition e_Rb : bytes := [47; 82; 47; 98]%N.                        (* /R/b *)
Definition e_Rcc : bytes := [47; 82; 47; 99; 47; 99]%N.               (* /R/c/c *)
Definition e_Rcb : bytes := [47; 82; 47; 99; 47; 98]%N.               (* /R/c/b *)
Definition e_Rccb : bytes := [47; 82; 47; 99; 47; 99; 47; 98]%N.      (* /R/c/c/b - where the event is wrongly placed *)

(* mkdir R/c; mv R/c R/b; mkdir R/c back to back; drain; mv R/b R/c/c; mkdir R/c/b; drain *)
Definition f10e_history : list action :=
  [AOp (Mkdir e_Rc); AOp (Rename e_Rc e_Rb); AOp (Mkdir e_Rc); ARead 100; ATick 10;
   AEmit; AEmit; AEmit; AEmit; AEmit; AEmit;
   AOp (Rename e_Rb e_Rcc); AOp (Mkdir e_Rcb); ARead 100; ATick 10; AEmit; AEmit; AEmit; AEmit; AEmit].

(* the code before the repair of F10e: c_fix_relabel := false, every other reader repair on *)
Definition f10e_cfg : pcfg :=
  {| pc_reader := {| c_recursive := true; c_mask := WATCHDOG_ALL; c_root := ph_R; c_fix_ignored := true;
                     c_fix_movein := true; c_fix_simulate := true; c_fix_relabel := false; c_fix_moveout := true;
                     c_faults := [] |};
     pc_full := false; pc_filter := None; pc_delay := 5 |}.

Lemma sound_pinned_refuted_f10e :
  c_fix_relabel (pc_reader f10e_cfg) = false /\
  exists s0 s obs, pinit f10e_cfg ph_world = Some s0 /\ prun f10e_cfg s0 f10e_history [] = Done (s, obs) /\
    In (mk DirCreated e_Rccb []) (p_out s) /\ fexists e_Rccb (w_fs (p_world s)) = false /\
    fexists e_Rcb (w_fs (p_world s)) = true /\
    sound_along f10e_cfg s0 [] f10e_history = false.
Proof.
  split; [reflexivity|].
  eexists; eexists; eexists. split; [vm_compute; reflexivity|]. split; [vm_compute; reflexivity|].
  split; [|repeat split; vm_compute; reflexivity]. vm_compute. do 10 right. left. reflexivity.
Qed.

(* every path that exists at some point of the history *)
Definition f10e_paths : list bytes := [ph_R; e_Rc; e_Rb; e_Rcc; e_Rcb].
Definition known_path (x : bytes) : bool := is_nil x || existsb (beqb x) f10e_paths.

(* the same history on the current code (all repairs on): sound; every event path is a path that existed; the final
   tables are inverse to each other and record every kernel watch under the present path of its inode *)
Lemma f10e_repaired :
  exists s0 s obs, pinit fx_cfg ph_world = Some s0 /\ prun fx_cfg s0 f10e_history [] = Done (s, obs) /\
    sound_along fx_cfg s0 [] f10e_history = true /\
    forallb (fun ev => known_path (ev_src ev) && known_path (ev_dest ev)) (p_out s) = true /\
    In (mk DirCreated e_Rcb []) (p_out s) /\
    wfp (p_r s) = [(ph_R, 1%N); (e_Rc, 2%N); (e_Rcc, 3%N); (e_Rcb, 4%N)] /\
    pfw (p_r s) = [(1%N, ph_R); (2%N, e_Rc); (3%N, e_Rcc); (4%N, e_Rcb)] /\
    consistent (p_r s) /\
    forallb (fun kw => match alookup N.eqb (kw_wd kw) (pfw (p_r s)) with
                       | Some q => N.eqb (ino_of (w_fs (p_world s)) q) (kw_ino kw) && fisdir q (w_fs (p_world s))
                       | None => false end) (k_watches (p_k s)) = true.
Proof.
  eexists; eexists; eexists. split; [vm_compute; reflexivity|]. split; [vm_compute; reflexivity|].
  split; [vm_compute; reflexivity|]. split; [vm_compute; reflexivity|].
  split; [vm_compute; do 10 right; left; reflexivity|].
  split; [vm_compute; reflexivity|]. split; [vm_compute; reflexivity|].
  split; [apply consistent_sound; vm_compute; reflexivity | vm_compute; reflexivity].
Qed.
